(* Proofs about the second extension of the rule language (Model/PatternY.v, Spec/P_C07Y.v)
   and ignore_case for the extended languages. *)
From Coq Require Import List String Ascii Bool Arith Lia.
From Annet Require Import Base.Str Model.Pattern Model.PatternX Model.PatternY.
From Annet Require Import Spec.P_C07 Spec.P_C07X Spec.P_C07Y.
From Annet Require Import Proofs.RegexProofs Proofs.PatternProofs Proofs.PatternXProofs.
Import ListNotations.
Open Scope string_scope.
Open Scope list_scope.

(* ------------------------------------------------------------------------------ *)
(* tokens                                                                          *)

Lemma xtok_match_iff ic t x b :
  (xtok_ok ic false t x = true /\ b = xtok_bind false t x) <-> xtok_binds ic t x b.
Proof.
  split.
  - intros [H ->]. destruct t as [w| |r| |r|r]; cbn in *.
    + constructor. exact H.
    + constructor.
    + constructor. apply sre_imatch_lang. exact H.
    + discriminate.
    + constructor. apply sre_imatch_lang. exact H.
    + constructor. apply sre_imatch_lang. exact H.
  - intro H. inversion H; subst; cbn; split; try reflexivity; try assumption;
      apply sre_imatch_lang; assumption.
Qed.

Lemma split_by_length {A} (l u v : list A) n :
  l = u ++ v -> List.length v = n ->
  firstn (List.length l - n) l = u /\ skipn (List.length l - n) l = v.
Proof.
  intros -> L. rewrite app_length.
  replace (List.length u + List.length v - n) with (List.length u + 0) by lia.
  split.
  - rewrite firstn_app_2. cbn. apply app_nil_r.
  - rewrite Nat.add_0_r. apply skipn_app_exact.
Qed.

Lemma glue_match_iff ic r suf x b :
  glue_match ic r suf x = Some b <-> ytok_binds ic (YGlue r suf) x b.
Proof.
  unfold glue_match. split.
  - intro H.
    destruct (Nat.leb (List.length (l_of suf)) (List.length (l_of x))) eqn:L; [|discriminate].
    destruct (sre_run ic r _) eqn:R; [|discriminate].
    destruct (word_eq ic suf _) eqn:W; [|discriminate]. cbn in H. injection H as <-.
    apply Nat.leb_le in L.
    eapply YB_glue with (v := skipn (List.length (l_of x) - List.length (l_of suf)) (l_of x)).
    + symmetry. apply firstn_skipn.
    + apply sre_run_lang. exact R.
    + rewrite skipn_length. lia.
    + exact W.
  - intro H. inversion H as [| r' suf' x' u v E Hl Hn Hw]; subst.
    destruct (split_by_length (l_of x) u v _ E Hn) as [F S].
    rewrite F, S. rewrite E, app_length, Hn.
    replace (Nat.leb (List.length (l_of suf)) (List.length u + List.length (l_of suf))) with true
      by (symmetry; apply Nat.leb_le; lia).
    apply sre_run_lang in Hl. rewrite Hl, Hw. reflexivity.
Qed.

Lemma ytok_match_iff ic t x b : ytok_match ic t x = Some b <-> ytok_binds ic t x b.
Proof.
  destruct t as [t|r suf]; [|apply glue_match_iff]. cbn [ytok_match]. split.
  - intro H. destruct (xtok_ok ic false t x) eqn:E; [|discriminate]. injection H as <-.
    constructor. apply xtok_match_iff. auto.
  - intro H. inversion H; subst. apply xtok_match_iff in H1 as [H1 ->]. rewrite H1. reflexivity.
Qed.

(* ------------------------------------------------------------------------------ *)
(* the special last words                                                          *)

Lemma sre_run_pre1_lang ic : forall w r,
  sre_run_pre1 ic r w = true <-> exists u v, w = u ++ v /\ v <> [] /\ sre_lang ic r u.
Proof.
  induction w as [|c w IH]; intro r; cbn [sre_run_pre1].
  - split; [discriminate|]. intros (u & v & E & N & _). symmetry in E.
    apply app_nil_both in E as [_ ->]. congruence.
  - split.
    + intro H. apply orb_true_iff in H as [H|H].
      * exists [], (c :: w). repeat split; [discriminate|]. apply (nullable_lang ic). exact H.
      * apply IH in H as (u & v & -> & N & H). exists (c :: u), v. repeat split; [exact N|].
        apply deriv_lang. exact H.
    + intros (u & v & E & N & H). destruct u as [|d u].
      * apply (nullable_lang ic) in H. rewrite H. reflexivity.
      * cbn in E. injection E as <- ->. apply orb_true_iff. right.
        apply IH. exists u, v. repeat split; [exact N|]. apply deriv_lang. exact H.
Qed.

Lemma yend_match_iff ic e ws key : yend_match ic e ws = Some key <-> yend_binds ic e ws key.
Proof.
  destruct e as [| |w|w|a plus|w|r]; cbn [yend_match].
  - split; [intro H; injection H as <-; constructor | intro H; inversion H; reflexivity].
  - split.
    + intro H. destruct ws as [|x ws]; [discriminate|]. injection H as <-. constructor. discriminate.
    + intro H. inversion H; subst. destruct ws; [congruence | reflexivity].
  - split.
    + intro H. destruct ws as [|x ws]; [discriminate|].
      destruct (word_prefix ic w x) eqn:E; [|discriminate]. injection H as <-. constructor. exact E.
    + intro H. inversion H; subst. rewrite H1. reflexivity.
  - split.
    + intro H. destruct ws as [|x ws]; [discriminate|].
      remember (l_of (join_with " " (x :: ws))) as t eqn:Et. remember (List.length (l_of w)) as n eqn:En.
      destruct (word_eq ic w (s_of (firstn n t))) eqn:W; [|discriminate].
      destruct (Nat.ltb n (List.length t)) eqn:L; [|discriminate]. cbn in H. injection H as <-.
      apply Nat.ltb_lt in L.
      eapply YE_littilde with (u := firstn n t).
      * discriminate.
      * rewrite <- Et. symmetry. apply firstn_skipn.
      * rewrite <- En. apply firstn_length_le. lia.
      * exact W.
      * intro E. apply (f_equal (@List.length ascii)) in E. rewrite skipn_length in E.
        cbn [List.length] in E. lia.
    + intro H. inversion H as [| | |w' rest u v Hne E Hl Hw Hv| | |]; subst.
      destruct ws as [|x ws]; [congruence|]. rewrite E.
      assert (F : firstn (List.length (l_of w)) (u ++ v) = u).
      { rewrite <- Hl. rewrite <- (Nat.add_0_r (List.length u)), firstn_app_2. cbn. apply app_nil_r. }
      assert (S : skipn (List.length (l_of w)) (u ++ v) = v).
      { rewrite <- Hl. apply skipn_app_exact. }
      rewrite F, S, Hw.
      replace (Nat.ltb (List.length (l_of w)) (List.length (u ++ v))) with true; [reflexivity|].
      symmetry. apply Nat.ltb_lt. rewrite app_length. destruct v; [congruence | cbn; lia].
  - split.
    + intro H. destruct ws as [|x ws]; [discriminate|].
      destruct plus.
      * destruct (sre_run_pre1 ic a _) eqn:R; [|discriminate]. injection H as <-.
        apply sre_run_pre1_lang in R as (u & v & E & N & L).
        eapply YE_rest with (u := u) (v := v); auto. discriminate.
      * destruct (sre_run_pre ic a _) eqn:R; [|discriminate]. injection H as <-.
        apply sre_run_pre_lang in R as (u & v & E & L).
        eapply YE_rest with (u := u) (v := v); auto; discriminate.
    + intro H. inversion H as [| | | |a' plus' rest u v Hne E Hl Hp| |]; subst.
      destruct ws as [|x ws]; [congruence|]. destruct plus.
      * replace (sre_run_pre1 ic a (l_of (join_with " " (x :: ws)))) with true; [reflexivity|].
        symmetry. apply sre_run_pre1_lang. exists u, v. auto.
      * replace (sre_run_pre ic a (l_of (join_with " " (x :: ws)))) with true; [reflexivity|].
        symmetry. apply sre_run_pre_lang. exists u, v. auto.
  - split.
    + intro H. destruct ws as [|x [|y ws]]; try discriminate.
      destruct (word_eq ic w x) eqn:E; [|discriminate]. injection H as <-. constructor. exact E.
    + intro H. inversion H; subst. rewrite H1. reflexivity.
  - split.
    + intro H. destruct ws as [|x [|y ws]]; try discriminate.
      destruct (sre_imatch ic r x) eqn:E; [|discriminate]. injection H as <-. constructor.
      apply sre_imatch_lang. exact E.
    + intro H. inversion H; subst. apply sre_imatch_lang in H1. rewrite H1. reflexivity.
Qed.

(* ------------------------------------------------------------------------------ *)
(* the matcher decides the declarative relation                                    *)

Theorem ymatch_toks_iff ic e p : forall ws key,
  ymatch_toks ic e p ws = Some key <-> ymatches_spec ic e p ws key.
Proof.
  induction p as [|t p IH]; intros ws key; cbn [ymatch_toks].
  - rewrite yend_match_iff. split; [intro H; constructor; exact H | intro H; inversion H; assumption].
  - split.
    + intro H. destruct ws as [|x ws]; [discriminate|].
      destruct (ytok_match ic t x) as [b|] eqn:E; [|discriminate].
      destruct (ymatch_toks ic e p ws) as [k|] eqn:Ek; [|discriminate].
      cbn in H. injection H as <-. constructor; [apply ytok_match_iff; exact E | apply IH; exact Ek].
    + intro H. inversion H as [|t' p' x ws' b k Hb Hm]; subst.
      apply ytok_match_iff in Hb. apply IH in Hm. rewrite Hb, Hm. reflexivity.
Qed.

Theorem yref_match_iff p ic row key :
  yref_match p ic row = Some key <-> ypat_spec ic p (words row) key.
Proof.
  unfold yref_match, ypat_spec. destruct (yproj p) as [xp|].
  - apply xref_match_iff.
  - apply ymatch_toks_iff.
Qed.

Theorem ypmatch_iff p ic row key : yquirk_free p = true ->
  (ypmatch p ic row = Some key <-> ypat_spec ic p (words row) key).
Proof.
  unfold yquirk_free, ypmatch, ypat_spec. destruct (yproj p) as [xp|]; intro Q.
  - apply xpmatch_iff. exact Q.
  - apply ymatch_toks_iff.
Qed.

(* at most one key *)
Theorem ypat_spec_functional ic p ws k1 k2 :
  ypat_spec ic p ws k1 -> ypat_spec ic p ws k2 -> k1 = k2.
Proof.
  unfold ypat_spec. destruct (yproj p) as [xp|].
  - intros [_ H1] [_ H2]. eapply xmatches_spec_functional; eauto.
  - intros H1 H2. apply ymatch_toks_iff in H1, H2. congruence.
Qed.

(* one key entry per placeholder *)
Lemma ytok_match_length ic t x b : ytok_match ic t x = Some b ->
  List.length b = if ytok_hole t then 1 else 0.
Proof.
  destruct t as [t|r suf]; cbn [ytok_match ytok_hole].
  - destruct (xtok_ok ic false t x) eqn:E; [|discriminate]. intro H. injection H as <-.
    destruct t; try reflexivity. discriminate.
  - unfold glue_match. destruct (_ && _ && _); [|discriminate]. intro H. injection H as <-. reflexivity.
Qed.

Lemma yend_match_length ic e ws key : yend_match ic e ws = Some key -> List.length key = yend_holes e.
Proof.
  destruct e as [| |w|w|a plus|w|r]; cbn [yend_match yend_holes]; intro H.
  - injection H as <-. reflexivity.
  - destruct ws; [discriminate|]. injection H as <-. reflexivity.
  - destruct ws; [discriminate|]. destruct (word_prefix ic w s); [|discriminate]. injection H as <-. reflexivity.
  - destruct ws; [discriminate|]. destruct (_ && _); [|discriminate]. injection H as <-. reflexivity.
  - destruct ws; [discriminate|].
    destruct (if plus then _ else _); [|discriminate]. injection H as <-. reflexivity.
  - destruct ws as [|x [|y ws]]; try discriminate. destruct (word_eq ic w x); [|discriminate].
    injection H as <-. reflexivity.
  - destruct ws as [|x [|y ws]]; try discriminate. destruct (sre_imatch ic r x); [|discriminate].
    injection H as <-. reflexivity.
Qed.

Theorem ymatch_key_length ic e p : forall ws key,
  ymatch_toks ic e p ws = Some key ->
  List.length key = List.length (filter ytok_hole p) + yend_holes e.
Proof.
  induction p as [|t p IH]; intros ws key H; cbn [ymatch_toks] in H.
  - apply yend_match_length in H. exact H.
  - destruct ws as [|x ws]; [discriminate|].
    destruct (ytok_match ic t x) as [b|] eqn:E; [|discriminate].
    destruct (ymatch_toks ic e p ws) as [k|] eqn:Ek; [|discriminate].
    cbn in H. injection H as <-. rewrite app_length, (IH _ _ Ek).
    apply ytok_match_length in E. rewrite E. cbn [filter]. destruct (ytok_hole t); cbn; lia.
Qed.

(* ------------------------------------------------------------------------------ *)
(* PatternX is the sub-language without the new forms                              *)

Lemma yproj_toks_embed xp : yproj_toks (map YX xp) = Some xp.
Proof. induction xp as [|t xp IH]; [reflexivity|]. cbn. rewrite IH. reflexivity. Qed.

Lemma yproj_embed xp : yproj (yembed xp) = Some xp.
Proof. apply yproj_toks_embed. Qed.

Lemma print_ypat_embed xp : print_ypat (yembed xp) = print_xpat xp.
Proof. unfold print_ypat, ypat_words, yembed. cbn. rewrite app_nil_r, map_map. reflexivity. Qed.

Theorem yrule_pat_conservative rule xp : xrule_pat rule = Some xp -> yrule_pat rule = Some (yembed xp).
Proof. unfold xrule_pat, yrule_pat, parse_ypat. intros ->. reflexivity. Qed.

Theorem yrule_match_conservative rule xp ic row :
  xrule_pat rule = Some xp -> yrule_match rule ic row = xrule_match rule ic row.
Proof.
  intro H. unfold yrule_match, xrule_match. rewrite (yrule_pat_conservative _ _ H), H.
  unfold ypmatch. rewrite yproj_embed. reflexivity.
Qed.

(* the relation of the new language, read on an embedded pattern, is PatternX's relation *)
Theorem ymatches_spec_embed ic xp : forallb (fun t => negb (is_xtilde t)) xp = true ->
  forall ws key, ymatches_spec ic EPlain (map YX xp) ws key <-> xmatches_spec ic xp ws key.
Proof.
  induction xp as [|t xp IH]; intros Hnt ws key.
  - cbn. split.
    + intro H. inversion H as [rest k Hb|]; subst. inversion Hb; subst. constructor.
    + intro H. inversion H; subst. constructor. constructor.
  - cbn [forallb] in Hnt. apply andb_true_iff in Hnt as [Ht Hnt]. cbn [map]. split.
    + intro H. inversion H as [|t' p' x ws' b k Hb Hm]; subst.
      inversion Hb; subst. constructor; [assumption | apply IH; assumption].
    + intro H. inversion H as [| rest Hne | t' p' x ws' b k Hb Hm]; subst.
      * discriminate.
      * constructor; [constructor; exact Hb | apply IH; assumption].
Qed.

Theorem ymatches_spec_embed_tilde ic xp : forallb (fun t => negb (is_xtilde t)) xp = true ->
  forall ws key, ymatches_spec ic ETilde (map YX xp) ws key <-> xmatches_spec ic (xp ++ [XTilde]) ws key.
Proof.
  induction xp as [|t xp IH]; intros Hnt ws key.
  - cbn. split.
    + intro H. inversion H as [rest k Hb|]; subst. inversion Hb; subst. constructor. assumption.
    + intro H. inversion H as [| rest Hne | t' p' x ws' b k Hb Hm]; subst.
      * constructor. constructor. assumption.
      * inversion Hb.
  - cbn [forallb] in Hnt. apply andb_true_iff in Hnt as [Ht Hnt]. cbn [map app]. split.
    + intro H. inversion H as [|t' p' x ws' b k Hb Hm]; subst.
      inversion Hb; subst. constructor; [assumption | apply IH; assumption].
    + intro H. inversion H as [| rest Hne | t' p' x ws' b k Hb Hm]; subst.
      * destruct xp; discriminate.
      * constructor; [constructor; exact Hb | apply IH; assumption].
Qed.

(* ------------------------------------------------------------------------------ *)
(* the parser only returns well-formed patterns that print back to the text         *)

Theorem parse_ypat_sound s p : parse_ypat s = Some p -> wf_ypat p = true /\ print_ypat p = s.
Proof.
  unfold parse_ypat. destruct (parse_xpat s) as [xp|] eqn:E.
  - intro H. injection H as <-. apply parse_xpat_sound in E as [W P].
    unfold wf_ypat. rewrite yproj_embed, print_ypat_embed. auto.
  - destruct (wf_row s); [|discriminate].
    destruct (parse_ynew (words s)) as [q|]; [|discriminate].
    destruct (yproj q) as [xq|] eqn:Pq; [discriminate|]. cbn [andb].
    destruct (wf_ynew q) eqn:W; [|discriminate]. cbn [andb].
    destruct (String.eqb (print_ypat q) s) eqn:Q; [|discriminate].
    intro H. injection H as <-. unfold wf_ypat. rewrite Pq. apply String.eqb_eq in Q. auto.
Qed.

(* ------------------------------------------------------------------------------ *)
(* the matching part of the predicate holds of the model                           *)

Lemma list_opt_eqb_refl (l : list (option (list string))) :
  list_eqb (opt_eqb list_str_eqb) l l = true.
Proof. apply list_eqb_refl. intros [k|]; [apply list_str_eqb_refl | reflexivity]. Qed.

Theorem P_C07Y_match_model x : qf_C07Y x = true -> P_C07Y_match x (model_C07Y x) = true.
Proof.
  unfold qf_C07Y, P_C07Y_match, model_C07Y. destruct (yrule_pat (ci_rule x)) as [p|]; [|discriminate].
  intro Q. cbn [co_rows]. rewrite map_map.
  match goal with |- list_eqb _ ?a ?b = true => replace a with b; [apply list_opt_eqb_refl|] end.
  apply map_ext. intro row.
  assert (M : ypmatch p (rule_ic (ci_rule x) (ci_ic x)) row = yref_match p (rule_ic (ci_rule x) (ci_ic x)) row).
  { unfold ypmatch, yref_match, yquirk_free in *. destruct (yproj p) as [xp|]; [|reflexivity].
    destruct xp; [reflexivity|]. unfold xpmatch, xref_match. apply xmatch_quirk_free. exact Q. }
  rewrite M. destruct (yref_match p _ row); reflexivity.
Qed.

(* ------------------------------------------------------------------------------ *)
(* ignore_case: the outcome depends on the row only up to letter case               *)

Lemma lprefix_ic_lower a : forall s, lprefix_ic true a (map lower s) = lprefix_ic true a s.
Proof.
  induction a as [|c a IH]; intros [|d s]; cbn; try reflexivity.
  rewrite chr_eq_lower, IH. reflexivity.
Qed.

Lemma word_prefix_lower w x : word_prefix true w (lower_str x) = word_prefix true w x.
Proof. unfold word_prefix, lower_str. rewrite l_of_s_of. apply lprefix_ic_lower. Qed.

Lemma sre_run_pre_lower w : forall r, sre_run_pre true r (map lower w) = sre_run_pre true r w.
Proof.
  induction w as [|c w IH]; intro r; [reflexivity|]. cbn [map sre_run_pre].
  rewrite deriv_lower, IH. reflexivity.
Qed.

Lemma sre_run_pre1_lower w : forall r, sre_run_pre1 true r (map lower w) = sre_run_pre1 true r w.
Proof.
  induction w as [|c w IH]; intro r; [reflexivity|]. cbn [map sre_run_pre1].
  rewrite deriv_lower, IH. reflexivity.
Qed.

Lemma sre_iprefix_lower r x : sre_iprefix true r (lower_str x) = sre_iprefix true r x.
Proof. unfold sre_iprefix, lower_str. rewrite l_of_s_of. apply sre_run_pre_lower. Qed.

Lemma xtok_ok_lower loose t x : xtok_ok true loose t (lower_str x) = xtok_ok true loose t x.
Proof.
  destruct t as [w| |r| |r|r]; cbn [xtok_ok]; try reflexivity.
  - destruct loose; [apply word_prefix_lower | apply word_eq_lower].
  - apply sre_imatch_lower.
  - destruct loose; [apply sre_iprefix_lower | apply sre_imatch_lower].
  - destruct loose; [apply sre_iprefix_lower | apply sre_imatch_lower].
Qed.

Lemma xtok_bind_lower cap t x : xtok_bind cap t (lower_str x) = map lower_str (xtok_bind cap t x).
Proof. destruct t as [w| |r| |r|r]; cbn [xtok_bind]; try reflexivity; destruct (cap && _); reflexivity. Qed.

Lemma option_map_app_lower (b : list string) (o1 o2 : option (list string)) :
  option_map (map lower_str) o1 = option_map (map lower_str) o2 ->
  option_map (map lower_str) (option_map (app (map lower_str b)) o1)
  = option_map (map lower_str) (option_map (app b) o2).
Proof.
  destruct o1 as [k1|], o2 as [k2|]; cbn; try congruence. intro H. injection H as H.
  rewrite !map_app, map_lower_idem, H. reflexivity.
Qed.

(* the extended language of PatternX, both peculiarities included *)
Theorem xmatch_words_ic_row cap nb p : forall ws,
  option_map (map lower_str) (xmatch_words cap nb p true (map lower_str ws)) =
  option_map (map lower_str) (xmatch_words cap nb p true ws).
Proof.
  induction p as [|t p IH]; intro ws; [reflexivity|].
  destruct (is_xtilde t) eqn:T.
  - destruct t; try discriminate. cbn [xmatch_words]. destruct p; [|reflexivity].
    destruct ws as [|x ws]; [reflexivity|].
    cbn [map option_map]. rewrite <- map_cons, !lower_join, map_lower_idem. reflexivity.
  - destruct ws as [|x ws]; [destruct t; try reflexivity; discriminate|].
    cbn [map]. rewrite !xmatch_cons by exact T. rewrite xtok_ok_lower.
    destruct (xtok_ok true _ t x); [|reflexivity].
    rewrite xtok_bind_lower. apply option_map_app_lower. apply IH.
Qed.

Theorem xpmatch_ic_row p ws :
  option_map (map lower_str) (xmatch_words (negb (has_star p)) (has_tildere p) p true (map lower_str ws)) =
  option_map (map lower_str) (xmatch_words (negb (has_star p)) (has_tildere p) p true ws).
Proof. apply xmatch_words_ic_row. Qed.

(* the second extension *)
Lemma s_of_map_lower l : s_of (map lower l) = lower_str (s_of l).
Proof. unfold lower_str. rewrite l_of_s_of. reflexivity. Qed.

Lemma l_of_lower_str x : l_of (lower_str x) = map lower (l_of x).
Proof. unfold lower_str. apply l_of_s_of. Qed.

Lemma glue_match_lower r suf x :
  glue_match true r suf (lower_str x) = option_map (map lower_str) (glue_match true r suf x).
Proof.
  unfold glue_match. rewrite l_of_lower_str, map_length, firstn_map, skipn_map.
  rewrite sre_run_lower, !s_of_map_lower, word_eq_lower.
  destruct (_ && _ && _); reflexivity.
Qed.

Lemma ytok_match_lower t x :
  ytok_match true t (lower_str x) = option_map (map lower_str) (ytok_match true t x).
Proof.
  destruct t as [t|r suf]; [|apply glue_match_lower]. cbn [ytok_match].
  rewrite xtok_ok_lower, xtok_bind_lower. destruct (xtok_ok true false t x); reflexivity.
Qed.

Lemma yend_match_lower e ws :
  option_map (map lower_str) (yend_match true e (map lower_str ws)) =
  option_map (map lower_str) (yend_match true e ws).
Proof.
  destruct e as [| |w|w|a plus|w|r]; cbn [yend_match].
  - reflexivity.
  - destruct ws as [|x ws]; [reflexivity|]. cbn [map option_map].
    rewrite <- map_cons, !lower_join, map_lower_idem. reflexivity.
  - destruct ws as [|x ws]; [reflexivity|]. cbn [map]. rewrite word_prefix_lower. reflexivity.
  - destruct ws as [|x ws]; [reflexivity|]. cbn [map]. rewrite <- !map_cons, <- lower_join.
    rewrite l_of_lower_str, map_length, firstn_map, skipn_map, !s_of_map_lower, word_eq_lower.
    destruct (_ && _); [|reflexivity]. cbn [option_map map]. rewrite lower_str_idem. reflexivity.
  - destruct ws as [|x ws]; [reflexivity|]. cbn [map]. rewrite <- !map_cons, <- lower_join.
    rewrite l_of_lower_str. destruct plus.
    + rewrite sre_run_pre1_lower. destruct (sre_run_pre1 true a _); [|reflexivity].
      cbn [option_map map]. rewrite lower_str_idem. reflexivity.
    + rewrite sre_run_pre_lower. destruct (sre_run_pre true a _); [|reflexivity].
      cbn [option_map map]. rewrite lower_str_idem. reflexivity.
  - destruct ws as [|x [|y ws]]; try reflexivity. cbn [map]. rewrite word_eq_lower. reflexivity.
  - destruct ws as [|x [|y ws]]; try reflexivity. cbn [map]. rewrite sre_imatch_lower.
    destruct (sre_imatch true r x); [|reflexivity]. cbn [option_map map]. rewrite lower_str_idem. reflexivity.
Qed.

Theorem ymatch_toks_ic_row e p : forall ws,
  option_map (map lower_str) (ymatch_toks true e p (map lower_str ws)) =
  option_map (map lower_str) (ymatch_toks true e p ws).
Proof.
  induction p as [|t p IH]; intro ws; cbn [ymatch_toks]; [apply yend_match_lower|].
  destruct ws as [|x ws]; [reflexivity|]. cbn [map]. rewrite ytok_match_lower.
  destruct (ytok_match true t x) as [b|]; [|reflexivity]. cbn [option_map].
  apply option_map_app_lower. apply IH.
Qed.
