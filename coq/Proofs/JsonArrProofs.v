(* C13 — lemma library, part 3: apply_json_fragment with glob pointers that step into and
   through ARRAYS, in the replace-only regime (every pattern selects the same pointers in the
   old document and in the fragment: Spec.P_C13_arr.wf_replace). *)
From Coq Require Import List String Ascii Bool Arith ZArith Lia.
From Annet Require Import Base.Str Model.Json Spec.P_C13 Spec.P_C13_arr Proofs.JsonFragProofs.
Import ListNotations.
Open Scope string_scope.
Open Scope list_scope.

Local Opaque fnm.
Arguments Nat.ltb : simpl never.
Arguments Nat.modulo : simpl never.
Arguments Nat.div : simpl never.

(* ---------------------------------------------------------------- str(i) is injective *)

(* (value, 10^length) of a decimal string *)
Fixpoint lv (s : string) : nat * nat :=
  match s with
  | EmptyString => (0, 1)
  | String c r => let '(v, p) := lv r in ((nat_of_ascii c - 48) * p + v, 10 * p)
  end.

Lemma digit_val n : n < 10 -> nat_of_ascii (digit n) - 48 = n.
Proof. intro H. unfold digit. rewrite nat_ascii_embedding by lia. lia. Qed.

Lemma lv_dec_aux f : forall n acc, n < f ->
  fst (lv (dec_aux f n acc)) = n * snd (lv acc) + fst (lv acc).
Proof.
  induction f as [|f IH]; intros n acc H; [lia|].
  cbn [dec_aux]. destruct (Nat.ltb n 10) eqn:E.
  - apply Nat.ltb_lt in E. cbn [lv]. destruct (lv acc) as [va pa]. cbn [fst snd].
    rewrite Nat.mod_small by lia. rewrite digit_val by lia. reflexivity.
  - apply Nat.ltb_ge in E. rewrite IH.
    + cbn [lv]. destruct (lv acc) as [va pa]. cbn [fst snd].
      rewrite digit_val by (apply Nat.mod_upper_bound; lia).
      pose proof (Nat.div_mod n 10 ltac:(lia)) as Hdm. nia.
    + assert (n / 10 < n) by (apply Nat.div_lt; lia). lia.
Qed.

Lemma lv_dec n : fst (lv (dec n)) = n.
Proof. unfold dec. rewrite lv_dec_aux by lia. cbn. lia. Qed.

Lemma dec_inj n m : dec n = dec m -> n = m.
Proof. intro H. rewrite <- (lv_dec n), <- (lv_dec m), H. reflexivity. Qed.

Lemma dash_not_dec j : "-" <> dec j.
Proof.
  intro E. assert (Hj : j = 0) by (rewrite <- (lv_dec j), <- E; reflexivity).
  subst j. vm_compute in E. discriminate E.
Qed.

Local Opaque dec.

(* ---------------------------------------------------------------- array members *)

Lemma indexed_keys l : forall i k c, In (k, c) (indexed i l) -> exists j, i <= j /\ k = dec j.
Proof.
  induction l as [|x t IH]; intros i k c H; cbn in H; [destruct H|].
  destruct H as [E|H].
  - injection E as E1 E2. exists i. split; [lia | symmetry; exact E1].
  - destruct (IH _ _ _ H) as [j [Hj Ek]]. exists j. split; [lia | exact Ek].
Qed.

Lemma indexed_lookup_In l : forall i k c, In (k, c) (indexed i l) -> lookup k (indexed i l) = Some c.
Proof.
  induction l as [|x t IH]; intros i k c H; cbn in H; [destruct H|].
  cbn [indexed lookup]. destruct H as [E|H].
  - injection E as E1 E2. subst. rewrite String.eqb_refl. reflexivity.
  - destruct (String.eqb k (dec i)) eqn:Ek.
    + apply String.eqb_eq in Ek. destruct (indexed_keys _ _ _ _ H) as [j [Hj Ej]].
      rewrite Ej in Ek. apply dec_inj in Ek. lia.
    + apply IH. exact H.
Qed.

Lemma children_py_false d : children_py false d = children d.
Proof. destruct d; reflexivity. Qed.

Lemma child_lookup d k c : uniq d = true -> In (k, c) (children d) -> lookup k (children d) = Some c.
Proof.
  intros Hu H. destruct d; cbn in H; try contradiction.
  - cbn. apply indexed_lookup_In. exact H.
  - cbn. apply uniq_obj_lookup; assumption.
Qed.

(* replace the element whose index prints as k *)
Fixpoint lrepl (i : nat) (k : string) (g : json -> json) (l : list json) : list json :=
  match l with
  | [] => []
  | x :: t => if String.eqb k (dec i) then g x :: t else x :: lrepl (S i) k g t
  end.

Lemma lookup_lrepl_same l : forall i k g c,
  lookup k (indexed i l) = Some c -> lookup k (indexed i (lrepl i k g l)) = Some (g c).
Proof.
  induction l as [|x t IH]; intros i k g c H; cbn in H; [discriminate|].
  cbn [lrepl]. destruct (String.eqb k (dec i)) eqn:E; cbn [indexed lookup]; rewrite E.
  - injection H as H. subst. reflexivity.
  - apply IH. exact H.
Qed.

Lemma lookup_lrepl_other l : forall i k k' g,
  k' <> k -> lookup k' (indexed i (lrepl i k g l)) = lookup k' (indexed i l).
Proof.
  induction l as [|x t IH]; intros i k k' g Hne; [reflexivity|].
  cbn [lrepl]. destruct (String.eqb k (dec i)) eqn:E; cbn [indexed lookup].
  - apply String.eqb_eq in E. subst k. apply String.eqb_neq in Hne. rewrite Hne. reflexivity.
  - destruct (String.eqb k' (dec i)); [reflexivity | apply IH; exact Hne].
Qed.

Lemma lrepl_id l : forall i k g c,
  lookup k (indexed i l) = Some c -> g c = c -> lrepl i k g l = l.
Proof.
  induction l as [|x t IH]; intros i k g c H Hg; cbn in H; [discriminate|].
  cbn [lrepl]. destruct (String.eqb k (dec i)) eqn:E.
  - injection H as H. subst. rewrite Hg. reflexivity.
  - f_equal. eapply IH; eassumption.
Qed.

Lemma lupd_lrepl l : forall i k (h : json -> option json) g c,
  lookup k (indexed i l) = Some c -> h c = Some (g c) -> lupd i k h l = Some (lrepl i k g l).
Proof.
  induction l as [|x t IH]; intros i k h g c H Hh; cbn in H; [discriminate|].
  cbn [lupd lrepl]. destruct (String.eqb k (dec i)) eqn:E.
  - injection H as H. subst. rewrite Hh. reflexivity.
  - rewrite (IH _ _ _ _ _ H Hh). reflexivity.
Qed.

Lemma In_lrepl l : forall i k g y, In y (lrepl i k g l) -> In y l \/ exists x, In x l /\ y = g x.
Proof.
  induction l as [|x t IH]; intros i k g y H; cbn in H; [destruct H|].
  destruct (String.eqb k (dec i)).
  - destruct H as [H|H]; [right; exists x; split; [left; reflexivity | symmetry; exact H] | left; right; exact H].
  - destruct H as [H|H]; [left; left; exact H|].
    destruct (IH _ _ _ _ H) as [H1|[x0 [H1 H2]]]; [left; right; exact H1 | right; exists x0; split; [right; exact H1 | exact H2]].
Qed.

(* ---------------------------------------------------------------- replace at an existing path *)

Fixpoint repl (p : path) (v d : json) : json :=
  match p with
  | [] => v
  | k :: r =>
    match d with
    | JObj kvs => match lookup k kvs with Some c => JObj (aset k (repl r v c) kvs) | None => d end
    | JArr l => JArr (lrepl 0 k (repl r v) l)
    | _ => d
    end
  end.

Definition has (p : path) (d : json) : Prop := exists v, get p d = Some v.

Lemma has_cons k r d : has (k :: r) d <-> exists c, lookup k (children d) = Some c /\ has r c.
Proof.
  unfold has. cbn [get]. split.
  - intros [v H]. destruct (lookup k (children d)) as [c|]; [|discriminate]. exists c. split; [reflexivity | exists v; exact H].
  - intros [c [E [v H]]]. exists v. rewrite E. exact H.
Qed.

Lemma has_prefix q : forall s d, has (q ++ s) d -> has q d.
Proof.
  induction q as [|k q IH]; intros s d H; [exists d; reflexivity|].
  cbn [app] in H. apply has_cons in H as [c [E H]]. apply has_cons. exists c. split; [exact E | eapply IH; exact H].
Qed.

(* children of the container after the member k was replaced *)
Lemma children_repl_same k r v d c :
  lookup k (children d) = Some c -> lookup k (children (repl (k :: r) v d)) = Some (repl r v c).
Proof.
  intro H. destruct d; cbn in H; try discriminate; cbn [repl children].
  - apply lookup_lrepl_same. exact H.
  - rewrite H. cbn [children]. apply lookup_aset_same.
Qed.

Lemma children_repl_other k k' r v d :
  k' <> k -> lookup k' (children (repl (k :: r) v d)) = lookup k' (children d).
Proof.
  intro Hne. destruct d; try reflexivity; cbn [repl children].
  - apply lookup_lrepl_other. exact Hne.
  - destruct (lookup k kvs); [|reflexivity]. cbn [children]. apply lookup_aset_other. exact Hne.
Qed.

Lemma get_repl_below p : forall s v d, has p d -> get (p ++ s) (repl p v d) = get s v.
Proof.
  induction p as [|k p IH]; intros s v d H; [reflexivity|].
  apply has_cons in H as [c [E H]]. cbn [app get]. rewrite (children_repl_same _ _ _ _ _ E). cbn [bind].
  apply IH. exact H.
Qed.

Lemma get_repl_same p v d : has p d -> get p (repl p v d) = Some v.
Proof. intro H. rewrite <- (app_nil_r p) at 1. rewrite get_repl_below by exact H. reflexivity. Qed.

Lemma get_repl_diverge p : forall q v d, diverge p q = true -> get q (repl p v d) = get q d.
Proof.
  induction p as [|k1 p IH]; intros q v d H; [discriminate|].
  destruct q as [|k2 q]; [discriminate|]. cbn in H. cbn [get].
  destruct (String.eqb k1 k2) eqn:E.
  - apply String.eqb_eq in E. subst k2.
    destruct (lookup k1 (children d)) as [c|] eqn:Ec.
    + rewrite (children_repl_same _ _ _ _ _ Ec). cbn [bind]. apply IH. exact H.
    + assert (Hid : repl (k1 :: p) v d = d).
      { destruct d; try reflexivity; cbn in Ec |- *.
        - f_equal. clear -Ec. revert Ec. generalize 0. induction l as [|x t IHt]; intros i Ec; [reflexivity|].
          cbn in Ec |- *. destruct (String.eqb k1 (dec i)); [discriminate|]. f_equal. apply IHt. exact Ec.
        - rewrite Ec. reflexivity. }
      rewrite Hid, Ec. reflexivity.
  - apply String.eqb_neq in E. rewrite children_repl_other by (intro; subst; contradiction). reflexivity.
Qed.

Lemma repl_id p : forall v d, get p d = Some v -> repl p v d = d.
Proof.
  induction p as [|k p IH]; intros v d H; cbn in H.
  - injection H as H. symmetry. exact H.
  - destruct (lookup k (children d)) as [c|] eqn:E; [|discriminate]. cbn [bind] in H.
    destruct d; cbn in E; try discriminate; cbn [repl].
    + f_equal. eapply lrepl_id; [exact E | apply IH; exact H].
    + rewrite E. rewrite (IH v c H). rewrite aset_id by exact E. reflexivity.
Qed.

(* a proper prefix of an existing path is a container *)
Lemma leaf_above q : forall s d, s <> [] -> has (q ++ s) d -> leafval (get q d) = None.
Proof.
  induction q as [|k q IH]; intros s d Hs H.
  - cbn [app] in H. destruct s as [|k s]; [contradiction|]. apply has_cons in H as [c [E _]].
    destruct d; cbn in E; try discriminate; reflexivity.
  - cbn [app] in H. apply has_cons in H as [c [E H]]. cbn [get]. rewrite E. cbn [bind]. eapply IH; eassumption.
Qed.

Lemma uniq_lrepl l : forall i k g, uniq (JArr l) = true -> (forall x, In x l -> uniq x = true -> uniq (g x) = true) ->
  uniq (JArr (lrepl i k g l)) = true.
Proof.
  induction l as [|x t IH]; intros i k g Hu Hg; [reflexivity|].
  rewrite uniq_arr_cons in Hu. apply andb_true_iff in Hu as [H1 H2].
  cbn [lrepl]. destruct (String.eqb k (dec i)); rewrite uniq_arr_cons.
  - rewrite (Hg x (or_introl eq_refl) H1), H2. reflexivity.
  - rewrite H1. cbn. apply IH; [exact H2 | intros y Hy; apply Hg; right; exact Hy].
Qed.

Lemma uniq_repl p : forall v d, uniq d = true -> uniq v = true -> uniq (repl p v d) = true.
Proof.
  induction p as [|k p IH]; intros v d Hd Hv; cbn [repl]; [exact Hv|].
  destruct d; try exact Hd.
  - apply uniq_lrepl; [exact Hd|]. intros x _ Hx. apply IH; assumption.
  - destruct (lookup k kvs) as [c|] eqn:E; [|exact Hd].
    apply uniq_aset; [exact Hd|]. apply IH; [|exact Hv]. eapply uniq_obj_In; [exact Hd | apply lookup_In; exact E].
Qed.

(* ---------------------------------------------------------------- the model's get / set on existing paths *)

Lemma get_ptr_has p : forall d v, get p d = Some v -> get_ptr p d = Some v.
Proof.
  induction p as [|k p IH]; intros d v H; [exact H|].
  cbn [get] in H. destruct (lookup k (children d)) as [c|] eqn:E; [|discriminate]. cbn [bind] in H.
  cbn [get_ptr]. unfold walk.
  assert (Ec : children_py true d = children d) by (destruct d; cbn in E; try discriminate; reflexivity).
  rewrite Ec, E. cbn [bind]. apply IH. exact H.
Qed.

Lemma ensure_has p : forall d, has p d -> ensure p d = d.
Proof.
  induction p as [|k r IH]; intros d H; [reflexivity|].
  destruct r as [|k2 r2]; [reflexivity|].
  apply has_cons in H as [c [E H]].
  destruct d; cbn in E; try discriminate; [reflexivity|].
  change (ensure (k :: k2 :: r2) (JObj kvs)) with
    (JObj (aset k (ensure (k2 :: r2) (match lookup k kvs with None | Some JNull => JObj [] | Some c => c end)) kvs)).
  rewrite E.
  assert (Hc : (match c with JNull => JObj [] | _ => c end) = c).
  { destruct c; try reflexivity. apply has_cons in H as [c2 [E2 _]]. discriminate. }
  replace (match c with JNull => JObj [] | _ => c end) with c
    by (destruct c; try reflexivity; apply has_cons in H as [c2 [E2 _]]; discriminate).
  rewrite (IH c H). rewrite aset_id by exact E. reflexivity.
Qed.

Lemma set_ptr_repl p : forall v d, p <> [] -> has p d -> set_ptr p v d = Some (repl p v d).
Proof.
  induction p as [|k r IH]; intros v d Hne H; [contradiction|].
  apply has_cons in H as [c [E H]].
  destruct r as [|k2 r2].
  - destruct d; cbn in E; try discriminate; cbn [set_ptr repl].
    + assert (Hk : String.eqb k "-" = false).
      { destruct (String.eqb k "-") eqn:Ek; [|reflexivity]. apply String.eqb_eq in Ek. subst k. exfalso.
        apply lookup_In in E. apply indexed_keys in E as [j [_ Ej]]. exact (dash_not_dec j Ej). }
      rewrite Hk. rewrite (lupd_lrepl l 0 k (fun _ => Some v) (fun _ => v) c E eq_refl). reflexivity.
    + rewrite E. reflexivity.
  - change (set_ptr (k :: k2 :: r2) v d) with (upd_child k (set_ptr (k2 :: r2) v) d).
    destruct d; cbn in E; try discriminate; cbn [upd_child repl].
    + rewrite (lupd_lrepl l 0 k _ (repl (k2 :: r2) v) c E (IH v c ltac:(discriminate) H)). reflexivity.
    + rewrite E. cbn [bind]. rewrite (IH v c ltac:(discriminate) H). reflexivity.
Qed.

(* ---------------------------------------------------------------- _resolve_json_pointers on any container *)

(* the pointers the code resolves are exactly the existing paths the glob selects — through
   objects and arrays alike (uniq: Python dict keys are unique; str(i) is injective) *)
Lemma sel_any pat : forall d p, uniq d = true ->
  (In p (sel pat d) <-> pmatch pat p = true /\ has p d).
Proof.
  unfold sel. induction pat as [|part rest IH]; intros d p Hu.
  - cbn. split.
    + intros [<-|[]]. split; [reflexivity | exists d; reflexivity].
    + intros [H _]. destruct p; [left; reflexivity | discriminate].
  - cbn [resolve_parts]. rewrite children_py_false, in_flat_map. split.
    + intros [[k c] [Hin Hp]]. cbn [fst snd] in Hp.
      destruct (fnm k part) eqn:Hm; [|destruct Hp].
      apply in_map_iff in Hp as [p' [<- Hp']].
      pose proof (child_lookup d k c Hu Hin) as El.
      assert (Huc : uniq c = true) by (eapply uniq_child; eassumption).
      apply (IH c p' Huc) in Hp' as [H1 H2]. split.
      * cbn. rewrite Hm, H1. reflexivity.
      * apply has_cons. exists c. split; assumption.
    + intros [Hm Hh]. destruct p as [|k p']; [discriminate|].
      cbn in Hm. apply andb_true_iff in Hm as [Hk Hm].
      apply has_cons in Hh as [c [El Hh]].
      exists (k, c). split; [apply lookup_In; exact El|]. cbn [fst snd]. rewrite Hk.
      apply in_map. apply IH; [eapply uniq_child; eassumption | split; assumption].
Qed.

Lemma same_sel_spec pat a b : uniq a = true -> uniq b = true -> same_sel pat a b = true ->
  forall p, pmatch pat p = true -> (has p a <-> has p b).
Proof.
  intros Ha Hb H p Hm. unfold same_sel in H. apply andb_true_iff in H as [H1 H2].
  rewrite forallb_forall in H1, H2. split; intro Hh.
  - assert (Hin : In p (sel pat a)) by (apply sel_any; [exact Ha | split; assumption]).
    apply H1 in Hin. apply mem_path_In in Hin. apply sel_any in Hin; [apply Hin | exact Hb].
  - assert (Hin : In p (sel pat b)) by (apply sel_any; [exact Hb | split; assumption]).
    apply H2 in Hin. apply mem_path_In in Hin. apply sel_any in Hin; [apply Hin | exact Ha].
Qed.

Lemma same_sel_intro pat a b : uniq a = true -> uniq b = true ->
  (forall p, pmatch pat p = true -> (has p a <-> has p b)) -> same_sel pat a b = true.
Proof.
  intros Ha Hb H. unfold same_sel. apply andb_true_iff. split; apply forallb_forall; intros p Hp; apply mem_path_In.
  - apply sel_any in Hp as [Hm Hh]; [|exact Ha]. apply sel_any; [exact Hb|]. split; [exact Hm | apply H; assumption].
  - apply sel_any in Hp as [Hm Hh]; [|exact Hb]. apply sel_any; [exact Ha|]. split; [exact Hm | apply H; assumption].
Qed.

(* ---------------------------------------------------------------- one fragment, replace-only *)

Section ReplFrag.
  Variable f : json.
  Variable pats : list pattern.
  Hypothesis Huf : uniq f = true.

  Definition G (pat : pattern) (cfg : json) : Prop :=
    forall p, pmatch pat p = true -> (has p cfg <-> has p f).
  Definition RInv (cfg : json) : Prop := uniq cfg = true /\ forall pat, In pat pats -> G pat cfg.
  Definition RAgree (cfg : json) (p : path) : Prop := get p cfg = get p f.
  Definition RPres (cfg cfg' : json) : Prop := forall p0, RAgree cfg p0 -> RAgree cfg' p0.
  Definition ROut (cfg cfg' : json) : Prop :=
    forall q, inside pats q = false -> leafval (get q cfg') = leafval (get q cfg).

  Lemma r_inside_of pat p s : In pat pats -> pmatch pat p = true -> inside pats (p ++ s) = true.
  Proof.
    intros Hin Hm. unfold inside. apply existsb_exists. exists pat. split; [exact Hin|].
    apply pmatch_pinside_app. exact Hm.
  Qed.

  Lemma ROut_trans a b c : ROut a b -> ROut b c -> ROut a c.
  Proof. intros H1 H2 q Hq. rewrite (H2 q Hq). apply H1. exact Hq. Qed.

  Lemma repl_op cfg pat p v :
    RInv cfg -> In pat pats -> pmatch pat p = true -> get p f = Some v -> has p cfg -> p <> [] ->
    set_from f (Some cfg) p = Some (repl p v cfg) /\ RInv (repl p v cfg) /\ RPres cfg (repl p v cfg) /\
    RAgree (repl p v cfg) p /\ ROut cfg (repl p v cfg).
  Proof.
    intros [Hu HG] Hin Hm Hg Hh Hne.
    split; [|split; [|split; [|split]]].
    - unfold set_from. cbn [bind]. rewrite (get_ptr_has _ _ _ Hg). cbn [bind].
      rewrite ensure_has by exact Hh. apply set_ptr_repl; assumption.
    - split.
      + apply uniq_repl; [exact Hu | exact (uniq_get p f v Huf Hg)].
      + intros pat' Hin' q Hq. destruct (trichotomy p q) as [Hd|[[s E]|[s [E Hs']]]].
        * unfold has. rewrite get_repl_diverge by exact Hd. apply (HG pat' Hin' q Hq).
        * subst q. unfold has. rewrite get_repl_below by exact Hh. rewrite get_app, Hg. tauto.
        * subst p. split; intros _.
          -- eapply has_prefix. exists v. exact Hg.
          -- eapply has_prefix. exists v. apply get_repl_same. exact Hh.
    - intros p0 Ha. unfold RAgree in *.
      destruct (trichotomy p p0) as [Hd|[[s E]|[s [E Hs']]]].
      + rewrite get_repl_diverge by exact Hd. exact Ha.
      + subst p0. rewrite get_repl_below by exact Hh. rewrite get_app, Hg. reflexivity.
      + subst p. rewrite repl_id; [exact Ha|]. rewrite get_app, Ha. rewrite get_app in Hg. exact Hg.
    - unfold RAgree. rewrite get_repl_same by exact Hh. symmetry. exact Hg.
    - intros q Hq. destruct (trichotomy p q) as [Hd|[[s E]|[s [E Hs']]]].
      + rewrite get_repl_diverge by exact Hd. reflexivity.
      + subst q. rewrite (r_inside_of pat p s Hin Hm) in Hq. discriminate.
      + subst p. rewrite (leaf_above q s cfg Hs' Hh).
        apply (leaf_above q s); [exact Hs' | exists v; apply get_repl_same; exact Hh].
  Qed.

  Lemma set_fold_r pat (Hin : In pat pats) (Hpat : pat <> []) : forall l cfg,
    RInv cfg -> (forall p, In p l -> pmatch pat p = true /\ has p f) ->
    exists cfg1, fold_left (set_from f) l (Some cfg) = Some cfg1 /\ RInv cfg1 /\ RPres cfg cfg1 /\
                 (forall p, In p l -> RAgree cfg1 p) /\ ROut cfg cfg1.
  Proof.
    induction l as [|p l IH]; intros cfg HI Hl.
    - exists cfg. cbn. split; [reflexivity|]. split; [exact HI|]. split; [intros ? H; exact H|].
      split; [intros ? []|]. intros q _. reflexivity.
    - destruct (Hl p (or_introl eq_refl)) as [Hm [v Hg]].
      assert (Hne : p <> []).
      { intro E. subst p. apply pmatch_length in Hm. destruct pat; [contradiction | discriminate]. }
      assert (Hh : has p cfg) by (apply (proj2 HI pat Hin p Hm); exists v; exact Hg).
      destruct (repl_op cfg pat p v HI Hin Hm Hg Hh Hne) as [E [HI' [HP [HA HO]]]].
      destruct (IH (repl p v cfg) HI' (fun p' H' => Hl p' (or_intror H'))) as [cfg1 [E1 [HI1 [HP1 [HA1 HO1]]]]].
      exists cfg1. cbn [fold_left]. rewrite E. split; [exact E1|]. split; [exact HI1|].
      split; [intros p0 H0; apply HP1; apply HP; exact H0|].
      split; [|eapply ROut_trans; eassumption].
      intros p' [<-|Hp']; [apply HP1; exact HA | apply HA1; exact Hp'].
  Qed.

  Lemma step_ok_r cfg pat :
    RInv cfg -> In pat pats -> pat <> [] ->
    exists cfg', step_p f (Some cfg) pat = Some cfg' /\ RInv cfg' /\ RPres cfg cfg' /\
                 (forall p, pmatch pat p = true -> RAgree cfg' p) /\ ROut cfg cfg'.
  Proof.
    intros HI Hin Hpat. unfold step_p. cbn [bind].
    change (resolve_parts false pat f) with (sel pat f). change (resolve_parts false pat cfg) with (sel pat cfg).
    assert (Hnew : forall p, In p (sel pat f) <-> pmatch pat p = true /\ has p f)
      by (intro p; apply sel_any; exact Huf).
    assert (Hold : forall p, In p (sel pat cfg) <-> pmatch pat p = true /\ has p cfg)
      by (intro p; apply sel_any; apply HI).
    destruct (set_fold_r pat Hin Hpat (sel pat f) cfg HI (fun p H => proj1 (Hnew p) H))
      as [cfg1 [E1 [HI1 [HP1 [HA1 HO1]]]]].
    rewrite E1. cbn [bind].
    assert (E : filter (fun p => negb (mem_path p (sel pat f))) (sel pat cfg) = []).
    { apply (proj2 (forallb_filter_nil _ _)). apply forallb_forall. intros p Hp. cbn beta. rewrite negb_involutive.
      apply mem_path_In. apply Hold in Hp as [Hm Hh]. apply Hnew. split; [exact Hm|].
      apply (proj2 HI pat Hin p Hm). exact Hh. }
    rewrite E. cbn [fold_left]. exists cfg1. split; [reflexivity|]. split; [exact HI1|].
    split; [exact HP1|]. split; [|exact HO1].
    intros p Hm. destruct (get p f) as [v|] eqn:Ev.
    - unfold RAgree. rewrite Ev. rewrite <- Ev. apply HA1. apply Hnew. split; [exact Hm | exists v; exact Ev].
    - apply HP1. unfold RAgree. rewrite Ev. destruct (get p cfg) as [x|] eqn:Ex; [|reflexivity].
      exfalso. assert (Hh : has p f) by (apply (proj2 HI pat Hin p Hm); exists x; exact Ex).
      destruct Hh as [y Hy]. rewrite Hy in Ev. discriminate.
  Qed.

  Lemma fold_ok_r : forall l cfg,
    RInv cfg -> (forall pat, In pat l -> In pat pats /\ pat <> []) ->
    exists r, fold_left (step_p f) l (Some cfg) = Some r /\ RInv r /\ RPres cfg r /\
              (forall pat p, In pat l -> pmatch pat p = true -> RAgree r p) /\ ROut cfg r.
  Proof.
    induction l as [|pat l IH]; intros cfg HI Hl.
    - exists cfg. cbn. split; [reflexivity|]. split; [exact HI|]. split; [intros ? H; exact H|].
      split; [intros ? ? []|]. intros q _. reflexivity.
    - destruct (Hl pat (or_introl eq_refl)) as [Hin Hne].
      destruct (step_ok_r cfg pat HI Hin Hne) as [cfg' [E [HI' [HP [HA HO]]]]].
      destruct (IH cfg' HI' (fun pat' H' => Hl pat' (or_intror H'))) as [r [Er [HIr [HPr [HAr HOr]]]]].
      exists r. cbn [fold_left]. rewrite E. split; [exact Er|]. split; [exact HIr|].
      split; [intros p0 H0; apply HPr; apply HP; exact H0|]. split; [|eapply ROut_trans; eassumption].
      intros pat' p [<-|Hin'] Hm; [apply HPr; apply HA; exact Hm | eapply HAr; eassumption].
  Qed.

  (* merging again changes nothing *)
  Lemma set_fold_id_r r : forall l,
    (forall p, In p l -> has p f /\ RAgree r p /\ p <> []) ->
    fold_left (set_from f) l (Some r) = Some r.
  Proof.
    induction l as [|p l IH]; intro Hl; [reflexivity|].
    destruct (Hl p (or_introl eq_refl)) as [[v Hg] [Ha Hne]].
    cbn [fold_left]. unfold set_from at 2. cbn [bind]. rewrite (get_ptr_has _ _ _ Hg). cbn [bind].
    unfold RAgree in Ha. rewrite Hg in Ha.
    rewrite ensure_has by (exists v; exact Ha).
    rewrite set_ptr_repl; [| exact Hne | exists v; exact Ha].
    rewrite (repl_id _ _ _ Ha). apply IH. intros p' Hp'. apply Hl. right. exact Hp'.
  Qed.

  Lemma step_id_r r pat :
    RInv r -> In pat pats -> pat <> [] -> (forall p, pmatch pat p = true -> RAgree r p) ->
    step_p f (Some r) pat = Some r.
  Proof.
    intros HI Hin Hpat HA. unfold step_p. cbn [bind].
    change (resolve_parts false pat f) with (sel pat f). change (resolve_parts false pat r) with (sel pat r).
    assert (Hnew : forall p, In p (sel pat f) <-> pmatch pat p = true /\ has p f)
      by (intro p; apply sel_any; exact Huf).
    assert (Hold : forall p, In p (sel pat r) <-> pmatch pat p = true /\ has p r)
      by (intro p; apply sel_any; apply HI).
    rewrite set_fold_id_r.
    - cbn [bind].
      assert (E : filter (fun p => negb (mem_path p (sel pat f))) (sel pat r) = []).
      { apply (proj2 (forallb_filter_nil _ _)). apply forallb_forall. intros p Hp. cbn beta. rewrite negb_involutive.
        apply mem_path_In. apply Hold in Hp as [Hm Hh]. apply Hnew. split; [exact Hm|].
        apply (proj2 HI pat Hin p Hm). exact Hh. }
      rewrite E. reflexivity.
    - intros p Hp. apply Hnew in Hp as [Hm Hh]. split; [exact Hh|]. split; [apply HA; exact Hm|].
      intro E. subst p. apply pmatch_length in Hm. destruct pat; [contradiction | discriminate].
  Qed.

  Lemma fold_id_r r : forall l,
    RInv r -> (forall pat, In pat l -> In pat pats /\ pat <> [] /\ (forall p, pmatch pat p = true -> RAgree r p)) ->
    fold_left (step_p f) l (Some r) = Some r.
  Proof.
    induction l as [|pat l IH]; intros HI Hl; [reflexivity|].
    destruct (Hl pat (or_introl eq_refl)) as [Hin [Hne HA]].
    cbn [fold_left]. rewrite step_id_r by assumption. apply IH; [exact HI|].
    intros pat' H'. apply Hl. right. exact H'.
  Qed.
End ReplFrag.

(* ---------------------------------------------------------------- main statements *)

Lemma wf_replace_parts acl old f :
  wf_replace acl old f = true ->
  uniq old = true /\ uniq f = true /\
  (forall pat, In pat acl -> pat <> [] /\ same_sel pat old f = true).
Proof.
  unfold wf_replace. intro H.
  apply andb_true_iff in H as [H H3]. apply andb_true_iff in H as [H1 H2].
  split; [exact H1|]. split; [exact H2|]. intros pat Hin.
  rewrite forallb_forall in H3. apply H3 in Hin. apply andb_true_iff in Hin as [Hn Hs].
  split; [|exact Hs]. intro E. subst pat. discriminate.
Qed.

Theorem fragment_replace_main acl pats old f :
  parse_acl acl = Some pats -> wf_replace pats old f = true ->
  exists r,
    apply_fragment V_fixed old f acl = Some r /\
    (forall p, restrict pats r p = restrict pats f p) /\
    (forall p, outside pats r p = outside pats old p) /\
    apply_fragment V_fixed r f acl = Some r /\ uniq r = true /\ wf_replace pats r f = true.
Proof.
  intros Hp Hwf. apply wf_replace_parts in Hwf as [Huo [Huf Hpat]].
  assert (HI : RInv f pats old).
  { split; [exact Huo|]. intros pat H. exact (same_sel_spec pat old f Huo Huf (proj2 (Hpat pat H))). }
  destruct (fold_ok_r f pats Huf pats old HI) as [r [E [HIr [_ [HA HO]]]]].
  { intros pat H. split; [exact H | apply Hpat; exact H]. }
  exists r. unfold apply_fragment. rewrite !(apply_fragment_fixed f acl pats _ Hp).
  split; [exact E|]. split; [|split; [|split; [|split]]].
  - intro p. unfold restrict, selected. destruct (existsb (fun pat => pmatch pat p) pats) eqn:Es; [|reflexivity].
    apply existsb_exists in Es as [pat [Hin Hm]]. exact (HA pat p Hin Hm).
  - intro p. unfold outside. destruct (inside pats p) eqn:Ei; [reflexivity|]. apply HO. exact Ei.
  - apply (fold_id_r f pats Huf r pats HIr).
    intros pat H. split; [exact H|]. split; [apply Hpat; exact H|]. intros p Hm. exact (HA pat p H Hm).
  - apply HIr.
  - unfold wf_replace. rewrite (proj1 HIr), Huf. cbn [andb]. apply forallb_forall. intros pat Hin.
    apply andb_true_iff. split.
    + unfold nonroot. destruct pat; [exfalso; exact (proj1 (Hpat [] Hin) eq_refl) | reflexivity].
    + apply same_sel_intro; [apply HIr | exact Huf | exact (proj2 HIr pat Hin)].
Qed.

(* the boolean predicates evaluated on the implementation's outputs hold on the model's
   output (P_C13_frag, and the kinds clause is covered by the correspondence only) *)
Theorem fragment_replace_holds acl pats old f :
  parse_acl acl = Some pats -> wf_replace pats old f = true ->
  P_C13_frag (old, f, acl) (frag_outcome V_fixed (old, f, acl)) = true.
Proof.
  intros Hp Hwf. destruct (fragment_replace_main acl pats old f Hp Hwf) as [r [E [Hin [Hout [Hid [Hur _]]]]]].
  destruct (wf_replace_parts _ _ _ Hwf) as [Huo [Huf _]].
  unfold frag_outcome. rewrite E, Hid. unfold P_C13_frag, P_noerr, P_inside, P_outside, P_idem.
  cbn [fst snd]. rewrite Hp. rewrite !andb_true_iff. repeat split.
  - apply orb_true_r.
  - apply orb_true_iff. right. unfold inside_ok. apply forallb_forall. intros p _. rewrite Hin.
    unfold restrict. destruct (selected pats p); [apply ojeq_refl_get; exact Huf | reflexivity].
  - apply orb_true_iff. right. unfold outside_ok. apply forallb_forall. intros p _. rewrite Hout.
    unfold outside. destruct (inside pats p); [reflexivity | apply ojeq_refl_leaf; exact Huo].
  - apply orb_true_iff. right. apply jeq_refl. exact Hur.
Qed.

(* ---------------------------------------------------------------- apply_acl_filters, any container *)

Lemma ptr_fold_any d (Hu : uniq d = true) : forall ps res r,
  (forall p, In p ps -> has p d) -> subdoc res d = true ->
  fold_left (filter_ptr d) ps (Some res) = Some r -> subdoc r d = true.
Proof.
  induction ps as [|p ps IH]; intros res r Hps Hs H; cbn in H.
  - injection H as H. subst. exact Hs.
  - destruct (Hps p (or_introl eq_refl)) as [part Hg].
    rewrite (get_ptr_has _ _ _ Hg) in H. cbn [bind] in H.
    destruct (mkpath p res) as [r1|] eqn:Em; cbn [bind] in H.
    + destruct (add_at p part r1) as [res'|] eqn:Ea.
      * eapply (IH res' r); [intros p' Hp'; apply Hps; right; exact Hp' | | exact H].
        eapply mk_add; eassumption.
      * rewrite fold_none in H by reflexivity. discriminate.
    + rewrite fold_none in H by reflexivity. discriminate.
Qed.

(* no guard on the filters: they may step into arrays, be malformed, select nothing *)
Theorem filter_subdoc_any d : forall F r,
  uniq d = true -> apply_acl_filters V_fixed d F = Some r -> subdoc r d = true.
Proof.
  unfold apply_acl_filters. intros F r Hu.
  assert (Hgen : forall F res, subdoc res d = true ->
                 fold_left (filter_step V_fixed d) F (Some res) = Some r -> subdoc r d = true).
  { clear F. induction F as [|s F IH]; intros res Hs H; cbn [fold_left] in H.
    - injection H as H. subst. exact Hs.
    - unfold filter_step at 2 in H. destruct (is_empty (strip s)) eqn:Ee.
      + eapply IH; eassumption.
      + cbn [bind] in H. unfold resolve in H.
        destruct (parse_pointer (strip s)) as [pat|] eqn:Ep; cbn [bind] in H.
        * cbn [v_strseq V_fixed] in H. rewrite mapM_fixed in H. cbn [bind] in H.
          destruct (fold_left (filter_ptr d) (resolve_parts false pat d) (Some res)) as [res'|] eqn:Ef.
          -- eapply (IH res'); [| exact H].
             eapply ptr_fold_any; [exact Hu | | exact Hs | exact Ef].
             intros p Hp. apply (sel_any pat d p Hu) in Hp. apply Hp.
          -- rewrite fold_none in H; [discriminate|]. intro b. unfold filter_step. destruct (is_empty (strip b)); reflexivity.
        * rewrite fold_none in H; [discriminate|]. intro b. unfold filter_step. destruct (is_empty (strip b)); reflexivity. }
  intro H. eapply Hgen; [| exact H]. rewrite subdoc_obj. apply orb_true_r.
Qed.

(* ---------------------------------------------------------------- outside the guard: what the code does *)

(* (a) an array index the old array lacks: IndexError / JsonPointerException *)
Definition wa1 : frag_in :=
  (JObj [("a", JArr [JNum 1])], JObj [("a", JArr [JNum 4; JNum 5; JNum 6])], ["/a/*"]).
Lemma array_index_missing_refuted :
  exists x, dom_frag x = true /\ in_replace_guard x = false /\ fst (frag_outcome V_fixed x) = None.
Proof. exists wa1. vm_compute. repeat split. Qed.

(* (a') the same below an array: a member on the way is missing and is NOT created there
   (_ensure_pointer_exists stops at the first array) *)
Definition wa2 : frag_in :=
  (JObj [("a", JArr [JObj []])], JObj [("a", JArr [JObj [("b", JObj [("c", JNum 1)])]])], ["/a/*/b/c"]).
Lemma array_member_below_missing_refuted :
  exists x, dom_frag x = true /\ in_replace_guard x = false /\ fst (frag_outcome V_fixed x) = None.
Proof. exists wa2. vm_compute. repeat split. Qed.

(* (b) array elements the fragment lacks are not removed (deletion pops dict keys only) *)
Definition wa3 : frag_in :=
  (JObj [("a", JArr [JNum 1; JNum 2; JNum 3])], JObj [("a", JArr [JNum 4])], ["/a/*"]).
Lemma array_not_removed_refuted :
  exists x, dom_frag x = true /\ in_replace_guard x = false /\
            fst (frag_outcome V_fixed x) = Some (JObj [("a", JArr [JNum 4; JNum 2; JNum 3])]) /\
            P_inside x (frag_outcome V_fixed x) = false.
Proof. exists wa3. vm_compute. repeat split. Qed.

(* (c) an array of the fragment that the old document lacks is materialised as an OBJECT keyed
   by "0", "1", ...: pointwise the selected paths agree (P_C13_frag holds) but the container
   kinds do not *)
Definition wa4 : frag_in :=
  (JObj [("b", JNum 1)], JObj [("a", JArr [JNum 7; JNum 8])], ["/a/*"]).
Lemma array_becomes_object_refuted :
  exists x, dom_frag x = true /\ in_replace_guard x = false /\
            fst (frag_outcome V_fixed x) = Some (JObj [("b", JNum 1); ("a", JObj [("0", JNum 7); ("1", JNum 8)])]) /\
            P_C13_frag x (frag_outcome V_fixed x) = true /\ P_kinds x (frag_outcome V_fixed x) = false.
Proof. exists wa4. vm_compute. repeat split. Qed.

(* the filter's twin of (c): the selected array elements come back under an object *)
Lemma filter_array_as_object :
  apply_acl_filters V_fixed (JObj [("a", JArr [JNum 7; JNum 8])]) ["/a/1"] =
  Some (JObj [("a", JObj [("1", JNum 8)])]).
Proof. vm_compute. reflexivity. Qed.
