(* C03 proof library, part 9: the projections.  Dropping the ADDED entries of make_diff(old,new) gives
   old|R and dropping the REMOVED entries gives new|R -- as unordered trees with the nesting intact --
   whenever no row of that side is governed by a %rewrite rule (rewrite_diff omits unchanged %rewrite
   groups; what may be omitted is stated by [lossless]). *)
From Coq Require Import List String Bool Arith Lia Permutation.
From Annet Require Import Base.Str Base.Tree Model.Rulebook Model.Diff Spec.P_C03 Proofs.DiffBasics
  Proofs.DiffProofsLib Proofs.DiffProofsAnnot Proofs.DiffProofsLossless.
Import ListNotations.
Open Scope list_scope.

(* ---------- fperm ---------- *)
Lemma fperm_refl : forall f, fperm f f.
Proof.
  apply (forest_ind2 (fun t => fperm (kids t) (kids t)) (fun f => fperm f f)).
  - intros k H. exact H.
  - constructor.
  - intros r [k] l Ht Hl. apply fp_skip; assumption.
Qed.

Lemma perm_fperm l l' : Permutation l l' -> fperm l l'.
Proof.
  induction 1 as [|x l l' _ IH|x y l|l1 l2 l3 _ IH1 _ IH2].
  - constructor.
  - destruct x as [r [k]]. apply fp_skip; [apply fperm_refl | exact IH].
  - apply fp_swap.
  - eapply fp_trans; eassumption.
Qed.

(* forests with the same distinct keys and related subtrees *)
Lemma fperm_keyed : forall f1 f2, NoDup (keys f1) -> NoDup (keys f2) ->
  (forall r, In r (keys f1) <-> In r (keys f2)) ->
  (forall r t1 t2, In (r, t1) f1 -> In (r, t2) f2 -> fperm (kids t1) (kids t2)) ->
  fperm f1 f2.
Proof.
  induction f1 as [|[r t1] f1 IH]; intros f2 N1 N2 HK HS.
  - destruct f2 as [|[r2 t2] f2]; [constructor|]. exfalso. apply (proj2 (HK r2)). left. reflexivity.
  - assert (Hr : In r (keys f2)) by (apply HK; left; reflexivity).
    unfold keys in Hr. apply in_map_iff in Hr as ([r' t2] & Er & Hin). cbn in Er. subst r'.
    apply in_split in Hin as (pre & post & E). subst f2.
    eapply fp_trans; [|apply perm_fperm; apply Permutation_middle].
    destruct t1 as [k1], t2 as [k2]. apply fp_skip.
    + apply (HS r (T k1) (T k2)); [left; reflexivity | apply in_or_app; right; left; reflexivity].
    + cbn [keys map] in N1. inversion N1 as [|x l Hx Hl]; subst.
      assert (N2' : NoDup (keys (pre ++ post)) /\ ~ In r (keys (pre ++ post))).
      { unfold keys in *. rewrite map_app in *. cbn [map fst] in N2. split.
        - eapply NoDup_remove_1. exact N2.
        - eapply NoDup_remove_2. exact N2. }
      destruct N2' as [N2a N2b].
      apply IH; [exact Hl | exact N2a | |].
      * intros r'. split; intros H.
        -- assert (Hne : r' <> r) by (intro E; subst; contradiction).
           assert (H2 : In r' (keys (pre ++ (r, T k2) :: post))) by (apply HK; right; exact H).
           unfold keys in *. rewrite map_app in *. cbn [map fst] in H2.
           apply in_app_iff in H2 as [H2|[H2|H2]]; [apply in_or_app; left; exact H2 | congruence | apply in_or_app; right; exact H2].
        -- assert (Hne : r' <> r) by (intro E; subst; contradiction).
           assert (H2 : In r' (keys ((r, T k1) :: f1))).
           { apply HK. unfold keys in *. rewrite map_app in *. cbn [map fst].
             apply in_app_iff in H as [H|H]; apply in_or_app; [left; exact H | right; right; exact H]. }
           destruct H2 as [H2|H2]; [cbn in H2; congruence | exact H2].
      * intros r' t1' t2' H1 H2. apply (HS r' t1' t2'); [right; exact H1|].
        apply in_app_iff in H2 as [H2|H2]; apply in_or_app; [left; exact H2 | right; right; exact H2].
Qed.

(* ---------- erase, norw ---------- *)
Lemma erase_f_cons r m c f : erase_f ((r, m, c) :: f) = (r, erase c) :: erase_f f.
Proof. reflexivity. Qed.

Lemma erase_kids c : kids (erase c) = erase_f (akids c).
Proof. destruct c. reflexivity. Qed.

Lemma erase_f_keys f : keys (erase_f f) = arows f.
Proof. induction f as [|[[r m] c] f IH]; [reflexivity|]. rewrite erase_f_cons. cbn. f_equal. exact IH. Qed.

Lemma erase_f_In f r t : In (r, t) (erase_f f) -> exists m c, In (r, m, c) f /\ t = erase c.
Proof.
  induction f as [|[[r0 m0] c0] f IH]; [intros []|]. rewrite erase_f_cons. intros [E|H].
  - injection E as E1 E2. subst. exists m0, c0. split; [left; reflexivity | reflexivity].
  - destruct (IH H) as (m & c & Hin & Et). exists m, c. split; [right; exact Hin | exact Et].
Qed.

Lemma norw_cons r m s f : norw ((r, m, s) :: f) = negb (dlogic_eqb (mi_dlogic m) DRewrite) && norw (akids s) && norw f.
Proof. destruct s. reflexivity. Qed.

Lemma norw_In f : norw f = true -> forall r m s, In (r, m, s) f -> mi_dlogic m <> DRewrite /\ norw (akids s) = true.
Proof.
  induction f as [|[[r0 m0] s0] f IH]; intros H r m s Hin; [destruct Hin|].
  rewrite norw_cons in H. apply andb_true_iff in H as [H H3]. apply andb_true_iff in H as [H1 H2].
  destruct Hin as [E|Hin]; [|apply (IH H3 r m s Hin)].
  injection E as E1 E2 E3. subst. split; [|exact H2].
  intro E. rewrite E in H1. discriminate.
Qed.

Lemma proj_n_eq drop o row m kids :
  proj_n drop (DN o row m kids) = if op_eqb o drop then [] else [(row, T (flat_map (proj_n drop) kids))].
Proof. reflexivity. Qed.

(* rows of a projection *)
Lemma proj_keys drop d : keys (flat_map (proj_n drop) d) = map d_row (filter (fun x => negb (op_eqb (d_op x) drop)) d).
Proof.
  induction d as [|[o row m kids] d IH]; [reflexivity|]. cbn [flat_map filter d_op]. rewrite proj_n_eq.
  destruct (op_eqb o drop); cbn [negb app]; [exact IH|]. cbn [map keys fst d_row]. f_equal. exact IH.
Qed.

Lemma proj_In drop d r t : In (r, t) (flat_map (proj_n drop) d) ->
  exists o m kids, In (DN o r m kids) d /\ op_eqb o drop = false /\ t = T (flat_map (proj_n drop) kids).
Proof.
  intros H. apply in_flat_map in H as ([o row m kids] & Hx & Hin). rewrite proj_n_eq in Hin.
  destruct (op_eqb o drop) eqn:E; [destruct Hin|]. destruct Hin as [E2|[]]. injection E2 as E3 E4. subst.
  exists o, m, kids. auto.
Qed.

Lemma NoDup_map_filter {A B} (f : A -> B) p l : NoDup (map f l) -> NoDup (map f (filter p l)).
Proof.
  induction l as [|x l IH]; cbn; intros H; [constructor|]. inversion H as [|y l' Hy Hl]; subst.
  destruct (p x); cbn; [|apply IH; exact Hl]. constructor; [|apply IH; exact Hl].
  intro Hin. apply Hy. apply in_map_iff in Hin as (z & Ez & Hz). apply filter_In in Hz as [Hz _].
  apply in_map_iff. exists z. auto.
Qed.

(* ---------- old side ---------- *)
Definition PO (x : dnode) : Prop :=
  forall ao an, awf ao -> norw ao = true -> lossless_n ao an x = true ->
    forall m so, alookup (d_row x) ao = Some (m, so) ->
      fperm (proj_old (d_kids x)) (erase_f (akids so)).

Lemma level_proj_old d : Forall PO d -> forall ao an, awf ao -> norw ao = true -> lossless ao an d = true ->
  fperm (proj_old d) (erase_f ao).
Proof.
  intros IH ao an Hwf Hn HL. apply lossless_iff in HL as (ND & Co & _ & HLn).
  rewrite Forall_forall in IH. unfold proj_old. apply fperm_keyed.
  - rewrite proj_keys. apply NoDup_map_filter. exact ND.
  - rewrite erase_f_keys. apply awf_NoDup. exact Hwf.
  - intros r. rewrite proj_keys, erase_f_keys. split; intros H.
    + apply in_map_iff in H as ([o row m kids] & Er & Hx). cbn in Er. subst row.
      apply filter_In in Hx as [Hx Ho]. cbn [d_op] in Ho. apply negb_true_iff in Ho.
      pose proof (HLn _ Hx) as Hl. rewrite lossless_n_eq in Hl.
      destruct (alookup r ao) as [[mo so]|] eqn:El.
      * apply alookup_Some_In in El. eapply In_arows. exact El.
      * destruct o; try discriminate; destruct (alookup r an) as [[? ?]|]; discriminate.
    + unfold arows in H. apply in_map_iff in H as ([[r' mo] so] & Er & Hk). unfold arow in Er. cbn in Er. subst r'.
      destruct (Co _ Hk) as [Hr|[Hrw _]].
      * unfold arow in Hr. cbn [fst] in Hr. apply in_map_iff in Hr as ([o row m kids] & Er & Hx). cbn in Er. subst row.
        apply in_map_iff. exists (DN o r m kids). split; [reflexivity|]. apply filter_In. split; [exact Hx|].
        cbn [d_op]. pose proof (HLn _ Hx) as Hl. rewrite lossless_n_eq in Hl.
        rewrite (alookup_In ao r mo so (awf_NoDup _ Hwf) Hk) in Hl.
        destruct o; try reflexivity. discriminate.
      * exfalso. destruct (norw_In ao Hn r mo so Hk) as [Hd _]. apply Hd. exact Hrw.
  - intros r t1 t2 H1 H2.
    apply proj_In in H1 as (o & m & kids & Hx & Ho & Et). subst t1.
    apply erase_f_In in H2 as (mo & so & Hk & Et). subst t2. rewrite erase_kids. cbn [Tree.kids].
    apply (IH _ Hx ao an Hwf Hn (HLn _ Hx) mo so). cbn [d_row].
    apply alookup_In; [apply awf_NoDup; exact Hwf | exact Hk].
Qed.

Lemma node_proj_old : forall x, PO x.
Proof.
  induction x as [o row mi kids IH] using dnode_ind2. unfold PO. cbn [d_row d_kids].
  intros ao an Hwf Hn HL m so El. rewrite lossless_n_eq, El in HL.
  assert (Hk : In (row, m, so) ao) by (apply alookup_Some_In; exact El).
  assert (Hws : awf (akids so)) by (eapply awf_In; [exact Hwf | exact Hk]).
  destruct (norw_In ao Hn row m so Hk) as [_ Hns].
  destruct o; destruct (alookup row an) as [[mn sn]|]; try discriminate.
  - (* Removed *) apply andb_true_iff in HL as [_ HL]. eapply level_proj_old; eassumption.
  - (* Moved *) apply andb_true_iff in HL as [HL _]. apply andb_true_iff in HL as [_ HL]. eapply level_proj_old; eassumption.
  - (* Affected *) apply andb_true_iff in HL as [HL _]. apply andb_true_iff in HL as [_ HL]. eapply level_proj_old; eassumption.
  - (* Unchanged *) apply andb_true_iff in HL as [HL _]. apply andb_true_iff in HL as [_ HL]. eapply level_proj_old; eassumption.
Qed.

Theorem lossless_proj_old d ao an : awf ao -> norw ao = true -> lossless ao an d = true ->
  fperm (proj_old d) (erase_f ao).
Proof. apply level_proj_old. apply Forall_forall. intros x _. apply node_proj_old. Qed.

(* ---------- new side ---------- *)
Definition PN (x : dnode) : Prop :=
  forall ao an, awf an -> norw an = true -> lossless_n ao an x = true ->
    forall m sn, alookup (d_row x) an = Some (m, sn) ->
      fperm (proj_new (d_kids x)) (erase_f (akids sn)).

Lemma level_proj_new d : Forall PN d -> forall ao an, awf an -> norw an = true -> lossless ao an d = true ->
  fperm (proj_new d) (erase_f an).
Proof.
  intros IH ao an Hwf Hn HL. apply lossless_iff in HL as (ND & _ & Cn & HLn).
  rewrite Forall_forall in IH. unfold proj_new. apply fperm_keyed.
  - rewrite proj_keys. apply NoDup_map_filter. exact ND.
  - rewrite erase_f_keys. apply awf_NoDup. exact Hwf.
  - intros r. rewrite proj_keys, erase_f_keys. split; intros H.
    + apply in_map_iff in H as ([o row m kids] & Er & Hx). cbn in Er. subst row.
      apply filter_In in Hx as [Hx Ho]. cbn [d_op] in Ho. apply negb_true_iff in Ho.
      pose proof (HLn _ Hx) as Hl. rewrite lossless_n_eq in Hl.
      destruct (alookup r an) as [[mn sn]|] eqn:El.
      * apply alookup_Some_In in El. eapply In_arows. exact El.
      * destruct o; try discriminate; destruct (alookup r ao) as [[? ?]|]; discriminate.
    + unfold arows in H. apply in_map_iff in H as ([[r' mn] sn] & Er & Hk). unfold arow in Er. cbn in Er. subst r'.
      destruct (Cn _ Hk) as [Hr|[Hrw _]].
      * unfold arow in Hr. cbn [fst] in Hr. apply in_map_iff in Hr as ([o row m kids] & Er & Hx). cbn in Er. subst row.
        apply in_map_iff. exists (DN o r m kids). split; [reflexivity|]. apply filter_In. split; [exact Hx|].
        cbn [d_op]. pose proof (HLn _ Hx) as Hl. rewrite lossless_n_eq in Hl.
        rewrite (alookup_In an r mn sn (awf_NoDup _ Hwf) Hk) in Hl.
        destruct o; try reflexivity. destruct (alookup r ao) as [[? ?]|]; discriminate.
      * exfalso. destruct (norw_In an Hn r mn sn Hk) as [Hd _]. apply Hd. exact Hrw.
  - intros r t1 t2 H1 H2.
    apply proj_In in H1 as (o & m & kids & Hx & Ho & Et). subst t1.
    apply erase_f_In in H2 as (mn & sn & Hk & Et). subst t2. rewrite erase_kids. cbn [Tree.kids].
    apply (IH _ Hx ao an Hwf Hn (HLn _ Hx) mn sn). cbn [d_row].
    apply alookup_In; [apply awf_NoDup; exact Hwf | exact Hk].
Qed.

Lemma node_proj_new : forall x, PN x.
Proof.
  induction x as [o row mi kids IH] using dnode_ind2. unfold PN. cbn [d_row d_kids].
  intros ao an Hwf Hn HL m sn El. rewrite lossless_n_eq, El in HL.
  assert (Hk : In (row, m, sn) an) by (apply alookup_Some_In; exact El).
  assert (Hws : awf (akids sn)) by (eapply awf_In; [exact Hwf | exact Hk]).
  destruct (norw_In an Hn row m sn Hk) as [_ Hns].
  destruct o; destruct (alookup row ao) as [[mo so]|]; try discriminate.
  - (* Added *) apply andb_true_iff in HL as [_ HL]. eapply level_proj_new; eassumption.
  - (* Moved *) apply andb_true_iff in HL as [HL _]. apply andb_true_iff in HL as [_ HL]. eapply level_proj_new; eassumption.
  - (* Affected *) apply andb_true_iff in HL as [HL _]. apply andb_true_iff in HL as [_ HL]. eapply level_proj_new; eassumption.
  - (* Unchanged *) apply andb_true_iff in HL as [HL _]. apply andb_true_iff in HL as [_ HL]. eapply level_proj_new; eassumption.
Qed.

Theorem lossless_proj_new d ao an : awf an -> norw an = true -> lossless ao an d = true ->
  fperm (proj_new d) (erase_f an).
Proof. apply level_proj_new. apply Forall_forall. intros x _. apply node_proj_new. Qed.

Section TopProj.
  Variable rmatch : string -> string -> option (list string).

  Theorem diff_proj_old : forall rs old new, wf old -> wf new -> norw (annot_f rmatch rs old) = true ->
    fperm (proj_old (make_diff rmatch rs old new)) (erase_f (annot_f rmatch rs old)).
  Proof.
    intros rs old new Ho Hn Hr. eapply lossless_proj_old; [apply annot_awf; exact Ho | exact Hr|].
    apply diff_lossless_lib; assumption.
  Qed.

  Theorem diff_proj_new : forall rs old new, wf old -> wf new -> norw (annot_f rmatch rs new) = true ->
    fperm (proj_new (make_diff rmatch rs old new)) (erase_f (annot_f rmatch rs new)).
  Proof.
    intros rs old new Ho Hn Hr. eapply lossless_proj_new; [apply annot_awf; exact Hn | exact Hr|].
    apply diff_lossless_lib; assumption.
  Qed.
End TopProj.

(* ---------- the boolean used on real outputs ---------- *)
(* [unordered_eqb] (canonical sort of every level, then equality) is a sound test for [fperm] *)
Lemma fperm_sym a b : fperm a b -> fperm b a.
Proof.
  induction 1 as [|r k k' l l' _ IHk _ IHl|x y l|l1 l2 l3 _ IH1 _ IH2].
  - constructor.
  - apply fp_skip; assumption.
  - apply fp_swap.
  - eapply fp_trans; eassumption.
Qed.

Lemma ins_sorted_perm x : forall l, Permutation (ins_sorted x l) (x :: l).
Proof.
  induction l as [|y l IH]; [reflexivity|]. cbn [ins_sorted]. destruct (String.leb (fst x) (fst y)); [reflexivity|].
  eapply Permutation_trans; [apply perm_skip; exact IH | apply perm_swap].
Qed.

Lemma canon_f_cons r t f : canon_f ((r, t) :: f) = ins_sorted (r, canon t) (canon_f f).
Proof. reflexivity. Qed.

Lemma canon_fperm : forall f, fperm (canon_f f) f.
Proof.
  apply (forest_ind2 (fun t => fperm (kids (canon t)) (kids t)) (fun f => fperm (canon_f f) f)).
  - intros k H. exact H.
  - constructor.
  - intros r t l Ht Hl. rewrite canon_f_cons.
    eapply fp_trans; [apply perm_fperm; apply ins_sorted_perm|].
    destruct t as [k]. destruct (canon (T k)) as [k'] eqn:E. cbn [kids] in Ht.
    apply fp_skip; assumption.
Qed.

Theorem unordered_eqb_fperm a b : unordered_eqb a b = true -> fperm a b.
Proof.
  unfold unordered_eqb. intros H. apply forest_eqb_eq in H.
  eapply fp_trans; [apply fperm_sym; apply canon_fperm|]. rewrite H. apply canon_fperm.
Qed.
