(* C16, text level, on LINES: margins of "#"-terminated sections and trailing blanks are neutral for parse_to_tree. *)
From Coq Require Import List String Ascii Bool Arith Lia.
From Annet Require Import Base.Str Base.Tree Model.Offside Spec.P_C16t Proofs.C16TextProofs.
Import ListNotations.
Open Scope string_scope.
Open Scope list_scope.

Definition dc : list string := ["!"; "#"].

Lemma startswith_hash_sp s : startswith "#" (String sp s) = false.
Proof. reflexivity. Qed.

Lemma classify_not_reset l : startswith "#" l = false -> classify dc l <> Reset.
Proof.
  intro H. unfold classify, dc. rewrite H. rewrite andb_false_r.
  destruct (is_empty (strip l) || existsb (fun c => startswith c (strip l)) ["!"; "#"]); discriminate.
Qed.

Lemma classify_sp l :
  startswith "#" l = false -> classify dc (String sp l) = shift_item 1 (classify dc l).
Proof.
  intro H. unfold classify, dc. rewrite H, startswith_hash_sp. rewrite !andb_false_r.
  replace (strip (String sp l)) with (strip l) by reflexivity.
  replace (parse_indent (String sp l)) with (S (parse_indent l)) by reflexivity.
  destruct (is_empty (strip l) || existsb (fun c => startswith c (strip l)) ["!"; "#"]); reflexivity.
Qed.

Lemma indent_line_hash_free k l : startswith "#" l = false -> startswith "#" (indent_line k l) = false.
Proof. destruct k; intro H; [exact H | reflexivity]. Qed.

Lemma shift_item_S k i : shift_item 1 (shift_item k i) = shift_item (S k) i.
Proof. destruct i; reflexivity. Qed.

Lemma classify_indent k l :
  startswith "#" l = false -> classify dc (indent_line k l) = shift_item k (classify dc l).
Proof.
  intro H. induction k as [|k IH]; simpl.
  - destruct (classify dc l); reflexivity.
  - rewrite classify_sp by (apply indent_line_hash_free; exact H). rewrite IH. apply shift_item_S.
Qed.

Lemma map_classify_indent k ls :
  hash_free ls = true ->
  map (classify dc) (map (indent_line k) ls) = map (shift_item k) (map (classify dc) ls).
Proof.
  induction ls as [|l ls IH]; simpl; intro H; [reflexivity|].
  apply andb_true_iff in H. destruct H as [Hl H]. apply negb_true_iff in Hl.
  rewrite classify_indent by exact Hl. rewrite IH by exact H. reflexivity.
Qed.

Lemma no_reset_classify ls : hash_free ls = true -> no_reset (map (classify dc) ls) = true.
Proof.
  induction ls as [|l ls IH]; simpl; intro H; [reflexivity|].
  apply andb_true_iff in H. destruct H as [Hl H]. apply negb_true_iff in Hl.
  rewrite IH by exact H. rewrite andb_true_r.
  pose proof (classify_not_reset l Hl) as N. destruct (classify dc l); try reflexivity. contradiction.
Qed.

Definition classify_secs (secs : list (nat * list string)) : list (nat * list item) :=
  map (fun ks => (fst ks, map (classify dc) (snd ks))) secs.

Lemma map_classify_render secs :
  forallb (fun ks => hash_free (snd ks)) secs = true ->
  map (classify dc) (render_lines secs) = render_sections (classify_secs secs).
Proof.
  induction secs as [|[k ls] secs IH]; simpl; intro H; [reflexivity|].
  apply andb_true_iff in H. destruct H as [Hs H].
  unfold render_lines, render_sections; simpl.
  fold (render_lines secs). fold (render_sections (classify_secs secs)).
  rewrite !map_app. rewrite map_classify_indent by exact Hs. rewrite IH by exact H.
  reflexivity.
Qed.

Lemma classify_secs_unshifted secs : classify_secs (unshifted_lines secs) = unshifted (classify_secs secs).
Proof. unfold classify_secs, unshifted_lines, unshifted. rewrite !map_map. reflexivity. Qed.

Lemma forallb_unshifted_lines secs :
  forallb (fun ks => hash_free (snd ks)) (unshifted_lines secs) = forallb (fun ks => hash_free (snd ks)) secs.
Proof. induction secs as [|[k ls] secs IH]; simpl; [reflexivity|]. rewrite IH. reflexivity. Qed.

Lemma forallb_no_reset_classify secs :
  forallb (fun ks => hash_free (snd ks)) secs = true ->
  forallb (fun ks => no_reset (snd ks)) (classify_secs secs) = true.
Proof.
  induction secs as [|[k ls] secs IH]; simpl; intro H; [reflexivity|].
  apply andb_true_iff in H. destruct H as [Hs H].
  rewrite no_reset_classify by exact Hs. rewrite IH by exact H. reflexivity.
Qed.

Theorem section_margins_neutral_lines secs :
  forallb (fun ks => hash_free (snd ks)) secs = true ->
  parse_lines dc (render_lines secs) = parse_lines dc (render_lines (unshifted_lines secs)).
Proof.
  intro H. unfold parse_lines.
  rewrite map_classify_render by exact H.
  rewrite map_classify_render by (rewrite forallb_unshifted_lines; exact H).
  rewrite classify_secs_unshifted.
  apply section_margins_neutral; [apply forallb_no_reset_classify; exact H | reflexivity].
Qed.

(* ---------- trailing blanks ---------- *)

Definition pad_right (l : string) (k : nat) : string := String.append l (repeat_str " " k).

Lemma lstrip_blanks k : lstrip (repeat_str " " k) = "".
Proof. induction k as [|k IH]; [reflexivity | exact IH]. Qed.

Lemma rstrip_blanks k : rstrip (repeat_str " " k) = "".
Proof. induction k as [|k IH]; [reflexivity|]. simpl. simpl in IH. rewrite IH. reflexivity. Qed.

Lemma rstrip_pad s k : rstrip (pad_right s k) = rstrip s.
Proof.
  unfold pad_right. induction s as [|c r IH]; simpl.
  - apply rstrip_blanks.
  - rewrite IH. reflexivity.
Qed.

Lemma strip_pad l k : strip (pad_right l k) = strip l.
Proof.
  unfold strip. induction l as [|c r IH].
  - unfold pad_right. simpl. rewrite lstrip_blanks. reflexivity.
  - change (pad_right (String c r) k) with (String c (pad_right r k)). simpl lstrip.
    destruct (is_ws c).
    + exact IH.
    + change (String c (pad_right r k)) with (pad_right (String c r) k). apply rstrip_pad.
Qed.

Lemma startswith_hash_pad l k : startswith "#" (pad_right l k) = startswith "#" l.
Proof.
  destruct l as [|c r].
  - unfold pad_right. simpl. destruct k; reflexivity.
  - unfold startswith, pad_right. cbn -[ascii_dec].
    destruct (ascii_dec "#"%char c); [|reflexivity].
    destruct r; destruct (repeat_str " " k); reflexivity.
Qed.

Lemma parse_indent_pad l k : parse_indent (pad_right l k) = parse_indent l \/ strip l = "".
Proof.
  induction l as [|c r IH].
  - right. reflexivity.
  - change (pad_right (String c r) k) with (String c (pad_right r k)). simpl parse_indent.
    destruct (Ascii.eqb c sp || Ascii.eqb c tab) eqn:E.
    + destruct IH as [IH|IH].
      * left. rewrite IH. reflexivity.
      * right. unfold strip. simpl lstrip.
        assert (W : is_ws c = true).
        { apply orb_true_iff in E. destruct E as [E|E]; apply Ascii.eqb_eq in E; subst c; reflexivity. }
        rewrite W. exact IH.
    + left. reflexivity.
Qed.

Lemma classify_pad l k : classify dc (pad_right l k) = classify dc l.
Proof.
  unfold classify. rewrite startswith_hash_pad, strip_pad.
  destruct (existsb (String.eqb "#") dc && startswith "#" l); [reflexivity|].
  destruct (parse_indent_pad l k) as [E|E].
  - rewrite E. reflexivity.
  - rewrite E. reflexivity.
Qed.

Theorem trailing_blanks_neutral (pad : string -> nat) lines :
  parse_lines dc (map (fun l => pad_right l (pad l)) lines) = parse_lines dc lines.
Proof.
  unfold parse_lines. f_equal. rewrite map_map. apply map_ext. intro l. apply classify_pad.
Qed.
