(* Proofs for C10: the text a generator program emits parses to the tree of its yielded paths;
   config_tree is the first-seen-order union. *)
From Coq Require Import List String Ascii Bool Arith Lia.
From Annet Require Import Base.Str Base.Tree Model.Offside Spec.P_C05 Proofs.OffsideProofs.
From Annet Require Import Model.GenProg Spec.P_C10.
Import ListNotations.
Open Scope string_scope.
Open Scope list_scope.
Arguments Nat.ltb : simpl never.
Arguments Nat.leb : simpl never.

(* ---------- induction over programs ---------- *)

Section StmtInd.
  Variable P : stmt -> Prop.
  Variable Q : list stmt -> Prop.
  Hypothesis HY : forall v, P (Yield v).
  Hypothesis HB : forall toks ind body, Q body -> P (Block toks ind body).
  Hypothesis HBI : forall toks cond body, Q body -> P (BlockIf toks cond body).
  Hypothesis HM : forall blocks body, Q body -> P (MultiBlock blocks body).
  Hypothesis HMI : forall blocks cond body, Q body -> P (MultiBlockIf blocks cond body).
  Hypothesis Hnil : Q [].
  Hypothesis Hcons : forall s ss, P s -> Q ss -> Q (s :: ss).
  Fixpoint stmt_ind2 (s : stmt) : P s :=
    let go := fix go (l : list stmt) : Q l :=
                match l with [] => Hnil | x :: r => Hcons x r (stmt_ind2 x) (go r) end in
    match s with
    | Yield v => HY v
    | Block toks ind body => HB toks ind body (go body)
    | BlockIf toks cond body => HBI toks cond body (go body)
    | MultiBlock blocks body => HM blocks body (go body)
    | MultiBlockIf blocks cond body => HMI blocks cond body (go body)
    end.
  Definition body_ind2 : forall l, Q l :=
    fix go (l : list stmt) : Q l :=
      match l with [] => Hnil | x :: r => Hcons x r (stmt_ind2 x) (go r) end.
End StmtInd.

(* ---------- strings: indentation prefix, classification of an emitted line ---------- *)

Lemma spaces_S n r : (spaces (S n) ++ r)%string = String " " (spaces n ++ r)%string.
Proof. reflexivity. Qed.

Lemma spaces_0 r : (spaces 0 ++ r)%string = r.
Proof. reflexivity. Qed.

Lemma append_assoc (a b c : string) : ((a ++ b) ++ c)%string = (a ++ (b ++ c))%string.
Proof. induction a as [|x a IH]; cbn; [reflexivity|]. rewrite IH. reflexivity. Qed.

Lemma append_nil_r (a : string) : (a ++ "")%string = a.
Proof. induction a as [|x a IH]; cbn; [reflexivity|]. rewrite IH. reflexivity. Qed.

Lemma spaces_add a b : (spaces a ++ spaces b)%string = spaces (a + b).
Proof.
  induction a as [|a IH]; [reflexivity|].
  change (spaces (S a + b)) with (String " " (spaces (a + b))). rewrite <- IH. reflexivity.
Qed.

Lemma lstrip_spaces c r : lstrip (spaces c ++ r) = lstrip r.
Proof. induction c as [|c IH]; [reflexivity|]. rewrite spaces_S. cbn. exact IH. Qed.

Lemma strip_spaces c r : strip (spaces c ++ r) = strip r.
Proof. unfold strip. rewrite lstrip_spaces. reflexivity. Qed.

Lemma parse_indent_spaces c r : parse_indent (spaces c ++ r) = c + parse_indent r.
Proof. induction c as [|c IH]; [reflexivity|]. rewrite spaces_S. cbn. rewrite IH. reflexivity. Qed.

Lemma prefix1 x a r : String.prefix (String x "") (String a r) = if ascii_dec x a then true else false.
Proof. cbn [prefix]. destruct (ascii_dec x a); [destruct r|]; reflexivity. Qed.

Lemma hash_prefix_strip r : startswith "#" r = true -> startswith "#" (strip r) = true.
Proof.
  unfold startswith. destruct r as [|a r]; [discriminate|]. rewrite prefix1.
  destruct (ascii_dec "#" a) as [<-|]; [|discriminate]. intros _.
  unfold strip. cbn [lstrip]. change (is_ws "#") with false. cbn iota.
  cbn [rstrip]. change (is_ws "#") with false. destruct (rstrip r); reflexivity.
Qed.

Lemma classify_row c r :
  wf_row r = true -> classify gen_comments (spaces c ++ r) = Content c (strip r).
Proof.
  unfold wf_row. rewrite !andb_true_iff, !negb_true_iff.
  intros [[[[Hi He] Hb] Hh] _]. apply Nat.eqb_eq in Hi.
  unfold classify. rewrite strip_spaces.
  assert (Hs : startswith "#" (spaces c ++ r) = false).
  { destruct c as [|c].
    - rewrite spaces_0. destruct (startswith "#" r) eqn:E; [|reflexivity].
      apply hash_prefix_strip in E. congruence.
    - reflexivity. }
  rewrite Hs, andb_false_r. rewrite He. cbn [orb existsb gen_comments].
  rewrite Hb, Hh. cbn. rewrite parse_indent_spaces, Hi, Nat.add_0_r. reflexivity.
Qed.

Lemma none_word_spaces c r : has_none_word (spaces c ++ r) = has_none_word r.
Proof.
  unfold has_none_word. induction c as [|c IH]; [reflexivity|].
  rewrite spaces_S. cbn. exact IH.
Qed.

Lemma has_nl_spaces c r : has_nl (spaces c ++ r) = has_nl r.
Proof. induction c as [|c IH]; [reflexivity|]. rewrite spaces_S. cbn. exact IH. Qed.

Lemma split_char_no_nl : forall s x, In x (split_char nl s) -> has_nl x = false.
Proof.
  induction s as [|a s IH]; intros x Hx; cbn [split_char] in Hx.
  - destruct Hx as [<-|[]]. reflexivity.
  - destruct (Ascii.eqb a nl) eqn:E.
    + destruct Hx as [<-|Hx]; [reflexivity|auto].
    + destruct (split_char nl s) as [|h t] eqn:S.
      * destruct Hx as [<-|[]]. cbn [has_nl]. rewrite E. reflexivity.
      * destruct Hx as [<-|Hx].
        -- cbn [has_nl]. rewrite E. cbn [orb]. apply IH. now left.
        -- apply IH. now right.
Qed.

Lemma split_and_strip_no_nl t x : In x (split_and_strip t) -> has_nl x = false.
Proof.
  unfold split_and_strip. destruct (has_nl t) eqn:E.
  - apply split_char_no_nl.
  - intros [<-|[]]. exact E.
Qed.

(* a line as it is appended to the generator's rows *)
Definition good_line (l : string) : Prop :=
  is_empty l = false /\ has_nl l = false /\ has_none_word l = false.

Lemma strip_nonempty r : is_empty (strip r) = false -> is_empty r = false.
Proof. destruct r; [intros H; exact H|reflexivity]. Qed.

Lemma is_empty_spaces c r : is_empty r = false -> is_empty (spaces c ++ r) = false.
Proof. destruct c; [rewrite spaces_0; auto|reflexivity]. Qed.

Lemma good_line_row c r : wf_row r = true -> has_nl r = false -> good_line (spaces c ++ r).
Proof.
  intros W N. unfold wf_row in W. rewrite !andb_true_iff, !negb_true_iff in W.
  destruct W as [[[[_ He] _] _] Hn].
  repeat split.
  - apply is_empty_spaces, strip_nonempty, He.
  - rewrite has_nl_spaces. exact N.
  - rewrite none_word_spaces. exact Hn.
Qed.

(* ---------- text_of_rows / split_lines round trip ---------- *)

Lemma split_char_line l rest :
  has_nl l = false -> split_char nl (l ++ nl_s ++ rest) = l :: split_char nl rest.
Proof.
  induction l as [|a l IH]; intros H.
  - change ("" ++ nl_s ++ rest)%string with (String nl rest). cbn [split_char].
    rewrite Ascii.eqb_refl. reflexivity.
  - cbn [has_nl] in H. apply orb_false_iff in H as [Ha Hl].
    change (String a l ++ nl_s ++ rest)%string with (String a (l ++ nl_s ++ rest)%string).
    cbn [split_char]. rewrite Ha. rewrite (IH Hl). reflexivity.
Qed.

Lemma text_of_rows_cons x r :
  text_of_rows (x :: r) = (x ++ nl_s ++ match r with [] => EmptyString | _ => text_of_rows r end)%string.
Proof.
  unfold text_of_rows. destruct r as [|y r].
  - cbn [join_with]. rewrite append_nil_r. reflexivity.
  - cbn [join_with]. rewrite !append_assoc. reflexivity.
Qed.

Lemma split_lines_text rows :
  Forall good_line rows -> split_lines (text_of_rows rows) = rows.
Proof.
  unfold split_lines.
  induction rows as [|x r IH]; intros F; [reflexivity|].
  inversion F as [|? ? [He [Hn _]] F']; subst.
  rewrite text_of_rows_cons, split_char_line by exact Hn.
  cbn [filter]. rewrite He. cbn [negb]. f_equal.
  destruct r as [|y r]; [reflexivity|]. apply IH. exact F'.
Qed.

(* ---------- the offside reference on the emitted lines ---------- *)

Definition parent (h : hist) (c : nat) : list string :=
  match find (fun e : nat * list string => Nat.ltb (fst e) c) h with Some (_, pp) => pp | None => [] end.

(* the history allows a line in column c, and such a line lands under path bp *)
Definition Ready (h : hist) (c : nat) (bp : list string) : Prop :=
  ref_consistent h c = true /\ parent h c = bp.

Lemma ref_path_parent h c row : ref_path h c row = parent h c ++ [row].
Proof. unfold ref_path, parent. destruct (find _ h) as [[? ?]|]; reflexivity. Qed.

Lemma find_skip {A} (f : A -> bool) l1 l2 :
  Forall (fun e => f e = false) l1 -> find f (l1 ++ l2) = find f l2.
Proof. induction 1 as [|x l Hx _ IH]; cbn; [reflexivity|]. rewrite Hx. exact IH. Qed.

Lemma ready_same h c bp p : Ready h c bp -> Ready ((c, p) :: h) c bp.
Proof.
  intros [_ Hp]. split.
  - unfold ref_consistent. cbn [find fst]. rewrite Nat.leb_refl, Nat.eqb_refl. apply orb_true_r.
  - unfold parent. cbn [find fst]. rewrite Nat.ltb_irrefl. exact Hp.
Qed.

Lemma ready_child h c p i : 0 < i -> Ready ((c, p) :: h) (c + i) p.
Proof.
  intros Hi. assert (L : Nat.ltb c (c + i) = true) by (apply Nat.ltb_lt; lia). split.
  - unfold ref_consistent. rewrite L. reflexivity.
  - unfold parent. cbn [find fst]. rewrite L. reflexivity.
Qed.

Lemma ready_back new c p h bp :
  parent h c = bp -> Forall (fun e : nat * list string => c < fst e) new ->
  Ready (new ++ (c, p) :: h) c bp.
Proof.
  intros Hp F. split.
  - assert (Hf : find (fun e : nat * list string => Nat.leb (fst e) c) (new ++ (c, p) :: h) = Some (c, p)).
    { rewrite find_skip.
      - cbn [find fst]. rewrite Nat.leb_refl. reflexivity.
      - eapply Forall_impl; [|exact F]. cbn. intros a Ha. apply Nat.leb_gt. exact Ha. }
    unfold ref_consistent. destruct new as [|[lp pp] new'].
    + cbn [app find fst]. rewrite Nat.leb_refl, Nat.eqb_refl. apply orb_true_r.
    + cbn [app]. cbn [app] in Hf. rewrite Hf. rewrite Nat.eqb_refl. apply orb_true_r.
  - unfold parent. rewrite find_skip.
    + cbn [find fst]. rewrite Nat.ltb_irrefl. exact Hp.
    + eapply Forall_impl; [|exact F]. cbn. intros a Ha. apply Nat.ltb_ge. lia.
Qed.

(* what running a piece of program at column c under block path bp does to the reference parser:
   r is what the piece emits, ps the paths it yields *)
Definition K_ok (c : nat) (bp : list string) (r : res) (ps : list (list string)) : Prop :=
  exists lines, r = inr lines /\
    Forall good_line lines /\
    forall h acc n rest, Ready h c bp ->
      exists new,
        ref_items (map (classify gen_comments) lines ++ rest) n h acc
        = ref_items rest (n + List.length lines) (new ++ h) (insall ps acc)
        /\ Ready (new ++ h) c bp
        /\ Forall (fun e : nat * list string => c <= fst e) new.

Lemma K_nil c bp : K_ok c bp (inr []) [].
Proof.
  exists []. split; [reflexivity|]. split; [constructor|].
  intros h acc n rest R. exists []. cbn. rewrite Nat.add_0_r. split; [reflexivity|]. split; [exact R|constructor].
Qed.

Definition res_app (r1 r2 : res) : res :=
  match r1 with
  | inl e => inl e
  | inr l => match r2 with inl e => inl e | inr l' => inr (l ++ l') end
  end.

Lemma K_app c bp r1 r2 ps1 ps2 :
  K_ok c bp r1 ps1 -> K_ok c bp r2 ps2 -> K_ok c bp (res_app r1 r2) (ps1 ++ ps2).
Proof.
  intros (l1 & -> & G1 & X1) (l2 & -> & G2 & X2). exists (l1 ++ l2). split; [reflexivity|].
  split; [apply Forall_app; auto|].
  intros h acc n rest R.
  destruct (X1 h acc n (map (classify gen_comments) l2 ++ rest) R) as (new1 & E1 & R1 & F1).
  destruct (X2 (new1 ++ h) (insall ps1 acc) (n + List.length l1) rest R1) as (new2 & E2 & R2 & F2).
  exists (new2 ++ new1). rewrite map_app, <- app_assoc, E1, E2.
  rewrite app_length, insall_app, <- app_assoc, Nat.add_assoc.
  split; [reflexivity|]. split; [exact R2|]. apply Forall_app; auto.
Qed.

(* rows of one text, all in column c *)
Lemma K_rows c bp rs :
  Forall (fun r => wf_row r = true /\ has_nl r = false) rs ->
  K_ok c bp (inr (map (fun row => (spaces c ++ row)%string) rs)) (map (fun r => bp ++ [key_of r]) rs).
Proof.
  intros F. eexists. split; [reflexivity|]. split.
  - induction F as [|r rs [W N] _ IH]; cbn; constructor; auto. apply good_line_row; assumption.
  - induction F as [|r rs [W N] _ IH]; intros h acc n rest R.
    + exists []. cbn. rewrite Nat.add_0_r. split; [reflexivity|]. split; [exact R|constructor].
    + cbn [map app]. rewrite (classify_row c r W). cbn [ref_items].
      destruct R as [Rc Rp]. rewrite Rc. rewrite ref_path_parent, Rp.
      assert (R' : Ready ((c, bp ++ [strip r]) :: h) c bp) by (apply ready_same; split; assumption).
      destruct (IH ((c, bp ++ [strip r]) :: h) (ins (bp ++ [strip r]) acc) (S n) rest R')
        as (new & E & R2 & F2).
      exists (new ++ [(c, bp ++ [strip r])]). rewrite <- app_assoc. cbn [app].
      rewrite E. cbn [List.length]. rewrite Nat.add_succ_r. unfold key_of. rewrite insall_cons.
      split; [reflexivity|]. split; [exact R2|].
      apply Forall_app. split; [exact F2|]. constructor; [cbn; lia|constructor].
Qed.

Lemma wf_text_rows t :
  wf_text t = true -> Forall (fun r => wf_row r = true /\ has_nl r = false) (split_and_strip t).
Proof.
  unfold wf_text. rewrite forallb_forall. intros H. apply Forall_forall. intros x Hx.
  split; [apply H; exact Hx|eapply split_and_strip_no_nl; exact Hx].
Qed.

Lemma K_text c bp t : wf_text t = true -> K_ok c bp (inr (append_text (spaces c) t)) (ypaths_text bp t).
Proof. intros W. apply K_rows. apply wf_text_rows. exact W. Qed.

(* with self.block(...): the header line in column c, the body one indent deeper below it *)
Lemma K_block c bp toks ind (kemit : string -> res) (kpaths : list string -> list (list string)) :
  (forall c' bp', K_ok c' bp' (kemit (spaces c')) (kpaths bp')) ->
  wf_toks toks = true -> wf_indent ind = true ->
  K_ok c bp (with_block (spaces c) toks ind kemit) (sp_block bp toks kpaths).
Proof.
  intros KB Wt Wi. unfold wf_toks in Wt. unfold with_block, sp_block.
  destruct (join_toks toks) as [e|b]; [discriminate|].
  set (i := match ind with Some n => n | None => default_indent end).
  assert (Hi : 0 < i).
  { subst i. destruct ind as [[|n]|]; cbn in *; try discriminate; unfold default_indent; lia. }
  rewrite spaces_add.
  assert (Wt' : wf_text b = true).
  { unfold wf_block_text in Wt. unfold wf_text. destruct (split_and_strip b) as [|r [|? ?]]; try discriminate.
    cbn. rewrite Wt. reflexivity. }
  unfold wf_block_text in Wt. unfold append_text, ypaths_text.
  pose proof (wf_text_rows b Wt') as Frows.
  destruct (split_and_strip b) as [|r [|? ?]]; try discriminate.
  cbn [map last app].
  inversion Frows as [|? ? [Wr Nr] _]; subst.
  destruct (KB (c + i) (bp ++ [key_of r])) as (l & EK & G & X). rewrite EK.
  eexists. split; [reflexivity|].
  split; [constructor; [apply good_line_row; assumption|exact G]|].
  intros h acc n rest R. cbn [map app]. rewrite (classify_row c r Wr). cbn [ref_items].
  destruct R as [Rc Rp]. rewrite Rc, ref_path_parent, Rp. fold (key_of r).
  destruct (X ((c, bp ++ [key_of r]) :: h) (ins (bp ++ [key_of r]) acc) (S n) rest (ready_child h c _ i Hi))
    as (new & E & R2 & F2).
  exists (new ++ [(c, bp ++ [key_of r])]). rewrite <- app_assoc. cbn [app].
  rewrite E. cbn [List.length]. rewrite Nat.add_succ_r. rewrite insall_cons.
  split; [reflexivity|]. split.
  - apply ready_back; [exact Rp|]. eapply Forall_impl; [|exact F2]. cbn. intros a Ha. lia.
  - apply Forall_app. split; [|constructor; [cbn; lia|constructor]].
    eapply Forall_impl; [|exact F2]. cbn. intros a Ha. lia.
Qed.

Lemma K_multiblock blocks : forall c bp (kemit : string -> res) (kpaths : list string -> list (list string)),
  (forall c' bp', K_ok c' bp' (kemit (spaces c')) (kpaths bp')) ->
  forallb (fun b => wf_toks (mblk_toks b)) blocks = true ->
  K_ok c bp (with_multiblock (spaces c) blocks kemit) (sp_multiblock bp blocks kpaths).
Proof.
  induction blocks as [|b blocks IH]; intros c bp kemit kpaths KB W.
  - cbn. apply KB.
  - cbn in W. apply andb_true_iff in W as [Wb W].
    cbn [with_multiblock sp_multiblock]. apply K_block; [|exact Wb|reflexivity].
    intros c' bp'. apply IH; assumption.
Qed.

Lemma seq_res_cons {A} (f : A -> res) s r : seq_res f (s :: r) = res_app (f s) (seq_res f r).
Proof. reflexivity. Qed.

Theorem K_stmt : forall s c bp, wf_stmt s = true -> K_ok c bp (emit_stmt (spaces c) s) (ypaths bp s).
Proof.
  apply (stmt_ind2
    (fun s => forall c bp, wf_stmt s = true -> K_ok c bp (emit_stmt (spaces c) s) (ypaths bp s))
    (fun ss => forall c bp, forallb wf_stmt ss = true ->
                 K_ok c bp (seq_res (emit_stmt (spaces c)) ss) (flat_map (ypaths bp) ss))).
  - intros v c bp W. cbn in W. cbn [emit_stmt ypaths]. unfold ypaths_yield.
    destruct (ytext v) as [e|t]; [discriminate|]. apply K_text. exact W.
  - intros toks ind body IH c bp W. cbn [wf_stmt] in W. rewrite !andb_true_iff in W.
    destruct W as [[Wt Wi] Wb]. cbn [emit_stmt ypaths]. apply K_block; auto.
  - intros toks cond body IH c bp W. cbn [wf_stmt] in W. rewrite andb_true_iff in W.
    destruct W as [Wt Wb]. cbn [emit_stmt ypaths].
    destruct (block_if_cond toks cond); [apply K_block; auto|apply IH; exact Wb].
  - intros blocks body IH c bp W. cbn [wf_stmt] in W. rewrite andb_true_iff in W.
    destruct W as [Wt Wb]. cbn [emit_stmt ypaths]. apply K_multiblock; auto.
  - intros blocks cond body IH c bp W. cbn [wf_stmt] in W. rewrite andb_true_iff in W.
    destruct W as [Wt Wb]. cbn [emit_stmt ypaths].
    destruct (multiblock_if_cond blocks cond); [apply K_multiblock; auto|apply IH; exact Wb].
  - intros c bp _. apply K_nil.
  - intros s ss IHs IHss c bp W. cbn [forallb] in W. apply andb_true_iff in W as [Ws Wss].
    rewrite seq_res_cons. cbn [flat_map]. apply K_app; auto.
Qed.

Theorem K_body : forall ss c bp, forallb wf_stmt ss = true ->
  K_ok c bp (seq_res (emit_stmt (spaces c)) ss) (flat_map (ypaths bp) ss).
Proof.
  induction ss as [|s ss IH]; intros c bp W.
  - apply K_nil.
  - cbn [forallb] in W. apply andb_true_iff in W as [Ws Wss].
    rewrite seq_res_cons. cbn [flat_map]. apply K_app; [apply K_stmt; exact Ws|apply IH; exact Wss].
Qed.

(* ---------- C10_emit_parse ---------- *)

Lemma existsb_none_word rows : Forall good_line rows -> existsb has_none_word rows = false.
Proof.
  induction 1 as [|x r [_ [_ Hn]] _ IH]; [reflexivity|]. cbn. rewrite Hn, IH. reflexivity.
Qed.

Theorem emit_parse p : wf_prog p = true -> run_noacl p = GOk (tree_of p).
Proof.
  intros W. unfold wf_prog in W.
  destruct (K_body p 0 [] W) as (lines & E & G & X).
  unfold run_noacl, gen_rows, emit_body.
  change EmptyString with (spaces 0) at 1. rewrite E.
  rewrite (existsb_none_word _ G).
  unfold parse_text. rewrite split_lines_text by exact G.
  unfold parse_lines. rewrite (parse_items_ref _ 1 ps_init [] [] Inv_init).
  assert (R0 : Ready [] 0 []) by (split; reflexivity).
  destruct (X [] [] 1 [] R0) as (new & Eq & _ & _).
  rewrite app_nil_r in Eq. rewrite Eq. cbn [ref_items]. reflexivity.
Qed.

(* ---------- paths in an ordered-dict tree ---------- *)

Fixpoint prefixb (q p : list string) : bool :=
  match q, p with
  | [], _ => true
  | a :: q', b :: p' => String.eqb a b && prefixb q' p'
  | _ :: _, [] => false
  end.

Lemma prefixb_refl q : prefixb q q = true.
Proof. induction q as [|a q IH]; cbn; [reflexivity|]. rewrite String.eqb_refl. exact IH. Qed.

Definition child_or_empty (k : string) (f : forest) : forest :=
  match lookup k f with Some (T c) => c | None => [] end.

Lemma lookup_ins_same k p f : lookup k (ins (k :: p) f) = Some (T (ins p (child_or_empty k f))).
Proof.
  unfold child_or_empty. induction f as [|[k' v] f IH].
  - cbn. rewrite String.eqb_refl. reflexivity.
  - cbn [ins lookup]. destruct (String.eqb k k') eqn:E.
    + cbn [lookup]. rewrite E. destruct v. reflexivity.
    + cbn [lookup]. rewrite E. exact IH.
Qed.

Lemma lookup_ins_other k k' p f : String.eqb k' k = false -> lookup k' (ins (k :: p) f) = lookup k' f.
Proof.
  intros N. induction f as [|[k2 v] f IH].
  - cbn. rewrite N. reflexivity.
  - cbn [ins]. destruct (String.eqb k k2) eqn:E.
    + cbn [lookup]. apply String.eqb_eq in E. subst k2. rewrite N. reflexivity.
    + cbn [lookup]. destruct (String.eqb k' k2); [reflexivity|exact IH].
Qed.

Lemma mem_path_nil_forest q : mem_path q [] = match q with [] => true | _ => false end.
Proof. destruct q; reflexivity. Qed.

Lemma mem_path_ins : forall p q f, mem_path q (ins p f) = mem_path q f || prefixb q p.
Proof.
  induction p as [|k p IH]; intros q f.
  - cbn [ins]. destruct q; cbn; [reflexivity|rewrite orb_false_r; reflexivity].
  - destruct q as [|k' q]; [reflexivity|].
    cbn [mem_path prefixb]. destruct (String.eqb k' k) eqn:E.
    + apply String.eqb_eq in E. subst k'. rewrite lookup_ins_same, IH. cbn [andb].
      unfold child_or_empty. destruct (lookup k f) as [[c]|]; [reflexivity|].
      rewrite mem_path_nil_forest. destruct q; reflexivity.
    + rewrite lookup_ins_other by exact E. cbn [andb]. rewrite orb_false_r. reflexivity.
Qed.

Lemma mem_path_insall : forall ps q f, mem_path q (insall ps f) = mem_path q f || existsb (prefixb q) ps.
Proof.
  induction ps as [|p ps IH]; intros q f.
  - cbn. rewrite orb_false_r. reflexivity.
  - rewrite insall_cons, IH, mem_path_ins. cbn [existsb]. rewrite orb_assoc. reflexivity.
Qed.

Lemma ins_cons_cons k p k' v f :
  ins (k :: p) ((k', v) :: f) =
  if String.eqb k k' then (k', T (ins p (kids v))) :: f else (k', v) :: ins (k :: p) f.
Proof. reflexivity. Qed.

(* keys stay unique *)
Lemma keys_ins k p f : keys (ins (k :: p) f) = if existsb (String.eqb k) (keys f) then keys f else keys f ++ [k].
Proof.
  induction f as [|[k' v] f IH].
  - reflexivity.
  - rewrite ins_cons_cons. change (keys ((k', v) :: f)) with (k' :: keys f). cbn [existsb].
    destruct (String.eqb k k') eqn:E.
    + reflexivity.
    + change (keys ((k', v) :: ins (k :: p) f)) with (k' :: keys (ins (k :: p) f)). rewrite IH. cbn [orb].
      destruct (existsb (String.eqb k) (keys f)); reflexivity.
Qed.

Lemma wf_app_single f r c : wf f -> ~ In r (keys f) -> wf (kids c) -> wf (f ++ [(r, c)]).
Proof.
  induction 1 as [|r' c' f' Hn Hc _ Hf IH]; intros Hr Hk.
  - cbn. constructor; [intros []|exact Hk|constructor].
  - cbn. constructor.
    + unfold keys. rewrite map_app, in_app_iff. cbn. intros [H|[H|[]]]; [exact (Hn H)|].
      subst. apply Hr. now left.
    + exact Hc.
    + apply IH; [|exact Hk]. intro H. apply Hr. now right.
Qed.

Lemma wf_ins : forall p f, wf f -> wf (ins p f).
Proof.
  induction p as [|k p IH]; intros f W; [exact W|].
  induction W as [|r c f' Hn Hc _ Hf IHf].
  - cbn. constructor; [intros []| |constructor]. cbn [kids]. apply IH. constructor.
  - rewrite ins_cons_cons. destruct (String.eqb k r) eqn:E.
    + constructor; [exact Hn| |exact Hf]. cbn [kids]. apply IH. exact Hc.
    + constructor; [|exact Hc|exact IHf].
      rewrite keys_ins.
      destruct (existsb (String.eqb k) (keys f')); [exact Hn|].
      rewrite in_app_iff. intros [H|[H|[]]]; [exact (Hn H)|].
      subst. rewrite String.eqb_refl in E. discriminate.
Qed.

Lemma wf_insall : forall ps f, wf f -> wf (insall ps f).
Proof. induction ps as [|p ps IH]; intros f W; [exact W|]. rewrite insall_cons. apply IH, wf_ins, W. Qed.

Theorem tree_of_wf p : wf (tree_of p).
Proof. apply wf_insall. constructor. Qed.

(* the paths of a well-formed tree are exactly its members *)
Lemma mem_path_paths f q : wf f -> q <> [] -> mem_path q f = existsb (prefixb q) (paths [] f).
Proof.
  intros W Hq. rewrite <- (rebuild f W) at 1. rewrite mem_path_insall, mem_path_nil_forest.
  destruct q; [contradiction|reflexivity].
Qed.

(* ---------- the yielded paths are closed under (non-empty) prefixes ---------- *)

(* every path of ps extends bp properly, and each of its prefixes longer than bp is in ps *)
Definition closed_from (bp : list string) (ps : list (list string)) : Prop :=
  forall p, In p ps ->
    exists s, s <> [] /\ p = bp ++ s /\
      forall s1 s2, s = s1 ++ s2 -> s1 <> [] -> In (bp ++ s1) ps.

Lemma closed_nil bp : closed_from bp [].
Proof. intros p []. Qed.

Lemma closed_app bp ps qs : closed_from bp ps -> closed_from bp qs -> closed_from bp (ps ++ qs).
Proof.
  intros A B p Hp. apply in_app_iff in Hp as [Hp|Hp].
  - destruct (A p Hp) as (s & Hs & E & C). exists s. repeat split; auto.
    intros s1 s2 E1 N. apply in_app_iff. left. eapply C; eauto.
  - destruct (B p Hp) as (s & Hs & E & C). exists s. repeat split; auto.
    intros s1 s2 E1 N. apply in_app_iff. right. eapply C; eauto.
Qed.

Lemma closed_rows bp (ks : list string) : closed_from bp (map (fun k => bp ++ [k]) ks).
Proof.
  intros p Hp. apply in_map_iff in Hp as (k & <- & Hk). exists [k]. repeat split; [discriminate|].
  intros s1 s2 E N. destruct s1 as [|a s1]; [contradiction|].
  destruct s1; [|destruct s1; discriminate]. cbn in E. injection E as E _. subst a.
  apply in_map_iff. exists k. auto.
Qed.

Lemma last_in {A} (l : list A) d : l <> [] -> In (last l d) l.
Proof.
  induction l as [|a l IH]; [contradiction|]. intros _. destruct l as [|b l]; [now left|].
  right. apply IH. discriminate.
Qed.

Lemma last_map {A B} (f : A -> B) l d : last (map f l) (f d) = f (last l d).
Proof. induction l as [|a l IH]; [reflexivity|]. destruct l; [reflexivity|exact IH]. Qed.

(* a block: its header line (the last row of the header text), the body below it *)
Lemma closed_block bp (ks : list string) (body : list (list string)) :
  closed_from (bp ++ [last ks EmptyString]) body -> ks <> [] ->
  closed_from bp (map (fun k => bp ++ [k]) ks ++ body).
Proof.
  intros B Hks p Hp. apply in_app_iff in Hp as [Hp|Hp].
  - destruct (closed_rows bp ks p Hp) as (s & Hs & E & C). exists s. repeat split; auto.
    intros s1 s2 E1 N. apply in_app_iff. left. eapply C; eauto.
  - destruct (B p Hp) as (s & Hs & E & C). exists (last ks EmptyString :: s).
    split; [discriminate|]. split; [rewrite E, <- app_assoc; reflexivity|].
    intros s1 s2 E1 N. destruct s1 as [|a s1]; [contradiction|]. cbn in E1. injection E1 as Ea E1. subst a.
    apply in_app_iff. destruct s1 as [|b s1].
    + left. apply in_map_iff. exists (last ks EmptyString). split; [reflexivity|apply last_in; exact Hks].
    + right. change (bp ++ last ks EmptyString :: b :: s1) with (bp ++ [last ks EmptyString] ++ b :: s1).
      rewrite app_assoc. eapply C; [exact E1|discriminate].
Qed.

Lemma split_char_nonempty c s : split_char c s <> [].
Proof.
  destruct s as [|a s]; cbn [split_char]; [discriminate|].
  destruct (Ascii.eqb a c); [discriminate|]. destruct (split_char c s); discriminate.
Qed.

Lemma split_and_strip_nonempty t : split_and_strip t <> [].
Proof. unfold split_and_strip. destruct (has_nl t); [apply split_char_nonempty|discriminate]. Qed.

Lemma ypaths_text_map bp t : ypaths_text bp t = map (fun k => bp ++ [k]) (map key_of (split_and_strip t)).
Proof. unfold ypaths_text. rewrite map_map. reflexivity. Qed.

Lemma closed_sp_block bp toks (kpaths : list string -> list (list string)) :
  (forall bp', closed_from bp' (kpaths bp')) -> closed_from bp (sp_block bp toks kpaths).
Proof.
  intros K. unfold sp_block. destruct (join_toks toks) as [e|b]; [apply closed_nil|].
  rewrite ypaths_text_map. apply closed_block.
  - change EmptyString with (key_of EmptyString). rewrite last_map. apply K.
  - intro H. apply map_eq_nil in H. exact (split_and_strip_nonempty b H).
Qed.

Lemma closed_sp_multiblock blocks : forall bp (kpaths : list string -> list (list string)),
  (forall bp', closed_from bp' (kpaths bp')) -> closed_from bp (sp_multiblock bp blocks kpaths).
Proof.
  induction blocks as [|b blocks IH]; intros bp kpaths K; cbn [sp_multiblock]; [apply K|].
  apply closed_sp_block. intros bp'. apply IH. exact K.
Qed.

Theorem ypaths_closed : forall s bp, closed_from bp (ypaths bp s).
Proof.
  apply (stmt_ind2 (fun s => forall bp, closed_from bp (ypaths bp s))
                   (fun ss => forall bp, closed_from bp (flat_map (ypaths bp) ss))).
  - intros v bp. cbn [ypaths]. unfold ypaths_yield. destruct (ytext v); [apply closed_nil|].
    rewrite ypaths_text_map. apply closed_rows.
  - intros toks ind body IH bp. cbn [ypaths]. apply closed_sp_block. exact IH.
  - intros toks cond body IH bp. cbn [ypaths].
    destruct (block_if_cond toks cond); [apply closed_sp_block; exact IH|apply IH].
  - intros blocks body IH bp. cbn [ypaths]. apply closed_sp_multiblock. exact IH.
  - intros blocks cond body IH bp. cbn [ypaths].
    destruct (multiblock_if_cond blocks cond); [apply closed_sp_multiblock; exact IH|apply IH].
  - intros bp. apply closed_nil.
  - intros s ss IHs IHss bp. cbn [flat_map]. apply closed_app; auto.
Qed.

Lemma prog_paths_closed p : closed_from [] (prog_paths p).
Proof.
  unfold prog_paths. induction p as [|s ss IH]; [apply closed_nil|].
  cbn [flat_map]. apply closed_app; [apply ypaths_closed|exact IH].
Qed.

Lemma prefixb_app q : forall p, prefixb q p = true -> exists s, p = q ++ s.
Proof.
  induction q as [|a q IH]; intros p H; [exists p; reflexivity|].
  destruct p as [|b p]; [discriminate|]. cbn in H. apply andb_true_iff in H as [E H].
  apply String.eqb_eq in E. subst b. destruct (IH p H) as (s & ->). exists s. reflexivity.
Qed.

(* every yielded path is in the tree, and nothing else is *)
Theorem tree_of_paths p q : q <> [] -> (mem_path q (tree_of p) = true <-> In q (prog_paths p)).
Proof.
  intros Hq. unfold tree_of. rewrite mem_path_insall, mem_path_nil_forest.
  destruct q as [|a q]; [contradiction|]. cbn [orb]. rewrite existsb_exists. split.
  - intros (p0 & Hin & Hp). destruct (prefixb_app _ _ Hp) as (s2 & E).
    destruct (prog_paths_closed p p0 Hin) as (s & _ & E2 & C). cbn [app] in E2.
    apply (C (a :: q) s2); [congruence|discriminate].
  - intros Hin. exists (a :: q). split; [exact Hin|apply prefixb_refl].
Qed.

(* ---------- merge_dicts on config trees is insertion of all paths ---------- *)

Definition gomap (f g : forest) : forest :=
  map (fun kv => (fst kv, match lookup (fst kv) g with Some w => tunion (snd kv) w | None => snd kv end)) f.

Definition newkeys (f g : forest) : forest := filter (fun kv => negb (has_key (fst kv) f)) g.

Lemma funion_unfold f g : funion f g = gomap f g ++ newkeys f g.
Proof.
  unfold funion. cbn [tunion kids]. f_equal.
  unfold gomap. induction f as [|[k v] f IH]; [reflexivity|]. cbn [map fst snd]. f_equal. exact IH.
Qed.

Lemma tunion_T k c : tunion (T k) c = T (funion k (kids c)).
Proof. destruct c as [kc]. reflexivity. Qed.

Lemma lookup_none_keys k f : ~ In k (keys f) -> lookup k f = None.
Proof.
  induction f as [|[k' v] f IH]; intros H; [reflexivity|]. cbn [lookup].
  destruct (String.eqb_spec k k') as [->|N]; [exfalso; apply H; now left|].
  apply IH. intro Hin. apply H. now right.
Qed.

Lemma has_key_in k f : has_key k f = true <-> In k (keys f).
Proof.
  unfold has_key. induction f as [|[k' v] f IH]; cbn [lookup keys map fst In].
  - split; [discriminate|intros []].
  - destruct (String.eqb_spec k k') as [->|N].
    + split; auto.
    + rewrite IH. split; [auto|]. intros [E|H]; [congruence|exact H].
Qed.

Lemma has_key_notin k f : ~ In k (keys f) -> has_key k f = false.
Proof. intros H. destruct (has_key k f) eqn:E; [|reflexivity]. apply has_key_in in E. contradiction. Qed.

Lemma gomap_app f1 f2 g : gomap (f1 ++ f2) g = gomap f1 g ++ gomap f2 g.
Proof. unfold gomap. apply map_app. Qed.

(* the entry r of g only matters to the entry r of f *)
Lemma gomap_skip r c f g : ~ In r (keys f) -> gomap f ((r, c) :: g) = gomap f g.
Proof.
  unfold gomap. induction f as [|[k v] f IH]; intros H; [reflexivity|]. cbn [map fst snd lookup].
  destruct (String.eqb_spec k r) as [->|N]; [exfalso; apply H; now left|].
  f_equal. apply IH. intro Hin. apply H. now right.
Qed.

Lemma gomap_cons k v f g :
  gomap ((k, v) :: f) g = (k, match lookup k g with Some w => tunion v w | None => v end) :: gomap f g.
Proof. reflexivity. Qed.

Lemma keys_app f1 f2 : keys (f1 ++ f2) = keys f1 ++ keys f2.
Proof. unfold keys. apply map_app. Qed.

Lemma newkeys_ext f f' g : (forall k, In k (keys g) -> has_key k f = has_key k f') -> newkeys f g = newkeys f' g.
Proof.
  unfold newkeys. induction g as [|[k v] g IH]; intros H; [reflexivity|]. cbn [filter fst].
  rewrite (H k) by now left. rewrite IH; [reflexivity|]. intros k' Hk. apply H. now right.
Qed.

Lemma has_key_app k f1 f2 : has_key k (f1 ++ f2) = has_key k f1 || has_key k f2.
Proof.
  unfold has_key. induction f1 as [|[k' v] f1 IH]; [reflexivity|]. cbn [app lookup].
  destruct (String.eqb k k'); [reflexivity|exact IH].
Qed.

Lemma has_key_cons k k' v f : has_key k ((k', v) :: f) = String.eqb k k' || has_key k f.
Proof. unfold has_key. cbn [lookup]. destruct (String.eqb k k'); reflexivity. Qed.

Lemma funion_cons_present f1 r v f2 c g :
  ~ In r (keys f1) -> ~ In r (keys f2) -> ~ In r (keys g) ->
  funion (f1 ++ (r, v) :: f2) ((r, c) :: g) = funion (f1 ++ (r, tunion v c) :: f2) g.
Proof.
  intros H1 H2 Hg. rewrite !funion_unfold. f_equal.
  - rewrite !gomap_app. rewrite gomap_skip by exact H1. f_equal.
    rewrite !gomap_cons. cbn [lookup]. rewrite String.eqb_refl.
    rewrite (lookup_none_keys r g Hg). f_equal. apply gomap_skip. exact H2.
  - unfold newkeys at 1. cbn [filter fst].
    rewrite has_key_app, has_key_cons, String.eqb_refl, orb_true_r. cbn [negb].
    apply newkeys_ext. intros k _. rewrite !has_key_app, !has_key_cons. reflexivity.
Qed.

Lemma funion_cons_absent f r c g :
  ~ In r (keys f) -> ~ In r (keys g) ->
  funion f ((r, c) :: g) = funion (f ++ [(r, c)]) g.
Proof.
  intros Hf Hg. rewrite !funion_unfold. rewrite gomap_skip by exact Hf. rewrite gomap_app.
  unfold newkeys at 1. cbn [filter fst]. rewrite (has_key_notin r f Hf). cbn [negb].
  rewrite <- app_assoc. f_equal.
  rewrite gomap_cons. rewrite (lookup_none_keys r g Hg). cbn [app gomap map]. f_equal.
  apply newkeys_ext. intros k Hk. rewrite has_key_app, has_key_cons.
  destruct (String.eqb_spec k r) as [->|N]; [contradiction|]. cbn. rewrite orb_false_r. reflexivity.
Qed.

Lemma funion_nil_r f : funion f [] = f.
Proof.
  rewrite funion_unfold. unfold newkeys. cbn. rewrite app_nil_r.
  unfold gomap. induction f as [|[k v] f IH]; [reflexivity|]. cbn. f_equal. exact IH.
Qed.

Lemma in_keys_split r f : In r (keys f) -> exists f1 v f2, f = f1 ++ (r, v) :: f2 /\ ~ In r (keys f1).
Proof.
  induction f as [|[k v] f IH]; [intros []|]. intros H.
  destruct (String.eqb_spec r k) as [->|N].
  - exists [], v, f. split; [reflexivity|intros []].
  - destruct H as [E|H]; [cbn in E; congruence|].
    destruct (IH H) as (f1 & v' & f2 & -> & H1). exists ((k, v) :: f1), v', f2. split; [reflexivity|].
    intros [E|Hin]; [cbn in E; congruence|exact (H1 Hin)].
Qed.

Lemma wf_app_inv f1 r v f2 : wf (f1 ++ (r, v) :: f2) -> ~ In r (keys f2) /\ wf (kids v).
Proof.
  induction f1 as [|[k w] f1 IH]; cbn [app]; intros W.
  - apply wf_inv in W as (H & Hc & _). auto.
  - apply wf_inv in W as (_ & _ & W). auto.
Qed.

Lemma ins_single_present r f1 k f2 :
  ~ In r (keys f1) -> ins [r] (f1 ++ (r, T k) :: f2) = f1 ++ (r, T k) :: f2.
Proof. intros H. rewrite ins_under by exact H. reflexivity. Qed.

Theorem funion_insall : forall g, wf g -> forall f, wf f -> funion f g = insall (paths [] g) f.
Proof.
  apply (forest_ind2
    (fun t => wf (kids t) -> forall f, wf f -> funion f (kids t) = insall (paths [] (kids t)) f)
    (fun g => wf g -> forall f, wf f -> funion f g = insall (paths [] g) f)).
  - intros k IH. exact IH.
  - intros _ f _. rewrite funion_nil_r. reflexivity.
  - intros r t g IHt IHg Wg f Wf. destruct (wf_inv _ _ _ Wg) as (Hr & Wt & Wg').
    rewrite paths_cons. cbn [app]. rewrite insall_cons, insall_app, paths_cons_prefix.
    destruct (in_dec string_dec r (keys f)) as [Hin|Hnin].
    + destruct (in_keys_split r f Hin) as (f1 & v & f2 & -> & H1).
      destruct (wf_app_inv _ _ _ _ Wf) as (H2 & Wv). destruct v as [k]. cbn [kids] in Wv.
      rewrite ins_single_present by exact H1. rewrite insall_under by exact H1.
      rewrite funion_cons_present by assumption. rewrite tunion_T.
      rewrite (IHt Wt k Wv).
      rewrite <- (insall_under r (paths [] (kids t)) f1 k f2 H1).
      apply IHg; [exact Wg'|]. apply wf_insall. exact Wf.
    + rewrite ins_fresh by exact Hnin.
      rewrite (insall_under r _ f [] [] Hnin). rewrite (rebuild _ Wt).
      rewrite funion_cons_absent by assumption.
      destruct t as [kt]. cbn [kids]. apply IHg; [exact Wg'|].
      apply wf_app_single; assumption.
Qed.

(* config_tree(): the union of the generators' configs in first-seen order *)
Lemma union_fold fs : Forall wf fs -> forall a, wf a ->
  fold_left funion fs a = insall (flat_map (paths []) fs) a.
Proof.
  induction 1 as [|f fs Wf _ IH]; intros a Wa; [reflexivity|].
  cbn [fold_left flat_map]. rewrite insall_app. rewrite funion_insall by assumption.
  apply IH. apply wf_insall. exact Wa.
Qed.

Theorem union_all_ref fs : Forall wf fs -> union_all fs = union_ref fs.
Proof. intros F. apply union_fold; [exact F|constructor]. Qed.

Theorem union_all_wf fs : Forall wf fs -> wf (union_all fs).
Proof. intros F. rewrite union_all_ref by exact F. apply wf_insall. constructor. Qed.

(* a path is in the union iff it is in one of the configs *)
Theorem union_all_mem fs q : Forall wf fs -> q <> [] ->
  mem_path q (union_all fs) = existsb (mem_path q) fs.
Proof.
  intros F Hq. rewrite union_all_ref by exact F. unfold union_ref.
  rewrite mem_path_insall, mem_path_nil_forest. destruct q as [|a q]; [contradiction|]. cbn [orb].
  induction F as [|f fs Wf _ IH]; [reflexivity|].
  cbn [flat_map existsb]. rewrite existsb_app, IH. f_equal.
  symmetry. apply mem_path_paths; [exact Wf|discriminate].
Qed.
