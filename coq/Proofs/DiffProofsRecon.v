(* C03 proof library: the reconstruction law WITH %rewrite rows.  [recon drop other d] = the projection of d
   (entries with op [drop] removed) plus, on every level, the rows of %rewrite rules of the OTHER configuration
   that the diff does not mention (an unchanged %rewrite group is omitted by rewrite_diff).  From [lossless]
   alone: recon Added an d ~ old|R and recon Removed ao d ~ new|R as unordered trees, nesting intact. *)
From Coq Require Import List String Bool Arith Lia Permutation.
From Annet Require Import Base.Str Base.Tree Model.Rulebook Model.Diff Spec.P_C03 Spec.P_C03Recon Proofs.DiffBasics
  Proofs.DiffProofsLib Proofs.DiffProofsAnnot Proofs.DiffProofsLossless Proofs.DiffProofsProj.
Import ListNotations.
Open Scope list_scope.

Lemma recon_n_eq drop other o row m kids :
  recon_n drop other (DN o row m kids) =
  if op_eqb o drop then [] else [(row, T (recon drop (asub_of other row) kids))].
Proof. reflexivity. Qed.

Lemma recon_keys drop other d :
  keys (flat_map (recon_n drop other) d) = map d_row (filter (fun x => negb (op_eqb (d_op x) drop)) d).
Proof.
  induction d as [|[o row m kids] d IH]; [reflexivity|]. cbn [flat_map filter d_op]. rewrite recon_n_eq.
  destruct (op_eqb o drop); cbn [negb app]; [exact IH|]. cbn [map keys fst d_row]. f_equal. exact IH.
Qed.

Lemma recon_In drop other d r t : In (r, t) (flat_map (recon_n drop other) d) ->
  exists o m kids, In (DN o r m kids) d /\ op_eqb o drop = false /\ t = T (recon drop (asub_of other r) kids).
Proof.
  intros H. apply in_flat_map in H as ([o row m kids] & Hx & Hin). rewrite recon_n_eq in Hin.
  destruct (op_eqb o drop) eqn:E; [destruct Hin|]. destruct Hin as [E2|[]]. injection E2 as E3 E4. subst.
  exists o, m, kids. auto.
Qed.

Lemma keys_app (a b : forest) : keys (a ++ b) = keys a ++ keys b.
Proof. unfold keys. apply map_app. Qed.

(* ---------- "nothing changed at any depth" gives equal erasures up to the order of the rows ---------- *)
Lemma same_f_fperm : forall a b, awf (akids a) -> awf (akids b) -> same_f (akids a) (akids b) = true ->
  fperm (erase_f (akids a)) (erase_f (akids b)).
Proof.
  induction a as [ka IH] using atree_ind2. intros b Ha Hb HS. cbn [akids] in *.
  set (kb := akids b) in *. rewrite same_f_unfold in HS.
  apply andb_true_iff in HS as [HS H4]. apply andb_true_iff in HS as [_ H3].
  rewrite forallb_forall in H3, H4. rewrite Forall_forall in IH.
  pose proof (awf_NoDup _ Ha) as NDa. pose proof (awf_NoDup _ Hb) as NDb.
  apply fperm_keyed.
  - rewrite erase_f_keys. exact NDa.
  - rewrite erase_f_keys. exact NDb.
  - intros r. rewrite !erase_f_keys. split; intros H.
    + unfold arows in H. apply in_map_iff in H as (k & Er & Hk). specialize (H4 k Hk). rewrite Er in H4.
      destruct (alookup r kb) as [[m' s']|] eqn:El; [|discriminate].
      apply alookup_Some_In in El. eapply In_arows. exact El.
    + unfold arows in H. apply in_map_iff in H as (k & Er & Hk). specialize (H3 k Hk). rewrite Er in H3.
      apply amem_In. exact H3.
  - intros r t1 t2 H1 H2.
    apply erase_f_In in H1 as (m1 & c1 & Hk1 & Et1). apply erase_f_In in H2 as (m2 & c2 & Hk2 & Et2). subst t1 t2.
    rewrite !erase_kids.
    pose proof (H4 _ Hk1) as H. unfold arow, ami, asub in H. cbn [fst snd] in H.
    rewrite (alookup_In kb r m2 c2 NDb Hk2) in H. apply andb_true_iff in H as [_ H].
    apply (IH _ Hk1 c2).
    + eapply awf_In; [exact Ha | exact Hk1].
    + eapply awf_In; [exact Hb | exact Hk2].
    + exact H.
Qed.

Lemma same_f_fperm_f a b : awf a -> awf b -> same_f a b = true -> fperm (erase_f a) (erase_f b).
Proof. exact (same_f_fperm (AT a) (AT b)). Qed.

(* what rw_unchanged says about single rows *)
Lemma rw_unchanged_rows ao an : rw_unchanged ao an = true ->
  (forall k, In k an -> mi_dlogic (ami k) = DRewrite -> In (arow k) (arows (rewrite_group ao))) /\
  (forall k, In k ao -> mi_dlogic (ami k) = DRewrite ->
     exists m' s', alookup (arow k) (rewrite_group an) = Some (m', s') /\ same_f (akids (asub k)) (akids s') = true).
Proof.
  unfold rw_unchanged. rewrite same_f_unfold. intros HS.
  apply andb_true_iff in HS as [HS H4]. apply andb_true_iff in HS as [_ H3].
  rewrite forallb_forall in H3, H4. split.
  - intros k Hk Hd. apply amem_In. apply H3. unfold rewrite_group. apply filter_In. split; [exact Hk|].
    apply dlogic_eqb_eq. exact Hd.
  - intros k Hk Hd. assert (Hg : In k (rewrite_group ao)).
    { unfold rewrite_group. apply filter_In. split; [exact Hk|]. apply dlogic_eqb_eq. exact Hd. }
    specialize (H4 k Hg). destruct (alookup (arow k) (rewrite_group an)) as [[m' s']|]; [|discriminate].
    apply andb_true_iff in H4 as [_ H4]. exists m', s'. split; [reflexivity | exact H4].
Qed.

Definition missing (d : list dnode) (k : string * minfo * atree) : bool :=
  dlogic_eqb (mi_dlogic (ami k)) DRewrite && negb (existsb (fun x => String.eqb (d_row x) (arow k)) d).

Lemma recon_eq drop other d : recon drop other d = flat_map (recon_n drop other) d ++ erase_f (filter (missing d) other).
Proof. reflexivity. Qed.

Lemma missing_iff d k : missing d k = true <-> mi_dlogic (ami k) = DRewrite /\ ~ In (arow k) (map d_row d).
Proof.
  unfold missing. rewrite andb_true_iff, negb_true_iff, dlogic_eqb_eq. split; intros [H1 H2]; (split; [exact H1|]).
  - intro Hin. apply in_map_iff in Hin as (x & Ex & Hx).
    assert (E : existsb (fun x => String.eqb (d_row x) (arow k)) d = true).
    { apply existsb_exists. exists x. split; [exact Hx | apply String.eqb_eq; exact Ex]. }
    congruence.
  - destruct (existsb (fun x => String.eqb (d_row x) (arow k)) d) eqn:E; [|reflexivity].
    apply existsb_exists in E as (x & Hx & Ex). apply String.eqb_eq in Ex. exfalso. apply H2.
    apply in_map_iff. exists x. auto.
Qed.

Lemma filter_group_In (f : aforest) r m s : In (r, m, s) (rewrite_group f) -> In (r, m, s) f /\ mi_dlogic m = DRewrite.
Proof. unfold rewrite_group. intros H. apply filter_In in H as [H1 H2]. split; [exact H1 | apply dlogic_eqb_eq; exact H2]. Qed.

(* ---------- old side ---------- *)
Definition RO (x : dnode) : Prop :=
  forall ao an, awf ao -> awf an -> lossless_n ao an x = true ->
    forall m so, alookup (d_row x) ao = Some (m, so) ->
      fperm (recon Added (asub_of an (d_row x)) (d_kids x)) (erase_f (akids so)).

Lemma level_recon_old d : Forall RO d -> forall ao an, awf ao -> awf an -> lossless ao an d = true ->
  fperm (recon Added an d) (erase_f ao).
Proof.
  intros IH ao an Hwo Hwn HL. apply lossless_iff in HL as (ND & Co & Cn & HLn).
  rewrite Forall_forall in IH. rewrite recon_eq.
  pose proof (awf_NoDup _ Hwo) as NDo. pose proof (awf_NoDup _ Hwn) as NDn.
  apply fperm_keyed.
  - rewrite keys_app, recon_keys, erase_f_keys. apply NoDup_app_intro.
    + apply NoDup_map_filter. exact ND.
    + apply NoDup_arows_filter. exact NDn.
    + intros r H1 H2. apply in_map_iff in H1 as (x & Er & Hx). apply filter_In in Hx as [Hx _].
      unfold arows in H2. apply in_map_iff in H2 as (k & Ek & Hk). apply filter_In in Hk as [_ Hk].
      apply missing_iff in Hk as [_ Hk]. apply Hk. rewrite Ek, <- Er. apply in_map. exact Hx.
  - rewrite erase_f_keys. exact NDo.
  - intros r. rewrite keys_app, recon_keys, !erase_f_keys, in_app_iff. split.
    + intros [H|H].
      * apply in_map_iff in H as ([o row m kids] & Er & Hx). cbn in Er. subst row.
        apply filter_In in Hx as [Hx Ho]. cbn [d_op] in Ho. apply negb_true_iff in Ho.
        pose proof (HLn _ Hx) as Hl. rewrite lossless_n_eq in Hl.
        destruct (alookup r ao) as [[mo so]|] eqn:El.
        -- apply alookup_Some_In in El. eapply In_arows. exact El.
        -- destruct o; try discriminate; destruct (alookup r an) as [[? ?]|]; discriminate.
      * unfold arows in H. apply in_map_iff in H as (k & Ek & Hk). apply filter_In in Hk as [Hk Hm].
        apply missing_iff in Hm as [Hd Hnot]. destruct (Cn _ Hk) as [Hr|[_ Hu]]; [contradiction|].
        destruct (rw_unchanged_rows _ _ Hu) as [H1 _]. subst r. eapply arows_filter_incl. apply H1; assumption.
    + intros H. unfold arows in H. apply in_map_iff in H as ([[r' mo] so] & Er & Hk). unfold arow in Er. cbn in Er. subst r'.
      destruct (Co _ Hk) as [Hr|[Hrw Hu]].
      * left. unfold arow in Hr. cbn [fst] in Hr. apply in_map_iff in Hr as ([o row m kids] & Er & Hx). cbn in Er. subst row.
        apply in_map_iff. exists (DN o r m kids). split; [reflexivity|]. apply filter_In. split; [exact Hx|].
        cbn [d_op]. pose proof (HLn _ Hx) as Hl. rewrite lossless_n_eq in Hl.
        rewrite (alookup_In ao r mo so NDo Hk) in Hl.
        destruct o; try reflexivity. discriminate.
      * destruct (in_dec string_dec r (map d_row d)) as [Hin|Hnot].
        -- left. apply in_map_iff in Hin as ([o row m kids] & Er & Hx). cbn in Er. subst row.
           apply in_map_iff. exists (DN o r m kids). split; [reflexivity|]. apply filter_In. split; [exact Hx|].
           cbn [d_op]. pose proof (HLn _ Hx) as Hl. rewrite lossless_n_eq in Hl.
           rewrite (alookup_In ao r mo so NDo Hk) in Hl.
           destruct o; try reflexivity. discriminate.
        -- right. destruct (rw_unchanged_rows _ _ Hu) as [_ H2].
           destruct (H2 _ Hk Hrw) as (m' & s' & El & _). unfold arow in El. cbn [fst] in El.
           apply alookup_Some_In in El. apply filter_group_In in El as [El Hd].
           unfold arows. apply in_map_iff. exists (r, m', s'). split; [reflexivity|]. apply filter_In. split; [exact El|].
           apply missing_iff. split; [exact Hd | exact Hnot].
  - intros r t1 t2 H1 H2.
    apply erase_f_In in H2 as (mo & so & Hk & Et). subst t2. rewrite erase_kids.
    apply in_app_iff in H1 as [H1|H1].
    + apply recon_In in H1 as (o & m & kids & Hx & Ho & Et). subst t1. cbn [Tree.kids].
      apply (IH _ Hx ao an Hwo Hwn (HLn _ Hx) mo so). cbn [d_row].
      apply alookup_In; [exact NDo | exact Hk].
    + apply erase_f_In in H1 as (mn & sn & Hkn & Et). subst t1. rewrite erase_kids.
      apply filter_In in Hkn as [Hkn Hm]. apply missing_iff in Hm as [Hd Hnot].
      destruct (Cn _ Hkn) as [Hr|[_ Hu]]; [contradiction|].
      destruct (Co _ Hk) as [Hr|[Hrw _]]; [contradiction|].
      destruct (rw_unchanged_rows _ _ Hu) as [_ H2].
      destruct (H2 _ Hk Hrw) as (m' & s' & El & HS). unfold arow in El. cbn [fst] in El. cbn [asub snd] in HS.
      apply alookup_Some_In in El. apply filter_group_In in El as [El _].
      pose proof (alookup_In an r m' s' NDn El) as E2. rewrite (alookup_In an r mn sn NDn Hkn) in E2.
      injection E2 as E3 E4. subst m' s'.
      apply fperm_sym. apply same_f_fperm_f; [eapply awf_In; [exact Hwo | exact Hk] | eapply awf_In; [exact Hwn | exact Hkn] | exact HS].
Qed.

Lemma asub_of_eq f row m s : alookup row f = Some (m, s) -> asub_of f row = akids s.
Proof. intros E. unfold asub_of. rewrite E. reflexivity. Qed.
Lemma asub_of_none f row : alookup row f = None -> asub_of f row = [].
Proof. intros E. unfold asub_of. rewrite E. reflexivity. Qed.

Lemma node_recon_old : forall x, RO x.
Proof.
  induction x as [o row mi kids IH] using dnode_ind2. unfold RO. cbn [d_row d_kids].
  intros ao an Hwo Hwn HL m so El. rewrite lossless_n_eq, El in HL.
  assert (Hk : In (row, m, so) ao) by (apply alookup_Some_In; exact El).
  assert (Hws : awf (akids so)) by (eapply awf_In; [exact Hwo | exact Hk]).
  destruct o; destruct (alookup row an) as [[mn sn]|] eqn:En; try discriminate.
  - (* Removed *) rewrite (asub_of_none _ _ En). apply andb_true_iff in HL as [_ HL].
    eapply level_recon_old; [exact IH | exact Hws | constructor | exact HL].
  - (* Moved *) rewrite (asub_of_eq _ _ _ _ En). apply andb_true_iff in HL as [HL _]. apply andb_true_iff in HL as [_ HL].
    eapply level_recon_old; [exact IH | exact Hws | | exact HL]. apply alookup_Some_In in En. exact (awf_In _ Hwn _ _ _ En).
  - (* Affected *) rewrite (asub_of_eq _ _ _ _ En). apply andb_true_iff in HL as [HL _]. apply andb_true_iff in HL as [_ HL].
    eapply level_recon_old; [exact IH | exact Hws | | exact HL]. apply alookup_Some_In in En. exact (awf_In _ Hwn _ _ _ En).
  - (* Unchanged *) rewrite (asub_of_eq _ _ _ _ En). apply andb_true_iff in HL as [HL _]. apply andb_true_iff in HL as [_ HL].
    eapply level_recon_old; [exact IH | exact Hws | | exact HL]. apply alookup_Some_In in En. exact (awf_In _ Hwn _ _ _ En).
Qed.

Theorem lossless_recon_old d ao an : awf ao -> awf an -> lossless ao an d = true ->
  fperm (recon Added an d) (erase_f ao).
Proof. apply level_recon_old. apply Forall_forall. intros x _. apply node_recon_old. Qed.

(* ---------- new side ---------- *)
Lemma rw_unchanged_rows_new ao an : rw_unchanged ao an = true -> NoDup (arows (rewrite_group an)) ->
  forall k, In k an -> mi_dlogic (ami k) = DRewrite ->
    exists mo so, In (arow k, mo, so) (rewrite_group ao) /\ same_f (akids so) (akids (asub k)) = true.
Proof.
  intros Hu NDg k Hk Hd. destruct (rw_unchanged_rows _ _ Hu) as [H1 H2].
  pose proof (H1 k Hk Hd) as Hin. unfold arows in Hin. apply in_map_iff in Hin as ([[r mo] so] & Er & Hko).
  unfold arow in Er at 1. cbn [fst] in Er. exists mo, so. rewrite <- Er. split; [exact Hko|].
  pose proof Hko as Hko'. apply filter_group_In in Hko' as [Hko' Hdo].
  destruct (H2 _ Hko' Hdo) as (m' & s' & El & HS). unfold arow in El at 1. cbn [fst] in El. cbn [asub snd] in HS.
  assert (Hg : In k (rewrite_group an)).
  { unfold rewrite_group. apply filter_In. split; [exact Hk | apply dlogic_eqb_eq; exact Hd]. }
  destruct k as [[rk mk] sk]. unfold arow in Er. cbn [fst] in Er. subst rk.
  rewrite (alookup_In _ r mk sk NDg Hg) in El. injection El as E1 E2. subst m' s'. exact HS.
Qed.

Definition RN (x : dnode) : Prop :=
  forall ao an, awf ao -> awf an -> lossless_n ao an x = true ->
    forall m sn, alookup (d_row x) an = Some (m, sn) ->
      fperm (recon Removed (asub_of ao (d_row x)) (d_kids x)) (erase_f (akids sn)).

Lemma level_recon_new d : Forall RN d -> forall ao an, awf ao -> awf an -> lossless ao an d = true ->
  fperm (recon Removed ao d) (erase_f an).
Proof.
  intros IH ao an Hwo Hwn HL. apply lossless_iff in HL as (ND & Co & Cn & HLn).
  rewrite Forall_forall in IH. rewrite recon_eq.
  pose proof (awf_NoDup _ Hwo) as NDo. pose proof (awf_NoDup _ Hwn) as NDn.
  assert (NDg : NoDup (arows (rewrite_group an))) by (apply NoDup_arows_filter; exact NDn).
  apply fperm_keyed.
  - rewrite keys_app, recon_keys, erase_f_keys. apply NoDup_app_intro.
    + apply NoDup_map_filter. exact ND.
    + apply NoDup_arows_filter. exact NDo.
    + intros r H1 H2. apply in_map_iff in H1 as (x & Er & Hx). apply filter_In in Hx as [Hx _].
      unfold arows in H2. apply in_map_iff in H2 as (k & Ek & Hk). apply filter_In in Hk as [_ Hk].
      apply missing_iff in Hk as [_ Hk]. apply Hk. rewrite Ek, <- Er. apply in_map. exact Hx.
  - rewrite erase_f_keys. exact NDn.
  - intros r. rewrite keys_app, recon_keys, !erase_f_keys, in_app_iff. split.
    + intros [H|H].
      * apply in_map_iff in H as ([o row m kids] & Er & Hx). cbn in Er. subst row.
        apply filter_In in Hx as [Hx Ho]. cbn [d_op] in Ho. apply negb_true_iff in Ho.
        pose proof (HLn _ Hx) as Hl. rewrite lossless_n_eq in Hl.
        destruct (alookup r an) as [[mn sn]|] eqn:El.
        -- apply alookup_Some_In in El. eapply In_arows. exact El.
        -- destruct o; try discriminate; destruct (alookup r ao) as [[? ?]|]; discriminate.
      * unfold arows in H. apply in_map_iff in H as (k & Ek & Hk). apply filter_In in Hk as [Hk Hm].
        apply missing_iff in Hm as [Hd Hnot]. destruct (Co _ Hk) as [Hr|[_ Hu]]; [contradiction|].
        destruct (rw_unchanged_rows _ _ Hu) as [_ H2]. destruct (H2 _ Hk Hd) as (m' & s' & El & _).
        apply alookup_Some_In in El. apply filter_group_In in El as [El _]. subst r. eapply In_arows. exact El.
    + intros H. unfold arows in H. apply in_map_iff in H as ([[r' mn] sn] & Er & Hk). unfold arow in Er. cbn in Er. subst r'.
      destruct (in_dec string_dec r (map d_row d)) as [Hin|Hnot].
      * left. apply in_map_iff in Hin as ([o row m kids] & Er & Hx). cbn in Er. subst row.
        apply in_map_iff. exists (DN o r m kids). split; [reflexivity|]. apply filter_In. split; [exact Hx|].
        cbn [d_op]. pose proof (HLn _ Hx) as Hl. rewrite lossless_n_eq in Hl.
        rewrite (alookup_In an r mn sn NDn Hk) in Hl.
        destruct o; try reflexivity. destruct (alookup r ao) as [[? ?]|]; discriminate.
      * right. destruct (Cn _ Hk) as [Hr|[Hrw Hu]]; [contradiction|].
        destruct (rw_unchanged_rows_new _ _ Hu NDg _ Hk Hrw) as (mo & so & Hko & _). unfold arow in Hko. cbn [fst] in Hko.
        apply filter_group_In in Hko as [Hko Hd].
        unfold arows. apply in_map_iff. exists (r, mo, so). split; [reflexivity|]. apply filter_In. split; [exact Hko|].
        apply missing_iff. split; [exact Hd | exact Hnot].
  - intros r t1 t2 H1 H2.
    apply erase_f_In in H2 as (mn & sn & Hk & Et). subst t2. rewrite erase_kids.
    apply in_app_iff in H1 as [H1|H1].
    + apply recon_In in H1 as (o & m & kids & Hx & Ho & Et). subst t1. cbn [Tree.kids].
      apply (IH _ Hx ao an Hwo Hwn (HLn _ Hx) mn sn). cbn [d_row].
      apply alookup_In; [exact NDn | exact Hk].
    + apply erase_f_In in H1 as (mo & so & Hko & Et). subst t1. rewrite erase_kids.
      apply filter_In in Hko as [Hko Hm]. apply missing_iff in Hm as [Hd Hnot]. unfold arow in Hnot. cbn [fst] in Hnot.
      destruct (Cn _ Hk) as [Hr|[Hrw Hu]]; [contradiction|].
      destruct (rw_unchanged_rows_new _ _ Hu NDg _ Hk Hrw) as (mo' & so' & Hko' & HS). unfold arow in Hko'. cbn [fst asub snd] in Hko', HS.
      apply filter_group_In in Hko' as [Hko' _].
      pose proof (alookup_In ao r mo' so' NDo Hko') as E2. rewrite (alookup_In ao r mo so NDo Hko) in E2.
      injection E2 as E3 E4. subst mo' so'.
      apply same_f_fperm_f; [eapply awf_In; [exact Hwo | exact Hko] | eapply awf_In; [exact Hwn | exact Hk] | exact HS].
Qed.

Lemma node_recon_new : forall x, RN x.
Proof.
  induction x as [o row mi kids IH] using dnode_ind2. unfold RN. cbn [d_row d_kids].
  intros ao an Hwo Hwn HL m sn El. rewrite lossless_n_eq, El in HL.
  assert (Hk : In (row, m, sn) an) by (apply alookup_Some_In; exact El).
  assert (Hws : awf (akids sn)) by (eapply awf_In; [exact Hwn | exact Hk]).
  destruct o; destruct (alookup row ao) as [[mo so]|] eqn:Eo; try discriminate.
  - (* Added *) rewrite (asub_of_none _ _ Eo). apply andb_true_iff in HL as [_ HL].
    eapply level_recon_new; [exact IH | constructor | exact Hws | exact HL].
  - (* Moved *) rewrite (asub_of_eq _ _ _ _ Eo). apply andb_true_iff in HL as [HL _]. apply andb_true_iff in HL as [_ HL].
    eapply level_recon_new; [exact IH | | exact Hws | exact HL]. apply alookup_Some_In in Eo. exact (awf_In _ Hwo _ _ _ Eo).
  - (* Affected *) rewrite (asub_of_eq _ _ _ _ Eo). apply andb_true_iff in HL as [HL _]. apply andb_true_iff in HL as [_ HL].
    eapply level_recon_new; [exact IH | | exact Hws | exact HL]. apply alookup_Some_In in Eo. exact (awf_In _ Hwo _ _ _ Eo).
  - (* Unchanged *) rewrite (asub_of_eq _ _ _ _ Eo). apply andb_true_iff in HL as [HL _]. apply andb_true_iff in HL as [_ HL].
    eapply level_recon_new; [exact IH | | exact Hws | exact HL]. apply alookup_Some_In in Eo. exact (awf_In _ Hwo _ _ _ Eo).
Qed.

Theorem lossless_recon_new d ao an : awf ao -> awf an -> lossless ao an d = true ->
  fperm (recon Removed ao d) (erase_f an).
Proof. apply level_recon_new. apply Forall_forall. intros x _. apply node_recon_new. Qed.

(* where no row of the other side is governed by a %rewrite rule nothing is added: recon is the projection *)
Lemma recon_norw_n drop : forall x other, norw other = true -> recon_n drop other x = proj_n drop x.
Proof.
  induction x as [o row mi kids IH] using dnode_ind2. intros other Hn. rewrite recon_n_eq, proj_n_eq.
  destruct (op_eqb o drop); [reflexivity|]. f_equal. f_equal. f_equal. rewrite recon_eq.
  assert (Hs : norw (asub_of other row) = true).
  { unfold asub_of. destruct (alookup row other) as [[m s]|] eqn:E; [|reflexivity].
    apply alookup_Some_In in E. apply (norw_In other Hn row m s E). }
  assert (E : filter (missing kids) (asub_of other row) = []).
  { clear IH. induction (asub_of other row) as [|[[r m] s] f IHf]; [reflexivity|].
    rewrite norw_cons in Hs. apply andb_true_iff in Hs as [Hs H3]. apply andb_true_iff in Hs as [H1 _].
    cbn [filter]. unfold missing at 1. unfold ami. cbn [fst snd]. apply negb_true_iff in H1. rewrite H1. cbn [andb].
    apply IHf. exact H3. }
  rewrite E. cbn [erase_f]. change (erase_f []) with (@nil (string * tree)). rewrite app_nil_r.
  apply flat_map_ext_Forall. rewrite Forall_forall in *. intros x Hx. apply IH; assumption.
Qed.

Section TopRecon.
  Variable rmatch : string -> string -> option (list string).

  Theorem diff_recon : forall rs old new, wf old -> wf new ->
    fperm (recon Added (annot_f rmatch rs new) (make_diff rmatch rs old new)) (erase_f (annot_f rmatch rs old)) /\
    fperm (recon Removed (annot_f rmatch rs old) (make_diff rmatch rs old new)) (erase_f (annot_f rmatch rs new)).
  Proof.
    intros rs old new Ho Hn.
    pose proof (diff_lossless_lib rmatch rs old new Ho Hn) as HL.
    pose proof (annot_awf rmatch old rs Ho) as Wo. pose proof (annot_awf rmatch new rs Hn) as Wn.
    split; [eapply lossless_recon_old | eapply lossless_recon_new]; eassumption.
  Qed.
End TopRecon.
