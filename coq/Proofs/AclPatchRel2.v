(* C02 proof library: a sharper relation between the patch tree and the diff it is made from
   than [pt_rel] of Proofs/AclPipelineProofs.v: a DIRECT item that stands for a REMOVED entry of
   the diff exists only under the `permanent` logic (which keeps the row and descends into it);
   every other logic answers a REMOVED entry with the removal command or with nothing.
   Used by Proofs/AclDeviceNested.v: a block of old that the diff removes is never re-created
   or entered by the patch. *)
From Coq Require Import List String Ascii Bool Arith ZArith Lia Permutation.
From Annet Require Import Base.Str Base.Tree Model.Pattern Model.Rulebook Model.Diff Model.Order
     Model.Patch Model.Blocks Model.Pipeline Model.Device Model.Acl Model.AclPipeline
     Spec.PipelineCase Spec.P_C01 Spec.P_C03 Spec.C09Blocks Spec.P_C02
     Proofs.DiffBasics Proofs.DiffProofsLib Proofs.SortProofs Proofs.BlocksProofs Proofs.AclProofs Proofs.AclPipelineProofs.
Import ListNotations.
Open Scope string_scope.
Open Scope list_scope.

Section LogicSpec2.
  Variable rreverse : string -> list string -> string.
  Variable raw : string.
  Variable key : list string.

  (* what a logic may yield, with the op of the item a direct row stands for *)
  Lemma run_logic_spec2 L its ys : run_logic rreverse raw key L its = Some ys ->
    forall y, In y ys ->
      (exists c, In c its /\ y = (true, c_row c, Some (c_ck c, c_ne c)) /\ (c_op c = Removed -> L = LPermanent)) \/
      (is_undo rreverse raw key y /\
       ((exists c, In c its /\ c_op c = Removed) \/ (L = LOrdered /\ exists c, In c its /\ c_op c = Moved))).
  Proof.
    intros E y Hy.
    destruct (run_logic_spec rreverse raw key L its ys E y Hy) as [Hd|Hu]; [|right; exact Hu].
    left.
    (* which buckets a direct row can come from *)
    assert (Hdef : forall A R F M ys', default_b rreverse raw key A R F M = Some ys' -> In y ys' ->
                     (exists c, In c (A ++ F ++ M) /\ y = (true, c_row c, Some (c_ck c, c_ne c))) \/ is_undo rreverse raw key y).
    { intros A R F M ys' E' Hy'. destruct (default_b_spec _ _ _ _ _ _ _ _ E' y Hy') as [G|[G _]]; [left; exact G | right; exact G]. }
    assert (Hnu : ~ is_undo rreverse raw key y).
    { destruct Hd as (c & _ & Ey). unfold is_undo. rewrite Ey. discriminate. }
    assert (Hbk : forall o c, In c (bucket o its) -> In c its /\ c_op c = o) by (intros o c; apply bucket_In).
    assert (Hfin : forall A F M, (forall c, In c (A ++ F ++ M) -> In c its /\ (c_op c = Removed -> L = LPermanent)) ->
                                 (exists c, In c (A ++ F ++ M) /\ y = (true, c_row c, Some (c_ck c, c_ne c))) \/ is_undo rreverse raw key y ->
                                 exists c, In c its /\ y = (true, c_row c, Some (c_ck c, c_ne c)) /\ (c_op c = Removed -> L = LPermanent)).
    { intros A F M Hall [(c & Hc & Ey)|Hu]; [|contradiction]. destruct (Hall c Hc) as [G1 G2]. exists c. repeat split; assumption. }
    assert (Hplain : forall c, In c (bucket Added its ++ bucket Affected its ++ bucket Moved its) ->
                               In c its /\ (c_op c = Removed -> L = LPermanent)).
    { intros c Hc. apply in_app_iff in Hc as [Hc|Hc]; [|apply in_app_iff in Hc as [Hc|Hc]];
        destruct (Hbk _ _ Hc) as [G1 G2]; (split; [exact G1 | intro Hx; rewrite Hx in G2; discriminate]). }
    unfold run_logic in E. cbv zeta in E.
    destruct L.
    - eapply (Hfin _ _ _ Hplain). eapply Hdef; [exact E | exact Hy].
    - destruct (default_b rreverse raw key (bucket Added its) (bucket Removed its) (bucket Affected its) (bucket Moved its)) as [y0|] eqn:E0; [|discriminate].
      injection E as E. subst ys. destruct (bucket Moved its) as [|cm lm] eqn:Em.
      + eapply (Hfin (bucket Added its) (bucket Affected its) []).
        * exact Hplain.
        * eapply Hdef; [exact E0 | exact Hy].
      + destruct Hy as [Hy|Hy]; [exfalso; apply Hnu; unfold is_undo; symmetry; exact Hy|].
        eapply (Hfin (bucket Added its) (bucket Affected its) (cm :: lm)).
        * exact Hplain.
        * eapply Hdef; [exact E0 | exact Hy].
    - destruct (bucket Removed its) as [|cr lr] eqn:Er.
      + eapply (Hfin _ _ _ Hplain). eapply Hdef; [exact E | exact Hy].
      + injection E as E. subst ys. destruct Hy.
    - destruct (bucket Removed its) as [|[[[o row] ch] ne] lr] eqn:Er.
      + eapply (Hfin _ _ _ Hplain). eapply Hdef; [exact E | exact Hy].
      + destruct ne.
        * eapply (Hfin (bucket Added its) (bucket Affected its ++ (o, row, ch, true) :: lr) (bucket Moved its)).
          -- intros c Hc. split; [|intros _; reflexivity].
             apply in_app_iff in Hc as [Hc|Hc]; [apply (Hbk _ _ Hc)|].
             apply in_app_iff in Hc as [Hc|Hc]; [|apply (Hbk _ _ Hc)].
             apply in_app_iff in Hc as [Hc|Hc]; [apply (Hbk _ _ Hc)|].
             apply (Hbk Removed). rewrite Er. exact Hc.
          -- eapply Hdef; [exact E | exact Hy].
        * injection E as E. subst ys. destruct Hy.
    - destruct (bucket Added its) as [|ca la] eqn:Ea.
      + eapply (Hfin [] (bucket Affected its) (bucket Moved its)).
        * exact Hplain.
        * eapply Hdef; [exact E | exact Hy].
      + destruct (bucket Removed its) as [|cr lr] eqn:Er.
        * eapply (Hfin (ca :: la) (bucket Affected its) (bucket Moved its)).
          -- exact Hplain.
          -- eapply Hdef; [exact E | exact Hy].
        * injection E as E. subst ys. destruct Hy.
    - destruct (bucket Added its) as [|ca la] eqn:Ea.
      + eapply (Hfin [] (bucket Affected its) (bucket Moved its)).
        * exact Hplain.
        * eapply Hdef; [exact E | exact Hy].
      + destruct (bucket Removed its) as [|cr lr] eqn:Er.
        * eapply (Hfin (ca :: la) (bucket Affected its) (bucket Moved its)).
          -- exact Hplain.
          -- eapply Hdef; [exact E | exact Hy].
        * destruct (bucket Affected its) as [|cf lf] eqn:Ef.
          -- destruct (default_b rreverse raw key [] (cr :: lr) [] []) as [y1|] eqn:E1; [|discriminate].
             destruct (default_b rreverse raw key (ca :: la) [] [] []) as [y2|] eqn:E2; [|discriminate].
             injection E as E. subst ys. apply in_app_iff in Hy as [Hy|Hy].
             ++ eapply (Hfin [] [] []); [intros c [] | eapply Hdef; [exact E1 | exact Hy]].
             ++ eapply (Hfin (ca :: la) [] []).
                ** intros c Hc. apply Hplain. rewrite app_nil_r in Hc. apply in_or_app. left. exact Hc.
                ** eapply Hdef; [exact E2 | exact Hy].
          -- eapply (Hfin (ca :: la) (cf :: lf) (bucket Moved its)).
             ++ exact Hplain.
             ++ eapply Hdef; [exact E | exact Hy].
  Qed.
End LogicSpec2.

Section PatchRel2.
  Variable rmatch : string -> string -> option (list string).
  Variable rsrc : string -> string.
  Variable rrev : string -> string.
  Variable block_exit : string.
  Variable rreverse : string -> list string -> string.

  Notation make_patch := (make_patch rmatch rsrc rrev block_exit rreverse).
  Notation patch_level := (patch_level rmatch rsrc rrev block_exit rreverse).
  Notation pl_inner := (pl_inner rmatch rsrc rrev block_exit).
  Notation pl_step := (pl_step rmatch rsrc rrev block_exit rreverse).
  Notation cit_of := (cit_of rmatch rsrc rrev block_exit rreverse).

  (* the logic of the group an entry belongs to: the attributes of an entry with the same rule text *)
  Definition perm_group (D : list dnode) (n : dnode) : Prop :=
    exists n0, In n0 D /\ mi_raw (d_mi n0) = mi_raw (d_mi n) /\ a_logic (mi_attrs (d_mi n0)) = LPermanent.

  Fixpoint pt_rel2 (t : ptree) (D : list dnode) {struct t} : Prop :=
    match t with
    | PT items =>
      (fix go (l : list item) : Prop :=
         match l with
         | [] => True
         | (row, child, _) :: l' =>
           ((exists n, In n D /\ d_row n = row /\ d_op n <> Unchanged /\ (d_op n = Removed -> perm_group D n) /\
                       match child with Some ct => pt_rel2 ct (d_kids n) | None => True end) \/
            (child = None /\ exists n n0, In n D /\ In n0 D /\ mi_raw (d_mi n0) = mi_raw (d_mi n) /\
                row = rreverse (a_pat (mi_attrs (d_mi n0))) (mi_key (d_mi n)) /\
                (d_op n = Removed \/ (d_op n = Moved /\ a_logic (mi_attrs (d_mi n0)) = LOrdered))) \/
            (child = None /\ row = "commit" /\ exists n0, In n0 D /\ a_force_commit (mi_attrs (d_mi n0)) = true))
           /\ go l'
         end) items
    end.

  Definition item_rel2 (D : list dnode) (it : item) : Prop :=
    let '(row, child, _) := it in
    (exists n, In n D /\ d_row n = row /\ d_op n <> Unchanged /\ (d_op n = Removed -> perm_group D n) /\
               match child with Some ct => pt_rel2 ct (d_kids n) | None => True end) \/
    (child = None /\ exists n n0, In n D /\ In n0 D /\ mi_raw (d_mi n0) = mi_raw (d_mi n) /\
        row = rreverse (a_pat (mi_attrs (d_mi n0))) (mi_key (d_mi n)) /\
        (d_op n = Removed \/ (d_op n = Moved /\ a_logic (mi_attrs (d_mi n0)) = LOrdered))) \/
    (child = None /\ row = "commit" /\ exists n0, In n0 D /\ a_force_commit (mi_attrs (d_mi n0)) = true).

  Lemma pt_rel2_items items D : pt_rel2 (PT items) D <-> Forall (item_rel2 D) items.
  Proof.
    cbn [pt_rel2]. induction items as [|[[row child] sk] l IH].
    - split; [constructor | trivial].
    - split.
      + intros [H1 H2]. constructor; [exact H1 | apply IH; exact H2].
      + intros H. inversion H as [|x y H1 H2]; subst. split; [exact H1 | apply IH; exact H2].
  Qed.

  (* the sharper relation implies the one of AclPipelineProofs *)
  Theorem pt_rel2_rel : forall t D, pt_rel2 t D -> pt_rel rreverse t D.
  Proof.
    induction t as [items IH] using ptree_ind2. intros D H.
    apply pt_rel2_items in H. apply pt_rel_items.
    induction IH as [|[[row child] sk] l Hit Hl IHl]; [constructor|].
    inversion H as [|x y H1 H2]; subst. constructor; [|apply IHl; exact H2].
    destruct H1 as [(n & Hn & Er & Ho & _ & Hc)|[G|G]]; [|right; left; exact G | right; right; exact G].
    left. exists n. split; [exact Hn|]. split; [exact Er|]. split; [exact Ho|].
    destruct child as [ct|]; [|exact I]. unfold kidP in Hit. cbn [fst snd] in Hit. apply Hit. exact Hc.
  Qed.

  Definition KIDS2 (D : list dnode) : Prop :=
    forall n, In n D -> forall ord t, make_patch (make_pre (d_kids n)) ord = POk t -> pt_rel2 t (d_kids n).

  Lemma pl_inner_rel2 D raw a key ordering y :
    KIDS2 D ->
    (exists n0, In n0 D /\ mi_raw (d_mi n0) = raw /\ mi_attrs (d_mi n0) = a) ->
    ((exists c, cit_of D raw key c /\ c_op c <> Unchanged /\ y = (true, c_row c, Some (c_ck c, c_ne c)) /\
                (c_op c = Removed -> a_logic a = LPermanent)) \/
     (y = (false, rreverse (a_pat a) key, None) /\
      exists n, In n D /\ mi_raw (d_mi n) = raw /\ mi_key (d_mi n) = key /\
                (d_op n = Removed \/ (d_op n = Moved /\ a_logic a = LOrdered)))) ->
    forall out out', Forall (item_rel2 D) out -> pl_inner raw a ordering (Some out) y = Some out' ->
                     Forall (item_rel2 D) out'.
  Proof.
    intros HK (n0 & Hn0 & Er0 & Ea0) Hy out out' Hout E.
    assert (Hcommit : forall sk, Forall (item_rel2 D) (if a_force_commit a then [("commit", None, sk)] else [])).
    { intro sk. destruct (a_force_commit a) eqn:Ef; constructor; [|constructor].
      right. right. split; [reflexivity|]. split; [reflexivity|]. exists n0. split; [exact Hn0|]. rewrite Ea0. exact Ef. }
    destruct y as [[direct row] sub]. cbn [AclPipelineProofs.pl_inner] in E.
    destruct (get_order rmatch rsrc rrev block_exit ordering row direct (Some "patch")) as [[order odirect] ord'].
    destruct Hy as [(c & (n & Hn & Er & Ek & Eo & Erow & Eck) & Hnu & Ey & Hperm)|(Ey & n & Hn & Er & Ek & Hop)].
    - injection Ey as E1 E2 E3. subst direct row sub. rewrite Eo in Hnu, Hperm.
      assert (Hpg : d_op n = Removed -> perm_group D n).
      { intro Hr. exists n0. split; [exact Hn0|]. split; [congruence|]. rewrite Ea0. apply Hperm. exact Hr. }
      assert (Hdir : forall ct sk, pt_rel2 ct (d_kids n) -> item_rel2 D (c_row c, Some ct, sk)).
      { intros ct sk Hct. left. exists n. split; [exact Hn|]. split; [symmetry; exact Erow|]. split; [exact Hnu|]. split; [exact Hpg | exact Hct]. }
      assert (Hleaf : forall sk, item_rel2 D (c_row c, None, sk)).
      { intros sk. left. exists n. split; [exact Hn|]. split; [symmetry; exact Erow|]. split; [exact Hnu|]. split; [exact Hpg | exact I]. }
      destruct (c_ne c).
      + destruct (c_ck c ord') as [ct|] eqn:Ec; [|discriminate].
        injection E as E. subst out'. apply Forall_app. split; [exact Hout|].
        constructor; [|apply Hcommit].
        rewrite Eck in Ec. specialize (HK n Hn ord' ct Ec).
        destruct (_ || _); [apply Hleaf | apply Hdir; exact HK].
      + injection E as E. subst out'. apply Forall_app. split; [exact Hout|].
        constructor; [|apply Hcommit].
        destruct (_ || _); [apply Hleaf | apply Hdir; cbn; exact I].
    - injection Ey as E1 E2 E3. subst direct row sub.
      injection E as E. subst out'. apply Forall_app. split; [exact Hout|].
      constructor; [|apply Hcommit].
      rewrite orb_true_r. right. left. split; [reflexivity|]. exists n, n0.
      split; [exact Hn|]. split; [exact Hn0|]. split; [congruence|]. split; [congruence|].
      destruct Hop as [Hop|[Hop1 Hop2]]; [left; exact Hop | right; split; [exact Hop1 | congruence]].
  Qed.

  Lemma pl_step_rel2 D ordering raw a key cits :
    KIDS2 D ->
    (exists n0, In n0 D /\ mi_raw (d_mi n0) = raw /\ mi_attrs (d_mi n0) = a) ->
    (forall c, In c cits -> cit_of D raw key c) ->
    forall out out', Forall (item_rel2 D) out -> pl_step ordering (Some out) (raw, a, key, cits) = Some out' ->
                     Forall (item_rel2 D) out'.
  Proof.
    intros HK Hn0 Hc out out' Hout E. cbn [AclPipelineProofs.pl_step] in E.
    destruct (run_logic rreverse (a_pat a) key (a_logic a) cits) as [ys|] eqn:El; [|discriminate].
    eapply (fold_opt_inv (pl_inner raw a ordering) (item_rel2 D) (pl_inner_none rmatch rsrc rrev block_exit raw a ordering) ys); [|exact Hout|exact E].
    intros y o o' Hy Ho Eo. eapply pl_inner_rel2; [exact HK | exact Hn0 | | exact Ho | exact Eo].
    rewrite run_logic_filter in El.
    destruct (run_logic_spec2 _ _ _ _ _ _ El y Hy) as [(c & Hcin & Ey & Hperm)|[Ey Hex]].
    - apply filter_In in Hcin as [Hcin Hnu]. left. exists c. split; [apply Hc; exact Hcin|]. split; [|split; [exact Ey | exact Hperm]].
      unfold not_unchanged in Hnu. apply negb_true_iff in Hnu. intro Eu. rewrite Eu in Hnu. discriminate.
    - right. split; [exact Ey|].
      destruct Hex as [(c & Hcin & Eo')|(EL & c & Hcin & Eo')]; apply filter_In in Hcin as [Hcin _];
        destruct (Hc c Hcin) as (n & Hn & Er & Ek & Eop & _);
        exists n; (split; [exact Hn|]); (split; [exact Er|]); (split; [exact Ek|]).
      + left. congruence.
      + right. split; congruence.
  Qed.

  Theorem make_patch_level_rel2 D : KIDS2 D -> forall ord t, make_patch (make_pre D) ord = POk t -> pt_rel2 t D.
  Proof.
    intros HK ord t E. pose proof (GI_make_pre D) as HG.
    destruct (make_pre D) as [groups]. cbn [pgroups] in HG.
    rewrite make_patch_eq, patch_level_eq in E.
    destruct (fold_left (pl_step ord) (pl_flat (map (grp_map rmatch rsrc rrev block_exit rreverse) groups)) (Some [])) as [out|] eqn:Ef; [|discriminate].
    injection E as E. subst t. apply pt_rel2_items.
    apply sort_Forall.
    eapply (fold_opt_inv (pl_step ord) (item_rel2 D) (pl_step_none rmatch rsrc rrev block_exit rreverse ord)); [| constructor | exact Ef].
    intros e o o' He Ho Eo. destruct e as [[[raw a] key] cits].
    unfold pl_flat in He. apply in_flat_map in He as (g & Hg & He).
    apply in_map_iff in Hg as (g0 & Eg & Hg0). subst g. destruct g0 as [[raw0 a0] ks0]. cbn [grp_map] in He.
    apply in_map_iff in He as (k & Ek & Hk). injection Ek as E1 E2 E3 E4. subst raw0 a0.
    apply in_map_iff in Hk as (k0 & Ek0 & Hk0). subst k. cbn [fst snd] in E3, E4. subst key cits.
    destruct k0 as [key its]. cbn [fst snd] in *.
    destruct (HG _ _ _ Hg0) as [G1 G2].
    eapply pl_step_rel2; [exact HK | exact G1 | | exact Ho | exact Eo].
    intros c Hc. apply in_map_iff in Hc as (x & Ex & Hx). subst c.
    destruct (G2 _ _ Hk0 x Hx) as (n & Hn & Er & Ekey & Ex). subst x.
    exists n. repeat split; assumption.
  Qed.

  Theorem make_patch_rel2 : forall D ord t, make_patch (make_pre D) ord = POk t -> pt_rel2 t D.
  Proof.
    assert (H : forall n, (fun n => forall ord t, make_patch (make_pre (d_kids n)) ord = POk t -> pt_rel2 t (d_kids n)) n).
    { induction n as [o row m kids IH] using dnode_ind2. cbn [d_kids].
      apply make_patch_level_rel2. intros n Hn. rewrite Forall_forall in IH. apply IH. exact Hn. }
    intros D. apply make_patch_level_rel2. intros n _. apply H.
  Qed.
End PatchRel2.
