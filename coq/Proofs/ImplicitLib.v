(* C17 proof library, part 1: ordered-dict facts, unfolding of the nested fixpoints of
   Model/Implicit.v and Spec/P_C17.v, and the equation
       merge t (config rs t) = complete rs t
   i.e. the two-step implementation (implicit.config, then merge_dicts) computes the
   declarative completion. *)
From Coq Require Import List String Ascii Bool Arith Lia.
From Annet Require Import Base.Str Base.Tree Model.Implicit Spec.P_C17.
Import ListNotations.
Open Scope string_scope.
Open Scope list_scope.

(* ---------- induction principle for the nested type irule ---------- *)
Section IruleInd.
  Variable P : irule -> Prop.
  Hypothesis H : forall row ign ks, Forall P ks -> P (IRule row ign ks).
  Fixpoint irule_ind2 (r : irule) : P r :=
    match r with
    | IRule row ign ks =>
      H row ign ks ((fix go (l : list irule) : Forall P l :=
                       match l with
                       | [] => Forall_nil _
                       | x :: l' => Forall_cons x (irule_ind2 x) (go l')
                       end) ks)
    end.
End IruleInd.

(* ---------- domains ---------- *)
(* rule sets as compile_tree builds them: rows distinct on every level, no empty row *)
Inductive wfr : list irule -> Prop :=
| wfr_nil : wfr []
| wfr_cons r rs : i_row r <> "" -> ~ In (i_row r) (map i_row rs) -> wfr (i_kids r) -> wfr rs -> wfr (r :: rs).

(* config trees as the parsers build them: keys distinct on every level, no empty row *)
Inductive okf : forest -> Prop :=
| okf_nil : okf []
| okf_cons r c f : r <> "" -> ~ In r (keys f) -> okf (kids c) -> okf f -> okf ((r, c) :: f).

Lemma okf_wf f : okf f -> wf f.
Proof. induction 1; constructor; assumption. Qed.

Lemma okf_In f : okf f -> forall r c, In (r, c) f -> r <> "" /\ okf (kids c).
Proof.
  induction 1 as [|r0 c0 f Hr Hn Hc _ _ IH]; intros r c Hin; [destruct Hin|].
  destruct Hin as [E|Hin]; [injection E as E1 E2; subst; auto | eapply IH; exact Hin].
Qed.

Lemma okf_NoDup f : okf f -> NoDup (keys f).
Proof. induction 1; cbn; constructor; assumption. Qed.

Lemma wfr_In rs : wfr rs -> forall r, In r rs -> i_row r <> "" /\ wfr (i_kids r).
Proof.
  induction 1 as [|r0 rs Hr Hn Hk _ _ IH]; intros r Hin; [destruct Hin|].
  destruct Hin as [E|Hin]; [subst; auto | apply IH; exact Hin].
Qed.

Lemma wfr_NoDup rs : wfr rs -> NoDup (map i_row rs).
Proof. induction 1; cbn; constructor; assumption. Qed.

(* ---------- has_key / lookup ---------- *)
Lemma has_key_In k f : has_key k f = true <-> In k (keys f).
Proof. unfold has_key. apply existsb_eqb_In. Qed.

Lemma has_key_false k f : has_key k f = false <-> ~ In k (keys f).
Proof.
  rewrite <- has_key_In. destruct (has_key k f); split; intro H.
  - discriminate.
  - exfalso. apply H. reflexivity.
  - intro H2. discriminate.
  - reflexivity.
Qed.

Lemma lookup_None k f : lookup k f = None <-> ~ In k (keys f).
Proof.
  induction f as [|[k' v] f IH]; cbn.
  - tauto.
  - destruct (String.eqb_spec k' k) as [E|E].
    + split; [discriminate | intros H; exfalso; apply H; now left].
    + rewrite IH. tauto.
Qed.

Lemma lookup_In k v f : NoDup (keys f) -> In (k, v) f -> lookup k f = Some v.
Proof.
  induction f as [|[k' v'] f IH]; intros Hnd Hin; [destruct Hin|].
  cbn in Hnd. inversion Hnd as [|x l Hx Hl]; subst. cbn.
  destruct Hin as [E|Hin].
  - injection E as E1 E2; subst. rewrite String.eqb_refl. reflexivity.
  - destruct (String.eqb_spec k' k) as [E|E].
    + subst. exfalso. apply Hx. apply in_map_iff. exists (k, v). auto.
    + apply IH; assumption.
Qed.

Lemma lookup_Some_In k v f : lookup k f = Some v -> In (k, v) f.
Proof.
  induction f as [|[k' v'] f IH]; cbn; intros H; [discriminate|].
  destruct (String.eqb_spec k' k) as [E|E].
  - injection H as E2; subst. now left.
  - right. apply IH. exact H.
Qed.

Lemma lookup_app k f g :
  lookup k (f ++ g) = match lookup k f with Some v => Some v | None => lookup k g end.
Proof.
  induction f as [|[k' v] f IH]; cbn; [reflexivity|].
  destruct (String.eqb k' k); [reflexivity | exact IH].
Qed.

(* ---------- ordered dict: assignments ---------- *)
Definition oset_all (l : list (string * tree)) (acc : forest) : forest :=
  fold_left (fun acc kv => oset (fst kv) (snd kv) acc) l acc.

Lemma odict_of_eq l : odict_of l = oset_all l [].
Proof. reflexivity. Qed.

Lemma oset_all_app l1 l2 acc : oset_all (l1 ++ l2) acc = oset_all l2 (oset_all l1 acc).
Proof. unfold oset_all. apply fold_left_app. Qed.

(* the value last assigned to k *)
Fixpoint alast (k : string) (l : list (string * tree)) : option tree :=
  match l with
  | [] => None
  | (k', v) :: r => match alast k r with Some x => Some x | None => if String.eqb k' k then Some v else None end
  end.

Lemma alast_app k l1 l2 :
  alast k (l1 ++ l2) = match alast k l2 with Some v => Some v | None => alast k l1 end.
Proof.
  induction l1 as [|[k' v] l1 IH]; cbn.
  - destruct (alast k l2); reflexivity.
  - rewrite IH. destruct (alast k l2); reflexivity.
Qed.

Lemma lookup_oset k k' v f :
  lookup k (oset k' v f) = if String.eqb k' k then Some v else lookup k f.
Proof.
  induction f as [|[k0 v0] f IH]; cbn.
  - destruct (String.eqb k' k); reflexivity.
  - destruct (String.eqb_spec k0 k') as [E|E].
    + subst k0. cbn. destruct (String.eqb k' k); reflexivity.
    + cbn. destruct (String.eqb_spec k0 k) as [E2|E2].
      * subst k0. destruct (String.eqb_spec k' k) as [E3|E3]; [congruence | reflexivity].
      * exact IH.
Qed.

Lemma lookup_oset_all k : forall l acc,
  lookup k (oset_all l acc) = match alast k l with Some v => Some v | None => lookup k acc end.
Proof.
  induction l as [|[k' v] l IH]; intros acc; cbn.
  - reflexivity.
  - change (fold_left _ l (oset k' v acc)) with (oset_all l (oset k' v acc)).
    rewrite IH, lookup_oset.
    destruct (alast k l); [reflexivity|]. destruct (String.eqb k' k); reflexivity.
Qed.

Lemma keys_oset k v f : In k (keys f) -> keys (oset k v f) = keys f.
Proof.
  induction f as [|[k0 v0] f IH]; cbn; intros H; [destruct H|].
  destruct (String.eqb_spec k0 k) as [E|E]; cbn.
  - reflexivity.
  - f_equal. apply IH. destruct H as [H|H]; [congruence | exact H].
Qed.

Lemma oset_fresh k v f : ~ In k (keys f) -> oset k v f = f ++ [(k, v)].
Proof.
  induction f as [|[k0 v0] f IH]; cbn; intros H; [reflexivity|].
  destruct (String.eqb_spec k0 k) as [E|E].
  - exfalso. apply H. now left.
  - f_equal. apply IH. intro Hin. apply H. now right.
Qed.

(* a filter that only keeps keys assigned at most once, none of them in acc, sees the
   assignments in order *)
Lemma filter_oset_other (p : string -> bool) k v f :
  p k = false -> filter (fun kv : string * tree => p (fst kv)) (oset k v f) =
                 filter (fun kv : string * tree => p (fst kv)) f.
Proof.
  intros Hp. induction f as [|[k0 v0] f IH]; cbn.
  - rewrite Hp. reflexivity.
  - destruct (String.eqb_spec k0 k) as [E|E]; cbn.
    + subst k0. rewrite Hp. reflexivity.
    + rewrite IH. reflexivity.
Qed.

Lemma filter_oset_all (p : string -> bool) : forall l acc,
  NoDup (keys (filter (fun kv : string * tree => p (fst kv)) l)) ->
  (forall k, In k (keys (filter (fun kv : string * tree => p (fst kv)) l)) -> ~ In k (keys acc)) ->
  filter (fun kv : string * tree => p (fst kv)) (oset_all l acc) =
  filter (fun kv : string * tree => p (fst kv)) acc ++ filter (fun kv : string * tree => p (fst kv)) l.
Proof.
  induction l as [|[k v] l IH]; intros acc Hnd Hdis; cbn.
  - rewrite app_nil_r. reflexivity.
  - change (fold_left _ l (oset k v acc)) with (oset_all l (oset k v acc)).
    cbn in Hnd, Hdis. destruct (p k) eqn:Hp.
    + cbn in Hnd, Hdis. inversion Hnd as [|x l0 Hx Hl]; subst.
      assert (Hk : ~ In k (keys acc)) by (apply Hdis; now left).
      rewrite IH.
      * rewrite (oset_fresh k v acc Hk), filter_app. cbn. rewrite Hp. rewrite <- app_assoc. reflexivity.
      * exact Hl.
      * intros k0 Hk0. rewrite (oset_fresh k v acc Hk). unfold keys. rewrite map_app, in_app_iff. cbn.
        intros [H|[H|[]]].
        -- apply (Hdis k0); [now right | exact H].
        -- subst k0. contradiction.
    + rewrite IH.
      * rewrite filter_oset_other by exact Hp. reflexivity.
      * exact Hnd.
      * intros k0 Hk0 Hin. apply (Hdis k0 Hk0).
        destruct (in_dec string_dec k (keys acc)) as [Hi|Hi].
        -- rewrite keys_oset in Hin by exact Hi. exact Hin.
        -- rewrite (oset_fresh k v acc Hi) in Hin. unfold keys in Hin. rewrite map_app, in_app_iff in Hin.
           cbn in Hin. destruct Hin as [Hin|[Hin|[]]]; [exact Hin|].
           subst k0. exfalso.
           apply in_map_iff in Hk0 as ([k1 v1] & E1 & Hk1). cbn in E1. subst k1.
           apply filter_In in Hk1 as [_ Hp1]. cbn in Hp1. congruence.
Qed.

(* ---------- unfolding the nested fixpoints ---------- *)
Section Unfold.
  Variable rm : string -> string -> bool.

  Definition matched (row : string) (t : forest) : forest :=
    filter (fun kv : string * tree => rm row (fst kv)) t.

  Lemma assigns_eq row ign ks t :
    assigns rm (IRule row ign ks) t =
    (if negb ign && negb (existsb (fun kv : string * tree => negb (is_empty (fst kv))) (matched row t))
        && negb (has_key row t)
     then [(row, T [])] else [])
    ++ map (fun kv : string * tree => (fst kv, T (config rm ks (kids (snd kv))))) (matched row t).
  Proof.
    reflexivity.
  Qed.

  Lemma merge_t_eq ka b :
    merge_t (T ka) b =
    T (map (fun kv : string * tree =>
              (fst kv, match lookup (fst kv) (kids b) with Some vb => merge_t (snd kv) vb | None => snd kv end)) ka
       ++ filter (fun kv : string * tree => negb (has_key (fst kv) ka)) (kids b)).
  Proof.
    cbn [merge_t]. f_equal. f_equal.
    induction ka as [|[k v] ka IH]; [reflexivity|]. cbn [map fst snd]. f_equal. exact IH.
  Qed.

  Lemma last_match_cons r rs row :
    last_match rm (r :: rs) row =
    match last_match rm rs row with
    | Some x => Some x
    | None => if rm (i_row r) row then Some r else None
    end.
  Proof. reflexivity. Qed.

  Lemma last_match_nil row : last_match rm [] row = None.
  Proof. reflexivity. Qed.

  Lemma complete_t_eq rs ks :
    complete_t rm rs (T ks) =
    T (map (fun kv : string * tree =>
              (fst kv, match last_match rm rs (fst kv) with
                       | Some r => complete_t rm (i_kids r) (snd kv)
                       | None => snd kv
                       end)) ks
       ++ defaults rm rs ks).
  Proof.
    cbn [complete_t]. f_equal. f_equal.
    induction ks as [|[k v] ks IH]; [reflexivity|]. cbn [map fst snd]. f_equal. exact IH.
  Qed.

  Lemma complete_t_kids rs c : complete_t rm rs c = T (complete rm rs (kids c)).
  Proof. destruct c as [ks]. unfold complete. cbn [kids]. destruct (complete_t rm rs (T ks)) eqn:E. reflexivity. Qed.

  Lemma complete_eq rs ks :
    complete rm rs ks =
    map (fun kv : string * tree =>
           (fst kv, match last_match rm rs (fst kv) with
                    | Some r => T (complete rm (i_kids r) (kids (snd kv)))
                    | None => snd kv
                    end)) ks
    ++ defaults rm rs ks.
  Proof.
    unfold complete at 1. rewrite complete_t_eq. cbn [kids]. f_equal. apply map_ext. intros kv.
    destruct (last_match rm rs (fst kv)); [|reflexivity]. rewrite complete_t_kids. reflexivity.
  Qed.

  Lemma last_match_In rs row r : last_match rm rs row = Some r -> In r rs /\ rm (i_row r) row = true.
  Proof.
    induction rs as [|r0 rs IH]; [discriminate|]. rewrite last_match_cons.
    destruct (last_match rm rs row) as [x|].
    - intros E. injection E as E; subst x. destruct (IH eq_refl) as [H1 H2]. split; [now right | exact H2].
    - destruct (rm (i_row r0) row) eqn:Em; [|discriminate].
      intros E. injection E as E; subst r0. split; [now left | exact Em].
  Qed.

  Lemma last_match_None rs row : last_match rm rs row = None <-> forall r, In r rs -> rm (i_row r) row = false.
  Proof.
    induction rs as [|r0 rs IH].
    - split; [intros _ r [] | reflexivity].
    - rewrite last_match_cons. destruct (last_match rm rs row) as [x|] eqn:E.
      + split; [discriminate|]. intros H. apply last_match_In in E as [E1 E2].
        rewrite (H x) in E2 by (now right). discriminate.
      + destruct (rm (i_row r0) row) eqn:Em.
        * split; [discriminate|]. intros H. rewrite (H r0) in Em by (now left). discriminate.
        * split; [|reflexivity]. intros _ r [H|H]; [subst; exact Em | apply (proj1 IH eq_refl); exact H].
  Qed.

  Lemma has_match_matched row t : has_match rm row t = negb (match matched row t with [] => true | _ => false end).
  Proof.
    unfold has_match, matched. induction t as [|kv t IH]; [reflexivity|]. cbn.
    destruct (rm row (fst kv)); [reflexivity | exact IH].
  Qed.

  Lemma has_match_exists row t : has_match rm row t = true <-> exists kv, In kv t /\ rm row (fst kv) = true.
  Proof. unfold has_match. cbv zeta. apply existsb_exists. Qed.

  Lemma any_nonempty row t : (forall kv, In kv t -> fst kv <> "") ->
    existsb (fun kv : string * tree => negb (is_empty (fst kv))) (matched row t) = has_match rm row t.
  Proof.
    intros Hne. unfold has_match, matched. induction t as [|kv t IH]; [reflexivity|]. cbn.
    destruct (rm row (fst kv)) eqn:E; cbn.
    - assert (Hk : fst kv <> "") by (apply Hne; now left).
      destruct (fst kv); [congruence | reflexivity].
    - apply IH. intros kv' H. apply Hne. now right.
  Qed.

  Lemma assigns_ok row ign ks t : (forall kv, In kv t -> fst kv <> "") ->
    assigns rm (IRule row ign ks) t =
    (if wants_default rm t (IRule row ign ks) then [(row, T [])] else [])
    ++ map (fun kv : string * tree => (fst kv, T (config rm ks (kids (snd kv))))) (matched row t).
  Proof.
    intros Hne. rewrite assigns_eq, any_nonempty by exact Hne. reflexivity.
  Qed.
End Unfold.

(* ---------- the main equation ---------- *)
Section ModelSpec.
  Variable rm : string -> string -> bool.

  Lemma alast_map_filter (p : string * tree -> bool) (h : string * tree -> tree) : forall t k c,
    NoDup (keys t) -> In (k, c) t ->
    alast k (map (fun kv => (fst kv, h kv)) (filter p t)) = if p (k, c) then Some (h (k, c)) else None.
  Proof.
    induction t as [|[k0 c0] t IH]; intros k c Hnd Hin; [destruct Hin|].
    cbn in Hnd. inversion Hnd as [|x l Hx Hl]; subst.
    assert (Hnone : forall k', ~ In k' (keys t) -> alast k' (map (fun kv => (fst kv, h kv)) (filter p t)) = None).
    { clear. induction t as [|[k1 c1] t IH]; intros k' Hn; [reflexivity|]. cbn.
      assert (Hn' : ~ In k' (keys t)) by (intro H; apply Hn; now right).
      destruct (p (k1, c1)); cbn; rewrite (IH k' Hn'); [|reflexivity].
      destruct (String.eqb_spec k1 k') as [E|E]; [|reflexivity]. exfalso. apply Hn. now left. }
    destruct Hin as [E|Hin].
    - injection E as E1 E2; subst k0 c0. cbn [filter]. destruct (p (k, c)); cbn.
      + rewrite (Hnone k Hx), String.eqb_refl. reflexivity.
      + apply Hnone. exact Hx.
    - assert (Hne : k0 <> k).
      { intro E. subst k0. apply Hx. apply in_map_iff. exists (k, c). auto. }
      cbn [filter]. destruct (p (k0, c0)); cbn.
      + rewrite (IH k c Hl Hin). destruct (p (k, c)); [reflexivity|].
        destruct (String.eqb_spec k0 k); [contradiction | reflexivity].
      + apply IH; assumption.
  Qed.

  Lemma alast_assigns r t k c : (forall kv, In kv t -> fst kv <> "") -> NoDup (keys t) -> In (k, c) t ->
    alast k (assigns rm r t) = if rm (i_row r) k then Some (T (config rm (i_kids r) (kids c))) else None.
  Proof.
    intros Hne Hnd Hin. destruct r as [row ign ks]. rewrite assigns_ok by exact Hne. rewrite alast_app.
    unfold matched.
    rewrite (alast_map_filter (fun kv => rm row (fst kv)) (fun kv => T (config rm ks (kids (snd kv)))) t k c Hnd Hin).
    cbn [fst snd i_row i_kids]. destruct (rm row k); [reflexivity|].
    destruct (wants_default rm t (IRule row ign ks)) eqn:Ew; [|reflexivity].
    cbn. destruct (String.eqb_spec row k) as [E|E]; [|reflexivity]. exfalso.
    unfold wants_default in Ew. cbn [i_row] in Ew. rewrite !andb_true_iff, !negb_true_iff in Ew.
    destruct Ew as [_ Hk]. apply has_key_false in Hk. apply Hk. subst row.
    apply in_map_iff. exists (k, c). auto.
  Qed.

  Lemma alast_config rs t k c : (forall kv, In kv t -> fst kv <> "") -> NoDup (keys t) -> In (k, c) t ->
    alast k (flat_map (fun r => assigns rm r t) rs) =
    match last_match rm rs k with Some r => Some (T (config rm (i_kids r) (kids c))) | None => None end.
  Proof.
    intros Hne Hnd Hin. induction rs as [|r rs IH]; [reflexivity|].
    cbn [flat_map]. rewrite alast_app, IH, last_match_cons.
    destruct (last_match rm rs k); [reflexivity|].
    rewrite (alast_assigns r t k c Hne Hnd Hin). destruct (rm (i_row r) k); reflexivity.
  Qed.

  Definition notin (t : forest) (k : string) : bool := negb (has_key k t).

  Lemma filter_assigns r t : (forall kv, In kv t -> fst kv <> "") ->
    filter (fun kv : string * tree => notin t (fst kv)) (assigns rm r t) =
    if wants_default rm t r then [(i_row r, T [])] else [].
  Proof.
    intros Hne. destruct r as [row ign ks]. rewrite assigns_ok by exact Hne. rewrite filter_app.
    assert (H2 : filter (fun kv : string * tree => notin t (fst kv))
                        (map (fun kv : string * tree => (fst kv, T (config rm ks (kids (snd kv))))) (matched rm row t)) = []).
    { unfold matched. induction t as [|kv t IH]; [reflexivity|].
      assert (Hall : forall l, (forall x, In x l -> In (fst x) (keys (kv :: t))) ->
                filter (fun kv0 : string * tree => notin (kv :: t) (fst kv0))
                       (map (fun kv0 : string * tree => (fst kv0, T (config rm ks (kids (snd kv0))))) l) = []).
      { clear. induction l as [|x l IH]; intros H; [reflexivity|]. cbn [map filter fst].
        unfold notin at 1. rewrite (proj2 (has_key_In (fst x) (kv :: t))) by (apply H; now left).
        cbn [negb]. apply IH. intros y Hy. apply H. now right. }
      apply Hall. intros x Hx. apply filter_In in Hx as [Hx _]. apply in_map. exact Hx. }
    rewrite H2, app_nil_r. cbn [i_row].
    destruct (wants_default rm t (IRule row ign ks)) eqn:Ew; [|reflexivity].
    cbn [filter fst]. unfold wants_default in Ew. cbn [i_row] in Ew.
    rewrite !andb_true_iff in Ew. destruct Ew as [_ Hk]. unfold notin. rewrite Hk. reflexivity.
  Qed.

  Lemma filter_config rs t : (forall kv, In kv t -> fst kv <> "") -> wfr rs ->
    filter (fun kv : string * tree => notin t (fst kv)) (config rm rs t) = defaults rm rs t.
  Proof.
    intros Hne Hw. unfold config. rewrite odict_of_eq.
    assert (HF : filter (fun kv : string * tree => notin t (fst kv)) (flat_map (fun r => assigns rm r t) rs)
                 = defaults rm rs t).
    { unfold defaults. clear Hw. induction rs as [|r rs IH]; [reflexivity|].
      cbn [flat_map]. rewrite filter_app, IH, filter_assigns by exact Hne. cbn [filter].
      destruct (wants_default rm t r); reflexivity. }
    rewrite (filter_oset_all (notin t)); rewrite HF.
    - reflexivity.
    - unfold defaults, keys. rewrite map_map. cbn [fst].
      apply wfr_NoDup in Hw. clear -Hw. induction rs as [|r rs IH]; cbn; [constructor|].
      cbn in Hw. inversion Hw as [|x l Hx Hl]; subst.
      destruct (wants_default rm t r); cbn; [|apply IH; exact Hl].
      constructor; [|apply IH; exact Hl]. intro Hin. apply Hx.
      apply in_map_iff in Hin as (r' & E & Hr'). apply filter_In in Hr' as [Hr' _].
      apply in_map_iff. exists r'. auto.
    - intros k _ [].
  Qed.

  (* one level, given the equation below every row *)
  Lemma add_implicit_level rs t : okf t -> wfr rs ->
    (forall k c r, In (k, c) t -> last_match rm rs k = Some r ->
                   add_implicit rm (i_kids r) (kids c) = complete rm (i_kids r) (kids c)) ->
    add_implicit rm rs t = complete rm rs t.
  Proof.
    intros Hok Hw IH.
    assert (Hne : forall kv, In kv t -> fst kv <> "").
    { intros [k c] Hin. apply (okf_In t Hok k c Hin). }
    pose proof (okf_NoDup t Hok) as Hnd.
    unfold add_implicit, merge. rewrite merge_t_eq. cbn [kids].
    rewrite complete_eq. f_equal.
    - apply map_ext_in. intros [k c] Hin. cbn [fst snd]. f_equal.
      unfold config at 1. rewrite odict_of_eq, lookup_oset_all. cbn [lookup].
      rewrite (alast_config rs t k c Hne Hnd Hin).
      destruct (last_match rm rs k) as [r|] eqn:El; [|reflexivity].
      destruct c as [kc]. rewrite merge_t_eq. cbn [kids].
      specialize (IH k (T kc) r Hin El). cbn [kids] in IH.
      unfold add_implicit, merge in IH. rewrite merge_t_eq in IH. cbn [kids] in IH.
      rewrite IH. reflexivity.
    - apply (filter_config rs t Hne Hw).
  Qed.

  Lemma add_implicit_complete_t : forall c rs, okf (kids c) -> wfr rs ->
    add_implicit rm rs (kids c) = complete rm rs (kids c).
  Proof.
    apply (tree_ind2
             (fun c => forall rs, okf (kids c) -> wfr rs -> add_implicit rm rs (kids c) = complete rm rs (kids c))
             (fun f => forall k c, In (k, c) f ->
                       forall rs, okf (kids c) -> wfr rs -> add_implicit rm rs (kids c) = complete rm rs (kids c))).
    - intros ks IH rs Hok Hw. cbn [kids] in *. apply add_implicit_level; [exact Hok | exact Hw|].
      intros k c r Hin El. apply (IH k c Hin).
      + apply (okf_In ks Hok k c Hin).
      + apply last_match_In in El as [Hr _]. apply (wfr_In rs Hw r Hr).
    - intros k c [].
    - intros r t k IHt IHk k0 c0 [E|Hin].
      + injection E as E1 E2; subst. exact IHt.
      + apply (IHk k0 c0 Hin).
  Qed.

  Theorem add_implicit_complete : forall t rs, okf t -> wfr rs ->
    add_implicit rm rs t = complete rm rs t.
  Proof. intros t rs. apply (add_implicit_complete_t (T t) rs). Qed.
End ModelSpec.
