(* C03, extended domain (%ignore_case): the diff of the normalised pair inherits every C03 theorem, the
   normalisation is the identity without %ignore_case rules, and it only lowers rows. *)
From Coq Require Import List String Bool Arith Lia Permutation.
From Annet Require Import Base.Str Base.Tree Model.Pattern Model.Rulebook Model.Diff Model.DiffX Spec.P_C03 Spec.P_C03X
  Proofs.DiffBasics Proofs.DiffProofsLib Proofs.DiffProofsAnnot Proofs.DiffProofsSelf Proofs.DiffProofsLossless
  Proofs.DiffProofsOrder Proofs.DiffProofsMoved Proofs.DiffProofsWhole Proofs.DiffProofsProj.
Import ListNotations.
Open Scope list_scope.

(* ---------- the boolean guards imply the relations the C03 library is stated with ---------- *)
Lemma logic_eqb_eq a b : logic_eqb a b = true -> a = b.
Proof. destruct a, b; cbn; intro H; try reflexivity; discriminate. Qed.

Lemma attrs_eqb_eq' a b : attrs_eqb a b = true -> a = b.
Proof.
  destruct a as [p1 l1 d1 pa1 f1], b as [p2 l2 d2 pa2 f2]. unfold attrs_eqb. cbn.
  rewrite !andb_true_iff. intros [[[[H1 H2] H3] H4] H5].
  apply String.eqb_eq in H1. apply Bool.eqb_prop in H4, H5. apply dlogic_eqb_eq in H3.
  apply logic_eqb_eq in H2. subst. reflexivity.
Qed.

Lemma mi_eqb_full_eq a b : mi_eqb_full a b = true -> a = b.
Proof.
  destruct a as [r1 k1 a1], b as [r2 k2 a2]. unfold mi_eqb_full. cbn.
  rewrite !andb_true_iff. intros [[H1 H2] H3].
  apply String.eqb_eq in H1. apply list_str_eqb_eq in H2. apply attrs_eqb_eq' in H3. subst. reflexivity.
Qed.

Lemma awfb_cons r m s f :
  awfb ((r, m, s) :: f) = negb (existsb (String.eqb r) (arows f)) && awfb (akids s) && awfb f.
Proof.
  unfold awfb. cbn [awfb_t map nodup_rows arow fst]. destruct s as [k]. cbn [akids].
  fold (arows f).
  destruct (negb (existsb (String.eqb r) (arows f))); cbn [andb]; [|reflexivity].
  destruct (nodup_rows (arows f)); cbn [andb]; [reflexivity|].
  rewrite !andb_false_r. reflexivity.
Qed.

Lemma awfb_awf : forall t, awfb (akids t) = true -> awf (akids t).
Proof.
  induction t as [k IH] using atree_ind2. cbn [akids].
  induction k as [|[[r m] s] k IHk]; intros H.
  - constructor.
  - rewrite awfb_cons in H. apply andb_true_iff in H as [H H3]. apply andb_true_iff in H as [H1 H2].
    inversion IH as [|? ? Hs Hk]; subst. constructor.
    + apply negb_true_iff in H1. apply existsb_eqb_false in H1. exact H1.
    + apply Hs. exact H2.
    + apply IHk; assumption.
Qed.
Lemma awfb_awf_f f : awfb f = true -> awf f.
Proof. exact (awfb_awf (AT f)). Qed.

Lemma compatb_cons ao r m c f :
  compatb ao ((r, m, c) :: f) =
  match alookup r ao with Some (mo, so) => mi_eqb_full mo m && compatb (akids so) (akids c) | None => true end &&
  compatb ao f.
Proof. unfold compatb. cbn [compatb_t]. destruct c as [k]. reflexivity. Qed.

Lemma compatb_compat : forall nt ao, compatb ao (akids nt) = true -> compat ao (akids nt).
Proof.
  induction nt as [k IH] using atree_ind2. cbn [akids].
  induction k as [|[[r m] c] k IHk]; intros ao H.
  - constructor.
  - rewrite compatb_cons in H. apply andb_true_iff in H as [H1 H2].
    inversion IH as [|? ? Hc Hk]; subst. constructor.
    + intros mo so E. rewrite E in H1. apply andb_true_iff in H1 as [H1 _]. apply mi_eqb_full_eq. exact H1.
    + intros mo so E. rewrite E in H1. apply andb_true_iff in H1 as [_ H1]. apply Hc. exact H1.
    + apply IHk; assumption.
Qed.
Lemma compatb_compat_f ao an : compatb ao an = true -> compat ao an.
Proof. exact (compatb_compat (AT an) ao). Qed.

Section X.
  Variable fl : minfo -> xflags.

  Lemma xdom_inv ao an : xdom fl ao an = true ->
    awf (normO fl ao an) /\ awf (normN fl ao an) /\ compat (normO fl ao an) (normN fl ao an).
  Proof.
    unfold xdom. rewrite !andb_true_iff. intros [[[[[[[H1 H2] H3] _] _] _] _] _].
    split; [apply awfb_awf_f; exact H1|]. split; [apply awfb_awf_f; exact H2|].
    apply compatb_compat_f. exact H3.
  Qed.

  (* ---------- unfolding ---------- *)
  Lemma normO_t_AT an k : normO_t fl an (AT k) = AT (normO fl k an).
  Proof. reflexivity. Qed.
  Lemma normN_t_AT ao k : normN_t fl ao (AT k) = AT (normN fl ao k).
  Proof. reflexivity. Qed.
  Lemma lower_t_AT k : lower_t fl (AT k) = AT (lower_f fl k).
  Proof. reflexivity. Qed.

  Lemma normO_cons r1 m1 s1 f an :
    normO fl ((r1, m1, s1) :: f) an =
    match find_low fl (low fl m1 r1) an with
    | Some (r2, m2, s2) => (low fl m1 r1, winO fl r1 m1 r2 m2, if ml fl m1 then s1 else normO_t fl (akids s2) s1)
    | None => (low fl m1 r1, m1, if ml fl m1 then s1 else normO_t fl [] s1)
    end :: normO fl f an.
  Proof. reflexivity. Qed.
  Lemma normN_cons r2 m2 s2 f ao :
    normN fl ao ((r2, m2, s2) :: f) =
    match find_low fl (low fl m2 r2) ao with
    | Some (r1, m1, s1) => (low fl m2 r2, win fl r1 m1 r2 m2, if ml fl m2 then s2 else normN_t fl (akids s1) s2)
    | None => (low fl m2 r2, m2, if ml fl m2 then s2 else normN_t fl [] s2)
    end :: normN fl ao f.
  Proof. reflexivity. Qed.
  Lemma lower_cons r m s f :
    lower_f fl ((r, m, s) :: f) = (low fl m r, m, if ml fl m then s else lower_t fl s) :: lower_f fl f.
  Proof. reflexivity. Qed.

  Lemma noic_cons r m s f : noic fl ((r, m, s) :: f) = negb (ic fl m) && noic fl (akids s) && noic fl f.
  Proof. unfold noic. cbn [noic_t]. destruct s as [k]. reflexivity. Qed.

  Lemma find_low_noic : forall f l r m s, noic fl f = true -> find_low fl l f = Some (r, m, s) ->
    r = l /\ noic fl (akids s) = true.
  Proof.
    induction f as [|[[r0 m0] s0] f IH]; intros l r m s Hn H.
    - discriminate.
    - rewrite noic_cons in Hn. apply andb_true_iff in Hn as [Hn H3]. apply andb_true_iff in Hn as [H1 H2].
      cbn [find_low] in H. unfold low in H at 1. apply negb_true_iff in H1. rewrite H1 in H.
      destruct (String.eqb_spec r0 l) as [E|E].
      + injection H as E1 E2 E3. subst. split; [reflexivity | exact H2].
      + eapply IH; eassumption.
  Qed.

  (* ---------- conservativity: without %ignore_case rules the normalisation is the identity ---------- *)
  Lemma normN_id : forall nt ao, noic fl ao = true -> noic fl (akids nt) = true -> normN_t fl ao nt = nt.
  Proof.
    induction nt as [k IH] using atree_ind2. intros ao Ho Hn. rewrite normN_t_AT. f_equal. cbn [akids] in Hn.
    induction k as [|[[r2 m2] s2] k IHk]; [reflexivity|].
    inversion IH as [|? ? Hs Hk]; subst. cbn [asub snd] in Hs.
    rewrite noic_cons in Hn. apply andb_true_iff in Hn as [Hn H3]. apply andb_true_iff in Hn as [H1 H2].
    rewrite normN_cons. rewrite (IHk Hk H3). f_equal.
    apply negb_true_iff in H1. unfold low. rewrite H1.
    destruct (find_low fl r2 ao) as [[[r1 m1] s1]|] eqn:E.
    - destruct (find_low_noic _ _ _ _ _ Ho E) as [E1 Hs1]. subst r1.
      unfold win. rewrite String.eqb_refl. rewrite (Hs _ Hs1 H2). destruct (ml fl m2); reflexivity.
    - rewrite (Hs [] eq_refl H2). destruct (ml fl m2); reflexivity.
  Qed.

  Lemma normO_id : forall ot an, noic fl an = true -> noic fl (akids ot) = true -> normO_t fl an ot = ot.
  Proof.
    induction ot as [k IH] using atree_ind2. intros an Hn Ho. rewrite normO_t_AT. f_equal. cbn [akids] in Ho.
    induction k as [|[[r1 m1] s1] k IHk]; [reflexivity|].
    inversion IH as [|? ? Hs Hk]; subst. cbn [asub snd] in Hs.
    rewrite noic_cons in Ho. apply andb_true_iff in Ho as [Ho H3]. apply andb_true_iff in Ho as [H1 H2].
    rewrite normO_cons. rewrite (IHk Hk H3). f_equal.
    apply negb_true_iff in H1. unfold low. rewrite H1.
    destruct (find_low fl r1 an) as [[[r2 m2] s2]|] eqn:E.
    - destruct (find_low_noic _ _ _ _ _ Hn E) as [E1 Hs2]. subst r2.
      unfold winO. rewrite String.eqb_refl. rewrite (Hs _ Hs2 H2). destruct (ml fl m1); reflexivity.
    - rewrite (Hs [] eq_refl H2). destruct (ml fl m1); reflexivity.
  Qed.

  (* ---------- forgetting the matches, normalising is lowering the rows of %ignore_case rules ---------- *)
  Lemma erase_AT k : erase (AT k) = T (erase_f k).
  Proof. reflexivity. Qed.

  Lemma erase_normO : forall ot an, erase (normO_t fl an ot) = erase (lower_t fl ot).
  Proof.
    induction ot as [k IH] using atree_ind2. intros an. rewrite normO_t_AT, lower_t_AT, !erase_AT. f_equal.
    induction k as [|[[r1 m1] s1] k IHk]; [reflexivity|].
    inversion IH as [|? ? Hs Hk]; subst. cbn [asub snd] in Hs.
    rewrite normO_cons, lower_cons.
    destruct (find_low fl (low fl m1 r1) an) as [[[r2 m2] s2]|]; rewrite !erase_f_cons, (IHk Hk); f_equal; f_equal;
      destruct (ml fl m1); try reflexivity; apply Hs.
  Qed.

  Lemma erase_normN : forall nt ao, erase (normN_t fl ao nt) = erase (lower_t fl nt).
  Proof.
    induction nt as [k IH] using atree_ind2. intros ao. rewrite normN_t_AT, lower_t_AT, !erase_AT. f_equal.
    induction k as [|[[r2 m2] s2] k IHk]; [reflexivity|].
    inversion IH as [|? ? Hs Hk]; subst. cbn [asub snd] in Hs.
    rewrite normN_cons, lower_cons.
    destruct (find_low fl (low fl m2 r2) ao) as [[[r1 m1] s1]|]; rewrite !erase_f_cons, (IHk Hk); f_equal; f_equal;
      destruct (ml fl m2); try reflexivity; apply Hs.
  Qed.

  Lemma erase_f_normO ao an : erase_f (normO fl ao an) = erase_f (lower_f fl ao).
  Proof. pose proof (erase_normO (AT ao) an) as H. rewrite normO_t_AT, lower_t_AT, !erase_AT in H. injection H; auto. Qed.
  Lemma erase_f_normN ao an : erase_f (normN fl ao an) = erase_f (lower_f fl an).
  Proof. pose proof (erase_normN (AT an) ao) as H. rewrite normN_t_AT, lower_t_AT, !erase_AT in H. injection H; auto. Qed.

  Lemma normO_noic ao an : noic fl ao = true -> noic fl an = true -> normO fl ao an = ao.
  Proof. intros Ho Hn. pose proof (normO_id (AT ao) an Hn Ho) as H. rewrite normO_t_AT in H. injection H; auto. Qed.
  Lemma normN_noic ao an : noic fl ao = true -> noic fl an = true -> normN fl ao an = an.
  Proof. intros Ho Hn. pose proof (normN_id (AT an) ao Ho Hn) as H. rewrite normN_t_AT in H. injection H; auto. Qed.

  Section Top.
    Variable rmatch : string -> string -> option (list string).
    Variables (rs : rset) (old new : forest).
    Let ao := annot_f rmatch rs old.
    Let an := annot_f rmatch rs new.
    Let ao' := normO fl ao an.
    Let an' := normN fl ao an.
    Hypothesis Hdom : xdom fl ao an = true.

    Theorem diffX_lossless : lossless ao' an' (make_diffX fl rmatch rs old new) = true.
    Proof.
      destruct (xdom_inv _ _ Hdom) as (Ho & Hn & Hc).
      unfold make_diffX. apply lossless_mark_all.
      change (normN fl (annot_f rmatch rs old) (annot_f rmatch rs new)) with (akids (AT an')).
      apply diff_t_lossless; try assumption. left. reflexivity.
    Qed.

    Theorem diffX_order : order_ok an' (make_diffX fl rmatch rs old new) = true.
    Proof.
      destruct (xdom_inv _ _ Hdom) as (Ho & Hn & Hc).
      unfold make_diffX. apply order_mark_all.
      change (normN fl (annot_f rmatch rs old) (annot_f rmatch rs new)) with (akids (AT an')).
      apply diff_t_order; try assumption. left. reflexivity.
    Qed.

    Theorem diffX_moved : moved_ok ao' an' (make_diffX fl rmatch rs old new) = true.
    Proof.
      destruct (xdom_inv _ _ Hdom) as (Ho & Hn & Hc).
      unfold make_diffX. apply moved_ok_mark_all.
      destruct (diff_t_moved (AT an') ao' Affected false) as [H1 H2]; try assumption.
      - left. reflexivity.
      - unfold moved_ok. cbn [op_eqb] in H1. cbn [akids] in H1, H2. fold ao an. fold ao' an'.
        rewrite H1. cbn [andb]. apply forallb_forall. exact H2.
    Qed.

    Theorem diffX_whole : rewrite_whole ao' an' (make_diffX fl rmatch rs old new) = true.
    Proof.
      destruct (xdom_inv _ _ Hdom) as (Ho & Hn & Hc).
      unfold make_diffX, rewrite_whole, mark_unchanged.
      apply forallb_forall. intros x Hx. apply in_map_iff in Hx as (y & Ey & Hy). subst x.
      apply rewrite_whole_mark.
      change an' with (akids (AT an')).
      eapply diff_t_whole; [| | | |exact Hy]; try assumption. left. reflexivity.
    Qed.

    Theorem diffX_projections :
      (norw ao' = true -> fperm (proj_old (make_diffX fl rmatch rs old new)) (erase_f ao')) /\
      (norw an' = true -> fperm (proj_new (make_diffX fl rmatch rs old new)) (erase_f an')).
    Proof.
      destruct (xdom_inv _ _ Hdom) as (Ho & Hn & Hc). split; intros Hr.
      - eapply lossless_proj_old; [exact Ho | exact Hr | apply diffX_lossless].
      - eapply lossless_proj_new; [exact Hn | exact Hr | apply diffX_lossless].
    Qed.

    (* two configurations that differ only in the spelling of rows governed by %ignore_case rules compare as equal *)
    Theorem diffX_equal_modulo_case : ao' = an' -> strip_unchanged (make_diffX fl rmatch rs old new) = [].
    Proof.
      intros E. destruct (xdom_inv _ _ Hdom) as (Ho & Hn & Hc). unfold make_diffX. fold ao an. fold ao' an'.
      rewrite E. change an' with (akids (AT an')) at 2. apply self_strip_empty. exact Hn.
    Qed.
  End Top.

  (* conservativity: no row governed by an %ignore_case rule => the extended model is Model/Diff.v *)
  Theorem diffX_conservative rmatch rs old new :
    noic fl (annot_f rmatch rs old) = true -> noic fl (annot_f rmatch rs new) = true ->
    make_diffX fl rmatch rs old new = make_diff rmatch rs old new.
  Proof.
    intros Ho Hn. unfold make_diffX, make_diff, raw_diff. rewrite normO_noic, normN_noic by assumption. reflexivity.
  Qed.
End X.
