(* C03, extended domain (%multiline): the per-level law holds at EVERY depth of the extended differ's output
   ([ml_ok], Spec/P_C03ML.v): below scanned rows (induction on new), below removed rows (induction on old,
   removed_tM), through rewrite_diff's AFFECTED->MOVED pass and through mark_unchanged. *)
From Coq Require Import List String Bool Arith Lia Permutation.
From Annet Require Import Base.Str Base.Tree Model.Pattern Model.Rulebook Model.Diff Model.DiffX Spec.P_C03 Spec.P_C03X Spec.P_C03ML
  Proofs.DiffBasics Proofs.DiffProofsLib Proofs.DiffProofsLossless Proofs.DiffMProofs Proofs.SortProofs Proofs.DiffMLevelProofs.
Import ListNotations.
Open Scope list_scope.

Section Deep.
  Variable fl : minfo -> xflags.

  Lemma ml_ok_n_eq ao an o row m kids :
    ml_ok_n fl ao an (DN o row m kids) =
    (ml_row fl ao an row ||
     (ml_level_ok fl (asub_of ao row) (asub_of an row) kids && forallb (ml_ok_n fl (asub_of ao row) (asub_of an row)) kids)).
  Proof. reflexivity. Qed.

  Lemma ml_ok_n_intro ao an o row m kids :
    ml_ok fl (asub_of ao row) (asub_of an row) kids = true -> ml_ok_n fl ao an (DN o row m kids) = true.
  Proof. intros H. rewrite ml_ok_n_eq. unfold ml_ok in H. rewrite H. apply orb_true_r. Qed.

  (* ---------- rewrite_diff's AFFECTED -> MOVED pass keeps the law ---------- *)
  Lemma all_op_aff o : o <> Affected -> forall x, all_op o x = true -> aff_to_moved_n x = x.
  Proof.
    intros Ho. induction x as [o' r m k IH] using dnode_ind2. cbn [all_op]. intros H.
    apply andb_true_iff in H as [H1 H2]. apply op_eqb_eq in H1. subst o'. cbn [aff_to_moved_n].
    assert (E : op_eqb o Affected = false) by (destruct o; try reflexivity; contradiction). rewrite E. f_equal.
    rewrite forallb_forall in H2. rewrite Forall_forall in IH.
    rewrite <- (map_id k) at 2. apply map_ext_in. intros y Hy. apply IH; [exact Hy | apply H2; exact Hy].
  Qed.

  Lemma all_op_aff_map o kids : o <> Affected -> forallb (all_op o) kids = true -> map aff_to_moved_n kids = kids.
  Proof.
    intros Ho H. rewrite forallb_forall in H. rewrite <- (map_id kids) at 2. apply map_ext_in.
    intros y Hy. apply (all_op_aff o Ho). apply H. exact Hy.
  Qed.

  Lemma ml_entry_ok_aff ao an x : ml_entry_ok fl ao an x = true -> ml_entry_ok fl ao an (aff_to_moved_n x) = true.
  Proof.
    destruct x as [o row m kids]. intros H. cbn [aff_to_moved_n].
    rewrite ml_entry_ok_eq in *. destruct (ml_row fl ao an row); [|reflexivity]. cbn [negb orb] in *.
    apply andb_true_iff in H as [Hb H]. rewrite Hb. cbn [andb]. rewrite !dshape_eq in *.
    destruct o; cbn [op_eqb]; destruct (amem row ao); try discriminate; destruct (amem row an); try discriminate;
      apply andb_true_iff in H as [H1 H2];
      (rewrite (all_op_aff_map Added kids) by (discriminate || exact H2)) ||
      (rewrite (all_op_aff_map Removed kids) by (discriminate || exact H2)); rewrite H1, H2; reflexivity.
  Qed.

  Lemma ml_ok_n_aff : forall x ao an, ml_ok_n fl ao an x = true -> ml_ok_n fl ao an (aff_to_moved_n x) = true.
  Proof.
    induction x as [o row m kids IH] using dnode_ind2. intros ao an H. cbn [aff_to_moved_n]. rewrite ml_ok_n_eq in *.
    destruct (ml_row fl ao an row); [reflexivity|]. cbn [orb] in *. apply andb_true_iff in H as [H1 H2].
    apply andb_true_iff. split.
    - apply ml_level_ok_map; [exact aff_to_moved_row | | exact H1]. intros y _. apply ml_entry_ok_aff.
    - apply forallb_forall. intros y Hy. apply in_map_iff in Hy as (y0 & E & Hy0). subst y.
      rewrite forallb_forall in H2. rewrite Forall_forall in IH. apply IH; [exact Hy0 | apply H2; exact Hy0].
  Qed.

  (* ---------- mark_unchanged keeps the law ---------- *)
  Lemma ml_ok_n_mark : forall x ao an, ml_ok_n fl ao an x = true -> ml_ok_n fl ao an (mark_unchanged_n x) = true.
  Proof.
    induction x as [o row m kids IH] using dnode_ind2. intros ao an H. cbn [mark_unchanged_n].
    destruct (op_eqb o Affected); [|exact H]. rewrite ml_ok_n_eq in *.
    destruct (ml_row fl ao an row); [reflexivity|]. cbn [orb] in *. apply andb_true_iff in H as [H1 H2].
    apply andb_true_iff. split.
    - apply (ml_level_ok_mark fl). exact H1.
    - apply forallb_forall. intros y Hy. apply in_map_iff in Hy as (y0 & E & Hy0). subst y.
      rewrite forallb_forall in H2. rewrite Forall_forall in IH. apply IH; [exact Hy0 | apply H2; exact Hy0].
  Qed.

  Lemma ml_ok_mark ao an d : ml_ok fl ao an d = true -> ml_ok fl ao an (mark_unchanged d) = true.
  Proof.
    unfold ml_ok. intros H. apply andb_true_iff in H as [H1 H2]. rewrite (ml_level_ok_mark fl _ _ _ H1). cbn [andb].
    apply forallb_forall. intros y Hy. unfold mark_unchanged in Hy. apply in_map_iff in Hy as (y0 & E & Hy0). subst y.
    rewrite forallb_forall in H2. apply ml_ok_n_mark. apply H2. exact Hy0.
  Qed.

  (* ---------- grouping by the four logics is a permutation ---------- *)
  Lemma flat_map_app_perm {A} (g : xlogic -> list A) (xs : list A) (tx : xlogic) :
    forall keys, NoDup keys -> In tx keys ->
    Permutation (flat_map (fun L => if xlogic_eqb tx L then xs ++ g L else g L) keys) (xs ++ flat_map g keys).
  Proof.
    induction keys as [|k keys IH]; intros Hnd Hin; [destruct Hin|].
    inversion Hnd as [|k' keys' Hk Hnd']; subst. cbn [flat_map].
    destruct (xlogic_eqb tx k) eqn:E.
    - apply xlogic_eqb_eq in E. subst k. rewrite <- app_assoc. apply Permutation_app_head. apply Permutation_app_head.
      assert (Hext : forall L, In L keys -> (if xlogic_eqb tx L then xs ++ g L else g L) = g L).
      { intros L HL. destruct (xlogic_eqb tx L) eqn:E; [|reflexivity].
        apply xlogic_eqb_eq in E. subst. contradiction. }
      clear - Hext. induction keys as [|k keys IH]; cbn [flat_map]; [constructor|].
      rewrite Hext by (now left). apply Permutation_app_head. apply IH.
      intros L HL. apply Hext. now right.
    - destruct Hin as [Hin|Hin]; [subst k; rewrite xlogic_eqb_refl in E; discriminate|].
      specialize (IH Hnd' Hin).
      eapply Permutation_trans; [apply Permutation_app_head; exact IH|].
      apply Permutation_app_swap_app.
  Qed.

  Lemma group_perm_x {A} : forall (all : list (xlogic * list A)) keys, NoDup keys ->
    (forall x, In x all -> In (fst x) keys) ->
    Permutation (flat_map (fun L => flat_map snd (filter (fun x => xlogic_eqb (fst x) L) all)) keys) (flat_map snd all).
  Proof.
    induction all as [|[t xs] all IH]; intros keys Hnd Hin.
    - cbn. clear. induction keys as [|k keys IHk]; cbn; [constructor | exact IHk].
    - cbn [filter flat_map fst snd].
      eapply Permutation_trans.
      2:{ apply Permutation_app_head. apply (IH keys Hnd). intros y Hy. apply Hin. now right. }
      eapply Permutation_trans; [|apply (flat_map_app_perm (fun L => flat_map snd (filter (fun x => xlogic_eqb (fst x) L) all)) xs t keys Hnd)].
      + apply Permutation_refl'. apply flat_map_ext. intros L. destruct (xlogic_eqb t L); reflexivity.
      + apply (Hin (t, xs)). now left.
  Qed.

  (* ---------- everything below a removed row ---------- *)
  Definition remF (k : string * minfo * atree) : list dnode :=
    if ml fl (ami k)
    then (if tree_eqb (plain (asub k)) (T []) then [] else [DN Removed (arow k) (ami k) (body Removed (plain (asub k)))])
    else [mkremM fl k].

  Lemma removed_tM_perm kids : Permutation (removed_tM fl (AT kids)) (flat_map remF kids).
  Proof.
    cbn [removed_tM].
    set (all := (fix go (l : aforest) : list (xlogic * list dnode) :=
                   match l with
                   | [] => []
                   | (row, mi, sub) :: l' =>
                     (mi_xlogic fl mi,
                      if ml fl mi
                      then (if tree_eqb (plain sub) (T []) then [] else [DN Removed row mi (body Removed (plain sub))])
                      else [DN Removed row mi (removed_tM fl sub)]) :: go l'
                   end) kids).
    assert (E : all = map (fun k => (mi_xlogic fl (ami k), remF k)) kids).
    { subst all. induction kids as [|[[r m] s] kids IHk]; [reflexivity|]. cbn [map]. rewrite <- IHk. reflexivity. }
    eapply Permutation_trans; [apply group_perm_x|].
    - apply uniq_xl_NoDup.
    - intros x Hx. apply uniq_xl_In. split; [apply in_map; exact Hx | intros []].
    - rewrite E. rewrite flat_map_concat_map, map_map, <- flat_map_concat_map. apply Permutation_refl.
  Qed.

  Lemma remF_row k d : In d (remF k) -> d_row d = arow k.
  Proof.
    unfold remF. destruct (ml fl (ami k)).
    - destruct (tree_eqb _ _); [intros []|]. intros [E|[]]. subst d. reflexivity.
    - intros [E|[]]. subst d. reflexivity.
  Qed.

  Lemma filter_rowis_remF : forall kids k, NoDup (arows kids) -> In k kids ->
    filter (rowis (arow k)) (flat_map remF kids) = remF k.
  Proof.
    induction kids as [|k0 kids IH]; intros k ND Hin; [destruct Hin|].
    cbn [arows map] in ND. inversion ND as [|r rs Hr ND']; subst. cbn [flat_map]. rewrite filter_app.
    assert (Hall : forall k1, filter (rowis (arow k1)) (remF k1) = remF k1).
    { intros k1. pose proof (remF_row k1) as H. induction (remF k1) as [|d l IHl]; [reflexivity|].
      cbn [filter]. unfold rowis at 1. rewrite (H d) by (now left). rewrite String.eqb_refl. f_equal.
      apply IHl. intros d' Hd'. apply H. now right. }
    assert (Hnone : forall k1 r, arow k1 <> r -> filter (rowis r) (remF k1) = []).
    { intros k1 r0 Hne. apply filter_none. intros d Hd. unfold rowis. rewrite (remF_row k1 d Hd). apply String.eqb_neq. exact Hne. }
    destruct Hin as [E|Hin].
    - subst k0. rewrite Hall. rewrite (filter_none (rowis (arow k))); [apply app_nil_r|].
      intros d Hd. apply in_flat_map in Hd as (k1 & Hk1 & Hd). unfold rowis. rewrite (remF_row k1 d Hd).
      apply String.eqb_neq. intro E. apply Hr. rewrite <- E. apply in_map. exact Hk1.
    - rewrite Hnone; [cbn [app]; apply IH; assumption|]. intro E. apply Hr. rewrite E. apply in_map. exact Hin.
  Qed.

  Definition RM (t : atree) : Prop := awf (akids t) -> ml_ok fl (akids t) [] (removed_tM fl t) = true.

  Lemma body_of_in f r m s : NoDup (arows f) -> In (r, m, s) f -> body_of r f = erase s.
  Proof. intros ND H. unfold body_of. rewrite (alookup_In f r m s ND H). reflexivity. Qed.

  Theorem removed_ml : forall t, RM t.
  Proof.
    induction t as [kids IH] using atree_ind2. unfold RM. cbn [akids]. intros Hw.
    pose proof (awf_NoDup _ Hw) as ND. pose proof (removed_tM_perm kids) as HP.
    assert (HIn : forall x, In x (removed_tM fl (AT kids)) -> exists k, In k kids /\ In x (remF k)).
    { intros x Hx. eapply Permutation_in in Hx; [|exact HP]. apply in_flat_map in Hx. exact Hx. }
    assert (Hrow : forall k, In k kids -> ml_row fl kids [] (arow k) = ml fl (ami k)).
    { intros [[r m] s] Hk. unfold ml_row, arow, ami. cbn [fst snd]. rewrite (alookup_In kids r m s ND Hk). reflexivity. }
    unfold ml_ok. apply andb_true_iff. split.
    - apply ml_level_ok_iff. split.
      + intros x Hx. destruct (HIn x Hx) as (k & Hk & Hxk). destruct k as [[r m] s]. unfold remF in Hxk.
        unfold ami, arow, asub in Hxk. cbn [fst snd] in Hxk. pose proof (Hrow _ Hk) as Hr. unfold arow, ami in Hr. cbn [fst snd] in Hr.
        destruct (ml fl m) eqn:Em.
        * destruct (tree_eqb (plain s) (T [])) eqn:Eb; [destruct Hxk|]. destruct Hxk as [E|[]]. subst x.
          rewrite ml_entry_ok_eq, Hr. cbn [negb orb].
          rewrite (body_of_in kids r m s ND Hk). unfold plain in Eb. change (body_of r []) with (T []). rewrite Eb.
          assert (Ha : amem r kids = true) by (unfold amem; rewrite (alookup_In kids r m s ND Hk); reflexivity).
          rewrite Ha. change (amem r []) with false. unfold plain. rewrite dshape_body, all_op_body, tree_eqb_refl. reflexivity.
        * destruct Hxk as [E|[]]. subst x. unfold mkremM, arow, ami, asub. cbn [fst snd]. rewrite ml_entry_ok_eq, Hr. reflexivity.
      + intros k Hk Hm. rewrite app_nil_r in Hk.
        assert (Ef : Permutation (filter (rowis (arow k)) (removed_tM fl (AT kids))) (remF k)).
        { rewrite <- (filter_rowis_remF kids k ND Hk). apply Permutation_filter. exact HP. }
        destruct k as [[r m] s]. unfold arow, ami in *. cbn [fst snd] in *.
        rewrite (body_of_in kids r m s ND Hk). change (body_of r []) with (T []).
        unfold remF, ami, arow, asub, plain in Ef. cbn [fst snd] in Ef. rewrite Hm in Ef.
        destruct (tree_eqb (erase s) (T [])).
        * apply Permutation_sym, Permutation_nil in Ef. apply filter_nil_existsb. exact Ef.
        * apply Permutation_length in Ef. exact Ef.
    - apply forallb_forall. intros x Hx. destruct (HIn x Hx) as (k & Hk & Hxk). destruct k as [[r m] s].
      pose proof (Hrow _ Hk) as Hr. unfold arow, ami in Hr. cbn [fst snd] in Hr.
      unfold remF, ami, arow, asub in Hxk. cbn [fst snd] in Hxk. destruct (ml fl m) eqn:Em.
      + destruct (tree_eqb (plain s) (T [])); [destruct Hxk|]. destruct Hxk as [E|[]]. subst x.
        rewrite ml_ok_n_eq, Hr. reflexivity.
      + destruct Hxk as [E|[]]. subst x. unfold mkremM, arow, ami, asub. cbn [fst snd]. apply ml_ok_n_intro.
        unfold asub_of. rewrite (alookup_In kids r m s ND Hk). cbn [alookup].
        rewrite Forall_forall in IH. apply (IH _ Hk). eapply awf_In; [exact Hw | exact Hk].
  Qed.

  (* ---------- below scanned rows: induction on new ---------- *)
  Definition MM (t : atree) : Prop :=
    forall ao pop inrw, awf ao -> awf (akids t) -> compat ao (akids t) -> pop_ok pop ao ->
      forallb (ml_ok_n fl ao (akids t)) (diff_tM fl t ao pop inrw) = true.

  Section Level.
    Variables (ao nk : aforest) (pop : op).
    Hypothesis Hwo : awf ao.
    Hypothesis Hwn : awf nk.
    Hypothesis Hc : compat ao nk.
    Hypothesis Hpop : pop_ok pop ao.
    Hypothesis IH : Forall (fun k => MM (asub k)) nk.

    Let NDo := awf_NoDup ao Hwo.
    Let NDn := awf_NoDup nk Hwn.

    Lemma entry_scan_ml L inrw' mta k d :
      In k nk -> xin fl L k = true -> scan_relM fl (filter (xin fl L) ao) pop inrw' mta k d -> ml_ok_n fl ao nk d = true.
    Proof.
      destruct k as [[r m] c]. intros Hk HL Hrel.
      assert (Eln : alookup r nk = Some (m, c)) by (apply alookup_In; assumption).
      assert (Hwc : awf (akids c)) by (eapply awf_In; [exact Hwn | exact Hk]).
      rewrite Forall_forall in IH. pose proof (IH _ Hk) as IHk. unfold asub in IHk. cbn [snd] in IHk.
      unfold scan_relM, arow, ami, asub in Hrel. cbn [fst snd] in Hrel.
      assert (Elo : alookup r (filter (xin fl L) ao) = alookup r ao).
      { apply alookup_filter. intros mo so E. destruct (compat_In ao nk Hc r m c mo so Hk E) as [Em _]. subst mo. exact HL. }
      rewrite Elo in Hrel. destruct (alookup r ao) as [[mo so]|] eqn:Eo.
      - destruct Hrel as (o & Ho & Ed). subst d.
        destruct (compat_In ao nk Hc r m c mo so Hk Eo) as [Em Hcs]. subst mo.
        assert (Hwso : awf (akids so)).
        { eapply awf_In; [exact Hwo|]. apply alookup_Some_In. exact Eo. }
        assert (Ho' : pop_ok o (akids so)).
        { destruct Ho as [Ho|[Ho _]]; [|subst o; right; left; reflexivity]. subst o.
          destruct Hpop as [Hp|[Hp|Hp]]; [left; exact Hp | right; left; exact Hp | rewrite Hp in Eo; discriminate]. }
        apply ml_ok_n_intro. unfold asub_of. rewrite Eo, Eln. unfold ml_ok.
        rewrite (diff_tM_level_ml fl c (akids so) o inrw' Hwso Hwc Hcs Ho'). cbn [andb]. apply IHk; assumption.
      - subst d. apply ml_ok_n_intro. unfold asub_of. rewrite Eo, Eln. unfold ml_ok.
        rewrite (diff_tM_level_ml fl c [] Added inrw' (awf_nil) Hwc (compat_nil_l _) (or_intror (or_intror eq_refl))). cbn [andb].
        apply IHk; [constructor | exact Hwc | apply compat_nil_l | right; right; reflexivity].
    Qed.

    Lemma entry_rem_ml L k :
      In k ao -> xin fl L k = true -> ~ In (arow k) (arows (filter (xin fl L) nk)) -> ml_ok_n fl ao nk (mkremM fl k) = true.
    Proof.
      destruct k as [[r m] c]. intros Hk HL Hn. unfold arow in Hn. cbn [fst] in Hn.
      unfold mkremM, arow, ami, asub. cbn [fst snd].
      assert (Elo : alookup r ao = Some (m, c)) by (apply alookup_In; assumption).
      assert (Eln : alookup r nk = None).
      { destruct (alookup r nk) as [[mn sn]|] eqn:El; [|reflexivity]. exfalso. apply Hn. apply alookup_Some_In in El.
        destruct (compat_In ao nk Hc r mn sn m c El Elo) as [Em _]. subst mn.
        apply (In_arows r m sn). apply filter_In. split; [exact El|]. exact HL. }
      apply ml_ok_n_intro. unfold asub_of. rewrite Elo, Eln.
      apply (removed_ml c). eapply awf_In; [exact Hwo | exact Hk].
    Qed.

    Theorem level_deep inrw : forallb (ml_ok_n fl ao nk) (diff_levelM fl ao (xks fl nk) pop inrw) = true.
    Proof.
      apply forallb_forall. intros x Hx. rewrite diff_levelM_unfold in Hx. apply in_flat_map in Hx as (L & _ & Hx).
      destruct L as [D|].
      - cbn [run_xlogic] in Hx. rewrite xks_cks in Hx. apply run_dlogicM_In in Hx as (inrw' & mta & y & Hy & E).
        assert (Hyok : ml_ok_n fl ao nk y = true).
        { apply base_diffM_In in Hy as [(k & Hk & Hrel)|(k & Hk & Hn & Ey)].
          - apply filter_In in Hk as [Hk1 Hk2]. eapply entry_scan_ml; eassumption.
          - apply filter_In in Hk as [Hk1 Hk2]. subst y. eapply entry_rem_ml; eassumption. }
        destruct E as [E|E]; subst x; [exact Hyok | apply ml_ok_n_aff; exact Hyok].
      - apply group_row_src in Hx as (k & Hk & HL & E).
        pose proof (ml_row_src fl ao nk Hwo Hwn Hc XMulti k Hk HL) as Hr. rewrite E in Hr.
        destruct x as [o row m kids]. rewrite ml_ok_n_eq. cbn [d_row] in Hr. rewrite Hr. reflexivity.
    Qed.
  End Level.

  Theorem diff_tM_deep : forall t, MM t.
  Proof.
    induction t as [nk IH] using atree_ind2. unfold MM. cbn [akids].
    intros ao pop inrw Hwo Hwn Hc Hpop. rewrite diff_tM_unfold. apply level_deep; assumption.
  Qed.

  Theorem diff_tM_ml_ok nt ao pop inrw : awf ao -> awf (akids nt) -> compat ao (akids nt) -> pop_ok pop ao ->
    ml_ok fl ao (akids nt) (diff_tM fl nt ao pop inrw) = true.
  Proof.
    intros Hwo Hwn Hc Hp. unfold ml_ok. rewrite (diff_tM_level_ml fl nt ao pop inrw Hwo Hwn Hc Hp). cbn [andb].
    apply diff_tM_deep; assumption.
  Qed.
End Deep.
