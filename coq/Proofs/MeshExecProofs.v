(* Lemmas about Model/MeshExec.v: the interface decision tables against the declarative selection of
   Spec/P_C15_iface.v, the conversion loops of execute_for, provenance of session data through the keyed
   merge (no leak between pairs), mirror for indirect sessions. *)
From Coq Require Import List String Ascii Bool Arith ZArith Lia DecimalString Decimal DecimalZ DecimalFacts DecimalPos.
From Annet Require Import Model.Merge Model.Mesh Model.MeshExec Spec.P_C15 Spec.P_C15_iface
     Proofs.MergeProofs Proofs.MeshProofs.
Import ListNotations.
Open Scope string_scope.
Open Scope list_scope.

(* ---- to_interface_changes ------------------------------------------------------------------------- *)

Lemma opt_int_num : forall f e x, opt_int f e = inr x -> x = num f e.
Proof.
  intros f e x H. unfold opt_int in H. unfold num, int_of.
  destruct (lookup f e) as [v|]; [|injection H as H; auto].
  destruct v as [a| | | |]; try discriminate. destruct a; try discriminate; injection H as H; auto.
Qed.

Lemma opt_str_txt : forall f e x, opt_str f e = inr x -> x = txt f e.
Proof.
  intros f e x H. unfold opt_str in H. unfold txt.
  destruct (lookup f e) as [v|]; [|injection H as H; auto].
  destruct v as [a| | | |]; try discriminate. destruct a; try discriminate; injection H as H; auto.
Qed.

(* the attributes the interface selection reads are well typed *)
Definition typed_int (f : string) (e : entries) : bool :=
  match opt_int f e with inr _ => true | inl _ => false end.
Definition typed_str (f : string) (e : entries) : bool :=
  match opt_str f e with inr _ => true | inl _ => false end.
Definition wf_iface_dto (e : entries) : bool :=
  match lookup "addr" e with Some (VAtom (AStr _)) => true | _ => false end &&
  typed_int "lag" e && typed_int "lag_links_min" e && typed_int "svi" e && typed_int "subif" e &&
  typed_str "vrf" e.

Definition post_init_refused (e : entries) : bool :=
  (is_some (num "lag" e) && is_some (num "svi" e)) || (is_some (num "svi" e) && is_some (num "subif" e)).

Lemma to_interface_changes_table : forall e,
  match to_interface_changes e with
  | inr ch =>
    wf_iface_dto e = true /\ post_init_refused e = false /\
    c_addr ch = get_str "addr" e /\ c_lag ch = num "lag" e /\ c_svi ch = num "svi" e /\
    c_subif ch = num "subif" e /\ c_vrf ch = txt "vrf" e
  | inl FValue => wf_iface_dto e = true /\ post_init_refused e = true
  | inl FOther => wf_iface_dto e = false
  end.
Proof.
  intros e. unfold to_interface_changes, wf_iface_dto, typed_int, typed_str, post_init_refused.
  destruct (lookup "addr" e) as [v|] eqn:Ea; [|reflexivity].
  destruct v as [a| | | |]; try reflexivity. destruct a as [| |s| |]; try reflexivity.
  destruct (opt_int "lag" e) as [|lag] eqn:E1; [reflexivity|].
  destruct (opt_int "lag_links_min" e) as [|llm] eqn:E2; [reflexivity|].
  destruct (opt_int "svi" e) as [|svi] eqn:E3; [reflexivity|].
  destruct (opt_int "subif" e) as [|subif] eqn:E4; [reflexivity|].
  destruct (opt_str "vrf" e) as [|vrf] eqn:E5; [reflexivity|].
  apply opt_int_num in E1, E3, E4. apply opt_str_txt in E5. subst lag svi subif vrf.
  destruct (is_some (num "lag" e) && is_some (num "svi" e)) eqn:C1; [cbn; auto|].
  destruct (is_some (num "svi" e) && is_some (num "subif" e)) eqn:C2; [cbn; auto|].
  cbn. unfold get_str, get_atom. rewrite Ea. repeat split; reflexivity.
Qed.

(* ---- the device ----------------------------------------------------------------------------------- *)

Lemma smem_app : forall s a b, sin s (a ++ b) = sin s a || sin s b.
Proof. intros s a b. unfold sin. apply existsb_app. Qed.

Lemma add_or_reuse_log : forall n d, d_log (add_or_reuse n d) = d_log d.
Proof. intros n d. unfold add_or_reuse. destruct (sin n (d_ifs d)); reflexivity. Qed.

Lemma add_or_reuse_has : forall n d, sin n (d_ifs (add_or_reuse n d)) = true.
Proof.
  intros n d. unfold add_or_reuse. destruct (sin n (d_ifs d)) eqn:E; [exact E|].
  cbn [d_ifs]. rewrite smem_app. cbn. rewrite String.eqb_refl. apply orb_true_r.
Qed.

Lemma add_or_reuse_keeps : forall n d i, sin i (d_ifs d) = true -> sin i (d_ifs (add_or_reuse n d)) = true.
Proof.
  intros n d i H. unfold add_or_reuse. destruct (sin n (d_ifs d)); [exact H|].
  cbn [d_ifs]. rewrite smem_app, H. reflexivity.
Qed.

(* an interface that exists is returned, not duplicated *)
Lemma add_or_reuse_existing : forall n d, sin n (d_ifs d) = true -> add_or_reuse n d = d.
Proof. intros n d H. unfold add_or_reuse. rewrite H. reflexivity. Qed.

(* ---- _apply_direct_interface_changes against the declarative selection ------------------------------- *)

Definition direct_step (nm : naming) (conns : list (string * string)) (ports : list string)
           (local : entries) (d : dev) : fail + (string * dev) :=
  match to_interface_changes local with
  | inl e => inl e
  | inr ch => apply_direct nm conns ports ch d
  end.

Definition pair_ports (conns : list (string * string)) (ports : list string) : list string :=
  map fst (filter (fun p => sin (fst p) ports) conns).

Theorem direct_step_table : forall nm conns ports local d,
  match direct_step nm conns ports local d with
  | inr (t, d') =>
    refused_direct local (List.length (pair_ports conns ports)) = false /\
    t = selected_direct nm local (hd "" (pair_ports conns ports)) /\
    d_log d' = d_log d ++ [(t, get_str "addr" local, txt "vrf" local)] /\
    (forall i, sin i (d_ifs d) = true -> sin i (d_ifs d') = true) /\
    (sin t (d_ifs d') = true \/ t = hd "" (pair_ports conns ports))
  | inl FValue =>
    wf_iface_dto local = true /\ refused_direct local (List.length (pair_ports conns ports)) = true
  | inl FOther => wf_iface_dto local = false \/ pair_ports conns ports = []
  end.
Proof.
  intros nm conns ports local d. unfold direct_step.
  pose proof (to_interface_changes_table local) as T.
  destruct (to_interface_changes local) as [[|]|ch].
  - destruct T as [W R]. split; [exact W|]. unfold refused_direct. unfold post_init_refused in R.
    rewrite <- orb_assoc. rewrite orb_assoc. rewrite R. reflexivity.
  - left. exact T.
  - destruct T as [W [R [Ha [Hl [Hs [Hu Hv]]]]]]. unfold post_init_refused in R.
    unfold apply_direct, pair_ports, refused_direct, selected_direct. rewrite map_length.
    rewrite Hl, Hs, Hu, Ha, Hv. rewrite R. cbn [orb].
    set (pp := filter (fun p => sin (fst p) ports) conns).
    destruct (Nat.ltb 1 (List.length pp) && negb (is_some (num "lag" local)) && negb (is_some (num "svi" local))) eqn:M.
    { split; [exact W|reflexivity]. }
    destruct (num "lag" local) as [l|] eqn:El.
    + destruct (num "subif" local) as [n|] eqn:En.
      * cbn [d_log add_addr d_ifs]. rewrite !add_or_reuse_log.
        repeat split; auto.
        -- intros i Hi. apply add_or_reuse_keeps, add_or_reuse_keeps. exact Hi.
        -- left. apply add_or_reuse_has.
      * cbn [d_log add_addr d_ifs]. rewrite !add_or_reuse_log.
        repeat split; auto.
        -- intros i Hi. apply add_or_reuse_keeps. exact Hi.
        -- left. apply add_or_reuse_has.
    + destruct (num "subif" local) as [n|] eqn:En.
      * destruct pp as [|p rest] eqn:Epp; [right; reflexivity|].
        cbn [d_log add_addr d_ifs map hd]. rewrite !add_or_reuse_log.
        repeat split; auto.
        -- intros i Hi. apply add_or_reuse_keeps. exact Hi.
        -- left. apply add_or_reuse_has.
      * destruct (num "svi" local) as [v|] eqn:Ev.
        -- cbn [d_log add_addr d_ifs]. rewrite !add_or_reuse_log.
           repeat split; auto.
           ++ intros i Hi. apply add_or_reuse_keeps. exact Hi.
           ++ left. apply add_or_reuse_has.
        -- destruct pp as [|p rest] eqn:Epp; [right; reflexivity|].
           cbn [d_log add_addr d_ifs map hd]. repeat split; auto.
Qed.

(* ---- _apply_indirect_interface_changes ----------------------------------------------------------- *)

Definition indirect_step (nm : naming) (local : entries) (d : dev) : fail + (option string * dev) :=
  match to_interface_changes local, opt_str "ifname" local with
  | inl e, _ => inl e
  | _, inl e => inl e
  | inr ch, inr ifname => apply_indirect nm ifname ch d
  end.

Definition log_of (t : option string) (local : entries) : list logrec :=
  match t with Some n => [(n, get_str "addr" local, txt "vrf" local)] | None => [] end.

Theorem indirect_step_table : forall nm local d,
  match indirect_step nm local d with
  | inr (t, d') =>
    refused_indirect local (d_ifs d) = false /\
    t = selected_indirect nm local /\
    d_log d' = d_log d ++ log_of t local /\
    (forall i, sin i (d_ifs d) = true -> sin i (d_ifs d') = true) /\
    (forall n, t = Some n -> sin n (d_ifs d') = true)
  | inl FValue => wf_iface_dto local = true /\ refused_indirect local (d_ifs d) = true
  | inl FOther => wf_iface_dto local = false \/ typed_str "ifname" local = false
  end.
Proof.
  intros nm local d. unfold indirect_step.
  pose proof (to_interface_changes_table local) as T.
  destruct (to_interface_changes local) as [[|]|ch].
  - destruct T as [W R]. split; [exact W|]. unfold refused_indirect. unfold post_init_refused in R.
    apply orb_true_iff in R. destruct R as [R|R].
    + apply andb_true_iff in R. destruct R as [R1 R2]. rewrite R1. rewrite orb_true_r. reflexivity.
    + rewrite R. reflexivity.
  - left. exact T.
  - destruct T as [W [R [Ha [Hl [Hs [Hu Hv]]]]]]. unfold post_init_refused in R.
    apply orb_false_iff in R. destruct R as [R1 R2].
    destruct (opt_str "ifname" local) as [[|]|ifn] eqn:Ei.
    + unfold opt_str in Ei. destruct (lookup "ifname" local) as [v|]; [|discriminate].
      destruct v as [a| | | |]; try discriminate. destruct a; discriminate.
    + right. unfold typed_str. rewrite Ei. reflexivity.
    + apply opt_str_txt in Ei. subst ifn.
      unfold apply_indirect, refused_indirect, selected_indirect, log_of.
      rewrite Hl, Hs, Hu, Ha, Hv. rewrite R2.
      destruct (num "lag" local) as [l|] eqn:El.
      { split; [exact W|]. cbn. reflexivity. }
      cbn [is_some orb].
      destruct (num "subif" local) as [n|] eqn:En.
      * cbn [d_log add_addr d_ifs]. rewrite !add_or_reuse_log.
        repeat split; auto.
        -- intros i Hi. apply add_or_reuse_keeps. exact Hi.
        -- intros n0 Hn. injection Hn as Hn. subst n0. apply add_or_reuse_has.
      * destruct (num "svi" local) as [v|] eqn:Ev.
        -- cbn [d_log add_addr d_ifs]. rewrite !add_or_reuse_log.
           repeat split; auto.
           ++ intros i Hi. apply add_or_reuse_keeps. exact Hi.
           ++ intros n0 Hn. injection Hn as Hn. subst n0. apply add_or_reuse_has.
        -- destruct (txt "ifname" local) as [i|] eqn:Et.
           ++ destruct i as [|c r].
              ** cbn. rewrite List.app_nil_r. repeat split; auto. intros n0 Hn. discriminate.
              ** cbn [String.eqb negb andb]. destruct (sin (String c r) (d_ifs d)) eqn:Es.
                 --- cbn [d_log add_addr d_ifs negb]. repeat split; auto.
                     intros n0 Hn. injection Hn as Hn. subst n0. exact Es.
                 --- split; [exact W|]. reflexivity.
           ++ cbn. rewrite List.app_nil_r. repeat split; auto. intros n0 Hn. discriminate.
Qed.

(* ---- the stub naming: a sub-interface is never its parent, for every unit number --------------------- *)

Lemma append_length : forall a b, String.length (a ++ b)%string = String.length a + String.length b.
Proof. induction a as [|c a IH]; intros b; cbn; [reflexivity|rewrite IH; reflexivity]. Qed.

Theorem stub_subif_not_parent : forall base n, subif_name stub_naming base n <> base.
Proof.
  intros base n H. cbn in H. apply (f_equal String.length) in H.
  rewrite append_length in H. cbn in H. lia.
Qed.

Definition unset (f : string) (e : entries) : entries :=
  filter (fun p => negb (String.eqb (fst p) f)) e.

Lemma lookup_unset_same : forall f e, lookup f (unset f e) = None.
Proof.
  intros f e. unfold unset.
  rewrite (lookup_filter_key _ (fun g => negb (String.eqb g f))). rewrite String.eqb_refl. reflexivity.
Qed.

Lemma lookup_unset_other : forall f g e, g <> f -> lookup g (unset f e) = lookup g e.
Proof.
  intros f g e H. unfold unset.
  rewrite (lookup_filter_key _ (fun g => negb (String.eqb g f))).
  apply String.eqb_neq in H. rewrite H. reflexivity.
Qed.

(* sub-interface n of whatever the rest of the DTO selects: <parent>.<n> for every n (0 included) *)
Theorem stub_selected_subif : forall local base n,
  num "subif" local = Some n -> num "svi" local = None ->
  selected_direct stub_naming local base =
    (selected_direct stub_naming (unset "subif" local) base ++ "." ++ dec n)%string /\
  selected_direct stub_naming local base <> selected_direct stub_naming (unset "subif" local) base.
Proof.
  intros local base n Hn Hs.
  assert (E : selected_direct stub_naming local base =
              (selected_direct stub_naming (unset "subif" local) base ++ "." ++ dec n)%string).
  { unfold selected_direct, num. rewrite lookup_unset_same.
    rewrite !(lookup_unset_other "subif") by discriminate.
    unfold num in Hn, Hs. rewrite Hn, Hs. cbn [int_of].
    destruct (int_of (lookup "lag" local)); reflexivity. }
  split; [exact E|]. rewrite E. intros H. apply (f_equal String.length) in H.
  rewrite append_length in H. cbn in H. lia.
Qed.

(* distinct unit numbers give distinct sub-interfaces *)
Lemma to_int_nonnil : forall z, Z.to_int z <> Pos Nil /\ Z.to_int z <> Neg Nil.
Proof.
  intros z. destruct z as [|p|p]; cbn; split; try discriminate; intros H; injection H as H;
  apply (DecimalPos.Unsigned.to_uint_nonnil p); exact H.
Qed.

Lemma dec_inj : forall n m, dec n = dec m -> n = m.
Proof.
  intros n m H. unfold dec in H. apply DecimalZ.to_int_inj.
  destruct (to_int_nonnil n) as [A B]. destruct (to_int_nonnil m) as [C D].
  pose proof (NilZero.isi _ A B) as E1. pose proof (NilZero.isi _ C D) as E2.
  rewrite H in E1. rewrite E1 in E2. injection E2 as E2. exact E2.
Qed.

Lemma append_cancel_l : forall a x y, (a ++ x)%string = (a ++ y)%string -> x = y.
Proof. induction a as [|c a IH]; intros x y H; cbn in H; [exact H|injection H as H; apply IH; exact H]. Qed.

Theorem stub_subif_inj : forall base n m,
  subif_name stub_naming base n = subif_name stub_naming base m -> n = m.
Proof.
  intros base n m H. cbn in H. apply append_cancel_l in H. injection H as H. apply dec_inj. exact H.
Qed.

(* ---- the conversion loops of execute_for ------------------------------------------------------------ *)

Definition peer_iface (p : entries) : option value := lookup "interface" p.
Definition peer_host (p : entries) : option value := lookup "hostname" p.

Lemma mk_peer_iface : forall opt local con host i p,
  mk_peer opt local con host i = Some p ->
  peer_iface p = Some (iface_val i) /\ peer_host p = Some (VAtom (AStr host)) /\
  lookup "addr" p = ip_val (lookup "addr" con) /\ lookup "remote_as" p = lookup "asnum" con.
Proof.
  intros opt local con host i p H. unfold mk_peer in H.
  destruct (ip_val (lookup "addr" con)) as [a|]; [|discriminate].
  destruct (lookup "asnum" con) as [asn|]; [|discriminate].
  injection H as H. subst p. repeat split.
Qed.

Section Conv.
  Variable connections : string -> string -> list (string * string).
  Variable opt_fields : list string.
  Variable nm : naming.

  (* the interface the (merged) DTO of a direct pair selects on `device` *)
  Definition pair_local (kp : peer_key * entries) : entries := obj_of "local" (snd kp).
  Definition pair_other (kp : peer_key * entries) : string := fst (fst (fst kp)).
  Definition direct_ports (device : string) (kp : peer_key * entries) : list string :=
    pair_ports (connections device (pair_other kp)) (strs_of "ports" (snd kp)).
  Definition direct_seat (device : string) (kp : peer_key * entries) : string :=
    selected_direct nm (pair_local kp) (hd "" (direct_ports device kp)).
  Definition direct_log (device : string) (kp : peer_key * entries) : logrec :=
    (direct_seat device kp, get_str "addr" (pair_local kp), txt "vrf" (pair_local kp)).

  Lemma conv_direct_spec : forall device pairs d ps d',
    conv_direct connections opt_fields nm device pairs d = inr (ps, d') ->
    map peer_iface ps = map (fun kp => Some (VAtom (AStr (direct_seat device kp)))) pairs /\
    map peer_host ps = map (fun kp => Some (VAtom (AStr (pair_other kp)))) pairs /\
    d_log d' = d_log d ++ map (direct_log device) pairs /\
    Forall (fun kp => refused_direct (pair_local kp) (List.length (direct_ports device kp)) = false) pairs /\
    (forall i, sin i (d_ifs d) = true -> sin i (d_ifs d') = true).
  Proof.
    intros device pairs. induction pairs as [|[k p] rest IH]; intros d ps d' H.
    - cbn in H. injection H as H1 H2. subst. cbn. rewrite List.app_nil_r. repeat split; auto.
    - cbn [conv_direct] in H.
      pose proof (direct_step_table nm (connections device (fst (fst k))) (strs_of "ports" p) (obj_of "local" p) d) as T.
      unfold direct_step in T.
      destruct (to_interface_changes (obj_of "local" p)) as [e|ch]; [discriminate|].
      destruct (apply_direct nm (connections device (fst (fst k))) (strs_of "ports" p) ch d) as [e|[t d1]]; [discriminate|].
      destruct T as [R [Ht [Hlog [Hkeep _]]]].
      destruct (mk_peer opt_fields (obj_of "local" p) (obj_of "connected" p) (fst (fst k)) (Some t)) as [peer|] eqn:Ep;
        [|discriminate].
      destruct (conv_direct connections opt_fields nm device rest d1) as [e|[ps2 d2]] eqn:Er; [discriminate|].
      injection H as H1 H2. subst ps d'.
      destruct (IH d1 ps2 d2 Er) as [I1 [I2 [I3 [I4 I5]]]].
      destruct (mk_peer_iface _ _ _ _ _ _ Ep) as [P1 [P2 _]].
      cbn [map]. rewrite I1, I2, P1, P2. rewrite I3, Hlog, <- List.app_assoc.
      unfold direct_log at 2, direct_seat, direct_ports, pair_local, pair_other. cbn [fst snd iface_val].
      rewrite <- Ht. repeat split; auto; try (constructor; [exact R|exact I4]).
  Qed.

  Definition indirect_seat (kp : peer_key * entries) : option string := selected_indirect nm (pair_local kp).

  (* interfaces present when the k-th indirect pair is converted matter only for the "plain ifname"
     refusal; the statement keeps what is unconditional *)
  Lemma conv_indirect_spec : forall pairs d ps d',
    conv_indirect opt_fields nm pairs d = inr (ps, d') ->
    map peer_iface ps = map (fun kp => Some (iface_val (indirect_seat kp))) pairs /\
    map peer_host ps = map (fun kp => Some (VAtom (AStr (pair_other kp)))) pairs /\
    d_log d' = d_log d ++ flat_map (fun kp => log_of (indirect_seat kp) (pair_local kp)) pairs /\
    Forall (fun kp => forall n, indirect_seat kp = Some n -> sin n (d_ifs d') = true) pairs /\
    (forall i, sin i (d_ifs d) = true -> sin i (d_ifs d') = true).
  Proof.
    induction pairs as [|[k p] rest IH]; intros d ps d' H.
    - cbn in H. injection H as H1 H2. subst. cbn. rewrite List.app_nil_r. repeat split; auto.
    - cbn [conv_indirect] in H.
      pose proof (indirect_step_table nm (obj_of "local" p) d) as T. unfold indirect_step in T.
      destruct (to_interface_changes (obj_of "local" p)) as [e|ch]; [discriminate|].
      destruct (opt_str "ifname" (obj_of "local" p)) as [e|ifn]; [discriminate|].
      destruct (apply_indirect nm ifn ch d) as [e|[t d1]]; [discriminate|].
      destruct T as [R [Ht [Hlog [Hkeep Hhas]]]].
      destruct (mk_peer opt_fields (obj_of "local" p) (obj_of "connected" p) (fst (fst k)) t) as [peer|] eqn:Ep;
        [|discriminate].
      destruct (conv_indirect opt_fields nm rest d1) as [e|[ps2 d2]] eqn:Er; [discriminate|].
      injection H as H1 H2. subst ps d'.
      destruct (IH d1 ps2 d2 Er) as [I1 [I2 [I3 [I4 I5]]]].
      destruct (mk_peer_iface _ _ _ _ _ _ Ep) as [P1 [P2 _]].
      cbn [map flat_map]. rewrite I1, I2, P1, P2. rewrite I3, Hlog, <- List.app_assoc.
      assert (Hs : indirect_seat (k, p) = t).
      { unfold indirect_seat, pair_local. cbn [snd]. symmetry. exact Ht. }
      unfold pair_local, pair_other. cbn [fst snd]. rewrite Hs.
      repeat split; auto.
      constructor; [|exact I4].
      intros n Hn. rewrite Hs in Hn. apply I5. apply Hhas. exact Hn.
  Qed.

  Definition virtual_seat (lc : entries * entries) : option string := selected_virtual nm (fst lc).

  (* a virtual peer sits on the SVI; no address is assigned *)
  Lemma conv_virtual_spec : forall pairs d ps d',
    conv_virtual opt_fields nm pairs d = inr (ps, d') ->
    map peer_iface ps = map (fun lc => Some (iface_val (virtual_seat lc))) pairs /\
    Forall (fun lc => virtual_seat lc <> None) pairs /\
    d_log d' = d_log d /\
    (forall i, sin i (d_ifs d) = true -> sin i (d_ifs d') = true).
  Proof.
    induction pairs as [|[local con] rest IH]; intros d ps d' H.
    - cbn in H. injection H as H1 H2. subst. cbn. repeat split; auto.
    - cbn [conv_virtual] in H.
      destruct (lookup "svi" local) as [v|] eqn:Es; [|discriminate].
      destruct v as [a| | | |]; try discriminate. destruct a as [z| | | |]; try discriminate.
      unfold apply_virtual in H.
      destruct (mk_peer opt_fields local con "" (Some (svi_name nm z))) as [peer|] eqn:Ep; [|discriminate].
      destruct (conv_virtual opt_fields nm rest (add_or_reuse (svi_name nm z) d)) as [e|[ps2 d2]] eqn:Er; [discriminate|].
      injection H as H1 H2. subst ps d'.
      destruct (IH _ ps2 d2 Er) as [I1 [I2 [I3 I4]]].
      destruct (mk_peer_iface _ _ _ _ _ _ Ep) as [P1 _].
      cbn [map]. rewrite I1, P1, I3, add_or_reuse_log.
      assert (V : virtual_seat (local, con) = Some (svi_name nm z)).
      { unfold virtual_seat, selected_virtual, num. cbn [fst]. rewrite Es. reflexivity. }
      rewrite V. repeat split; auto.
      + constructor; [rewrite V; discriminate|exact I2].
      + intros i Hi. apply I4. apply add_or_reuse_keeps. exact Hi.
  Qed.
End Conv.

(* ---- execute_for: every peer sits on the interface its DTO selects; addresses land there ---------- *)

Section Whole.
  Variable dmatches : nat -> string -> string -> bool.
  Variable dhandler : nat -> string -> string -> list string -> entries * entries * entries.
  Variable imatches : nat -> string -> string -> bool.
  Variable ihandler : nat -> string -> string -> list string -> entries * entries * entries.
  Variable vmatches : nat -> string -> bool.
  Variable vhandler : nat -> string -> Z -> entries * entries * entries.
  Variable connections : string -> string -> list (string * string).
  Variable sch_direct sch_indirect sch_vlocal sch_vpeer sch_pair : schema.
  Variable opt_fields : list string.
  Variable nm : naming.

  Theorem execute_for_seats : forall drules irules vrules device nbs all d0 peers d',
    execute_for dmatches dhandler imatches ihandler vmatches vhandler connections
                sch_direct sch_indirect sch_vlocal sch_vpeer sch_pair opt_fields nm
                drules irules vrules device nbs all d0 = inr (peers, d') ->
    exists dpairs vpairs ipairs,
      execute_direct dmatches dhandler connections sch_direct sch_pair drules device nbs = inr dpairs /\
      execute_virtual vmatches vhandler sch_vlocal sch_vpeer vrules device = inr vpairs /\
      execute_indirect imatches ihandler sch_indirect sch_pair irules device all = inr ipairs /\
      map peer_iface peers =
        map (fun kp => Some (VAtom (AStr (direct_seat connections nm device kp)))) dpairs ++
        map (fun lc => Some (iface_val (virtual_seat nm lc))) vpairs ++
        map (fun kp => Some (iface_val (indirect_seat nm kp))) ipairs /\
      d_log d' = d_log d0 ++ map (direct_log connections nm device) dpairs ++
                 flat_map (fun kp => log_of (indirect_seat nm kp) (pair_local kp)) ipairs /\
      Forall (fun kp => refused_direct (pair_local kp)
                          (List.length (direct_ports connections device kp)) = false) dpairs /\
      Forall (fun lc => virtual_seat nm lc <> None) vpairs /\
      Forall (fun kp => forall n, indirect_seat nm kp = Some n -> sin n (d_ifs d') = true) ipairs.
  Proof.
    intros drules irules vrules device nbs all d0 peers d' H. unfold execute_for in H.
    destruct (execute_direct dmatches dhandler connections sch_direct sch_pair drules device nbs) as [e|dpairs];
      [discriminate|]. cbn [of_xerr] in H.
    destruct (conv_direct connections opt_fields nm device dpairs d0) as [e|[p1 d1]] eqn:E1; [discriminate|].
    destruct (execute_virtual vmatches vhandler sch_vlocal sch_vpeer vrules device) as [e|vpairs]; [discriminate|].
    destruct (conv_virtual opt_fields nm vpairs d1) as [e|[p2 d2]] eqn:E2; [discriminate|].
    destruct (execute_indirect imatches ihandler sch_indirect sch_pair irules device all) as [e|ipairs];
      [discriminate|]. cbn [of_xerr] in H.
    destruct (conv_indirect opt_fields nm ipairs d2) as [e|[p3 d3]] eqn:E3; [discriminate|].
    injection H as H1 H2. subst peers d'.
    destruct (conv_direct_spec _ _ _ _ _ _ _ _ E1) as [A1 [_ [A3 [A4 _]]]].
    destruct (conv_virtual_spec _ _ _ _ _ _ E2) as [B1 [B2 [B3 _]]].
    destruct (conv_indirect_spec _ _ _ _ _ _ E3) as [C1 [_ [C3 [C4 _]]]].
    exists dpairs, vpairs, ipairs. repeat split; auto.
    - rewrite !map_app, A1, B1, C1. reflexivity.
    - rewrite C3, B3, A3, <- List.app_assoc. reflexivity.
  Qed.
End Whole.

(* ---- provenance of session data through the keyed merge -------------------------------------------- *)

Lemma obj_of_unobj : forall side p,
  obj_of side p = match lookup side p with Some v => unobj v | None => [] end.
Proof. intros side p. unfold obj_of. destruct (lookup side p) as [v|]; [destruct v|]; reflexivity. Qed.

Lemma lookup_nil : forall f, lookup f (@nil (string * value)) = None.
Proof. reflexivity. Qed.

(* whatever the merger, a merged value carries no attribute absent from both operands *)
Lemma merge_val_keys : forall m x y v f,
  merge_val m x y = Ok v -> lookup f (unobj x) = None -> lookup f (unobj y) = None -> lookup f (unobj v) = None.
Proof.
  intros m x y v f H Hx Hy. destruct m.
  - assert (E : merge_val MForbidChange x y = if value_eqb x y then Ok x else Err EForbidden)
      by (destruct x; reflexivity).
    rewrite E in H. destruct (value_eqb x y); [|discriminate]. injection H as H. subst. exact Hx.
  - destruct x; discriminate.
  - destruct x; cbn in H; injection H as H; subst; exact Hx.
  - destruct x; cbn in H; injection H as H; subst; exact Hy.
  - destruct x; destruct y; cbn in H; try discriminate; injection H as H; subst; reflexivity.
  - destruct x; destruct y; cbn in H; try discriminate; injection H as H; subst; reflexivity.
  - destruct x as [| | | |fx]; try (destruct y; discriminate). destruct y as [| | | |fy]; try discriminate.
    rewrite merge_val_obj in H.
    destruct (merge_entries merge_val (fun f => lookup f sch) fx fy) as [r|e] eqn:E; [|discriminate].
    injection H as H. subst v. cbn [unobj] in *. eapply merge_entries_key_src; eassumption.
  - destruct x as [| | |fx|]; try (destruct y; discriminate). destruct y as [| | |fy|]; try discriminate.
    rewrite merge_val_dict in H.
    destruct (merge_entries merge_val (fun _ => Some m) fx fy) as [r|e] eqn:E; [|discriminate].
    injection H as H. subst v. reflexivity.
Qed.

Lemma pair_merge_keys : forall sch p' p0 pp side f,
  merge sch p' p0 = Ok pp ->
  lookup f (obj_of side p') = None -> lookup f (obj_of side p0) = None -> lookup f (obj_of side pp) = None.
Proof.
  intros sch p' p0 pp side f H H1 H2. rewrite merge_is_merge_entries in H.
  pose proof (merge_entries_lookup _ _ _ _ _ H side) as L. rewrite obj_of_unobj in *.
  destruct (lookup side p') as [x|]; destruct (lookup side p0) as [y|]; cbn in L.
  - destruct (lookup side sch) as [m|].
    + destruct (merge_val m x y) as [v|e] eqn:E; [|discriminate]. injection L as L. rewrite <- L.
      eapply merge_val_keys; eassumption.
    + injection L as L. rewrite <- L. exact H1.
  - injection L as L. rewrite <- L. exact H1.
  - destruct (lookup side sch); injection L as L; rewrite <- L; [exact H2|reflexivity].
  - injection L as L. rewrite <- L. reflexivity.
Qed.

Lemma key_eqb_fqdn : forall a b, key_eqb a b = true -> fst (fst a) = fst (fst b).
Proof.
  intros a b H. unfold key_eqb in H. apply andb_true_iff in H. destruct H as [H _].
  apply andb_true_iff in H. destruct H as [H _]. apply String.eqb_eq. exact H.
Qed.

Section Provenance.
  Variable sch_pair : schema.
  Variable side : string.            (* "local" or "connected" *)
  Variable f : string.               (* the attribute *)
  Variable target : string.          (* the other device of the pair under consideration *)

  (* no session with `target` carries f on this side *)
  Definition quiet (acc : list (peer_key * entries)) : Prop :=
    forall k p, In (k, p) acc -> fst (fst k) = target -> lookup f (obj_of side p) = None.

  Lemma upsert_quiet : forall k0 p0 acc acc',
    upsert sch_pair k0 p0 acc = Ok acc' ->
    (fst (fst k0) = target -> lookup f (obj_of side p0) = None) ->
    quiet acc -> quiet acc'.
  Proof.
    intros k0 p0. induction acc as [|[k' p'] rest IH]; intros acc' H H0 Q.
    - cbn in H. injection H as H. subst acc'. intros k p [E|[]] Hk. injection E as E1 E2. subst. auto.
    - cbn [upsert] in H. destruct (key_eqb k0 k') eqn:K.
      + destruct (merge sch_pair p' p0) as [pp|e] eqn:M; [|discriminate]. injection H as H. subst acc'.
        intros k p [E|Hin] Hk.
        * injection E as E1 E2. subst k p. eapply pair_merge_keys; [exact M| |].
          -- apply (Q k' p'); [left; reflexivity|exact Hk].
          -- apply H0. rewrite (key_eqb_fqdn _ _ K). exact Hk.
        * apply (Q k p); [right; exact Hin|exact Hk].
      + destruct (upsert sch_pair k0 p0 rest) as [rest'|e] eqn:U; [|discriminate]. injection H as H. subst acc'.
        assert (Qr : quiet rest). { intros k p Hin Hk. apply (Q k p); [right; exact Hin|exact Hk]. }
        specialize (IH rest' eq_refl H0 Qr).
        intros k p [E|Hin] Hk.
        * injection E as E1 E2. subst k p. apply (Q k' p'); [left; reflexivity|exact Hk].
        * apply (IH k p Hin Hk).
  Qed.
End Provenance.

(* what one handler call sets, seen from `device`: (device side, other side, session) *)
Definition other_end (m : matched) : string := if m_direct m then m_right m else m_left m.

Definition call_sides (handler : nat -> string -> string -> list string -> entries * entries * entries)
           (device : string) (m : matched) (ports : list (string * string)) : entries * entries * entries :=
  let nb := other_end m in
  let '(l, r, s) := if m_direct m then handler (r_id (m_rule m)) device nb (map fst ports)
                    else handler (r_id (m_rule m)) nb device (map snd ports) in
  if m_direct m then (l, r, s) else (r, l, s).

(* the handler call of m sets f neither on this side's peer object nor on the session *)
Definition silent (handler : nat -> string -> string -> list string -> entries * entries * entries)
           (device : string) (m : matched) (ports : list (string * string)) (local_side : bool) (f : string) : Prop :=
  let '(pd, pn, s) := call_sides handler device m ports in
  lookup f (if local_side then pd else pn) = None /\ lookup f s = None.

Definition side_name (local_side : bool) : string := if local_side then "local" else "connected".

Lemma edp_keys : forall handler dto device m ports loc con b f,
  execute_direct_pair handler dto device (other_end m) m ports = Some (Ok (loc, con)) ->
  silent handler device m ports b f ->
  lookup f (if b then loc else con) = None.
Proof.
  intros handler dto device m ports loc con b f H S.
  unfold execute_direct_pair in H. unfold silent, call_sides in S.
  destruct (if m_direct m then handler (r_id (m_rule m)) device (other_end m) (map fst ports)
            else handler (r_id (m_rule m)) (other_end m) device (map snd ports)) as [[l r] s].
  destruct (m_direct m).
  - destruct (is_empty r && is_empty l && is_empty s); [discriminate|].
    destruct (merge_all dto [] [r; s]) as [nd|e] eqn:E1; [|discriminate].
    destruct (merge_all dto [] [l; s]) as [dd|e] eqn:E2; [|discriminate].
    injection H as H1 H2. subst. destruct S as [S1 S2]. rewrite merge_all_efold in E1, E2.
    destruct b; [eapply efold_key_src; [exact E2|reflexivity|] | eapply efold_key_src; [exact E1|reflexivity|]];
      repeat constructor; assumption.
  - destruct (is_empty l && is_empty r && is_empty s); [discriminate|].
    destruct (merge_all dto [] [l; s]) as [nd|e] eqn:E1; [|discriminate].
    destruct (merge_all dto [] [r; s]) as [dd|e] eqn:E2; [|discriminate].
    injection H as H1 H2. subst. destruct S as [S1 S2]. rewrite merge_all_efold in E1, E2.
    destruct b; [eapply efold_key_src; [exact E2|reflexivity|] | eapply efold_key_src; [exact E1|reflexivity|]];
      repeat constructor; assumption.
Qed.

Section NoLeak.
  Variable handler : nat -> string -> string -> list string -> entries * entries * entries.
  Variable dto sch_pair : schema.
  Variable b : bool.                 (* true: the device's own DTO, false: the peer's DTO *)
  Variable f : string.
  Variable target : string.

  (* _execute_indirect *)
  Lemma step_indirect_quiet : forall device m acc acc',
    step_indirect handler dto sch_pair device m acc = inr acc' ->
    (other_end m = target -> silent handler device m [] b f) ->
    quiet (side_name b) f target acc -> quiet (side_name b) f target acc'.
  Proof.
    intros device m acc acc' H S Q. unfold step_indirect in H. fold (other_end m) in H.
    destruct (execute_direct_pair handler dto device (other_end m) m []) as [[[loc con]|e]|] eqn:E.
    - destruct (lookup "addr" con) as [addr|]; [|discriminate].
      destruct (upsert sch_pair _ _ acc) as [acc2|e] eqn:U; [|discriminate]. injection H as H. subst acc2.
      eapply upsert_quiet; [exact U| |exact Q].
      cbn [fst]. intros Ht. specialize (S Ht).
      pose proof (edp_keys _ _ _ _ _ _ _ _ _ E S) as K. destruct b; exact K.
    - discriminate.
    - injection H as H. subst acc'. exact Q.
  Qed.

  Lemma fold_indirect_quiet : forall device ms acc acc',
    fold_indirect handler dto sch_pair device ms acc = inr acc' ->
    (forall m, In m ms -> other_end m = target -> silent handler device m [] b f) ->
    quiet (side_name b) f target acc -> quiet (side_name b) f target acc'.
  Proof.
    intros device. induction ms as [|m rest IH]; intros acc acc' H S Q.
    - cbn in H. injection H as H. subst. exact Q.
    - cbn [fold_indirect] in H.
      destruct (step_indirect handler dto sch_pair device m acc) as [e|acc1] eqn:E; [discriminate|].
      apply (IH acc1 acc' H).
      + intros m' Hin. apply S. right. exact Hin.
      + eapply step_indirect_quiet; [exact E| |exact Q]. apply S. left. reflexivity.
  Qed.

  (* _execute_direct *)
  Lemma step_direct_quiet : forall device m ports acc acc',
    step_direct handler dto sch_pair device m ports acc = inr acc' ->
    (other_end m = target -> silent handler device m ports b f) ->
    quiet (side_name b) f target acc -> quiet (side_name b) f target acc'.
  Proof.
    intros device m ports acc acc' H S Q. unfold step_direct in H. fold (other_end m) in H.
    destruct (execute_direct_pair handler dto device (other_end m) m ports) as [[[loc con]|e]|] eqn:E.
    - destruct (lookup "addr" con) as [addr|]; [|discriminate].
      destruct (upsert sch_pair _ _ acc) as [acc2|e] eqn:U; [|discriminate]. injection H as H. subst acc2.
      eapply upsert_quiet; [exact U| |exact Q].
      cbn [fst]. intros Ht. specialize (S Ht).
      pose proof (edp_keys _ _ _ _ _ _ _ _ _ E S) as K. destruct b; exact K.
    - discriminate.
    - injection H as H. subst acc'. exact Q.
  Qed.

  Lemma fold_steps_quiet : forall device work acc acc',
    fold_steps handler dto sch_pair device work acc = inr acc' ->
    (forall m ports, In (m, ports) work -> other_end m = target -> silent handler device m ports b f) ->
    quiet (side_name b) f target acc -> quiet (side_name b) f target acc'.
  Proof.
    intros device. induction work as [|[m ports] rest IH]; intros acc acc' H S Q.
    - cbn in H. injection H as H. subst. exact Q.
    - cbn [fold_steps] in H.
      destruct (step_direct handler dto sch_pair device m ports acc) as [e|acc1] eqn:E; [discriminate|].
      apply (IH acc1 acc' H).
      + intros m' ports' Hin. apply S. right. exact Hin.
      + eapply step_direct_quiet; [exact E| |exact Q]. apply S. left. reflexivity.
  Qed.
End NoLeak.

(* ---- no leak between pairs: an attribute of the session with C was set by a handler call for C ---- *)

Lemma quiet_nil : forall side f target, quiet side f target [].
Proof. intros side f target k p []. Qed.

Theorem indirect_no_leak :
  forall imatches ihandler sch_indirect sch_pair rules device all acc (local_side : bool) f k p,
    execute_indirect imatches ihandler sch_indirect sch_pair rules device all = inr acc ->
    In (k, p) acc ->
    (forall m, In m (lookup_direct imatches rules device all) -> other_end m = fst (fst k) ->
               silent ihandler device m [] local_side f) ->
    lookup f (obj_of (side_name local_side) p) = None.
Proof.
  intros imatches ihandler sch_indirect sch_pair rules device all acc b f k p H Hin S.
  unfold execute_indirect in H.
  pose proof (fold_indirect_quiet ihandler sch_indirect sch_pair b f (fst (fst k)) device _ _ _ H S
                                  (quiet_nil _ _ _)) as Q.
  apply (Q k p Hin eq_refl).
Qed.

Definition direct_work (connections : string -> string -> list (string * string)) (device : string)
           (ms : list matched) : list (matched * list (string * string)) :=
  flat_map (fun m => let neighbor := if m_direct m then m_right m else m_left m in
                     map (fun g => (m, g)) (port_groups (r_pp (m_rule m)) (connections device neighbor))) ms.

Theorem direct_no_leak :
  forall dmatches dhandler connections sch_direct sch_pair rules device nbs acc (local_side : bool) f k p,
    execute_direct dmatches dhandler connections sch_direct sch_pair rules device nbs = inr acc ->
    In (k, p) acc ->
    (forall m ports, In (m, ports) (direct_work connections device (lookup_direct dmatches rules device nbs)) ->
                     other_end m = fst (fst k) -> silent dhandler device m ports local_side f) ->
    lookup f (obj_of (side_name local_side) p) = None.
Proof.
  intros dmatches dhandler connections sch_direct sch_pair rules device nbs acc b f k p H Hin S.
  unfold execute_direct in H.
  pose proof (fold_steps_quiet dhandler sch_direct sch_pair b f (fst (fst k)) device _ _ _ H S
                               (quiet_nil _ _ _)) as Q.
  apply (Q k p Hin eq_refl).
Qed.

(* the wording of the task: a field set by h1 for the pair (A, B) only never shows up in the session
   (A, C): if every call for C is silent on f, the session with C has no f -- whatever the calls for
   B (or anybody else) set *)
Corollary indirect_no_leak_other_pair :
  forall imatches ihandler sch_indirect sch_pair rules A all acc (local_side : bool) f C p addr vrf,
    execute_indirect imatches ihandler sch_indirect sch_pair rules A all = inr acc ->
    In ((C, addr, vrf), p) acc ->
    (forall m, In m (lookup_direct imatches rules A all) -> other_end m = C -> silent ihandler A m [] local_side f) ->
    lookup f (obj_of (side_name local_side) p) = None.
Proof.
  intros imatches ihandler sch_indirect sch_pair rules A all acc b f C p addr vrf H Hin S.
  eapply indirect_no_leak; [exact H|exact Hin|]. cbn [fst]. exact S.
Qed.

(* ---- mirror for indirect sessions -------------------------------------------------------------------- *)

Theorem indirect_mirror :
  forall imatches ihandler sch_indirect rules A B all r o L R loc con,
    In A all ->
    In (Matched r o L R) (lookup_direct imatches rules A all) ->
    other_end (Matched r o L R) = B ->
    execute_direct_pair ihandler sch_indirect A B (Matched r o L R) [] = Some (Ok (loc, con)) ->
    In (Matched r (negb o) L R) (lookup_direct imatches rules B all) /\
    other_end (Matched r (negb o) L R) = A /\
    execute_direct_pair ihandler sch_indirect B A (Matched r (negb o) L R) [] = Some (Ok (con, loc)) /\
    forall opt iA iB pA pB,
      mk_peer opt loc con B iA = Some pA -> mk_peer opt con loc A iB = Some pB ->
      lookup "addr" pA = ip_val (lookup "addr" con) /\ lookup "addr" pB = ip_val (lookup "addr" loc) /\
      lookup "remote_as" pA = lookup "asnum" con /\ lookup "remote_as" pB = lookup "asnum" loc /\
      lookup "families" pA = Some (dflt "families" con (VSet [])) /\
      lookup "families" pB = Some (dflt "families" loc (VSet [])).
Proof.
  intros imatches ihandler sch_indirect rules A B all r o L R loc con HA Hin Ho E.
  apply lookup_direct_spec in Hin. destruct Hin as [Hr [Hm Hc]].
  assert (Hin' : In (Matched r (negb o) L R) (lookup_direct imatches rules B all) /\
                 other_end (Matched r (negb o) L R) = A).
  { unfold other_end in *. cbn [m_direct m_left m_right] in *.
    destruct Hc as [[Ho' [HL HR]]|[Ho' [HR HL]]]; subst o; cbn [negb]; subst.
    - split; [|reflexivity]. apply lookup_direct_spec. split; [exact Hr|]. split; [exact Hm|]. right. auto.
    - split; [|reflexivity]. apply lookup_direct_spec. split; [exact Hr|]. split; [exact Hm|]. left. auto. }
  destruct Hin' as [H1 H2]. split; [exact H1|]. split; [exact H2|].
  destruct (mesh_mirror ihandler sch_indirect A B r o L R L R [] loc con E) as [M _].
  split; [exact M|].
  intros opt iA iB pA pB PA PB. unfold mk_peer in PA, PB.
  destruct (ip_val (lookup "addr" con)) as [a1|]; [|discriminate].
  destruct (lookup "asnum" con) as [n1|]; [|discriminate].
  destruct (ip_val (lookup "addr" loc)) as [a2|]; [|discriminate].
  destruct (lookup "asnum" loc) as [n2|]; [|discriminate].
  injection PA as PA. injection PB as PB. subst pA pB. repeat split.
Qed.

(* ---- virtual sessions: one per (rule, num), never merged; the peer is what the handler wrote ---------- *)

Theorem virtual_pair_spec :
  forall vhandler sch_vlocal sch_vpeer device r n local con,
    virtual_pair vhandler sch_vlocal sch_vpeer device r n = Some (inr (local, con)) ->
    let '(l, v, s) := vhandler (v_id r) device n in
    merge_all sch_vlocal [] [l; s] = Ok local /\ merge_all sch_vpeer [] [v; s] = Ok con /\
    mem "svi" local = true /\
    (forall f, lookup f v = None -> lookup f s = None -> lookup f con = None) /\
    (forall f, lookup f l = None -> lookup f s = None -> lookup f local = None).
Proof.
  intros vhandler sch_vlocal sch_vpeer device r n local con H. unfold virtual_pair in H.
  destruct (vhandler (v_id r) device n) as [[l v] s].
  destruct (is_empty v && is_empty l && is_empty s); [discriminate|].
  destruct (merge_all sch_vpeer [] [v; s]) as [vd|e] eqn:E1; [|discriminate].
  destruct (merge_all sch_vlocal [] [l; s]) as [dd|e] eqn:E2; [|discriminate].
  destruct (mem "svi" dd) eqn:Es; [|discriminate].
  injection H as H1 H2. subst. repeat split; auto.
  - intros f Hv Hs. rewrite merge_all_efold in E1. eapply efold_key_src; [exact E1|reflexivity|].
    repeat constructor; assumption.
  - intros f Hl Hs. rewrite merge_all_efold in E2. eapply efold_key_src; [exact E2|reflexivity|].
    repeat constructor; assumption.
Qed.

(* ---- from pairs to peers: what a Peer carries comes from the DTOs of its pair ------------------------ *)

Definition opt_src (g : string) : string := if String.eqb g "local_as" then "asnum" else g.

Lemma lookup_flat_map_single : forall (fields : list string) (F : string -> option value) g v,
  lookup g (flat_map (fun f => match F f with Some x => [(f, x)] | None => [] end) fields) = Some v ->
  F g = Some v.
Proof.
  induction fields as [|f rest IH]; intros F g v H; [discriminate|].
  cbn [flat_map] in H. rewrite lookup_app in H.
  destruct (F f) as [x|] eqn:E.
  - cbn [lookup] in H. destruct (String.eqb g f) eqn:Eg.
    + apply String.eqb_eq in Eg. subst f. cbn in H. injection H as H. subst. exact E.
    + cbn in H. apply IH. exact H.
  - cbn in H. apply IH. exact H.
Qed.

(* PeerOptions of a peer: every option is an attribute of the local DTO, with the same value *)
Lemma peer_options_src : forall opt local g v,
  lookup g (peer_options opt local) = Some v -> lookup (opt_src g) local = Some v.
Proof.
  intros opt local g v H.
  pose (F := fun f => match lookup (opt_src f) local with
                      | Some x => if is_none_val x then None else Some x
                      | None => None
                      end).
  assert (E : peer_options opt local =
              flat_map (fun f => match F f with Some x => [(f, x)] | None => [] end) opt).
  { unfold peer_options. apply flat_map_ext. intros f. unfold F, opt_src. cbv zeta.
    destruct (lookup (if String.eqb f "local_as" then "asnum" else f) local) as [x|]; [|reflexivity].
    destruct (is_none_val x); reflexivity. }
  rewrite E in H. apply lookup_flat_map_single in H. unfold F in H.
  destruct (lookup (opt_src g) local) as [x|]; [|discriminate].
  destruct (is_none_val x); [discriminate|]. exact H.
Qed.

Definition peer_of_pair (opt : list string) (local con : entries) (peer : entries) : Prop :=
  exists host i, mk_peer opt local con host i = Some peer.

(* what a Peer shows of its pair *)
Lemma peer_of_pair_src : forall opt local con peer,
  peer_of_pair opt local con peer ->
  (forall o g v, lookup "options" peer = Some (VObj o) -> lookup g o = Some v -> lookup (opt_src g) local = Some v) /\
  lookup "import_policy" peer = Some (dflt "import_policy" local estr) /\
  lookup "export_policy" peer = Some (dflt "export_policy" local estr) /\
  lookup "families" peer = Some (dflt "families" con (VSet [])) /\
  lookup "vrf_name" peer = Some (dflt "vrf" con estr) /\
  lookup "group_name" peer = Some (dflt "group_name" con estr) /\
  lookup "description" peer = Some (dflt "description" con estr).
Proof.
  intros opt local con peer [host [i H]]. unfold mk_peer in H.
  destruct (ip_val (lookup "addr" con)) as [a|]; [|discriminate].
  destruct (lookup "asnum" con) as [asn|]; [|discriminate].
  injection H as H. subst peer. split; [|repeat split].
  intros o g v Ho Hg. cbn in Ho. injection Ho as Ho. subst o. eapply peer_options_src. exact Hg.
Qed.

Section ConvPeers.
  Variable connections : string -> string -> list (string * string).
  Variable opt_fields : list string.
  Variable nm : naming.

  Lemma conv_indirect_peers : forall pairs d ps d',
    conv_indirect opt_fields nm pairs d = inr (ps, d') ->
    Forall2 (fun kp peer => peer_of_pair opt_fields (pair_local kp) (obj_of "connected" (snd kp)) peer) pairs ps.
  Proof.
    induction pairs as [|[k p] rest IH]; intros d ps d' H.
    - cbn in H. injection H as H1 H2. subst. constructor.
    - cbn [conv_indirect] in H.
      destruct (to_interface_changes (obj_of "local" p)) as [e|ch]; [discriminate|].
      destruct (opt_str "ifname" (obj_of "local" p)) as [e|ifn]; [discriminate|].
      destruct (apply_indirect nm ifn ch d) as [e|[t d1]]; [discriminate|].
      destruct (mk_peer opt_fields (obj_of "local" p) (obj_of "connected" p) (fst (fst k)) t) as [peer|] eqn:Ep;
        [|discriminate].
      destruct (conv_indirect opt_fields nm rest d1) as [e|[ps2 d2]] eqn:Er; [discriminate|].
      injection H as H1 H2. subst ps d'. constructor; [|eapply IH; exact Er].
      unfold peer_of_pair, pair_local. cbn [snd]. eauto.
  Qed.

  Lemma conv_direct_peers : forall device pairs d ps d',
    conv_direct connections opt_fields nm device pairs d = inr (ps, d') ->
    Forall2 (fun kp peer => peer_of_pair opt_fields (pair_local kp) (obj_of "connected" (snd kp)) peer) pairs ps.
  Proof.
    intros device. induction pairs as [|[k p] rest IH]; intros d ps d' H.
    - cbn in H. injection H as H1 H2. subst. constructor.
    - cbn [conv_direct] in H.
      destruct (to_interface_changes (obj_of "local" p)) as [e|ch]; [discriminate|].
      destruct (apply_direct nm (connections device (fst (fst k))) (strs_of "ports" p) ch d) as [e|[t d1]]; [discriminate|].
      destruct (mk_peer opt_fields (obj_of "local" p) (obj_of "connected" p) (fst (fst k)) (Some t)) as [peer|] eqn:Ep;
        [|discriminate].
      destruct (conv_direct connections opt_fields nm device rest d1) as [e|[ps2 d2]] eqn:Er; [discriminate|].
      injection H as H1 H2. subst ps d'. constructor; [|eapply IH; exact Er].
      unfold peer_of_pair, pair_local. cbn [snd]. eauto.
  Qed.
End ConvPeers.

Lemma Forall2_In_l : forall (A B : Type) (R : A -> B -> Prop) (Q : A -> Prop) l ps,
  Forall2 R l ps -> (forall x, In x l -> Q x) -> Forall2 (fun x p => R x p /\ Q x) l ps.
Proof.
  intros A B R Q l ps F. induction F as [|x y l' ps' Hxy F IH]; intros HQ; constructor.
  - split; [exact Hxy|apply HQ; left; reflexivity].
  - apply IH. intros z Hz. apply HQ. right. exact Hz.
Qed.

Lemma Forall2_weaken : forall (A B : Type) (R R' : A -> B -> Prop),
  (forall x y, R x y -> R' x y) -> forall l ps, Forall2 R l ps -> Forall2 R' l ps.
Proof. intros A B R R' H l ps F. induction F; constructor; auto. Qed.

(* no leak, at the level of the BgpConfig: an option of the peer computed for the indirect session
   with C was set (on the device's side or on the session) by a handler call for the pair (device, C) *)
Theorem indirect_no_leak_peer :
  forall imatches ihandler sch_indirect sch_pair opt_fields nm rules device all ipairs d ps d',
    execute_indirect imatches ihandler sch_indirect sch_pair rules device all = inr ipairs ->
    conv_indirect opt_fields nm ipairs d = inr (ps, d') ->
    Forall2 (fun kp peer =>
      forall o g,
        lookup "options" peer = Some (VObj o) ->
        (forall m, In m (lookup_direct imatches rules device all) -> other_end m = pair_other kp ->
                   silent ihandler device m [] true (opt_src g)) ->
        lookup g o = None) ipairs ps.
Proof.
  intros imatches ihandler sch_indirect sch_pair opt_fields nm rules device all ipairs d ps d' HE HC.
  pose proof (conv_indirect_peers _ _ _ _ _ _ HC) as F.
  apply (Forall2_In_l _ _ _ (fun kp => In kp ipairs)) in F; [|auto].
  eapply Forall2_weaken; [|exact F]. clear F.
  intros [k p] peer [Hp Hin] o g Ho S. destruct (lookup g o) as [v|] eqn:Eg; [|reflexivity]. exfalso.
  destruct (peer_of_pair_src _ _ _ _ Hp) as [Hopt _].
  pose proof (Hopt o g v Ho Eg) as L.
  pose proof (indirect_no_leak imatches ihandler sch_indirect sch_pair rules device all ipairs true (opt_src g) k p
                               HE Hin S) as N.
  cbn [side_name] in N. unfold pair_local in L. cbn [snd] in L. rewrite N in L. discriminate.
Qed.

(* ---- the keyed accumulator holds one session per key ------------------------------------------------- *)

Fixpoint fresh_key (k : peer_key) (acc : list (peer_key * entries)) : bool :=
  match acc with
  | [] => true
  | (k', _) :: rest => negb (key_eqb k k') && fresh_key k rest
  end.

(* every key is different (key_eqb) from all keys before it *)
Fixpoint keys_distinct (acc : list (peer_key * entries)) : Prop :=
  match acc with
  | [] => True
  | (k, _) :: rest => keys_distinct rest /\ Forall (fun kp => key_eqb (fst kp) k = false) rest
  end.

Lemma upsert_keys : forall sch k0 p0 acc acc',
  upsert sch k0 p0 acc = Ok acc' ->
  (map fst acc' = map fst acc /\ fresh_key k0 acc = false) \/
  (map fst acc' = map fst acc ++ [k0] /\ fresh_key k0 acc = true).
Proof.
  intros sch k0 p0. induction acc as [|[k' p'] rest IH]; intros acc' H.
  - cbn in H. injection H as H. subst. right. split; reflexivity.
  - cbn [upsert] in H. cbn [fresh_key]. destruct (key_eqb k0 k') eqn:K.
    + destruct (merge sch p' p0) as [pp|e]; [|discriminate]. injection H as H. subst. left. split; reflexivity.
    + destruct (upsert sch k0 p0 rest) as [rest'|e] eqn:U; [|discriminate]. injection H as H. subst acc'.
      destruct (IH rest' eq_refl) as [[M F]|[M F]]; [left|right]; cbn [map negb andb]; rewrite M, F; split; reflexivity.
Qed.

Lemma fresh_key_Forall : forall k acc, fresh_key k acc = true -> Forall (fun kp => key_eqb k (fst kp) = false) acc.
Proof.
  intros k. induction acc as [|[k' p'] rest IH]; intros H; constructor.
  - cbn in H. apply andb_true_iff in H. destruct H as [H _]. cbn. apply negb_true_iff. exact H.
  - cbn in H. apply andb_true_iff in H. destruct H as [_ H]. apply IH. exact H.
Qed.

Definition distinct_keys (ks : list peer_key) : Prop :=
  forall i j a b, i < j -> nth_error ks i = Some a -> nth_error ks j = Some b -> key_eqb b a = false.

Lemma distinct_keys_snoc : forall ks k,
  distinct_keys ks -> Forall (fun a => key_eqb k a = false) ks -> distinct_keys (ks ++ [k]).
Proof.
  intros ks k D F i j a b Hij Ha Hb.
  destruct (Nat.lt_ge_cases j (List.length ks)) as [Hj|Hj].
  - rewrite (nth_error_app1 ks [k]) in Ha by lia. rewrite (nth_error_app1 ks [k]) in Hb by lia.
    apply (D i j a b Hij Ha Hb).
  - rewrite (nth_error_app2 ks [k]) in Hb by lia.
    destruct (j - List.length ks) as [|n] eqn:E; [|destruct n; discriminate].
    cbn in Hb. injection Hb as Hb. subst b.
    assert (Hi : i < List.length ks) by lia.
    rewrite (nth_error_app1 ks [k]) in Ha by lia. apply nth_error_In in Ha.
    rewrite Forall_forall in F. apply F. exact Ha.
Qed.

Lemma upsert_distinct : forall sch k0 p0 acc acc',
  upsert sch k0 p0 acc = Ok acc' -> distinct_keys (map fst acc) -> distinct_keys (map fst acc').
Proof.
  intros sch k0 p0 acc acc' H D. destruct (upsert_keys _ _ _ _ _ H) as [[M _]|[M F]]; rewrite M; [exact D|].
  apply distinct_keys_snoc; [exact D|].
  apply fresh_key_Forall in F. rewrite Forall_forall in *. intros a Ha. apply in_map_iff in Ha.
  destruct Ha as [kp [E Hin]]. subst a. apply F. exact Hin.
Qed.

Lemma distinct_nil : distinct_keys [].
Proof. intros i j a b _ Ha. destruct i; discriminate. Qed.

Theorem indirect_keys_distinct : forall imatches ihandler sch_indirect sch_pair rules device all acc,
  execute_indirect imatches ihandler sch_indirect sch_pair rules device all = inr acc ->
  distinct_keys (map fst acc).
Proof.
  intros imatches ihandler sch_indirect sch_pair rules device all acc H. unfold execute_indirect in H.
  revert H. generalize (lookup_direct imatches rules device all) as ms.
  assert (G : forall ms acc0 acc1, distinct_keys (map fst acc0) ->
              fold_indirect ihandler sch_indirect sch_pair device ms acc0 = inr acc1 -> distinct_keys (map fst acc1)).
  { induction ms as [|m rest IH]; intros acc0 acc1 D H.
    - cbn in H. injection H as H. subst. exact D.
    - cbn [fold_indirect] in H.
      destruct (step_indirect ihandler sch_indirect sch_pair device m acc0) as [e|acc2] eqn:E; [discriminate|].
      apply (IH acc2 acc1); [|exact H]. unfold step_indirect in E.
      destruct (execute_direct_pair ihandler sch_indirect device _ m []) as [[[loc con]|e]|].
      + destruct (lookup "addr" con); [|discriminate].
        destruct (upsert sch_pair _ _ acc0) as [a|e] eqn:U; [|discriminate]. injection E as E. subst a.
        eapply upsert_distinct; eassumption.
      + discriminate.
      + injection E as E. subst. exact D. }
  intros ms H. eapply G; [|exact H]. exact distinct_nil.
Qed.

Theorem direct_keys_distinct : forall dmatches dhandler connections sch_direct sch_pair rules device nbs acc,
  execute_direct dmatches dhandler connections sch_direct sch_pair rules device nbs = inr acc ->
  distinct_keys (map fst acc).
Proof.
  intros dmatches dhandler connections sch_direct sch_pair rules device nbs acc H. unfold execute_direct in H.
  revert H. generalize (flat_map (fun m => let neighbor := if m_direct m then m_right m else m_left m in
     map (fun g => (m, g)) (port_groups (r_pp (m_rule m)) (connections device neighbor)))
     (lookup_direct dmatches rules device nbs)) as work.
  assert (G : forall work acc0 acc1, distinct_keys (map fst acc0) ->
              fold_steps dhandler sch_direct sch_pair device work acc0 = inr acc1 -> distinct_keys (map fst acc1)).
  { induction work as [|[m ports] rest IH]; intros acc0 acc1 D H.
    - cbn in H. injection H as H. subst. exact D.
    - cbn [fold_steps] in H.
      destruct (step_direct dhandler sch_direct sch_pair device m ports acc0) as [e|acc2] eqn:E; [discriminate|].
      apply (IH acc2 acc1); [|exact H]. unfold step_direct in E.
      destruct (execute_direct_pair dhandler sch_direct device _ m ports) as [[[loc con]|e]|].
      + destruct (lookup "addr" con); [|discriminate].
        destruct (upsert sch_pair _ _ acc0) as [a|e] eqn:U; [|discriminate]. injection E as E. subst a.
        eapply upsert_distinct; eassumption.
      + discriminate.
      + injection E as E. subst. exact D. }
  intros work H. eapply G; [|exact H]. exact distinct_nil.
Qed.

(* ---- the theorem discriminates: _execute_indirect with the session object hoisted out of the loop ----- *)

(* attribute assignment on an object that already has attributes *)
Definition assign (old new : entries) : entries :=
  new ++ filter (fun p => negb (mem (fst p) new)) old.

(* `session = MeshSession()` moved before `for rule in rules`: the handler's assignments land on the
   object the previous iterations left behind.  NOT the model of the code: a mutant, used only to show
   that C15_no_leak is not vacuous (its conclusion fails for this loop). *)
Fixpoint fold_indirect_shared (handler : nat -> string -> string -> list string -> entries * entries * entries)
         (dto sch_pair : schema) (device : string) (ms : list matched) (sess : entries)
         (acc : list (peer_key * entries)) : xerr + list (peer_key * entries) :=
  match ms with
  | [] => inr acc
  | m :: rest =>
    let h := fun id l r ports => let '(a, b, s) := handler id l r ports in (a, b, assign sess s) in
    let '(_, _, s_m) := call_sides h device m [] in
    match step_indirect h dto sch_pair device m acc with
    | inl e => inl e
    | inr acc' => fold_indirect_shared handler dto sch_pair device rest s_m acc'
    end
  end.

(* ---- a session is stored under the address its peer DTO carries --------------------------------------- *)

Section KeyAddr.
  Variable sch_pair dto : schema.
  Hypothesis pair_connected : lookup "connected" sch_pair = Some (MMerge dto).
  Hypothesis dto_addr : lookup "addr" dto = Some MForbidChange.

  (* the pair stored under k has a peer DTO whose addr is the key's address *)
  Definition keyed_ok (kp : peer_key * entries) : Prop :=
    exists con, lookup "connected" (snd kp) = Some (VObj con) /\ lookup "addr" con = Some (snd (fst (fst kp))).

  Lemma merge_keeps_addr : forall p' p0 pp con' a,
    merge sch_pair p' p0 = Ok pp ->
    lookup "connected" p' = Some (VObj con') -> lookup "addr" con' = Some a ->
    exists con, lookup "connected" pp = Some (VObj con) /\ lookup "addr" con = Some a.
  Proof.
    intros p' p0 pp con' a H Hc Ha. rewrite merge_is_merge_entries in H.
    pose proof (merge_entries_lookup _ _ _ _ _ H "connected") as L. rewrite Hc, pair_connected in L.
    destruct (lookup "connected" p0) as [y|] eqn:Ey; cbn [omerge] in L.
    - destruct (merge_val (MMerge dto) (VObj con') y) as [v|e] eqn:E; [|discriminate].
      injection L as L. destruct y as [| | | |con0]; try discriminate.
      rewrite merge_val_obj in E.
      destruct (merge_entries merge_val (fun f => lookup f dto) con' con0) as [r|e] eqn:E2; [|discriminate].
      injection E as E. subst v. exists r. split; [symmetry; exact L|].
      pose proof (merge_entries_lookup _ _ _ _ _ E2 "addr") as L2. rewrite Ha, dto_addr in L2.
      destruct (lookup "addr" con0) as [a0|]; cbn [omerge] in L2.
      + assert (F : merge_val MForbidChange a a0 = if value_eqb a a0 then Ok a else Err EForbidden)
          by (destruct a; reflexivity).
        rewrite F in L2. destruct (value_eqb a a0); [|discriminate]. injection L2 as L2. symmetry. exact L2.
      + injection L2 as L2. symmetry. exact L2.
    - injection L as L. exists con'. split; [symmetry; exact L|exact Ha].
  Qed.

  Lemma upsert_keyed : forall k0 p0 acc acc',
    upsert sch_pair k0 p0 acc = Ok acc' -> keyed_ok (k0, p0) -> Forall keyed_ok acc -> Forall keyed_ok acc'.
  Proof.
    intros k0 p0. induction acc as [|[k' p'] rest IH]; intros acc' H H0 F.
    - cbn in H. injection H as H. subst. constructor; [exact H0|constructor].
    - cbn [upsert] in H. inversion F as [|? ? Hk Hrest]. subst. destruct (key_eqb k0 k').
      + destruct (merge sch_pair p' p0) as [pp|e] eqn:M; [|discriminate]. injection H as H. subst acc'.
        constructor; [|exact Hrest]. destruct Hk as [con' [Hc Ha]]. cbn [fst snd] in *.
        destruct (merge_keeps_addr _ _ _ _ _ M Hc Ha) as [con [C1 C2]]. exists con. split; assumption.
      + destruct (upsert sch_pair k0 p0 rest) as [rest'|e] eqn:U; [|discriminate]. injection H as H. subst acc'.
        constructor; [exact Hk|]. apply (IH rest' eq_refl H0 Hrest).
  Qed.

  Theorem indirect_keyed : forall imatches ihandler rules device all acc,
    execute_indirect imatches ihandler dto sch_pair rules device all = inr acc -> Forall keyed_ok acc.
  Proof.
    intros imatches ihandler rules device all acc H. unfold execute_indirect in H.
    revert H. generalize (lookup_direct imatches rules device all) as ms.
    assert (G : forall ms acc0 acc1, Forall keyed_ok acc0 ->
                fold_indirect ihandler dto sch_pair device ms acc0 = inr acc1 -> Forall keyed_ok acc1).
    { induction ms as [|m rest IH]; intros acc0 acc1 F H.
      - cbn in H. injection H as H. subst. exact F.
      - cbn [fold_indirect] in H.
        destruct (step_indirect ihandler dto sch_pair device m acc0) as [e|acc2] eqn:E; [discriminate|].
        apply (IH acc2 acc1); [|exact H]. unfold step_indirect in E.
        destruct (execute_direct_pair ihandler dto device _ m []) as [[[loc con]|e]|].
        + destruct (lookup "addr" con) as [addr|] eqn:Ea; [|discriminate].
          destruct (upsert sch_pair _ _ acc0) as [a|e] eqn:U; [|discriminate]. injection E as E. subst a.
          eapply upsert_keyed; [exact U| |exact F].
          exists con. split; [reflexivity|exact Ea].
        + discriminate.
        + injection E as E. subst. exact F. }
    intros ms H. eapply G; [|exact H]. constructor.
  Qed.

  Theorem direct_keyed : forall dmatches dhandler connections rules device nbs acc,
    execute_direct dmatches dhandler connections dto sch_pair rules device nbs = inr acc -> Forall keyed_ok acc.
  Proof.
    intros dmatches dhandler connections rules device nbs acc H. unfold execute_direct in H.
    revert H. generalize (flat_map (fun m => let neighbor := if m_direct m then m_right m else m_left m in
       map (fun g => (m, g)) (port_groups (r_pp (m_rule m)) (connections device neighbor)))
       (lookup_direct dmatches rules device nbs)) as work.
    assert (G : forall work acc0 acc1, Forall keyed_ok acc0 ->
                fold_steps dhandler dto sch_pair device work acc0 = inr acc1 -> Forall keyed_ok acc1).
    { induction work as [|[m ports] rest IH]; intros acc0 acc1 F H.
      - cbn in H. injection H as H. subst. exact F.
      - cbn [fold_steps] in H.
        destruct (step_direct dhandler dto sch_pair device m ports acc0) as [e|acc2] eqn:E; [discriminate|].
        apply (IH acc2 acc1); [|exact H]. unfold step_direct in E.
        destruct (execute_direct_pair dhandler dto device _ m ports) as [[[loc con]|e]|].
        + destruct (lookup "addr" con) as [addr|] eqn:Ea; [|discriminate].
          destruct (upsert sch_pair _ _ acc0) as [a|e] eqn:U; [|discriminate]. injection E as E. subst a.
          eapply upsert_keyed; [exact U| |exact F].
          exists con. split; [reflexivity|exact Ea].
        + discriminate.
        + injection E as E. subst. exact F. }
    intros work H. eapply G; [|exact H]. constructor.
  Qed.
End KeyAddr.
