(* C09: the deploy-rule matcher on the extended rule language (Model/DeployY.v) is a conservative
   extension of the matcher of Model/Deploy.v, and its table-driven form is equal to it. *)
From Coq Require Import List String Ascii Bool Arith NArith Lia.
From Annet Require Import Base.Str Model.Pattern Model.PatternX Model.PatternY Model.Deploy Model.DeployY
     Proofs.PatternXProofs Proofs.PatternYProofs.
Import ListNotations.
Open Scope string_scope.
Open Scope list_scope.

(* on a rule row of the plain language the extended matcher is the old one *)
Theorem row_hit_y_conservative r row c :
  row_plain (d_pat r) = true -> row_hit_y r row c = row_hit r row c.
Proof.
  unfold row_plain, row_hit_y, row_hit. destruct (rule_pat (d_pat r)) as [p|] eqn:E; [|discriminate]. intros _.
  rewrite (yrule_match_conservative _ (embed p) false row (xrule_pat_conservative _ _ E)).
  rewrite (xrule_match_conservative _ false row p E). reflexivity.
Qed.

(* a plain row is a modelled row *)
Lemma row_plain_modelled p : row_plain p = true -> row_modelled p = true.
Proof.
  unfold row_plain, row_modelled. destruct (rule_pat p) as [q|] eqn:E; [|discriminate]. intros _.
  rewrite (yrule_pat_conservative _ _ (xrule_pat_conservative _ _ E)). reflexivity.
Qed.

Lemma lookup_yparse_row k ps v :
  lookup_str k (map (fun p => (p, yparse_row p)) ps) = Some v -> v = yparse_row k.
Proof.
  induction ps as [|p ps IH]; cbn; [discriminate|].
  destruct (String.eqb p k) eqn:E; [|exact IH].
  apply String.eqb_eq in E. subst. intro H. injection H as <-. reflexivity.
Qed.

Theorem fast_hit_y_eq rs r row c : fast_hit_y rs r row c = row_hit_y r row c.
Proof.
  unfold fast_hit_y, ytbl_hit, ypat_table, row_hit_y, yrule_match.
  destruct (lookup_str (d_pat r) _) as [v|] eqn:E.
  - apply lookup_yparse_row in E. subst. unfold yparse_row. cbn [fst snd].
    destruct (yrule_pat (d_pat r)); reflexivity.
  - unfold yparse_row. cbn [fst snd]. destruct (yrule_pat (d_pat r)); reflexivity.
Qed.

(* an unmodelled row never hits (fail closed) *)
Lemma row_hit_y_unmodelled r row c : row_modelled (d_pat r) = false -> row_hit_y r row c = false.
Proof.
  unfold row_modelled, row_hit_y, yrule_match. destruct (yrule_pat (d_pat r)); [discriminate|]. reflexivity.
Qed.

(* ------------------------------------------------------------------------------------ *)
(* whole rulebooks: on a rulebook written in the plain language match_deploy_rule and
   apply_deploy_rulebook computed with either matcher are equal *)

Lemma all_pats_unfold r : all_pats_r r = d_pat r :: flat_map all_pats_r (d_kids r).
Proof.
  destruct r as [p t d i a kids]. cbn [all_pats_r d_pat d_kids]. f_equal.
Qed.

Lemma book_plain_in rs r :
  book_plain rs = true -> In r rs -> row_plain (d_pat r) = true /\ book_plain (d_kids r) = true.
Proof.
  unfold book_plain. intros H Hin. rewrite forallb_forall in H.
  assert (forall q, In q (all_pats_r r) -> row_plain q = true) as Hr.
  { intros q Hq. apply H. apply in_flat_map. exists r. split; assumption. }
  rewrite all_pats_unfold in Hr. split.
  - apply Hr. left. reflexivity.
  - apply forallb_forall. intros q Hq. apply Hr. right. exact Hq.
Qed.

Section Ext.
  Variables h1 h2 : drule -> string -> ctx -> bool.

  Lemma scan_ext rs row c il cur :
    (forall r, In r rs -> h1 r row c = h2 r row c) ->
    scan h1 rs row c il cur = scan h2 rs row c il cur.
  Proof.
    revert cur. induction rs as [|r rs IH]; intros cur H; [reflexivity|].
    cbn [scan]. rewrite (H r (or_introl eq_refl)).
    destruct (h2 r row c).
    - destruct il; [reflexivity|]. destruct (Deploy.is_nil (d_kids r)); [reflexivity|].
      apply IH. intros x Hx. apply H. right. exact Hx.
    - apply IH. intros x Hx. apply H. right. exact Hx.
  Qed.

  Lemma scan_cur_inv (P : list drule -> Prop) h rs row c il cur :
    P cur -> P [] -> (forall r, In r rs -> P (d_kids r)) -> P (snd (scan h rs row c il cur)).
  Proof.
    revert cur. induction rs as [|r rs IH]; intros cur Hc Hn Hk; [exact Hc|].
    cbn [scan]. destruct (h r row c).
    - destruct il; [exact Hc|]. destruct (Deploy.is_nil (d_kids r)); [exact Hn|].
      apply IH; [apply Hk; left; reflexivity|exact Hn|intros x Hx; apply Hk; right; exact Hx].
    - apply IH; [exact Hc|exact Hn|intros x Hx; apply Hk; right; exact Hx].
  Qed.

  (* the rules on which the two matchers agree, closed under taking children *)
  Variable good : list drule -> Prop.
  Hypothesis good_nil : good [].
  Hypothesis good_in : forall rs r, good rs -> In r rs ->
                                    (forall row c, h1 r row c = h2 r row c) /\ good (d_kids r).

  Lemma match_rule_ext path : forall cur c, good cur -> match_rule h1 cur path c = match_rule h2 cur path c.
  Proof.
    induction path as [|row rest IH]; intros cur c Hg; [reflexivity|].
    cbn [match_rule].
    rewrite (scan_ext cur row c (Deploy.is_nil rest) cur) by (intros r Hr; apply (good_in cur r Hg Hr)).
    pose proof (scan_cur_inv good h2 cur row c (Deploy.is_nil rest) cur Hg good_nil
                             (fun r Hr => proj2 (good_in cur r Hg Hr))) as Hinv.
    destruct (scan h2 cur row c (Deploy.is_nil rest) cur) as [[r|] cur']; [reflexivity|].
    apply IH. exact Hinv.
  Qed.

  Variable wrappers : nat -> wrapper.
  Variable rules : list drule.
  Hypothesis good_rules : good rules.

  Lemma rule_for_ext p c : rule_for h1 rules p c = rule_for h2 rules p c.
  Proof. unfold rule_for. rewrite (match_rule_ext p rules c good_rules). reflexivity. Qed.

  Lemma body_cmd_ext pc : body_cmd h1 wrappers rules pc = body_cmd h2 wrappers rules pc.
  Proof. unfold body_cmd. rewrite rule_for_ext. reflexivity. Qed.

  Lemma wrap_cmd_ext s : wrap_cmd h1 rules s = wrap_cmd h2 rules s.
  Proof. unfold wrap_cmd. rewrite rule_for_ext. reflexivity. Qed.

  Lemma opt_all_map_ext' {A B} (g k : A -> option B) (l : list A) :
    (forall x, g x = k x) -> opt_all (map g l) = opt_all (map k l).
  Proof. intro H. induction l as [|x l IH]; cbn; [reflexivity|]. rewrite H, IH. reflexivity. Qed.

  Lemma emit_group_ext g : emit_group h1 rules g = emit_group h2 rules g.
  Proof.
    unfold emit_group. rewrite !(opt_all_map_ext' (wrap_cmd h1 rules) (wrap_cmd h2 rules)) by apply wrap_cmd_ext.
    reflexivity.
  Qed.

  Theorem deploy_ext paths : deploy h1 wrappers rules paths = deploy h2 wrappers rules paths.
  Proof.
    unfold deploy.
    rewrite (opt_all_map_ext' (body_cmd h1 wrappers rules) (body_cmd h2 wrappers rules)) by apply body_cmd_ext.
    destruct (opt_all (map (body_cmd h2 wrappers rules) paths)) as [items|]; [|reflexivity].
    rewrite (opt_all_map_ext' (emit_group h1 rules) (emit_group h2 rules)) by apply emit_group_ext.
    reflexivity.
  Qed.
End Ext.

(* the instance: a rulebook of the plain language *)
Theorem match_rule_y_conservative rules path c :
  book_plain rules = true -> match_rule row_hit_y rules path c = match_rule row_hit rules path c.
Proof.
  intro H. apply (match_rule_ext row_hit_y row_hit (fun rs => book_plain rs = true)); [reflexivity| |exact H].
  intros rs r Hrs Hin. destruct (book_plain_in rs r Hrs Hin) as [Hp Hk]. split; [|exact Hk].
  intros row c0. apply row_hit_y_conservative. exact Hp.
Qed.

Theorem deploy_y_conservative wrappers rules paths :
  book_plain rules = true ->
  deploy row_hit_y wrappers rules paths = deploy row_hit wrappers rules paths.
Proof.
  intro H. apply (deploy_ext row_hit_y row_hit (fun rs => book_plain rs = true)); [reflexivity| |exact H].
  intros rs r Hrs Hin. destruct (book_plain_in rs r Hrs Hin) as [Hp Hk]. split; [|exact Hk].
  intros row c0. apply row_hit_y_conservative. exact Hp.
Qed.
