(* C14 — lemma library for Properties/C14.v *)
From Coq Require Import List String Ascii Bool Arith Lia.
From Annet Require Import Base.Str Base.Tree Model.Offside Model.Rpl Spec.P_C14.
Import ListNotations.
Open Scope string_scope.
Open Scope list_scope.

Arguments nat_to_str : simpl never.
Arguments pfx_name : simpl never.
Arguments members_of : simpl never.
Arguments mangle : simpl never.
Arguments join_with : simpl never.
Arguments String.append : simpl never.
Arguments many : simpl never.
Arguments group_members : simpl never.
Arguments ar_ext_line : simpl never.

(* ------------------------------------------------------------------ error before lines *)

(* "an error comes with no line" *)
Definition ebl (o : out) : Prop := forall er, snd o = Some er -> fst o = [].

Lemma ebl_safe o : snd o = None -> ebl o.
Proof. intros H er E. rewrite H in E. discriminate. Qed.

Lemma ebl_then_safe a b : ebl a -> snd b = None -> ebl (a ;; b).
Proof.
  intros Ha Hb er. unfold oseq. destruct (snd a) as [x|] eqn:E.
  - intros H. apply (Ha x). exact E.
  - cbn. rewrite Hb. discriminate.
Qed.

Lemma ebl_check_then a b : fst a = [] -> ebl b -> ebl (a ;; b).
Proof.
  intros Ha Hb er. unfold oseq. destruct (snd a) as [x|] eqn:E.
  - intros _. exact Ha.
  - cbn. rewrite Ha. cbn. apply Hb.
Qed.

Lemma safe_seq a b : snd a = None -> snd b = None -> snd (a ;; b) = None.
Proof. intros Ha Hb. unfold oseq. rewrite Ha. cbn. exact Hb. Qed.

Lemma safe_when c o : snd o = None -> snd (when c o) = None.
Proof. destruct c; cbn; auto. Qed.

Lemma safe_yields rs : snd (yields rs) = None.
Proof. reflexivity. Qed.

(* types of the groups built by group_community_members *)
Definition ext_type (t : ctype) : bool := match t with RT | SOO => true | _ => false end.

Lemma group_add_types t ms g :
  ext_type t = true -> forallb (fun p => ext_type (fst p)) g = true ->
  forallb (fun p => ext_type (fst p)) (group_add t ms g) = true.
Proof.
  intros Ht. induction g as [|[t' l] g IH]; cbn; intros Hg.
  - rewrite Ht. reflexivity.
  - apply andb_true_iff in Hg as [H1 H2].
    destruct (ctype_eqb t t'); cbn; rewrite H1; cbn; auto.
Qed.

Lemma group_members_types_gen e names : forall g,
  forallb (cl_ok e (afield_ok AFExt)) names = true ->
  forallb (fun p => ext_type (fst p)) g = true ->
  forallb (fun p => ext_type (fst p))
          (fold_left (fun g n => match find_cl e n with
                                 | Some c => group_add (cl_type c) (cl_members c) g
                                 | None => g end) names g) = true.
Proof.
  induction names as [|n names IH]; cbn; intros g Hn Hg.
  - exact Hg.
  - apply andb_true_iff in Hn as [H1 H2]. apply IH; [exact H2|].
    unfold cl_ok in H1. destruct (find_cl e n) as [c|]; [|discriminate].
    apply andb_true_iff in H1 as [H1 _].
    apply group_add_types; [|exact Hg].
    destruct (cl_type c); cbn in *; congruence.
Qed.

Lemma group_members_types e names :
  forallb (cl_ok e (afield_ok AFExt)) names = true ->
  forallb (fun p => ext_type (fst p)) (group_members e names) = true.
Proof. intros H. unfold group_members. apply group_members_types_gen; [exact H|reflexivity]. Qed.

Lemma hw_ext_groups_add_safe g :
  forallb (fun p => ext_type (fst p)) g = true -> snd (hw_ext_groups false g) = None.
Proof.
  induction g as [|[t ms] g IH]; cbn; intros H.
  - reflexivity.
  - apply andb_true_iff in H as [H1 H2]. apply safe_seq; [|auto].
    destruct t; cbn in *; try discriminate; reflexivity.
Qed.

Lemma hw_ext_groups_set_safe g :
  forallb (fun p => ext_type (fst p)) g = true ->
  existsb (fun p => ctype_eqb (fst p) SOO) g = false ->
  snd (hw_ext_groups true g) = None.
Proof.
  induction g as [|[t ms] g IH]; cbn; intros H Hs.
  - reflexivity.
  - apply andb_true_iff in H as [H1 H2]. apply orb_false_iff in Hs as [Hs1 Hs2].
    apply safe_seq; [|auto].
    destruct t; cbn in *; try discriminate; reflexivity.
Qed.

Lemma cu_ext_groups_safe g :
  forallb (fun p => ext_type (fst p)) g = true -> snd (cu_ext_groups g) = None.
Proof.
  induction g as [|[t ms] g IH]; cbn; intros H.
  - reflexivity.
  - apply andb_true_iff in H as [H1 H2]. apply safe_seq; [|auto].
    destruct t; cbn in *; try discriminate; reflexivity.
Qed.

Lemma ar_render_ok e names :
  forallb (cl_ok e (afield_ok AFExt)) names = true -> exists ms, ar_render e names = inl ms.
Proof.
  induction names as [|n names IH]; cbn; intros H.
  - eauto.
  - apply andb_true_iff in H as [H1 H2]. destruct (IH H2) as [ms Hms].
    unfold cl_ok in H1. destruct (find_cl e n) as [c|]; [|discriminate].
    apply andb_true_iff in H1 as [H1 _]. rewrite Hms.
    destruct (cl_type c); cbn in *; try discriminate; eauto.
Qed.

Lemma ar_ext_line_safe e names suffix :
  forallb (cl_ok e (afield_ok AFExt)) names = true -> snd (ar_ext_line e names suffix) = None.
Proof.
  intros H. unfold ar_ext_line. destruct (ar_render_ok e names H) as [ms ->]. reflexivity.
Qed.

Lemma forallb_app_inv {A} (f : A -> bool) a b :
  forallb f (a ++ b) = true -> forallb f a = true /\ forallb f b = true.
Proof. rewrite forallb_app. apply andb_true_iff. Qed.

Ltac crush_ebl :=
  cbn; intros; try discriminate; try reflexivity; try congruence.

(* every condition, every vendor: no guard needed *)
Ltac cond_step :=
  match goal with
  | |- context [many ?l] => destruct (many l)
  | |- context [find_rd ?e ?n] => destruct (find_rd e n)
  | |- context [match ?l with [] => _ | _ :: _ => _ end] => destruct l
  end.

Lemma cond_error_before_lines : forall v e c, ebl (emit_cond v e c).
Proof.
  intros v e c er. destruct v; destruct c as [f o names|o names|v6 names ge le|o v1 v2|n|f o w]; cbn.
  all: try (destruct f); try (destruct o); try (destruct v6); cbn; try discriminate; try reflexivity.
  all: repeat (cond_step; cbn; try discriminate; try reflexivity).
Qed.

Lemma hw_action_ebl e a : wf_action e a = true -> ebl (hw_action patched e a).
Proof.
  intros Hwf. destruct a as [f replaced added removed|t w|set prepend expand delete last_as|t addr|f t w].
  - (* communities *)
    destruct f.
    + intros er. destruct replaced as [r|], added, removed; crush_ebl.
    + intros er. destruct replaced as [r|], added, removed; crush_ebl.
    + (* extcommunity *)
      cbn in Hwf. destruct replaced as [r|].
      * apply forallb_app_inv in Hwf as [Hr Hwf].
        destruct added as [|a0 added]; destruct removed as [|r0 removed]; try (solve [intros er; crush_ebl]).
        destruct r as [|r1 r]; [intros er; crush_ebl|].
        cbn [hw_action nonempty orb negb]. cbn [fx_hw_ext patched andb].
        set (g := group_members e (r1 :: r)).
        assert (Hg : forallb (fun p => ext_type (fst p)) g = true) by (apply group_members_types; exact Hr).
        destruct (existsb (fun p => ctype_eqb (fst p) SOO) g) eqn:Es.
        -- intros er. crush_ebl.
        -- apply ebl_safe. cbn. repeat apply safe_seq; try reflexivity.
           apply hw_ext_groups_set_safe; assumption.
      * cbn in Hwf. apply forallb_app_inv in Hwf as [Ha Hr].
        destruct removed as [|r0 removed]; [|intros er; destruct added; crush_ebl].
        destruct added as [|a0 added]; [intros er; crush_ebl|].
        apply ebl_safe. cbn. repeat apply safe_seq; try reflexivity.
        apply hw_ext_groups_add_safe. apply group_members_types. exact Ha.
    + intros er. destruct replaced as [r|], added, removed; crush_ebl.
    + intros er. destruct replaced as [r|], added, removed; crush_ebl.
  - intros er. destruct t; crush_ebl.
  - intros er. destruct set as [s|], prepend, expand, delete, last_as; crush_ebl.
  - intros er. destruct t; crush_ebl.
  - intros er. destruct f, t; crush_ebl.
Qed.

Lemma ar_action_ebl e a : wf_action e a = true -> ebl (ar_action patched e a).
Proof.
  intros Hwf. destruct a as [f replaced added removed|t w|set prepend expand delete last_as|t addr|f t w].
  - destruct f.
    + intros er. destruct replaced as [r|], added, removed; crush_ebl.
    + intros er. destruct replaced as [[|r1 r]|], added, removed; crush_ebl.
    + cbn in Hwf. destruct replaced as [r|].
      * apply forallb_app_inv in Hwf as [Hr Hwf].
        destruct added as [|a0 added]; destruct removed as [|r0 removed]; try (solve [intros er; crush_ebl]).
        destruct r as [|r1 r]; [intros er; crush_ebl|].
        apply ebl_safe. cbn. apply ar_ext_line_safe. exact Hr.
      * cbn in Hwf. apply forallb_app_inv in Hwf as [Ha Hr].
        apply ebl_safe. cbn. apply safe_seq; apply safe_when; apply ar_ext_line_safe; assumption.
    + intros er. destruct replaced as [r|], added, removed; crush_ebl.
    + intros er. destruct replaced as [r|], added, removed; crush_ebl.
  - intros er. destruct t; crush_ebl.
  - intros er. destruct set as [s|], prepend, expand, delete, last_as; crush_ebl.
  - intros er. destruct t; crush_ebl.
  - intros er. destruct f, t; crush_ebl.
Qed.

Lemma cu_action_ebl e a : wf_action e a = true -> ebl (cu_action patched e a).
Proof.
  intros Hwf. destruct a as [f replaced added removed|t w|set prepend expand delete last_as|t addr|f t w].
  - destruct f.
    + intros er. destruct replaced as [r|], added, removed; crush_ebl.
    + intros er. destruct replaced as [r|], added, removed; crush_ebl.
    + cbn in Hwf. destruct replaced as [r|].
      * apply forallb_app_inv in Hwf as [Hr Hwf].
        destruct added as [|a0 added]; destruct removed as [|r0 removed]; try (solve [intros er; crush_ebl]).
        destruct r as [|r1 r]; [intros er; crush_ebl|].
        apply ebl_safe. cbn. repeat apply safe_seq; try reflexivity.
        apply cu_ext_groups_safe. apply group_members_types. exact Hr.
      * intros er. destruct added, removed; crush_ebl.
    + intros er. destruct replaced as [r|], added, removed; crush_ebl.
    + intros er. destruct replaced as [r|], added, removed; crush_ebl.
  - intros er. destruct t; crush_ebl.
  - intros er. destruct set as [s|], prepend, expand, delete, last_as; crush_ebl.
  - intros er. destruct t; crush_ebl.
  - intros er. destruct f, t; crush_ebl.
Qed.

Lemma action_error_before_lines :
  forall v e a er, wf_action e a = true ->
    snd (emit_action patched v e a) = Some er -> fst (emit_action patched v e a) = [].
Proof.
  intros v e a er Hwf. destruct v; cbn [emit_action].
  - apply hw_action_ebl; exact Hwf.
  - apply ar_action_ebl; exact Hwf.
  - apply cu_action_ebl; exact Hwf.
Qed.

Lemma cond_error_before_lines' :
  forall v e c er, snd (emit_cond v e c) = Some er -> fst (emit_cond v e c) = [].
Proof. intros v e c er. apply cond_error_before_lines. Qed.

(* ------------------------------------------------------------------ the unchanged tree *)

(* lines of an item are streamed and then the same item is rejected *)
Definition partial_emission (fx : fixes) (v : vendor) (e : env) (a : action) : Prop :=
  wf_action e a = true /\
  exists er, snd (emit_action fx v e a) = Some er /\ fst (emit_action fx v e a) <> [].

Definition env0 : env :=
  Env [CL "RT1" ["100:1"] RT LOR false; CL "SOO1" ["100:2"] SOO LOR false; CL "L1" ["1:1:1"] LARGE LOR false]
      [] [] [].

Ltac refute := split; [vm_compute; reflexivity | eexists; split; [vm_compute; reflexivity | vm_compute; discriminate]].

Lemma hw_next_hop_refuted : partial_emission faithful Huawei env0 (ANextHop NHv4 "192.0.2.1").
Proof. refute. Qed.
Lemma hw_as_path_refuted : partial_emission faithful Huawei env0 (AAsPath (Some ["1"; "2"]) [] ["3"] [] "").
Proof. refute. Qed.
Lemma hw_extcommunity_refuted : partial_emission faithful Huawei env0 (AComm AFExt (Some ["RT1"; "SOO1"]) [] []).
Proof. refute. Qed.
Lemma hw_extcommunity_soo_refuted : partial_emission faithful Huawei env0 (AComm AFExtSoo None ["SOO1"] ["SOO1"]).
Proof. refute. Qed.
Lemma ar_as_path_refuted : partial_emission faithful Arista env0 (AAsPath (Some ["1"; "2"]) [] [] ["3"] "").
Proof. refute. Qed.
Lemma cu_as_path_refuted : partial_emission faithful Cumulus env0 (AAsPath None ["1"] ["3"] [] "").
Proof. refute. Qed.
Lemma cu_large_refuted : partial_emission faithful Cumulus env0 (AComm AFLarge None ["L1"] ["L1"]).
Proof. refute. Qed.
Lemma cu_ext_rt_refuted : partial_emission faithful Cumulus env0 (AComm AFExtRt None ["RT1"] ["RT1"]).
Proof. refute. Qed.
Lemma cu_ext_soo_refuted : partial_emission faithful Cumulus env0 (AComm AFExtSoo None ["SOO1"] ["SOO1"]).
Proof. refute. Qed.

(* the same inputs are handled atomically by the repaired code *)
Lemma patched_examples :
  emit_action patched Huawei env0 (ANextHop NHv4 "192.0.2.1") = ([["apply"; "ip-address"; "next-hop"; "192.0.2.1"]], None) /\
  emit_action patched Huawei env0 (AAsPath (Some ["1"; "2"]) [] ["3"] [] "") = ([], Some ERuntime) /\
  emit_action patched Huawei env0 (AComm AFExt (Some ["RT1"; "SOO1"]) [] []) = ([], Some ENotImpl) /\
  emit_action patched Arista env0 (AAsPath (Some ["1"; "2"]) [] [] ["3"] "") = ([], Some ERuntime) /\
  emit_action patched Cumulus env0 (AComm AFLarge None ["L1"] ["L1"]) = ([], Some ENotImpl).
Proof. vm_compute. repeat split. Qed.
