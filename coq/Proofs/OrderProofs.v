(* C08 lemma library: the comparisons of the two sort keys are total preorders; get_order
   under unambiguous matching returns the rule index (rank); order_config permutes, is
   idempotent, commutes with filtering and keeps unmentioned rows of one kind in order;
   make_patch is the recursive stable sort of the unsorted patch (so: permutation at every
   level, children under their parent, sorted, keys = get_order's).  Generic sorting facts
   are in Proofs/SortProofs.v; definitions of the references are in Spec/P_C08.v. *)
From Coq Require Import List String Ascii Bool Arith ZArith NArith Lia Permutation Sorted.
From Annet Require Import Base.Str Base.Tree Model.Pattern Model.Rulebook Model.Diff Model.Order Model.Patch
     Model.Blocks Model.Pipeline Spec.PipelineCase Proofs.SortProofs Spec.P_C08.
Import ListNotations.
Open Scope list_scope.

(* ---------- comparisons: total preorders ---------- *)

Section Lex.
  Context {A B : Type}.
  Variable cmp : A -> A -> comparison.
  Variable lebB : B -> B -> bool.
  Hypothesis cmp_antisym : forall a b, cmp a b = CompOpp (cmp b a).
  Hypothesis cmp_eq : forall a b, cmp a b = Eq -> a = b.
  Hypothesis cmp_lt_trans : forall a b c, cmp a b = Lt -> cmp b c = Lt -> cmp a c = Lt.
  Hypothesis lebB_total : forall a b, lebB a b = true \/ lebB b a = true.
  Hypothesis lebB_trans : forall a b c, lebB a b = true -> lebB b c = true -> lebB a c = true.

  Definition lex (x y : A * B) : bool :=
    match cmp (fst x) (fst y) with
    | Lt => true
    | Gt => false
    | Eq => lebB (snd x) (snd y)
    end.

  Lemma cmp_refl a : cmp a a = Eq.
  Proof. pose proof (cmp_antisym a a) as H. destruct (cmp a a); try reflexivity; discriminate. Qed.

  Lemma lex_total x y : lex x y = true \/ lex y x = true.
  Proof.
    unfold lex. rewrite (cmp_antisym (fst y) (fst x)).
    destruct (cmp (fst x) (fst y)) eqn:E; cbn [CompOpp].
    - apply lebB_total.
    - left. reflexivity.
    - right. reflexivity.
  Qed.

  Lemma lex_trans x y z : lex x y = true -> lex y z = true -> lex x z = true.
  Proof.
    unfold lex. intros H1 H2.
    destruct (cmp (fst x) (fst y)) eqn:E1; try discriminate;
      destruct (cmp (fst y) (fst z)) eqn:E2; try discriminate.
    - apply cmp_eq in E1. apply cmp_eq in E2. rewrite E1, E2, cmp_refl.
      exact (lebB_trans _ _ _ H1 H2).
    - apply cmp_eq in E1. rewrite E1, E2. reflexivity.
    - apply cmp_eq in E2. rewrite <- E2, E1. reflexivity.
    - rewrite (cmp_lt_trans _ _ _ E1 E2). reflexivity.
  Qed.
End Lex.

Lemma implb_total a b : implb a b = true \/ implb b a = true.
Proof. destruct a, b; cbn; auto. Qed.
Lemma implb_trans a b c : implb a b = true -> implb b c = true -> implb a c = true.
Proof. destruct a, b, c; cbn; auto. Qed.

Lemma znum_compare_antisym a b : znum_compare a b = CompOpp (znum_compare b a).
Proof. destruct a as [x|], b as [y|]; cbn; try reflexivity. apply Z.compare_antisym. Qed.
Lemma znum_compare_eq a b : znum_compare a b = Eq -> a = b.
Proof.
  destruct a as [x|], b as [y|]; cbn; intros H; try discriminate; try reflexivity.
  apply Z.compare_eq in H. subst. reflexivity.
Qed.
Lemma znum_compare_lt_trans a b c :
  znum_compare a b = Lt -> znum_compare b c = Lt -> znum_compare a c = Lt.
Proof.
  destruct a as [x|], b as [y|], c as [z|]; cbn; intros H1 H2; try discriminate; try reflexivity.
  rewrite Z.compare_lt_iff in *. lia.
Qed.

Lemma ascii_compare_lt_trans a b c :
  Ascii.compare a b = Lt -> Ascii.compare b c = Lt -> Ascii.compare a c = Lt.
Proof.
  unfold Ascii.compare. rewrite !N.compare_lt_iff. apply N.lt_trans.
Qed.

Lemma string_compare_refl s : String.compare s s = Eq.
Proof.
  pose proof (String.compare_antisym s s) as H.
  destruct (String.compare s s); try reflexivity; discriminate.
Qed.

Lemma string_compare_lt_trans : forall a b c,
  String.compare a b = Lt -> String.compare b c = Lt -> String.compare a c = Lt.
Proof.
  induction a as [|x a IH]; intros [|y b] [|z c]; cbn [String.compare]; intros H1 H2;
    try discriminate; try reflexivity.
  destruct (Ascii.compare x y) eqn:E1; try discriminate;
    destruct (Ascii.compare y z) eqn:E2; try discriminate.
  - apply Ascii.compare_eq_iff in E1. apply Ascii.compare_eq_iff in E2. subst y z.
    assert (E : Ascii.compare x x = Eq).
    { unfold Ascii.compare. apply N.compare_refl. }
    rewrite E. exact (IH _ _ H1 H2).
  - apply Ascii.compare_eq_iff in E1. subst y. rewrite E2. reflexivity.
  - apply Ascii.compare_eq_iff in E2. subst z. rewrite E1. reflexivity.
  - rewrite (ascii_compare_lt_trans _ _ _ E1 E2). reflexivity.
Qed.

(* the sort key of make_patch: (signed order, raw_rule, order_direct), compared as Python
   compares tuples *)
Definition str_bool_leb : string * bool -> string * bool -> bool := lex String.compare implb.

Lemma skey_leb_lex a b :
  skey_leb a b = lex znum_compare str_bool_leb (fst (fst a), (snd (fst a), snd a)) (fst (fst b), (snd (fst b), snd b)).
Proof. destruct a as [[n1 r1] d1], b as [[n2 r2] d2]. reflexivity. Qed.

Lemma str_bool_leb_total a b : str_bool_leb a b = true \/ str_bool_leb b a = true.
Proof. apply lex_total; [apply String.compare_antisym | apply implb_total]. Qed.
Lemma str_bool_leb_trans a b c :
  str_bool_leb a b = true -> str_bool_leb b c = true -> str_bool_leb a c = true.
Proof.
  apply lex_trans.
  - apply String.compare_antisym.
  - apply String.compare_eq_iff.
  - apply string_compare_lt_trans.
  - apply implb_trans.
Qed.

Theorem skey_leb_total a b : skey_leb a b = true \/ skey_leb b a = true.
Proof.
  rewrite !skey_leb_lex. apply lex_total; [apply znum_compare_antisym | apply str_bool_leb_total].
Qed.

Theorem skey_leb_trans a b c : skey_leb a b = true -> skey_leb b c = true -> skey_leb a c = true.
Proof.
  rewrite !skey_leb_lex. apply lex_trans.
  - apply znum_compare_antisym.
  - apply znum_compare_eq.
  - apply znum_compare_lt_trans.
  - apply str_bool_leb_trans.
Qed.

Lemma cfg_key_leb_lex a b : cfg_key_leb a b = lex znum_compare implb a b.
Proof. reflexivity. Qed.

Theorem cfg_key_leb_total a b : cfg_key_leb a b = true \/ cfg_key_leb b a = true.
Proof. rewrite !cfg_key_leb_lex. apply lex_total; [apply znum_compare_antisym | apply implb_total]. Qed.

Theorem cfg_key_leb_trans a b c :
  cfg_key_leb a b = true -> cfg_key_leb b c = true -> cfg_key_leb a c = true.
Proof.
  rewrite !cfg_key_leb_lex. apply lex_trans.
  - apply znum_compare_antisym.
  - apply znum_compare_eq.
  - apply znum_compare_lt_trans.
  - apply implb_trans.
Qed.

Section GetOrder.
  Variable rmatch : string -> string -> option (list string).
  Variable rsrc rrev : string -> string.
  Variable block_exit : string.

  Notation matches := (matches rmatch).
  Notation step := (get_order_step rmatch rsrc rrev block_exit).
  Notation get_order := (get_order rmatch rsrc rrev block_exit).

  (* the language of an ordering rule: rows it matches directly or in negated form *)
  Definition hits (r : orule) (row : string) : bool :=
    matches (o_pat r) row || matches (rrev (o_pat r)) row.
  Definition is_exit (row : string) : bool :=
    negb (is_empty block_exit) && String.eqb block_exit row.
  (* a rule that says nothing about [row] under scope [sc] *)
  Definition silent (row : string) (sc : option string) (r : orule) : bool :=
    negb (in_scope r sc) || negb (hits r row).

  Definition same_rank (a b : gstate) : Prop :=
    g_order a = g_order b /\ g_weight a = g_weight b /\ g_direct a = g_direct b.

  Lemma step_silent row sc st i r :
    silent row sc r = true -> is_exit row = false -> same_rank (step row sc st (i, r)) st.
  Proof.
    unfold silent, is_exit, same_rank, get_order_step. intros Hs Hx.
    destruct (in_scope r sc); cbn [negb]; [|auto].
    cbn [orb] in Hs. apply negb_true_iff in Hs. unfold hits in Hs.
    apply orb_false_iff in Hs. destruct Hs as [Hd Hr].
    rewrite Hd, Hr, Hx. cbn [orb]. rewrite !andb_false_r. cbn. auto.
  Qed.

  Lemma fold_silent row sc l : forall st,
    Forall (fun ir : nat * orule => silent row sc (snd ir) = true) l -> is_exit row = false ->
    same_rank (fold_left (step row sc) l st) st.
  Proof.
    induction l as [|[i r] l IH]; intros st Hall Hx; cbn [fold_left].
    - unfold same_rank. auto.
    - inversion Hall as [|x l' Hr Hl]; subst. cbn [snd] in Hr.
      destruct (IH (step row sc st (i, r)) Hl Hx) as (A1 & A2 & A3).
      destruct (step_silent row sc st i r Hr Hx) as (B1 & B2 & B3).
      unfold same_rank. rewrite A1, A2, A3. auto.
  Qed.

  Lemma enumerate_app {A} (l1 l2 : list A) : forall i,
    enumerate (l1 ++ l2) i = enumerate l1 i ++ enumerate l2 (i + List.length l1).
  Proof.
    induction l1 as [|x l1 IH]; intros i; cbn [enumerate app List.length].
    - rewrite Nat.add_0_r. reflexivity.
    - rewrite IH. replace (i + S (List.length l1)) with (S i + List.length l1) by lia. reflexivity.
  Qed.

  Lemma Forall_enumerate {A} (P : A -> Prop) (l : list A) : forall i,
    Forall P l -> Forall (fun ir : nat * A => P (snd ir)) (enumerate l i).
  Proof.
    induction l as [|x l IH]; intros i H; cbn [enumerate]; [constructor|].
    inversion H; subst. constructor; [assumption | apply IH; assumption].
  Qed.

  (* the value of get_order that matters for sorting: (order, direct) *)
  Definition rank_of (ordering : list orule) (row : string) (cd : bool) (sc : option string) : znum * bool :=
    fst (get_order ordering row cd sc).

  Lemma rank_of_fold ordering row cd sc :
    rank_of ordering row cd sc =
    let st := fold_left (step row sc) (enumerate ordering 0) (GS FNone 0 cd []) in
    (match g_order st with FNone => ZFin 0 | FFin n => ZFin (Z.of_nat n) | FInf => ZInf end, g_direct st).
  Proof. reflexivity. Qed.

  (* no rule mentions the row: order 0, direction untouched *)
  Theorem rank_unmentioned ordering row cd sc :
    Forall (fun r => silent row sc r = true) ordering -> is_exit row = false ->
    rank_of ordering row cd sc = (ZFin 0, cd).
  Proof.
    intros Hall Hx. rewrite rank_of_fold. cbv zeta.
    destruct (fold_silent row sc (enumerate ordering 0) (GS FNone 0 cd [])
                (Forall_enumerate _ ordering 0 Hall) Hx) as (A1 & _ & A3).
    rewrite A1, A3. reflexivity.
  Qed.

  (* exactly one rule of the level mentions the row *)
  Theorem rank_unique_hit pre r post row cd sc :
    Forall (fun r => silent row sc r = true) pre ->
    Forall (fun r => silent row sc r = true) post ->
    in_scope r sc = true -> hits r row = true -> is_exit row = false ->
    rank_of (pre ++ r :: post) row cd sc =
    if o_rev r
    then (if negb cd && matches (o_pat r) row then (ZFin (Z.of_nat (List.length pre)), true) else (ZFin 0, cd))
    else (ZFin (Z.of_nat (List.length pre)), cd).
  Proof.
    intros Hpre Hpost Hsc Hh Hx. rewrite rank_of_fold. cbv zeta.
    rewrite enumerate_app. cbn [enumerate]. rewrite fold_left_app. cbn [fold_left].
    set (st0 := fold_left (step row sc) (enumerate pre 0) (GS FNone 0 cd [])).
    destruct (fold_silent row sc (enumerate pre 0) (GS FNone 0 cd [])
                (Forall_enumerate _ pre 0 Hpre) Hx) as (A1 & A2 & A3).
    fold st0 in A1, A2, A3. cbn [g_order g_weight g_direct] in A1, A2, A3.
    set (st1 := step row sc st0 (0 + List.length pre, r)).
    destruct (fold_silent row sc (enumerate post (S (0 + List.length pre))) st1
                (Forall_enumerate _ post _ Hpost) Hx) as (B1 & _ & B3).
    rewrite B1, B3. clear B1 B3.
    unfold st1, get_order_step. rewrite Hsc. cbn [negb].
    unfold hits in Hh. unfold is_exit in Hx. rewrite Hx.
    destruct (o_rev r); cbn [negb andb].
    - rewrite A3. destruct (negb cd && matches (o_pat r) row) eqn:E.
      + rewrite A1. cbn [g_order g_direct]. reflexivity.
      + cbn [g_order g_direct]. rewrite A1. reflexivity.
    - rewrite Hh. rewrite A1. cbn [g_order g_direct]. rewrite A3. reflexivity.
  Qed.

  (* the vendor's block-exit word: last, whatever the rules, as soon as one rule is in scope
     and none mentions it *)
  Lemma fold_exit row sc l : forall st,
    is_exit row = true ->
    Forall (fun ir : nat * orule => silent row sc (snd ir) = true) l ->
    let st' := fold_left (step row sc) l st in
    g_order st' = (if existsb (fun ir : nat * orule => in_scope (snd ir) sc) l then FInf else g_order st) /\
    g_direct st' = (if existsb (fun ir : nat * orule => in_scope (snd ir) sc) l then true else g_direct st).
  Proof.
    induction l as [|[i r] l IH]; intros st Hx Hall; cbn [fold_left existsb]; [auto|].
    inversion Hall as [|x l' Hr Hl]; subst. cbn [snd] in Hr |- *.
    specialize (IH (step row sc st (i, r)) Hx Hl). cbv zeta in IH. destruct IH as [I1 I2].
    rewrite I1, I2. clear I1 I2.
    unfold get_order_step. unfold silent in Hr. unfold is_exit in Hx.
    destruct (in_scope r sc); cbn [negb orb] in *.
    - apply negb_true_iff in Hr. unfold hits in Hr. apply orb_false_iff in Hr. destruct Hr as [Hd Hv].
      rewrite Hd, Hv, Hx. cbn [orb]. rewrite !andb_false_r. cbn [g_order g_direct].
      destruct (existsb _ l); auto.
    - auto.
  Qed.

  Lemma existsb_enumerate {A} (f : A -> bool) (l : list A) : forall i,
    existsb (fun ir : nat * A => f (snd ir)) (enumerate l i) = existsb f l.
  Proof. induction l as [|x l IH]; intros i; cbn; [reflexivity|]. rewrite IH. reflexivity. Qed.

  Theorem rank_exit ordering row cd sc :
    is_exit row = true ->
    Forall (fun r => silent row sc r = true) ordering ->
    existsb (fun r => in_scope r sc) ordering = true ->
    rank_of ordering row cd sc = (ZInf, true).
  Proof.
    intros Hx Hall Hex. rewrite rank_of_fold. cbv zeta.
    destruct (fold_exit row sc (enumerate ordering 0) (GS FNone 0 cd []) Hx
                (Forall_enumerate (fun r => silent row sc r = true) ordering 0 Hall)) as [A1 A2].
    rewrite A1, A2, (existsb_enumerate (fun r => in_scope r sc)), Hex. reflexivity.
  Qed.

  (* rules of another scope are not looked at *)
  Lemma fold_out_of_scope row sc l : forall st,
    Forall (fun ir : nat * orule => in_scope (snd ir) sc = false) l ->
    fold_left (step row sc) l st = st.
  Proof.
    induction l as [|[i r] l IH]; intros st Hall; cbn [fold_left]; [reflexivity|].
    inversion Hall as [|x l' Hr Hl]; subst. cbn [snd] in Hr.
    unfold get_order_step at 2. rewrite Hr. cbn [negb]. apply IH. exact Hl.
  Qed.

  Theorem rank_out_of_scope ordering row cd sc :
    Forall (fun r => in_scope r sc = false) ordering -> rank_of ordering row cd sc = (ZFin 0, cd).
  Proof.
    intros Hall. rewrite rank_of_fold. cbv zeta.
    rewrite (fold_out_of_scope row sc _ _ (Forall_enumerate (fun r => in_scope r sc = false) ordering 0 Hall)).
    reflexivity.
  Qed.

  (* sibling rules with pairwise disjoint languages (within a scope) *)
  Definition disjoint_rules (ordering : list orule) (sc : option string) : Prop :=
    forall i j ri rj row,
      nth_error ordering i = Some ri -> nth_error ordering j = Some rj ->
      in_scope ri sc = true -> in_scope rj sc = true ->
      hits ri row = true -> hits rj row = true -> i = j.

  Lemma silent_of_disjoint ordering sc i r row :
    disjoint_rules ordering sc ->
    nth_error ordering i = Some r -> in_scope r sc = true -> hits r row = true ->
    forall j r', j <> i -> nth_error ordering j = Some r' -> silent row sc r' = true.
  Proof.
    intros Hd Hi Hsc Hh j r' Hne Hj. unfold silent.
    destruct (in_scope r' sc) eqn:S'; [|reflexivity].
    destruct (hits r' row) eqn:H'; [|reflexivity].
    exfalso. apply Hne. exact (Hd j i r' r row Hj Hi S' Hsc H' Hh).
  Qed.

  Theorem rank_disjoint ordering sc i r row cd :
    disjoint_rules ordering sc -> is_exit row = false ->
    nth_error ordering i = Some r -> in_scope r sc = true -> hits r row = true ->
    rank_of ordering row cd sc =
    if o_rev r
    then (if negb cd && matches (o_pat r) row then (ZFin (Z.of_nat i), true) else (ZFin 0, cd))
    else (ZFin (Z.of_nat i), cd).
  Proof.
    intros Hd Hx Hi Hsc Hh.
    destruct (nth_error_split ordering i Hi) as (pre & post & E & Hlen).
    pose proof (silent_of_disjoint ordering sc i r row Hd Hi Hsc Hh) as Hs.
    subst ordering. rewrite <- Hlen in *.
    apply rank_unique_hit; try assumption.
    - apply Forall_forall. intros r' Hin. apply In_nth_error in Hin. destruct Hin as [j Hj].
      assert (Hlt : j < List.length pre) by (apply nth_error_Some; congruence).
      apply (Hs j r'); [lia|]. rewrite nth_error_app1 by exact Hlt. exact Hj.
    - apply Forall_forall. intros r' Hin. apply In_nth_error in Hin. destruct Hin as [j Hj].
      apply (Hs (S (List.length pre + j)) r'); [lia|].
      rewrite nth_error_app2 by lia.
      replace (S (List.length pre + j) - List.length pre) with (S j) by lia. exact Hj.
  Qed.
End GetOrder.

(* ---------- small list facts ---------- *)

Lemma filter_map_swap {A B} (q : B -> bool) (g : A -> B) (l : list A) :
  filter q (map g l) = map g (filter (fun x => q (g x)) l).
Proof.
  induction l as [|x l IH]; cbn [map filter]; [reflexivity|].
  destruct (q (g x)); cbn [map]; rewrite IH; reflexivity.
Qed.

Lemma Permutation_flat_map_pointwise {A B} (h h' : A -> list B) (l : list A) :
  (forall x, In x l -> Permutation (h x) (h' x)) -> Permutation (flat_map h l) (flat_map h' l).
Proof.
  induction l as [|x l IH]; intros H; cbn [flat_map]; [constructor|].
  apply Permutation_app.
  - apply H. now left.
  - apply IH. intros y Hy. apply H. now right.
Qed.

(* paths of a forest as a flat_map over its top-level rows *)
Definition row_paths (pre : list string) (rc : string * tree) : list (list string) :=
  (pre ++ [fst rc]) :: paths_t (pre ++ [fst rc]) (snd rc).

Lemma paths_flat_map pre f : paths pre f = flat_map (row_paths pre) f.
Proof.
  induction f as [|[r c] f IH]; [reflexivity|].
  rewrite paths_cons, IH. cbn [flat_map]. unfold row_paths at 1. cbn [fst snd].
  destruct c as [k]. reflexivity.
Qed.

Section OrderConfig.
  Variable rmatch : string -> string -> option (list string).
  Variable rsrc rrev : string -> string.
  Variable block_exit : string.
  Variable reverse_prefix : string.

  Notation get_order := (get_order rmatch rsrc rrev block_exit).
  Notation oct := (order_config_t rmatch rsrc rrev block_exit reverse_prefix).
  Notation oc := (order_config rmatch rsrc rrev block_exit reverse_prefix).
  Notation rank_of := (rank_of rmatch rsrc rrev block_exit).

  Definition kleb (a b : (znum * bool) * (string * tree)) : bool := cfg_key_leb (fst a) (fst b).

  Lemma kleb_total a b : kleb a b = true \/ kleb b a = true.
  Proof. apply cfg_key_leb_total. Qed.
  Lemma kleb_trans a b c : kleb a b = true -> kleb b c = true -> kleb a c = true.
  Proof. apply cfg_key_leb_trans. Qed.

  (* a row is a command unless it starts with the vendor's negation word *)
  Definition row_direct (row : string) : bool := negb (startswith reverse_prefix row).
  (* the sort key of a row and the ordering rules handed to its children depend on the
     row alone (and the rules of the level): never on the position or on the siblings *)
  Definition row_key (ordering : list orule) (row : string) : znum * bool :=
    let r := rank_of ordering row (row_direct row) None in cfg_key (fst r) (snd r).
  Definition row_rb (ordering : list orule) (row : string) : list orule :=
    snd (get_order ordering row (row_direct row) None).
  Definition oc_item (ordering : list orule) (rc : string * tree) : (znum * bool) * (string * tree) :=
    (row_key ordering (fst rc), (fst rc, oct (row_rb ordering (fst rc)) (snd rc))).

  Lemma oct_unfold ordering kids :
    oct ordering (T kids) = T (map snd (stable_sort kleb (map (oc_item ordering) kids))).
  Proof.
    cbn [order_config_t]. f_equal. f_equal. f_equal.
    induction kids as [|[row c] l IH]; [reflexivity|].
    rewrite IH. cbn [map]. f_equal.
    unfold oc_item, row_key, row_rb, rank_of, OrderProofs.rank_of, row_direct. cbn [fst snd].
    destruct (get_order ordering row (negb (startswith reverse_prefix row)) None) as [[o d] rb].
    reflexivity.
  Qed.

  Lemma oc_unfold ordering f :
    oc ordering f = map snd (stable_sort kleb (map (oc_item ordering) f)).
  Proof. unfold order_config. rewrite oct_unfold. reflexivity. Qed.

  (* one level: the result is a permutation of the input rows, each carrying its own
     (recursively ordered) children *)
  Theorem oc_perm_level ordering f :
    Permutation (oc ordering f)
                (map (fun rc => (fst rc, oct (row_rb ordering (fst rc)) (snd rc))) f).
  Proof.
    rewrite oc_unfold.
    replace (map (fun rc => (fst rc, oct (row_rb ordering (fst rc)) (snd rc))) f)
      with (map snd (map (oc_item ordering) f)).
    - apply Permutation_map. apply sort_perm.
    - rewrite map_map. reflexivity.
  Qed.

  (* every depth: the multiset of root-to-row paths is preserved *)
  Theorem oct_paths_perm : forall t ordering pre,
    Permutation (paths_t pre (oct ordering t)) (paths_t pre t).
  Proof.
    apply (tree_ind2
             (fun t => forall ordering pre, Permutation (paths_t pre (oct ordering t)) (paths_t pre t))
             (fun f => forall r c, In (r, c) f ->
                        forall ordering pre, Permutation (paths_t pre (oct ordering c)) (paths_t pre c))).
    - intros k IH ordering pre.
      change (paths_t pre (T k)) with (paths pre k).
      change (paths_t pre (oct ordering (T k))) with (paths pre (oc ordering k)).
      rewrite !paths_flat_map.
      apply perm_trans with
          (flat_map (row_paths pre) (map (fun rc => (fst rc, oct (row_rb ordering (fst rc)) (snd rc))) k)).
      + apply Permutation_flat_map. apply oc_perm_level.
      + rewrite flat_map_concat_map, map_map, <- flat_map_concat_map.
        apply Permutation_flat_map_pointwise. intros [r c] Hin.
        unfold row_paths. cbn [fst snd]. apply perm_skip. apply (IH r c Hin).
    - intros r c [].
    - intros r t k IHt IHk r' c' [E|Hin].
      + injection E as E1 E2. subst. exact IHt.
      + exact (IHk r' c' Hin).
  Qed.

  Theorem oc_paths_perm ordering pre f :
    Permutation (paths pre (oc ordering f)) (paths pre f).
  Proof. apply (oct_paths_perm (T f)). Qed.

  (* every level of the result is sorted by the key *)
  Theorem oc_sorted ordering f :
    StronglySorted (fun a b => cfg_key_leb a b = true) (map (row_key ordering) (map fst (oc ordering f))).
  Proof.
    rewrite oc_unfold.
    assert (E : map (row_key ordering) (map fst (map snd (stable_sort kleb (map (oc_item ordering) f))))
                = map fst (stable_sort kleb (map (oc_item ordering) f))).
    { rewrite !map_map. apply map_ext_in. intros e He.
      apply (proj1 (sort_in kleb e _)) in He. apply in_map_iff in He.
      destruct He as (rc & E & _). subst e. reflexivity. }
    rewrite E.
    change kleb with (leb_on cfg_key_leb (@fst (znum * bool) (string * tree))).
    rewrite sort_map_key. apply (sort_sorted cfg_key_leb cfg_key_leb_total cfg_key_leb_trans).
  Qed.

  (* ordering an ordered configuration changes nothing *)
  Theorem oct_idem : forall t ordering, oct ordering (oct ordering t) = oct ordering t.
  Proof.
    apply (tree_ind2
             (fun t => forall ordering, oct ordering (oct ordering t) = oct ordering t)
             (fun f => forall r c, In (r, c) f -> forall ordering, oct ordering (oct ordering c) = oct ordering c)).
    - intros k IH ordering. rewrite !oct_unfold. f_equal. f_equal.
      set (S := stable_sort kleb (map (oc_item ordering) k)).
      assert (E : map (oc_item ordering) (map snd S) = S).
      { rewrite map_map. rewrite <- (map_id S) at 2. apply map_ext_in. intros e He.
        apply (proj1 (sort_in kleb e _)) in He. apply in_map_iff in He.
        destruct He as ([r c] & E & Hin). subst e. unfold oc_item. cbn [fst snd].
        rewrite (IH r c Hin). reflexivity. }
      rewrite E. apply (sort_idem kleb kleb_total kleb_trans).
    - intros r c [].
    - intros r t k IHt IHk r' c' [E|Hin].
      + injection E as E1 E2. subst. exact IHt.
      + exact (IHk r' c' Hin).
  Qed.

  Theorem oc_idem ordering f : oc ordering (oc ordering f) = oc ordering f.
  Proof.
    unfold order_config. 
    change (T (kids (oct ordering (T f)))) with (T (kids (oct ordering (T f)))).
    destruct (oct ordering (T f)) as [k] eqn:E. cbn [kids].
    rewrite <- E, oct_idem, E. reflexivity.
  Qed.

  (* rows selected by a predicate on the row text are ordered among themselves exactly as
     they would be without the other rows *)
  Theorem oc_filter_commute ordering (p : string -> bool) f :
    oc ordering (filter (fun rc => p (fst rc)) f) = filter (fun rc => p (fst rc)) (oc ordering f).
  Proof.
    rewrite !oc_unfold.
    rewrite filter_map_swap.
    replace (map (oc_item ordering) (filter (fun rc => p (fst rc)) f))
      with (filter (fun e => p (fst (snd e))) (map (oc_item ordering) f))
      by (rewrite filter_map_swap; reflexivity).
    rewrite (sort_filter_commute kleb kleb_total kleb_trans). reflexivity.
  Qed.

  (* ----- rows no rule mentions ----- *)
  Definition mentioned_g (ordering : list orule) (row : string) : bool :=
    existsb (fun r => in_scope r None && hits rmatch rrev r row) ordering ||
    (negb (is_empty block_exit) && String.eqb block_exit row &&
     negb (match ordering with [] => true | _ => false end)).

  Lemma unmentioned_key ordering row :
    mentioned_g ordering row = false -> row_key ordering row = (ZFin 0, row_direct row).
  Proof.
    unfold mentioned_g. intros H. apply orb_false_iff in H. destruct H as [H1 H2].
    unfold row_key.
    assert (Hs : Forall (fun r => silent rmatch rrev row None r = true) ordering).
    { apply Forall_forall. intros r Hin. unfold silent.
      destruct (in_scope r None) eqn:S1; [|reflexivity].
      destruct (hits rmatch rrev r row) eqn:S2; [|reflexivity].
      exfalso. assert (Hex : existsb (fun r => in_scope r None && hits rmatch rrev r row) ordering = true).
      { apply existsb_exists. exists r. split; [exact Hin|]. rewrite S1, S2. reflexivity. }
      congruence. }
    destruct ordering as [|r0 rest].
    - change (rank_of [] row (row_direct row) None) with (ZFin 0, row_direct row).
      cbn [fst snd cfg_key]. destruct (row_direct row); reflexivity.
    - cbn [negb] in H2. rewrite andb_true_r in H2.
      rewrite (rank_unmentioned rmatch rsrc rrev block_exit (r0 :: rest) row (row_direct row) None Hs H2).
      cbn [fst snd cfg_key]. destruct (row_direct row); reflexivity.
  Qed.

  (* among the rows no rule mentions, those of the same kind (commands / negated commands)
     keep their relative order *)
  Theorem oc_unmentioned_stable_by_kind ordering (b : bool) f :
    let sel := fun rc : string * tree =>
                 negb (mentioned_g ordering (fst rc)) && Bool.eqb (row_direct (fst rc)) b in
    map fst (filter sel (oc ordering f)) = map fst (filter sel f).
  Proof.
    intros sel.
    change sel with (fun rc : string * tree =>
                       (fun row => negb (mentioned_g ordering row) && Bool.eqb (row_direct row) b) (fst rc)).
    rewrite <- oc_filter_commute. rewrite oc_unfold.
    rewrite sort_one_class.
    - rewrite !map_map. reflexivity.
    - intros x y Hx Hy. apply in_map_iff in Hx, Hy.
      destruct Hx as (rx & Ex & Hx), Hy as (ry & Ey & Hy). subst x y.
      apply filter_In in Hx, Hy. destruct Hx as [_ Hx], Hy as [_ Hy].
      apply andb_true_iff in Hx, Hy. destruct Hx as [Ux Dx], Hy as [Uy Dy].
      apply negb_true_iff in Ux, Uy. apply eqb_prop in Dx, Dy.
      unfold kleb, oc_item. cbn [fst].
      rewrite (unmentioned_key _ _ Ux), (unmentioned_key _ _ Uy), Dx, Dy.
      unfold cfg_key_leb. cbn. destruct b; reflexivity.
  Qed.

  (* the statement of the property holds as soon as no unmentioned row is a negated one *)
  Theorem oc_unmentioned_stable ordering f :
    (forall rc, In rc f -> mentioned_g ordering (fst rc) = false -> row_direct (fst rc) = true) ->
    map fst (filter (fun rc => negb (mentioned_g ordering (fst rc))) (oc ordering f)) =
    map fst (filter (fun rc => negb (mentioned_g ordering (fst rc))) f).
  Proof.
    intros H.
    pose proof (oc_unmentioned_stable_by_kind ordering true f) as K. cbv zeta in K.
    assert (Hrows : forall rc, In rc (oc ordering f) -> exists rc', In rc' f /\ fst rc' = fst rc).
    { intros rc Hin. apply (Permutation_in rc (oc_perm_level ordering f)) in Hin.
      apply in_map_iff in Hin. destruct Hin as (rc' & E & Hin'). exists rc'. split; [exact Hin'|].
      subst rc. reflexivity. }
    rewrite (filter_ext_in (fun rc => negb (mentioned_g ordering (fst rc)))
                           (fun rc => negb (mentioned_g ordering (fst rc)) && Bool.eqb (row_direct (fst rc)) true)
                           (oc ordering f)).
    - rewrite K. f_equal. apply filter_ext_in. intros rc Hin.
      destruct (mentioned_g ordering (fst rc)) eqn:M; [reflexivity|].
      rewrite (H rc Hin M). reflexivity.
    - intros rc Hin. destruct (Hrows rc Hin) as (rc' & Hin' & E).
      destruct (mentioned_g ordering (fst rc)) eqn:M; [reflexivity|].
      rewrite <- E in M |- *. rewrite (H rc' Hin' M). reflexivity.
  Qed.
End OrderConfig.

(* ---------- patch trees ---------- *)

Section PtreeInd.
  Variable P : ptree -> Prop.
  Definition child_ok (i : item) : Prop :=
    match snd (fst i) with Some c => P c | None => True end.
  Hypothesis HPT : forall items, Forall child_ok items -> P (PT items).
  Fixpoint ptree_ind2 (p : ptree) : P p :=
    match p with
    | PT items =>
      HPT items ((fix go (l : list item) : Forall child_ok l :=
                    match l with
                    | [] => Forall_nil _
                    | i :: l' =>
                      Forall_cons i
                        (match i as i0 return child_ok i0 with
                         | (r, Some c, k) => ptree_ind2 c
                         | (r, None, k) => I
                         end) (go l')
                    end) items)
    end.
End PtreeInd.

Definition srt_item (i : item) : item := (fst (fst i), option_map sort_rec (snd (fst i)), snd i).
Definition ileb (a b : item) : bool := skey_leb (snd a) (snd b).

Lemma ileb_total a b : ileb a b = true \/ ileb b a = true.
Proof. apply skey_leb_total. Qed.
Lemma ileb_trans a b c : ileb a b = true -> ileb b c = true -> ileb a c = true.
Proof. apply skey_leb_trans. Qed.

Lemma sort_rec_unfold items : sort_rec (PT items) = PT (stable_sort ileb (map srt_item items)).
Proof. reflexivity. Qed.

Lemma sort_items_ileb l : sort_items l = stable_sort ileb l.
Proof. reflexivity. Qed.

Lemma sorted_keys_sortedb l : sorted_keys l = sortedb skey_leb l.
Proof.
  induction l as [|a l IH]; [reflexivity|].
  destruct l as [|b r]; [reflexivity|].
  cbn [sorted_keys sortedb] in *. rewrite IH. reflexivity.
Qed.

Lemma srt_item_key i : snd (srt_item i) = snd i.
Proof. reflexivity. Qed.

(* every level of the reference is sorted *)
Theorem sort_rec_sorted : forall u, sorted_ok (sort_rec u) = true.
Proof.
  apply ptree_ind2. intros items IH. rewrite sort_rec_unfold. cbn [sorted_ok].
  apply andb_true_iff. split.
  - rewrite sorted_keys_sortedb.
    change ileb with (leb_on skey_leb (@snd (string * option ptree) skey)).
    rewrite sort_map_key. apply (sort_sortedb skey_leb skey_leb_total skey_leb_trans).
  - apply forallb_forall. intros i Hi. apply (proj1 (sort_in ileb i _)) in Hi.
    apply in_map_iff in Hi. destruct Hi as (j & E & Hj). subst i.
    unfold srt_item. cbn [fst snd].
    pose proof (proj1 (Forall_forall _ _) IH j Hj) as Hc. unfold child_ok in Hc.
    destruct (snd (fst j)) as [c|]; cbn [option_map]; [exact Hc | reflexivity].
Qed.

Definition ipaths (pre : list string) (i : item) : list (list string) :=
  (pre ++ [fst (fst i)]) ::
  match snd (fst i) with Some c => all_paths (pre ++ [fst (fst i)]) c | None => [] end.

Lemma all_paths_unfold pre items : all_paths pre (PT items) = flat_map (ipaths pre) items.
Proof. reflexivity. Qed.

(* the multiset of root-to-command paths is that of the unsorted patch: nothing lost,
   nothing duplicated, every child still under its own parent *)
Theorem sort_rec_paths_perm : forall u pre, Permutation (all_paths pre (sort_rec u)) (all_paths pre u).
Proof.
  apply (ptree_ind2 (fun u => forall pre, Permutation (all_paths pre (sort_rec u)) (all_paths pre u))).
  intros items IH pre. rewrite sort_rec_unfold, !all_paths_unfold.
  apply perm_trans with (flat_map (ipaths pre) (map srt_item items)).
  - apply Permutation_flat_map. apply sort_perm.
  - rewrite flat_map_concat_map, map_map, <- flat_map_concat_map.
    apply Permutation_flat_map_pointwise. intros j Hj.
    pose proof (proj1 (Forall_forall _ _) IH j Hj) as Hc. unfold child_ok in Hc.
    unfold ipaths, srt_item. cbn [fst snd]. apply perm_skip.
    destruct (snd (fst j)) as [c|]; cbn [option_map]; [apply Hc | constructor].
Qed.

(* one level: the items are a permutation of the unsorted items (children sorted in place) *)
Theorem sort_rec_perm_level items :
  Permutation (pitems (sort_rec (PT items))) (map srt_item items).
Proof. rewrite sort_rec_unfold. cbn [pitems]. apply sort_perm. Qed.

Theorem sort_rec_idem : forall u, sort_rec (sort_rec u) = sort_rec u.
Proof.
  apply ptree_ind2. intros items IH. rewrite !sort_rec_unfold. f_equal.
  set (S := stable_sort ileb (map srt_item items)).
  assert (E : map srt_item S = S).
  { rewrite <- (map_id S) at 2. apply map_ext_in. intros e He.
    apply (proj1 (sort_in ileb e _)) in He. apply in_map_iff in He.
    destruct He as (j & E & Hj). subst e.
    pose proof (proj1 (Forall_forall _ _) IH j Hj) as Hc. unfold child_ok in Hc.
    unfold srt_item. cbn [fst snd]. destruct (snd (fst j)) as [c|]; cbn [option_map]; [|reflexivity].
    rewrite Hc. reflexivity. }
  rewrite E. apply (sort_idem ileb ileb_total ileb_trans).
Qed.

Lemma sort_rec_leaf {A} (u : ptree) (x y : A) :
  match pitems (sort_rec u) with [] => x | _ :: _ => y end =
  match pitems u with [] => x | _ :: _ => y end.
Proof.
  destruct u as [items]. rewrite sort_rec_unfold. cbn [pitems].
  pose proof (sort_length ileb (map srt_item items)) as L. rewrite map_length in L.
  destruct items as [|i items]; destruct (stable_sort ileb _) as [|e s]; cbn [List.length] in L;
    try reflexivity; discriminate.
Qed.

(* ---------- make_patch = sort_rec of the unsorted patch ---------- *)

Section PreInd.
  Variable P : pre -> Prop.
  Hypothesis HPre : forall groups : list pgroup,
      Forall (fun g : pgroup =>
                Forall (fun k : list string * list pitem =>
                          Forall (fun it : pitem => P (snd it)) (snd k)) (snd g)) groups ->
      P (Pre groups).
  Fixpoint pre_ind2 (p : pre) : P p :=
    match p with
    | Pre groups =>
      HPre groups
        ((fix go1 (gs : list pgroup) :
            Forall (fun g : pgroup =>
                      Forall (fun k : list string * list pitem =>
                                Forall (fun it : pitem => P (snd it)) (snd k)) (snd g)) gs :=
            match gs with
            | [] => Forall_nil _
            | g :: gs' =>
              Forall_cons g
                ((fix go2 (ks : pkeys) :
                    Forall (fun k : list string * list pitem =>
                              Forall (fun it : pitem => P (snd it)) (snd k)) ks :=
                    match ks with
                    | [] => Forall_nil _
                    | k :: ks' =>
                      Forall_cons k
                        ((fix go3 (its : list pitem) : Forall (fun it : pitem => P (snd it)) its :=
                            match its with
                            | [] => Forall_nil _
                            | it :: its' => Forall_cons it (pre_ind2 (snd it)) (go3 its')
                            end) (snd k))
                        (go2 ks')
                    end) (snd g))
                (go1 gs')
            end) groups)
    end.
End PreInd.

Lemma Forall2_map_same {A B C} (R : B -> C -> Prop) (f : A -> B) (g : A -> C) (l : list A) :
  Forall (fun x => R (f x) (g x)) l -> Forall2 R (map f l) (map g l).
Proof. induction 1; cbn [map]; constructor; assumption. Qed.

(* run_logic is parametric in the children closures: related inputs give related outputs,
   for any relation [Rck] on closures *)
Section RelGen.
  Variable rreverse : string -> list string -> string.
  Variable Rck : ckpre -> ckpre -> Prop.

  Definition crel (a b : citem) : Prop :=
    fst (fst (fst a)) = fst (fst (fst b)) /\ snd (fst (fst a)) = snd (fst (fst b)) /\
    Rck (snd (fst a)) (snd (fst b)) /\ snd a = snd b.
  Definition subrel (a b : option (ckpre * bool)) : Prop :=
    match a, b with
    | None, None => True
    | Some (c, n), Some (c', n') => Rck c c' /\ n = n'
    | _, _ => False
    end.
  Definition yrel (a b : bool * string * option (ckpre * bool)) : Prop :=
    fst (fst a) = fst (fst b) /\ snd (fst a) = snd (fst b) /\ subrel (snd a) (snd b).
  Definition orel {X} (R : X -> X -> Prop) (a b : option X) : Prop :=
    match a, b with
    | None, None => True
    | Some x, Some y => R x y
    | _, _ => False
    end.

  Lemma bucket_rel o a b : Forall2 crel a b -> Forall2 crel (bucket o a) (bucket o b).
  Proof.
    unfold bucket. induction 1 as [|x y a b Hxy Hab IH]; cbn [filter]; [constructor|].
    destruct Hxy as (E1 & E2 & E3 & E4). rewrite <- E1.
    destruct (op_eqb (fst (fst (fst x))) o); [constructor; [repeat split; assumption|exact IH] | exact IH].
  Qed.

  Lemma Forall2_len {X} (R : X -> X -> Prop) a b : Forall2 R a b -> List.length a = List.length b.
  Proof. induction 1; cbn; congruence. Qed.

  Ltac inv2 H := inversion H; subst; clear H.

  Lemma default_b_rel raw key a a' r r' f f' m m' :
    Forall2 crel a a' -> Forall2 crel r r' -> Forall2 crel f f' -> Forall2 crel m m' ->
    orel (Forall2 yrel) (default_b rreverse raw key a r f m) (default_b rreverse raw key a' r' f' m').
  Proof.
    intros Ha Hr Hf Hm. unfold default_b.
    rewrite <- (Forall2_len _ _ _ Ha), <- (Forall2_len _ _ _ Hr), <- (Forall2_len _ _ _ Hf),
            <- (Forall2_len _ _ _ Hm).
    destruct (_ || _ || _ || _); [exact I|].
    assert (Y : forall x y : citem, crel x y ->
                yrel (true, snd (fst (fst x)), Some (snd (fst x), snd x))
                     (true, snd (fst (fst y)), Some (snd (fst y), snd y))).
    { intros x y (E1 & E2 & E3 & E4). repeat split; cbn; assumption. }
    destruct Hf as [|x y f f' Hxy _].
    - destruct Ha as [|x y a a' Hxy _].
      + destruct Hm as [|x y m m' Hxy _].
        * destruct Hr as [|x y r r' Hxy _]; cbn; [constructor|].
          constructor; [|constructor]. repeat split; cbn; auto.
        * destruct x as [[[o1 r1] c1] n1], y as [[[o2 r2] c2] n2]. cbn.
          constructor; [|constructor]. exact (Y _ _ Hxy).
      + destruct x as [[[o1 r1] c1] n1], y as [[[o2 r2] c2] n2]. cbn.
        constructor; [|constructor]. exact (Y _ _ Hxy).
    - destruct x as [[[o1 r1] c1] n1], y as [[[o2 r2] c2] n2]. cbn.
      constructor; [|constructor]. exact (Y _ _ Hxy).
  Qed.

  Lemma orel_Forall2_app {X} (R : X -> X -> Prop) a a' b b' :
    orel (Forall2 R) a a' -> orel (Forall2 R) b b' ->
    orel (Forall2 R)
         (match a, b with Some x, Some y => Some (x ++ y) | _, _ => None end)
         (match a', b' with Some x, Some y => Some (x ++ y) | _, _ => None end).
  Proof.
    destruct a, a', b, b'; cbn; try tauto. intros H1 H2. apply Forall2_app; assumption.
  Qed.

  Lemma run_logic_rel raw key L its its' :
    Forall2 crel its its' ->
    orel (Forall2 yrel) (run_logic rreverse raw key L its) (run_logic rreverse raw key L its').
  Proof.
    intros H. unfold run_logic.
    pose proof (bucket_rel Added _ _ H) as Ha. pose proof (bucket_rel Removed _ _ H) as Hr.
    pose proof (bucket_rel Affected _ _ H) as Hf. pose proof (bucket_rel Moved _ _ H) as Hm.
    pose proof (default_b_rel raw key _ _ _ _ _ _ _ _ Ha Hr Hf Hm) as D.
    destruct L.
    - exact D.
    - destruct (default_b _ _ _ _ _ _ _) as [y|], (default_b _ _ _ _ _ _ _) as [y'|]; cbn in D |- *; try tauto.
      destruct Hm; [exact D|]. constructor; [|exact D]. repeat split; cbn; auto.
    - destruct Hr; [exact D | cbn; constructor].
    - destruct Hr as [|x y r r' Hxy Hrr]; [exact D|].
      destruct x as [[[o1 r1] c1] n1], y as [[[o2 r2] c2] n2].
      destruct Hxy as (E1 & E2 & E3 & E4). cbn in E4. subst n2.
      destruct n1; [|cbn; constructor].
      apply default_b_rel; try assumption; [constructor|].
      apply Forall2_app; [assumption|]. constructor; [|assumption]. repeat split; assumption.
    - destruct Ha as [|xa ya a a' Hxa Haa]; [exact D|].
      destruct Hr as [|xr yr r r' Hxr Hrr]; [exact D|]. cbn. constructor.
    - destruct Ha as [|xa ya a a' Hxa Haa]; [exact D|].
      destruct Hr as [|xr yr r r' Hxr Hrr]; [exact D|].
      destruct Hf as [|xf yf f f' Hxf Hff]; [|exact D].
      apply orel_Forall2_app; apply default_b_rel; constructor; assumption.
  Qed.

End RelGen.

Section Rel.
  Variable rmatch : string -> string -> option (list string).
  Variable rsrc rrev : string -> string.
  Variable block_exit : string.
  Variable rreverse : string -> list string -> string.

  (* a closure computing a sorted sub-patch vs. one computing the unsorted sub-patch *)
  Definition Rck (cs cu : ckpre) : Prop :=
    forall ord, match cu ord with
                | PErr => cs ord = PErr
                | POk u => cs ord = POk (sort_rec u)
                end.
  Notation crel := (crel Rck).
  Notation yrel := (yrel Rck).
  Notation subrel := (subrel Rck).

  (* the accumulated item lists: sorted-children version = srt_item of the unsorted one *)
  Definition accrel (a b : option (list item)) : Prop :=
    match a, b with
    | None, None => True
    | Some s, Some u => s = map srt_item u
    | _, _ => False
    end.

  Lemma yield_step_rel ordering raw a acc acc' y y' :
    accrel acc acc' -> yrel y y' ->
    accrel (yield_step rmatch rsrc rrev block_exit ordering raw a acc y)
           (yield_step rmatch rsrc rrev block_exit ordering raw a acc' y').
  Proof.
    intros Hacc Hy. destruct y as [[d row] sub], y' as [[d' row'] sub'].
    destruct Hy as (E1 & E2 & Hs). cbn in E1, E2, Hs. subst d' row'.
    unfold yield_step.
    destruct acc as [out|], acc' as [out'|]; cbn in Hacc; try tauto. subst out.
    destruct (get_order rmatch rsrc rrev block_exit ordering row d (Some "patch"%string)) as [[order odirect] ord'].
    set (sk := (match order with ZFin z => ZFin (if odirect then z else (- z)%Z) | ZInf => ZInf end, raw, odirect)).
    assert (Hdone : forall ct : ptree,
               accrel
                 (Some (map srt_item out' ++
                        (if (match pitems (sort_rec ct) with [] => negb (a_parent a) | _ :: _ => false end) || negb d
                         then (row, None, sk) else (row, Some (sort_rec ct), sk))
                        :: (if a_force_commit a then [("commit"%string, None, sk)] else [])))
                 (Some (out' ++
                        (if (match pitems ct with [] => negb (a_parent a) | _ :: _ => false end) || negb d
                         then (row, None, sk) else (row, Some ct, sk))
                        :: (if a_force_commit a then [("commit"%string, None, sk)] else [])))).
    { intros ct. cbn [accrel]. rewrite sort_rec_leaf, map_app. cbn [map]. f_equal. f_equal.
      - destruct (_ || negb d); reflexivity.
      - destruct (a_force_commit a); reflexivity. }
    destruct sub as [[c n]|], sub' as [[c' n']|]; cbn in Hs; try tauto.
    - destruct Hs as [Hc En]. subst n'. destruct n.
      + specialize (Hc ord'). destruct (c' ord') as [u|].
        * rewrite Hc. apply Hdone.
        * rewrite Hc. exact I.
      + apply (Hdone (PT [])).
    - apply (Hdone (PT [])).
  Qed.

  Lemma fold_yield_rel ordering raw a ys ys' : Forall2 yrel ys ys' -> forall acc acc',
    accrel acc acc' ->
    accrel (fold_left (yield_step rmatch rsrc rrev block_exit ordering raw a) ys acc)
           (fold_left (yield_step rmatch rsrc rrev block_exit ordering raw a) ys' acc').
  Proof.
    induction 1 as [|y y' ys ys' Hy Hys IH]; intros acc acc' Hacc; cbn [fold_left]; [exact Hacc|].
    apply IH. apply yield_step_rel; assumption.
  Qed.

  Definition frel (e e' : string * attrs * list string * list citem) : Prop :=
    fst (fst (fst e)) = fst (fst (fst e')) /\ snd (fst (fst e)) = snd (fst (fst e')) /\
    snd (fst e) = snd (fst e') /\ Forall2 crel (snd e) (snd e').

  Lemma group_step_rel ordering acc acc' e e' :
    accrel acc acc' -> frel e e' ->
    accrel (group_step rmatch rsrc rrev block_exit rreverse ordering acc e)
           (group_step rmatch rsrc rrev block_exit rreverse ordering acc' e').
  Proof.
    intros Hacc He. destruct e as [[[raw a] key] its], e' as [[[raw' a'] key'] its'].
    destruct He as (E1 & E2 & E3 & Hits). cbn in E1, E2, E3, Hits. subst raw' a' key'.
    unfold group_step.
    destruct acc as [out|], acc' as [out'|]; cbn in Hacc; try tauto.
    pose proof (run_logic_rel rreverse Rck (a_pat a) key (a_logic a) its its' Hits) as HL.
    destruct (run_logic rreverse (a_pat a) key (a_logic a) its) as [ys|],
             (run_logic rreverse (a_pat a) key (a_logic a) its') as [ys'|]; cbn in HL; try tauto.
    apply fold_yield_rel; assumption.
  Qed.

  Lemma fold_group_rel ordering fl fl' : Forall2 frel fl fl' -> forall acc acc',
    accrel acc acc' ->
    accrel (fold_left (group_step rmatch rsrc rrev block_exit rreverse ordering) fl acc)
           (fold_left (group_step rmatch rsrc rrev block_exit rreverse ordering) fl' acc').
  Proof.
    induction 1 as [|e e' fl fl' He Hfl IH]; intros acc acc' Hacc; cbn [fold_left]; [exact Hacc|].
    apply IH. apply group_step_rel; assumption.
  Qed.

  Definition krel (k k' : list string * list citem) : Prop :=
    fst k = fst k' /\ Forall2 crel (snd k) (snd k').
  Definition grel (g g' : string * attrs * list (list string * list citem)) : Prop :=
    fst (fst g) = fst (fst g') /\ snd (fst g) = snd (fst g') /\ Forall2 krel (snd g) (snd g').

  Lemma flat_groups_rel gs gs' : Forall2 grel gs gs' -> Forall2 frel (flat_groups gs) (flat_groups gs').
  Proof.
    unfold flat_groups. induction 1 as [|g g' gs gs' Hg Hgs IH]; cbn [flat_map]; [constructor|].
    apply Forall2_app; [|exact IH].
    destruct g as [[raw a] ks], g' as [[raw' a'] ks']. destruct Hg as (E1 & E2 & Hks).
    cbn in E1, E2, Hks. subst raw' a'.
    induction Hks as [|k k' ks ks' Hk Hks IHk]; cbn [map]; constructor; [|exact IHk].
    destruct Hk as [Ek Hits]. repeat split; cbn; assumption.
  Qed.

  Lemma patch_level_rel gs gs' ordering :
    Forall2 grel gs gs' ->
    match patch_level_u rmatch rsrc rrev block_exit rreverse gs' ordering with
    | PErr => patch_level rmatch rsrc rrev block_exit rreverse gs ordering = PErr
    | POk u => patch_level rmatch rsrc rrev block_exit rreverse gs ordering = POk (sort_rec u)
    end.
  Proof.
    intros H.
    change (patch_level rmatch rsrc rrev block_exit rreverse gs ordering)
      with (match patch_items rmatch rsrc rrev block_exit rreverse gs ordering with
            | None => PErr
            | Some out => POk (PT (sort_items out))
            end).
    unfold patch_level_u, patch_items.
    pose proof (fold_group_rel ordering _ _ (flat_groups_rel _ _ H) (Some []) (Some []) eq_refl) as A.
    destruct (fold_left _ (flat_groups gs) _) as [s|], (fold_left _ (flat_groups gs') _) as [u|];
      cbn in A; try tauto.
    subst s. rewrite sort_rec_unfold. reflexivity.
  Qed.

  (* make_patch is the recursive stable sort of the unsorted patch, and fails exactly when
     the unsorted construction fails *)
  Theorem make_patch_sort_rec : forall p,
    Rck (make_patch rmatch rsrc rrev block_exit rreverse p)
        (make_patch_u rmatch rsrc rrev block_exit rreverse p).
  Proof.
    apply pre_ind2. intros groups IH ord.
    change (make_patch rmatch rsrc rrev block_exit rreverse (Pre groups))
      with (patch_level rmatch rsrc rrev block_exit rreverse
                        (close_groups (make_patch rmatch rsrc rrev block_exit rreverse) groups)).
    change (make_patch_u rmatch rsrc rrev block_exit rreverse (Pre groups))
      with (patch_level_u rmatch rsrc rrev block_exit rreverse
                          (close_groups (make_patch_u rmatch rsrc rrev block_exit rreverse) groups)).
    apply patch_level_rel. unfold close_groups.
    apply Forall2_map_same. apply Forall_forall. intros [[raw a] ks] Hg.
    pose proof (proj1 (Forall_forall _ _) IH _ Hg) as IHk. cbn [snd] in IHk.
    repeat split. cbn [snd].
    apply Forall2_map_same. apply Forall_forall. intros k Hk.
    pose proof (proj1 (Forall_forall _ _) IHk _ Hk) as IHi.
    split; [reflexivity|]. cbn [snd].
    apply Forall2_map_same. apply Forall_forall. intros [[o row] ch] Hit.
    pose proof (proj1 (Forall_forall _ _) IHi _ Hit) as IHc. cbn [snd] in IHc.
    repeat split. exact IHc.
  Qed.
End Rel.

(* ---------- no inversion in a sorted level ---------- *)
Definition knum (i : item) : znum := fst (fst (snd i)).

Lemma skey_leb_num a b : skey_leb a b = true -> znum_compare (fst (fst a)) (fst (fst b)) <> Gt.
Proof.
  destruct a as [[n1 r1] d1], b as [[n2 r2] d2]. cbn [skey_leb fst].
  destruct (znum_compare n1 n2); intros H; congruence.
Qed.

Lemma skey_num_lt a b : znum_compare (fst (fst a)) (fst (fst b)) = Lt ->
  skey_leb a b = true /\ skey_leb b a = false.
Proof.
  destruct a as [[n1 r1] d1], b as [[n2 r2] d2]. cbn [skey_leb fst]. intros H.
  rewrite H. rewrite znum_compare_antisym, H. cbn. auto.
Qed.

Theorem sorted_no_inversion (l l1 l2 l3 : list item) a b :
  StronglySorted (le ileb) l -> l = l1 ++ a :: l2 ++ b :: l3 ->
  znum_compare (knum b) (knum a) <> Lt.
Proof.
  intros Hs E. subst l. induction l1 as [|x l1 IH]; cbn [app] in Hs.
  - inversion Hs as [|a' t Hst Hall]; subst.
    assert (Hb : ileb a b = true).
    { apply (proj1 (Forall_forall _ _) Hall). apply in_or_app. right. now left. }
    apply skey_leb_num in Hb. unfold knum. rewrite znum_compare_antisym.
    destruct (znum_compare (fst (fst (snd a))) (fst (fst (snd b)))); cbn; congruence.
  - inversion Hs; subst. apply IH. assumption.
Qed.

(* ---------- the rules handed down to a block's children ---------- *)
Section Children.
  Variable rmatch : string -> string -> option (list string).
  Variable rsrc rrev : string -> string.
  Variable block_exit : string.
  Notation step := (get_order_step rmatch rsrc rrev block_exit).
  Notation get_order := (get_order rmatch rsrc rrev block_exit).

  Lemma fold_silent_children row sc l : forall st,
    Forall (fun ir : nat * orule => silent rmatch rrev row sc (snd ir) = true) l ->
    is_exit block_exit row = false ->
    g_children (fold_left (step row sc) l st) = g_children st ++ globals_of sc (map snd l).
  Proof.
    induction l as [|[i r] l IH]; intros st Hall Hx; cbn [fold_left map globals_of filter].
    - rewrite app_nil_r. reflexivity.
    - inversion Hall as [|x l' Hr Hl]; subst. cbn [snd] in Hr |- *.
      rewrite (IH _ Hl Hx). clear IH. fold (globals_of sc (map snd l)).
      unfold get_order_step, silent, is_exit in *.
      destruct (in_scope r sc); cbn [negb orb andb] in *.
      + apply negb_true_iff in Hr. unfold hits in Hr. apply orb_false_iff in Hr. destruct Hr as [Hd Hv].
        rewrite Hd, Hv, Hx. cbn [orb]. rewrite !andb_false_r. cbn [g_children].
        destruct (o_glob r); [rewrite <- app_assoc|]; reflexivity.
      + reflexivity.
  Qed.

  Lemma map_snd_enumerate {X} (l : list X) : forall i, map snd (enumerate l i) = l.
  Proof. induction l as [|x l IH]; intros i; cbn; [reflexivity|]. rewrite IH. reflexivity. Qed.

  (* a command matched by exactly one (ordinary) rule: its children are ordered by the
     %global rules of the level and by that rule's own children, in rulebook order *)
  Theorem children_unique_hit pre r post row cd sc :
    Forall (fun r => silent rmatch rrev row sc r = true) pre ->
    Forall (fun r => silent rmatch rrev row sc r = true) post ->
    in_scope r sc = true -> hits rmatch rrev r row = true -> is_exit block_exit row = false ->
    o_rev r = false ->
    snd (get_order (pre ++ r :: post) row cd sc) =
    odict_of (globals_of sc pre ++ (if o_glob r then [r] else []) ++ o_kids r ++ globals_of sc post) [].
  Proof.
    intros Hpre Hpost Hsc Hh Hx Hrev. unfold Order.get_order. cbn [snd]. f_equal.
    rewrite enumerate_app. cbn [enumerate]. rewrite fold_left_app. cbn [fold_left].
    rewrite (fold_silent_children row sc _ _ (Forall_enumerate _ post _ Hpost) Hx).
    rewrite map_snd_enumerate.
    set (st0 := fold_left (step row sc) (enumerate pre 0) (GS FNone 0 cd [])).
    assert (C0 : g_children st0 = globals_of sc pre).
    { unfold st0. rewrite (fold_silent_children row sc _ _ (Forall_enumerate _ pre _ Hpre) Hx).
      rewrite map_snd_enumerate. reflexivity. }
    unfold get_order_step. rewrite Hsc, Hrev. cbn [negb andb]. unfold hits in Hh. rewrite Hh.
    cbn [g_children]. rewrite C0.
    destruct (o_glob r); rewrite <- ?app_assoc; reflexivity.
  Qed.

  Theorem children_unmentioned ordering row cd sc :
    Forall (fun r => silent rmatch rrev row sc r = true) ordering ->
    is_exit block_exit row = false ->
    snd (get_order ordering row cd sc) = odict_of (globals_of sc ordering) [].
  Proof.
    intros Hall Hx. unfold Order.get_order. cbn [snd]. f_equal.
    rewrite (fold_silent_children row sc _ _ (Forall_enumerate _ ordering 0 Hall) Hx).
    rewrite map_snd_enumerate. reflexivity.
  Qed.
End Children.

(* ---------- the keys make_patch sorts by are get_order's ---------- *)
Definition patch_key (raw : string) (r : znum * bool) : skey :=
  (match fst r with ZFin z => ZFin (if snd r then z else Z.opp z) | ZInf => ZInf end, raw, snd r).

Section Keys.
  Variable rmatch : string -> string -> option (list string).
  Variable rsrc rrev : string -> string.
  Variable block_exit : string.
  Variable rreverse : string -> list string -> string.
  Notation rank_of := (rank_of rmatch rsrc rrev block_exit).

  (* an item carries the key of a command of this level: its own, or (the "commit"
     pseudo-command of %force_commit) that of the command it follows *)
  Definition key_ok (ordering : list orule) (i : item) : Prop :=
    exists row cd raw,
      snd i = patch_key raw (rank_of ordering row cd (Some "patch"%string)) /\
      (fst (fst i) = row \/ fst (fst i) = "commit"%string).

  Lemma yield_step_keys ordering raw a acc y out :
    (forall o, acc = Some o -> Forall (key_ok ordering) o) ->
    yield_step rmatch rsrc rrev block_exit ordering raw a acc y = Some out ->
    Forall (key_ok ordering) out.
  Proof.
    intros Hacc H. destruct y as [[d row] sub]. unfold yield_step in H.
    destruct acc as [o|]; [|discriminate]. specialize (Hacc o eq_refl).
    pose proof (eq_refl : rank_of ordering row d (Some "patch"%string) =
                          fst (get_order rmatch rsrc rrev block_exit ordering row d (Some "patch"%string))) as R.
    destruct (get_order rmatch rsrc rrev block_exit ordering row d (Some "patch"%string)) as [[order odirect] ord'].
    cbn [fst] in R.
    destruct (match sub with Some (ch, true) => ch ord' | _ => POk (PT []) end) as [ct|]; [|discriminate].
    injection H as H. subst out.
    apply Forall_app. split; [exact Hacc|].
    assert (K : forall rw c, rw = row \/ rw = "commit"%string ->
                key_ok ordering (rw, c, (match order with ZFin z => ZFin (if odirect then z else (- z)%Z) | ZInf => ZInf end,
                                         raw, odirect))).
    { intros rw c Hrw. exists row, d, raw. rewrite R. split; [reflexivity | exact Hrw]. }
    constructor.
    - destruct (_ || negb d); apply K; now left.
    - destruct (a_force_commit a); constructor; [|constructor]. apply K. now right.
  Qed.

  Lemma fold_yield_keys ordering raw a ys : forall acc out,
    (forall o, acc = Some o -> Forall (key_ok ordering) o) ->
    fold_left (yield_step rmatch rsrc rrev block_exit ordering raw a) ys acc = Some out ->
    Forall (key_ok ordering) out.
  Proof.
    induction ys as [|y ys IH]; intros acc out Hacc H; cbn [fold_left] in H.
    - apply Hacc. exact H.
    - apply (IH _ out) in H; [exact H|].
      intros o Ho. exact (yield_step_keys ordering raw a acc y o Hacc Ho).
  Qed.

  Lemma fold_group_keys ordering fl : forall acc out,
    (forall o, acc = Some o -> Forall (key_ok ordering) o) ->
    fold_left (group_step rmatch rsrc rrev block_exit rreverse ordering) fl acc = Some out ->
    Forall (key_ok ordering) out.
  Proof.
    induction fl as [|e fl IH]; intros acc out Hacc H; cbn [fold_left] in H.
    - apply Hacc. exact H.
    - apply (IH _ out) in H; [exact H|].
      intros o Ho. destruct e as [[[raw a] key] its]. unfold group_step in Ho.
      destruct acc as [o0|]; [|discriminate].
      destruct (run_logic rreverse (a_pat a) key (a_logic a) its) as [ys|]; [|discriminate].
      exact (fold_yield_keys ordering raw a ys (Some o0) o Hacc Ho).
  Qed.

  Theorem make_patch_keys p ordering items :
    make_patch rmatch rsrc rrev block_exit rreverse p ordering = POk (PT items) ->
    Forall (key_ok ordering) items.
  Proof.
    destruct p as [groups].
    change (make_patch rmatch rsrc rrev block_exit rreverse (Pre groups) ordering)
      with (match patch_items rmatch rsrc rrev block_exit rreverse
                              (close_groups (make_patch rmatch rsrc rrev block_exit rreverse) groups) ordering with
            | None => PErr
            | Some out => POk (PT (sort_items out))
            end).
    destruct (patch_items _ _ _ _ _ _ _) as [out|] eqn:E; [|discriminate].
    intros H. injection H as H. subst items. apply sort_Forall.
    unfold patch_items in E. apply (fold_group_keys ordering _ (Some []) out) in E; [exact E|].
    intros o Ho. injection Ho as Ho. subst o. constructor.
  Qed.
End Keys.

(* ---------- the reference rank of P_C08 holds for every item make_patch emits ---------- *)

Lemma index_where_nil {A} (f : A -> bool) (l : list A) : forall i,
  index_where f l i = [] -> Forall (fun x => f x = false) l.
Proof.
  induction l as [|x l IH]; intros i H; [constructor|]. cbn [index_where] in H.
  destruct (f x) eqn:E; [discriminate|]. constructor; [exact E | exact (IH _ H)].
Qed.

Lemma index_where_single {A} (f : A -> bool) (l : list A) : forall i k,
  index_where f l i = [k] ->
  exists pre r post, l = pre ++ r :: post /\ k = i + List.length pre /\ f r = true /\
                     Forall (fun x => f x = false) pre /\ Forall (fun x => f x = false) post.
Proof.
  induction l as [|x l IH]; intros i k H; [discriminate|]. cbn [index_where] in H.
  destruct (f x) eqn:E.
  - cbn [app] in H. injection H as H1 H2. subst k.
    exists [], x, l. repeat split; [cbn; lia | exact E | constructor | exact (index_where_nil f l _ H2)].
  - cbn [app] in H. destruct (IH _ _ H) as (pre & r & post & E1 & E2 & E3 & E4 & E5).
    exists (x :: pre), r, post. subst l. repeat split; try assumption.
    + cbn [List.length]. lia.
    + constructor; assumption.
Qed.

Lemma znum_eqb_refl n : znum_eqb n n = true.
Proof. destruct n; cbn; [apply Z.eqb_refl | reflexivity]. Qed.

Section RankOk.
  Variable rmatch : string -> string -> option (list string).
  Variable rsrc rrev : string -> string.
  Variable block_exit : string.
  Variable rreverse : string -> list string -> string.
  Notation rank_of := (rank_of rmatch rsrc rrev block_exit).

  Lemma hit_rule_silent sc row r :
    hit_rule rmatch rrev sc row r = false -> silent rmatch rrev row sc r = true.
  Proof.
    unfold hit_rule, silent, hits. destruct (in_scope r sc); cbn [andb negb orb]; [|reflexivity].
    intros H. rewrite H. reflexivity.
  Qed.

  Lemma silent_all sc row l :
    Forall (fun r => hit_rule rmatch rrev sc row r = false) l ->
    Forall (fun r => silent rmatch rrev row sc r = true) l.
  Proof. intros H. eapply Forall_impl; [|exact H]. intros r. apply hit_rule_silent. Qed.

  (* what get_order returns is what the reference allows *)
  Theorem rank_pair_ok_model ordering row cd sc :
    rank_pair_ok rmatch rrev block_exit sc ordering row
                 (fst (rank_of ordering row cd sc)) (snd (rank_of ordering row cd sc)) = true.
  Proof.
    unfold rank_pair_ok.
    change (is_exit_row block_exit row) with (is_exit block_exit row).
    destruct (index_where (hit_rule rmatch rrev sc row) ordering 0) as [|k [|k2 rest]] eqn:E; [| |reflexivity].
    - apply index_where_nil in E. apply silent_all in E.
      destruct (is_exit block_exit row) eqn:X.
      + destruct (existsb (fun r => in_scope r sc) ordering) eqn:S.
        * rewrite (rank_exit rmatch rsrc rrev block_exit ordering row cd sc X E S). reflexivity.
        * rewrite (rank_out_of_scope rmatch rsrc rrev block_exit ordering row cd sc).
          -- reflexivity.
          -- apply Forall_forall. intros r Hr. destruct (in_scope r sc) eqn:Sr; [|reflexivity].
             exfalso. assert (Hex : existsb (fun r => in_scope r sc) ordering = true)
               by (apply existsb_exists; exists r; auto). congruence.
      + rewrite (rank_unmentioned rmatch rsrc rrev block_exit ordering row cd sc E X). reflexivity.
    - destruct (is_exit block_exit row) eqn:X; [reflexivity|].
      destruct (index_where_single _ _ _ _ E) as (pre & r & post & E1 & E2 & E3 & E4 & E5).
      cbn [Nat.add] in E2. subst ordering k.
      rewrite nth_error_app2 by lia. rewrite Nat.sub_diag. cbn [nth_error].
      unfold hit_rule in E3. apply andb_true_iff in E3. destruct E3 as [Hsc Hh].
      rewrite (rank_unique_hit rmatch rsrc rrev block_exit pre r post row cd sc
                               (silent_all _ _ _ E4) (silent_all _ _ _ E5) Hsc Hh X).
      destruct (o_rev r).
      + destruct (negb cd && Order.matches rmatch (o_pat r) row); cbn [fst snd].
        * rewrite znum_eqb_refl. reflexivity.
        * rewrite znum_eqb_refl. apply orb_true_r.
      + cbn [fst]. apply znum_eqb_refl.
  Qed.

  Lemma unsigned_signed n d : unsigned (unsigned n d) d = n.
  Proof. destruct n as [z|]; cbn; [|reflexivity]. destruct d; [reflexivity|]. rewrite Z.opp_involutive. reflexivity. Qed.

  Lemma key_ok_rank_item ordering i :
    key_ok rmatch rsrc rrev block_exit ordering i -> rank_item_ok rmatch rrev block_exit ordering i = true.
  Proof.
    intros (row & cd & raw & Ek & Hrow). unfold rank_item_ok.
    destruct (String.eqb (fst (fst i)) "commit") eqn:C; [reflexivity|]. cbn [orb].
    destruct Hrow as [Hrow|Hrow]; [|rewrite Hrow in C; cbn in C; discriminate].
    rewrite Hrow, Ek. unfold patch_key. cbn [fst snd].
    change (match fst (rank_of ordering row cd (Some "patch"%string)) with
            | ZFin z => ZFin (if snd (rank_of ordering row cd (Some "patch"%string)) then z else (- z)%Z)
            | ZInf => ZInf
            end)
      with (unsigned (fst (rank_of ordering row cd (Some "patch"%string)))
                     (snd (rank_of ordering row cd (Some "patch"%string)))).
    rewrite unsigned_signed. apply rank_pair_ok_model.
  Qed.

  Theorem rank_ok_model p ordering s :
    make_patch rmatch rsrc rrev block_exit rreverse p ordering = POk s ->
    rank_ok_g rmatch rrev block_exit ordering s = true.
  Proof.
    destruct s as [items]. intros H.
    pose proof (make_patch_keys rmatch rsrc rrev block_exit rreverse p ordering items H) as K.
    unfold rank_ok_g. cbn [pitems]. apply forallb_forall. intros i Hi.
    apply key_ok_rank_item. exact (proj1 (Forall_forall _ _) K i Hi).
  Qed.

  (* the reference functions agree with get_order wherever they are defined *)
  Theorem ref_rank_model ordering row cd sc x :
    ref_rank rmatch rrev block_exit sc ordering row cd = Some x -> rank_of ordering row cd sc = x.
  Proof.
    unfold ref_rank. change (is_exit_row block_exit row) with (is_exit block_exit row).
    destruct (index_where (hit_rule rmatch rrev sc row) ordering 0) as [|k [|k2 rest]] eqn:E; [| |discriminate].
    - apply index_where_nil in E. apply silent_all in E.
      destruct (is_exit block_exit row) eqn:X; cbn [andb].
      + destruct (existsb (fun r => in_scope r sc) ordering) eqn:S; intros H; injection H as H; subst x.
        * exact (rank_exit rmatch rsrc rrev block_exit ordering row cd sc X E S).
        * apply rank_out_of_scope. apply Forall_forall. intros r Hr.
          destruct (in_scope r sc) eqn:Sr; [|reflexivity].
          exfalso. assert (Hex : existsb (fun r => in_scope r sc) ordering = true)
            by (apply existsb_exists; exists r; auto). congruence.
      + intros H. injection H as H. subst x.
        exact (rank_unmentioned rmatch rsrc rrev block_exit ordering row cd sc E X).
    - destruct (is_exit block_exit row) eqn:X; [discriminate|].
      destruct (index_where_single _ _ _ _ E) as (pre & r & post & E1 & E2 & E3 & E4 & E5).
      cbn [Nat.add] in E2. subst ordering k.
      rewrite nth_error_app2 by lia. rewrite Nat.sub_diag. cbn [nth_error].
      unfold hit_rule in E3. apply andb_true_iff in E3. destruct E3 as [Hsc Hh].
      rewrite (rank_unique_hit rmatch rsrc rrev block_exit pre r post row cd sc
                               (silent_all _ _ _ E4) (silent_all _ _ _ E5) Hsc Hh X).
      destruct (o_rev r).
      + destruct (negb cd && Order.matches rmatch (o_pat r) row); intros H; injection H as H; auto.
      + intros H; injection H as H; auto.
  Qed.

  Lemma firstn_app_exact {X} (l l' : list X) : firstn (List.length l) (l ++ l') = l.
  Proof. induction l as [|x l IH]; cbn; [destruct l'; reflexivity | rewrite IH; reflexivity]. Qed.
  Lemma skipn_app_exact {X} (l : list X) a l' : skipn (S (List.length l)) (l ++ a :: l') = l'.
  Proof. induction l as [|x l IH]; cbn; [reflexivity | exact IH]. Qed.

  Theorem ref_children_model ordering row cd sc rb :
    ref_children rmatch rrev block_exit sc ordering row = Some rb ->
    snd (get_order rmatch rsrc rrev block_exit ordering row cd sc) = rb.
  Proof.
    unfold ref_children. change (is_exit_row block_exit row) with (is_exit block_exit row).
    destruct (is_exit block_exit row) eqn:X; [discriminate|].
    destruct (index_where (hit_rule rmatch rrev sc row) ordering 0) as [|k [|k2 rest]] eqn:E; [| |discriminate].
    - apply index_where_nil in E. apply silent_all in E. intros H. injection H as H. subst rb.
      exact (children_unmentioned rmatch rsrc rrev block_exit ordering row cd sc E X).
    - destruct (index_where_single _ _ _ _ E) as (pre & r & post & E1 & E2 & E3 & E4 & E5).
      cbn [Nat.add] in E2. subst ordering k.
      rewrite nth_error_app2 by lia. rewrite Nat.sub_diag. cbn [nth_error].
      unfold hit_rule in E3. apply andb_true_iff in E3. destruct E3 as [Hsc Hh].
      destruct (o_rev r) eqn:Hrev; [discriminate|].
      rewrite firstn_app_exact, skipn_app_exact. intros H. injection H as H. subst rb.
      exact (children_unique_hit rmatch rsrc rrev block_exit pre r post row cd sc
                                 (silent_all _ _ _ E4) (silent_all _ _ _ E5) Hsc Hh X Hrev).
  Qed.
End RankOk.

(* ---------- boolean clauses of P_C08 on the model's own outputs ---------- *)

Lemma ptree_eqb_refl : forall p, ptree_eqb p p = true.
Proof.
  apply ptree_ind2. intros items IH. cbn [ptree_eqb].
  induction IH as [|i l Hi Hl IHl]; [reflexivity|].
  destruct i as [[r c] k]. rewrite String.eqb_refl. cbn [andb].
  unfold child_ok in Hi. cbn [fst snd] in Hi.
  destruct c as [c|]; [rewrite Hi|]; cbn [andb]; exact IHl.
Qed.

Lemma same_multiset_perm a b : Permutation a b -> same_multiset a b = true.
Proof.
  intros H. unfold same_multiset. apply andb_true_iff. split.
  - apply Nat.eqb_eq. apply Permutation_length. exact H.
  - apply forallb_forall. intros x _. apply Nat.eqb_eq. unfold count_path.
    apply Permutation_length. apply Permutation_filter. exact H.
Qed.

Section PatchClauses.
  Variable rmatch : string -> string -> option (list string).
  Variable rsrc rrev : string -> string.
  Variable block_exit : string.
  Variable rreverse : string -> list string -> string.

  Theorem patch_sorted_model p ordering s :
    make_patch rmatch rsrc rrev block_exit rreverse p ordering = POk s -> sorted_ok s = true.
  Proof.
    intros H. pose proof (make_patch_sort_rec rmatch rsrc rrev block_exit rreverse p ordering) as R.
    destruct (make_patch_u rmatch rsrc rrev block_exit rreverse p ordering) as [u|].
    - rewrite R in H. injection H as H. subst s. apply sort_rec_sorted.
    - congruence.
  Qed.

  Theorem patch_clauses_model p ordering s u :
    make_patch rmatch rsrc rrev block_exit rreverse p ordering = POk s ->
    make_patch_u rmatch rsrc rrev block_exit rreverse p ordering = POk u ->
    sorted_ok s && is_stable_sort_of s u && same_multiset (all_paths [] s) (all_paths [] u) = true.
  Proof.
    intros Hs Hu. pose proof (make_patch_sort_rec rmatch rsrc rrev block_exit rreverse p ordering) as R.
    rewrite Hu in R. rewrite R in Hs. injection Hs as Hs. subst s.
    rewrite sort_rec_sorted. unfold is_stable_sort_of. rewrite ptree_eqb_refl.
    rewrite (same_multiset_perm _ _ (sort_rec_paths_perm u [])). reflexivity.
  Qed.

  (* sorted and unsorted construction fail together *)
  Theorem patch_error_model p ordering :
    make_patch rmatch rsrc rrev block_exit rreverse p ordering = PErr <->
    make_patch_u rmatch rsrc rrev block_exit rreverse p ordering = PErr.
  Proof.
    pose proof (make_patch_sort_rec rmatch rsrc rrev block_exit rreverse p ordering) as R.
    destruct (make_patch_u rmatch rsrc rrev block_exit rreverse p ordering) as [u|]; split; intros H;
      try congruence.
  Qed.

  (* first sentence of the property, on the model: within every level no command with a
     smaller rank stands behind one with a larger rank *)
  Theorem patch_no_inversion p ordering items l1 a l2 b l3 :
    make_patch rmatch rsrc rrev block_exit rreverse p ordering = POk (PT items) ->
    items = l1 ++ a :: l2 ++ b :: l3 ->
    znum_compare (knum b) (knum a) <> Lt.
  Proof.
    intros H E. apply patch_sorted_model in H. cbn [sorted_ok] in H.
    apply andb_true_iff in H. destruct H as [H _].
    rewrite sorted_keys_sortedb in H.
    apply (sortedb_StronglySorted skey_leb skey_leb_trans) in H.
    apply (sorted_no_inversion items l1 l2 l3 a b); [|exact E].
    clear E. induction items as [|i items IH]; [constructor|].
    cbn [map] in H. inversion H as [|k ks Hs Hall]; subst. constructor; [apply IH; exact Hs|].
    apply Forall_forall. intros j Hj. unfold le, ileb.
    apply (proj1 (Forall_forall _ _) Hall). apply in_map. exact Hj.
  Qed.
End PatchClauses.

(* ---------- rank at every depth: order_config ---------- *)

Lemma sublist_StronglySorted {A} (R : A -> A -> Prop) (l l' : list A) :
  sublist l l' -> StronglySorted R l' -> StronglySorted R l.
Proof.
  induction 1 as [|a l l' H IH|a l l' H IH]; intros Hs.
  - constructor.
  - inversion Hs; subst. apply IH. assumption.
  - inversion Hs as [|a' t Hst Hall]; subst. constructor; [apply IH; exact Hst|].
    exact (sublist_Forall _ l l' H Hall).
Qed.

Section CfgRank.
  Variable rmatch : string -> string -> option (list string).
  Variable rsrc rrev : string -> string.
  Variable block_exit : string.
  Variable reverse_prefix : string.
  Notation oct := (order_config_t rmatch rsrc rrev block_exit reverse_prefix).
  Notation oc := (order_config rmatch rsrc rrev block_exit reverse_prefix).
  Notation row_key := (row_key rmatch rsrc rrev block_exit reverse_prefix).
  Notation row_rb := (row_rb rmatch rsrc rrev block_exit reverse_prefix).
  Notation crs := (cfg_rank_sorted_t rmatch rrev block_exit reverse_prefix).

  Lemma sorted_cfg_keys_sortedb l : sorted_cfg_keys l = sortedb cfg_key_leb l.
  Proof.
    induction l as [|a l IH]; [reflexivity|].
    destruct l as [|b r]; [reflexivity|].
    cbn [sorted_cfg_keys sortedb] in *. rewrite IH. reflexivity.
  Qed.

  Lemma cfg_ref_key_model ordering row k :
    cfg_ref_key rmatch rrev block_exit reverse_prefix ordering row = Some k -> k = row_key ordering row.
  Proof.
    unfold cfg_ref_key.
    destruct (ref_rank rmatch rrev block_exit None ordering row (negb (startswith reverse_prefix row))) as [x|] eqn:E;
      [|discriminate].
    apply (ref_rank_model rmatch rsrc rrev block_exit) in E. intros H. injection H as H. subst k.
    unfold OrderProofs.row_key, row_direct. rewrite E. reflexivity.
  Qed.

  Lemma cfg_ref_keys_sublist ordering f :
    sublist (cfg_ref_keys rmatch rrev block_exit reverse_prefix ordering f) (map (row_key ordering) (map fst f)).
  Proof.
    induction f as [|kv f IH]; cbn [cfg_ref_keys flat_map map]; [apply sub_nil|].
    fold (cfg_ref_keys rmatch rrev block_exit reverse_prefix ordering f).
    destruct (cfg_ref_key rmatch rrev block_exit reverse_prefix ordering (fst kv)) as [k|] eqn:E; cbn [app].
    - apply cfg_ref_key_model in E. subst k. apply sub_keep. exact IH.
    - apply sub_skip. exact IH.
  Qed.

  Lemma crs_unfold ordering kids :
    crs ordering (T kids) =
    sorted_cfg_keys (cfg_ref_keys rmatch rrev block_exit reverse_prefix ordering kids) &&
    forallb (fun kv : string * tree =>
               match ref_children rmatch rrev block_exit None ordering (fst kv) with
               | Some rb => crs rb (snd kv)
               | None => true
               end) kids.
  Proof. reflexivity. Qed.

  (* at every depth of order_config's result, the rows whose key the reference determines
     stand in the order of their reference keys *)
  Theorem cfg_rank_sorted_model : forall t ordering, crs ordering (oct ordering t) = true.
  Proof.
    apply (tree_ind2
             (fun t => forall ordering, crs ordering (oct ordering t) = true)
             (fun f => forall r c, In (r, c) f -> forall ordering, crs ordering (oct ordering c) = true)).
    - intros k IH ordering.
      change (oct ordering (T k)) with (T (oc ordering k)). rewrite crs_unfold.
      apply andb_true_iff. split.
      + rewrite sorted_cfg_keys_sortedb.
        apply (StronglySorted_sortedb cfg_key_leb).
        apply (sublist_StronglySorted _ _ _ (cfg_ref_keys_sublist ordering (oc ordering k))).
        apply oc_sorted.
      + apply forallb_forall. intros kv Hkv.
        rewrite oc_unfold in Hkv. apply in_map_iff in Hkv. destruct Hkv as (e & Ee & He).
        apply (proj1 (sort_in _ e _)) in He. apply in_map_iff in He.
        destruct He as ([r c] & Eo & Hin). subst e kv. unfold oc_item. cbn [fst snd].
        destruct (ref_children rmatch rrev block_exit None ordering r) as [rb|] eqn:E; [|reflexivity].
        apply (ref_children_model rmatch rsrc rrev block_exit ordering r (row_direct reverse_prefix r) None rb) in E.
        change (snd (get_order rmatch rsrc rrev block_exit ordering r (row_direct reverse_prefix r) None))
          with (row_rb ordering r) in E.
        rewrite E. apply (IH r c Hin).
    - intros r c [].
    - intros r t k IHt IHk r' c' [E|Hin].
      + injection E as E1 E2. subst. exact IHt.
      + exact (IHk r' c' Hin).
  Qed.
End CfgRank.

(* ---------- rank at every depth: patches ---------- *)

Lemma Forall2_diag {X} (R : X -> X -> Prop) (l : list X) : Forall2 R l l -> Forall (fun x => R x x) l.
Proof.
  induction l as [|x l IH]; intros H; [constructor|].
  inversion H; subst. constructor; [assumption | apply IH; assumption].
Qed.

Section RankRec.
  Variable rmatch : string -> string -> option (list string).
  Variable rsrc rrev : string -> string.
  Variable block_exit : string.
  Variable rreverse : string -> list string -> string.
  Notation rrec := (rank_ok_rec rmatch rrev block_exit).

  (* a children closure all of whose results are ranked at every depth *)
  Definition Qck (c : ckpre) : Prop := forall ord ct, c ord = POk ct -> rrec ord ct = true.
  Definition Rq (a b : ckpre) : Prop := a = b /\ Qck a.
  Definition yQ (y : bool * string * option (ckpre * bool)) : Prop :=
    match snd y with Some (c, _) => Qck c | None => True end.

  (* every closure a logic yields is one of the closures it was given *)
  Lemma run_logic_closed raw key L its :
    Forall (fun it : citem => Qck (snd (fst it))) its ->
    match run_logic rreverse raw key L its with
    | Some ys => Forall yQ ys
    | None => True
    end.
  Proof.
    intros H.
    assert (H2 : Forall2 (crel Rq) its its).
    { induction H as [|it l Hit Hl IH]; constructor; [|exact IH]. repeat split; assumption. }
    pose proof (run_logic_rel rreverse Rq raw key L its its H2) as R.
    destruct (run_logic rreverse raw key L its) as [ys|]; [|exact I]. cbn in R.
    apply Forall2_diag in R. eapply Forall_impl; [|exact R].
    intros [[d row] [[c n]|]] (_ & _ & Hs); unfold yQ; cbn in *; [|exact I].
    destruct Hs as [[_ Q] _]. exact Q.
  Qed.

  Definition child_rec_ok (ordering : list orule) (i : item) : Prop :=
    match snd (fst i) with
    | Some c =>
      forall rb, ref_children rmatch rrev block_exit (Some "patch"%string) ordering (fst (fst i)) = Some rb ->
                 rrec rb c = true
    | None => True
    end.

  Lemma yield_step_child ordering raw a acc y out :
    (forall o, acc = Some o -> Forall (child_rec_ok ordering) o) -> yQ y ->
    yield_step rmatch rsrc rrev block_exit ordering raw a acc y = Some out ->
    Forall (child_rec_ok ordering) out.
  Proof.
    intros Hacc Hy H. destruct y as [[d row] sub]. unfold yield_step in H.
    destruct acc as [o|]; [|discriminate]. specialize (Hacc o eq_refl).
    pose proof (fun rb => ref_children_model rmatch rsrc rrev block_exit ordering row d (Some "patch"%string) rb) as RC.
    destruct (get_order rmatch rsrc rrev block_exit ordering row d (Some "patch"%string)) as [[order odirect] ord'].
    cbn [snd] in RC.
    assert (Hct : forall ct, match sub with Some (ch, true) => ch ord' | _ => POk (PT []) end = POk ct ->
                             rrec ord' ct = true).
    { intros ct Hc. destruct sub as [[ch [|]]|].
      - unfold yQ in Hy. cbn in Hy. exact (Hy ord' ct Hc).
      - injection Hc as Hc. subst ct. reflexivity.
      - injection Hc as Hc. subst ct. reflexivity. }
    destruct (match sub with Some (ch, true) => ch ord' | _ => POk (PT []) end) as [ct|]; [|discriminate].
    specialize (Hct ct eq_refl).
    injection H as H. subst out.
    apply Forall_app. split; [exact Hacc|].
    constructor.
    - destruct (_ || negb d); unfold child_rec_ok; cbn [fst snd]; [exact I|].
      intros rb Hrb. apply RC in Hrb. subst rb. exact Hct.
    - destruct (a_force_commit a); constructor; [|constructor]. exact I.
  Qed.

  Lemma fold_yield_child ordering raw a ys : forall acc out,
    (forall o, acc = Some o -> Forall (child_rec_ok ordering) o) -> Forall yQ ys ->
    fold_left (yield_step rmatch rsrc rrev block_exit ordering raw a) ys acc = Some out ->
    Forall (child_rec_ok ordering) out.
  Proof.
    induction ys as [|y ys IH]; intros acc out Hacc Hys H; cbn [fold_left] in H.
    - apply Hacc. exact H.
    - inversion Hys as [|y' ys' Hy Hys']; subst.
      apply (IH _ out) in H; [exact H | | exact Hys'].
      intros o Ho. exact (yield_step_child ordering raw a acc y o Hacc Hy Ho).
  Qed.

  Lemma fold_group_child ordering fl : forall acc out,
    (forall o, acc = Some o -> Forall (child_rec_ok ordering) o) ->
    Forall (fun e : string * attrs * list string * list citem =>
              Forall (fun it : citem => Qck (snd (fst it))) (snd e)) fl ->
    fold_left (group_step rmatch rsrc rrev block_exit rreverse ordering) fl acc = Some out ->
    Forall (child_rec_ok ordering) out.
  Proof.
    induction fl as [|e fl IH]; intros acc out Hacc Hfl H; cbn [fold_left] in H.
    - apply Hacc. exact H.
    - inversion Hfl as [|e' fl' He Hfl']; subst.
      apply (IH _ out) in H; [exact H | | exact Hfl'].
      intros o Ho. destruct e as [[[raw a] key] its]. unfold group_step in Ho. cbn [snd] in He.
      destruct acc as [o0|]; [|discriminate].
      pose proof (run_logic_closed (a_pat a) key (a_logic a) its He) as RL.
      destruct (run_logic rreverse (a_pat a) key (a_logic a) its) as [ys|]; [|discriminate].
      exact (fold_yield_child ordering raw a ys (Some o0) o Hacc RL Ho).
  Qed.

  Lemma flat_groups_closures (mk : pre -> ckpre) groups :
    (forall ch, Qck (mk ch)) ->
    Forall (fun e : string * attrs * list string * list citem =>
              Forall (fun it : citem => Qck (snd (fst it))) (snd e))
           (flat_groups (close_groups mk groups)).
  Proof.
    intros Hmk. unfold flat_groups, close_groups. apply Forall_forall. intros e He.
    apply in_flat_map in He. destruct He as (g & Hg & He).
    apply in_map_iff in Hg. destruct Hg as ([[raw a] ks] & Eg & _). subst g.
    apply in_map_iff in He. destruct He as (k & Ee & Hk). subst e. cbn [snd].
    apply in_map_iff in Hk. destruct Hk as (k0 & Ek & _). subst k. cbn [snd].
    apply Forall_forall. intros it Hit. apply in_map_iff in Hit.
    destruct Hit as ([[o row] ch] & Eit & _). subst it. cbn [fst snd]. apply Hmk.
  Qed.

  Lemma rrec_unfold ordering items :
    rrec ordering (PT items) =
    forallb (fun i : item =>
               rank_item_ok rmatch rrev block_exit ordering i &&
               match snd (fst i) with
               | Some c =>
                 String.eqb (fst (fst i)) "commit" ||
                 match ref_children rmatch rrev block_exit (Some "patch"%string) ordering (fst (fst i)) with
                 | Some rb => rrec rb c
                 | None => true
                 end
               | None => true
               end) items.
  Proof. reflexivity. Qed.

  (* the rank clause of P_C08, at every depth, for every patch the model builds *)
  Theorem rank_ok_rec_model : forall p, Qck (make_patch rmatch rsrc rrev block_exit rreverse p).
  Proof.
    apply pre_ind2. intros groups IH ordering ct.
    change (make_patch rmatch rsrc rrev block_exit rreverse (Pre groups) ordering)
      with (match patch_items rmatch rsrc rrev block_exit rreverse
                              (close_groups (make_patch rmatch rsrc rrev block_exit rreverse) groups) ordering with
            | None => PErr
            | Some out => POk (PT (sort_items out))
            end).
    destruct (patch_items _ _ _ _ _ _ _) as [out|] eqn:E; [|discriminate].
    intros H. injection H as H. subst ct. rewrite rrec_unfold.
    unfold patch_items in E.
    assert (K : Forall (key_ok rmatch rsrc rrev block_exit ordering) out).
    { apply (fold_group_keys rmatch rsrc rrev block_exit rreverse ordering _ (Some []) out) in E; [exact E|].
      intros o Ho. injection Ho as Ho. subst o. constructor. }
    assert (C : Forall (child_rec_ok ordering) out).
    { apply (fold_group_child ordering _ (Some []) out) in E; [exact E | |].
      - intros o Ho. injection Ho as Ho. subst o. constructor.
      - (* all closures of this level are make_patch of a sub-pre: induction hypothesis *)
        unfold flat_groups, close_groups. apply Forall_forall. intros e He.
        apply in_flat_map in He. destruct He as (g & Hg & He).
        apply in_map_iff in Hg. destruct Hg as ([[raw a] ks] & Eg & Hg0). subst g.
        apply in_map_iff in He. destruct He as (k & Ee & Hk). subst e. cbn [snd].
        apply in_map_iff in Hk. destruct Hk as (k0 & Ek & Hk0). subst k. cbn [snd].
        apply Forall_forall. intros it Hit. apply in_map_iff in Hit.
        destruct Hit as ([[o row] ch] & Eit & Hit0). subst it. cbn [fst snd].
        pose proof (proj1 (Forall_forall _ _) IH _ Hg0) as I1. cbn [snd] in I1.
        pose proof (proj1 (Forall_forall _ _) I1 _ Hk0) as I2.
        exact (proj1 (Forall_forall _ _) I2 _ Hit0). }
    apply forallb_forall. intros i Hi. apply (proj1 (sort_in _ i out)) in Hi.
    pose proof (proj1 (Forall_forall _ _) K i Hi) as Ki.
    pose proof (proj1 (Forall_forall _ _) C i Hi) as Ci.
    rewrite (key_ok_rank_item rmatch rsrc rrev block_exit ordering i Ki). cbn [andb].
    unfold child_rec_ok in Ci. destruct (snd (fst i)) as [c|]; [|reflexivity].
    destruct (String.eqb (fst (fst i)) "commit"); [reflexivity|]. cbn [orb].
    destruct (ref_children rmatch rrev block_exit (Some "patch"%string) ordering (fst (fst i))) as [rb|];
      [|reflexivity].
    apply Ci. reflexivity.
  Qed.
End RankRec.

(* ---------- the pipeline instance (Model.Pipeline: pm, prev, vendor) ---------- *)

Lemma mentioned_inst v ordering row :
  P_C08.mentioned v ordering row = mentioned_g pm (prev v) (v_exit v) ordering row.
Proof. reflexivity. Qed.

Theorem p_order_config_idem_clause v ordering f :
  forest_eqb (p_order_config v ordering (p_order_config v ordering f)) (p_order_config v ordering f) = true.
Proof. unfold p_order_config. rewrite oc_idem. apply forest_eqb_refl. Qed.

Theorem p_unmentioned_stable_kind v ordering f :
  unmentioned_stable_kind v ordering f (p_order_config v ordering f) = true.
Proof.
  unfold unmentioned_stable_kind. cbn [forallb]. rewrite !andb_true_r.
  apply andb_true_iff. split; apply list_str_eqb_eq; symmetry.
  - exact (oc_unmentioned_stable_by_kind pm psrc (prev v) (v_exit v) (v_reverse v) ordering true f).
  - exact (oc_unmentioned_stable_by_kind pm psrc (prev v) (v_exit v) (v_reverse v) ordering false f).
Qed.

Theorem p_unmentioned_stable v ordering f :
  has_negated_unmentioned v ordering f = false ->
  unmentioned_stable v ordering f (p_order_config v ordering f) = true.
Proof.
  intros H. unfold unmentioned_stable. apply list_str_eqb_eq. symmetry.
  apply (oc_unmentioned_stable pm psrc (prev v) (v_exit v) (v_reverse v) ordering f).
  intros rc Hin M. unfold row_direct.
  destruct (startswith (v_reverse v) (fst rc)) eqn:S; [|reflexivity].
  exfalso. assert (Hex : has_negated_unmentioned v ordering f = true).
  { unfold has_negated_unmentioned. apply existsb_exists. exists rc. split; [exact Hin|].
    rewrite mentioned_inst, M, S. reflexivity. }
  congruence.
Qed.

(* the property's sentence "rows no rule mentions keep their relative order" is false for
   order_config as written: an unmentioned row that starts with the negation word gets the
   key (0, False) and sorts before every unmentioned command, key (0, True) *)
Definition refute_vendor : vendor := Vendor "no" "exit" FCisco.
Definition refute_cfg : forest := [("a"%string, T []); ("no b"%string, T [])].

Theorem p_unmentioned_stable_refuted :
  exists v ordering f, unmentioned_stable v ordering f (p_order_config v ordering f) = false.
Proof. exists refute_vendor, [], refute_cfg. vm_compute. reflexivity. Qed.

Theorem p_rank_ok v ordering p s :
  p_make_patch v ordering p = POk s -> rank_ok v ordering s = true.
Proof. apply (rank_ok_rec_model pm psrc (prev v) (v_exit v) (prreverse v) p ordering s). Qed.

Theorem p_cfg_rank_sorted v ordering f :
  cfg_rank_sorted v ordering (p_order_config v ordering f) = true.
Proof.
  unfold cfg_rank_sorted, p_order_config.
  exact (cfg_rank_sorted_model pm psrc (prev v) (v_exit v) (v_reverse v) (T f) ordering).
Qed.

(* ---------- statements in the form Properties/C08.v cites ---------- *)

Theorem patch_perm_model rmatch rsrc rrev block_exit rreverse p ordering u :
  make_patch_u rmatch rsrc rrev block_exit rreverse p ordering = POk u ->
  exists s, make_patch rmatch rsrc rrev block_exit rreverse p ordering = POk s /\
            s = sort_rec u /\
            (forall pre, Permutation (all_paths pre s) (all_paths pre u)) /\
            Permutation (pitems s) (map srt_item (pitems u)).
Proof.
  intros Hu. pose proof (make_patch_sort_rec rmatch rsrc rrev block_exit rreverse p ordering) as R.
  rewrite Hu in R. exists (sort_rec u). repeat split.
  - exact R.
  - intros pre. apply sort_rec_paths_perm.
  - destruct u as [items]. apply sort_rec_perm_level.
Qed.

(* strict order of two keys *)
Definition key_lt (a b : skey) : Prop := skey_leb a b = true /\ skey_leb b a = false.

Theorem key_order_facts (r1 r2 : string) (d1 d2 : bool) (i j : Z) :
  (0 <= i)%Z -> (0 <= j)%Z ->
  (* earlier rule first, for commands *)
  ((i < j)%Z -> key_lt (patch_key r1 (ZFin i, true)) (patch_key r2 (ZFin j, true))) /\
  (* removals: mirrored *)
  ((i < j)%Z -> key_lt (patch_key r1 (ZFin j, false)) (patch_key r2 (ZFin i, false))) /\
  (* removals of a rule other than the first: before every command *)
  ((1 <= i)%Z -> key_lt (patch_key r1 (ZFin i, false)) (patch_key r2 (ZFin j, true))) /\
  (* the block-exit word: after everything ranked *)
  key_lt (patch_key r1 (ZFin i, d1)) (patch_key r2 (ZInf, d2)).
Proof.
  intros Hi Hj. unfold key_lt.
  repeat split; try intros H; apply skey_num_lt; unfold patch_key; cbn [fst snd znum_compare];
    try (destruct d1; reflexivity); rewrite Z.compare_lt_iff; lia.
Qed.

(* a toy matcher for the non-vacuity examples: a pattern matches exactly itself *)
Definition toy_match (pat row : string) : option (list string) :=
  if String.eqb pat row then Some [] else None.
Definition toy_rev (pat : string) : string := String.append "no " pat.
Definition toy_rules : list orule :=
  [ORule "a" "a" false false None []; ORule "b" "b" false false None []].

Lemma toy_matches pat row : Order.matches toy_match pat row = String.eqb pat row.
Proof. unfold Order.matches, toy_match. destruct (String.eqb pat row); reflexivity. Qed.

Lemma toy_disjoint : disjoint_rules toy_match toy_rev toy_rules None.
Proof.
  intros i j ri rj row Hi Hj _ _ Hhi Hhj.
  unfold hits in Hhi, Hhj. rewrite !toy_matches in Hhi, Hhj.
  apply orb_true_iff in Hhi, Hhj. rewrite !String.eqb_eq in Hhi, Hhj.
  destruct i as [|[|i]], j as [|[|j]]; cbn in Hi, Hj;
    try (destruct i; discriminate); try (destruct j; discriminate); try reflexivity;
    injection Hi as Hi; injection Hj as Hj; subst ri rj; cbn in Hhi, Hhj;
    destruct Hhi as [A|A], Hhj as [B|B]; subst row; discriminate.
Qed.

(* "the relative order of two commands does not depend on unrelated lines" fails at the
   level of whole configurations, although the sort is innocent (sort_sublist,
   sort_filter_commute): commands whose keys tie keep the order of the diff, and base_diff
   interleaves removed rows (indexed by their position in old) with the other rows (indexed
   by their position in new).  Removing the unrelated old row "foo 1" swaps two commands. *)
Open Scope string_scope.
Definition w_vendor : vendor := Vendor "no" "exit" FCisco.
Definition w_rules : rset :=
  ([PRule "vlan *" false (Attrs "vlan *" LDefault DDefault false false) [] [];
    PRule "foo *" false (Attrs "foo *" LDefault DDefault false false) [] [];
    PRule "bar *" false (Attrs "bar *" LDefault DDefault false false) [] []], []).
Definition w_ordering : list orule := [ORule "vlan *" "vlan *" false false None []].
Definition w_old : forest := [("foo 1", T []); ("vlan 7 a", T [])].
Definition w_new : forest := [("bar 1", T []); ("vlan 9", T []); ("vlan 7 b", T [])].
Close Scope string_scope.

Definition meta_order_kept (v : vendor) (rs : rset) (ordering : list orule) (old new : forest) (r : string) : Prop :=
  match snd (diff_and_patch v rs ordering old new),
        snd (diff_and_patch v rs ordering (remove_row r old) (remove_row r new)) with
  | POk s, POk m => subseq (all_paths [] m) (all_paths [] s) = true
  | _, _ => True
  end.

(* unrelated: every patching rule that matches the row matches no other top-level row *)
Definition unrelated_top_row (rs : rset) (old new : forest) (r : string) : bool :=
  forallb (fun pr : prule =>
             negb (Order.matches pm (r_pat pr) r) ||
             forallb (fun kv : string * tree =>
                        String.eqb (fst kv) r || negb (Order.matches pm (r_pat pr) (fst kv))) (old ++ new))
          (fst rs ++ snd rs).

Theorem unrelated_row_refuted :
  exists v rs ordering old new r,
    unrelated_top_row rs old new r = true /\ ~ meta_order_kept v rs ordering old new r.
Proof.
  exists w_vendor, w_rules, w_ordering, w_old, w_new, "foo 1"%string. split.
  - vm_compute. reflexivity.
  - unfold meta_order_kept. vm_compute. discriminate.
Qed.

Theorem undo_before_redo (o : Z) (raw : string) :
  (0 <= o)%Z -> skey_leb (ZFin (- o), raw, false) (ZFin o, raw, true) = true.
Proof.
  intros Ho. unfold skey_leb, znum_compare.
  destruct (Z.compare_spec (- o) o) as [E|L|G]; [|reflexivity|lia].
  rewrite string_compare_refl. reflexivity.
Qed.

(* PatchTree.sort (the reference sort_rec) on any tree: sorted at every level and the
   stable sort of its input *)
Theorem resort_clause u : sorted_ok (sort_rec u) && is_stable_sort_of (sort_rec u) u = true.
Proof. rewrite sort_rec_sorted. unfold is_stable_sort_of. apply ptree_eqb_refl. Qed.
