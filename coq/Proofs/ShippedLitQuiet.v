(* Soundness of the literal-word test [lit_quiet] of Spec/P_Shipped.v (C01_lit_quiet_sound_statement):
   no removal command of the patching pattern pp is matched by an ordering pattern of OR.

   (A) the removal text  format_template (make_reverse pp prefix) key  of a pattern pp whose first
       word is the literal c <> prefix reads  `prefix c ...`  (or is empty when str.format raises),
       for every pattern of Model/PatternY.v - glued placeholders and special last words included -
       and every key;
   (B) a row matched by a pattern whose first words are the literals a (b) starts with the words a (b).

   The statement needs a hypothesis on the negation word: [neg_word prefix] (not empty, no blank,
   none of * ~ { }); counterexamples without it at the end of the file.  Every [plain_word] is one. *)
From Coq Require Import List String Ascii Bool Arith NArith Lia.
From Annet Require Import Base.Str Model.Pattern Model.PatternX Model.PatternY Spec.P_C07 Spec.P_C07X Spec.P_C07Y
     Proofs.RegexProofs Proofs.PatternProofs Proofs.PatternXProofs Proofs.PatternYProofs Spec.P_Shipped.
Import ListNotations.
Open Scope string_scope.
Open Scope list_scope.

#[local] Arguments Ascii.eqb : simpl never.
#[local] Arguments String.eqb : simpl never.
#[local] Arguments is_graph : simpl never.
#[local] Arguments py_ws : simpl never.
#[local] Arguments lit_char : simpl never.
#[local] Arguments is_ws : simpl never.

Ltac all_ascii c := destruct c as [[] [] [] [] [] [] [] []]; vm_compute; try reflexivity; try discriminate.

(* ------------------------------------------------------------------------------ *)
(* characters                                                                      *)

Definition nows (w : list ascii) : bool := forallb (fun c => negb (py_ws c)) w.

(* a character of a negation word: no blank, none of * ~ { } *)
Definition neg_char (c : ascii) : bool :=
  negb (py_ws c) && neqc "*" c && neqc "~" c && nobrace c.
Definition neg_word (w : string) : bool := negb (is_empty w) && forallb neg_char (l_of w).

Lemma neg_char_facts c : neg_char c = true ->
  py_ws c = false /\ is_ws c = false /\ Ascii.eqb c sp = false /\ neqc "*" c = true /\ neqc "~" c = true
  /\ nobrace c = true /\ wordc c = true.
Proof. all_ascii c; repeat split. Qed.

Lemma lit_neg_char c : lit_char c = true -> neg_char c = true.
Proof. all_ascii c. Qed.

Lemma plain_neg_word w : plain_word w = true -> neg_word w = true.
Proof.
  unfold plain_word, neg_word. intro H. apply andb_true_iff in H as [H1 H2]. rewrite H1. cbn [andb].
  eapply forallb_impl; [|exact H2]. exact lit_neg_char.
Qed.

Lemma graph_nows w : forallb is_graph w = true -> nows w = true.
Proof. apply forallb_impl. intros c H. apply graph_facts in H as (H & _). rewrite H. reflexivity. Qed.

(* ------------------------------------------------------------------------------ *)
(* words behind a head: each with the blank before it                              *)

Definition tailw (R : list (list ascii)) : list ascii := flat_map (fun w => sp :: w) R.

Lemma ljoin_tailw x R : ljoin (x :: R) = x ++ tailw R.
Proof.
  revert x. induction R as [|y R IH]; intro x.
  - cbn. symmetry. apply app_nil_r.
  - rewrite ljoin_cons2, IH. reflexivity.
Qed.

Lemma brk_tailw R : brk (tailw R) = true.
Proof. destruct R; reflexivity. Qed.

(* the last element through f *)
Fixpoint maplast {A} (f : A -> A) (l : list A) : list A :=
  match l with
  | [] => []
  | [x] => [f x]
  | x :: r => x :: maplast f r
  end.

(* ------------------------------------------------------------------------------ *)
(* sub_star stays inside a word                                                    *)

Lemma last_slash_word w : forall rest i, nows w = true -> brk rest = true ->
  last_slash (w ++ rest) i = last_slash w i.
Proof.
  induction w as [|c w IH]; intros rest i Hw Hb.
  - cbn [app]. rewrite last_slash_brk by exact Hb. reflexivity.
  - cbn [nows forallb] in Hw. apply andb_true_iff in Hw as [Hc Hw]. apply negb_true_iff in Hc.
    cbn [app last_slash]. rewrite Hc. rewrite IH by assumption. reflexivity.
Qed.

Lemma last_slash_bound w : forall i j, last_slash w i = Some j -> j < i + List.length w.
Proof.
  induction w as [|c w IH]; intros i j H; [discriminate|].
  cbn [last_slash] in H. destruct (py_ws c); [discriminate|].
  destruct (last_slash w (S i)) as [j'|] eqn:E.
  - injection H as <-. apply IH in E. cbn [List.length]. lia.
  - destruct (Ascii.eqb c "/" && Nat.leb 1 i); [|discriminate]. injection H as <-. cbn [List.length]. lia.
Qed.

Lemma opt_re_len_word w rest : nows w = true -> brk rest = true ->
  opt_re_len (w ++ rest) = opt_re_len w /\ opt_re_len w <= List.length w.
Proof.
  intros Hw Hb. destruct w as [|c w].
  - cbn [app]. rewrite opt_re_len_brk by exact Hb. split; [reflexivity | cbn; lia].
  - cbn [nows forallb] in Hw. apply andb_true_iff in Hw as [_ Hw].
    cbn [app opt_re_len]. destruct (Ascii.eqb c "/"); [|split; [reflexivity | lia]].
    rewrite last_slash_word by assumption. split; [reflexivity|].
    destruct (last_slash w 0) as [j|] eqn:E; [|lia]. apply last_slash_bound in E. cbn [List.length]. lia.
Qed.

Lemma sub_star_word w : forall k rest, nows w = true -> brk rest = true -> k <= List.length w ->
  sub_star k (w ++ rest) = sub_star k w ++ sub_star 0 rest.
Proof.
  induction w as [|c w IH]; intros k rest Hw Hb Hk.
  - cbn [List.length] in Hk. assert (k = 0) by lia. subst k. reflexivity.
  - pose proof Hw as Hw0. cbn [nows forallb] in Hw. apply andb_true_iff in Hw as [_ Hw].
    cbn [app sub_star]. destruct k as [|k].
    + destruct (Ascii.eqb c "*").
      * destruct (opt_re_len_word w rest Hw Hb) as [E L]. rewrite E.
        cbn [app]. f_equal. f_equal. apply IH; assumption.
      * cbn [app]. f_equal. apply IH; [assumption | assumption | lia].
    + apply IH; [assumption | assumption | cbn [List.length] in Hk; lia].
Qed.

Lemma sub_star_tailw R : Forall (fun w => nows w = true) R ->
  sub_star 0 (tailw R) = tailw (map (sub_star 0) R).
Proof.
  induction R as [|w R IH]; intro H; [reflexivity|].
  inversion H as [|w' R' Hw HR]; subst.
  cbn [tailw flat_map map]. fold (tailw R). fold (tailw (map (sub_star 0) R)).
  cbn [app sub_star]. change (Ascii.eqb sp "*") with false. cbn iota. f_equal.
  rewrite sub_star_word; [|exact Hw | apply brk_tailw | lia]. f_equal. apply IH. exact HR.
Qed.

(* ------------------------------------------------------------------------------ *)
(* tilde_to_hole touches the last word only                                        *)

Lemma tilde_to_hole_tailw R : forall A, R <> [] -> Forall (fun w => w <> []) R ->
  tilde_to_hole (A ++ tailw R) = A ++ tailw (maplast tilde_to_hole R).
Proof.
  induction R as [|w R IH]; intros A Hne H; [congruence|].
  inversion H as [|w' R' Hw HR]; subst.
  destruct R as [|w2 R].
  - cbn [tailw flat_map maplast]. rewrite !app_nil_r.
    change (A ++ sp :: w) with (A ++ [sp] ++ w). rewrite app_assoc.
    rewrite tilde_to_hole_app by exact Hw. rewrite <- app_assoc. reflexivity.
  - change (maplast tilde_to_hole (w :: w2 :: R)) with (w :: maplast tilde_to_hole (w2 :: R)).
    change (tailw (w :: w2 :: R)) with ((sp :: w) ++ tailw (w2 :: R)).
    change (tailw (w :: maplast tilde_to_hole (w2 :: R))) with ((sp :: w) ++ tailw (maplast tilde_to_hole (w2 :: R))).
    rewrite !app_assoc. apply IH; [discriminate | exact HR].
Qed.

(* ------------------------------------------------------------------------------ *)
(* what is needed of the words of a rule row behind its first word                  *)

(* a `~/X/` word *)
Definition tre_word (w X : list ascii) : Prop :=
  w = "~"%char :: "/"%char :: X ++ ["/"%char] /\ X <> [] /\ forallb is_graph X = true.

(* a word of the row: does not start with `~`, or is `~/X/` without `*` *)
Definition Qw (w : list ascii) : Prop :=
  nows w = true /\
  ((exists a r, w = a :: r /\ neqc "~" a = true) \/
   (exists X, tre_word w X /\ forallb (neqc "*") X = true)).
(* the last word may also be `~` *)
Definition Qlast (w : list ascii) : Prop := Qw w \/ w = ["~"%char].

Fixpoint WOK (R : list (list ascii)) : Prop :=
  match R with
  | [] => True
  | [w] => Qlast w
  | w :: R' => Qw w /\ WOK R'
  end.

(* a word of the template before strip_tilde: starts with a word character, or is `~/X/` *)
Definition Pw (u : list ascii) : Prop :=
  (exists a r, u = a :: r /\ wordc a = true) \/ (exists X, tre_word u X).

Lemma Qw_nonempty w : Qw w -> w <> [].
Proof. intros [_ [(a & r & -> & _) | (X & (-> & _) & _)]]; discriminate. Qed.

Lemma Qlast_nonempty w : Qlast w -> w <> [].
Proof. intros [H | ->]; [apply Qw_nonempty; exact H | discriminate]. Qed.

Lemma nows_app a b : nows (a ++ b) = nows a && nows b.
Proof. apply forallb_app. Qed.

Lemma Qlast_tth w : Qlast w -> Qw (tilde_to_hole w).
Proof.
  intros [H | ->].
  - pose proof (Qw_nonempty w H) as Hne. destruct H as [Hn H].
    destruct H as [(a & r & E & Ha) | (X & (E & HX) & Hs)].
    + destruct (exists_last Hne) as (i & c & Ei). rewrite Ei. unfold tilde_to_hole. rewrite unsnoc_snoc.
      destruct (Ascii.eqb c "~") eqn:Ec.
      * apply Ascii.eqb_eq in Ec. subst c. split.
        -- rewrite Ei, nows_app in Hn. apply andb_true_iff in Hn as [Hn _]. rewrite nows_app, Hn. reflexivity.
        -- left. destruct i as [|a' i].
           ++ exfalso. rewrite Ei in E. cbn in E. injection E as <- _. discriminate.
           ++ rewrite Ei in E. cbn [app] in E. injection E as <- _. exists a', (i ++ ["{"%char; "}"%char]). auto.
      * rewrite <- Ei. split; [exact Hn|]. left. eauto.
    + rewrite E. change ("~"%char :: "/"%char :: X ++ ["/"%char]) with (("~"%char :: "/"%char :: X) ++ ["/"%char]).
      rewrite tilde_to_hole_snoc by reflexivity.
      change (("~"%char :: "/"%char :: X) ++ ["/"%char]) with ("~"%char :: "/"%char :: X ++ ["/"%char]). split.
      * rewrite <- E. exact Hn.
      * right. exists X. split; [|exact Hs]. split; [reflexivity | exact HX].
  - split; [reflexivity|]. left. exists "{"%char, ["}"%char]. auto.
Qed.

Lemma Qw_sub w : Qw w -> Pw (sub_star 0 w).
Proof.
  intros [Hn [(a & r & -> & Ha) | (X & (E & HX) & Hs)]].
  - left. cbn [nows forallb] in Hn. apply andb_true_iff in Hn as [Hp _].
    cbn [sub_star]. destruct (Ascii.eqb a "*").
    + eexists _, _. split; [reflexivity | reflexivity].
    + exists a, (sub_star 0 r). split; [reflexivity|]. unfold wordc. rewrite Hp, Ha. reflexivity.
  - right. exists X. rewrite <- (app_nil_r w), sub_star_plain, app_nil_r; [split; assumption|].
    rewrite E. cbn [forallb]. rewrite forallb_app, Hs. reflexivity.
Qed.

Lemma WOK_tth R : WOK R -> Forall Qw (maplast tilde_to_hole R).
Proof.
  induction R as [|w R IH]; intro H; [constructor|].
  destruct R as [|w2 R].
  - cbn in *. constructor; [apply Qlast_tth; exact H | constructor].
  - destruct H as [Hw H]. change (maplast tilde_to_hole (w :: w2 :: R)) with (w :: maplast tilde_to_hole (w2 :: R)).
    constructor; [exact Hw | apply IH; exact H].
Qed.

Lemma WOK_nonempty R : WOK R -> Forall (fun w => w <> []) R.
Proof.
  induction R as [|w R IH]; intro H; [constructor|].
  destruct R as [|w2 R].
  - constructor; [apply Qlast_nonempty; exact H | constructor].
  - destruct H as [Hw H]. constructor; [apply Qw_nonempty; exact Hw | apply IH; exact H].
Qed.

(* ------------------------------------------------------------------------------ *)
(* strip_tilde: what is left of the tail is empty or starts with a blank            *)

Definition blank_led (Z : list ascii) : Prop := Z = [] \/ exists z, Z = sp :: z.

Lemma strip_tilde_tailw U : Forall Pw U -> blank_led (strip_tilde [] 0 (tailw U)).
Proof.
  induction U as [|u U IH]; intro H; [left; reflexivity|].
  inversion H as [|u' U' Hu HU]; subst.
  cbn [tailw flat_map]. fold (tailw U).
  change (strip_tilde [] 0 ((sp :: u) ++ tailw U)) with (strip_tilde [sp] 0 (u ++ tailw U)).
  destruct Hu as [(a & r & -> & Ha) | (X & -> & HX1 & HX2)].
  - right. unfold wordc, neqc in Ha. apply andb_true_iff in Ha as [H1 H2]. apply negb_true_iff in H1, H2.
    cbn [app strip_tilde]. rewrite H1, H2. eexists. reflexivity.
  - cbn [app]. rewrite <- app_assoc. cbn [app].
    rewrite strip_tilde_tre; [apply IH; exact HU | exact HX1 | exact HX2 | apply brk_tailw].
Qed.

(* ------------------------------------------------------------------------------ *)
(* the removal template of a row `c R...` with c <> prefix                          *)

Lemma forallb_neg (f : ascii -> bool) w :
  (forall c, neg_char c = true -> f c = true) -> forallb neg_char w = true -> forallb f w = true.
Proof. intros H. apply forallb_impl. exact H. Qed.

Lemma make_reverse_l_lead pre c R :
  pre <> [] -> forallb neg_char pre = true ->
  c <> [] -> forallb lit_char c = true -> c <> pre -> WOK R ->
  exists Z, make_reverse_l (c ++ tailw R) pre = pre ++ sp :: c ++ Z /\ blank_led Z.
Proof.
  intros Hpne Hp Hcne Hc Hd HR.
  assert (Hcn : forallb neg_char c = true) by (eapply forallb_impl; [|exact Hc]; exact lit_neg_char).
  assert (Hnosp : forall w, forallb neg_char w = true -> nosp w = true).
  { intros w. apply forallb_impl. intros x Hx. apply neg_char_facts in Hx as (_ & _ & Hx & _). rewrite Hx. reflexivity. }
  (* step 1: the negation word is prepended *)
  assert (R1 : reverse_row_l (c ++ tailw R) pre = (pre ++ sp :: c) ++ tailw R).
  { unfold reverse_row_l.
    replace (lprefix (pre ++ [sp]) (c ++ tailw R)) with false.
    - rewrite <- !app_assoc. reflexivity.
    - symmetry. destruct R as [|w R].
      + cbn [tailw flat_map]. rewrite app_nil_r.
        change (pre ++ [sp]) with (pre ++ sp :: []). apply lprefix_sp_nosp. apply Hnosp. exact Hcn.
      + cbn [tailw flat_map]. fold (tailw R). cbn [app].
        destruct (lprefix (pre ++ [sp]) (c ++ sp :: w ++ tailw R)) eqn:E; [|reflexivity].
        exfalso. apply Hd. symmetry. eapply lprefix_sp_eq; [| |exact E]; apply Hnosp; assumption. }
  (* step 2: tilde_to_hole *)
  assert (Hlast : tilde_to_hole (pre ++ sp :: c) = pre ++ sp :: c).
  { destruct (exists_last Hcne) as (i & x & Ei). rewrite Ei in *.
    apply forallb_last in Hcn. apply neg_char_facts in Hcn as (_ & _ & _ & _ & Hx & _).
    change (pre ++ sp :: i ++ [x]) with (pre ++ (sp :: i) ++ [x]). rewrite app_assoc.
    apply tilde_to_hole_snoc. unfold neqc in Hx. apply negb_true_iff. exact Hx. }
  set (R' := maplast tilde_to_hole R).
  assert (R2 : tilde_to_hole ((pre ++ sp :: c) ++ tailw R) = (pre ++ sp :: c) ++ tailw R').
  { destruct R as [|w R].
    - cbn [tailw flat_map]. rewrite !app_nil_r. exact Hlast.
    - apply tilde_to_hole_tailw; [discriminate | apply WOK_nonempty; exact HR]. }
  pose proof (WOK_tth R HR) as HQ. fold R' in HQ.
  (* step 3: sub_star *)
  assert (Hstar : forallb (neqc "*") (pre ++ sp :: c) = true).
  { rewrite forallb_app. cbn [forallb]. rewrite andb_true_iff. split; [|cbn [andb]];
      (eapply forallb_neg; [|eassumption]); intros x Hx; apply neg_char_facts in Hx; tauto. }
  assert (R3 : sub_star 0 ((pre ++ sp :: c) ++ tailw R') = (pre ++ sp :: c) ++ tailw (map (sub_star 0) R')).
  { rewrite sub_star_plain by exact Hstar. f_equal. apply sub_star_tailw.
    eapply Forall_impl; [|exact HQ]. intros w Hw. apply Hw. }
  set (U := map (sub_star 0) R').
  assert (HU : Forall Pw U).
  { unfold U. apply Forall_forall. intros u Hin. apply in_map_iff in Hin as (w & <- & Hin).
    apply Qw_sub. eapply Forall_forall in HQ; eauto. }
  (* step 4: strip_tilde *)
  assert (Hwc : forall w, forallb neg_char w = true -> forallb wordc w = true).
  { intro w. apply forallb_neg. intros x Hx. apply neg_char_facts in Hx. tauto. }
  assert (R4 : strip_tilde [] 0 ((pre ++ sp :: c) ++ tailw U) = (pre ++ sp :: c) ++ strip_tilde [] 0 (tailw U)).
  { rewrite <- !app_assoc. rewrite strip_tilde_word by (try apply Hwc; assumption). cbn [app]. f_equal.
    change (strip_tilde [] 0 (sp :: c ++ tailw U)) with (strip_tilde [sp] 0 (c ++ tailw U)).
    rewrite strip_tilde_word by (try apply Hwc; assumption). reflexivity. }
  exists (strip_tilde [] 0 (tailw U)). split.
  - unfold make_reverse_l. rewrite R1, R2. fold R'. rewrite R3. fold U. rewrite R4.
    rewrite <- app_assoc. reflexivity.
  - apply strip_tilde_tailw. exact HU.
Qed.

(* ------------------------------------------------------------------------------ *)
(* str.format and the words of the result                                          *)

Lemma format_lead A Z key : forallb nobrace A = true -> blank_led Z ->
  format_l (A ++ Z) key = None \/ exists Z', format_l (A ++ Z) key = Some (A ++ Z') /\ blank_led Z'.
Proof.
  intros HA HZ. rewrite format_plain by exact HA.
  destruct HZ as [-> | (z & ->)].
  - right. exists []. split; [reflexivity | left; reflexivity].
  - assert (E : format_l (sp :: z) key = option_map (cons sp) (format_l z key)) by reflexivity.
    rewrite E. destruct (format_l z key) as [z'|]; [|left; reflexivity].
    right. exists (sp :: z'). split; [reflexivity | right; eexists; reflexivity].
Qed.

Lemma words_lead pre c Z : pre <> [] -> c <> [] ->
  forallb (fun x => negb (is_ws x)) pre = true -> forallb (fun x => negb (is_ws x)) c = true -> blank_led Z ->
  exists rest, words (s_of (pre ++ sp :: c ++ Z)) = s_of pre :: s_of c :: rest.
Proof.
  intros Hp Hc Np Nc HZ.
  assert (Ep : is_empty (s_of pre) = false) by (apply is_empty_l_of; rewrite l_of_s_of; exact Hp).
  assert (Ec : is_empty (s_of c) = false) by (apply is_empty_l_of; rewrite l_of_s_of; exact Hc).
  rewrite s_of_app. change (s_of (sp :: c ++ Z)) with (String sp (s_of (c ++ Z))). rewrite s_of_app.
  unfold words. rewrite words_aux_word by (unfold no_ws; rewrite l_of_s_of; exact Np).
  cbn [words_aux]. change (is_ws sp) with true. cbn iota.
  change (("" ++ s_of pre)%string) with (s_of pre). rewrite Ep.
  rewrite words_aux_word by (unfold no_ws; rewrite l_of_s_of; exact Nc).
  change (("" ++ s_of c)%string) with (s_of c).
  destruct HZ as [-> | (z & ->)].
  - cbn [s_of words_aux]. rewrite Ec. eexists. reflexivity.
  - change (s_of (sp :: z)) with (String sp (s_of z)). cbn [words_aux]. change (is_ws sp) with true. cbn iota.
    rewrite Ec. eexists. reflexivity.
Qed.

(* ------------------------------------------------------------------------------ *)
(* the words of a printed pattern of Model/PatternY.v                               *)

Lemma WOK_cons w R : Qw w -> WOK R -> WOK (w :: R).
Proof. intros Hw HR. destruct R; [left; exact Hw | split; assumption]. Qed.

Lemma WOK_app R1 R2 : Forall Qw R1 -> WOK R2 -> WOK (R1 ++ R2).
Proof.
  induction R1 as [|w R1 IH]; intros H1 H2; [exact H2|].
  inversion H1; subst. cbn [app]. apply WOK_cons; [assumption | apply IH; assumption].
Qed.

Lemma plain_head w : plain_word w = true ->
  nows (l_of w) = true /\ exists a r, l_of w = a :: r /\ neqc "~" a = true.
Proof.
  intro H. split.
  - apply graph_nows. apply plain_word_graph. exact H.
  - apply plain_word_first in H as (a & r & E & Ha). exists a, r. split; [exact E|].
    apply lit_char_facts in Ha. tauto.
Qed.

Lemma xtok_Qw t : wf_xtok t = true -> is_xtilde t = false -> Qw (xptok t).
Proof.
  intros H N. split; [apply graph_nows; apply xptok_graph; exact H|].
  destruct t as [w| |r| |r|r]; try discriminate.
  - left. apply plain_head in H as [_ H]. exact H.
  - left. eexists _, _. split; reflexivity.
  - left. rewrite xptok_re. eexists _, _. split; reflexivity.
  - left. rewrite xptok_lre. apply wf_litre in H as [H _]. apply lre_ok_text in H as (Hne & _ & Hl).
    destruct (print_sre_l r) as [|a l]; [congruence|]. exists a, l. split; [reflexivity|].
    cbn [forallb] in Hl. apply andb_true_iff in Hl as [Hl _]. apply lre_char_facts in Hl. tauto.
  - right. exists (print_sre_l r). cbn [wf_xtok] in H. apply lre_ok_text in H as (Hne & Hg & Hl).
    split; [split; [apply xptok_tre | split; assumption]|].
    eapply forallb_impl; [|exact Hl]. intros c Hc. apply lre_char_facts in Hc. tauto.
Qed.

Lemma WOK_xpat q : forallb wf_xtok q = true -> xtilde_last q = true -> WOK (map xptok q).
Proof.
  induction q as [|t q IH]; intros Hwf Htl; [exact I|].
  cbn [forallb] in Hwf. apply andb_true_iff in Hwf as [Ht Hwf].
  destruct q as [|t2 q].
  - cbn [map WOK]. destruct (is_xtilde t) eqn:N.
    + destruct t; try discriminate. right. reflexivity.
    + left. apply xtok_Qw; assumption.
  - cbn [xtilde_last] in Htl. apply andb_true_iff in Htl as [Hnt Htl]. apply negb_true_iff in Hnt.
    rewrite map_cons. apply WOK_cons; [apply xtok_Qw; assumption | apply IH; assumption].
Qed.

Lemma star_led_Qw w : forallb is_graph ("*"%char :: w) = true -> Qw ("*"%char :: w).
Proof. intro H. split; [apply graph_nows; exact H|]. left. eexists _, _. split; reflexivity. Qed.

Lemma ytok_Qw t : wf_ytok t = true -> Qw (l_of (print_ytok t)).
Proof.
  destruct t as [t'|r suf]; cbn [wf_ytok]; intro H.
  - apply andb_true_iff in H as [H N2]. apply andb_true_iff in H as [H N1].
    apply negb_true_iff in N2. apply (xtok_Qw t'); assumption.
  - apply andb_true_iff in H as [H _]. apply andb_true_iff in H as [Hr Hs].
    apply sre_ok_text in Hr as [_ Hr]. apply plain_word_graph in Hs as [Hs _].
    cbn [print_ytok]. unfold print_sre. rewrite !l_of_app, l_of_s_of. apply star_led_Qw.
    cbn [l_of app forallb]. rewrite forallb_app, Hr. cbn [forallb]. rewrite Hs. reflexivity.
Qed.

Lemma plain_suffix_Qw w s : plain_word w = true -> forallb is_graph (l_of s) = true -> Qw (l_of (w ++ s)%string).
Proof.
  intros H Hs. pose proof (plain_word_graph _ H) as [Hg _]. apply plain_head in H as [_ (a & r & E & Ha)].
  rewrite l_of_app. split.
  - apply graph_nows. rewrite forallb_app, Hg, Hs. reflexivity.
  - left. rewrite E. exists a, (r ++ l_of s). auto.
Qed.

Lemma yend_WOK e : wf_yend e = true -> WOK (map l_of (print_yend e)).
Proof.
  destruct e as [| |w|w|a plus|w|r]; cbn [wf_yend print_yend map WOK]; intro H.
  - exact I.
  - right. reflexivity.
  - left. apply plain_suffix_Qw; [exact H | reflexivity].
  - left. apply plain_suffix_Qw; [exact H | reflexivity].
  - left. apply andb_true_iff in H as [H _]. unfold sre_ok_b in H.
    apply andb_true_iff in H as [H _]. apply andb_true_iff in H as [_ Hg].
    unfold print_sre. rewrite !l_of_app, l_of_s_of. apply star_led_Qw.
    cbn [l_of app forallb]. rewrite forallb_app, Hg. destruct plus; reflexivity.
  - left. apply plain_suffix_Qw; [exact H | reflexivity].
  - left. apply andb_true_iff in H as [H _]. apply sre_ok_text in H as [_ Hg].
    unfold print_sre. rewrite !l_of_app, l_of_s_of. apply star_led_Qw.
    cbn [l_of app forallb]. rewrite forallb_app, Hg. reflexivity.
Qed.

Lemma yproj_toks_some ts : forall xts, yproj_toks ts = Some xts -> ts = map YX xts.
Proof.
  induction ts as [|t ts IH]; intros xts H.
  - injection H as <-. reflexivity.
  - destruct t as [t'|]; [|discriminate]. cbn [yproj_toks] in H.
    destruct (yproj_toks ts) as [q|]; [|discriminate]. injection H as <-. cbn [map]. f_equal. apply IH. reflexivity.
Qed.

(* the words behind a literal first word *)
Lemma ypat_rest_WOK p c ts : wf_ypat p = true -> y_toks p = YX (XLit c) :: ts ->
  plain_word c = true /\ WOK (map l_of (map print_ytok ts ++ print_yend (y_end p))).
Proof.
  intros Hwf Et. unfold wf_ypat in Hwf. destruct (yproj p) as [xp|] eqn:Ep.
  - unfold yproj in Ep. destruct (y_end p) eqn:Ee; try discriminate.
    rewrite Et in Ep. cbn [yproj_toks] in Ep.
    destruct (yproj_toks ts) as [xts|] eqn:Ets; [|discriminate]. injection Ep as <-.
    apply yproj_toks_some in Ets. subst ts.
    apply wf_xpat_parts in Hwf as (_ & Hw & Htl). cbn [forallb] in Hw. apply andb_true_iff in Hw as [Hc Hw].
    split; [exact Hc|]. cbn [print_yend]. rewrite app_nil_r, !map_map.
    change (map (fun x => l_of (print_ytok (YX x))) xts) with (map xptok xts).
    apply WOK_xpat; [exact Hw | eapply xtilde_last_tail; exact Htl].
  - unfold wf_ynew in Hwf. apply andb_true_iff in Hwf as [Hwf _]. apply andb_true_iff in Hwf as [Hwf He].
    apply andb_true_iff in Hwf as [_ Hw]. rewrite Et in Hw. cbn [forallb] in Hw.
    apply andb_true_iff in Hw as [Hc Hw]. split.
    + cbn [wf_ytok] in Hc. apply andb_true_iff in Hc as [Hc _]. apply andb_true_iff in Hc as [Hc _]. exact Hc.
    + rewrite map_app. apply WOK_app; [|apply yend_WOK; exact He].
      apply Forall_forall. intros w Hin. rewrite map_map in Hin. apply in_map_iff in Hin as (t & <- & Hin).
      apply ytok_Qw. eapply forallb_forall in Hw; eauto.
Qed.

(* ------------------------------------------------------------------------------ *)
(* lit_vec, read off the parsed pattern                                             *)

Fixpoint lv_go (k : nat) (ts : list ytok) : list lv :=
  match k with
  | O => []
  | S k' =>
    match ts with
    | YX (XLit w) :: r => LvLit w :: lv_go k' r
    | YX (XStarRe re) :: r => LvRe re :: lv_go k' r
    | YX (XLitRe re) :: r => LvRe re :: lv_go k' r
    | t :: r => if ytok_one t then LvAny :: lv_go k' r else repeat LvAny k
    | [] => repeat LvAny k
    end
  end.

Lemma lit_vec_go n pat :
  lit_vec n pat =
  if rule_has_ic pat then repeat LvAny n else
  match yrule_pat pat with Some p => lv_go n (y_toks p) | None => repeat LvAny n end.
Proof. reflexivity. Qed.

Lemma lv_go_lit k ts c l : lv_go (S k) ts = LvLit c :: l ->
  exists ts', ts = YX (XLit c) :: ts' /\ l = lv_go k ts'.
Proof.
  cbn [lv_go]. destruct ts as [|t ts]; [discriminate|].
  destruct t as [[w| |r| |r|r]|r suf]; cbn [ytok_one]; intro H; try discriminate.
  injection H as <- <-. eexists. split; reflexivity.
Qed.

Lemma lit_vec_lit k pat c l : lit_vec (S k) pat = LvLit c :: l ->
  rule_has_ic pat = false /\
  exists p ts, yrule_pat pat = Some p /\ y_toks p = YX (XLit c) :: ts /\ l = lv_go k ts.
Proof.
  rewrite lit_vec_go. destruct (rule_has_ic pat); [discriminate|].
  destruct (yrule_pat pat) as [p|]; [|discriminate].
  intro H. apply lv_go_lit in H as (ts & E & El). split; [reflexivity|]. exists p, ts. auto.
Qed.

(* ------------------------------------------------------------------------------ *)
(* (A) the removal command of a pattern starting with the literal c <> prefix       *)

Theorem lit_vec_reverse_words prefix pp c key :
  neg_word prefix = true -> lit_vec 1 pp = [LvLit c] -> c <> prefix ->
  words (format_template (make_reverse pp prefix) key) = [] \/
  exists rest, words (format_template (make_reverse pp prefix) key) = prefix :: c :: rest.
Proof.
  intros Hp Hv Hd. apply lit_vec_lit in Hv as (Hic & p & ts & Ep & Et & _).
  unfold yrule_pat in Ep. rewrite rule_strip_ic_noop in Ep by exact Hic.
  apply parse_ypat_sound in Ep as [Hwf Epr].
  destruct (ypat_rest_WOK p c ts Hwf Et) as [Hc HR].
  set (R := map l_of (map print_ytok ts ++ print_yend (y_end p))) in *.
  assert (Etext : l_of pp = l_of c ++ tailw R).
  { rewrite <- Epr. unfold print_ypat, ypat_words. rewrite Et, l_of_join. cbn [map app print_ytok print_xtok].
    apply ljoin_tailw. }
  unfold neg_word in Hp. apply andb_true_iff in Hp as [Hpne Hp].
  apply negb_true_iff, is_empty_l_of in Hpne.
  assert (Hcc : l_of c <> [] /\ forallb lit_char (l_of c) = true).
  { unfold plain_word in Hc. apply andb_true_iff in Hc as [H1 H2]. split; [|exact H2].
    apply is_empty_l_of, negb_true_iff. exact H1. }
  destruct Hcc as [Hcne Hcl].
  assert (Hdl : l_of c <> l_of prefix) by (intro E; apply Hd, l_of_inj; exact E).
  destruct (make_reverse_l_lead (l_of prefix) (l_of c) R Hpne Hp Hcne Hcl Hdl HR) as (Z & EZ & HZ).
  unfold format_template, format_template_opt, make_reverse. rewrite l_of_s_of, Etext, EZ.
  assert (Hcn : forallb neg_char (l_of c) = true) by (eapply forallb_impl; [|exact Hcl]; exact lit_neg_char).
  assert (Hnb : forallb nobrace (l_of prefix ++ sp :: l_of c) = true).
  { rewrite forallb_app. cbn [forallb]. apply andb_true_iff. split; [|cbn [andb]];
      (eapply forallb_neg; [|eassumption]); intros x Hx; apply neg_char_facts in Hx; tauto. }
  replace (l_of prefix ++ sp :: l_of c ++ Z) with ((l_of prefix ++ sp :: l_of c) ++ Z)
    by (rewrite <- app_assoc; reflexivity).
  destruct (format_lead _ Z key Hnb HZ) as [-> | (Z' & -> & HZ')]; [left; reflexivity|].
  right. cbn [option_map]. rewrite <- app_assoc. cbn [app].
  assert (Hnw : forall w, forallb neg_char w = true -> forallb (fun x => negb (is_ws x)) w = true).
  { intro w. apply forallb_neg. intros x Hx. apply neg_char_facts in Hx as (_ & Hx & _). rewrite Hx. reflexivity. }
  destruct (words_lead (l_of prefix) (l_of c) Z' Hpne Hcne (Hnw _ Hp) (Hnw _ Hcn) HZ') as (rest & Er).
  rewrite !s_of_l_of in Er. exists rest. exact Er.
Qed.

(* ------------------------------------------------------------------------------ *)
(* (B) a literal first (second) word of the pattern is the first (second) word of a matched row *)

Lemma word_eq_false a x : word_eq false a x = true -> x = a.
Proof.
  unfold word_eq. cbn [andb]. rewrite orb_false_r. intro H. apply String.eqb_eq in H. auto.
Qed.

Lemma xmatch_lit_head cap nb a q ws k :
  nb && is_nil q = false ->
  xmatch_words cap nb (XLit a :: q) false ws = Some k ->
  exists ws' k', ws = a :: ws' /\ xmatch_words cap nb q false ws' = Some k'.
Proof.
  intros Hn H. cbn [xmatch_words] in H. destruct ws as [|x ws']; [discriminate|].
  replace (nb && match q with [] => true | _ :: _ => false end) with false in H
    by (symmetry; exact Hn).
  cbn [xtok_ok] in H. destruct (word_eq false a x) eqn:E; [|discriminate].
  apply word_eq_false in E. subst x.
  destruct (xmatch_words cap nb q false ws') as [k'|] eqn:E'; [|discriminate]. eauto.
Qed.

Lemma ymatch_lit_head e a ts ws k :
  ymatch_toks false e (YX (XLit a) :: ts) ws = Some k ->
  exists ws' k', ws = a :: ws' /\ ymatch_toks false e ts ws' = Some k'.
Proof.
  intro H. cbn [ymatch_toks] in H. destruct ws as [|x ws']; [discriminate|].
  cbn [ytok_match xtok_ok] in H. destruct (word_eq false a x) eqn:E; [|discriminate].
  apply word_eq_false in E. subst x.
  destruct (ymatch_toks false e ts ws') as [k'|] eqn:E'; [|discriminate]. eauto.
Qed.

Theorem ym_lit_words po row k a x :
  lit_vec 2 po = [LvLit a; x] -> ym po row = Some k ->
  exists rest, words row = a :: rest /\ (forall b, x = LvLit b -> exists rest', rest = b :: rest').
Proof.
  intros Hv Hm. apply lit_vec_lit in Hv as (Hic & p & ts & Ep & Et & El).
  unfold ym, yrule_match in Hm. rewrite Ep in Hm. unfold rule_ic in Hm. rewrite Hic in Hm. cbn [orb] in Hm.
  unfold ypmatch in Hm. destruct (yproj p) as [xp|] eqn:Ex.
  - unfold yproj in Ex. destruct (y_end p); try discriminate. rewrite Et in Ex. cbn [yproj_toks] in Ex.
    destruct (yproj_toks ts) as [xts|] eqn:Ets; [|discriminate]. injection Ex as <-.
    apply yproj_toks_some in Ets. subst ts.
    unfold xpmatch in Hm.
    apply xmatch_lit_head in Hm as (ws' & k' & Ew & Hm').
    + exists ws'. split; [exact Ew|]. intros b ->. symmetry in El. apply lv_go_lit in El as (ts' & E2 & _).
      destruct xts as [|t2 xts]; [discriminate|]. cbn [map] in E2. injection E2 as -> _.
      apply xmatch_lit_head in Hm' as (ws'' & _ & -> & _); [eauto|].
      destruct xts; [reflexivity | apply andb_false_r].
    + destruct xts; [reflexivity | apply andb_false_r].
  - rewrite Et in Hm. apply ymatch_lit_head in Hm as (ws' & k' & Ew & Hm').
    exists ws'. split; [exact Ew|]. intros b ->. symmetry in El. apply lv_go_lit in El as (ts' & -> & _).
    apply ymatch_lit_head in Hm' as (ws'' & _ & -> & _). eauto.
Qed.

(* a pattern outside the modelled language matches nothing *)
Lemma ym_notok po row : pat_ok po = false -> ym po row = None.
Proof.
  unfold pat_ok, ym, yrule_match. destruct (yrule_pat po); [discriminate | reflexivity].
Qed.

(* ------------------------------------------------------------------------------ *)
(* soundness of the literal-word test                                               *)

Theorem lit_quiet_v_sound prefix po pp key :
  neg_word prefix = true ->
  lit_quiet_v prefix (pat_ok po, lit_vec 2 po) (lit_vec 1 pp) = true ->
  ym po (format_template (make_reverse pp prefix) key) = None.
Proof.
  intros Hp H. unfold lit_quiet_v in H. cbn [fst snd] in H.
  destruct (pat_ok po) eqn:Eok; [|apply ym_notok; exact Eok]. cbn [negb orb] in H.
  destruct (lit_vec 1 pp) as [|[|c|] [|]] eqn:Evp; try discriminate.
  apply andb_true_iff in H as [Hc H]. apply negb_true_iff in Hc. apply String.eqb_neq in Hc.
  destruct (ym po (format_template (make_reverse pp prefix) key)) as [k|] eqn:Em; [exfalso|reflexivity].
  destruct (lit_vec 2 po) as [|[|a|] [|x [|]]] eqn:Evo; try discriminate; [|destruct x; discriminate].
  destruct (ym_lit_words _ _ _ _ _ Evo Em) as (rest & Ew & Hx).
  destruct (lit_vec_reverse_words prefix pp c key Hp Evp Hc) as [E0 | (rest0 & E0)];
    rewrite E0 in Ew; [discriminate|].
  injection Ew as Ea Er. subst a rest.
  destruct x as [|b|r].
  - rewrite String.eqb_refl in H. discriminate.
  - destruct (Hx b eq_refl) as (rest' & Eb). injection Eb as Eb _. subst b.
    rewrite !String.eqb_refl in H. discriminate.
  - rewrite String.eqb_refl in H. discriminate.
Qed.

Theorem lit_quiet_sound_neg :
  forall prefix, neg_word prefix = true ->
  forall OR pp, lit_quiet prefix OR pp = true ->
  forall po key, In po OR -> ym po (format_template (make_reverse pp prefix) key) = None.
Proof.
  intros prefix Hp OR pp H po key Hin. unfold lit_quiet in H.
  rewrite forallb_forall in H. apply (lit_quiet_v_sound prefix po pp key Hp).
  apply H. apply (in_map (fun po => (pat_ok po, lit_vec 2 po))). exact Hin.
Qed.

Corollary lit_quiet_sound_plain :
  forall prefix, plain_word prefix = true ->
  forall OR pp, lit_quiet prefix OR pp = true ->
  forall po key, In po OR -> ym po (format_template (make_reverse pp prefix) key) = None.
Proof. intros prefix Hp. apply lit_quiet_sound_neg. apply plain_neg_word. exact Hp. Qed.

(* ------------------------------------------------------------------------------ *)
(* the statement as written in Properties/C01.v (C01_lit_quiet_sound_statement)     *)

(* for every negation word that is a word: *)
Theorem lit_quiet_sound :
  forall prefix, neg_word prefix = true ->
  forall OR pp, lit_quiet prefix OR pp = true ->
  forall po key, In po OR -> ym po (format_template (make_reverse pp prefix) key) = None.
Proof. exact lit_quiet_sound_neg. Qed.

(* WITHOUT the hypothesis the statement is false: the test does not look at the negation word.
   Replayed on the real code (annet.rulebook.patching._make_reverse + rbparser.syntax.compile_row_regexp):
   [lit_quiet_unsound_blank] and [lit_quiet_unsound_star] reproduce (the ordering regexp matches the removal command);
   the witnesses with a leading blank in the command (tab / empty / tilde) are rejected by the real anchored regexp -
   there the word-level matcher [ym] is only claimed on wf_row rows (C07), so they are witnesses of the model only. *)
Definition lit_quiet_refuted (prefix : string) (OR : list string) (pp po : string) (key : list string) : Prop :=
  lit_quiet prefix OR pp = true /\ In po OR /\ ym po (format_template (make_reverse pp prefix) key) <> None.

Example lit_quiet_unsound_blank :      (* a blank in the negation word: `c d c y` loses `c d ` *)
  lit_quiet_refuted "c d" ["c y"] "c d c y" "c y" [].
Proof. vm_compute. repeat split; [left; reflexivity | discriminate]. Qed.
Example lit_quiet_unsound_tab :        (* any white space: the words of the command `<tab>b c` are b, c *)
  lit_quiet_refuted (String tab "b") ["b c"] "c" "b c" [].
Proof. vm_compute. repeat split; [left; reflexivity | discriminate]. Qed.
Example lit_quiet_unsound_empty :      (* the empty negation word: the command is ` c` *)
  lit_quiet_refuted "" ["c"] "c" "c" [].
Proof. vm_compute. repeat split; [left; reflexivity | discriminate]. Qed.
Example lit_quiet_unsound_star :       (* `*` becomes a placeholder: the key supplies the first word *)
  lit_quiet_refuted "*" ["x c"] "c" "x c" ["x"].
Proof. vm_compute. repeat split; [left; reflexivity | discriminate]. Qed.
Example lit_quiet_unsound_tilde :      (* `~` is cut out of the template *)
  lit_quiet_refuted "~" ["c"] "c" "c" [].
Proof. vm_compute. repeat split; [left; reflexivity | discriminate]. Qed.

Theorem lit_quiet_statement_false :
  ~ (forall prefix OR pp, lit_quiet prefix OR pp = true ->
     forall po key, In po OR -> ym po (format_template (make_reverse pp prefix) key) = None).
Proof.
  intro H. destruct lit_quiet_unsound_blank as (H1 & H2 & H3). apply H3. eapply H; eassumption.
Qed.

(* the test guarded by the check of the negation word is sound for every argument: a pattern test
   of the shape Proofs/ShippedRules.v (shipped_entry_converges) asks for *)
Definition lit_quiet_g (prefix : string) (OR : list string) (pp : string) : bool :=
  neg_word prefix && lit_quiet prefix OR pp.

Theorem lit_quiet_g_sound :
  forall prefix OR pp, lit_quiet_g prefix OR pp = true ->
  forall po key, In po OR -> ym po (format_template (make_reverse pp prefix) key) = None.
Proof.
  intros prefix OR pp H. unfold lit_quiet_g in H. apply andb_true_iff in H as [Hp H].
  apply lit_quiet_sound; assumption.
Qed.

(* every shipped negation word passes (undo, no, delete, /, -, ...): by computation *)
From Annet Require Import Gen.Src_rules.
Lemma shipped_neg_words : forallb (fun h => neg_word (sh_reverse h)) Src_shipped = true.
Proof. vm_compute. reflexivity. Qed.
Lemma shipped_plain_words : forallb (fun h => plain_word (sh_reverse h)) Src_shipped = true.
Proof. vm_compute. reflexivity. Qed.

(* ------------------------------------------------------------------------------ *)
(* consequence: C01_shipped_converges_partial (Properties/C01.v) without its hypothesis, for every
   shipped hardware entry, huawei included *)
From Annet Require Import Base.Tree Model.Rulebook Model.Diff Model.Order Model.Patch Model.Blocks Model.Pipeline
     Model.Device Spec.P_C01 Proofs.ConvergeDevice Proofs.ConvergeRun Proofs.ConvergeBlocks Proofs.ConvergeSim
     Proofs.ConvergeMain Proofs.ConvergeTop Model.ShippedText Proofs.ConvergeMainQ Proofs.ShippedRules
     Proofs.ShippedTables.

Lemma shipped_all_ok_lit_g : forall h, In h Src_shipped -> shipped_entry_ok lit_quiet_g h = true.
Proof.
  intros h Hin.
  assert (Hok : shipped_entry_ok lit_quiet h = true).
  { pose proof shipped_all_ok_lit as H. rewrite forallb_forall in H. exact (H h Hin). }
  assert (Hn : neg_word (sh_reverse h) = true).
  { pose proof shipped_neg_words as H. rewrite forallb_forall in H. exact (H h Hin). }
  unfold shipped_entry_ok, lit_quiet_g in *. rewrite Hn. exact Hok.
Qed.

Theorem shipped_converges_lit :
  forall h, In h Src_shipped ->
  forall R ord fam, shipped_rset h = Some R -> shipped_ordering h = Some ord -> block_family fam = true ->
  let v := Vendor (sh_reverse h) (sh_exit h) fam in
  forall old new, wf_A_y v R old new = true ->
  exists pt, y_patch v R ord old new = POk pt /\
    let dev := y_exec v R (cmd_paths fam pt) old in
    sim dev (y_expected R old new) /\ ConvergeMain.good ym R (merge old new) dev.
Proof.
  intros h Hin R ord fam HR HO Hf v old new Hw.
  apply (shipped_entry_converges lit_quiet_g lit_quiet_g_sound h R ord fam
           (shipped_all_ok_lit_g h Hin) HR HO Hf old new Hw).
Qed.
