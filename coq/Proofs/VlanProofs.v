(* C11 lemma library: range expansion, collapse_vlandb, chunking, the command simulator and
   the rule logics of Model/Vlan.v. *)
From Coq Require Import List String Ascii Bool Arith NArith Lia Sorted Permutation SetoidList.
From Coq Require Import MSets MSetAVL MSetFacts MSetProperties MSetDecide.
From Annet Require Import Base.Str Model.Vlan Spec.P_C11.
Import ListNotations.
Open Scope list_scope.
Open Scope N_scope.

Module NSF := MSetFacts.WFacts(NS).
Module NSP := MSetProperties.WProperties(NS).
Module NSD := MSetDecide.WDecide(NS).

(* ------------------------------------------------------------------------------------ *)
(* ranges as sets *)

Definition in_range (v : N) (r : range) : Prop := fst r <= v <= snd r.
Definition in_ranges (v : N) (rs : list range) : Prop := exists r, In r rs /\ in_range v r.

Lemma iter_range_step n : forall lo s,
  fst (N.iter n range_step (lo, s)) = lo + n /\
  forall v, NS.In v (snd (N.iter n range_step (lo, s))) <-> (lo <= v < lo + n) \/ NS.In v s.
Proof.
  induction n as [|n IH] using N.peano_ind; intros lo s.
  - cbn. split; [lia|]. intro v. split; [intro H; now right|intros [H|H]; [lia|exact H]].
  - rewrite N.iter_succ. destruct (IH lo s) as [F I].
    set (p := N.iter n range_step (lo, s)) in *.
    unfold range_step. cbn [fst snd]. rewrite F. split; [lia|].
    intro v. rewrite NS.add_spec, I. split.
    + intros [E|[H|H]]; [left; lia|left; lia|now right].
    + intros [H|H]; [|now right; right].
      destruct (N.eq_dec v (lo + n)) as [E|E]; [now left|right; left; lia].
Qed.

Lemma add_count_spec lo n s v :
  NS.In v (add_count lo n s) <-> (lo <= v < lo + n) \/ NS.In v s.
Proof. unfold add_count. apply iter_range_step. Qed.

Lemma add_range_spec lo hi s v :
  NS.In v (add_range lo hi s) <-> (lo <= v <= hi) \/ NS.In v s.
Proof.
  unfold add_range. rewrite add_count_spec. split; intros [H|H]; try (now right); left; lia.
Qed.

Lemma add_pyrange_spec a b s v :
  NS.In v (add_pyrange a b s) <-> (a <= v < b) \/ NS.In v s.
Proof.
  unfold add_pyrange. rewrite add_count_spec. split; intros [H|H]; try (now right); left; lia.
Qed.

Lemma set_of_ranges_spec rs v : NS.In v (set_of_ranges rs) <-> in_ranges v rs.
Proof.
  induction rs as [|r rs IH]; cbn [set_of_ranges fold_right].
  - split; [intro H; exfalso; revert H; apply NSF.empty_iff|intros (r & [] & _)].
  - fold (set_of_ranges rs). rewrite add_range_spec, IH. split.
    + intros [H|(q & Hq & Hv)]; [exists r; split; [now left|exact H]|exists q; split; [now right|exact Hv]].
    + intros (q & [E|Hq] & Hv); [subst q; now left|right; exists q; now split].
Qed.

Lemma in_ranges_app v a b : in_ranges v (a ++ b) <-> in_ranges v a \/ in_ranges v b.
Proof.
  unfold in_ranges. split.
  - intros (r & H & Hv). apply in_app_or in H as [H|H]; [left|right]; exists r; now split.
  - intros [(r & H & Hv)|(r & H & Hv)]; exists r; split; auto using in_or_app.
Qed.

Lemma in_ranges_concat v cs : in_ranges v (concat cs) <-> exists c, In c cs /\ in_ranges v c.
Proof.
  induction cs as [|c cs IH]; cbn [concat].
  - split; [intros (r & [] & _)|intros (c & [] & _)].
  - rewrite in_ranges_app, IH. split.
    + intros [H|(d & Hd & H)]; [exists c; split; [now left|exact H]|exists d; split; [now right|exact H]].
    + intros (d & [E|Hd] & H); [subst d; now left|right; exists d; now split].
Qed.

(* ------------------------------------------------------------------------------------ *)
(* collapse_vlandb *)

Lemma collapse_go_spec tiny : forall l lo hi,
  lo <= hi -> Sorted N.lt (hi :: l) ->
  forall v, in_ranges v (collapse_go tiny lo hi l) <-> (lo <= v <= hi) \/ In v l.
Proof.
  induction l as [|x l IH]; intros lo hi Hle Hs v; cbn [collapse_go].
  - split.
    + intros (r & [E|[]] & Hv). subst r. now left.
    + intros [H|[]]. exists (lo, hi). split; [now left|exact H].
  - apply Sorted_inv in Hs as [Hs Hd]. apply HdRel_inv in Hd.
    destruct (N.eqb_spec (N.succ hi) x) as [E|E].
    + rewrite IH by (try exact Hs; lia). cbn [In]. split.
      * intros [H|H]; [|now right; right].
        destruct (N.eq_dec v x) as [Ev|Ev]; [right; left; now symmetry|left; lia].
      * intros [H|[H|H]]; [left; lia|left; lia|now right].
    + destruct (negb tiny && N.eqb (hi - lo) 1) eqn:T.
      * apply andb_true_iff in T as [_ T]. apply N.eqb_eq in T.
        assert (IH' := IH x x (N.le_refl x) Hs v).
        split.
        -- intros (r & [Er|[Er|Hr]] & Hv).
           ++ subst r. unfold in_range in Hv; cbn in Hv. left; lia.
           ++ subst r. unfold in_range in Hv; cbn in Hv. left; lia.
           ++ assert (H : in_ranges v (collapse_go tiny x x l)) by (exists r; now split).
              apply IH' in H as [H|H]; right; [left; lia|now right].
        -- intros [H|[H|H]].
           ++ destruct (N.eq_dec v lo) as [Ev|Ev].
              ** exists (lo, lo). split; [now left|unfold in_range; cbn; lia].
              ** exists (hi, hi). split; [right; now left|unfold in_range; cbn; lia].
           ++ assert (H' : in_ranges v (collapse_go tiny x x l)) by (apply IH'; left; lia).
              destruct H' as (r & Hr & Hv). exists r. split; [right; right; exact Hr|exact Hv].
           ++ assert (H' : in_ranges v (collapse_go tiny x x l)) by (apply IH'; now right).
              destruct H' as (r & Hr & Hv). exists r. split; [right; right; exact Hr|exact Hv].
      * assert (IH' := IH x x (N.le_refl x) Hs v).
        split.
        -- intros (r & [Er|Hr] & Hv).
           ++ subst r. now left.
           ++ assert (H : in_ranges v (collapse_go tiny x x l)) by (exists r; now split).
              apply IH' in H as [H|H]; right; [left; lia|now right].
        -- intros [H|[H|H]].
           ++ exists (lo, hi). split; [now left|exact H].
           ++ assert (H' : in_ranges v (collapse_go tiny x x l)) by (apply IH'; left; lia).
              destruct H' as (r & Hr & Hv). exists r. split; [right; exact Hr|exact Hv].
           ++ assert (H' : in_ranges v (collapse_go tiny x x l)) by (apply IH'; now right).
              destruct H' as (r & Hr & Hv). exists r. split; [right; exact Hr|exact Hv].
Qed.

Lemma In_elements s v : In v (NS.elements s) <-> NS.In v s.
Proof.
  rewrite <- NS.elements_spec1. split.
  - intro H. apply In_InA; [typeclasses eauto|exact H].
  - intro H. apply InA_alt in H as (y & E & H). now subst y.
Qed.

(* expanding the collapsed rows gives back the set (any tiny_ranges flag) *)
Lemma collapse_spec tiny s v : in_ranges v (collapse tiny s) <-> NS.In v s.
Proof.
  unfold collapse. rewrite <- In_elements.
  assert (Hs := NS.elements_spec2 s).
  destruct (NS.elements s) as [|x l].
  - split; [intros (r & [] & _)|intros []].
  - rewrite collapse_go_spec; [|apply N.le_refl|exact Hs]. cbn [In]. split.
    + intros [H|H]; [left; lia|now right].
    + intros [H|H]; [left; lia|now right].
Qed.

(* every collapsed row is written lo <= hi *)
Lemma collapse_go_ok tiny : forall l lo hi,
  lo <= hi -> Sorted N.lt (hi :: l) ->
  Forall (fun r => fst r <= snd r) (collapse_go tiny lo hi l).
Proof.
  induction l as [|x l IH]; intros lo hi Hle Hs; cbn [collapse_go].
  - constructor; [exact Hle|constructor].
  - apply Sorted_inv in Hs as [Hs Hd]. apply HdRel_inv in Hd.
    destruct (N.eqb_spec (N.succ hi) x) as [E|E].
    + apply IH; [lia|exact Hs].
    + destruct (negb tiny && N.eqb (hi - lo) 1).
      * constructor; [cbn; lia|]. constructor; [cbn; lia|]. apply IH; [lia|exact Hs].
      * constructor; [exact Hle|]. apply IH; [lia|exact Hs].
Qed.

Lemma collapse_ok tiny s : Forall (fun r => fst r <= snd r) (collapse tiny s).
Proof.
  unfold collapse. assert (Hs := NS.elements_spec2 s).
  destruct (NS.elements s) as [|x l]; [constructor|].
  apply collapse_go_ok; [lia|exact Hs].
Qed.

(* ------------------------------------------------------------------------------------ *)
(* _chunked *)

Lemma chunked_fuel_concat {A} (n : nat) : forall fuel (l : list A),
  (List.length l <= fuel)%nat -> concat (chunked_fuel fuel (S n) l) = l.
Proof.
  induction fuel as [|f IH]; intros l Hl.
  - destruct l; [reflexivity|cbn in Hl; lia].
  - cbn [chunked_fuel]. destruct l as [|x l]; [reflexivity|].
    cbn [concat]. rewrite IH.
    + apply firstn_skipn.
    + rewrite skipn_length. cbn [List.length] in *. lia.
Qed.

Lemma chunked_concat {A} (n : nat) (l : list A) : concat (chunked (S n) l) = l.
Proof. unfold chunked. apply chunked_fuel_concat. lia. Qed.

Lemma chunks_of_concat lg rs : concat (chunks_of lg rs) = rs.
Proof.
  unfold chunks_of, chunk_size. destruct lg; try apply chunked_concat.
  cbn. apply app_nil_r.
Qed.

(* ------------------------------------------------------------------------------------ *)
(* the simulator on lists of Add / Remove commands *)

Definition simple_cmd (c : cmd) : Prop := match c with Add _ | Remove _ => True | _ => False end.

(* VLANs some Remove (resp. Add) command of the list names *)
Definition removes (cs : list cmd) (v : N) : Prop := exists rs, In (Remove rs) cs /\ in_ranges v rs.
Definition adds (cs : list cmd) (v : N) : Prop := exists rs, In (Add rs) cs /\ in_ranges v rs.

Lemma removes_cons_remove rs cs v : removes (Remove rs :: cs) v <-> in_ranges v rs \/ removes cs v.
Proof.
  unfold removes. split.
  - intros (q & [E|H] & Hv); [injection E as E; subst q; now left|right; exists q; now split].
  - intros [H|(q & H & Hv)]; [exists rs; split; [now left|exact H]|exists q; split; [now right|exact Hv]].
Qed.

Lemma removes_cons_add rs cs v : removes (Add rs :: cs) v <-> removes cs v.
Proof.
  unfold removes. split.
  - intros (q & [E|H] & Hv); [discriminate E|exists q; now split].
  - intros (q & H & Hv). exists q; split; [now right|exact Hv].
Qed.

Lemma adds_cons_add rs cs v : adds (Add rs :: cs) v <-> in_ranges v rs \/ adds cs v.
Proof.
  unfold adds. split.
  - intros (q & [E|H] & Hv); [injection E as E; subst q; now left|right; exists q; now split].
  - intros [H|(q & H & Hv)]; [exists rs; split; [now left|exact H]|exists q; split; [now right|exact Hv]].
Qed.

Lemma adds_cons_remove rs cs v : adds (Remove rs :: cs) v <-> adds cs v.
Proof.
  unfold adds. split.
  - intros (q & [E|H] & Hv); [discriminate E|exists q; now split].
  - intros (q & H & Hv). exists q; split; [now right|exact Hv].
Qed.

(* effect of any sequence of Add/Remove commands whose removed and added VLANs are disjoint *)
Lemma simulate_spec : forall cs s,
  Forall simple_cmd cs ->
  (forall v, removes cs v -> adds cs v -> False) ->
  forall v, NS.In v (simulate cs s) <-> (NS.In v s /\ ~ removes cs v) \/ adds cs v.
Proof.
  induction cs as [|c cs IH]; intros s Hf Hd v; cbn [simulate].
  - split.
    + intro H. left. split; [exact H|intros (q & [] & _)].
    + intros [[H _]|(q & [] & _)]. exact H.
  - apply Forall_cons_iff in Hf as [Hc Hf].
    destruct c as [rs|rs| | |rs]; try contradiction; cbn [step].
    + (* Add *)
      rewrite IH; [|exact Hf|].
      * rewrite NS.union_spec, set_of_ranges_spec, adds_cons_add.
        assert (D := Hd v). rewrite removes_cons_add, adds_cons_add in D.
        rewrite removes_cons_add. tauto.
      * intros w Hr Ha. apply (Hd w); [now apply removes_cons_add|apply adds_cons_add; now right].
    + (* Remove *)
      rewrite IH; [|exact Hf|].
      * rewrite NS.diff_spec, set_of_ranges_spec, adds_cons_remove.
        assert (D := Hd v). rewrite removes_cons_remove, adds_cons_remove in D.
        rewrite removes_cons_remove. tauto.
      * intros w Hr Ha. apply (Hd w); [apply removes_cons_remove; now right|now apply adds_cons_remove].
Qed.

Lemma removes_perm cs cs' v : Permutation cs cs' -> removes cs v -> removes cs' v.
Proof. intros P (q & H & Hv). exists q. split; [eapply Permutation_in; eassumption|exact Hv]. Qed.

Lemma adds_perm cs cs' v : Permutation cs cs' -> adds cs v -> adds cs' v.
Proof. intros P (q & H & Hv). exists q. split; [eapply Permutation_in; eassumption|exact Hv]. Qed.

Lemma removes_app_l l1 l2 v : removes l1 v -> removes (l1 ++ l2) v.
Proof. intros (q & H & Hv). exists q. split; [apply in_or_app; now left|exact Hv]. Qed.

Lemma adds_app_l l1 l2 v : adds l1 v -> adds (l1 ++ l2) v.
Proof. intros (q & H & Hv). exists q. split; [apply in_or_app; now left|exact Hv]. Qed.

(* the command list  [Remove chunk ...] ++ [Add chunk ...]  built from two sets *)
Definition cmds_of (lg : logic) (tiny : bool) (R A : NS.t) : list cmd :=
  (if NS.is_empty R then [] else map Remove (chunks_of lg (collapse tiny R))) ++
  (if NS.is_empty A then [] else map Add (chunks_of lg (collapse tiny A))).

Lemma cmds_of_simple lg tiny R A : Forall simple_cmd (cmds_of lg tiny R A).
Proof.
  unfold cmds_of. apply Forall_app. split.
  - destruct (NS.is_empty R); [constructor|]. apply Forall_forall. intros c H.
    apply in_map_iff in H as (x & E & _). subst c. exact I.
  - destruct (NS.is_empty A); [constructor|]. apply Forall_forall. intros c H.
    apply in_map_iff in H as (x & E & _). subst c. exact I.
Qed.

Lemma in_chunks_collapse lg tiny X v :
  (exists rs, In rs (chunks_of lg (collapse tiny X)) /\ in_ranges v rs) <-> NS.In v X.
Proof. rewrite <- in_ranges_concat, chunks_of_concat. apply collapse_spec. Qed.

Lemma cmds_of_removes lg tiny R A v : removes (cmds_of lg tiny R A) v <-> NS.In v R.
Proof.
  unfold removes, cmds_of. split.
  - intros (rs & H & Hv). apply in_app_or in H as [H|H].
    + destruct (NS.is_empty R); [destruct H|].
      apply in_map_iff in H as (x & E & Hx). injection E as E. subst x.
      apply (in_chunks_collapse lg tiny). exists rs. now split.
    + destruct (NS.is_empty A); [destruct H|].
      apply in_map_iff in H as (x & E & _). discriminate E.
  - intro H. destruct (NS.is_empty R) eqn:E.
    + apply NS.is_empty_spec in E. exfalso. exact (E v H).
    + apply (in_chunks_collapse lg tiny) in H as (rs & Hrs & Hv). exists rs. split; [|exact Hv].
      apply in_or_app. left. apply in_map. exact Hrs.
Qed.

Lemma cmds_of_adds lg tiny R A v : adds (cmds_of lg tiny R A) v <-> NS.In v A.
Proof.
  unfold adds, cmds_of. split.
  - intros (rs & H & Hv). apply in_app_or in H as [H|H].
    + destruct (NS.is_empty R); [destruct H|].
      apply in_map_iff in H as (x & E & _). discriminate E.
    + destruct (NS.is_empty A); [destruct H|].
      apply in_map_iff in H as (x & E & Hx). injection E as E. subst x.
      apply (in_chunks_collapse lg tiny). exists rs. now split.
  - intro H. destruct (NS.is_empty A) eqn:E.
    + apply NS.is_empty_spec in E. exfalso. exact (E v H).
    + apply (in_chunks_collapse lg tiny) in H as (rs & Hrs & Hv). exists rs. split; [|exact Hv].
      apply in_or_app. right. apply in_map. exact Hrs.
Qed.

(* ------------------------------------------------------------------------------------ *)
(* lines: equality test, the three-way split of the row diff *)

Lemma range_eqb_eq a b : range_eqb a b = true <-> a = b.
Proof.
  destruct a as [a1 a2], b as [b1 b2]. unfold range_eqb. cbn [fst snd].
  rewrite andb_true_iff, !N.eqb_eq. split; [intros [-> ->]; reflexivity|intro E; injection E as -> ->; now split].
Qed.

Lemma ranges_eqb_eq : forall a b, ranges_eqb a b = true <-> a = b.
Proof.
  induction a as [|x a IH]; intros [|y b]; cbn [ranges_eqb]; try (split; [discriminate|discriminate]).
  - split; reflexivity.
  - rewrite andb_true_iff, range_eqb_eq, IH. split; [intros [-> ->]; reflexivity|intro E; injection E as -> ->; now split].
Qed.

Lemma line_eqb_eq a b : line_eqb a b = true <-> a = b.
Proof.
  destruct a as [fa ra], b as [fb rb]. unfold line_eqb. cbn [fst snd].
  rewrite andb_true_iff, ranges_eqb_eq, Bool.eqb_true_iff.
  split; [intros [-> ->]; reflexivity|intro E; injection E as -> ->; now split].
Qed.

Lemma mem_line_In x l : mem_line x l = true <-> In x l.
Proof.
  unfold mem_line. rewrite existsb_exists. split.
  - intros (y & H & E). apply line_eqb_eq in E. now subst y.
  - intro H. exists x. split; [exact H|now apply line_eqb_eq].
Qed.

Lemma set_of_lines_spec ls v :
  NS.In v (set_of_lines ls) <-> exists l, In l ls /\ NS.In v (line_set l).
Proof.
  induction ls as [|l ls IH]; cbn [set_of_lines fold_right].
  - split; [intro H; exfalso; revert H; apply NSF.empty_iff|intros (l & [] & _)].
  - fold (set_of_lines ls). rewrite NS.union_spec, IH. unfold line_set. split.
    + intros [H|(m & Hm & H)]; [exists l; split; [now left|exact H]|exists m; split; [now right|exact H]].
    + intros (m & [E|Hm] & H); [subst m; now left|right; exists m; now split].
Qed.

Lemma pairwise_disjoint_spec : forall ls l1 l2,
  pairwise_disjoint ls = true -> In l1 ls -> In l2 ls -> l1 <> l2 ->
  forall v, NS.In v (line_set l1) -> NS.In v (line_set l2) -> False.
Proof.
  induction ls as [|l ls IH]; intros l1 l2 Hp H1 H2 Hne v Hv1 Hv2; [destruct H1|].
  cbn [pairwise_disjoint] in Hp. apply andb_true_iff in Hp as [Hh Hp].
  rewrite forallb_forall in Hh.
  assert (D : forall m, In m ls -> NS.In v (line_set l) -> NS.In v (line_set m) -> False).
  { intros m Hm Ha Hb. specialize (Hh m Hm). unfold disjointb in Hh.
    apply NS.is_empty_spec in Hh. apply (Hh v). apply NS.inter_spec. now split. }
  destruct H1 as [E1|H1], H2 as [E2|H2].
  - subst. now apply Hne.
  - subst l1. exact (D l2 H2 Hv1 Hv2).
  - subst l2. exact (D l1 H1 Hv2 Hv1).
  - exact (IH l1 l2 Hp H1 H2 Hne v Hv1 Hv2).
Qed.

Section Diff.
  Variables (old new : list line).
  Let U := set_of_lines (lines_unchanged old new).
  Let O := set_of_lines (lines_removed old new).
  Let A := set_of_lines (lines_added old new).

  Lemma S_old_split v : NS.In v (set_of_lines old) <-> NS.In v U \/ NS.In v O.
  Proof.
    unfold U, O, lines_unchanged, lines_removed. rewrite !set_of_lines_spec. split.
    - intros (l & Hl & Hv). destruct (mem_line l new) eqn:E.
      + left. exists l. split; [apply filter_In; now split|exact Hv].
      + right. exists l. split; [apply filter_In; split; [exact Hl|now rewrite E]|exact Hv].
    - intros [(l & Hl & Hv)|(l & Hl & Hv)]; apply filter_In in Hl as [Hl _]; exists l; now split.
  Qed.

  Lemma S_new_split v : NS.In v (set_of_lines new) <-> NS.In v U \/ NS.In v A.
  Proof.
    unfold U, A, lines_unchanged, lines_added. rewrite !set_of_lines_spec. split.
    - intros (l & Hl & Hv). destruct (mem_line l old) eqn:E.
      + left. exists l. split; [|exact Hv]. apply filter_In. split; [now apply mem_line_In|now apply mem_line_In].
      + right. exists l. split; [apply filter_In; split; [exact Hl|now rewrite E]|exact Hv].
    - intros [(l & Hl & Hv)|(l & Hl & Hv)]; apply filter_In in Hl as [Hl Hm]; exists l; split; try exact Hv.
      + now apply mem_line_In.
      + exact Hl.
  Qed.

  (* a VLAN of an unchanged line is on no removed line, when the old lines split the set *)
  Lemma U_O_disjoint v : pairwise_disjoint old = true -> NS.In v U -> NS.In v O -> False.
  Proof.
    unfold U, O, lines_unchanged, lines_removed. rewrite !set_of_lines_spec.
    intros Hp (l1 & H1 & Hv1) (l2 & H2 & Hv2).
    apply filter_In in H1 as [H1 M1]. apply filter_In in H2 as [H2 M2].
    assert (Hne : l1 <> l2) by (intro E; subst l2; rewrite M1 in M2; discriminate M2).
    exact (pairwise_disjoint_spec old l1 l2 Hp H1 H2 Hne v Hv1 Hv2).
  Qed.
End Diff.

(* ------------------------------------------------------------------------------------ *)
(* effect of the emitted commands, in any order, on S_old = U + O with S_new = U + A *)

Section Effect.
  Variables (lg : logic) (tiny : bool) (U O A So Sn : NS.t).
  Hypothesis HSo : forall v, NS.In v So <-> NS.In v U \/ NS.In v O.
  Hypothesis HSn : forall v, NS.In v Sn <-> NS.In v U \/ NS.In v A.
  Hypothesis HUO : forall v, NS.In v U -> NS.In v O -> False.
  Let cs := cmds_of lg tiny (NS.diff O A) (NS.diff A O).

  Lemma perm_removes cs' v : Permutation cs' cs -> (removes cs' v <-> NS.In v (NS.diff O A)).
  Proof.
    intro P. unfold cs in P. rewrite <- (cmds_of_removes lg tiny _ (NS.diff A O)). split.
    - now apply removes_perm.
    - apply removes_perm. now apply Permutation_sym.
  Qed.

  Lemma perm_adds cs' v : Permutation cs' cs -> (adds cs' v <-> NS.In v (NS.diff A O)).
  Proof.
    intro P. unfold cs in P. rewrite <- (cmds_of_adds lg tiny (NS.diff O A) _). split.
    - now apply adds_perm.
    - apply adds_perm. now apply Permutation_sym.
  Qed.

  Lemma perm_simple cs' : Permutation cs' cs -> Forall simple_cmd cs'.
  Proof.
    intro P. apply (Permutation_Forall (Permutation_sym P)). apply cmds_of_simple.
  Qed.

  Lemma perm_disjoint cs' : Permutation cs' cs -> forall v, removes cs' v -> adds cs' v -> False.
  Proof.
    intros P v Hr Ha. apply (perm_removes cs' v P) in Hr. apply (perm_adds cs' v P) in Ha.
    apply NS.diff_spec in Hr as [_ Hr]. apply NS.diff_spec in Ha as [Ha _]. exact (Hr Ha).
  Qed.

  Lemma effect_final cs' : Permutation cs' cs -> NS.Equal (simulate cs' So) Sn.
  Proof.
    intros P v.
    rewrite (simulate_spec cs' So (perm_simple cs' P) (perm_disjoint cs' P)).
    rewrite (perm_removes cs' v P), (perm_adds cs' v P), !NS.diff_spec, HSo, HSn.
    assert (D := HUO v).
    destruct (NSP.In_dec v A) as [Ia|Ia], (NSP.In_dec v O) as [Io|Io]; tauto.
  Qed.

  Lemma effect_prefix cs' l1 l2 :
    Permutation cs' cs -> cs' = l1 ++ l2 ->
    forall v, NS.In v So -> NS.In v Sn -> NS.In v (simulate l1 So).
  Proof.
    intros P E v Ho Hn.
    assert (F : Forall simple_cmd l1).
    { assert (F := perm_simple cs' P). rewrite E in F. now apply Forall_app in F as [F _]. }
    assert (Dj : forall w, removes l1 w -> adds l1 w -> False).
    { intros w Hr Ha. apply (perm_disjoint cs' P w); rewrite E; [now apply removes_app_l|now apply adds_app_l]. }
    rewrite (simulate_spec l1 So F Dj). left. split; [exact Ho|].
    intro Hr. assert (Hr' : removes cs' v) by (rewrite E; now apply removes_app_l).
    apply (perm_removes cs' v P) in Hr'. apply NS.diff_spec in Hr' as [Io Ia].
    apply HSn in Hn as [Hu|Ha]; [exact (HUO v Hu Io)|exact (Ia Ha)].
  Qed.
End Effect.

(* ------------------------------------------------------------------------------------ *)
(* the rule logics *)

Definition tiny_of (k : rulek) : bool := if is_hw (rk_logic k) then true else rk_catalyst k.

Lemma process_cases k na nr nu A O cs :
  process true k na nr nu A O = Some cs ->
  cs = cmds_of (rk_logic k) (tiny_of k) (NS.diff O A) (NS.diff A O) \/
  (cs = [RemoveAll] /\ na = 0%nat /\ nu = 0%nat) \/
  (cs = [SetNone] /\ na = 1%nat /\ NS.Empty A).
Proof.
  unfold process, tiny_of. destruct (is_hw (rk_logic k)).
  - unfold hw_process.
    destruct (logic_eqb (rk_logic k) HwSingle && (Nat.ltb 1 na || Nat.ltb 1 nr)); [discriminate|].
    destruct (negb (Nat.eqb nr 0) && Nat.eqb na 0 && (negb true || Nat.eqb nu 0) &&
              (logic_eqb (rk_logic k) HwMultiAll || logic_eqb (rk_logic k) HwSingle)) eqn:S.
    + intro E. injection E as E. right. left.
      apply andb_true_iff in S as [S _]. apply andb_true_iff in S as [S S3].
      apply andb_true_iff in S as [_ S2]. cbn in S3.
      apply Nat.eqb_eq in S2. apply Nat.eqb_eq in S3. now subst.
    + intro E. injection E as E. left. now subst cs.
  - unfold cisco_process.
    destruct (Nat.eqb na 1 && NS.is_empty A) eqn:S.
    + intro E. injection E as E. right. right.
      apply andb_true_iff in S as [S1 S2]. apply Nat.eqb_eq in S1. apply NS.is_empty_spec in S2.
      now subst.
    + intro E. injection E as E. left. now subst cs.
Qed.

Lemma process_total k na nr nu A O :
  (rk_logic k = HwSingle -> (na <= 1)%nat /\ (nr <= 1)%nat) ->
  exists cs, process true k na nr nu A O = Some cs.
Proof.
  intro H. unfold process. destruct (is_hw (rk_logic k)).
  - unfold hw_process.
    destruct (logic_eqb (rk_logic k) HwSingle && (Nat.ltb 1 na || Nat.ltb 1 nr)) eqn:S.
    + apply andb_true_iff in S as [S1 S2]. destruct (rk_logic k); try discriminate S1.
      destruct (H eq_refl) as [Ha Hr]. apply orb_true_iff in S2 as [S2|S2]; apply Nat.ltb_lt in S2; lia.
    + match goal with |- exists cs, (if ?b then _ else _) = _ => destruct b end; eexists; reflexivity.
  - unfold cisco_process.
    match goal with |- exists cs, (if ?b then _ else _) = _ => destruct b end; eexists; reflexivity.
Qed.

(* a line with an empty set only exists as Cisco's lone "vlan none" *)
Lemma nonempty_line l :
  forallb range_ok (snd l) = true -> is_nil (snd l) = false -> exists v, NS.In v (line_set l).
Proof.
  destruct l as [f [|r rs]]; cbn [snd is_nil forallb]; [discriminate|].
  intros H _. apply andb_true_iff in H as [H _]. unfold range_ok in H. apply N.leb_le in H.
  exists (fst r). unfold line_set. cbn [snd]. apply set_of_ranges_spec.
  exists r. split; [now left|]. unfold in_range. lia.
Qed.

Lemma config_none k ls l :
  config_ok k ls = true -> In l ls -> NS.Empty (line_set l) -> ls = [(false, [])].
Proof.
  unfold config_ok. intros H Hl He.
  apply andb_true_iff in H as [H H4]. apply andb_true_iff in H as [H _].
  apply andb_true_iff in H as [H1 _].
  assert (G : forallb (fun l => negb (is_nil (snd l))) ls = true -> False).
  { intro G. rewrite forallb_forall in G, H1. specialize (G l Hl). specialize (H1 l Hl).
    apply negb_true_iff in G. destruct (nonempty_line l H1 G) as (v & Hv). exact (He v Hv). }
  destruct ls as [|[b rs] tl]; [destruct Hl|].
  destruct b; [now exfalso|]. destruct rs; [|now exfalso]. destruct tl; [reflexivity|now exfalso].
Qed.

Lemma set_of_lines_nil_empty : NS.Empty (set_of_lines []).
Proof. cbn. apply NS.empty_spec. Qed.

Lemma length_0_nil {A} (l : list A) : List.length l = 0%nat -> l = [].
Proof. destruct l; [reflexivity|discriminate]. Qed.

Section Main.
  Variables (k : rulek) (old new : list line).
  Hypothesis WF : wf_C11 (k, old, new) = true.

  Let Hold : config_ok k old = true.
  Proof. unfold wf_C11 in WF. cbn in WF. apply andb_true_iff in WF as [W _]. now apply andb_true_iff in W as [W _]. Qed.
  Let Hnew : config_ok k new = true.
  Proof. unfold wf_C11 in WF. cbn in WF. apply andb_true_iff in WF as [W _]. now apply andb_true_iff in W as [_ W]. Qed.
  Let Hpd : pairwise_disjoint old = true.
  Proof.
    unfold config_ok in Hold. apply andb_true_iff in Hold as [H _]. apply andb_true_iff in H as [H _].
    now apply andb_true_iff in H as [_ H].
  Qed.

  (* the new list is empty whenever the model emits a whole-list command *)
  Lemma whole_list_new_empty cs :
    model_struct k old new = Some cs ->
    cs = cmds_of (rk_logic k) (tiny_of k) (NS.diff (set_of_lines (lines_removed old new)) (set_of_lines (lines_added old new)))
                 (NS.diff (set_of_lines (lines_added old new)) (set_of_lines (lines_removed old new))) \/
    ((cs = [RemoveAll] \/ cs = [SetNone]) /\ NS.Empty (set_of_lines new)).
  Proof.
    unfold model_struct, model_struct_g. intro E.
    apply process_cases in E as [E|[(E & Ha & Hu)|(E & Ha & He)]]; [now left| |]; right.
    - split; [now left|]. intros v Hv. apply (S_new_split old new) in Hv.
      apply length_0_nil in Ha. apply length_0_nil in Hu. rewrite Ha, Hu in Hv.
      destruct Hv as [Hv|Hv]; exact (set_of_lines_nil_empty v Hv).
    - split; [now right|].
      destruct (lines_added old new) as [|la [|? ?]] eqn:EA; try discriminate Ha.
      assert (Hin : In la new).
      { assert (H : In la (lines_added old new)) by (rewrite EA; now left).
        unfold lines_added in H. now apply filter_In in H as [H _]. }
      assert (Hle : NS.Empty (line_set la)).
      { intros v Hv. apply (He v). apply set_of_lines_spec. exists la. split; [now left|exact Hv]. }
      rewrite (config_none k new la Hnew Hin Hle).
      intros v Hv. apply set_of_lines_spec in Hv as (l & [El|[]] & Hv). subst l.
      unfold line_set in Hv. cbn in Hv. revert Hv. apply NSF.empty_iff.
  Qed.

  Theorem final_struct cs cs' :
    model_struct k old new = Some cs -> Permutation cs' cs ->
    NS.Equal (simulate cs' (set_of_lines old)) (set_of_lines new).
  Proof.
    intros E P. apply whole_list_new_empty in E as [E|[E He]].
    - subst cs.
      apply (effect_final (rk_logic k) (tiny_of k) (set_of_lines (lines_unchanged old new))
                          (set_of_lines (lines_removed old new)) (set_of_lines (lines_added old new))).
      + apply S_old_split.
      + apply S_new_split.
      + intros v. now apply U_O_disjoint.
      + exact P.
    - assert (Ec : cs' = cs).
      { destruct E as [E|E]; subst cs; apply Permutation_sym in P; now apply Permutation_length_1_inv in P. }
      subst cs'. intro v. split.
      + intro H. exfalso. destruct E as [E|E]; subst cs; cbn in H; revert H; apply NSF.empty_iff.
      + intro H. exfalso. exact (He v H).
  Qed.

  Theorem prefix_struct cs cs' l1 l2 :
    model_struct k old new = Some cs -> Permutation cs' cs -> cs' = l1 ++ l2 ->
    NS.Subset (NS.inter (set_of_lines old) (set_of_lines new)) (simulate l1 (set_of_lines old)).
  Proof.
    intros E P El v Hv. apply NS.inter_spec in Hv as [Ho Hn].
    apply whole_list_new_empty in E as [E|[_ He]]; [|exfalso; exact (He v Hn)].
    subst cs.
    exact (effect_prefix (rk_logic k) (tiny_of k) (set_of_lines (lines_unchanged old new))
                         (set_of_lines (lines_removed old new)) (set_of_lines (lines_added old new))
                         (set_of_lines old) (set_of_lines new)
                         (S_new_split old new)
                         (fun w => U_O_disjoint old new w Hpd) cs' l1 l2 P El v Ho Hn).
  Qed.

  Theorem total_struct : exists cs, model_struct k old new = Some cs.
  Proof.
    unfold model_struct, model_struct_g. apply process_total. intro Hs.
    unfold wf_C11 in WF. cbn in WF. apply andb_true_iff in WF as [_ W].
    unfold single_ok in W. rewrite Hs in W. cbn in W.
    apply andb_true_iff in W as [W1 W2]. apply Nat.leb_le in W1. apply Nat.leb_le in W2. now split.
  Qed.
End Main.

(* ------------------------------------------------------------------------------------ *)
(* the boolean predicate of Spec/P_C11.v *)

Lemma states_prefix : forall cs s t,
  In t (states cs s) -> exists l1 l2, cs = l1 ++ l2 /\ t = simulate l1 s.
Proof.
  induction cs as [|c cs IH]; intros s t H; cbn [states] in H.
  - destruct H as [E|[]]. exists [], []. now split.
  - destruct H as [E|H].
    + exists [], (c :: cs). now split.
    + apply IH in H as (l1 & l2 & E & Et). exists (c :: l1), l2. split; [now rewrite E|exact Et].
Qed.

Theorem holds_struct k old new cs :
  wf_C11 (k, old, new) = true -> model_struct k old new = Some cs ->
  cmds_ok (k, old, new) cs = true.
Proof.
  intros WF E. unfold cmds_ok, reaches, keeps_common, S_old, S_new. cbn [in_old in_new fst snd].
  apply andb_true_iff. split.
  - apply NS.equal_spec. apply (final_struct k old new WF cs cs E). apply Permutation_refl.
  - apply forallb_forall. intros t Ht. apply NS.subset_spec.
    apply states_prefix in Ht as (l1 & l2 & El & Et). subst t.
    exact (prefix_struct k old new WF cs cs l1 l2 E (Permutation_refl _) El).
Qed.

(* ------------------------------------------------------------------------------------ *)
(* expand (device meaning of the written ranges) after collapse, with any chunking *)

Lemma expand_collapse_chunked tiny n s :
  NS.Equal (set_of_ranges (concat (chunked (S n) (collapse tiny s)))) s.
Proof. intro v. rewrite chunked_concat, set_of_ranges_spec. apply collapse_spec. Qed.

Lemma expand_collapse tiny s : NS.Equal (set_of_ranges (collapse tiny s)) s.
Proof. intro v. rewrite set_of_ranges_spec. apply collapse_spec. Qed.

(* the case files evaluate [all3_fast]; it is the conjunction of the three predicates *)
Lemma all3_fast_eq c : all3_fast c = all3 c.
Proof.
  unfold all3_fast, all3, holds, struct_is_text, P_C11.
  destruct (agree c); [|reflexivity]. cbn [andb].
  destruct (wf_C11 (fst (fst c))); reflexivity.
Qed.
