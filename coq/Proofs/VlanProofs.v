(* C11 lemma library (under construction) *)
From Coq Require Import List String Bool Arith NArith Lia.
From Annet Require Import Base.Str Model.Vlan Spec.P_C11.
