(* C07 lemma library, part 2: word-level matching, reverse templates, round trips. *)
From Coq Require Import List String Ascii Bool Arith NArith Lia.
From Annet Require Import Base.Str Model.Pattern Spec.P_C07 Proofs.RegexProofs.
Import ListNotations.
Open Scope string_scope.
Open Scope list_scope.

Arguments Ascii.eqb : simpl never.
Arguments String.eqb : simpl never.
Arguments is_graph : simpl never.
Arguments py_ws : simpl never.
Arguments lit_char : simpl never.
Arguments is_ws : simpl never.

(* ------------------------------------------------------------------------------ *)
(* pmatch_words <-> matches_spec                                                   *)

Lemma tok_ok_binds ic t x :
  tok_ok ic t x = true <-> exists b, tok_binds ic t x b.
Proof.
  destruct t as [w| |r|]; cbn; split.
  - intro H. eexists. constructor. exact H.
  - intros [b H]. inversion H; subst. assumption.
  - intros _. eexists. constructor.
  - reflexivity.
  - intro H. eexists. constructor. apply sre_imatch_lang. exact H.
  - intros [b H]. inversion H; subst. apply sre_imatch_lang. assumption.
  - discriminate.
  - intros [b H]. inversion H.
Qed.

Lemma pmatch_words_sound ic p : forall ws key,
  pmatch_words p ic ws = Some key -> matches_spec ic p ws key.
Proof.
  induction p as [|t p IH]; intros ws key H; cbn in H.
  - injection H as <-. constructor.
  - destruct t as [w| |r|].
    + destruct ws as [|x ws]; [discriminate|].
      destruct (word_eq ic w x) eqn:E; [|discriminate].
      change key with ([] ++ key). constructor; [constructor; exact E | apply IH; exact H].
    + destruct ws as [|x ws]; [discriminate|].
      destruct (pmatch_words p ic ws) as [k|] eqn:E; [|discriminate].
      cbn in H. injection H as <-. change (x :: k) with ([x] ++ k).
      constructor; [constructor | apply IH; exact E].
    + destruct ws as [|x ws]; [discriminate|].
      destruct (sre_imatch ic r x) eqn:M; [|discriminate].
      destruct (pmatch_words p ic ws) as [k|] eqn:E; [|discriminate].
      cbn in H. injection H as <-. change (x :: k) with ([x] ++ k).
      constructor; [constructor; apply sre_imatch_lang; exact M | apply IH; exact E].
    + destruct p; [|discriminate]. destruct ws as [|x ws]; [discriminate|].
      injection H as <-. constructor. discriminate.
Qed.

Lemma pmatch_words_complete ic p ws key :
  matches_spec ic p ws key -> pmatch_words p ic ws = Some key.
Proof.
  induction 1 as [rest | rest Hne | t p x ws b key Hb Hm IH].
  - reflexivity.
  - cbn. destruct rest; [congruence | reflexivity].
  - inversion Hb; subst; cbn.
    + rewrite H. exact IH.
    + rewrite IH. reflexivity.
    + apply sre_imatch_lang in H. rewrite H, IH. reflexivity.
Qed.

Theorem pmatch_words_iff ic p ws key :
  pmatch_words p ic ws = Some key <-> matches_spec ic p ws key.
Proof. split; [apply pmatch_words_sound | apply pmatch_words_complete]. Qed.

(* the specification is functional: at most one key *)
Lemma matches_spec_functional ic p ws k1 k2 :
  matches_spec ic p ws k1 -> matches_spec ic p ws k2 -> k1 = k2.
Proof.
  intros H1 H2. apply pmatch_words_complete in H1, H2. congruence.
Qed.

(* ------------------------------------------------------------------------------ *)
(* key length                                                                      *)

Lemma pmatch_words_key_length p ic : forall ws key,
  pmatch_words p ic ws = Some key -> List.length key = nholes p.
Proof.
  induction p as [|t p IH]; intros ws key H; cbn in H.
  - injection H as H; subst. reflexivity.
  - destruct t as [w| |r|].
    + destruct ws as [|x ws]; [discriminate|].
      destruct (word_eq ic w x); [|discriminate]. apply IH in H. exact H.
    + destruct ws as [|x ws]; [discriminate|].
      destruct (pmatch_words p ic ws) as [k|] eqn:E; [|discriminate].
      cbn in H. injection H as H; subst. cbn. f_equal. eapply IH; eauto.
    + destruct ws as [|x ws]; [discriminate|].
      destruct (sre_imatch ic r x); [|discriminate].
      destruct (pmatch_words p ic ws) as [k|] eqn:E; [|discriminate].
      cbn in H. injection H as H; subst. cbn. f_equal. eapply IH; eauto.
    + destruct p; [|discriminate]. destruct ws; [discriminate|].
      injection H as H; subst. reflexivity.
Qed.

(* ------------------------------------------------------------------------------ *)
(* the prefix-form checker computes the same                                       *)

Lemma ends_tilde_cons t p : p <> [] -> ends_tilde (t :: p) = ends_tilde p.
Proof.
  intro H. unfold ends_tilde. cbn [rev].
  destruct (rev p) as [|z q] eqn:E.
  - exfalso. apply H. rewrite <- (rev_involutive p), E. reflexivity.
  - reflexivity.
Qed.

Lemma body_cons t p : p <> [] -> body (t :: p) = t :: body p.
Proof.
  intro H. unfold body. rewrite ends_tilde_cons by exact H.
  destruct (ends_tilde p); [|reflexivity].
  destruct p; [congruence | reflexivity].
Qed.

Lemma ref_match_words_cons ic t p x ws : p <> [] ->
  ref_match_words (t :: p) ic (x :: ws) =
  if tok_ok ic t x then
    option_map (fun k => (if is_lit t then [] else [x]) ++ k) (ref_match_words p ic ws)
  else None.
Proof.
  intro H. unfold ref_match_words. rewrite body_cons, ends_tilde_cons by exact H.
  cbn [List.length firstn skipn forallb2].
  destruct (tok_ok ic t x); [|reflexivity]. cbn [andb].
  match goal with |- context [if ?c then _ else _] => destruct c end; [|reflexivity].
  cbn [option_map]. f_equal. unfold bound_words. cbn [combine filter fst snd].
  destruct (is_lit t); cbn [negb map snd app]; reflexivity.
Qed.

Lemma ref_match_words_eq ic p : forall ws, ref_match_words p ic ws = pmatch_words p ic ws.
Proof.
  induction p as [|t p IH]; intro ws.
  - unfold ref_match_words. cbn. reflexivity.
  - destruct p as [|t2 p].
    + (* last token *)
      destruct t as [w| |r|]; unfold ref_match_words; cbn;
        destruct ws as [|x ws]; cbn; try reflexivity.
      * destruct (word_eq ic w x); reflexivity.
      * destruct (sre_imatch ic r x); reflexivity.
    + destruct ws as [|x ws].
      * (* no words left *)
        transitivity (@None (list string)).
        -- unfold ref_match_words. rewrite body_cons by discriminate. reflexivity.
        -- destruct t; reflexivity.
      * rewrite ref_match_words_cons by discriminate. rewrite IH.
        destruct t as [w| |r|]; cbn [tok_ok is_lit].
        -- change (pmatch_words (Lit w :: t2 :: p) ic (x :: ws))
             with (if word_eq ic w x then pmatch_words (t2 :: p) ic ws else None).
           destruct (word_eq ic w x); [|reflexivity].
           destruct (pmatch_words (t2 :: p) ic ws); reflexivity.
        -- change (pmatch_words (Star :: t2 :: p) ic (x :: ws))
             with (option_map (cons x) (pmatch_words (t2 :: p) ic ws)).
           destruct (pmatch_words (t2 :: p) ic ws); reflexivity.
        -- change (pmatch_words (StarRe r :: t2 :: p) ic (x :: ws))
             with (if sre_imatch ic r x then option_map (cons x) (pmatch_words (t2 :: p) ic ws) else None).
           destruct (sre_imatch ic r x); [|reflexivity].
           destruct (pmatch_words (t2 :: p) ic ws); reflexivity.
        -- reflexivity.
Qed.

Theorem ref_match_eq p ic row : ref_match p ic row = pmatch p ic row.
Proof. destruct p; [reflexivity|]. apply ref_match_words_eq. Qed.

(* ------------------------------------------------------------------------------ *)
(* characters: facts by exhaustive case analysis                                   *)

Ltac all_ascii c := destruct c as [[] [] [] [] [] [] [] []]; vm_compute; try reflexivity; try discriminate.

Definition neqc (a : ascii) (c : ascii) : bool := negb (Ascii.eqb c a).

Lemma graph_facts c : is_graph c = true ->
  py_ws c = false /\ is_ws c = false /\ Ascii.eqb c sp = false.
Proof. all_ascii c; auto. Qed.

Lemma lit_char_facts c : lit_char c = true ->
  is_graph c = true /\ neqc "*" c = true /\ neqc "~" c = true /\ neqc "{" c = true /\ neqc "}" c = true.
Proof. all_ascii c; auto. Qed.

Lemma py_ws_not_slash c : py_ws c = true -> Ascii.eqb c "/" = false.
Proof. all_ascii c. Qed.

Lemma py_ws_facts c : py_ws c = true ->
  neqc "*" c = true /\ neqc "~" c = true /\ neqc "{" c = true /\ neqc "}" c = true.
Proof. all_ascii c; auto. Qed.

(* ------------------------------------------------------------------------------ *)
(* strings as character lists                                                      *)

Lemma l_of_app a b : l_of (a ++ b)%string = l_of a ++ l_of b.
Proof. induction a; cbn; [reflexivity | f_equal; assumption]. Qed.

Lemma l_of_inj a b : l_of a = l_of b -> a = b.
Proof.
  intro H. rewrite <- (string_of_list_ascii_of_string a), <- (string_of_list_ascii_of_string b), H.
  reflexivity.
Qed.

Lemma l_of_s_of l : l_of (s_of l) = l.
Proof. apply list_ascii_of_string_of_list_ascii. Qed.

Lemma s_of_l_of s : s_of (l_of s) = s.
Proof. apply string_of_list_ascii_of_string. Qed.

Fixpoint ljoin (l : list (list ascii)) : list ascii :=
  match l with
  | [] => []
  | [x] => x
  | x :: r => x ++ sp :: ljoin r
  end.

Lemma ljoin_cons2 x y r : ljoin (x :: y :: r) = x ++ sp :: ljoin (y :: r).
Proof. reflexivity. Qed.

Lemma l_of_join ss : l_of (join_with " " ss) = ljoin (map l_of ss).
Proof.
  induction ss as [|x ss IH]; [reflexivity|].
  destruct ss as [|y r]; [reflexivity|].
  change (join_with " " (x :: y :: r)) with (x ++ " " ++ join_with " " (y :: r))%string.
  rewrite !l_of_app, IH. reflexivity.
Qed.

Lemma is_empty_l_of s : is_empty s = false <-> l_of s <> [].
Proof. destruct s; cbn; split; intro H; congruence. Qed.

(* ------------------------------------------------------------------------------ *)
(* prefixes                                                                        *)

Lemma lprefix_app a x : lprefix a (a ++ x) = true.
Proof. induction a; cbn; [reflexivity|]. rewrite Ascii.eqb_refl. exact IHa. Qed.

Lemma lprefix_true a : forall s, lprefix a s = true -> s = a ++ skipn (List.length a) s.
Proof.
  induction a as [|c a IH]; intros s H; [reflexivity|].
  destruct s as [|d s]; [discriminate|]. cbn in H.
  apply andb_true_iff in H as [E H]. apply Ascii.eqb_eq in E. subst.
  cbn. f_equal. apply IH. exact H.
Qed.

Lemma skipn_app_exact {A} (a x : list A) : skipn (List.length a) (a ++ x) = x.
Proof. induction a; cbn; auto. Qed.

Definition nosp (a : list ascii) : bool := forallb (fun c => negb (Ascii.eqb c sp)) a.

Lemma lprefix_sp_eq a : forall b x y, nosp a = true -> nosp b = true ->
  lprefix (a ++ sp :: x) (b ++ sp :: y) = true -> a = b.
Proof.
  induction a as [|c a IH]; intros b x y Ha Hb H.
  - destruct b as [|d b]; [reflexivity|]. cbn in H, Hb.
    apply andb_true_iff in H as [E _]. apply Ascii.eqb_eq in E. subst.
    apply andb_true_iff in Hb as [Hd _]. rewrite Ascii.eqb_refl in Hd. discriminate.
  - cbn in Ha. apply andb_true_iff in Ha as [Hc Ha].
    destruct b as [|d b].
    + cbn in H. apply andb_true_iff in H as [E _]. apply Ascii.eqb_eq in E. subst.
      rewrite Ascii.eqb_refl in Hc. discriminate.
    + cbn in H, Hb. apply andb_true_iff in H as [E H]. apply Ascii.eqb_eq in E. subst.
      apply andb_true_iff in Hb as [_ Hb]. f_equal. eapply IH; eauto.
Qed.

Lemma lprefix_sp_nosp a : forall x b, nosp b = true -> lprefix (a ++ sp :: x) b = false.
Proof.
  induction a as [|c a IH]; intros x b Hb.
  - destruct b as [|d b]; [reflexivity|]. cbn in *.
    apply andb_true_iff in Hb as [Hd _].
    destruct (Ascii.eqb sp d) eqn:E; [|reflexivity]. apply Ascii.eqb_eq in E. subst.
    rewrite Ascii.eqb_refl in Hd. discriminate.
  - destruct b as [|d b]; [reflexivity|]. cbn in *.
    apply andb_true_iff in Hb as [_ Hb]. rewrite IH by exact Hb. apply andb_false_r.
Qed.

(* ------------------------------------------------------------------------------ *)
(* token texts                                                                     *)

Definition ptok (t : tok) : list ascii := l_of (print_tok t).

Lemma text_of_pat p : l_of (print_pat p) = ljoin (map ptok p).
Proof. unfold print_pat. rewrite l_of_join, map_map. reflexivity. Qed.

Lemma forallb_impl {A} (f g : A -> bool) l :
  (forall x, f x = true -> g x = true) -> forallb f l = true -> forallb g l = true.
Proof.
  intros H. induction l; cbn; [reflexivity|]. intro E. apply andb_true_iff in E as [E1 E2].
  rewrite (H _ E1), IHl; auto.
Qed.

Lemma ptok_re r : ptok (StarRe r) = "*"%char :: "/"%char :: print_sre_l r ++ ["/"%char].
Proof.
  unfold ptok, print_tok, print_sre. rewrite !l_of_app, l_of_s_of. reflexivity.
Qed.

Lemma sre_ok_text r : sre_ok r = true ->
  print_sre_l r <> [] /\ forallb is_graph (print_sre_l r) = true.
Proof.
  unfold sre_ok. intro H.
  apply andb_true_iff in H as [H _]. apply andb_true_iff in H as [H _].
  apply andb_true_iff in H as [H1 H2]. split; [|exact H2].
  destruct (print_sre_l r); [discriminate | congruence].
Qed.

Lemma ptok_graph t : wf_tok t = true -> forallb is_graph (ptok t) = true /\ ptok t <> [].
Proof.
  destruct t as [w| |r|]; cbn [wf_tok]; intro H.
  - unfold plain_word in H. apply andb_true_iff in H as [H1 H2]. split.
    + unfold ptok. cbn. eapply forallb_impl; [|exact H2]. intros c Hc. apply lit_char_facts in Hc. tauto.
    + apply is_empty_l_of. apply negb_true_iff. exact H1.
  - split; [reflexivity | discriminate].
  - rewrite ptok_re. apply sre_ok_text in H as [_ H]. split; [|discriminate].
    cbn. rewrite forallb_app, H. reflexivity.
  - split; [reflexivity | discriminate].
Qed.

Lemma graph_nosp a : forallb is_graph a = true -> nosp a = true.
Proof.
  apply forallb_impl. intros c H. apply graph_facts in H as (_ & _ & H). rewrite H. reflexivity.
Qed.

Lemma plain_word_graph w : plain_word w = true -> forallb is_graph (l_of w) = true /\ l_of w <> [].
Proof. intro H. apply (ptok_graph (Lit w)). exact H. Qed.

(* ------------------------------------------------------------------------------ *)
(* reverse_row on pattern texts                                                    *)

Lemma plain_word_first w : plain_word w = true ->
  exists c r, l_of w = c :: r /\ lit_char c = true.
Proof.
  unfold plain_word. intro H. apply andb_true_iff in H as [H1 H2].
  destruct (l_of w) as [|c r] eqn:E.
  - destruct w; [discriminate | discriminate].
  - cbn in H2. apply andb_true_iff in H2 as [H2 _]. eauto.
Qed.

Lemma ptok_eq_prefix t prefix : plain_word prefix = true -> ptok t = l_of prefix -> t = Lit prefix.
Proof.
  intros Hp E. apply plain_word_first in Hp as (c & r & Ec & Hc).
  destruct t as [w| |r'|].
  - unfold ptok in E. cbn in E. apply l_of_inj in E. subst. reflexivity.
  - unfold ptok in E. cbn in E. rewrite Ec in E. injection E as <- _. discriminate.
  - rewrite ptok_re, Ec in E. injection E as <- _. discriminate.
  - unfold ptok in E. cbn in E. rewrite Ec in E. injection E as <- _. discriminate.
Qed.

Lemma reverse_row_pat p prefix :
  p <> [] -> forallb wf_tok p = true -> plain_word prefix = true ->
  reverse_row_l (ljoin (map ptok p)) (l_of prefix) = ljoin (map ptok (reverse_pat p prefix)).
Proof.
  intros Hne Hwf Hp. unfold reverse_row_l.
  destruct (plain_word_graph _ Hp) as [Hpg _]. apply graph_nosp in Hpg.
  destruct p as [|t1 p]; [congruence|]. cbn in Hwf. apply andb_true_iff in Hwf as [Ht1 Hwf].
  destruct (ptok_graph _ Ht1) as [Hg1 _]. apply graph_nosp in Hg1.
  destruct p as [|t2 p].
  - (* single token: the text has no blank *)
    cbn [map ljoin]. rewrite lprefix_sp_nosp by exact Hg1.
    replace (reverse_pat [t1] prefix) with [Lit prefix; t1] by (destruct t1; reflexivity).
    cbn [map ljoin]. rewrite <- app_assoc. reflexivity.
  - rewrite map_cons, (map_cons ptok t2 p), ljoin_cons2.
    destruct (lprefix ((l_of prefix ++ [sp]) ) (ptok t1 ++ sp :: ljoin (ptok t2 :: map ptok p))) eqn:E.
    + assert (Et : ptok t1 = l_of prefix) by (symmetry; eapply lprefix_sp_eq; eauto).
      apply ptok_eq_prefix in Et; [|exact Hp]. subst t1.
      cbn [reverse_pat]. rewrite String.eqb_refl.
      change (ptok (Lit prefix)) with (l_of prefix).
      replace (l_of prefix ++ sp :: ljoin (ptok t2 :: map ptok p))
        with ((l_of prefix ++ [sp]) ++ ljoin (ptok t2 :: map ptok p))
        by (rewrite <- app_assoc; reflexivity).
      rewrite skipn_app_exact. reflexivity.
    + assert (R : reverse_pat (t1 :: t2 :: p) prefix = Lit prefix :: t1 :: t2 :: p).
      { destruct t1 as [w| |r|]; try reflexivity. cbn.
        destruct (String.eqb w prefix) eqn:Ew; [|reflexivity].
        apply String.eqb_eq in Ew. subst w. exfalso.
        change (ptok (Lit prefix)) with (l_of prefix) in E.
        replace (l_of prefix ++ sp :: ljoin (ptok t2 :: map ptok p))
          with ((l_of prefix ++ [sp]) ++ ljoin (ptok t2 :: map ptok p)) in E
          by (rewrite <- app_assoc; reflexivity).
        rewrite lprefix_app in E. discriminate. }
      rewrite R. rewrite !map_cons, ljoin_cons2. rewrite <- app_assoc. reflexivity.
Qed.

(* ------------------------------------------------------------------------------ *)
(* step 2: the trailing `~` becomes a placeholder                                  *)

Definition hole : list ascii := ["{"%char; "}"%char].
Definition htok (t : tok) : list ascii := match t with Tilde => hole | _ => ptok t end.
Definition stok (t : tok) : list ascii := match t with Lit w => l_of w | _ => hole end.

Lemma unsnoc_snoc i c : unsnoc (i ++ [c]) = Some (i, c).
Proof.
  induction i as [|d i IH]; [reflexivity|]. cbn [app unsnoc]. rewrite IH.
  destruct (i ++ [c]) eqn:E; [destruct i; discriminate | reflexivity].
Qed.

Lemma tilde_to_hole_snoc i c : Ascii.eqb c "~" = false -> tilde_to_hole (i ++ [c]) = i ++ [c].
Proof. intro H. unfold tilde_to_hole. rewrite unsnoc_snoc, H. reflexivity. Qed.

Lemma tilde_to_hole_app a b : b <> [] -> tilde_to_hole (a ++ b) = a ++ tilde_to_hole b.
Proof.
  intro H. destruct (exists_last H) as (i & c & ->).
  unfold tilde_to_hole. rewrite app_assoc, !unsnoc_snoc.
  destruct (Ascii.eqb c "~"); rewrite <- ?app_assoc; reflexivity.
Qed.

Lemma forallb_last {A} (f : A -> bool) i c : forallb f (i ++ [c]) = true -> f c = true.
Proof. rewrite forallb_app. cbn. intro H. apply andb_true_iff in H as [_ H]. rewrite andb_true_r in H. exact H. Qed.

Lemma tilde_to_hole_tok t : wf_tok t = true -> tilde_to_hole (ptok t) = htok t.
Proof.
  destruct t as [w| |r|]; intro H; try reflexivity.
  - cbn [wf_tok] in H. unfold htok, ptok. cbn [print_tok].
    unfold plain_word in H. apply andb_true_iff in H as [H1 H2].
    assert (Hne : l_of w <> []) by (apply is_empty_l_of, negb_true_iff; exact H1).
    destruct (exists_last Hne) as (i & c & E). rewrite E in *.
    apply forallb_last in H2. apply lit_char_facts in H2 as (_ & _ & H2 & _).
    apply tilde_to_hole_snoc. unfold neqc in H2. apply negb_true_iff. exact H2.
  - unfold htok. rewrite ptok_re.
    change ("*"%char :: "/"%char :: print_sre_l r ++ ["/"%char])
      with (("*"%char :: "/"%char :: print_sre_l r) ++ ["/"%char]).
    apply tilde_to_hole_snoc. reflexivity.
Qed.

Lemma ljoin_nonempty l : l <> [] -> (forall x, In x l -> x <> []) -> ljoin l <> [].
Proof.
  destruct l as [|x [|y r]]; intros H1 H2; [congruence | |].
  - cbn. apply H2. left. reflexivity.
  - rewrite ljoin_cons2. intro E. apply app_nil_both in E as [_ E]. discriminate.
Qed.

Lemma htok_not_tilde t : is_tilde t = false -> htok t = ptok t.
Proof. destruct t; try reflexivity. discriminate. Qed.

Lemma tilde_to_hole_pat q :
  forallb wf_tok q = true -> tilde_last q = true ->
  tilde_to_hole (ljoin (map ptok q)) = ljoin (map htok q).
Proof.
  induction q as [|t q IH]; intros Hwf Htl; [reflexivity|].
  cbn [forallb] in Hwf. apply andb_true_iff in Hwf as [Ht Hwf].
  destruct q as [|t2 q].
  - cbn [map ljoin]. apply tilde_to_hole_tok. exact Ht.
  - cbn [tilde_last] in Htl. apply andb_true_iff in Htl as [Hnt Htl]. apply negb_true_iff in Hnt.
    rewrite !map_cons, !ljoin_cons2, <- !map_cons.
    rewrite tilde_to_hole_app by discriminate.
    change (sp :: ljoin (map ptok (t2 :: q))) with ([sp] ++ ljoin (map ptok (t2 :: q))).
    rewrite tilde_to_hole_app.
    + rewrite IH by assumption. rewrite htok_not_tilde by exact Hnt. reflexivity.
    + apply ljoin_nonempty; [discriminate|].
      intros x Hx. apply in_map_iff in Hx as (t' & <- & Hin).
      eapply forallb_forall in Hwf; [|exact Hin]. apply ptok_graph in Hwf. tauto.
Qed.

(* ------------------------------------------------------------------------------ *)
(* step 3: re.sub(r"\*(/\S+/)?", "{}", ...)                                         *)

Definition brk (rest : list ascii) : bool := match rest with [] => true | c :: _ => py_ws c end.

Lemma sub_star_plain a : forall rest, forallb (neqc "*") a = true ->
  sub_star 0 (a ++ rest) = a ++ sub_star 0 rest.
Proof.
  induction a as [|c a IH]; intros rest H; [reflexivity|].
  cbn [forallb] in H. apply andb_true_iff in H as [Hc H].
  cbn [app sub_star]. unfold neqc in Hc. apply negb_true_iff in Hc. rewrite Hc.
  f_equal. apply IH. exact H.
Qed.

Lemma sub_star_skip a : forall rest, sub_star (List.length a) (a ++ rest) = sub_star 0 rest.
Proof. induction a as [|c a IH]; intro rest; [reflexivity|]. cbn. apply IH. Qed.

Lemma last_slash_brk rest i : brk rest = true -> last_slash rest i = None.
Proof. destruct rest as [|c r]; cbn; [reflexivity|]. intro H. rewrite H. reflexivity. Qed.

Lemma last_slash_run X : forall rest i,
  forallb is_graph X = true -> brk rest = true -> 1 <= i + List.length X ->
  last_slash (X ++ "/"%char :: rest) i = Some (i + List.length X).
Proof.
  induction X as [|c X IH]; intros rest i HX Hb Hi.
  - cbn [app last_slash List.length]. change (py_ws "/") with false. cbn iota.
    rewrite last_slash_brk by exact Hb. rewrite Ascii.eqb_refl. cbn [andb].
    rewrite Nat.add_0_r in *. destruct (Nat.leb 1 i) eqn:E; [reflexivity|].
    apply Nat.leb_gt in E. lia.
  - cbn [forallb] in HX. apply andb_true_iff in HX as [Hc HX].
    cbn [app last_slash List.length]. apply graph_facts in Hc as (Hc & _). rewrite Hc.
    rewrite IH; [f_equal; lia | exact HX | exact Hb | lia].
Qed.

Lemma opt_re_len_brk rest : brk rest = true -> opt_re_len rest = 0.
Proof.
  destruct rest as [|c r]; cbn; [reflexivity|]. intro H.
  rewrite (py_ws_not_slash _ H). reflexivity.
Qed.

Lemma sub_star_re X rest :
  X <> [] -> forallb is_graph X = true -> brk rest = true ->
  sub_star 0 ("*"%char :: "/"%char :: X ++ "/"%char :: rest) = hole ++ sub_star 0 rest.
Proof.
  intros Hne Hg Hb.
  assert (L : opt_re_len ("/"%char :: X ++ "/"%char :: rest)
              = List.length ("/"%char :: X ++ ["/"%char])).
  { unfold opt_re_len. change (Ascii.eqb "/" "/") with true. cbn iota.
    rewrite last_slash_run; [|exact Hg|exact Hb|].
    - cbn [List.length plus]. rewrite app_length. cbn [List.length]. lia.
    - destruct X; [congruence | cbn; lia]. }
  remember ("/"%char :: X ++ "/"%char :: rest) as tl eqn:Et.
  cbn [sub_star]. change (Ascii.eqb "*" "*") with true. cbn iota.
  rewrite L. subst tl.
  replace ("/"%char :: X ++ "/"%char :: rest) with (("/"%char :: X ++ ["/"%char]) ++ rest)
    by (cbn [app]; rewrite <- app_assoc; reflexivity).
  rewrite sub_star_skip. reflexivity.
Qed.

Lemma sub_star_tok t rest : wf_tok t = true -> brk rest = true ->
  sub_star 0 (htok t ++ rest) = stok t ++ sub_star 0 rest.
Proof.
  intros Ht Hb. destruct t as [w| |r|].
  - cbn [htok stok]. unfold ptok. cbn [print_tok]. apply sub_star_plain.
    cbn [wf_tok] in Ht. unfold plain_word in Ht. apply andb_true_iff in Ht as [_ Ht].
    eapply forallb_impl; [|exact Ht]. intros c Hc. apply lit_char_facts in Hc. tauto.
  - cbn [htok stok]. unfold ptok. cbn [print_tok l_of app].
    remember rest as tl eqn:Et. cbn [sub_star]. change (Ascii.eqb "*" "*") with true. cbn iota.
    subst tl. rewrite opt_re_len_brk by exact Hb. reflexivity.
  - cbn [htok stok]. rewrite ptok_re. cbn [wf_tok] in Ht. apply sre_ok_text in Ht as [Hne Hg].
    cbn [app]. rewrite <- app_assoc. cbn [app]. apply sub_star_re; assumption.
  - cbn [htok stok]. apply (sub_star_plain hole). reflexivity.
Qed.

Lemma sub_star_pat q : forallb wf_tok q = true ->
  sub_star 0 (ljoin (map htok q)) = ljoin (map stok q).
Proof.
  induction q as [|t q IH]; intro Hwf; [reflexivity|].
  cbn [forallb] in Hwf. apply andb_true_iff in Hwf as [Ht Hwf].
  destruct q as [|t2 q].
  - cbn [map ljoin]. rewrite <- (app_nil_r (htok t)), sub_star_tok by auto.
    cbn. apply app_nil_r.
  - rewrite !map_cons, !ljoin_cons2, <- !map_cons.
    rewrite sub_star_tok by auto. f_equal.
    cbn [sub_star]. change (Ascii.eqb sp "*") with false. cbn iota. f_equal. apply IH. exact Hwf.
Qed.

(* ------------------------------------------------------------------------------ *)
(* step 4: re.sub(r"\s*~(/\S+/)?", "", ...) finds nothing to remove                 *)

Lemma strip_tilde_none s : forall pend, forallb (neqc "~") s = true ->
  strip_tilde pend 0 s = pend ++ s.
Proof.
  induction s as [|c s IH]; intros pend H; [symmetry; apply app_nil_r|].
  cbn [forallb] in H. apply andb_true_iff in H as [Hc H]. cbn [strip_tilde].
  destruct (py_ws c).
  - rewrite IH by exact H. rewrite <- app_assoc. reflexivity.
  - unfold neqc in Hc. apply negb_true_iff in Hc. rewrite Hc. rewrite IH by exact H. reflexivity.
Qed.

Lemma forallb_ljoin f l : f sp = true -> (forall x, In x l -> forallb f x = true) ->
  forallb f (ljoin l) = true.
Proof.
  intros Hs. induction l as [|x l IH]; intro H; [reflexivity|].
  destruct l as [|y l].
  - cbn. apply H. left. reflexivity.
  - rewrite ljoin_cons2, forallb_app. cbn [forallb]. rewrite Hs.
    rewrite (H x) by (left; reflexivity). rewrite IH; [reflexivity|].
    intros z Hz. apply H. right. exact Hz.
Qed.

Lemma stok_chars t : wf_tok t = true ->
  forallb (fun c => neqc "~" c) (stok t) = true.
Proof.
  destruct t as [w| |r|]; intro H; try reflexivity.
  cbn [wf_tok stok] in *. unfold plain_word in H. apply andb_true_iff in H as [_ H].
  eapply forallb_impl; [|exact H]. intros c Hc. apply lit_char_facts in Hc. tauto.
Qed.

Lemma strip_tilde_pat q : forallb wf_tok q = true ->
  strip_tilde [] 0 (ljoin (map stok q)) = ljoin (map stok q).
Proof.
  intro Hwf. rewrite strip_tilde_none; [reflexivity|].
  apply forallb_ljoin; [reflexivity|].
  intros x Hx. apply in_map_iff in Hx as (t & <- & Hin).
  apply stok_chars. eapply forallb_forall in Hwf; eauto.
Qed.

(* ------------------------------------------------------------------------------ *)
(* step 5: str.format                                                              *)

Definition nobrace (c : ascii) : bool := neqc "{" c && neqc "}" c.

Lemma format_plain a : forall rest key, forallb nobrace a = true ->
  format_l (a ++ rest) key = option_map (app a) (format_l rest key).
Proof.
  induction a as [|c a IH]; intros rest key H.
  - cbn. destruct (format_l rest key); reflexivity.
  - cbn [forallb] in H. apply andb_true_iff in H as [Hc H].
    unfold nobrace, neqc in Hc. apply andb_true_iff in Hc as [H1 H2].
    apply negb_true_iff in H1, H2.
    cbn [app format_l]. rewrite H1, H2. rewrite IH by exact H.
    destruct (format_l rest key); reflexivity.
Qed.

Lemma format_hole rest key :
  format_l (hole ++ rest) key =
  match key with
  | k :: ks => option_map (app (l_of k)) (format_l rest ks)
  | [] => None
  end.
Proof. reflexivity. Qed.

Lemma subst_key_length q : forall key ws, subst_key q key = Some ws -> List.length ws = List.length q.
Proof.
  induction q as [|t q IH]; intros key ws H; cbn in H.
  - injection H as <-. reflexivity.
  - destruct t as [w| |r|].
    + destruct (subst_key q key) eqn:E; [|discriminate]. injection H as <-. cbn. f_equal. eauto.
    + destruct key as [|k ks]; [discriminate|].
      destruct (subst_key q ks) eqn:E; [|discriminate]. injection H as <-. cbn. f_equal. eauto.
    + destruct key as [|k ks]; [discriminate|].
      destruct (subst_key q ks) eqn:E; [|discriminate]. injection H as <-. cbn. f_equal. eauto.
    + destruct key as [|k ks]; [discriminate|].
      destruct (subst_key q ks) eqn:E; [|discriminate]. injection H as <-. cbn. f_equal. eauto.
Qed.

Lemma stok_nobrace t : wf_tok t = true -> is_lit t = true -> forallb nobrace (stok t) = true.
Proof.
  destruct t as [w| |r|]; intros H L; try discriminate.
  cbn [wf_tok stok] in *. unfold plain_word in H. apply andb_true_iff in H as [_ H].
  eapply forallb_impl; [|exact H]. intros c Hc. apply lit_char_facts in Hc.
  unfold nobrace. destruct Hc as (_ & _ & _ & -> & ->). reflexivity.
Qed.

Definition ljoin_words (ws : list string) : list ascii := ljoin (map l_of ws).

Lemma format_pat q : forall key, forallb wf_tok q = true ->
  format_l (ljoin (map stok q)) key = option_map ljoin_words (subst_key q key).
Proof.
  induction q as [|t q IH]; intros key Hwf; [reflexivity|].
  cbn [forallb] in Hwf. apply andb_true_iff in Hwf as [Ht Hwf].
  destruct q as [|t2 q].
  - cbn [map ljoin]. rewrite <- (app_nil_r (stok t)).
    destruct t as [w| |r|]; cbn [stok subst_key];
      try (rewrite format_hole; destruct key as [|k ks]; [reflexivity|]; cbn;
           unfold ljoin_words; cbn; rewrite app_nil_r; reflexivity).
    rewrite format_plain by (apply (stok_nobrace (Lit w)); auto). cbn.
    unfold ljoin_words. cbn. rewrite app_nil_r. reflexivity.
  - rewrite !map_cons, !ljoin_cons2, <- !map_cons.
    assert (Hsp : forall key', format_l (sp :: ljoin (map stok (t2 :: q))) key' =
                   option_map (cons sp) (option_map ljoin_words (subst_key (t2 :: q) key'))).
    { intro key'. rewrite <- IH by exact Hwf. reflexivity. }
    assert (Hj : forall x ws, List.length ws = List.length (t2 :: q) ->
                 ljoin_words (x :: ws) = l_of x ++ sp :: ljoin_words ws).
    { intros x ws Hl. destruct ws as [|y ws]; [discriminate|]. reflexivity. }
    destruct t as [w| |r|]; cbn [stok].
    + rewrite format_plain by (apply (stok_nobrace (Lit w)); auto). rewrite Hsp.
      change (subst_key (Lit w :: t2 :: q) key) with (option_map (cons w) (subst_key (t2 :: q) key)).
      destruct (subst_key (t2 :: q) key) as [ws|] eqn:E; [|reflexivity].
      cbn [option_map]. f_equal. symmetry. apply Hj. eapply subst_key_length; eauto.
    + rewrite format_hole. destruct key as [|k ks]; [reflexivity|]. rewrite Hsp.
      change (subst_key (Star :: t2 :: q) (k :: ks)) with (option_map (cons k) (subst_key (t2 :: q) ks)).
      destruct (subst_key (t2 :: q) ks) as [ws|] eqn:E; [|reflexivity].
      cbn [option_map]. f_equal. symmetry. apply Hj. eapply subst_key_length; eauto.
    + rewrite format_hole. destruct key as [|k ks]; [reflexivity|]. rewrite Hsp.
      change (subst_key (StarRe r :: t2 :: q) (k :: ks)) with (option_map (cons k) (subst_key (t2 :: q) ks)).
      destruct (subst_key (t2 :: q) ks) as [ws|] eqn:E; [|reflexivity].
      cbn [option_map]. f_equal. symmetry. apply Hj. eapply subst_key_length; eauto.
    + rewrite format_hole. destruct key as [|k ks]; [reflexivity|]. rewrite Hsp.
      change (subst_key (Tilde :: t2 :: q) (k :: ks)) with (option_map (cons k) (subst_key (t2 :: q) ks)).
      destruct (subst_key (t2 :: q) ks) as [ws|] eqn:E; [|reflexivity].
      cbn [option_map]. f_equal. symmetry. apply Hj. eapply subst_key_length; eauto.
Qed.

(* ------------------------------------------------------------------------------ *)
(* the removal command                                                             *)

Lemma wf_pat_parts p : wf_pat p = true -> p <> [] /\ forallb wf_tok p = true /\ tilde_last p = true.
Proof.
  unfold wf_pat. intro H. apply andb_true_iff in H as [H H3]. apply andb_true_iff in H as [H1 H2].
  repeat split; try assumption. destruct p; [discriminate | congruence].
Qed.

Lemma tilde_last_tail t p : tilde_last (t :: p) = true -> tilde_last p = true.
Proof. destruct p as [|t2 p]; [reflexivity|]. cbn. intro H. apply andb_true_iff in H. tauto. Qed.

Lemma reverse_pat_wf p prefix :
  forallb wf_tok p = true -> tilde_last p = true -> plain_word prefix = true ->
  forallb wf_tok (reverse_pat p prefix) = true /\ tilde_last (reverse_pat p prefix) = true.
Proof.
  intros Hwf Htl Hp.
  assert (G : forallb wf_tok (Lit prefix :: p) = true /\ tilde_last (Lit prefix :: p) = true).
  { split; [cbn; rewrite Hp, Hwf; reflexivity|]. destruct p; [reflexivity|]. cbn [tilde_last is_tilde negb andb]. exact Htl. }
  destruct p as [|t1 [|t2 p]]; try exact G.
  { destruct t1; exact G. }
  destruct t1 as [w| |r|]; try exact G. cbn [reverse_pat].
  destruct (String.eqb w prefix); [|exact G]. split.
  - cbn [forallb] in Hwf. apply andb_true_iff in Hwf. tauto.
  - eapply tilde_last_tail; eauto.
Qed.

Lemma make_reverse_l_pat p prefix :
  wf_pat p = true -> plain_word prefix = true ->
  make_reverse_l (l_of (print_pat p)) (l_of prefix) = ljoin (map stok (reverse_pat p prefix)).
Proof.
  intros Hwf Hp. apply wf_pat_parts in Hwf as (Hne & Hwf & Htl).
  destruct (reverse_pat_wf p prefix Hwf Htl Hp) as [Hwf' Htl'].
  unfold make_reverse_l. rewrite text_of_pat, reverse_row_pat by assumption.
  rewrite tilde_to_hole_pat, sub_star_pat, strip_tilde_pat by assumption. reflexivity.
Qed.

Lemma s_of_ljoin_words ws : s_of (ljoin_words ws) = join_with " " ws.
Proof. unfold ljoin_words. rewrite <- l_of_join. apply s_of_l_of. Qed.

Theorem make_reverse_format p prefix key :
  wf_pat p = true -> plain_word prefix = true ->
  format_template_opt (make_reverse (print_pat p) prefix) key = ref_reverse p prefix key.
Proof.
  intros Hwf Hp. unfold format_template_opt, make_reverse, ref_reverse.
  rewrite l_of_s_of, make_reverse_l_pat by assumption.
  apply wf_pat_parts in Hwf as (Hne & Hwf & Htl).
  destruct (reverse_pat_wf p prefix Hwf Htl Hp) as [Hwf' _].
  rewrite format_pat by exact Hwf'.
  destruct (subst_key (reverse_pat p prefix) key) as [ws|]; [|reflexivity].
  cbn [option_map]. rewrite s_of_ljoin_words. reflexivity.
Qed.

(* the template itself: negation word and the rule's words, placeholders as "{}" *)
Theorem make_reverse_template p prefix :
  wf_pat p = true -> plain_word prefix = true ->
  make_reverse (print_pat p) prefix =
  join_with " " (map (fun t => match t with Lit w => w | _ => "{}" end) (reverse_pat p prefix)).
Proof.
  intros Hwf Hp. unfold make_reverse. rewrite make_reverse_l_pat by assumption.
  apply l_of_inj. rewrite l_of_s_of, l_of_join, map_map. f_equal.
  apply map_ext. intros [w| |r|]; reflexivity.
Qed.

(* ------------------------------------------------------------------------------ *)
(* double negation                                                                 *)

Lemma reverse_row_l_involutive row pre :
  lprefix ((pre ++ [sp]) ++ pre ++ [sp]) row = false ->
  reverse_row_l (reverse_row_l row pre) pre = row.
Proof.
  intro G. unfold reverse_row_l at 2.
  destruct (lprefix (pre ++ [sp]) row) eqn:E.
  - pose proof (lprefix_true _ _ E) as Hrow.
    remember (skipn (List.length (pre ++ [sp])) row) as rest eqn:Er. clear Er.
    unfold reverse_row_l.
    destruct (lprefix (pre ++ [sp]) rest) eqn:E2.
    + exfalso. pose proof (lprefix_true _ _ E2) as Hrest.
      remember (skipn (List.length (pre ++ [sp])) rest) as rest2 eqn:Er2. clear Er2.
      subst rest. subst row. rewrite (app_assoc (pre ++ [sp]) (pre ++ [sp]) rest2), lprefix_app in G. discriminate.
    + symmetry. exact Hrow.
  - unfold reverse_row_l. rewrite lprefix_app, skipn_app_exact. reflexivity.
Qed.

Theorem reverse_row_involutive row prefix :
  startswith (prefix ++ " " ++ prefix ++ " ") row = false ->
  reverse_row (reverse_row row prefix) prefix = row.
Proof.
  intro G. unfold reverse_row. rewrite l_of_s_of, reverse_row_l_involutive; [apply s_of_l_of|].
  unfold startswith in G.
  assert (P : forall a s, String.prefix a s = lprefix (l_of a) (l_of s)).
  { induction a as [|c a IH]; intros [|d s]; cbn; try reflexivity.
    rewrite <- IH. destruct (ascii_dec c d) as [->|N].
    - rewrite Ascii.eqb_refl. reflexivity.
    - apply Ascii.eqb_neq in N. rewrite N. reflexivity. }
  rewrite P, !l_of_app in G. cbn [l_of app] in G. change " "%char with sp in G.
  rewrite <- app_assoc. cbn [app]. exact G.
Qed.

(* negating a plain rule and negating again: the rule comes back *)
Theorem reverse_row_plain_twice row prefix :
  startswith (prefix ++ " ") row = false ->
  reverse_row (reverse_row row prefix) prefix = row.
Proof.
  intro G. unfold reverse_row, reverse_row_l. rewrite !l_of_s_of.
  assert (P : forall a s, String.prefix a s = lprefix (l_of a) (l_of s)).
  { induction a as [|c a IH]; intros [|d s]; cbn; try reflexivity.
    rewrite <- IH. destruct (ascii_dec c d) as [->|N].
    - rewrite Ascii.eqb_refl. reflexivity.
    - apply Ascii.eqb_neq in N. rewrite N. reflexivity. }
  unfold startswith in G. rewrite P, l_of_app in G. cbn [l_of] in G.
  change " "%char with sp in G. rewrite G.
  rewrite lprefix_app, skipn_app_exact. apply s_of_l_of.
Qed.

(* a rule that already starts with the negation word: reversing strips it *)
Theorem reverse_row_strips row prefix :
  reverse_row (prefix ++ " " ++ row) prefix = row.
Proof.
  unfold reverse_row, reverse_row_l. rewrite !l_of_app. cbn [l_of app]. change " "%char with sp.
  replace (l_of prefix ++ sp :: l_of row) with ((l_of prefix ++ [sp]) ++ l_of row)
    by (rewrite <- app_assoc; reflexivity).
  rewrite lprefix_app, skipn_app_exact. apply s_of_l_of.
Qed.

Theorem reverse_pat_involutive p prefix :
  p <> [] ->
  (forall p', p <> Lit prefix :: Lit prefix :: p' \/ p' = []) ->
  reverse_pat (reverse_pat p prefix) prefix = p.
Proof.
  intros Hne G.
  assert (A : forall q, reverse_pat (Lit prefix :: q) prefix = match q with [] => [Lit prefix; Lit prefix] | _ => q end).
  { intros [|t q]; cbn; [reflexivity|]. rewrite String.eqb_refl. reflexivity. }
  destruct p as [|t1 p].
  - congruence.
  - destruct p as [|t2 p].
    + replace (reverse_pat [t1] prefix) with [Lit prefix; t1] by (destruct t1; reflexivity).
      rewrite A. reflexivity.
    + destruct t1 as [w| |r|];
        try (match goal with |- reverse_pat (reverse_pat ?q prefix) prefix = _ =>
               replace (reverse_pat q prefix) with (Lit prefix :: q) by reflexivity end;
             rewrite A; reflexivity).
      cbn [reverse_pat]. destruct (String.eqb w prefix) eqn:E.
      * apply String.eqb_eq in E. subst w.
        destruct t2 as [w2| |r2|]; try (destruct p; reflexivity).
        destruct p as [|t3 p]; [reflexivity|]. cbn [reverse_pat].
        destruct (String.eqb w2 prefix) eqn:E2; [|reflexivity].
        apply String.eqb_eq in E2. subst w2.
        destruct (G (t3 :: p)) as [N|N]; [congruence | discriminate].
      * rewrite A. reflexivity.
Qed.

(* ------------------------------------------------------------------------------ *)
(* parse / print                                                                   *)

Theorem parse_pat_sound s p : parse_pat s = Some p -> wf_pat p = true /\ print_pat p = s.
Proof.
  unfold parse_pat. destruct (wf_row s); [|discriminate].
  destruct (parse_toks (words s)) as [q|]; [|discriminate].
  destruct (wf_pat q && String.eqb (print_pat q) s) eqn:E; [|discriminate].
  intro H. injection H as <-. apply andb_true_iff in E as [E1 E2].
  apply String.eqb_eq in E2. auto.
Qed.

Lemma sappend_assoc (a b c : string) : ((a ++ b) ++ c = a ++ (b ++ c))%string.
Proof. induction a; cbn; [reflexivity | f_equal; assumption]. Qed.

Lemma sappend_nil_r (a : string) : (a ++ "" = a)%string.
Proof. induction a; cbn; [reflexivity | f_equal; assumption]. Qed.

Definition no_ws (w : string) : Prop := forallb (fun c => negb (is_ws c)) (l_of w) = true.

Lemma words_aux_word w : forall cur rest, no_ws w ->
  words_aux (w ++ rest) cur = words_aux rest (cur ++ w).
Proof.
  induction w as [|c w IH]; intros cur rest H.
  - cbn. rewrite sappend_nil_r. reflexivity.
  - unfold no_ws in H. cbn [l_of forallb] in H. apply andb_true_iff in H as [Hc H].
    apply negb_true_iff in Hc.
    change ((String c w ++ rest)%string) with (String c (w ++ rest)). cbn [words_aux]. rewrite Hc.
    rewrite IH by exact H. rewrite sappend_assoc. reflexivity.
Qed.

Lemma words_join ws :
  (forall w, In w ws -> no_ws w /\ is_empty w = false) ->
  words (join_with " " ws) = ws.
Proof.
  induction ws as [|w ws IH]; intro H; [reflexivity|].
  destruct (H w (or_introl eq_refl)) as [Hw Hne].
  destruct ws as [|w2 ws].
  - cbn [join_with]. unfold words. rewrite <- (sappend_nil_r w) at 1.
    rewrite words_aux_word by exact Hw. cbn. rewrite Hne. reflexivity.
  - change (join_with " " (w :: w2 :: ws)) with (w ++ " " ++ join_with " " (w2 :: ws))%string.
    unfold words. rewrite words_aux_word by exact Hw.
    change ((" " ++ join_with " " (w2 :: ws))%string) with (String " " (join_with " " (w2 :: ws))).
    cbn [words_aux]. change (is_ws " ") with true. cbn iota.
    change (("" ++ w)%string) with w. rewrite Hne. f_equal.
    apply IH. intros w' Hin. apply H. right. exact Hin.
Qed.

Lemma graph_no_ws w : forallb is_graph (l_of w) = true -> no_ws w.
Proof.
  unfold no_ws. apply forallb_impl. intros c H. apply graph_facts in H as (_ & H & _).
  rewrite H. reflexivity.
Qed.

Lemma print_tok_word t : wf_tok t = true -> word_ok (print_tok t) = true.
Proof.
  intro H. apply ptok_graph in H as [H1 H2]. unfold word_ok. unfold ptok in *.
  rewrite H1, andb_true_r. apply negb_true_iff. apply is_empty_l_of. exact H2.
Qed.

Lemma wf_row_print p : p <> [] -> forallb wf_tok p = true ->
  words (print_pat p) = map print_tok p /\ wf_row (print_pat p) = true.
Proof.
  intros Hne Hwf.
  assert (W : words (print_pat p) = map print_tok p).
  { unfold print_pat. apply words_join. intros w Hin. apply in_map_iff in Hin as (t & <- & Hin).
    eapply forallb_forall in Hwf; [|exact Hin]. apply print_tok_word in Hwf.
    unfold word_ok in Hwf. apply andb_true_iff in Hwf as [H1 H2]. split.
    - apply graph_no_ws. exact H2.
    - apply negb_true_iff. exact H1. }
  split; [exact W|]. unfold wf_row. rewrite W.
  destruct (map print_tok p) as [|x l] eqn:E; [destruct p; [congruence | discriminate]|].
  rewrite <- E. fold (print_pat p). rewrite String.eqb_refl, andb_true_r.
  apply forallb_forall. intros w Hin. apply in_map_iff in Hin as (t & <- & Hin).
  apply print_tok_word. eapply forallb_forall in Hwf; eauto.
Qed.

Lemma cls_eqb_eq a b : cls_eqb a b = true -> a = b.
Proof. destruct a, b; cbn; congruence. Qed.

Lemma citem_eqb_eq a b : citem_eqb a b = true -> a = b.
Proof.
  destruct a, b; cbn; try discriminate; intro H.
  - apply Ascii.eqb_eq in H. congruence.
  - apply Ascii.eqb_eq in H. congruence.
  - apply andb_true_iff in H as [H1 H2]. apply Ascii.eqb_eq in H1, H2. congruence.
  - apply cls_eqb_eq in H. congruence.
Qed.

Lemma list_eqb_eq {A} (e : A -> A -> bool) (He : forall x y, e x y = true -> x = y) :
  forall a b, list_eqb e a b = true -> a = b.
Proof.
  induction a as [|x a IH]; intros [|y b] H; cbn in H; try discriminate; [reflexivity|].
  apply andb_true_iff in H as [H1 H2]. f_equal; auto.
Qed.

Lemma list_eqb_refl {A} (e : A -> A -> bool) (He : forall x, e x x = true) :
  forall a, list_eqb e a a = true.
Proof. induction a; cbn; [reflexivity|]. rewrite He. assumption. Qed.

Lemma sre_eqb_eq a : forall b, sre_eqb a b = true -> a = b.
Proof.
  induction a; intros b H; destruct b; cbn in H; try discriminate; try reflexivity.
  - apply Ascii.eqb_eq in H. congruence.
  - apply Ascii.eqb_eq in H. congruence.
  - apply cls_eqb_eq in H. congruence.
  - apply andb_true_iff in H as [H1 H2]. apply Bool.eqb_prop in H1.
    apply (list_eqb_eq _ citem_eqb_eq) in H2. congruence.
  - apply andb_true_iff in H as [H1 H2]. apply Bool.eqb_prop in H1. apply IHa in H2. congruence.
  - apply andb_true_iff in H as [H1 H2]. apply IHa1 in H1. apply IHa2 in H2. congruence.
  - apply andb_true_iff in H as [H1 H2]. apply IHa1 in H1. apply IHa2 in H2. congruence.
  - apply IHa in H. congruence.
  - apply IHa in H. congruence.
  - apply IHa in H. congruence.
Qed.

Lemma plain_word_not_special w : plain_word w = true ->
  String.eqb w "*" = false /\ String.eqb w "~" = false /\
  match l_of w with a :: _ => Ascii.eqb a "*" = false | [] => True end.
Proof.
  intro H. apply plain_word_first in H as (c & r & E & Hc).
  apply lit_char_facts in Hc as (_ & H1 & H2 & _). unfold neqc in *.
  apply negb_true_iff in H1, H2. rewrite E. repeat split.
  - apply String.eqb_neq. intro N. subst w. cbn in E. injection E as <- _. discriminate.
  - apply String.eqb_neq. intro N. subst w. cbn in E. injection E as <- _. discriminate.
  - exact H1.
Qed.

Lemma parse_tok_print t : wf_tok t = true -> parse_tok (print_tok t) = Some t.
Proof.
  intro H. destruct t as [w| |r|]; try reflexivity.
  - cbn [wf_tok print_tok] in *. unfold parse_tok.
    destruct (plain_word_not_special _ H) as (E1 & E2 & E3). rewrite E1, E2.
    destruct (l_of w) as [|a [|b body]]; rewrite ?H; try reflexivity.
    rewrite E3. cbn [andb]. reflexivity.
  - cbn [wf_tok] in H. unfold parse_tok.
    assert (E1 : String.eqb (print_tok (StarRe r)) "*" = false).
    { apply String.eqb_neq. intro N. apply (f_equal l_of) in N. fold (ptok (StarRe r)) in N.
      rewrite ptok_re in N. discriminate. }
    assert (E2 : String.eqb (print_tok (StarRe r)) "~" = false).
    { apply String.eqb_neq. intro N. apply (f_equal l_of) in N. fold (ptok (StarRe r)) in N.
      rewrite ptok_re in N. discriminate. }
    rewrite E1, E2. fold (ptok (StarRe r)). rewrite ptok_re.
    change (Ascii.eqb "*" "*" && Ascii.eqb "/" "/") with true. cbn iota.
    rewrite unsnoc_snoc. change (Ascii.eqb "/" "/") with true. cbn iota.
    unfold sre_ok in H. apply andb_true_iff in H as [_ H].
    destruct (parse_sre_l (print_sre_l r)) as [r'|]; [|discriminate].
    apply sre_eqb_eq in H. subst. reflexivity.
Qed.

Lemma parse_toks_print p : forallb wf_tok p = true -> parse_toks (map print_tok p) = Some p.
Proof.
  induction p as [|t p IH]; intro H; [reflexivity|].
  cbn [forallb] in H. apply andb_true_iff in H as [Ht H].
  cbn [map parse_toks]. rewrite parse_tok_print, IH by assumption. reflexivity.
Qed.

Theorem parse_pat_print p : wf_pat p = true -> parse_pat (print_pat p) = Some p.
Proof.
  intro Hwf. pose proof Hwf as Hwf0. apply wf_pat_parts in Hwf as (Hne & Hw & Htl).
  destruct (wf_row_print p Hne Hw) as [W R].
  unfold parse_pat. rewrite R, W, parse_toks_print by exact Hw.
  rewrite Hwf0, String.eqb_refl. reflexivity.
Qed.

(* ------------------------------------------------------------------------------ *)
(* the model satisfies the predicate                                               *)

Lemma lremove_noop pt : forall s, lcontains pt s = false -> lremove pt 0 s = s.
Proof.
  induction s as [|c s IH]; intro H; [reflexivity|].
  cbn [lcontains] in H. apply orb_false_iff in H as [H1 H2].
  cbn [lremove]. rewrite H1. f_equal. apply IH. exact H2.
Qed.

Lemma rule_strip_ic_noop rule : rule_has_ic rule = false -> rule_strip_ic rule = rule.
Proof. unfold rule_has_ic, rule_strip_ic. intro H. rewrite lremove_noop by exact H. apply s_of_l_of. Qed.

Lemma list_str_eqb_refl l : list_str_eqb l l = true.
Proof. apply list_str_eqb_eq. reflexivity. Qed.

Lemma opt_str_eqb_refl o : opt_eqb String.eqb o o = true.
Proof. destruct o; cbn; [apply String.eqb_refl | reflexivity]. Qed.

Lemma row_out_eqb_refl o : row_out_eqb o o = true.
Proof.
  destruct o as [[k f]|]; cbn; [|reflexivity]. rewrite list_str_eqb_refl, opt_str_eqb_refl. reflexivity.
Qed.

Theorem P_C07_model x :
  wf_C07 x = true -> rule_has_ic (ci_rule x) = false -> P_C07 x (model_C07 x) = true.
Proof.
  intros Hwf Hic. unfold wf_C07 in Hwf. apply andb_true_iff in Hwf as [Hwf Hp].
  apply andb_true_iff in Hwf as [Hr _].
  unfold P_C07, model_C07.
  destruct (rule_pat (ci_rule x)) as [p|] eqn:E; [|discriminate].
  unfold rule_pat in E. rewrite rule_strip_ic_noop in E by exact Hic.
  apply parse_pat_sound in E as [Wp Ep]. cbn [co_ffmt co_rows].
  rewrite <- Ep. rewrite make_reverse_format by assumption. rewrite opt_str_eqb_refl. cbn [andb].
  rewrite Ep.
  match goal with |- list_eqb _ ?a ?b = true => replace a with b; [apply list_eqb_refl, row_out_eqb_refl|] end.
  apply map_ext. intro row. unfold spec_row. rewrite ref_match_eq.
  destruct (pmatch p (rule_ic (ci_rule x) (ci_ic x)) row) as [key|]; [|reflexivity].
  rewrite <- Ep, make_reverse_format by assumption. reflexivity.
Qed.

(* ------------------------------------------------------------------------------ *)
(* ignore_case                                                                     *)

Lemma s_of_app a b : s_of (a ++ b) = (s_of a ++ s_of b)%string.
Proof. induction a; cbn; [reflexivity | f_equal; assumption]. Qed.

Lemma lower_str_app a b : lower_str (a ++ b) = (lower_str a ++ lower_str b)%string.
Proof. unfold lower_str. rewrite l_of_app, map_app, s_of_app. reflexivity. Qed.

Lemma lower_join ws : lower_str (join_with " " ws) = join_with " " (map lower_str ws).
Proof.
  induction ws as [|x ws IH]; [reflexivity|].
  destruct ws as [|y ws]; [reflexivity|].
  change (join_with " " (x :: y :: ws)) with (x ++ " " ++ join_with " " (y :: ws))%string.
  rewrite !lower_str_app, IH. reflexivity.
Qed.

Lemma map_lower_idem ws : map lower_str (map lower_str ws) = map lower_str ws.
Proof. rewrite map_map. apply map_ext. apply lower_str_idem. Qed.

(* with ignore_case the outcome depends on the row only up to letter case
   (the key itself is spelled as in the row: see pmatch_words_iff) *)
Theorem pmatch_words_ic_row p : forall ws,
  option_map (map lower_str) (pmatch_words p true (map lower_str ws)) =
  option_map (map lower_str) (pmatch_words p true ws).
Proof.
  induction p as [|t p IH]; intro ws; [reflexivity|].
  destruct t as [w| |r|].
  - destruct ws as [|x ws]; [reflexivity|]. cbn [map pmatch_words].
    rewrite word_eq_lower. destruct (word_eq true w x); [apply IH | reflexivity].
  - destruct ws as [|x ws]; [reflexivity|]. cbn [map pmatch_words].
    specialize (IH ws).
    destruct (pmatch_words p true (map lower_str ws)) as [k1|],
             (pmatch_words p true ws) as [k2|]; cbn in *; try congruence.
    injection IH as IH. rewrite lower_str_idem, IH. reflexivity.
  - destruct ws as [|x ws]; [reflexivity|]. cbn [map pmatch_words].
    rewrite sre_imatch_lower. destruct (sre_imatch true r x); [|reflexivity].
    specialize (IH ws).
    destruct (pmatch_words p true (map lower_str ws)) as [k1|],
             (pmatch_words p true ws) as [k2|]; cbn in *; try congruence.
    injection IH as IH. rewrite lower_str_idem, IH. reflexivity.
  - cbn [pmatch_words]. destruct p; [|reflexivity].
    destruct ws as [|x ws]; [reflexivity|].
    cbn [map option_map]. rewrite <- map_cons, !lower_join, map_lower_idem. reflexivity.
Qed.

Definition is_re (t : tok) : bool := match t with StarRe _ => true | _ => false end.

(* without one-word regexps, a case-sensitive match is also a case-insensitive one *)
Theorem pmatch_words_ic_mono p : forall ws key,
  forallb (fun t => negb (is_re t)) p = true ->
  pmatch_words p false ws = Some key -> pmatch_words p true ws = Some key.
Proof.
  induction p as [|t p IH]; intros ws key Hre H; [exact H|].
  cbn [forallb] in Hre. apply andb_true_iff in Hre as [Ht Hre].
  destruct t as [w| |r|]; try discriminate.
  - destruct ws as [|x ws]; [discriminate|]. cbn [pmatch_words] in *.
    destruct (word_eq false w x) eqn:E; [|discriminate].
    rewrite (word_eq_mono _ _ E). apply IH; assumption.
  - destruct ws as [|x ws]; [discriminate|]. cbn [pmatch_words] in *.
    destruct (pmatch_words p false ws) as [k|] eqn:E; [|discriminate].
    rewrite (IH _ _ Hre E). exact H.
  - exact H.
Qed.

(* ------------------------------------------------------------------------------ *)
(* rows                                                                            *)

Lemma wf_row_words r : wf_row r = true ->
  words r <> [] /\ forallb word_ok (words r) = true /\ r = join_with " " (words r).
Proof.
  unfold wf_row. destruct (words r) as [|x l] eqn:E; [discriminate|].
  intro H. apply andb_true_iff in H as [H1 H2]. apply String.eqb_eq in H2.
  repeat split; [discriminate | exact H1 | exact H2].
Qed.

(* ------------------------------------------------------------------------------ *)
(* the ACL / ordering reverse form is again a plain pattern                        *)

Theorem reverse_row_print p prefix :
  wf_pat p = true -> plain_word prefix = true ->
  reverse_row (print_pat p) prefix = print_pat (reverse_pat p prefix).
Proof.
  intros Hwf Hp. apply wf_pat_parts in Hwf as (Hne & Hw & Htl).
  unfold reverse_row. rewrite text_of_pat, reverse_row_pat by assumption.
  rewrite <- text_of_pat. apply s_of_l_of.
Qed.

Lemma reverse_pat_nonempty p prefix : reverse_pat p prefix <> [].
Proof.
  destruct p as [|t1 [|t2 p]]; try discriminate; try (destruct t1; discriminate).
  destruct t1 as [w| |r|]; try discriminate. cbn. destruct (String.eqb w prefix); discriminate.
Qed.

Theorem reverse_pat_wf_pat p prefix :
  wf_pat p = true -> plain_word prefix = true -> wf_pat (reverse_pat p prefix) = true.
Proof.
  intros Hwf Hp. apply wf_pat_parts in Hwf as (Hne & Hw & Htl).
  destruct (reverse_pat_wf p prefix Hw Htl Hp) as [H1 H2].
  unfold wf_pat. rewrite H1, H2.
  pose proof (reverse_pat_nonempty p prefix) as N.
  destruct (reverse_pat p prefix); [congruence | reflexivity].
Qed.

Theorem parse_reverse_row p prefix :
  wf_pat p = true -> plain_word prefix = true ->
  parse_pat (reverse_row (print_pat p) prefix) = Some (reverse_pat p prefix).
Proof.
  intros Hwf Hp. rewrite reverse_row_print by assumption.
  apply parse_pat_print. apply reverse_pat_wf_pat; assumption.
Qed.

Lemma prefix_lprefix : forall a s, String.prefix a s = lprefix (l_of a) (l_of s).
Proof.
  induction a as [|c a IH]; intros [|d s]; cbn; try reflexivity.
  rewrite <- IH. destruct (ascii_dec c d) as [->|N].
  - rewrite Ascii.eqb_refl. reflexivity.
  - apply Ascii.eqb_neq in N. rewrite N. reflexivity.
Qed.

Theorem reverse_row_prepends row prefix :
  startswith (prefix ++ " ") row = false -> reverse_row row prefix = (prefix ++ " " ++ row)%string.
Proof.
  intro G. unfold startswith in G. rewrite prefix_lprefix, l_of_app in G. cbn [l_of] in G.
  change " "%char with sp in G.
  unfold reverse_row, reverse_row_l. rewrite G.
  apply l_of_inj. rewrite l_of_s_of, !l_of_app. cbn [l_of]. rewrite <- app_assoc. reflexivity.
Qed.
