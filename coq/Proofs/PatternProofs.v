(* Lemma library for C07 (rule patterns). *)
From Coq Require Import List String Ascii Bool Arith Lia.
From Annet Require Import Base.Str Model.Pattern Spec.P_C07.
Import ListNotations.
Open Scope string_scope.
Open Scope list_scope.

Lemma pmatch_words_key_length p ic : forall ws key,
  pmatch_words p ic ws = Some key -> List.length key = nholes p.
Proof.
  induction p as [|t p IH]; intros ws key H; cbn in H.
  - injection H as H; subst. reflexivity.
  - destruct t as [w| |r|].
    + destruct ws as [|x ws]; [discriminate|].
      destruct (word_eq ic w x); [|discriminate]. apply IH in H. exact H.
    + destruct ws as [|x ws]; [discriminate|].
      destruct (pmatch_words p ic ws) as [k|] eqn:E; [|discriminate].
      cbn in H. injection H as H; subst. cbn. f_equal. eapply IH; eauto.
    + destruct ws as [|x ws]; [discriminate|].
      destruct (sre_imatch ic r x); [|discriminate].
      destruct (pmatch_words p ic ws) as [k|] eqn:E; [|discriminate].
      cbn in H. injection H as H; subst. cbn. f_equal. eapply IH; eauto.
    + destruct p; [|discriminate]. destruct ws; [discriminate|].
      injection H as H; subst. reflexivity.
Qed.
