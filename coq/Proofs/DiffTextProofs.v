(* C03 proof library, part 8: the textual views.  parse_signed inverts the formatter's signed listing
   (render round trip, injectivity), and the `annet diff` view read back gives the diff minus its
   UNCHANGED entries up to a permutation of the entries of every level. *)
From Coq Require Import List String Ascii Bool Arith Lia Permutation.
From Annet Require Import Base.Str Base.Tree Model.Rulebook Model.Diff Model.Order Model.Patch Model.DiffText
     Spec.P_C03Text Proofs.DiffBasics.
Import ListNotations.
Open Scope string_scope.
Open Scope list_scope.

(* ---------------------------------------------------------------- strings *)
Lemma sappend_nil_r s : (s ++ "")%string = s.
Proof. induction s as [|c s IH]; cbn; [reflexivity | rewrite IH; reflexivity]. Qed.

Lemma sappend_assoc a b c : ((a ++ b) ++ c)%string = (a ++ (b ++ c))%string.
Proof. induction a as [|x a IH]; cbn; [reflexivity | rewrite IH; reflexivity]. Qed.

Lemma slength_app a b : String.length (a ++ b)%string = String.length a + String.length b.
Proof. induction a as [|x a IH]; cbn; [reflexivity | rewrite IH; reflexivity]. Qed.

Lemma all_blank_cons c r : all_blank (String c r) = Ascii.eqb c " " && all_blank r.
Proof. unfold all_blank. cbn. destruct (Ascii.eqb c " "); reflexivity. Qed.

Lemma count_sp_app a b : all_blank a = true -> count_sp (a ++ b)%string = String.length a + count_sp b.
Proof.
  induction a as [|c a IH]; intros H; [reflexivity|].
  rewrite all_blank_cons in H. apply andb_true_iff in H as [H1 H2]. cbn. rewrite H1, (IH H2). reflexivity.
Qed.

Lemma all_blank_app a b : all_blank a = true -> all_blank b = true -> all_blank (a ++ b)%string = true.
Proof.
  induction a as [|c a IH]; intros Ha Hb; [exact Hb|].
  rewrite all_blank_cons in Ha. apply andb_true_iff in Ha as [H1 H2].
  cbn [String.append]. rewrite all_blank_cons, H1, (IH H2 Hb). reflexivity.
Qed.

Lemma repeat_blank ind lvl : all_blank ind = true ->
  all_blank (repeat_str ind lvl) = true /\ String.length (repeat_str ind lvl) = lvl * String.length ind.
Proof.
  intros H. induction lvl as [|lvl [IH1 IH2]]; cbn [repeat_str]; [split; reflexivity|]. split.
  - apply all_blank_app; assumption.
  - rewrite slength_app, IH2. reflexivity.
Qed.

Lemma sdrop_app a b : sdrop (String.length a) (a ++ b)%string = b.
Proof. induction a as [|c a IH]; [destruct b; reflexivity | exact IH]. Qed.

Lemma count_sp_nonblank t : starts_blank t = false -> count_sp t = 0.
Proof. destruct t as [|c t]; [reflexivity|]. cbn. intros ->. reflexivity. Qed.

Lemma starts_blank_app r x : row_ok r = true -> starts_blank (r ++ x)%string = false.
Proof. destruct r as [|c r]; [discriminate|]. cbn. intros H. apply negb_true_iff in H. exact H. Qed.

Lemma blank_comm a x : all_blank a = true -> (a ++ String " " x)%string = String " " (a ++ x).
Proof.
  induction a as [|c a IH]; intros H; [reflexivity|].
  rewrite all_blank_cons in H. apply andb_true_iff in H as [H1 H2]. apply Ascii.eqb_eq in H1. subst c.
  cbn [String.append]. rewrite (IH H2). reflexivity.
Qed.

Lemma char_sign_char s : char_sign (sign_char s) = Some s.
Proof. destruct s; reflexivity. Qed.

Lemma strip_suffix_app suf : forall row, strip_suffix suf (row ++ suf)%string = Some row.
Proof.
  induction row as [|c r IH].
  - cbn [String.append]. destruct suf; cbn; [reflexivity|]. rewrite Ascii.eqb_refl, String.eqb_refl. reflexivity.
  - cbn [String.append strip_suffix].
    destruct (String.eqb (String c (r ++ suf)) suf) eqn:E.
    + apply String.eqb_eq in E. apply (f_equal String.length) in E. cbn in E. rewrite slength_app in E. lia.
    + rewrite IH. reflexivity.
Qed.

Lemma chomp_nl x : chomp (x ++ nl_s)%string = x.
Proof.
  induction x as [|c x IH]; [reflexivity|].
  cbn [String.append]. cbn [chomp]. rewrite IH.
  destruct x; reflexivity.
Qed.

(* ---------------------------------------------------------------- one line *)
Section Line.
  Variable F : tfmt.
  Hypothesis HF : fmt_ok F = true.

  Let n := String.length (tf_indent F).

  Lemma fmt_blank : all_blank (tf_indent F) = true.
  Proof. unfold fmt_ok in HF. apply andb_true_iff in HF as [H _]. apply andb_true_iff in H as [H _]. exact H. Qed.
  Lemma fmt_n : 1 <= n.
  Proof. unfold fmt_ok in HF. apply andb_true_iff in HF as [H _]. apply andb_true_iff in H as [_ H]. apply Nat.leb_le. exact H. Qed.
  Lemma fmt_be : starts_blank (tf_be F) = false.
  Proof. unfold fmt_ok in HF. apply andb_true_iff in HF as [_ H]. apply negb_true_iff. exact H. Qed.

  Lemma tok_sline s lvl txt : starts_blank txt = false -> tok n (sline F s lvl txt) = Some (s, lvl, txt).
  Proof.
    intros Ht. unfold sline, tok. rewrite Ascii.eqb_refl, char_sign_char.
    destruct (repeat_blank (tf_indent F) lvl fmt_blank) as [Hb Hl].
    rewrite (count_sp_app _ _ Hb), (count_sp_nonblank _ Ht), Nat.add_0_r, Hl.
    pose proof fmt_n as Hn. unfold n in *.
    rewrite Nat.mod_mul by lia. cbn [Nat.eqb]. rewrite Nat.div_mul by lia.
    rewrite <- Hl, sdrop_app. reflexivity.
  Qed.
End Line.

(* ---------------------------------------------------------------- induction on signed forests *)
Section SnodeInd.
  Variable P : snode -> Prop.
  Variable Q : list snode -> Prop.
  Hypothesis HT : forall s row k, Q k -> P (SN s row k).
  Hypothesis Hnil : Q [].
  Hypothesis Hcons : forall x l, P x -> Q l -> Q (x :: l).
  Fixpoint snode_ind3 (d : snode) : P d :=
    match d with
    | SN s row k => HT s row k ((fix go (l : list snode) : Q l :=
                                   match l with
                                   | [] => Hnil
                                   | x :: t => Hcons x t (snode_ind3 x) (go t)
                                   end) k)
    end.
  Definition sforest_ind3 : forall l, Q l :=
    fix go (l : list snode) : Q l :=
      match l with
      | [] => Hnil
      | x :: t => Hcons x t (snode_ind3 x) (go t)
      end.
End SnodeInd.

(* ---------------------------------------------------------------- token level *)
Fixpoint stoks_n (F : tfmt) (lvl : nat) (d : snode) : list token :=
  match d with
  | SN s row kids =>
    match kids with
    | [] => [(s, lvl, (row ++ tf_se F)%string)]
    | _ => (s, lvl, (row ++ tf_bb F)%string) :: flat_map (stoks_n F (S lvl)) kids ++
           (if is_empty (tf_be F) then [] else [(s, lvl, tf_be F)])
    end
  end.
Definition stoks (F : tfmt) (lvl : nat) (d : list snode) : list token := flat_map (stoks_n F lvl) d.

Lemma toks_app n a b :
  toks n (a ++ b) = match toks n a, toks n b with Some x, Some y => Some (x ++ y) | _, _ => None end.
Proof.
  induction a as [|l a IH]; cbn [app toks].
  - destruct (toks n b); reflexivity.
  - rewrite IH. destruct (tok n l); [|reflexivity]. destruct (toks n a); [|reflexivity].
    destruct (toks n b); reflexivity.
Qed.

Section Toks.
  Variable F : tfmt.
  Hypothesis HF : fmt_ok F = true.
  Let n := String.length (tf_indent F).

  Lemma toks_slines : forall d lvl, rows_ok d = true -> toks n (slines F lvl d) = Some (stoks F lvl d).
  Proof.
    apply (sforest_ind3
             (fun x => forall lvl, rows_ok_n x = true -> toks n (slines_n F lvl x) = Some (stoks_n F lvl x))
             (fun d => forall lvl, rows_ok d = true -> toks n (slines F lvl d) = Some (stoks F lvl d))).
    - intros s row k IH lvl H. cbn [rows_ok_n] in H. apply andb_true_iff in H as [Hr Hk].
      cbn [slines_n stoks_n]. destruct k as [|k0 kt].
      + cbn [toks]. unfold n. rewrite (tok_sline F HF) by (apply starts_blank_app; exact Hr). reflexivity.
      + cbn [toks]. unfold n. rewrite (tok_sline F HF) by (apply starts_blank_app; exact Hr).
        fold n. rewrite toks_app.
        change (flat_map (slines_n F (S lvl)) (k0 :: kt)) with (slines F (S lvl) (k0 :: kt)).
        rewrite (IH (S lvl) Hk).
        change (flat_map (stoks_n F (S lvl)) (k0 :: kt)) with (stoks F (S lvl) (k0 :: kt)).
        destruct (is_empty (tf_be F)); cbn [toks]; [reflexivity|].
        unfold n. rewrite (tok_sline F HF) by (apply (fmt_be F HF)). reflexivity.
    - intros lvl _. reflexivity.
    - intros x l IHx IHl lvl H. unfold rows_ok in H. cbn [forallb] in H. apply andb_true_iff in H as [Hx Hl].
      unfold slines, stoks. cbn [flat_map]. rewrite toks_app.
      rewrite (IHx lvl Hx). change (flat_map (slines_n F lvl) l) with (slines F lvl l).
      rewrite (IHl lvl Hl). reflexivity.
  Qed.
End Toks.

(* the first token of a printed entry is at the entry's level *)
Lemma stoks_n_head F lvl x : exists s txt tl, stoks_n F lvl x = (s, lvl, txt) :: tl.
Proof. destruct x as [s row [|k0 kt]]; cbn [stoks_n]; eauto. Qed.

Definition stop (rest : list token) (lvl : nat) : Prop :=
  match rest with [] => True | (_, l, _) :: _ => l < lvl end.

Lemma stop_weaken rest lvl : stop rest lvl -> stop rest (S lvl).
Proof. destruct rest as [|[[s l] t] r]; cbn; [auto | lia]. Qed.

Lemma has_kids_false F lvl l rest : stop rest lvl ->
  match stoks F lvl l ++ rest with (_, l', _) :: _ => Nat.eqb l' (S lvl) | [] => false end = false.
Proof.
  intros Hs. destruct l as [|x l].
  - cbn. destruct rest as [|[[s l'] t] r]; [reflexivity|]. cbn in Hs. apply Nat.eqb_neq. lia.
  - unfold stoks. cbn [flat_map]. destruct (stoks_n_head F lvl x) as (s & txt & tl & E). rewrite E. cbn.
    apply Nat.eqb_neq. lia.
Qed.

Lemma sign_eqb_refl s : sign_eqb s s = true.
Proof. destruct s; reflexivity. Qed.

Ltac len H := repeat (progress (cbn [List.length] in H |- *; rewrite ?app_length in H; rewrite ?app_length)); lia.

Theorem pforest_stoks F : forall d lvl rest fuel,
  List.length (stoks F lvl d ++ rest) < fuel -> stop rest lvl ->
  pforest F fuel lvl (stoks F lvl d ++ rest) = Some (d, rest).
Proof.
  apply (sforest_ind3
           (fun x => forall lvl rest fuel, List.length (stoks F lvl (s_kids x) ++ rest) < fuel -> stop rest lvl ->
                                           pforest F fuel lvl (stoks F lvl (s_kids x) ++ rest) = Some (s_kids x, rest))
           (fun d => forall lvl rest fuel, List.length (stoks F lvl d ++ rest) < fuel -> stop rest lvl ->
                                           pforest F fuel lvl (stoks F lvl d ++ rest) = Some (d, rest))).
  - intros s row k IH. exact IH.
  - intros lvl rest fuel Hf Hs. cbn [stoks flat_map app] in *.
    destruct fuel as [|fuel]; [lia|]. cbn [pforest].
    destruct rest as [|[[s l] t] r]; [reflexivity|]. cbn in Hs.
    assert (E : Nat.ltb l lvl = true) by (apply Nat.ltb_lt; exact Hs). rewrite E. reflexivity.
  - intros [s row kids] l IHk IHl lvl rest fuel Hf Hs. cbn [s_kids] in IHk.
    change (stoks F lvl (SN s row kids :: l)) with (stoks_n F lvl (SN s row kids) ++ stoks F lvl l) in *.
    rewrite <- app_assoc in *.
    destruct fuel as [|fuel]; [lia|].
    destruct kids as [|k0 kt].
    + cbn [stoks_n app] in *. cbn [pforest].
      rewrite Nat.ltb_irrefl, Nat.eqb_refl. cbn [negb].
      rewrite (has_kids_false F lvl l rest Hs), strip_suffix_app.
      rewrite (IHl lvl rest fuel); [reflexivity | cbn [List.length] in Hf; lia | exact Hs].
    + cbn [stoks_n] in *. cbn [app] in *. rewrite <- app_assoc in *.
      change (flat_map (stoks_n F (S lvl)) (k0 :: kt)) with (stoks F (S lvl) (k0 :: kt)) in *.
      assert (Hhead : forall tl, match stoks F (S lvl) (k0 :: kt) ++ tl with
                                 | (_, l', _) :: _ => Nat.eqb l' (S lvl) | [] => false end = true).
      { intros tl. unfold stoks. cbn [flat_map]. destruct (stoks_n_head F (S lvl) k0) as (s0 & t0 & tl0 & E0).
        rewrite E0. cbn. apply Nat.eqb_refl. }
      assert (Hstop0 : stop (stoks F lvl l ++ rest) (S lvl)).
      { destruct l as [|x l'].
        - cbn. apply stop_weaken. exact Hs.
        - unfold stoks. cbn [flat_map]. destruct (stoks_n_head F lvl x) as (s0 & t0 & tl0 & E0).
          rewrite E0. cbn. lia. }
      destruct (is_empty (tf_be F)) eqn:Ebe.
      * cbn [app] in *. cbn [pforest]. rewrite Nat.ltb_irrefl, Nat.eqb_refl. cbn [negb].
        rewrite Hhead, strip_suffix_app.
        rewrite (IHk (S lvl) (stoks F lvl l ++ rest) fuel);
          [| len Hf | exact Hstop0].
        rewrite Ebe.
        rewrite (IHl lvl rest fuel); [reflexivity | | exact Hs].
        len Hf.
      * cbn [app] in *. cbn [pforest]. rewrite Nat.ltb_irrefl, Nat.eqb_refl. cbn [negb].
        rewrite Hhead, strip_suffix_app.
        rewrite (IHk (S lvl) ((s, lvl, tf_be F) :: stoks F lvl l ++ rest) fuel);
          [| len Hf | cbn; lia].
        rewrite Ebe, sign_eqb_refl, Nat.eqb_refl, String.eqb_refl. cbn [andb].
        rewrite (IHl lvl rest fuel); [reflexivity | | exact Hs].
        len Hf.
Qed.

Theorem parse_stoks F d : parse_toks F (stoks F 0 d) = Some d.
Proof.
  unfold parse_toks.
  pose proof (pforest_stoks F d 0 [] (S (List.length (stoks F 0 d)))) as H.
  rewrite app_nil_r in H. rewrite H; [reflexivity | lia | exact I].
Qed.

(* ---------------------------------------------------------------- render round trip *)
Theorem render_roundtrip F s : fmt_ok F = true -> rows_ok s = true -> parse_signed F (slines F 0 s) = Some s.
Proof.
  intros HF Hr. unfold parse_signed. rewrite HF, (toks_slines F HF s 0 Hr). apply parse_stoks.
Qed.

(* no UNCHANGED entry <-> formatter.diff does not raise *)
Lemma shape_f_go kids :
  (fix go (l : list dnode) : option (list snode) :=
     match l with
     | [] => Some []
     | x :: t => match shape_n x, go t with Some a, Some b => Some (a :: b) | _, _ => None end
     end) kids = shape_f kids.
Proof. induction kids as [|x t IH]; [reflexivity|]. cbn [shape_f]. rewrite <- IH. reflexivity. Qed.

Lemma shape_n_eq o row m kids :
  shape_n (DN o row m kids) =
  match op_sign o, shape_f kids with Some s, Some ks => Some (SN s row ks) | _, _ => None end.
Proof. cbn [shape_n]. rewrite shape_f_go. reflexivity. Qed.

Lemma shape_total : forall d, no_unchanged_n d = true -> exists s, shape_n d = Some s.
Proof.
  induction d as [o row m kids IH] using dnode_ind2. cbn [no_unchanged_n]. intros H.
  apply andb_true_iff in H as [Ho Hk]. rewrite shape_n_eq.
  assert (Hs : exists ks, shape_f kids = Some ks).
  { induction IH as [|x l Hx _ IHl]; [exists []; reflexivity|].
    cbn [forallb] in Hk. apply andb_true_iff in Hk as [Hk1 Hk2].
    destruct (Hx Hk1) as (a & Ea). destruct (IHl Hk2) as (b & Eb).
    exists (a :: b). cbn [shape_f]. rewrite Ea, Eb. reflexivity. }
  destruct Hs as (ks & Eks). rewrite Eks.
  destruct o; cbn in *; try discriminate; eauto.
Qed.

Lemma shape_f_total d : forallb no_unchanged_n d = true -> exists s, shape_f d = Some s.
Proof.
  induction d as [|x l IH]; [exists []; reflexivity|]. cbn [forallb]. intros H.
  apply andb_true_iff in H as [H1 H2]. destruct (shape_total x H1) as (a & Ea). destruct (IH H2) as (b & Eb).
  exists (a :: b). cbn [shape_f]. rewrite Ea, Eb. reflexivity.
Qed.

(* a diff without UNCHANGED entries is its own "minus UNCHANGED" *)
Lemma shape_sshape : forall d s, shape_n d = Some s -> sshape_n d = [s].
Proof.
  induction d as [o row m kids IH] using dnode_ind2. intros s H. rewrite shape_n_eq in H.
  cbn [sshape_n]. destruct (op_sign o) as [sg|]; [|discriminate].
  destruct (shape_f kids) as [ks|] eqn:Ek; [|discriminate]. injection H as <-.
  f_equal. f_equal. clear - IH Ek. revert ks Ek.
  induction IH as [|x l Hx _ IHl]; intros ks Ek; cbn [shape_f] in Ek.
  - injection Ek as <-. reflexivity.
  - destruct (shape_n x) as [a|] eqn:Ea; [|discriminate]. destruct (shape_f l) as [b|] eqn:Eb; [|discriminate].
    injection Ek as <-. cbn [flat_map]. rewrite (Hx a eq_refl), (IHl b eq_refl). reflexivity.
Qed.

Lemma shape_f_sshape : forall d s, shape_f d = Some s -> sshape_f d = s.
Proof.
  induction d as [|x l IH]; intros s H; cbn [shape_f] in H.
  - injection H as <-. reflexivity.
  - destruct (shape_n x) as [a|] eqn:Ea; [|discriminate]. destruct (shape_f l) as [b|] eqn:Eb; [|discriminate].
    injection H as <-. unfold sshape_f. cbn [flat_map]. rewrite (shape_sshape x a Ea).
    change (flat_map sshape_n l) with (sshape_f l). rewrite (IH b eq_refl). reflexivity.
Qed.

(* formatter.diff(d) read back gives d's entries, signs and nesting *)
Theorem read_back_shape F d s : fmt_ok F = true -> shape_f d = Some s -> rows_ok s = true ->
  read_back F d = Some s.
Proof.
  intros HF Hs Hr. unfold read_back, diff_lines. rewrite Hs. apply render_roundtrip; assumption.
Qed.

Theorem read_back_total F d : fmt_ok F = true -> forallb no_unchanged_n d = true -> rows_ok (sshape_f d) = true ->
  exists lines, diff_lines F d = Some lines /\ parse_signed F lines = Some (sshape_f d) /\ shape_f d = Some (sshape_f d).
Proof.
  intros HF Hn Hr. destruct (shape_f_total d Hn) as (s & Es).
  pose proof (shape_f_sshape d s Es) as E. rewrite E in *. subst s.
  exists (slines F 0 (sshape_f d)). unfold diff_lines. rewrite Es. split; [reflexivity|]. split; [|reflexivity].
  apply render_roundtrip; assumption.
Qed.

(* the confirmation view is injective *)
Theorem diff_lines_injective F d1 d2 lines : fmt_ok F = true ->
  forallb no_unchanged_n d1 = true -> forallb no_unchanged_n d2 = true ->
  rows_ok (sshape_f d1) = true -> rows_ok (sshape_f d2) = true ->
  diff_lines F d1 = Some lines -> diff_lines F d2 = Some lines -> sshape_f d1 = sshape_f d2.
Proof.
  intros HF H1 H2 R1 R2 L1 L2.
  destruct (read_back_total F d1 HF H1 R1) as (l1 & E1 & P1 & _).
  destruct (read_back_total F d2 HF H2 R2) as (l2 & E2 & P2 & _).
  rewrite L1 in E1. rewrite L2 in E2. injection E1 as <-. injection E2 as <-.
  rewrite P1 in P2. injection P2 as E. exact E.
Qed.

(* ---------------------------------------------------------------- the `annet diff` view *)
Lemma slines_plain ind lvl s row kids :
  slines_n (plain_fmt ind) lvl (SN s row kids) =
  sline (plain_fmt ind) s lvl row :: slines (plain_fmt ind) (S lvl) kids.
Proof.
  cbn [slines_n plain_fmt tf_se tf_bb tf_be is_empty]. rewrite sappend_nil_r.
  destruct kids; [reflexivity|]. rewrite app_nil_r. reflexivity.
Qed.

Lemma pre_line_sline ind s lvl row : all_blank ind = true ->
  chomp (pre_line ind s lvl row) = sline (plain_fmt ind) s lvl row.
Proof.
  intros H. unfold pre_line, sline. cbn [plain_fmt tf_indent].
  destruct (repeat_blank ind lvl H) as [Hb _].
  rewrite (blank_comm _ _ Hb), <- sappend_assoc.
  change (String (sign_char s) (String " " ((repeat_str ind lvl ++ row) ++ nl_s)))
    with ((String (sign_char s) (String " " (repeat_str ind lvl ++ row))) ++ nl_s)%string.
  apply chomp_nl.
Qed.

Section PreInd.
  Variable P : pre -> Prop.
  Hypothesis H : forall gs,
      Forall (fun g : pgroup =>
                Forall (fun kv : list string * list pitem => Forall (fun it : pitem => P (snd it)) (snd kv)) (snd g)) gs ->
      P (Pre gs).
  Fixpoint pre_ind2 (p : pre) : P p :=
    match p with
    | Pre gs =>
      H gs ((fix gl (gs : list pgroup) : Forall _ gs :=
               match gs with
               | [] => Forall_nil _
               | (r, a, ks) :: gs' =>
                 Forall_cons (r, a, ks)
                   ((fix kl (ks : pkeys) : Forall _ ks :=
                       match ks with
                       | [] => Forall_nil _
                       | (k, its) :: ks' =>
                         Forall_cons (k, its)
                           ((fix il (its : list pitem) : Forall (fun it : pitem => P (snd it)) its :=
                               match its with
                               | [] => Forall_nil _
                               | (o, row, ch) :: its' => Forall_cons (o, row, ch) (pre_ind2 ch) (il its')
                               end) its)
                           (kl ks')
                       end) ks)
                   (gl gs')
               end) gs)
    end.
End PreInd.

(* two walks with related item functions give related results *)
Section WalkRel.
  Context {B C : Type}.
  Variable R : list B -> list C -> Prop.
  Variables (f : sign -> string -> pre -> list B) (g : sign -> string -> pre -> list C).
  Hypothesis Rnil : R [] [].
  Hypothesis Rapp : forall a a' b b', R a a' -> R b b' -> R (a ++ b) (a' ++ b').

  Definition item_rel (it : pitem) : Prop := forall s, R (f s (snd (fst it)) (snd it)) (g s (snd (fst it)) (snd it)).

  Lemma il_walk_rel s its : Forall item_rel its -> R (il_walk f s its) (il_walk g s its).
  Proof.
    induction 1 as [|[[o row] ch] its Hi _ IH]; [exact Rnil|]. cbn [il_walk].
    apply Rapp; [|exact IH]. destruct (has_sign o s); [apply (Hi s) | exact Rnil].
  Qed.

  Lemma kl_walk_rel ks : Forall (fun kv : list string * list pitem => Forall item_rel (snd kv)) ks ->
    R (kl_walk f ks) (kl_walk g ks).
  Proof.
    induction 1 as [|[k its] ks Hk _ IH]; [exact Rnil|]. cbn [kl_walk snd] in *.
    apply Rapp; [|exact IH]. cbn [flat_map pre_signs].
    repeat (apply Rapp; [apply il_walk_rel; exact Hk|]). exact Rnil.
  Qed.

  Lemma gl_walk_rel gs :
    Forall (fun grp : pgroup => Forall (fun kv : list string * list pitem => Forall item_rel (snd kv)) (snd grp)) gs ->
    R (gl_walk f gs) (gl_walk g gs).
  Proof.
    induction 1 as [|[[r a] ks] gs Hg _ IH]; [exact Rnil|]. cbn [gl_walk snd] in *.
    apply Rapp; [apply kl_walk_rel; exact Hg | exact IH].
  Qed.
End WalkRel.

(* gen_pre_as_diff prints pre_shape with the plain formatter (a newline after every line) *)
Theorem pre_lines_shape ind : all_blank ind = true ->
  forall p lvl, map chomp (pre_lines ind lvl p) = slines (plain_fmt ind) lvl (pre_shape p).
Proof.
  intros Hb. induction p as [gs IH] using pre_ind2. intros lvl. cbn [pre_lines pre_shape].
  apply (gl_walk_rel (fun (ls : list string) (sh : list snode) => map chomp ls = slines (plain_fmt ind) lvl sh)).
  - reflexivity.
  - intros a a' b b' Ha Hb'. unfold slines in *. rewrite map_app, flat_map_app, Ha, Hb'. reflexivity.
  - eapply Forall_impl; [|exact IH]. intros grp Hg. eapply Forall_impl; [|exact Hg]. intros kv Hk.
    eapply Forall_impl; [|exact Hk]. intros [[o row] ch] Hit s. cbn [fst snd] in *.
    cbn [map]. rewrite (pre_line_sline ind s lvl row Hb), (Hit (S lvl)).
    unfold slines at 2. cbn [flat_map]. rewrite slines_plain, app_nil_r. reflexivity.
Qed.

(* ---------------------------------------------------------------- permutation of every level *)
Lemma tperm_refl_n : forall x l, tperm l l -> tperm (x :: l) (x :: l).
Proof.
  apply (snode_ind3 (fun x => forall l, tperm l l -> tperm (x :: l) (x :: l)) (fun k => tperm k k)).
  - intros s row k Hk l Hl. apply tp_skip; assumption.
  - constructor.
  - intros x l Hx Hl. apply Hx. exact Hl.
Qed.

Lemma tperm_refl : forall l, tperm l l.
Proof. induction l as [|x l IH]; [constructor | apply tperm_refl_n; exact IH]. Qed.

Lemma perm_tperm l l' : Permutation l l' -> tperm l l'.
Proof.
  induction 1 as [|x l l' _ IH|x y l|l1 l2 l3 _ IH1 _ IH2].
  - constructor.
  - destruct x as [s row k]. apply tp_skip; [apply tperm_refl | exact IH].
  - apply tp_swap.
  - eapply tp_trans; eassumption.
Qed.

Lemma tperm_app_head l : forall b b', tperm b b' -> tperm (l ++ b) (l ++ b').
Proof.
  induction l as [|[s row k] l IH]; intros b b' H; [exact H|]. cbn [app].
  apply tp_skip; [apply tperm_refl | apply IH; exact H].
Qed.

Lemma tperm_app a a' : tperm a a' -> forall b b', tperm b b' -> tperm (a ++ b) (a' ++ b').
Proof.
  induction 1 as [|s row k k' l l' Hk _ _ IHl|x y l|l1 l2 l3 _ IH1 _ IH2]; intros b b' Hb.
  - exact Hb.
  - cbn [app]. apply tp_skip; [exact Hk | apply IHl; exact Hb].
  - cbn [app]. eapply tp_trans; [apply tp_swap|]. apply (tperm_app_head [x; y]). apply tperm_app_head. exact Hb.
  - eapply tp_trans; [apply IH1; apply tperm_refl | apply IH2; exact Hb].
Qed.

Lemma tperm_flat_map {A} (f g : A -> list snode) l :
  Forall (fun x => tperm (f x) (g x)) l -> tperm (flat_map f l) (flat_map g l).
Proof. induction 1 as [|x l Hx _ IH]; [constructor|]. cbn [flat_map]. apply tperm_app; assumption. Qed.

Lemma rows_ok_cons x l : rows_ok (x :: l) = rows_ok_n x && rows_ok l.
Proof. reflexivity. Qed.

Lemma rows_ok_tperm a b : tperm a b -> rows_ok a = rows_ok b.
Proof.
  induction 1 as [|s row k k' l l' _ IHk _ IHl|x y l|l1 l2 l3 _ IH1 _ IH2].
  - reflexivity.
  - rewrite !rows_ok_cons. cbn [rows_ok_n]. fold (rows_ok k). fold (rows_ok k'). rewrite IHk, IHl. reflexivity.
  - rewrite !rows_ok_cons. destruct (rows_ok_n x), (rows_ok_n y); reflexivity.
  - congruence.
Qed.

(* what one item of a pre contributes to the printed entries *)
Definition shape_item (s : sign) (row : string) (ch : pre) : list snode := [SN s row (pre_shape ch)].
Definition item_nodes (it : pitem) : list snode :=
  match op_sign (fst (fst it)) with
  | Some s => [SN s (snd (fst it)) (pre_shape (snd it))]
  | None => []
  end.
Definition gitems (gs : list pgroup) : list pitem := flat_map (fun grp : pgroup => flat_map snd (snd grp)) gs.

Lemma pre_shape_eq gs : pre_shape (Pre gs) = gl_walk shape_item gs.
Proof. reflexivity. Qed.

Section Buckets.
  Context {A : Type}.
  Variables (x : A) (a b c d r : list A).
  Hypothesis H : Permutation (a ++ b ++ c ++ d ++ []) r.
  Lemma pb1 : Permutation ((x :: a) ++ b ++ c ++ d ++ []) (x :: r).
  Proof. cbn [app]. constructor. exact H. Qed.
  Lemma pb2 : Permutation (a ++ (x :: b) ++ c ++ d ++ []) (x :: r).
  Proof. cbn [app]. apply Permutation_sym, Permutation_cons_app, Permutation_sym. exact H. Qed.
  Lemma pb3 : Permutation (a ++ b ++ (x :: c) ++ d ++ []) (x :: r).
  Proof.
    cbn [app]. rewrite app_assoc. apply Permutation_sym, Permutation_cons_app, Permutation_sym.
    rewrite <- app_assoc. exact H.
  Qed.
  Lemma pb4 : Permutation (a ++ b ++ c ++ (x :: d) ++ []) (x :: r).
  Proof.
    cbn [app]. rewrite (app_assoc a), (app_assoc (a ++ b)).
    apply Permutation_sym, Permutation_cons_app, Permutation_sym.
    rewrite <- !app_assoc. exact H.
  Qed.
End Buckets.

Lemma il_perm its :
  Permutation (flat_map (fun s => il_walk shape_item s its) pre_signs) (flat_map item_nodes its).
Proof.
  induction its as [|[[o row] ch] its IH]; [reflexivity|].
  cbn [flat_map pre_signs il_walk] in *. unfold item_nodes at 1. cbn [fst snd].
  destruct o; cbn [has_sign op_sign sign_eqb shape_item].
  - apply (pb4 (SN SAdd row (pre_shape ch))). exact IH.
  - apply (pb3 (SN SRem row (pre_shape ch))). exact IH.
  - apply (pb2 (SN SMov row (pre_shape ch))). exact IH.
  - apply (pb1 (SN SAff row (pre_shape ch))). exact IH.
  - exact IH.
Qed.

Lemma kl_perm ks : Permutation (kl_walk shape_item ks) (flat_map item_nodes (flat_map snd ks)).
Proof.
  induction ks as [|[k its] ks IH]; [reflexivity|]. cbn [kl_walk flat_map snd].
  rewrite flat_map_app. apply Permutation_app; [apply il_perm | exact IH].
Qed.

Lemma gl_perm gs : Permutation (gl_walk shape_item gs) (flat_map item_nodes (gitems gs)).
Proof.
  induction gs as [|[[r a] ks] gs IH]; [reflexivity|]. unfold gitems. cbn [gl_walk flat_map snd].
  rewrite flat_map_app. apply Permutation_app; [apply kl_perm | exact IH].
Qed.

(* make_pre only regroups the entries of a level *)
Lemma ins_key_perm key it : forall ks, Permutation (flat_map snd (ins_key key it ks)) (flat_map snd ks ++ [it]).
Proof.
  induction ks as [|[k its] ks IH]; [reflexivity|]. cbn [ins_key].
  destruct (list_str_eqb k key); cbn [flat_map snd].
  - rewrite <- !app_assoc. apply Permutation_app_head. apply Permutation_app_comm.
  - rewrite <- !app_assoc. apply Permutation_app_head. exact IH.
Qed.

Lemma ins_group_perm raw a key it : forall gs,
  Permutation (gitems (ins_group raw a key it gs)) (gitems gs ++ [it]).
Proof.
  unfold gitems. induction gs as [|[[r a0] ks] gs IH]; [reflexivity|]. cbn [ins_group].
  destruct (String.eqb r raw); cbn [flat_map snd].
  - eapply Permutation_trans; [apply Permutation_app_tail; apply ins_key_perm|].
    rewrite <- !app_assoc. apply Permutation_app_head. apply Permutation_app_comm.
  - rewrite <- !app_assoc. apply Permutation_app_head. exact IH.
Qed.

Definition insf (gs : list pgroup) (e : string * attrs * list string * pitem) : list pgroup :=
  let '(raw, a, key, it) := e in ins_group raw a key it gs.

Lemma fold_ins_perm : forall E gs0,
  Permutation (gitems (fold_left insf E gs0)) (gitems gs0 ++ map snd E).
Proof.
  induction E as [|[[[raw a] key] it] E IH]; intros gs0; cbn [fold_left map].
  - rewrite app_nil_r. reflexivity.
  - eapply Permutation_trans; [apply IH|]. cbn [insf snd].
    eapply Permutation_trans; [apply Permutation_app_tail; apply ins_group_perm|].
    rewrite <- app_assoc. reflexivity.
Qed.

Lemma make_pre_eq d : make_pre d = Pre (fold_left insf (map make_pre_n d) []).
Proof. reflexivity. Qed.

Lemma make_pre_n_item o row m kids : snd (make_pre_n (DN o row m kids)) = (o, row, make_pre kids).
Proof. reflexivity. Qed.

Lemma pre_shape_perm d :
  Permutation (pre_shape (make_pre d)) (flat_map (fun x => item_nodes (snd (make_pre_n x))) d).
Proof.
  rewrite make_pre_eq, pre_shape_eq.
  eapply Permutation_trans; [apply gl_perm|].
  eapply Permutation_trans; [apply Permutation_flat_map; apply fold_ins_perm|].
  cbn [gitems flat_map app]. rewrite map_map.
  clear. induction d as [|x d IH]; [reflexivity|]. cbn [map flat_map]. apply Permutation_app_head. exact IH.
Qed.

Theorem pre_shape_tperm : forall d, tperm (pre_shape (make_pre d)) (sshape_f d).
Proof.
  assert (Hn : forall x, tperm (item_nodes (snd (make_pre_n x))) (sshape_n x)).
  { induction x as [o row m kids IH] using dnode_ind2.
    rewrite make_pre_n_item. unfold item_nodes. cbn [fst snd sshape_n].
    destruct (op_sign o) as [s|]; [|constructor].
    apply tp_skip; [|constructor].
    eapply tp_trans; [apply perm_tperm; apply pre_shape_perm|].
    apply tperm_flat_map. exact IH. }
  intros d. eapply tp_trans; [apply perm_tperm; apply pre_shape_perm|].
  apply tperm_flat_map. apply Forall_forall. intros x _. apply Hn.
Qed.

(* gen_pre_as_diff(make_pre(d)) read back: the diff minus UNCHANGED, every level up to order *)
Theorem pre_render ind d : fmt_ok (plain_fmt ind) = true -> rows_ok (sshape_f d) = true ->
  exists s', pre_read_back ind d = Some s' /\ tperm s' (sshape_f d).
Proof.
  intros HF Hr. exists (pre_shape (make_pre d)). split; [|apply pre_shape_tperm].
  unfold pre_read_back. rewrite (pre_lines_shape ind (fmt_blank _ HF)).
  apply render_roundtrip; [exact HF|]. rewrite (rows_ok_tperm _ _ (pre_shape_tperm d)). exact Hr.
Qed.

(* "minus UNCHANGED" is strip_unchanged *)
Lemma sshape_strip_n : forall d, flat_map sshape_n (strip_unchanged_n d) = sshape_n d.
Proof.
  induction d as [o row m kids IH] using dnode_ind2. cbn [strip_unchanged_n sshape_n].
  destruct o; cbn [op_eqb op_sign flat_map sshape_n app]; try reflexivity;
    (f_equal; f_equal; induction IH as [|x l Hx _ IHl]; [reflexivity|];
     cbn [flat_map]; rewrite flat_map_app, Hx, IHl; reflexivity).
Qed.

Lemma sshape_strip d : sshape_f (strip_unchanged d) = sshape_f d.
Proof.
  unfold sshape_f, strip_unchanged. induction d as [|x d IH]; [reflexivity|].
  cbn [flat_map]. rewrite flat_map_app, IH, sshape_strip_n. reflexivity.
Qed.

(* ---------------------------------------------------------------- the boolean used on real outputs *)
(* [same_levels] (canonical sort of every level, then equality) is a sound test for [tperm] *)
Lemma tperm_sym a b : tperm a b -> tperm b a.
Proof.
  induction 1 as [|s row k k' l l' _ IHk _ IHl|x y l|l1 l2 l3 _ IH1 _ IH2].
  - constructor.
  - apply tp_skip; assumption.
  - apply tp_swap.
  - eapply tp_trans; eassumption.
Qed.

Lemma sn_insert_perm x : forall l, Permutation (sn_insert x l) (x :: l).
Proof.
  induction l as [|y l IH]; [reflexivity|]. cbn [sn_insert]. destruct (sn_leb x y); [reflexivity|].
  eapply Permutation_trans; [apply perm_skip; exact IH | apply perm_swap].
Qed.

Lemma sn_sort_perm l : Permutation (fold_right sn_insert [] l) l.
Proof.
  induction l as [|x l IH]; [reflexivity|]. cbn [fold_right].
  eapply Permutation_trans; [apply sn_insert_perm | apply perm_skip; exact IH].
Qed.

Lemma scanon_tperm : forall d, tperm (scanon d) d.
Proof.
  apply (sforest_ind3 (fun x => tperm [scanon_n x] [x]) (fun d => tperm (scanon d) d)).
  - intros s row k IH. cbn [scanon_n]. apply tp_skip; [exact IH | constructor].
  - constructor.
  - intros x l Hx Hl. unfold scanon. cbn [map fold_right].
    eapply tp_trans; [apply perm_tperm; apply sn_insert_perm|].
    apply (tperm_app [scanon_n x] [x] Hx). exact Hl.
Qed.

Lemma sign_eqb_eq a b : sign_eqb a b = true -> a = b.
Proof. destruct a, b; cbn; intros H; try reflexivity; discriminate. Qed.

Lemma sforest_eqb_eq : forall a b, sforest_eqb a b = true -> a = b.
Proof.
  apply (sforest_ind3 (fun x => forall y, snode_eqb x y = true -> x = y)
                      (fun a => forall b, sforest_eqb a b = true -> a = b)).
  - intros s row k IH [s' row' k'] H. cbn [snode_eqb] in H.
    apply andb_true_iff in H as [H H3]. apply andb_true_iff in H as [H1 H2].
    apply sign_eqb_eq in H1. apply String.eqb_eq in H2. subst. f_equal. apply IH.
    clear - H3. revert k' H3. induction k as [|x t IHt]; intros [|y t'] H; cbn in *; try reflexivity; try discriminate.
    apply andb_true_iff in H as [Ha Hb]. rewrite Ha. cbn. apply IHt. exact Hb.
  - intros [|y t] H; [reflexivity | discriminate].
  - intros x l Hx Hl [|y t] H; [discriminate|]. cbn [sforest_eqb] in H.
    apply andb_true_iff in H as [Ha Hb]. f_equal; [apply Hx; exact Ha | apply Hl; exact Hb].
Qed.

Theorem same_levels_tperm a b : same_levels a b = true -> tperm a b.
Proof.
  unfold same_levels. intros H. apply sforest_eqb_eq in H.
  eapply tp_trans; [apply tperm_sym; apply scanon_tperm|]. rewrite H. apply scanon_tperm.
Qed.
