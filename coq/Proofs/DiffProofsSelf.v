(* C03 proof library, part 3: comparing a configuration with itself. *)
From Coq Require Import List String Bool Arith Lia Permutation.
From Annet Require Import Base.Str Base.Tree Model.Rulebook Model.Diff Spec.P_C03 Proofs.DiffBasics
  Proofs.DiffProofsLib Proofs.DiffProofsAnnot.
Import ListNotations.
Open Scope list_scope.

Definition self_node (pop : op) (inrw : bool) (k : string * minfo * atree) : dnode :=
  DN pop (arow k) (ami k) (diff_t (asub k) (akids (asub k)) pop inrw).

Lemma scan_self pop inrw mta : forall suf pre, NoDup (arows (pre ++ suf)) ->
  scan_new (pre ++ suf) pop inrw mta (cks suf) (List.length pre) false = map (self_node pop inrw) suf.
Proof.
  induction suf as [|[[r m] c] suf IH]; intros pre Hnd; [reflexivity|].
  change (cks ((r, m, c) :: suf)) with ((r, m, diff_t c) :: cks suf).
  cbn [scan_new].
  assert (Hr : ~ In r (arows pre)).
  { unfold arows in Hnd. rewrite map_app in Hnd. cbn in Hnd. apply NoDup_remove_2 in Hnd.
    intro Hin. apply Hnd. apply in_or_app. left. exact Hin. }
  rewrite afind_app_hit by exact Hr. cbn [plus].
  rewrite Nat.eqb_refl. cbn [negb orb map].
  f_equal.
  specialize (IH (pre ++ [(r, m, c)])). rewrite <- app_assoc in IH. cbn [app] in IH.
  rewrite app_length in IH. cbn [List.length] in IH. rewrite Nat.add_1_r in IH.
  apply IH. exact Hnd.
Qed.

Lemma removed_rows_none : forall l newrows i,
  (forall k, In k l -> In (arow k) newrows) -> removed_rows l newrows i = [].
Proof.
  induction l as [|[[r m] c] l IH]; intros newrows i H; [reflexivity|].
  cbn [removed_rows].
  assert (E : existsb (String.eqb r) newrows = true).
  { apply existsb_eqb_In. apply (H (r, m, c)). now left. }
  rewrite E. apply IH. intros k Hk. apply H. now right.
Qed.

Lemma base_diff_self g pop inrw mta : NoDup (arows g) ->
  base_diff g pop inrw mta (cks g) = map (self_node pop inrw) g.
Proof.
  intros Hnd. unfold base_diff. rewrite cks_rows.
  rewrite removed_rows_none by (intros k Hk; apply in_map; exact Hk).
  rewrite interleave_nil. apply (scan_self pop inrw mta g []). exact Hnd.
Qed.

Lemma all_affected_self : forall a, awf (akids a) -> forall inrw,
  all_affected (diff_t a (akids a) Affected inrw) = true.
Proof.
  induction a as [nk IH] using atree_ind2. cbn [akids]. intros Hwf inrw.
  rewrite diff_t_unfold, diff_level_unfold. unfold all_affected.
  apply forallb_forall. intros d Hd. apply in_flat_map in Hd as (L & _ & Hd).
  assert (Hnd : NoDup (arows (filter (inL L) nk))).
  { apply NoDup_arows_filter. apply awf_NoDup. exact Hwf. }
  assert (Hall : forall inrw' mta,
    all_affected (base_diff (filter (inL L) nk) Affected inrw' mta (cks (filter (inL L) nk))) = true).
  { intros inrw' mta. rewrite base_diff_self by exact Hnd. unfold all_affected.
    apply forallb_forall. intros x Hx. apply in_map_iff in Hx as (k & Ex & Hk). subst x.
    apply filter_In in Hk as [Hk _]. unfold self_node. cbn [all_affected_n op_eqb andb].
    rewrite Forall_forall in IH. apply (IH k Hk).
    destruct k as [[r m] c]. eapply awf_In; [exact Hwf|exact Hk]. }
  assert (Hall2 : forall inrw' mta x,
    In x (base_diff (filter (inL L) nk) Affected inrw' mta (cks (filter (inL L) nk))) -> all_affected_n x = true).
  { intros inrw' mta. apply forallb_forall. apply Hall. }
  unfold run_dlogic in Hd.
  destruct L.
  - eapply Hall2. exact Hd.
  - eapply Hall2. exact Hd.
  - destruct inrw; [eapply Hall2; exact Hd|].
    rewrite (Hall true false) in Hd. destruct Hd.
Qed.

Lemma mark_all_affected : forall d, all_affected_n d = true -> d_op (mark_unchanged_n d) = Unchanged.
Proof.
  induction d as [o row m kids IH] using dnode_ind2. cbn [all_affected_n]. intros H.
  apply andb_true_iff in H as [Ho Hk]. cbn [mark_unchanged_n]. rewrite Ho.
  assert (E : forallb (fun x => op_eqb (d_op x) Unchanged) (map mark_unchanged_n kids) = true).
  { apply forallb_forall. intros x Hx. apply in_map_iff in Hx as (y & Ey & Hy). subst x.
    rewrite Forall_forall in IH. rewrite forallb_forall in Hk. rewrite (IH y Hy (Hk y Hy)). reflexivity. }
  rewrite E. reflexivity.
Qed.

Lemma strip_all_unchanged d : (forall x, In x d -> d_op x = Unchanged) -> strip_unchanged d = [].
Proof.
  unfold strip_unchanged. induction d as [|x d IH]; intros H; [reflexivity|].
  cbn [flat_map]. rewrite IH by (intros y Hy; apply H; now right).
  specialize (H x (or_introl eq_refl)). destruct x as [o row m k]. cbn in H. subst o. reflexivity.
Qed.

Lemma self_strip_empty a inrw : awf (akids a) ->
  strip_unchanged (mark_unchanged (diff_t a (akids a) Affected inrw)) = [].
Proof.
  intros Hwf. apply strip_all_unchanged. intros x Hx. unfold mark_unchanged in Hx.
  apply in_map_iff in Hx as (y & Ey & Hy). subst x. apply mark_all_affected.
  pose proof (all_affected_self a Hwf inrw) as H. unfold all_affected in H.
  rewrite forallb_forall in H. apply H. exact Hy.
Qed.

Section Self.
  Variable rmatch : string -> string -> option (list string).
  Theorem diff_self_empty_lib : forall rs x, wf x -> strip_unchanged (make_diff rmatch rs x x) = [].
  Proof.
    intros rs x Hwf. unfold make_diff, raw_diff.
    change (annot_f rmatch rs x) with (akids (annot rmatch rs (T x))).
    apply self_strip_empty. cbn [akids annot]. apply (annot_awf rmatch x rs Hwf).
  Qed.
End Self.
