(* C04: rendering a well-formed tree with a vendor's join, splitting it with the vendor's split and parsing it
   with the offside parser gives the tree back.  Rests on Base/Tree.v (rebuild) and on the C05 theorem
   (Proofs/OffsideProofs.v: the stack parser computes the declarative offside reference). *)
From Coq Require Import List String Ascii Bool Arith ZArith Lia.
From Annet Require Import Base.Str Base.Tree Model.Offside Spec.P_C05 Proofs.OffsideProofs
                          Gen.Src_vendors Model.Join Spec.P_C04.
Import ListNotations.
Open Scope string_scope.
Open Scope list_scope.
Arguments Nat.ltb : simpl never.
Arguments Nat.leb : simpl never.
Local Infix "+++" := String.append (right associativity, at level 60).

(* ====================================================================================== *)
(* strings *)

Lemma sapp_nil_r s : s +++ "" = s.
Proof. induction s as [|c s IH]; cbn; [reflexivity|]. rewrite IH. reflexivity. Qed.

Lemma sapp_assoc a b c : (a +++ b) +++ c = a +++ b +++ c.
Proof. induction a as [|x a IH]; cbn; [reflexivity|]. rewrite IH. reflexivity. Qed.

Lemma sapp_length a b : String.length (a +++ b) = String.length a + String.length b.
Proof. induction a as [|x a IH]; cbn; [reflexivity|]. rewrite IH. reflexivity. Qed.

Lemma str_forallb_app p a b : str_forallb p (a +++ b) = str_forallb p a && str_forallb p b.
Proof. induction a as [|x a IH]; cbn; [reflexivity|]. rewrite IH. apply andb_assoc. Qed.

Lemma str_forallb_impl (p q : ascii -> bool) s :
  (forall c, p c = true -> q c = true) -> str_forallb p s = true -> str_forallb q s = true.
Proof.
  intros H. induction s as [|c s IH]; cbn; [reflexivity|].
  intros E. apply andb_true_iff in E as [E1 E2]. rewrite (H c E1), (IH E2). reflexivity.
Qed.

Lemma blank_is_ws c : is_blank c = true -> is_ws c = true.
Proof.
  unfold is_blank. intros H. apply orb_true_iff in H as [H|H]; apply Ascii.eqb_eq in H; subst; reflexivity.
Qed.

Lemma repeat_str_blank ind k : str_forallb is_blank ind = true -> str_forallb is_blank (repeat_str ind k) = true.
Proof.
  intros H. induction k as [|k IH]; cbn; [reflexivity|]. rewrite str_forallb_app, H, IH. reflexivity.
Qed.

Lemma repeat_str_length ind k : String.length (repeat_str ind k) = k * String.length ind.
Proof. induction k as [|k IH]; cbn; [reflexivity|]. rewrite sapp_length, IH. reflexivity. Qed.

Lemma repeat_sp_S p : repeat_str " " (S p) = repeat_str " " p +++ " ".
Proof. induction p as [|p IH]; [reflexivity|]. cbn in *. rewrite <- IH. reflexivity. Qed.

(* ---------- strip ---------- *)

Lemma first_ok_inv s : first_ok s = true -> exists c r, s = String c r /\ is_ws c = false.
Proof.
  destruct s as [|c r]; cbn; [discriminate|]. intros H. exists c, r. split; [reflexivity|].
  apply negb_true_iff in H. exact H.
Qed.

Lemma lstrip_blanks I s : str_forallb is_blank I = true -> lstrip (I +++ s) = lstrip s.
Proof.
  induction I as [|a I IH]; cbn; [reflexivity|]. intros H. apply andb_true_iff in H as [Ha HI].
  rewrite (blank_is_ws a Ha). exact (IH HI).
Qed.

Lemma lstrip_first_ok s : first_ok s = true -> lstrip s = s.
Proof. intros H. destruct (first_ok_inv s H) as (c & r & -> & Hc). cbn. rewrite Hc. reflexivity. Qed.

Lemma rstrip_last_ok s : last_ok s = true -> rstrip s = s.
Proof.
  induction s as [|c s IH]; [discriminate|]. destruct s as [|d s'].
  - cbn. intros H. apply negb_true_iff in H. rewrite H. reflexivity.
  - intros H. change (last_ok (String c (String d s'))) with (last_ok (String d s')) in H.
    specialize (IH H). change (rstrip (String c (String d s'))) with
      (match rstrip (String d s') with
       | EmptyString => if is_ws c then EmptyString else String c EmptyString
       | r' => String c r' end).
    rewrite IH. reflexivity.
Qed.

Lemma rstrip_blanks I : str_forallb is_ws I = true -> rstrip I = "".
Proof.
  induction I as [|a I IH]; [reflexivity|]. cbn [str_forallb]. intros H. apply andb_true_iff in H as [Ha HI].
  cbn [rstrip]. rewrite (IH HI), Ha. reflexivity.
Qed.

Definition good_row (r : string) : Prop := first_ok r = true /\ last_ok r = true.

Lemma strip_line I r : str_forallb is_blank I = true -> good_row r -> strip (I +++ r) = r.
Proof.
  intros HI [Hf Hl]. unfold strip. rewrite lstrip_blanks by exact HI.
  rewrite lstrip_first_ok by exact Hf. apply rstrip_last_ok. exact Hl.
Qed.

Lemma not_ws_not_blank c : is_ws c = false -> is_blank c = false.
Proof. intros H. destruct (is_blank c) eqn:E; [|reflexivity]. apply blank_is_ws in E. congruence. Qed.

Lemma parse_indent_cons c s : parse_indent (String c s) = if is_blank c then S (parse_indent s) else 0.
Proof. reflexivity. Qed.

Lemma parse_indent_line I r : str_forallb is_blank I = true -> first_ok r = true ->
  parse_indent (I +++ r) = String.length I.
Proof.
  intros HI Hf. induction I as [|a I IH].
  - destruct (first_ok_inv r Hf) as (c & r' & -> & Hc). cbn [String.append String.length].
    rewrite parse_indent_cons, (not_ws_not_blank c Hc). reflexivity.
  - cbn [str_forallb] in HI. apply andb_true_iff in HI as [Ha HI]. cbn [String.append String.length].
    rewrite parse_indent_cons, Ha, (IH HI). reflexivity.
Qed.

Lemma prefix_blank_line w I r : solid_head w = true -> I <> "" -> str_forallb is_blank I = true ->
  String.prefix w (I +++ r) = false.
Proof.
  intros Hw Hne HI. destruct I as [|a I]; [congruence|]. destruct w as [|c w]; [discriminate|].
  cbn in *. apply andb_true_iff in HI as [Ha _]. apply negb_true_iff in Hw.
  destruct (Ascii.ascii_dec c a) as [->|Hn]; [congruence|reflexivity].
Qed.

(* ---------- classify ---------- *)

Definition not_comment (cm : list string) (r : string) : Prop := existsb (fun c => startswith c r) cm = false.

Lemma classify_line cm I r :
  str_forallb is_blank I = true -> good_row r -> not_comment cm r ->
  classify cm (I +++ r) = Content (String.length I) r.
Proof.
  intros HI Hg Hc. unfold classify. rewrite (strip_line I r HI Hg).
  assert (R : existsb (String.eqb "#") cm && startswith "#" (I +++ r) = false).
  { destruct (existsb (String.eqb "#") cm) eqn:E; [|reflexivity]. cbn [andb].
    destruct I as [|a I].
    - cbn [String.append]. apply existsb_exists in E as (x & Hx & Ex). apply String.eqb_eq in Ex. subst x.
      unfold not_comment in Hc. destruct (startswith "#" r) eqn:S; [|reflexivity].
      assert (existsb (fun c => startswith c r) cm = true) by (apply existsb_exists; exists "#"; auto). congruence.
    - unfold startswith. apply prefix_blank_line; [reflexivity|discriminate|exact HI]. }
  rewrite R. destruct Hg as [Hf Hl]. destruct (first_ok_inv r Hf) as (c & r' & -> & Hw). cbn [is_empty orb].
  unfold not_comment in Hc. rewrite Hc. rewrite parse_indent_line; [reflexivity|exact HI|exact Hf].
Qed.

(* ---------- "\n".join and split("\n") ---------- *)

Definition no_nl (s : string) : bool := str_forallb (fun c => negb (Ascii.eqb c nl)) s.

Lemma split_char_cons c a r :
  split_char c (String a r) =
  if Ascii.eqb a c then EmptyString :: split_char c r
  else match split_char c r with [] => [String a EmptyString] | h :: t => String a h :: t end.
Proof. reflexivity. Qed.

Lemma no_nl_cons c s : no_nl (String c s) = negb (Ascii.eqb c nl) && no_nl s.
Proof. reflexivity. Qed.

Lemma split_char_no_nl s : no_nl s = true -> split_char nl s = [s].
Proof.
  induction s as [|c s IH]; [reflexivity|]. rewrite no_nl_cons. intros H. apply andb_true_iff in H as [Hc Hs].
  apply negb_true_iff in Hc. rewrite split_char_cons, Hc, (IH Hs). reflexivity.
Qed.

Lemma split_char_app_nl s t : no_nl s = true -> split_char nl (s +++ String nl t) = s :: split_char nl t.
Proof.
  induction s as [|c s IH]; intros H.
  - cbn [String.append]. rewrite split_char_cons, Ascii.eqb_refl. reflexivity.
  - rewrite no_nl_cons in H. apply andb_true_iff in H as [Hc Hs]. apply negb_true_iff in Hc.
    cbn [String.append]. rewrite split_char_cons, Hc, (IH Hs). reflexivity.
Qed.

Lemma split_join ls : ls <> [] -> Forall (fun l => no_nl l = true) ls -> split_char nl (join_with nls ls) = ls.
Proof.
  induction ls as [|x ls IH]; [congruence|]. intros _ F. inversion F as [|? ? Hx Hl]; subst.
  destruct ls as [|y ls].
  - cbn. apply split_char_no_nl. exact Hx.
  - change (join_with nls (x :: y :: ls)) with (x +++ nls +++ join_with nls (y :: ls)).
    unfold nls at 1. cbn [String.append]. rewrite split_char_app_nl by exact Hx.
    rewrite IH; [reflexivity|discriminate|exact Hl].
Qed.

Lemma split_lines_join ls :
  Forall (fun l => no_nl l = true /\ l <> "") ls -> split_lines (join_with nls ls) = ls.
Proof.
  intros F. unfold split_lines. destruct ls as [|x ls]; [reflexivity|].
  rewrite split_join; [|discriminate|eapply Forall_impl; [|exact F]; cbn; tauto].
  induction F as [|y l [_ Hy] _ IH]; [reflexivity|]. cbn [filter].
  destruct y; [congruence|]. cbn. f_equal. exact IH.
Qed.

(* ---------- split_remove_spaces ---------- *)

Lemma nds_tail c s : no_double_space (String c s) = true -> no_double_space s = true.
Proof.
  unfold no_double_space. cbn [contains]. intros H. apply negb_true_iff in H. apply orb_false_iff in H as [_ H].
  rewrite H. reflexivity.
Qed.

Lemma nds_head s : no_double_space (String sp (String sp s)) = false.
Proof. unfold no_double_space. cbn. destruct s; reflexivity. Qed.

Lemma collapse_inner : forall s b p, no_double_space s = true ->
  (p = 0 \/ (p = 1 /\ forall s', s <> String sp s')) ->
  collapse_aux s b p = repeat_str " " p +++ s.
Proof.
  induction s as [|c s IH]; intros b p Hn Hp.
  - cbn. rewrite sapp_nil_r. reflexivity.
  - cbn [collapse_aux]. destruct (Ascii.eqb c sp) eqn:E.
    + apply Ascii.eqb_eq in E. subst c. destruct Hp as [->|[-> Hs]]; [|exfalso; eapply Hs; reflexivity].
      rewrite IH.
      * reflexivity.
      * eapply nds_tail. exact Hn.
      * right. split; [reflexivity|]. intros s' ->. rewrite nds_head in Hn. discriminate.
    + assert (G : (if b && Nat.leb 2 p && negb (is_ws c) then " " else repeat_str " " p) = repeat_str " " p).
      { destruct Hp as [->|[-> _]]; cbn; rewrite andb_false_r; reflexivity. }
      rewrite G. rewrite (IH _ 0); [reflexivity|eapply nds_tail; exact Hn|left; reflexivity].
Qed.

Lemma collapse_blanks : forall I p c s, str_forallb is_blank I = true -> Ascii.eqb c sp = false ->
  collapse_aux (I +++ String c s) false p =
  repeat_str " " p +++ I +++ String c (collapse_aux s (negb (is_ws c)) 0).
Proof.
  induction I as [|a I IH]; intros p c s HI Hc.
  - cbn [String.append collapse_aux]. rewrite Hc. cbn [andb]. reflexivity.
  - cbn in HI. apply andb_true_iff in HI as [Ha HI]. cbn [String.append collapse_aux].
    destruct (Ascii.eqb a sp) eqn:E.
    + apply Ascii.eqb_eq in E. subst a. rewrite IH by assumption. rewrite repeat_sp_S, sapp_assoc. reflexivity.
    + cbn [andb]. rewrite (blank_is_ws a Ha). cbn [negb]. rewrite (IH 0) by assumption. reflexivity.
Qed.

Lemma collapse_line I r : str_forallb is_blank I = true -> first_ok r = true -> no_double_space r = true ->
  collapse_spaces (I +++ r) = I +++ r.
Proof.
  intros HI Hf Hn. destruct (first_ok_inv r Hf) as (c & s & -> & Hc). unfold collapse_spaces.
  assert (Ec : Ascii.eqb c sp = false).
  { destruct (Ascii.eqb c sp) eqn:E; [|reflexivity]. apply Ascii.eqb_eq in E. subst. discriminate. }
  rewrite collapse_blanks by assumption. cbn [repeat_str String.append].
  rewrite (collapse_inner s _ 0); [reflexivity|eapply nds_tail; exact Hn|left; reflexivity].
Qed.

(* ---------- drop_prefix / drop_suffix ---------- *)

Lemma drop_prefix_none p s : String.prefix p s = false -> drop_prefix p s = None.
Proof.
  revert s. induction p as [|a p IH]; intros s H; [destruct s; discriminate|].
  destruct s as [|b s]; [reflexivity|]. cbn in *.
  destruct (Ascii.ascii_dec a b) as [->|Hn].
  - rewrite Ascii.eqb_refl. apply IH. exact H.
  - destruct (Ascii.eqb a b) eqn:E; [apply Ascii.eqb_eq in E; contradiction|reflexivity].
Qed.

Lemma drop_suffix_absent (x : ascii) k s :
  str_forallb (fun c => negb (Ascii.eqb c x)) s = true -> drop_suffix (String x k) s = None.
Proof.
  induction s as [|c s IH]; [reflexivity|].
  cbn [drop_suffix str_forallb]. intros Hs. apply andb_true_iff in Hs as [Hc Hs]. apply negb_true_iff in Hc.
  assert (E : String.eqb (String c s) (String x k) = false) by (cbn; rewrite Hc; reflexivity).
  rewrite E, (IH Hs). reflexivity.
Qed.

Lemma eqb_app_nonempty c u suf : suf <> "" -> String.eqb (String c (u +++ suf)) suf = false.
Proof.
  intros Hne. apply String.eqb_neq. intros E. apply (f_equal String.length) in E.
  cbn in E. rewrite sapp_length in E. lia.
Qed.

Lemma drop_suffix_app u suf : suf <> "" -> drop_suffix suf (u +++ suf) = Some u.
Proof.
  intros Hne. induction u as [|c u IH].
  - cbn [String.append]. destruct suf; [congruence|]. cbn [drop_suffix]. rewrite String.eqb_refl. reflexivity.
  - cbn [String.append drop_suffix]. rewrite eqb_app_nonempty by exact Hne. rewrite IH. reflexivity.
Qed.

Lemma drop_suffix_blank_line w I r : solid_head w = true -> str_forallb is_blank I = true ->
  drop_suffix w r = None -> drop_suffix w (I +++ r) = None.
Proof.
  intros Hw HI Hr. induction I as [|a I IH]; [exact Hr|].
  cbn in HI. apply andb_true_iff in HI as [Ha HI]. cbn [String.append drop_suffix].
  assert (E : String.eqb (String a (I +++ r)) w = false).
  { destruct w as [|c w]; [discriminate|]. cbn in Hw. apply negb_true_iff in Hw. cbn.
    destruct (Ascii.eqb a c) eqn:Eac; [|reflexivity]. apply Ascii.eqb_eq in Eac. subst. congruence. }
  rewrite E, (IH HI). reflexivity.
Qed.

(* ====================================================================================== *)
(* the offside reference on a rendered forest *)

Section Render.
  (* children of a row r sit d r columns right of r, d r >= 1 *)
  Variable d : string -> nat.
  Hypothesis d_pos : forall r, 0 < d r.

  Fixpoint items_t (c : nat) (t : tree) : list item :=
    match t with
    | T k => (fix go (l : forest) : list item :=
                match l with
                | [] => []
                | (r, ch) :: l' => Content c r :: items_t (c + d r) ch ++ go l'
                end) k
    end.
  Definition items (c : nat) (f : forest) : list item := items_t c (T f).

  Lemma items_cons c r ch f : items c ((r, ch) :: f) = Content c r :: items (c + d r) (kids ch) ++ items c f.
  Proof. unfold items. destruct ch. reflexivity. Qed.

  Definition ref_parent (h : hist) (lvl : nat) : list string :=
    match find (fun e => Nat.ltb (fst e) lvl) h with Some (_, pp) => pp | None => [] end.

  Lemma ref_path_parent h lvl row : ref_path h lvl row = ref_parent h lvl ++ [row].
  Proof. unfold ref_path, ref_parent. destruct (find _ h) as [[? ?]|]; reflexivity. Qed.

  (* the next line at column c is accepted and hangs under pp *)
  Definition Good (h : hist) (c : nat) (pp : list string) : Prop :=
    ref_consistent h c = true /\ ref_parent h c = pp.

  Lemma find_skip {A} (p : A -> bool) l1 l2 : Forall (fun x => p x = false) l1 -> find p (l1 ++ l2) = find p l2.
  Proof. induction 1 as [|x l Hx _ IH]; [reflexivity|]. cbn. rewrite Hx. exact IH. Qed.

  Lemma Good_child h c pp r : Good ((c, pp ++ [r]) :: h) (c + d r) (pp ++ [r]).
  Proof.
    pose proof (d_pos r). split.
    - unfold ref_consistent. destruct (Nat.ltb_spec c (c + d r)); [reflexivity|lia].
    - unfold ref_parent. cbn [find fst]. destruct (Nat.ltb_spec c (c + d r)); [reflexivity|lia].
  Qed.

  Lemma Good_back h c pp q news : Good h c pp -> Forall (fun e : nat * list string => c < fst e) news ->
    Good (news ++ (c, q) :: h) c pp.
  Proof.
    intros [_ Hp] F. split.
    - unfold ref_consistent.
      assert (Hf : find (fun e : nat * list string => Nat.leb (fst e) c) (news ++ (c, q) :: h) = Some (c, q)).
      { rewrite find_skip.
        - cbn [find fst]. rewrite Nat.leb_refl. reflexivity.
        - eapply Forall_impl; [|exact F]. cbn. intros a Ha. apply Nat.leb_gt. exact Ha. }
      destruct news as [|[lp pp'] news'].
      + cbn [app]. cbn [app] in Hf. rewrite Hf. rewrite Nat.ltb_irrefl, Nat.eqb_refl. reflexivity.
      + cbn [app] in *. rewrite Hf. rewrite Nat.eqb_refl. apply orb_true_r.
    - unfold ref_parent. rewrite find_skip.
      + cbn [find fst]. rewrite Nat.ltb_irrefl. exact Hp.
      + eapply Forall_impl; [|exact F]. cbn. intros a Ha. apply Nat.ltb_ge. lia.
  Qed.

  Lemma ref_items_forest : forall f c pp h acc rest n,
    Good h c pp ->
    exists news, Forall (fun e : nat * list string => c <= fst e) news /\
      ref_items (items c f ++ rest) n h acc =
      ref_items rest (n + List.length (items c f)) (news ++ h) (insall (paths pp f) acc).
  Proof.
    apply (forest_ind2
      (fun t => forall c pp h acc rest n, Good h c pp ->
         exists news, Forall (fun e : nat * list string => c <= fst e) news /\
           ref_items (items c (kids t) ++ rest) n h acc =
           ref_items rest (n + List.length (items c (kids t))) (news ++ h) (insall (paths pp (kids t)) acc))
      (fun f => forall c pp h acc rest n, Good h c pp ->
         exists news, Forall (fun e : nat * list string => c <= fst e) news /\
           ref_items (items c f ++ rest) n h acc =
           ref_items rest (n + List.length (items c f)) (news ++ h) (insall (paths pp f) acc))).
    - intros k IH. exact IH.
    - intros c pp h acc rest n _. exists []. split; [constructor|]. cbn. rewrite Nat.add_0_r. reflexivity.
    - intros r t k IHt IHk c pp h acc rest n G.
      rewrite items_cons. cbn [app ref_items]. destruct G as [Gc Gp]. rewrite Gc.
      rewrite ref_path_parent, Gp. rewrite <- app_assoc.
      destruct (IHt (c + d r) (pp ++ [r]) ((c, pp ++ [r]) :: h) (ins (pp ++ [r]) acc) (items c k ++ rest) (S n)
                  (Good_child h c pp r)) as (news1 & F1 & E1).
      rewrite E1.
      assert (F1' : Forall (fun e : nat * list string => c < fst e) news1).
      { eapply Forall_impl; [|exact F1]. cbn. intros a Ha. pose proof (d_pos r). lia. }
      destruct (IHk c pp (news1 ++ (c, pp ++ [r]) :: h) (insall (paths (pp ++ [r]) (kids t)) (ins (pp ++ [r]) acc))
                  rest (S n + List.length (items (c + d r) (kids t)))
                  (Good_back h c pp (pp ++ [r]) news1 (conj Gc Gp) F1')) as (news2 & F2 & E2).
      rewrite E2. exists (news2 ++ news1 ++ [(c, pp ++ [r])]). split.
      + apply Forall_app. split; [exact F2|]. apply Forall_app. split.
        * eapply Forall_impl; [|exact F1']. cbn. intros; lia.
        * constructor; [cbn; lia|constructor].
      + rewrite paths_cons, insall_cons, insall_app. cbn [List.length]. rewrite app_length.
        rewrite <- !app_assoc. cbn [app].
        replace (S n + List.length (items (c + d r) (kids t)) + List.length (items c k))
          with (n + S (List.length (items (c + d r) (kids t)) + List.length (items c k))) by lia.
        reflexivity.
  Qed.

  (* the parser gives back every well-formed forest rendered this way *)
  Theorem parse_items_render f c n : wf f -> parse_items (items c f) n ps_init = Ok f.
  Proof.
    intros W. rewrite (parse_items_ref _ n ps_init [] [] Inv_init).
    assert (G : Good [] c []) by (split; reflexivity).
    destruct (ref_items_forest f c [] [] [] [] n G) as (news & _ & E).
    rewrite app_nil_r in E. rewrite E. cbn [ref_items]. rewrite rebuild by exact W. reflexivity.
  Qed.
End Render.

(* ====================================================================================== *)
(* what join prints, as lines *)

Fixpoint lines_t (ind : string) (lvl : nat) (t : tree) : list string :=
  match t with
  | T k => (fix go (l : forest) : list string :=
              match l with
              | [] => []
              | (r, ch) :: l' => (repeat_str ind lvl +++ r) :: lines_t ind (S lvl) ch ++ go l'
              end) k
  end.
Definition lines (ind : string) (lvl : nat) (f : forest) : list string := lines_t ind lvl (T f).

Lemma lines_cons ind lvl r ch f :
  lines ind lvl ((r, ch) :: f) = (repeat_str ind lvl +++ r) :: lines ind (S lvl) (kids ch) ++ lines ind lvl f.
Proof. unfold lines. destruct ch. reflexivity. Qed.

Lemma blocks_cons r ch f :
  blocks ((r, ch) :: f) = (Row r :: (if is_leaf ch then [] else BB :: blocks (kids ch) ++ [BE])) ++ blocks f.
Proof. unfold blocks. destruct ch. reflexivity. Qed.

Lemma is_leaf_kids ch : is_leaf ch = true -> kids ch = [].
Proof. destruct ch as [[|? ?]]; [reflexivity|discriminate]. Qed.

Lemma rows_indent_blocks ind : forall f lvl rest,
  rows_only (indent_blocks ind lvl (blocks f ++ rest)) = lines ind lvl f ++ rows_only (indent_blocks ind lvl rest).
Proof.
  apply (forest_ind2
    (fun t => forall lvl rest, rows_only (indent_blocks ind lvl (blocks (kids t) ++ rest)) =
                               lines ind lvl (kids t) ++ rows_only (indent_blocks ind lvl rest))
    (fun f => forall lvl rest, rows_only (indent_blocks ind lvl (blocks f ++ rest)) =
                               lines ind lvl f ++ rows_only (indent_blocks ind lvl rest))).
  - intros k IH. exact IH.
  - intros lvl rest. reflexivity.
  - intros r t k IHt IHk lvl rest. rewrite blocks_cons, lines_cons. destruct (is_leaf t) eqn:L.
    + rewrite (is_leaf_kids t L). cbn [app indent_blocks rows_only]. rewrite IHk. reflexivity.
    + cbn [app indent_blocks rows_only]. rewrite <- !app_assoc. rewrite IHt.
      cbn [app indent_blocks rows_only Nat.pred]. rewrite IHk. reflexivity.
Qed.

Lemma join_plain_lines ind f : join_plain ind f = join_with nls (lines ind 0 f).
Proof.
  unfold join_plain. rewrite <- (app_nil_r (blocks f)). rewrite rows_indent_blocks. cbn. rewrite app_nil_r. reflexivity.
Qed.

Lemma all_rows_cons p r ch f : all_rows p ((r, ch) :: f) = p r && all_rows p (kids ch) && all_rows p f.
Proof. unfold all_rows. destruct ch. reflexivity. Qed.

(* a line: blanks, then a row satisfying p *)
Definition line_ok (p : string -> bool) (L : string) : Prop :=
  exists I r, L = I +++ r /\ str_forallb is_blank I = true /\ p r = true.

Lemma lines_ok ind p : str_forallb is_blank ind = true -> forall f lvl,
  all_rows p f = true -> Forall (line_ok p) (lines ind lvl f).
Proof.
  intros Hi.
  apply (forest_ind2
    (fun t => forall lvl, all_rows p (kids t) = true -> Forall (line_ok p) (lines ind lvl (kids t)))
    (fun f => forall lvl, all_rows p f = true -> Forall (line_ok p) (lines ind lvl f))).
  - intros k IH. exact IH.
  - intros lvl _. constructor.
  - intros r t k IHt IHk lvl H. rewrite all_rows_cons in H. apply andb_true_iff in H as [H Hk].
    apply andb_true_iff in H as [Hr Ht]. rewrite lines_cons. constructor.
    + exists (repeat_str ind lvl), r. repeat split; [apply repeat_str_blank; exact Hi|exact Hr].
    + apply Forall_app. split; [apply IHt; exact Ht|apply IHk; exact Hk].
Qed.

Lemma wf_indent_inv ind : wf_indent ind = true -> str_forallb is_blank ind = true /\ 0 < String.length ind.
Proof.
  unfold wf_indent. intros H. apply andb_true_iff in H as [H1 H2]. split; [exact H2|].
  destruct ind; [discriminate|cbn; lia].
Qed.

Lemma generic_inv cm r :
  first_ok r && last_ok r && no_nl r && negb (existsb (fun c => startswith c r) cm) = true ->
  good_row r /\ no_nl r = true /\ not_comment cm r.
Proof.
  intros H. apply andb_true_iff in H as [H H4]. apply andb_true_iff in H as [H H3].
  apply andb_true_iff in H as [H1 H2]. apply negb_true_iff in H4. repeat split; assumption.
Qed.

Lemma wf_row_generic_inv r : wf_row_generic r = true -> good_row r /\ no_nl r = true /\ not_comment default_comments r.
Proof. apply generic_inv. Qed.

(* classifying the printed lines gives the rendered items, child columns one indent further right *)
Lemma classify_lines cm ind p :
  wf_indent ind = true -> (forall r, p r = true -> good_row r /\ not_comment cm r) ->
  forall f lvl, all_rows p f = true ->
    map (classify cm) (lines ind lvl f) = items (fun _ => String.length ind) (lvl * String.length ind) f.
Proof.
  intros Hi Hp. destruct (wf_indent_inv ind Hi) as [Hb Hl].
  apply (forest_ind2
    (fun t => forall lvl, all_rows p (kids t) = true ->
       map (classify cm) (lines ind lvl (kids t)) = items (fun _ => String.length ind) (lvl * String.length ind) (kids t))
    (fun f => forall lvl, all_rows p f = true ->
       map (classify cm) (lines ind lvl f) = items (fun _ => String.length ind) (lvl * String.length ind) f)).
  - intros k IH. exact IH.
  - reflexivity.
  - intros r t k IHt IHk lvl H. rewrite all_rows_cons in H. apply andb_true_iff in H as [H Hk].
    apply andb_true_iff in H as [Hr Ht]. rewrite lines_cons, items_cons. cbn [map]. rewrite map_app.
    destruct (Hp r Hr) as [Hg Hc].
    rewrite classify_line; [|apply repeat_str_blank; exact Hb|exact Hg|exact Hc].
    rewrite repeat_str_length. rewrite (IHt (S lvl) Ht), (IHk lvl Hk).
    replace (lvl * String.length ind + String.length ind) with (S lvl * String.length ind) by (cbn; lia).
    reflexivity.
Qed.

Lemma line_ok_no_nl p L : (forall r, p r = true -> good_row r /\ no_nl r = true) -> line_ok p L ->
  no_nl L = true /\ L <> "".
Proof.
  intros Hp (I & r & -> & HI & Hr). destruct (Hp r Hr) as [[Hf _] Hn]. split.
  - unfold no_nl. rewrite str_forallb_app. fold (no_nl r). rewrite Hn, andb_true_r.
    eapply str_forallb_impl; [|exact HI]. intros c Hc. unfold is_blank in Hc.
    apply orb_true_iff in Hc as [Hc|Hc]; apply Ascii.eqb_eq in Hc; subst; reflexivity.
  - destruct (first_ok_inv r Hf) as (c & r' & -> & _). destruct I; discriminate.
Qed.

(* parse_to_tree on the printed lines *)
Theorem parse_lines_lines cm ind p f :
  wf_indent ind = true -> (forall r, p r = true -> good_row r /\ not_comment cm r) ->
  wf f -> all_rows p f = true ->
  parse_lines cm (lines ind 0 f) = Ok f.
Proof.
  intros Hi Hp W H. unfold parse_lines. rewrite (classify_lines cm ind p Hi Hp f 0 H).
  apply parse_items_render; [|exact W]. intros _. apply (wf_indent_inv ind Hi).
Qed.

(* ====================================================================================== *)
(* the plain family: every split gives the printed lines back *)

Lemma Forall_map_id {A} (g : A -> A) (P : A -> Prop) l : (forall x, P x -> g x = x) -> Forall P l -> map g l = l.
Proof. intros H. induction 1 as [|x l Hx _ IH]; [reflexivity|]. cbn. rewrite (H x Hx), IH. reflexivity. Qed.

Lemma Forall_filter_id {A} (g : A -> bool) (P : A -> Prop) l :
  (forall x, P x -> g x = true) -> Forall P l -> filter g l = l.
Proof. intros H. induction 1 as [|x l Hx _ IH]; [reflexivity|]. cbn. rewrite (H x Hx), IH. reflexivity. Qed.

Lemma all_rows_impl (p q : string -> bool) : (forall r, p r = true -> q r = true) ->
  forall f, all_rows p f = true -> all_rows q f = true.
Proof.
  intros H.
  apply (forest_ind2 (fun t => all_rows p (kids t) = true -> all_rows q (kids t) = true)
                     (fun f => all_rows p f = true -> all_rows q f = true)).
  - intros k IH. exact IH.
  - reflexivity.
  - intros r t k IHt IHk E. rewrite all_rows_cons in *. apply andb_true_iff in E as [E Ek].
    apply andb_true_iff in E as [Er Et]. rewrite (H r Er), (IHt Et), (IHk Ek). reflexivity.
Qed.

Lemma all_rows_and (p q : string -> bool) : forall f, all_rows p f = true -> all_rows q f = true ->
  all_rows (fun r => p r && q r) f = true.
Proof.
  apply (forest_ind2 (fun t => all_rows p (kids t) = true -> all_rows q (kids t) = true ->
                               all_rows (fun r => p r && q r) (kids t) = true)
                     (fun f => all_rows p f = true -> all_rows q f = true ->
                               all_rows (fun r => p r && q r) f = true)).
  - intros k IH. exact IH.
  - reflexivity.
  - intros r t k IHt IHk E F. rewrite all_rows_cons in *. apply andb_true_iff in E as [E Ek].
    apply andb_true_iff in E as [Er Et]. apply andb_true_iff in F as [F Fk]. apply andb_true_iff in F as [Fr Ft].
    rewrite Er, Fr, (IHt Et Ft), (IHk Ek Fk). reflexivity.
Qed.

Lemma split_lines_of_lines p ls :
  (forall r, p r = true -> good_row r /\ no_nl r = true) -> Forall (line_ok p) ls ->
  split_lines (join_with nls ls) = ls.
Proof.
  intros Hp F. apply split_lines_join. eapply Forall_impl; [|exact F]. intros L HL.
  apply (line_ok_no_nl p L Hp HL).
Qed.

Lemma collapse_lines p ls :
  (forall r, p r = true -> first_ok r = true /\ no_double_space r = true) -> Forall (line_ok p) ls ->
  map collapse_spaces ls = ls.
Proof.
  intros Hp. apply Forall_map_id. intros L (I & r & -> & HI & Hr). destruct (Hp r Hr) as [Hf Hn].
  apply collapse_line; assumption.
Qed.

Lemma remove_first_all x (P : string -> Prop) l : Forall P l -> Forall P (remove_first x l).
Proof.
  induction 1 as [|y l Hy Hl IH]; [constructor|]. cbn. destruct (String.eqb x y); [exact Hl|]. constructor; assumption.
Qed.

Lemma str_in_all x (y : string) l : Forall (fun s => s = y) l -> str_in x l = true -> x = y.
Proof.
  intros F H. unfold str_in in H. apply existsb_exists in H as (z & Hz & E). apply String.eqb_eq in E. subst z.
  rewrite Forall_forall in F. exact (F x Hz).
Qed.

Lemma repeat_sp_nonpos z x : (z <= 0)%Z -> repeat_str " " (Z.to_nat z) +++ x = x.
Proof. intros H. replace (Z.to_nat z) with 0 by lia. reflexivity. Qed.

Lemma cisco_lines_id bexit tbl : forall ls st,
  (fst st <= 0)%Z -> Forall (fun s => s = bexit) (snd st) ->
  Forall (fun L => cisco_special_row bexit tbl (strip L) = false) ls ->
  cisco_lines bexit tbl st ls = ls.
Proof.
  induction ls as [|x ls IH]; intros st Hz He F; [reflexivity|].
  inversion F as [|? ? Hx Hl]; subst. cbn [cisco_lines]. rewrite repeat_sp_nonpos by exact Hz. f_equal.
  destruct st as [indent exits]. cbn [fst snd] in *. unfold cisco_step.
  destruct (str_in (strip x) exits) eqn:S.
  - apply IH; cbn [fst snd]; [lia|apply remove_first_all; exact He|exact Hl].
  - destruct (find (fun e : list string * string => existsb (fun p => startswith p (strip x)) (fst e)) tbl)
      as [[ps w]|] eqn:Fd.
    + destruct (String.eqb w bexit) eqn:W.
      * apply IH; cbn [fst snd]; assumption.
      * exfalso. unfold cisco_special_row, cisco_exit_of in Hx. rewrite Fd, W in Hx. discriminate.
    + apply IH; cbn [fst snd]; assumption.
Qed.

Lemma wf_row_plain_generic sk r : wf_row_plain sk r = true -> wf_row_generic r = true.
Proof. unfold wf_row_plain. intros H. apply andb_true_iff in H as [H _]. exact H. Qed.

Lemma plain_row_facts sk r : wf_row_plain sk r = true ->
  good_row r /\ no_nl r = true /\ not_comment default_comments r.
Proof. intros H. apply wf_row_generic_inv. eapply wf_row_plain_generic. exact H. Qed.

(* the guard and the side conditions of a plain split, per row and per table *)
Definition plain_side (sk : splitk) : bool :=
  match sk with SkEndswith ws => forallb solid_head ws | _ => true end.
Definition plain_guard_row (sk : splitk) (r : string) : bool :=
  match sk with SkCisco bexit tbl => negb (cisco_special_row bexit tbl r) | _ => true end.

Theorem split_plain_lines sk ind f :
  wf_indent ind = true -> all_rows (wf_row_plain sk) f = true -> plain_side sk = true ->
  all_rows (plain_guard_row sk) f = true ->
  split_plain sk (join_plain ind f) = lines ind 0 f.
Proof.
  intros Hi Hr Hs Hg. rewrite join_plain_lines. destruct (wf_indent_inv ind Hi) as [Hb _].
  pose proof (all_rows_and _ _ f Hr Hg) as Hrg.
  pose proof (lines_ok ind _ Hb f 0 Hrg) as F. cbv beta in F.
  set (p := fun r => wf_row_plain sk r && plain_guard_row sk r) in *.
  assert (P1 : forall r, p r = true -> good_row r /\ no_nl r = true).
  { intros r H. apply andb_true_iff in H as [H _]. destruct (plain_row_facts sk r H) as (A & B & _). auto. }
  assert (SL : split_lines (join_with nls (lines ind 0 f)) = lines ind 0 f) by (eapply split_lines_of_lines; eauto).
  destruct sk as [| |ws|ws|bexit tbl]; cbn [split_plain].
  - exact SL.
  - unfold split_spaces. rewrite SL. eapply collapse_lines; [|exact F].
    intros r H. apply andb_true_iff in H as [H _]. pose proof (plain_row_facts _ r H) as ((A & _) & _).
    unfold wf_row_plain in H. apply andb_true_iff in H as [_ H]. auto.
  - unfold split_startswith, split_spaces. rewrite SL.
    assert (C : map collapse_spaces (lines ind 0 f) = lines ind 0 f).
    { eapply collapse_lines; [|exact F]. intros r H. apply andb_true_iff in H as [H _].
      pose proof (plain_row_facts _ r H) as ((A & _) & _). unfold wf_row_plain in H.
      apply andb_true_iff in H as [_ H]. apply andb_true_iff in H as [H _]. auto. }
    rewrite C. eapply Forall_filter_id; [|exact F]. intros L (I & r & -> & HI & H).
    apply andb_true_iff in H as [H _]. pose proof (plain_row_facts _ r H) as (G & _).
    rewrite strip_line by assumption. unfold wf_row_plain in H. apply andb_true_iff in H as [_ H].
    apply andb_true_iff in H as [_ H]. exact H.
  - unfold split_endswith, split_spaces. rewrite SL.
    assert (C : map collapse_spaces (lines ind 0 f) = lines ind 0 f).
    { eapply collapse_lines; [|exact F]. intros r H. apply andb_true_iff in H as [H _].
      pose proof (plain_row_facts _ r H) as ((A & _) & _). unfold wf_row_plain in H.
      apply andb_true_iff in H as [_ H]. apply andb_true_iff in H as [H _]. auto. }
    rewrite C. eapply Forall_filter_id; [|exact F]. intros L (I & r & -> & HI & H).
    apply andb_true_iff in H as [H _]. unfold wf_row_plain in H. apply andb_true_iff in H as [_ H].
    apply andb_true_iff in H as [_ H]. apply negb_true_iff in H. apply negb_true_iff.
    destruct (existsb (fun w => ends_with w (I +++ r)) ws) eqn:E; [|reflexivity]. exfalso.
    apply existsb_exists in E as (w & Hw & E). cbn [plain_side] in Hs. rewrite forallb_forall in Hs.
    assert (N : ends_with w r = false).
    { destruct (ends_with w r) eqn:E2; [|reflexivity].
      assert (existsb (fun w => ends_with w r) ws = true) by (apply existsb_exists; eauto). congruence. }
    unfold ends_with in *. destruct (drop_suffix w r) eqn:D; [discriminate|].
    rewrite (drop_suffix_blank_line w I r (Hs w Hw) HI D) in E. discriminate.
  - unfold split_cisco, split_spaces. rewrite SL.
    assert (C : map collapse_spaces (lines ind 0 f) = lines ind 0 f).
    { eapply collapse_lines; [|exact F]. intros r H. apply andb_true_iff in H as [H _].
      pose proof (plain_row_facts _ r H) as ((A & _) & _). unfold wf_row_plain in H.
      apply andb_true_iff in H as [_ H]. auto. }
    rewrite C. apply cisco_lines_id; cbn [fst snd]; [lia|repeat constructor|].
    eapply Forall_impl; [|exact F]. intros L (I & r & -> & HI & H). apply andb_true_iff in H as [H G].
    pose proof (plain_row_facts _ r H) as (Gr & _). rewrite strip_line by assumption.
    cbn [plain_guard_row] in G. apply negb_true_iff in G. exact G.
Qed.

Theorem parse_plain sk ind f :
  wf_indent ind = true -> wf f -> all_rows (wf_row_plain sk) f = true -> plain_side sk = true ->
  all_rows (plain_guard_row sk) f = true ->
  parse_f (FPlain sk) ind (join_plain ind f) = Some (Ok f).
Proof.
  intros Hi W Hr Hs Hg. unfold parse_f, split_f. rewrite split_plain_lines by assumption.
  f_equal. eapply (parse_lines_lines default_comments ind (wf_row_plain sk)); try assumption.
  intros r H. destruct (plain_row_facts sk r H) as (A & _ & C). auto.
Qed.

(* ====================================================================================== *)
(* the brace family *)

(* _formatted_blocks without its one-line look-behind: what a token prints depends on the token after it *)
Definition sfx_next (b : brace) (s : string) (r : list tok) : string :=
  match r with [] => b_stmt b | BB :: _ => b_begin b | _ => leaf_suffix b s end.

Fixpoint out (b : brace) (ind : string) (level : nat) (l : list tok) : list string :=
  match l with
  | [] => []
  | Row s :: r => (s +++ sfx_next b s r) :: out b ind level r
  | BB :: r => out b ind (S level) r
  | BE :: r => (repeat_str ind (pred level) +++ b_end b) :: out b ind (pred level) r
  end.

Lemma fmt_brace_out b ind : forall l level line,
  fmt_brace b ind level line l = pending line (fun s => s +++ sfx_next b s l) ++ out b ind level l.
Proof.
  induction l as [|x l IH]; intros level line.
  - cbn. rewrite app_nil_r. destruct line as [[s| |]|]; reflexivity.
  - destruct x as [n| |]; cbn [fmt_brace out].
    + rewrite IH. destruct line as [[s| |]|]; reflexivity.
    + rewrite IH. destruct line as [[s| |]|]; reflexivity.
    + rewrite IH. destruct line as [[s| |]|]; reflexivity.
Qed.

Definition noch (x : ascii) (s : string) : bool := str_forallb (fun c => negb (Ascii.eqb c x)) s.

Lemma noch_app x a b : noch x (a +++ b) = noch x a && noch x b.
Proof. apply str_forallb_app. Qed.

Lemma noch_blanks x I : is_blank x = false -> str_forallb is_blank I = true -> noch x I = true.
Proof.
  intros Hx. apply str_forallb_impl. intros c Hc. apply negb_true_iff.
  destruct (Ascii.eqb c x) eqn:E; [|reflexivity]. apply Ascii.eqb_eq in E. subst. congruence.
Qed.

Lemma noch_brace x r : In x brace_chars -> no_brace_char r = true -> noch x r = true.
Proof.
  intros Hx. apply str_forallb_impl. intros c Hc. apply negb_true_iff in Hc. apply negb_true_iff.
  destruct (Ascii.eqb c x) eqn:E; [|reflexivity]. apply Ascii.eqb_eq in E. subst c.
  assert (existsb (Ascii.eqb x) brace_chars = true) by (apply existsb_exists; exists x; split; [exact Hx|apply Ascii.eqb_refl]).
  congruence.
Qed.

Notation jp := juniper_subre.

Lemma re1_absent s : noch "}" s = true -> re1 jp s = s.
Proof. intros H. unfold re1. cbn [r_be jp]. rewrite drop_suffix_absent by exact H. reflexivity. Qed.

Lemma re1_close I : str_forallb is_blank I = true -> re1 jp (I +++ "}") = I +++ "}".
Proof.
  intros HI. unfold re1. cbn [r_be r_bb jp]. rewrite drop_suffix_app by discriminate.
  rewrite rstrip_blanks; [reflexivity|]. eapply str_forallb_impl; [|exact HI]. apply blank_is_ws.
Qed.

Lemma here2_inv s : here2 jp s = true -> exists rest, s = String " " (String "{" rest).
Proof.
  unfold here2. cbn [r_bb jp]. destruct s as [|a [|b' s]]; cbn [drop_prefix]; try discriminate.
  - destruct (Ascii.eqb " " a); discriminate.
  - destruct (Ascii.eqb " " a) eqn:Ea; [|discriminate]. destruct (Ascii.eqb "{" b') eqn:Eb; [|discriminate].
    apply Ascii.eqb_eq in Ea, Eb. subst. intros _. eauto.
Qed.

Lemma noch_cons x c s : noch x (String c s) = negb (Ascii.eqb c x) && noch x s.
Proof. reflexivity. Qed.

Lemma re2_absent s : noch "{" s = true -> re2 jp s = s.
Proof.
  induction s as [|c s IH]; intros H; [reflexivity|]. cbn [re2].
  destruct (here2 jp (String c s)) eqn:E.
  - exfalso. apply here2_inv in E as (rest & E). injection E as -> ->. rewrite !noch_cons in H. cbn in H. discriminate.
  - rewrite noch_cons in H. apply andb_true_iff in H as [_ H]. rewrite (IH H). reflexivity.
Qed.

Lemma re2_open u : noch "{" u = true -> re2 jp (u +++ " {") = u.
Proof.
  induction u as [|c u IH]; intros H; [reflexivity|]. cbn [String.append re2].
  destruct (here2 jp (String c (u +++ " {"))) eqn:E.
  - exfalso. apply here2_inv in E as (rest & E). injection E as -> E. rewrite noch_cons in H.
    apply andb_true_iff in H as [_ H]. destruct u as [|d u]; cbn in E; [discriminate|].
    injection E as -> _. rewrite noch_cons in H. cbn in H. discriminate.
  - rewrite noch_cons in H. apply andb_true_iff in H as [_ H]. rewrite (IH H). reflexivity.
Qed.

Lemma re3_absent s : noch ";" s = true -> re3 jp s = s.
Proof. intros H. unfold re3. cbn [r_se jp is_empty]. rewrite drop_suffix_absent by exact H. reflexivity. Qed.

Lemma re3_semi u : re3 jp (u +++ ";") = u.
Proof. unfold re3. cbn [r_se jp is_empty]. rewrite drop_suffix_app by discriminate. reflexivity. Qed.

Lemma here4_absent c s : Ascii.eqb c "}" = false -> here4 jp (String c s) = false.
Proof.
  intros H. unfold here4. cbn [r_be jp drop_prefix]. destruct (Ascii.eqb "}" c) eqn:E; [|reflexivity].
  apply Ascii.eqb_eq in E. subst. discriminate.
Qed.

Lemma re4_absent : forall s w, noch "}" s = true -> re4 jp s w = w +++ s.
Proof.
  induction s as [|c s IH]; intros w H.
  - cbn. rewrite sapp_nil_r. reflexivity.
  - rewrite noch_cons in H. apply andb_true_iff in H as [Hc H]. apply negb_true_iff in Hc.
    cbn [re4]. rewrite here4_absent by exact Hc. destruct (is_ws c).
    + rewrite IH by exact H. rewrite sapp_assoc. reflexivity.
    + rewrite IH by exact H. reflexivity.
Qed.

Lemma re4_close : forall I w, str_forallb is_blank I = true -> re4 jp (I +++ "}") w = "".
Proof.
  induction I as [|a I IH]; intros w H; [reflexivity|].
  cbn [str_forallb] in H. apply andb_true_iff in H as [Ha H]. cbn [String.append re4].
  rewrite here4_absent.
  - rewrite (blank_is_ws a Ha). apply IH. exact H.
  - destruct (Ascii.eqb a "}") eqn:E; [|reflexivity]. apply Ascii.eqb_eq in E. subst. discriminate.
Qed.

Lemma re5_absent s : noch ";" s = true -> re5 jp s = s.
Proof.
  induction s as [|c s IH]; intros H; [reflexivity|]. rewrite noch_cons in H. apply andb_true_iff in H as [Hc H].
  apply negb_true_iff in Hc. cbn [re5]. unfold startswith. cbn [r_eol jp String.prefix].
  destruct (ascii_dec ";" c) as [<-|_]; [discriminate|]. rewrite (IH H). reflexivity.
Qed.

(* a printed row line without its suffix: blanks, then a row without brace characters *)
Definition clean (u : string) : Prop := noch "{" u = true /\ noch "}" u = true /\ noch ";" u = true.

Lemma sub_clean u : clean u -> sub_regexs jp u = u.
Proof.
  intros (A & B & C). unfold sub_regexs. rewrite re1_absent, re2_absent, re3_absent, re4_absent, re5_absent; auto.
Qed.

Lemma sub_open u : clean u -> sub_regexs jp (u +++ " {") = u.
Proof.
  intros (A & B & C). unfold sub_regexs. rewrite re1_absent.
  - rewrite re2_open, re3_absent, re4_absent, re5_absent; auto.
  - rewrite noch_app, B. reflexivity.
Qed.

Lemma sub_semi u : clean u -> sub_regexs jp (u +++ ";") = u.
Proof.
  intros (A & B & C). unfold sub_regexs. rewrite re1_absent.
  - rewrite re2_absent.
    + rewrite re3_semi, re4_absent, re5_absent; auto.
    + rewrite noch_app, A. reflexivity.
  - rewrite noch_app, B. reflexivity.
Qed.

Lemma sub_close I : str_forallb is_blank I = true -> sub_regexs jp (I +++ "}") = "".
Proof.
  intros HI. unfold sub_regexs. rewrite re1_close by exact HI. rewrite re2_absent.
  - rewrite re3_absent.
    + rewrite re4_close by exact HI. reflexivity.
    + rewrite noch_app, (noch_blanks ";" I) by (reflexivity || exact HI). reflexivity.
  - rewrite noch_app, (noch_blanks "{" I) by (reflexivity || exact HI). reflexivity.
Qed.

Definition brace_row (b : brace) (r : string) : bool :=
  wf_row_generic r && no_brace_char r && negb (startswith (b_cbegin b) r).

Lemma line_clean b I r : str_forallb is_blank I = true -> brace_row b r = true -> clean (I +++ r).
Proof.
  intros HI H. unfold brace_row in H. apply andb_true_iff in H as [H _]. apply andb_true_iff in H as [_ H].
  repeat split; rewrite noch_app.
  - rewrite (noch_blanks "{" I), (noch_brace "{" r); auto. cbn; auto.
  - rewrite (noch_blanks "}" I), (noch_brace "}" r); auto. cbn; auto.
  - rewrite (noch_blanks ";" I), (noch_brace ";" r); auto. cbn; auto.
Qed.

Lemma not_comment_line b I r : b_cbegin b = "/*" -> str_forallb is_blank I = true -> brace_row b r = true ->
  is_comment_line (b_cbegin b) (b_cend b) (I +++ r) = false.
Proof.
  intros Hb HI H. unfold brace_row in H. apply andb_true_iff in H as [H Hc]. apply andb_true_iff in H as [Hg _].
  destruct (wf_row_generic_inv r Hg) as ((Hf & _) & _). unfold is_comment_line.
  rewrite lstrip_blanks by exact HI. rewrite lstrip_first_ok by exact Hf.
  apply negb_true_iff in Hc. unfold startswith in Hc. rewrite (drop_prefix_none _ _ Hc). apply andb_false_r.
Qed.

(* the braces this proof is about: the literals of JuniperFormatter *)
Definition std_brace (b : brace) : Prop :=
  b_begin b = " {" /\ b_end b = "}" /\ (b_stmt b = "" \/ b_stmt b = ";") /\ b_cbegin b = "/*" /\ b_cend b = "*/".

Definition tok_good (b : brace) (t : tok) : Prop :=
  match t with
  | Row s => exists I r, s = I +++ r /\ str_forallb is_blank I = true /\ brace_row b r = true
  | _ => True
  end.

Lemma sub_row_line b s r : std_brace b -> tok_good b (Row s) -> sub_regexs jp (s +++ sfx_next b s r) = s.
Proof.
  intros (B1 & B2 & B3 & B4 & B5) (I & r0 & -> & HI & Hr). pose proof (line_clean b I r0 HI Hr) as C.
  assert (L : leaf_suffix b (I +++ r0) = "" \/ leaf_suffix b (I +++ r0) = ";").
  { unfold leaf_suffix. destruct (ends_with _ _); [left; reflexivity|]. destruct B3 as [->| ->]; auto. }
  assert (S : forall x, x = "" \/ x = ";" -> sub_regexs jp ((I +++ r0) +++ x) = I +++ r0).
  { intros x [->| ->]; [rewrite sapp_nil_r; apply sub_clean; exact C|apply sub_semi; exact C]. }
  unfold sfx_next. destruct r as [|[n| |] r'].
  - apply S. exact B3.
  - apply S. exact L.
  - rewrite B1. apply sub_open. exact C.
  - apply S. exact L.
Qed.

Lemma row_line_nonempty b s : tok_good b (Row s) -> is_empty s = false.
Proof.
  intros (I & r & -> & _ & Hr). unfold brace_row in Hr. apply andb_true_iff in Hr as [Hr _].
  apply andb_true_iff in Hr as [Hg _]. destruct (wf_row_generic_inv r Hg) as ((Hf & _) & _).
  destruct (first_ok_inv r Hf) as (c & r' & -> & _). destruct I; reflexivity.
Qed.

Lemma juniper_lines_out b ind : std_brace b -> str_forallb is_blank ind = true -> forall toks level,
  Forall (tok_good b) toks ->
  juniper_lines jp (b_cbegin b) (b_cend b) (out b ind level toks) = Some (rows_only toks).
Proof.
  intros Sb Hi. induction toks as [|x toks IH]; intros level F; [reflexivity|].
  inversion F as [|? ? Hx Ht]; subst. destruct x as [s| |]; cbn [out rows_only juniper_lines].
  - rewrite (sub_row_line b s toks Sb Hx).
    assert (NC : is_comment_line (b_cbegin b) (b_cend b) s = false).
    { destruct Hx as (I & r & -> & HI & Hr). destruct Sb as (_ & _ & _ & B4 & _). apply not_comment_line; assumption. }
    rewrite NC. cbn [andb]. rewrite (IH level Ht). rewrite (row_line_nonempty b s Hx). reflexivity.
  - apply IH. exact Ht.
  - destruct Sb as (B1 & B2 & B3 & B4 & B5). rewrite B2. rewrite sub_close by (apply repeat_str_blank; exact Hi).
    rewrite (IH (pred level) Ht). reflexivity.
Qed.

Lemma out_no_nl b ind : std_brace b -> str_forallb is_blank ind = true -> forall toks level,
  Forall (tok_good b) toks -> Forall (fun l => no_nl l = true) (out b ind level toks).
Proof.
  intros (B1 & B2 & B3 & B4 & B5) Hi. induction toks as [|x toks IH]; intros level F; [constructor|].
  inversion F as [|? ? Hx Ht]; subst. destruct x as [s| |]; cbn [out].
  - constructor; [|apply IH; exact Ht]. destruct Hx as (I & r & -> & HI & Hr).
    unfold brace_row in Hr. apply andb_true_iff in Hr as [Hr _]. apply andb_true_iff in Hr as [Hg _].
    destruct (wf_row_generic_inv r Hg) as (_ & Hn & _).
    assert (NI : no_nl I = true).
    { eapply str_forallb_impl; [|exact HI]. intros c Hc. unfold is_blank in Hc.
      apply orb_true_iff in Hc as [Hc|Hc]; apply Ascii.eqb_eq in Hc; subst; reflexivity. }
    unfold no_nl in *. rewrite !str_forallb_app, NI, Hn. cbn [andb].
    assert (S : sfx_next b (I +++ r) toks = "" \/ sfx_next b (I +++ r) toks = ";" \/ sfx_next b (I +++ r) toks = " {").
    { unfold sfx_next, leaf_suffix. destruct toks as [|[n| |] r']; [| |rewrite B1; auto|];
        try destruct (ends_with _ _); destruct B3 as [E | E]; rewrite ?E; auto. }
    destruct S as [-> | [-> | ->]]; reflexivity.
  - apply IH. exact Ht.
  - constructor; [|apply IH; exact Ht]. rewrite B2. unfold no_nl. rewrite str_forallb_app.
    assert (NI : no_nl (repeat_str ind (pred level)) = true).
    { eapply str_forallb_impl; [|apply repeat_str_blank; exact Hi]. intros c Hc. unfold is_blank in Hc.
      apply orb_true_iff in Hc as [Hc|Hc]; apply Ascii.eqb_eq in Hc; subst; reflexivity. }
    unfold no_nl in NI. rewrite NI. reflexivity.
Qed.

Lemma indent_blocks_good b ind (Hi : str_forallb is_blank ind = true) : forall f lvl rest,
  all_rows (brace_row b) f = true -> Forall (tok_good b) (indent_blocks ind lvl rest) ->
  Forall (tok_good b) (indent_blocks ind lvl (blocks f ++ rest)).
Proof.
  apply (forest_ind2
    (fun t => forall lvl rest, all_rows (brace_row b) (kids t) = true ->
       Forall (tok_good b) (indent_blocks ind lvl rest) ->
       Forall (tok_good b) (indent_blocks ind lvl (blocks (kids t) ++ rest)))
    (fun f => forall lvl rest, all_rows (brace_row b) f = true ->
       Forall (tok_good b) (indent_blocks ind lvl rest) ->
       Forall (tok_good b) (indent_blocks ind lvl (blocks f ++ rest)))).
  - intros k IH. exact IH.
  - intros lvl rest _ H. exact H.
  - intros r t k IHt IHk lvl rest H G. rewrite all_rows_cons in H. apply andb_true_iff in H as [H Hk].
    apply andb_true_iff in H as [Hr Ht]. rewrite blocks_cons.
    assert (R : tok_good b (Row (repeat_str ind lvl +++ r))).
    { exists (repeat_str ind lvl), r. repeat split; [apply repeat_str_blank; exact Hi|exact Hr]. }
    destruct (is_leaf t) eqn:L.
    + cbn [app indent_blocks]. constructor; [exact R|]. apply IHk; assumption.
    + cbn [app indent_blocks]. constructor; [exact R|]. constructor; [exact I|].
      rewrite <- !app_assoc. apply IHt; [exact Ht|].
      cbn [app indent_blocks Nat.pred].
      constructor; [exact I|]. apply IHk; assumption.
Qed.

Lemma no_comment_rows cb : forall f,
  all_rows (fun r => negb (startswith cb r)) f = true -> existsb (is_row_with (startswith cb)) (blocks f) = false.
Proof.
  apply (forest_ind2
    (fun t => all_rows (fun r => negb (startswith cb r)) (kids t) = true ->
              existsb (is_row_with (startswith cb)) (blocks (kids t)) = false)
    (fun f => all_rows (fun r => negb (startswith cb r)) f = true ->
              existsb (is_row_with (startswith cb)) (blocks f) = false)).
  - intros k IH. exact IH.
  - reflexivity.
  - intros r t k IHt IHk H. rewrite all_rows_cons in H. apply andb_true_iff in H as [H Hk].
    apply andb_true_iff in H as [Hr Ht]. apply negb_true_iff in Hr. rewrite blocks_cons, existsb_app.
    rewrite (IHk Hk), orb_false_r. cbn [existsb is_row_with]. rewrite Hr. cbn [orb].
    destruct (is_leaf t); [reflexivity|]. cbn [existsb is_row_with orb]. rewrite existsb_app, (IHt Ht). reflexivity.
Qed.

Lemma nokia_scan_none w : forall l i, Forall (fun x => String.eqb x w = false) l ->
  nokia_scan w l i None None = (None, None).
Proof.
  induction l as [|x l IH]; intros i F; [reflexivity|]. inversion F as [|? ? Hx Hl]; subst.
  cbn [nokia_scan]. destruct (startswith "#" x); [apply IH; exact Hl|]. rewrite Hx.
  destruct (Nat.eqb _ _); apply IH; exact Hl.
Qed.

Lemma nokia_cut_id w l : Forall (fun x => String.eqb x w = false) l -> nokia_cut w l = l.
Proof.
  intros F. unfold nokia_cut. rewrite nokia_scan_none by exact F. cbn [skipn]. apply firstn_all.
Qed.

Theorem split_brace_lines b w ind f :
  std_brace b -> wf_indent ind = true -> all_rows (wf_row_brace b w) f = true ->
  match w with Some w => solid_head w = true | None => True end ->
  exists text, join_brace b ind f = Some text /\
               split_f (FBrace b jp w) ind text = Some (lines ind 0 f).
Proof.
  intros Sb Hi Hr Hw. destruct (wf_indent_inv ind Hi) as [Hb _].
  assert (Hbr : all_rows (brace_row b) f = true).
  { eapply all_rows_impl; [|exact Hr]. intros r H. unfold wf_row_brace in H. unfold brace_row.
    apply andb_true_iff in H as [H _]. exact H. }
  assert (NC : existsb (is_row_with (startswith (b_cbegin b))) (blocks f) = false).
  { apply no_comment_rows. eapply all_rows_impl; [|exact Hbr]. intros r H. unfold brace_row in H.
    apply andb_true_iff in H as [_ H]. exact H. }
  unfold join_brace. rewrite NC. eexists. split; [reflexivity|].
  rewrite fmt_brace_out. cbn [pending app].
  set (toks := indent_blocks ind 0 (blocks f)).
  assert (G : Forall (tok_good b) toks).
  { unfold toks. rewrite <- (app_nil_r (blocks f)). apply indent_blocks_good; [exact Hb|exact Hbr|constructor]. }
  assert (RO : rows_only toks = lines ind 0 f).
  { unfold toks. rewrite <- (app_nil_r (blocks f)). rewrite rows_indent_blocks. cbn. apply app_nil_r. }
  assert (SJ : split_juniper jp (b_cbegin b) (b_cend b) (join_with nls (out b ind 0 toks)) = Some (lines ind 0 f)).
  { unfold split_juniper. destruct (out b ind 0 toks) as [|o os] eqn:O.
    - (* nothing printed: the forest is empty *)
      destruct f as [|[r ch] f']; [reflexivity|]. exfalso. unfold toks in O. rewrite blocks_cons in O.
      cbn [app indent_blocks out] in O. discriminate.
    - rewrite split_join; [|discriminate|rewrite <- O; apply out_no_nl; assumption].
      rewrite <- O, <- RO. apply juniper_lines_out; assumption. }
  unfold split_f. rewrite SJ. destruct w as [w|]; [|reflexivity]. f_equal. apply nokia_cut_id.
  pose proof (lines_ok ind _ Hb f 0 Hr) as F. eapply Forall_impl; [|exact F].
  intros L (I & r & -> & HI & H). unfold wf_row_brace in H. apply andb_true_iff in H as [H Hne].
  apply negb_true_iff in Hne. destruct I as [|a I]; [exact Hne|].
  destruct w as [|c w]; [discriminate|]. cbn in Hw, HI |- *. apply andb_true_iff in HI as [Ha _].
  apply negb_true_iff in Hw. destruct (Ascii.eqb a c) eqn:E; [|reflexivity].
  apply Ascii.eqb_eq in E. subst. congruence.
Qed.

(* ====================================================================================== *)
(* assembling: families, vendors, the predicate *)

Lemma brace_ok_inv b p : brace_ok b p = true -> std_brace b /\ p = jp.
Proof.
  unfold brace_ok. intros H. repeat (apply andb_true_iff in H as [H ?]).
  repeat match goal with E : String.eqb _ _ = true |- _ => apply String.eqb_eq in E end.
  destruct p as [bb be se eol]. cbn [r_bb r_be r_se r_eol] in *. subst.
  split.
  - repeat split; try assumption.
    match goal with E : is_empty (b_stmt b) || String.eqb (b_stmt b) ";" = true |- _ =>
      apply orb_true_iff in E as [E|E]; [left; destruct (b_stmt b); [reflexivity|discriminate]
                                         |right; apply String.eqb_eq in E; exact E] end.
  - unfold jp. congruence.
Qed.

Definition proved_family (fm : fam) : Prop := match fm with FRos _ => False | _ => True end.

(* the guard without the Cisco closed-block alternative (Proofs/CiscoProofs.v) *)
Definition simple_guard (fm : fam) (f : forest) : bool :=
  match fm with FPlain sk => all_rows (plain_guard_row sk) f | _ => true end.

Lemma roundtrip_intro f text fm ind :
  join_f fm ind f = Some text -> parse_f fm ind text = Some (Ok f) ->
  run_family fm ind f = ORound text (Ok f) (Some text).
Proof. intros J P. unfold run_family. rewrite J, P, J. reflexivity. Qed.

Theorem family_roundtrip fm ind f :
  proved_family fm -> wf_C04_family fm ind f = true -> simple_guard fm f = true ->
  exists text, run_family fm ind f = ORound text (Ok f) (Some text).
Proof.
  intros Pf W G. unfold wf_C04_family in W. apply andb_true_iff in W as [W Wf]. apply andb_true_iff in W as [Wi Wt].
  apply wfb_wf in Wt. destruct fm as [sk|b p w|bb]; [| |contradiction].
  - apply andb_true_iff in Wf as [Wr Ws]. exists (join_plain ind f). apply roundtrip_intro; [reflexivity|].
    apply parse_plain; try assumption.
  - apply andb_true_iff in Wf as [Wf Ww]. apply andb_true_iff in Wf as [Wb Wr].
    destruct (brace_ok_inv b p Wb) as [Sb ->].
    destruct (split_brace_lines b w ind f Sb Wi Wr) as (text & J & S).
    { destruct w; [exact Ww|exact I]. }
    exists text. apply roundtrip_intro; [exact J|]. unfold parse_f. rewrite S. f_equal.
    eapply (parse_lines_lines default_comments ind (wf_row_brace b w)); try assumption.
    intros r H. unfold wf_row_brace in H. apply andb_true_iff in H as [H _]. apply andb_true_iff in H as [H _].
    apply andb_true_iff in H as [H _]. destruct (wf_row_generic_inv r H) as (A & _ & C). auto.
Qed.

Lemma roundtrip_of_outcome f text : roundtrip f (ORound text (Ok f) (Some text)) = true.
Proof. cbn. rewrite forest_eqb_refl, String.eqb_refl. reflexivity. Qed.

Lemma find_vendor_In name v : find_vendor name = Some v -> In v vendors /\ v_name v = name.
Proof.
  unfold find_vendor. intros H. apply find_some in H as [H1 H2]. apply String.eqb_eq in H2. auto.
Qed.

Lemma map_eq_In {A B} (g h : A -> B) l x : map g l = map h l -> In x l -> g x = h x.
Proof.
  induction l as [|y l IH]; intros E Hin; [destruct Hin|]. cbn in E. injection E as E1 E2.
  destruct Hin as [->|Hin]; auto.
Qed.
