(* C18 — tables computed once from the regenerated Gen/Src_devdb.v (no proofs here, so
   the case files of the correspondence run still load when a proof about the tables
   breaks).  Facts tying these constants to the model are in Proofs/HwDbSrc.v. *)
From Coq Require Import List String Bool Arith.
From Annet Require Import Base.Str Model.HwDb Spec.P_C18 Gen.Src_devdb.
Import ListNotations.
Open Scope string_scope.
Open Scope list_scope.

Definition Src_tree_opt : option (list node) := Eval vm_compute in build_tree Src_db.
Definition Src_all : list seq := Eval vm_compute in all_sequences Src_db.
Definition Src_keys : list seq := Eval vm_compute in keys Src_db.

(* model of parse_hw_model(model)[0] / HardwareView(model).vendor for a model given by
   the regex ids that match it, on the current tables *)
Definition src_true (m : list nat) : option (list seq) :=
  option_map (tree_true _ hit_tbl m) Src_tree_opt.

Definition src_vendor (vs : vendors) (m : list nat) : vres :=
  match Src_tree_opt with
  | None => VErr
  | Some t => registry_match (tree_true _ hit_tbl m t) Src_all vs
  end.

Definition opt_set_eqb (a b : option (list seq)) : bool :=
  match a, b with
  | Some x, Some y => set_eqb x y
  | None, None => true
  | _, _ => false
  end.

(* agree: the model recomputes what the implementation reported from the observed hits *)
Definition agree_C18 (c : list nat * obs) : bool :=
  opt_set_eqb (src_true (fst c)) (o_true (snd c))
  && vres_eqb (src_vendor Src_vendors (fst c)) (o_vendor (snd c)).

Definition holds_C18 (c : list nat * obs) : bool := P_C18 Src_keys Src_all Src_vendors (snd c).

(* finer verdicts used to compute the signature of a failing case *)
Definition part_hier (c : list nat * obs) : bool :=
  match o_true (snd c) with
  | Some tr => hier_ok Src_keys tr && hier_short_ok Src_all tr
  | None => false
  end.
Definition part_vendor (c : list nat * obs) : bool :=
  match o_true (snd c) with
  | Some [] => true
  | Some tr => vendor_ok tr Src_all Src_vendors (o_vendor (snd c)) && forallb (vres_eqb (o_vendor (snd c))) (o_perm (snd c))
  | None => false
  end.
Definition part_runtime (c : list nat * obs) : bool :=
  match o_true (snd c) with
  | Some [] => true
  | _ => runtime_ok (snd c)
  end.

(* ---- exactness of the reported families (chain clause), on the current tables ---- *)
Definition part_chain (c : list nat * obs) : bool :=
  match o_true (snd c) with
  | Some tr => chain_ok _ hit_tbl Src_db (fst c) Src_keys tr
  | None => false
  end.

(* the predicate the correspondence run evaluates: P_C18 and the chain clause *)
Definition holds_C18_full (c : list nat * obs) : bool :=
  P_C18_full _ hit_tbl Src_db Src_keys Src_all Src_vendors (fst c) (snd c).

(* ---- the short-name clause on the attribute set of the RUNNING code (added for seeded C18-7) ----
   hier_short_ok above is evaluated against Src_all, the usable sequences the MODEL computes from the table; a
   change of _make_allowed_by_seq that makes an ambiguous short name an attribute of one family only is then
   invisible to it (the model says "not an attribute").  Here `all` is what the running code answers attribute
   accesses for (true | false sequences of parse_hw_model): no prefix of a true attribute path - full or
   shortened - evaluates to False. *)
Definition part_short_on (all : list seq) (c : list nat * obs) : bool :=
  match o_true (snd c) with
  | Some tr => hier_short_ok all tr
  | None => true
  end.
