(* C01, layer 8: the computable domain guard (Spec/P_C01.v: wfb, slots_unique, univ_ok on the
   merged universe) implies the recursive propositions the proofs use (uok, good). *)
From Coq Require Import List String Bool Arith ZArith Lia Permutation.
From Annet Require Import Base.Str Base.Tree Model.Rulebook Model.Diff Model.Device Spec.P_C03 Spec.P_C01
     Proofs.DiffProofsLib Proofs.DiffProofsAnnot Proofs.ConvergeDevice Proofs.ConvergeExpected Proofs.ConvergeSim
     Proofs.ConvergeMain.
Import ListNotations.
Open Scope string_scope.
Open Scope list_scope.

Lemma logic_eqb_eq a b : logic_eqb a b = true -> a = b.
Proof. destruct a, b; cbn; intro H; try reflexivity; discriminate. Qed.

Lemma attrs_eqb_eq a b : attrs_eqb a b = true -> a = b.
Proof.
  unfold attrs_eqb. intro H. repeat (apply andb_true_iff in H as [H ?]).
  apply String.eqb_eq in H. apply logic_eqb_eq in H3. apply dlogic_eqb_eq in H2.
  apply Bool.eqb_prop in H1, H0. destruct a, b. cbn in *. congruence.
Qed.

Section Wf.
  Variable rmatch : string -> string -> option (list string).
  Variable rreverse : string -> list string -> string.
  Variable is_exit : string -> bool.

  Notation rev_of := (reverse_of rreverse).
  Notation uok := (uok rmatch rreverse is_exit).
  Notation good := (good rmatch).

  (* ---------- univ_ok -> uok ---------- *)
  Definition entry_ok (rs : rset) (lv : list (minfo * string)) (e : string * tree) : bool :=
    match match_row rmatch (fst e) rs with
    | Some (s, crs) =>
      let rv := rev_of s in
      allow_A s && negb (is_exit (fst e)) &&
      match match_row rmatch rv rs with Some _ => false | None => true end &&
      negb (is_exit rv) &&
      forallb (fun p : minfo * string =>
                 (negb (String.eqb (snd p) rv) || same_slot (fst p) s) &&
                 (negb (String.eqb (mi_raw (fst p)) (mi_raw s)) || attrs_eqb (mi_attrs (fst p)) (mi_attrs s))) lv &&
      univ_ok_t rmatch rreverse is_exit allow_A crs (snd e)
    | None => true
    end.

  Lemma univ_ok_unfold rs ks :
    univ_ok_t rmatch rreverse is_exit allow_A rs (T ks) =
    forallb (entry_ok rs (map (fun m => (m, rev_of m)) (level_slots rmatch rs ks))) ks.
  Proof.
    cbn [univ_ok_t]. generalize (map (fun m => (m, rev_of m)) (level_slots rmatch rs ks)) as lv. intro lv.
    induction ks as [|[r c] l IH]; [reflexivity|]. cbn [forallb]. rewrite <- IH. unfold entry_ok. cbn [fst snd].
    destruct (match_row rmatch r rs) as [[s crs]|]; reflexivity.
  Qed.

  Lemma level_slots_in rs U r c s : In (r, c) U -> slot_of rmatch rs r = Some s -> In s (level_slots rmatch rs U).
  Proof.
    intros Hin Hs. unfold level_slots. apply in_flat_map. exists (r, c). split; [exact Hin|]. cbn [fst]. rewrite Hs. now left.
  Qed.

  Theorem univ_ok_uok : forall U rs, wf U -> univ_ok rmatch rreverse is_exit allow_A rs U = true -> uok rs U.
  Proof.
    apply (forest_sub_ind (fun U => forall rs, wf U -> univ_ok rmatch rreverse is_exit allow_A rs U = true -> uok rs U)).
    intros U IH rs Hwf Hok. unfold univ_ok in Hok. rewrite univ_ok_unfold in Hok. rewrite forallb_forall in Hok.
    set (lv := map (fun m => (m, rev_of m)) (level_slots rmatch rs U)) in *.
    assert (Hent : forall r s, In r (keys U) -> slot_of rmatch rs r = Some s ->
              exists c crs, In (r, c) U /\ match_row rmatch r rs = Some (s, crs) /\
                allow_A s = true /\ is_exit r = false /\ match_row rmatch (rev_of s) rs = None /\
                is_exit (rev_of s) = false /\
                (forall s2, In s2 (level_slots rmatch rs U) ->
                            (rev_of s2 = rev_of s -> key_of s2 = key_of s) /\
                            (mi_raw s2 = mi_raw s -> mi_attrs s2 = mi_attrs s)) /\
                univ_ok_t rmatch rreverse is_exit allow_A crs c = true).
    { intros r s Hr Hs. apply in_map_iff in Hr as ([r' c] & E & Hin). cbn in E. subst r'.
      specialize (Hok (r, c) Hin). unfold entry_ok in Hok. cbn [fst snd] in Hok.
      unfold slot_of in Hs. destruct (match_row rmatch r rs) as [[s' crs]|] eqn:Em; [|discriminate].
      cbn in Hs. injection Hs as ->.
      apply andb_true_iff in Hok as [Hok H5]. apply andb_true_iff in Hok as [Hok H0].
      apply andb_true_iff in Hok as [Hok H3]. apply andb_true_iff in Hok as [Hok H2].
      apply andb_true_iff in Hok as [Hok H1].
      exists c, crs. split; [exact Hin|]. split; [reflexivity|]. split; [exact Hok|].
      split; [apply negb_true_iff; exact H1|].
      split; [destruct (match_row rmatch (rev_of s) rs); [discriminate | reflexivity]|].
      split; [apply negb_true_iff; exact H3|]. split; [|exact H5].
      intros s2 Hs2. rewrite forallb_forall in H0. specialize (H0 (s2, rev_of s2)).
      assert (Hin2 : In (s2, rev_of s2) lv) by (apply (in_map (fun m => (m, rev_of m))); exact Hs2).
      specialize (H0 Hin2). cbn [fst snd] in H0. apply andb_true_iff in H0 as [A1 A2]. split.
      - intro E. rewrite E, String.eqb_refl in A1. cbn in A1. apply same_slot_iff. exact A1.
      - intro E. rewrite E, String.eqb_refl in A2. cbn in A2. apply attrs_eqb_eq. exact A2. }
    constructor.
    - constructor.
      + intros r s Hr Hs. destruct (Hent r s Hr Hs) as (c & crs & _ & _ & _ & H & _). exact H.
      + intros r s Hr Hs. destruct (Hent r s Hr Hs) as (c & crs & _ & _ & _ & _ & H & _). exact H.
      + intros r s Hr Hs. destruct (Hent r s Hr Hs) as (c & crs & _ & _ & _ & _ & _ & H & _). exact H.
      + intros r s r2 s2 Hr Hs Hr2 Hs2 E. destruct (Hent r s Hr Hs) as (c & crs & _ & _ & _ & _ & _ & _ & H & _).
        apply in_map_iff in Hr2 as ([r2' c2] & E2 & Hin2). cbn in E2. subst r2'.
        apply (H s2 (level_slots_in rs U r2 c2 s2 Hin2 Hs2)). exact E.
      + intros r s r2 s2 Hr Hs Hr2 Hs2 E. destruct (Hent r s Hr Hs) as (c & crs & _ & _ & _ & _ & _ & _ & H & _).
        apply in_map_iff in Hr2 as ([r2' c2] & E2 & Hin2). cbn in E2. subst r2'.
        apply (H s2 (level_slots_in rs U r2 c2 s2 Hin2 Hs2)). exact E.
    - apply wf_keys. exact Hwf.
    - intros r tu s crs Hin Hm.
      assert (Hr : In r (keys U)) by (eapply in_keys; eauto).
      assert (Hs : slot_of rmatch rs r = Some s) by (unfold slot_of; rewrite Hm; reflexivity).
      destruct (Hent r s Hr Hs) as (c & crs' & Hin' & Hm' & Hal & _ & _ & _ & _ & Hc).
      rewrite Hm in Hm'. injection Hm' as <-.
      rewrite (nodup_entry U r tu c (wf_keys U Hwf) Hin Hin'). split; [exact Hal|].
      apply (IH r c Hin' crs); [eapply wf_in; eauto|]. unfold univ_ok. rewrite tree_eta. exact Hc.
  Qed.

  (* ---------- slots_unique -> one row per slot, at every level ---------- *)
  Lemma su_level ks : slots_unique_a (AT ks) = true ->
    NoDup (akeys ks) /\ forall k, In k ks -> slots_unique_a (asub k) = true.
  Proof.
    induction ks as [|[[r m] c] l IH]; intro H.
    - split; [constructor | intros k []].
    - change (slots_unique_a (AT ((r, m, c) :: l))) with
        (negb (existsb (fun k : string * minfo * atree => same_slot (snd (fst k)) m) l) && slots_unique_a c && slots_unique_a (AT l)) in H.
      apply andb_true_iff in H as [H H3]. apply andb_true_iff in H as [H1 H2].
      destruct (IH H3) as (Hnd & Hk). split.
      + unfold akeys. cbn [map]. constructor; [|exact Hnd]. intro Hin. apply negb_true_iff in H1.
        apply in_map_iff in Hin as (k & Ek & Hkin).
        assert (E : existsb (fun k : string * minfo * atree => same_slot (snd (fst k)) m) l = true).
        { apply existsb_exists. exists k. split; [exact Hkin|]. apply same_slot_iff. exact Ek. }
        congruence.
      + intros k [<-|Hkin]; [exact H2 | auto].
  Qed.

  Lemma su_uniq rs f : slots_unique rmatch rs f = true -> lvl_uniq rmatch rs f.
  Proof.
    unfold slots_unique. change (annot rmatch rs (T f)) with (AT (annot_f rmatch rs f)). intro H.
    apply su_level in H as [H _]. unfold ConvergeDevice.lvl_uniq. rewrite <- akeys_annot. exact H.
  Qed.

  Lemma su_child rs f r t s crs : slots_unique rmatch rs f = true -> In (r, t) f ->
    match_row rmatch r rs = Some (s, crs) -> slots_unique rmatch crs (kids t) = true.
  Proof.
    unfold slots_unique. change (annot rmatch rs (T f)) with (AT (annot_f rmatch rs f)). intros H Hin Hm.
    apply su_level in H as [_ H]. specialize (H (r, s, annot rmatch crs t)). cbn [asub snd] in H.
    rewrite tree_eta. apply H. apply annot_in. exists t, crs. auto.
  Qed.

  (* ---------- the merged universe ---------- *)
  Definition bk (b : forest) (r : string) : forest := match tfind r b with Some t' => kids t' | None => [] end.

  Lemma merge_unfold a b :
    merge a b = map (fun e : string * tree => (fst e, T (merge (kids (snd e)) (bk b (fst e))))) a ++
                filter (fun e : string * tree => match tfind (fst e) a with Some _ => false | None => true end) b.
  Proof.
    unfold merge at 1. cbn [merge_t]. f_equal. induction a as [|[r t] a IH]; [reflexivity|].
    cbn [map fst snd]. f_equal; [|exact IH]. unfold merge, bk. destruct t. reflexivity.
  Qed.

  Lemma merge_in a b r tu : In (r, tu) (merge a b) <->
    (exists t, In (r, t) a /\ tu = T (merge (kids t) (bk b r))) \/ (In (r, tu) b /\ ~ In r (keys a)).
  Proof.
    rewrite merge_unfold, in_app_iff, in_map_iff, filter_In. split.
    - intros [([r0 t] & E & Hin)|[Hin Hn]].
      + cbn [fst snd] in E. injection E as <- <-. left. exists t. auto.
      + right. split; [exact Hin|]. cbn [fst] in Hn. destruct (tfind r a) eqn:Et; [discriminate|]. apply tfind_none. exact Et.
    - intros [(t & Hin & ->)|[Hin Hn]].
      + left. exists (r, t). auto.
      + right. split; [exact Hin|]. cbn [fst]. apply tfind_none in Hn. rewrite Hn. reflexivity.
  Qed.

  Lemma merge_keys_l a b r : In r (keys a) -> In r (keys (merge a b)).
  Proof.
    intro H. apply in_map_iff in H as ([r' t] & E & Hin). cbn in E. subst r'.
    apply (in_keys r (T (merge (kids t) (bk b r)))). apply merge_in. left. exists t. auto.
  Qed.
  Lemma merge_keys_r a b r : In r (keys b) -> In r (keys (merge a b)).
  Proof.
    intro H. destruct (in_dec string_dec r (keys a)) as [Ha|Ha]; [apply merge_keys_l; exact Ha|].
    apply in_map_iff in H as ([r' t] & E & Hin). cbn in E. subst r'.
    apply (in_keys r t). apply merge_in. right. auto.
  Qed.

  Lemma merge_wf : forall a b, wf a -> wf b -> wf (merge a b).
  Proof.
    apply (forest_sub_ind (fun a => forall b, wf a -> wf b -> wf (merge a b))). intros a IH b Ha Hb.
    apply wf_intro.
    - rewrite merge_unfold. unfold keys. rewrite map_app, map_map. cbn [fst].
      apply NoDup_app_intro.
      + apply wf_keys in Ha. exact Ha.
      + apply (nodup_keys_filter _ b). apply wf_keys. exact Hb.
      + intros r H1 H2. apply in_map_iff in H2 as ([r' t'] & E & Hf). cbn in E. subst r'.
        apply filter_In in Hf as [_ Hf]. cbn [fst] in Hf. destruct (tfind r a) eqn:Et; [discriminate|].
        apply tfind_none in Et. apply Et. exact H1.
    - intros r tu Hin. apply merge_in in Hin as [(t & Hin & ->)|[Hin _]].
      + cbn [kids]. apply (IH r t Hin); [exact (wf_in a r t Ha Hin)|].
        unfold bk. destruct (tfind r b) as [t'|] eqn:Et; [|constructor]. apply tfind_in in Et. exact (wf_in b r t' Hb Et).
      + exact (wf_in b r tu Hb Hin).
  Qed.

  Lemma good_self : forall f rs, wf f -> slots_unique rmatch rs f = true -> good rs f f.
  Proof.
    apply (forest_sub_ind (fun f => forall rs, wf f -> slots_unique rmatch rs f = true -> good rs f f)).
    intros f IH rs Hwf Hsu. constructor.
    - apply wf_keys. exact Hwf.
    - apply su_uniq. exact Hsu.
    - intros e He. destruct e as [r t]. eapply in_keys; eauto.
    - intros r t Hin. exact (wf_in f r t Hwf Hin).
    - intros r t tu s crs Hin Htu Hm. rewrite (nodup_entry f r tu t (wf_keys f Hwf) Htu Hin).
      apply (IH r t Hin crs); [exact (wf_in f r t Hwf Hin) | exact (su_child rs f r t s crs Hsu Hin Hm)].
  Qed.

  Lemma good_merge_l : forall a b rs, wf a -> wf b -> slots_unique rmatch rs a = true -> good rs (merge a b) a.
  Proof.
    apply (forest_sub_ind (fun a => forall b rs, wf a -> wf b -> slots_unique rmatch rs a = true -> good rs (merge a b) a)).
    intros a IH b rs Ha Hb Hsu. constructor.
    - apply wf_keys. exact Ha.
    - apply su_uniq. exact Hsu.
    - intros [r t] He. cbn [fst]. apply merge_keys_l. eapply in_keys; eauto.
    - intros r t Hin. exact (wf_in a r t Ha Hin).
    - intros r t tu s crs Hin Htu Hm. apply merge_in in Htu as [(t0 & Hin0 & ->)|[_ Hn]].
      + rewrite (nodup_entry a r t0 t (wf_keys a Ha) Hin0 Hin). cbn [kids].
        apply (IH r t Hin); [exact (wf_in a r t Ha Hin) | | exact (su_child rs a r t s crs Hsu Hin Hm)].
        unfold bk. destruct (tfind r b) as [t'|] eqn:Et; [|constructor]. apply tfind_in in Et. exact (wf_in b r t' Hb Et).
      + exfalso. apply Hn. eapply in_keys; eauto.
  Qed.

  Lemma good_merge_r : forall a b rs, wf a -> wf b -> slots_unique rmatch rs b = true -> good rs (merge a b) b.
  Proof.
    apply (forest_sub_ind (fun a => forall b rs, wf a -> wf b -> slots_unique rmatch rs b = true -> good rs (merge a b) b)).
    intros a IH b rs Ha Hb Hsu. constructor.
    - apply wf_keys. exact Hb.
    - apply su_uniq. exact Hsu.
    - intros [r t] He. cbn [fst]. apply merge_keys_r. eapply in_keys; eauto.
    - intros r t Hin. exact (wf_in b r t Hb Hin).
    - intros r t' tu s crs Hin Htu Hm. apply merge_in in Htu as [(t & Hina & ->)|[Htu Hn]].
      + cbn [kids]. unfold bk. rewrite (tfind_nodup r b t' (wf_keys b Hb) Hin).
        apply (IH r t Hina); [exact (wf_in a r t Ha Hina) | exact (wf_in b r t' Hb Hin) | exact (su_child rs b r t' s crs Hsu Hin Hm)].
      + rewrite (nodup_entry b r tu t' (wf_keys b Hb) Htu Hin).
        apply good_self; [exact (wf_in b r t' Hb Hin) | exact (su_child rs b r t' s crs Hsu Hin Hm)].
  Qed.

  (* the universe can be extended *)
  Lemma good_mono : forall f U b rs, wf U -> wf b -> good rs U f -> good rs (merge U b) f.
  Proof.
    apply (forest_sub_ind (fun f => forall U b rs, wf U -> wf b -> good rs U f -> good rs (merge U b) f)).
    intros f IH U b rs HU Hb Hg. destruct (good_inv rmatch rs U f Hg) as (Hk & Hu & Hi & Hw & Hs). constructor; auto.
    - intros e He. apply merge_keys_l. apply Hi. exact He.
    - intros r t tu' s crs Hin Htu Hm. apply merge_in in Htu as [(tu & HinU & ->)|[_ Hn]].
      + cbn [kids]. apply (IH r t Hin); [exact (wf_in U r tu HU HinU) | | exact (Hs r t tu s crs Hin HinU Hm)].
        unfold bk. destruct (tfind r b) as [t'|] eqn:Et; [|constructor]. apply tfind_in in Et. exact (wf_in b r t' Hb Et).
      + exfalso. apply Hn. apply (Hi (r, t) Hin).
  Qed.

  (* ---------- the guard of one deployment ---------- *)
  Theorem wf_step_props rs old new :
    wfb old = true -> wfb new = true -> slots_unique rmatch rs old = true -> slots_unique rmatch rs new = true ->
    univ_ok rmatch rreverse is_exit allow_A rs (merge old new) = true ->
    uok rs (merge old new) /\ good rs (merge old new) old /\ good rs (merge old new) new.
  Proof.
    intros Ho Hn So Sn Hu. apply wfb_wf in Ho, Hn. split; [|split].
    - apply univ_ok_uok; [apply merge_wf; assumption | exact Hu].
    - apply good_merge_l; assumption.
    - apply good_merge_r; assumption.
  Qed.

  (* ---------- the guard of a chain: one universe for the initial state and all targets ---------- *)
  Lemma merge_all_wf : forall news old, wf old -> Forall wf news -> wf (merge_all old news).
  Proof.
    induction news as [|n news IH]; intros old Ho Hn; [exact Ho|]. inversion Hn; subst. cbn [merge_all fold_left].
    apply IH; [apply merge_wf; assumption | assumption].
  Qed.

  Lemma good_merge_all : forall news U rs f, wf U -> Forall wf news -> good rs U f -> good rs (merge_all U news) f.
  Proof.
    induction news as [|n news IH]; intros U rs f HU Hn Hg; [exact Hg|]. inversion Hn; subst. cbn [merge_all fold_left].
    apply IH; [apply merge_wf; assumption | assumption | apply good_mono; assumption].
  Qed.

  Lemma goods_fold rs : forall news U, wf U -> Forall (fun n => wf n /\ slots_unique rmatch rs n = true) news ->
    Forall (good rs (merge_all U news)) news.
  Proof.
    induction news as [|n news IH]; intros U HU Hn; [constructor|].
    inversion Hn as [|x l [Hwx Hsx] Hrest]; subst. cbn [merge_all fold_left].
    assert (Hwn : Forall wf news) by (apply Forall_forall; intros y Hy; rewrite Forall_forall in Hrest; apply (Hrest y Hy)).
    constructor.
    - apply good_merge_all; [apply merge_wf; assumption | exact Hwn | apply good_merge_r; assumption].
    - apply IH; [apply merge_wf; assumption | exact Hrest].
  Qed.

  Theorem wf_chain_props rs news old :
    wf old -> slots_unique rmatch rs old = true ->
    Forall (fun n => wf n /\ slots_unique rmatch rs n = true) news ->
    univ_ok rmatch rreverse is_exit allow_A rs (merge_all old news) = true ->
    uok rs (merge_all old news) /\ good rs (merge_all old news) old /\ Forall (good rs (merge_all old news)) news.
  Proof.
    intros Ho So Hn Hu.
    assert (Hwn : Forall wf news) by (apply Forall_forall; intros x Hx; rewrite Forall_forall in Hn; apply (Hn x Hx)).
    split; [apply univ_ok_uok; [apply merge_all_wf; assumption | exact Hu]|]. split.
    - apply good_merge_all; [exact Ho | exact Hwn | apply good_self; assumption].
    - apply goods_fold; assumption.
  Qed.
End Wf.
