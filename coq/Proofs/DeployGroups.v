(* C09, deploy side, any number of apply logics in one patch:
   - itertools.groupby on the wrapper key = THE decomposition into maximal runs (existence and
     uniqueness);
   - apply_deploy_rulebook = for each maximal run of paths asking for the same wrapper: the
     wrapper's before commands, the run's commands, the wrapper's after commands; the runs'
     members concatenated are the paths, in order (nothing crosses a group border);
   - every command, wrapper commands included, carries the parameters of its own rule. *)
From Coq Require Import List String Ascii Bool Arith NArith Lia.
From Annet Require Import Base.Str Model.Pattern Model.Order Model.Patch Model.Blocks Gen.Src_apply Model.Deploy
     Spec.P_C09 Spec.P_C09G Proofs.DeployProofs Proofs.DeployModelP.
Import ListNotations.
Open Scope string_scope.
Open Scope list_scope.

(* ------------------------------------------------------------------------------------ *)
(* runs_by *)

Lemma wrapper_eqb'_eq a b : wrapper_eqb' a b = true <-> a = b.
Proof.
  split.
  - apply wrapper_eqb_eq.
  - intros ->. apply wrapper_eqb_refl.
Qed.

Lemma wrapper_eqb'_neq a b : wrapper_eqb' a b = false <-> a <> b.
Proof.
  split.
  - intros H E. apply wrapper_eqb'_eq in E. congruence.
  - intro H. destruct (wrapper_eqb' a b) eqn:E; [|reflexivity]. apply wrapper_eqb'_eq in E. contradiction.
Qed.

(* the model's groupby is runs_by on commands *)
Lemma groupby_runs_by (l : list (command * wrapper)) : groupby l = runs_by l.
Proof.
  induction l as [|[c w] r IH]; [reflexivity|].
  cbn [groupby runs_by]. rewrite IH. reflexivity.
Qed.

Lemma runs_by_flat {A} (l : list (A * wrapper)) : flat_runs (runs_by l) = l.
Proof.
  induction l as [|[x w] r IH]; [reflexivity|].
  cbn [runs_by]. destruct (runs_by r) as [|[w' g] gs] eqn:E.
  - cbn in *. rewrite <- IH. reflexivity.
  - destruct (wrapper_eqb' w w') eqn:Ew.
    + apply wrapper_eqb'_eq in Ew. subst w'. unfold flat_runs in *. cbn in *. rewrite <- IH. reflexivity.
    + unfold flat_runs in *. cbn in *. rewrite <- IH. reflexivity.
Qed.

Lemma runs_by_nonempty {A} (l : list (A * wrapper)) : Forall (fun g => snd g <> []) (runs_by l).
Proof.
  induction l as [|[x w] r IH]; [constructor|].
  cbn [runs_by]. destruct (runs_by r) as [|[w' g] gs] eqn:E.
  - constructor; [discriminate|constructor].
  - inversion IH as [|? ? Hg Hgs]; subst.
    destruct (wrapper_eqb' w w'); constructor; cbn; try discriminate; try assumption.
Qed.

Lemma runs_by_adj {A} (l : list (A * wrapper)) : adj_differ (runs_by l).
Proof.
  induction l as [|[x w] r IH]; [exact I|].
  cbn [runs_by]. destruct (runs_by r) as [|[w' g] gs] eqn:E; [exact I|].
  destruct (wrapper_eqb' w w') eqn:Ew.
  - destruct gs as [|b gs']; [exact I|]. cbn in *. exact IH.
  - cbn. split; [apply wrapper_eqb'_neq; exact Ew|exact IH].
Qed.

Theorem runs_by_is_runs {A} (l : list (A * wrapper)) : is_runs l (runs_by l).
Proof. split; [apply runs_by_flat|split; [apply runs_by_nonempty|apply runs_by_adj]]. Qed.

(* ... and it is the only one *)
Theorem runs_unique {A} (l : list (A * wrapper)) :
  forall gs, is_runs l gs -> gs = runs_by l.
Proof.
  induction l as [|[x w] r IH]; intros gs [Hf [Hne Hadj]].
  - destruct gs as [|[w0 g0] gs']; [reflexivity|]. exfalso.
    inversion Hne as [|? ? Hg _]; subst. cbn in Hg. destruct g0 as [|y g0']; [contradiction|].
    unfold flat_runs in Hf. cbn in Hf. discriminate.
  - destruct gs as [|[w0 g0] gs']; [discriminate|].
    inversion Hne as [|? ? Hg Hne']; subst. cbn in Hg.
    destruct g0 as [|y g0']; [contradiction|].
    unfold flat_runs in Hf. cbn in Hf. injection Hf as -> -> Hf.
    destruct g0' as [|z g0''].
    + cbn in Hf.
      assert (gs' = runs_by r) as Egs.
      { apply IH. split; [exact Hf|split; [exact Hne'|]]. destruct gs'; [exact I|]. cbn in Hadj. tauto. }
      cbn [runs_by]. rewrite <- Egs. destruct gs' as [|[w1 g1] gs'']; [reflexivity|].
      cbn in Hadj. destruct Hadj as [Hd _].
      apply wrapper_eqb'_neq in Hd. rewrite Hd. reflexivity.
    + assert ((w, z :: g0'') :: gs' = runs_by r) as Egs.
      { apply IH. split; [exact Hf|split].
        - constructor; [discriminate|exact Hne'].
        - destruct gs'; [exact I|]. cbn in *. exact Hadj. }
      cbn [runs_by]. rewrite <- Egs.
      assert (wrapper_eqb' w w = true) as -> by (apply wrapper_eqb'_eq; reflexivity). reflexivity.
Qed.

Lemma runs_by_map {A B} (f : A -> B) (l : list (A * wrapper)) :
  runs_by (map (fun x => (f (fst x), snd x)) l) = map (fun g => (fst g, map f (snd g))) (runs_by l).
Proof.
  induction l as [|[x w] r IH]; [reflexivity|].
  cbn [map runs_by fst snd]. rewrite IH.
  destruct (runs_by r) as [|[w' g] gs]; [reflexivity|].
  cbn [map fst snd]. destruct (wrapper_eqb' w w'); reflexivity.
Qed.

Lemma Forall2_map_l {A B C} (f : A -> B) (R : B -> C -> Prop) (l : list A) (m : list C) :
  Forall2 R (map f l) m -> Forall2 (fun a c => R (f a) c) l m.
Proof.
  revert m. induction l as [|a l IH]; intros m H; inversion H as [|? ? ? ? Hx Hr]; subst; constructor.
  - exact Hx.
  - apply IH. exact Hr.
Qed.

(* two keyed lists related member by member, with equal keys, have related runs *)
Lemma runs_by_rel {A B} (R : A -> B -> Prop) (l : list (A * wrapper)) (m : list (B * wrapper)) :
  Forall2 (fun a b => R (fst a) (fst b) /\ snd a = snd b) l m ->
  Forall2 (fun ga gb => fst ga = fst gb /\ Forall2 R (snd ga) (snd gb)) (runs_by l) (runs_by m).
Proof.
  intro H. induction H as [|[x w] [y v] l m [Hxy Hw] _ IH]; [constructor|].
  cbn in Hxy, Hw. subst v. cbn [runs_by].
  destruct IH as [|[w1 g1] [w2 g2] gs1 gs2 [Hk Hg] Hgs].
  - constructor; [|constructor]. split; [reflexivity|constructor; [exact Hxy|constructor]].
  - cbn in Hk, Hg. subst w2. destruct (wrapper_eqb' w w1).
    + constructor; [|exact Hgs]. split; [reflexivity|constructor; assumption].
    + constructor; [split; [reflexivity|constructor; [exact Hxy|constructor]]|].
      constructor; [split; [reflexivity|exact Hg]|exact Hgs].
Qed.

(* ------------------------------------------------------------------------------------ *)
(* apply_deploy_rulebook, general case                                                    *)

Section General.
  Variable hit : drule -> string -> ctx -> bool.
  Variable wrappers : nat -> wrapper.
  Variable rules : list drule.

  Definition pcmd := ((list string * ctx) * command)%type.

  (* one session: the wrapper, its before commands, the paths of the run with their commands,
     its after commands *)
  Definition seg := (wrapper * list command * list pcmd * list command)%type.
  Definition sg_w (s : seg) : wrapper := fst (fst (fst s)).
  Definition sg_b (s : seg) : list command := snd (fst (fst s)).
  Definition sg_m (s : seg) : list pcmd := snd (fst s).
  Definition sg_a (s : seg) : list command := snd s.

  Definition seg_cmds (s : seg) : list command := sg_b s ++ map snd (sg_m s) ++ sg_a s.

  (* a wrapper command: the text, level 0, the parameters of the rule matching the one-row path *)
  Definition wraps (l : list string) (cs : list command) : Prop :=
    Forall2 (fun t c => wrap_cmd hit rules t = Some c) l cs.

  Definition seg_ok (s : seg) : Prop :=
    sg_m s <> [] /\
    Forall (fun x => wrapper_of hit wrappers rules (fst x) = sg_w s /\
                     body_only hit wrappers rules (fst x) = Some (snd x)) (sg_m s) /\
    wraps (fst (sg_w s)) (sg_b s) /\ wraps (snd (sg_w s)) (sg_a s).

  Definition tag (pc : list string * ctx) : option (pcmd * wrapper) :=
    match body_cmd hit wrappers rules pc with Some (c, w) => Some ((pc, c), w) | None => None end.

  Lemma tag_items paths items :
    opt_all (map (body_cmd hit wrappers rules) paths) = Some items ->
    exists L : list (pcmd * wrapper),
      items = map (fun x => (snd (fst x), snd x)) L /\
      map (fun x => fst (fst x)) L = paths /\
      Forall (fun x => body_cmd hit wrappers rules (fst (fst x)) = Some (snd (fst x), snd x)) L.
  Proof.
    revert items. induction paths as [|pc l IH]; cbn [map opt_all]; intros items H.
    - injection H as <-. exists []. repeat split; constructor.
    - destruct (body_cmd hit wrappers rules pc) as [[c w]|] eqn:E; [|discriminate].
      destruct (opt_all (map (body_cmd hit wrappers rules) l)) as [its|] eqn:El; [|discriminate].
      injection H as <-. destruct (IH its eq_refl) as [L [E1 [E2 E3]]].
      exists (((pc, c), w) :: L). cbn. repeat split.
      + rewrite E1. reflexivity.
      + rewrite E2. reflexivity.
      + constructor; [exact E|exact E3].
  Qed.

  Lemma segs_of_groups (gs : list (wrapper * list pcmd)) (emitted : list (list command)) :
    Forall2 (fun g x => emit_group hit rules (fst g, map snd (snd g)) = Some x) gs emitted ->
    exists segs : list seg,
      List.concat emitted = flat_map seg_cmds segs /\
      map (fun s => (sg_w s, sg_m s)) segs = gs /\
      Forall (fun s => wraps (fst (sg_w s)) (sg_b s) /\ wraps (snd (sg_w s)) (sg_a s)) segs.
  Proof.
    intro H. induction H as [|[w m] x gs emitted Hx _ [segs [E1 [E2 E3]]]].
    - exists []. repeat split; constructor.
    - unfold emit_group in Hx. cbn [fst snd] in Hx.
      destruct (opt_all (map (wrap_cmd hit rules) (fst w))) as [b|] eqn:Eb; [|discriminate].
      destruct (opt_all (map (wrap_cmd hit rules) (snd w))) as [a|] eqn:Ea; [|discriminate].
      injection Hx as <-.
      exists ((w, b, m, a) :: segs). cbn [flat_map List.concat map]. repeat split.
      + rewrite E1. reflexivity.
      + rewrite E2. reflexivity.
      + constructor; [|exact E3]. unfold wraps, sg_w, sg_b, sg_a. cbn [fst snd].
        split; apply opt_all_some; assumption.
  Qed.

  Lemma flat_runs_members {A} (gs : list (wrapper * list A)) g x :
    In g gs -> In x (snd g) -> In (x, fst g) (flat_runs gs).
  Proof.
    intros Hg Hx. unfold flat_runs. apply in_flat_map. exists g. split; [exact Hg|].
    apply in_map_iff. exists x. split; [reflexivity|exact Hx].
  Qed.

  Lemma flat_runs_fst {A} (gs : list (wrapper * list A)) :
    map fst (flat_runs gs) = flat_map snd gs.
  Proof.
    unfold flat_runs. induction gs as [|g gs IH]; [reflexivity|].
    cbn [flat_map]. rewrite map_app, IH, map_map. cbn [fst]. rewrite map_id. reflexivity.
  Qed.

  (* The full statement.  [segs] is the list of sessions; the paths of the sessions, concatenated,
     are exactly [paths]: every command of the patch once, in patch order, each inside the
     session of its own apply logic; neighbouring sessions have different wrappers. *)
  Theorem deploy_general paths cmds :
    deploy hit wrappers rules paths = Some cmds ->
    exists segs : list seg,
      cmds = flat_map seg_cmds segs /\
      flat_map (fun s => map fst (sg_m s)) segs = paths /\
      Forall seg_ok segs /\
      adj_differ (map (fun s => (sg_w s, sg_m s)) segs).
  Proof.
    unfold deploy. intro H.
    destruct (opt_all (map (body_cmd hit wrappers rules) paths)) as [items|] eqn:Ei; [|discriminate].
    destruct (opt_all (map (emit_group hit rules) (groupby items))) as [emitted|] eqn:Eg; [|discriminate].
    injection H as <-.
    destruct (tag_items paths items Ei) as [L [EL [EP HL]]].
    apply opt_all_some in Eg. rewrite groupby_runs_by, EL in Eg.
    rewrite (runs_by_map (@snd (list string * ctx) command) L) in Eg.
    assert (Forall2 (fun g x => emit_group hit rules (fst g, map snd (snd g)) = Some x) (runs_by L) emitted) as Eg'.
    { apply Forall2_map_l in Eg. exact Eg. }
    destruct (segs_of_groups _ _ Eg') as [segs [E1 [E2 E3]]].
    destruct (runs_by_is_runs L) as [Rf [Rne Radj]].
    exists segs. split; [exact E1|]. split; [|split].
    - rewrite <- EP, <- Rf, <- E2.
      clear. unfold flat_runs. induction segs as [|s segs IH]; [reflexivity|].
      cbn [flat_map map fst snd]. rewrite map_app, IH. f_equal.
      rewrite map_map. cbn [fst]. reflexivity.
    - rewrite Forall_forall. intros s Hs.
      assert (In (sg_w s, sg_m s) (runs_by L)) as Hin.
      { rewrite <- E2. apply in_map_iff. exists s. split; [reflexivity|exact Hs]. }
      rewrite Forall_forall in E3. destruct (E3 s Hs) as [Hb Ha].
      split; [|split; [|split; assumption]].
      + rewrite Forall_forall in Rne. apply (Rne _ Hin).
      + rewrite Forall_forall. intros x Hx.
        pose proof (flat_runs_members (runs_by L) (sg_w s, sg_m s) x Hin Hx) as Hm.
        rewrite Rf in Hm. cbn [fst] in Hm.
        rewrite Forall_forall in HL. specialize (HL _ Hm). cbn [fst snd] in HL.
        rewrite body_cmd_split in HL.
        destruct (body_only hit wrappers rules (fst x)) as [c|] eqn:Eb; [|discriminate].
        injection HL as -> Hw. split; [exact Hw|reflexivity].
    - rewrite E2. exact Radj.
  Qed.

  (* the stream with every wrapper command removed *)
  Definition strip_wrappers (segs : list seg) : list command := flat_map (fun s => map snd (sg_m s)) segs.

  (* ... is one command per path, in order, at level |path| - 1 *)
  Theorem deploy_body_general paths cmds :
    deploy hit wrappers rules paths = Some cmds ->
    exists segs : list seg,
      cmds = flat_map seg_cmds segs /\ Forall seg_ok segs /\
      adj_differ (map (fun s => (sg_w s, sg_m s)) segs) /\
      Forall2 (fun pc c => body_only hit wrappers rules pc = Some c) paths (strip_wrappers segs) /\
      map (fun c => (c_level c, c_cmd c)) (strip_wrappers segs) = map (fun pc => lv (fst pc)) paths.
  Proof.
    intro H. destruct (deploy_general paths cmds H) as [segs [E1 [E2 [E3 E4]]]].
    exists segs. split; [exact E1|]. split; [exact E3|]. split; [exact E4|].
    assert (Forall2 (fun pc c => body_only hit wrappers rules pc = Some c) paths (strip_wrappers segs)) as HF.
    { rewrite <- E2. clear - E3. unfold strip_wrappers. induction segs as [|s segs IH]; [constructor|].
      inversion E3 as [|? ? Hs Hr]; subst. cbn [flat_map]. apply Forall2_app; [|apply IH; exact Hr].
      destruct Hs as [_ [Hm _]]. clear - Hm. induction Hm as [|x m [_ Hx] _ IH]; cbn; constructor; assumption. }
    split; [exact HF|].
    clear - HF. induction HF as [|pc c l m Hc _ IH]; [reflexivity|].
    apply body_only_shape in Hc as [H1 H2]. cbn [map]. rewrite IH. unfold lv. rewrite H1, H2. reflexivity.
  Qed.
End General.

(* ------------------------------------------------------------------------------------ *)
(* the clause c9_groups of P_C09G holds for the model's own output                        *)

Lemma all_fit_forall2 fit (es : list (command * bool)) (cs : list command) :
  Forall2 (fun e c => fit e c = true) es cs -> all_fit fit es cs = true.
Proof.
  intro H. induction H as [|e c es cs Hec _ IH]; [reflexivity|]. cbn. rewrite Hec, IH. reflexivity.
Qed.

Section ModelG.
  Variable h : hitfn.
  Variable o : obs09.
  Variable wrappers : nat -> wrapper.
  Variable r : run09.

  (* the table of apply logics is the observed one *)
  Hypothesis Hwr : forall id, wrappers id = obs_wrapper r id.
  Hypothesis Hdet : all_det h o = true.

  Lemma det_wrapper pc :
    In pc (o_paths0 o) -> wrapper_of h wrappers (o_rules o) pc = obs_wrapper r (sel_apply h o pc).
  Proof.
    intro Hin. unfold all_det in Hdet. rewrite forallb_forall in Hdet. specialize (Hdet pc Hin).
    unfold wrapper_of, rule_for. rewrite (match_rule_spec h _ _ _ Hdet), Hwr.
    unfold sel_apply, sel. destruct (spec_rule h (o_rules o) (fst pc) (snd pc)); reflexivity.
  Qed.

  Lemma items_rel_gen l items :
    (forall pc, In pc l -> In pc (o_paths0 o)) ->
    Forall2 (fun pc i => body_cmd h wrappers (o_rules o) pc = Some i) l items ->
    Forall2 (fun e i => cmd_fits (fst e) (fst i) = true /\ snd e = snd i)
            (map (fun pc => (expect h o (fst pc) (snd pc), obs_wrapper r (sel_apply h o pc))) l) items.
  Proof.
    intros Hsub H. induction H as [|pc [c w] l m Hc _ IH]; [constructor|].
    cbn [map]. constructor.
    - cbn [fst snd]. assert (In pc (o_paths0 o)) as Hin by (apply Hsub; left; reflexivity).
      split.
      + destruct pc as [p cx]. unfold all_det in Hdet. rewrite forallb_forall in Hdet.
        apply (expect_body h o wrappers p cx c w (Hdet _ Hin) Hc).
      + rewrite <- (det_wrapper pc Hin). rewrite body_cmd_split in Hc.
        destruct (body_only h wrappers (o_rules o) pc); [|discriminate]. injection Hc as _ <-. reflexivity.
    - apply IH. intros x Hx. apply Hsub. right. exact Hx.
  Qed.

  Lemma items_rel items :
    opt_all (map (body_cmd h wrappers (o_rules o)) (o_paths0 o)) = Some items ->
    Forall2 (fun e i => cmd_fits (fst e) (fst i) = true /\ snd e = snd i) (exp_items h o r) items.
  Proof.
    intro H. apply opt_all_some in H. apply items_rel_gen; [auto|exact H].
  Qed.

  Lemma group_fits (ge : wrapper * list (command * bool)) (gi : wrapper * list command) x :
    fst ge = fst gi -> Forall2 (fun e c => cmd_fits e c = true) (snd ge) (snd gi) ->
    emit_group h (o_rules o) gi = Some x ->
    all_fit cmd_fits (exp_group h o ge) x = true.
  Proof.
    intros Hk Hm Hx. unfold emit_group in Hx.
    destruct (opt_all (map (wrap_cmd h (o_rules o)) (fst (fst gi)))) as [b|] eqn:Eb; [|discriminate].
    destruct (opt_all (map (wrap_cmd h (o_rules o)) (snd (fst gi)))) as [a|] eqn:Ea; [|discriminate].
    injection Hx as <-. unfold exp_group, exp_wrap. rewrite Hk.
    apply all_fit_app; [|apply all_fit_app].
    - apply (all_fit_opt_all cmd_fits _ _ _ _ Eb). intros s c _ Hs. apply (expect_wrap h o wrappers). exact Hs.
    - apply all_fit_forall2. exact Hm.
    - apply (all_fit_opt_all cmd_fits _ _ _ _ Ea). intros s c _ Hs. apply (expect_wrap h o wrappers). exact Hs.
  Qed.

  Theorem model_groups_fit w cmds :
    r_common r = Some w -> r_cmds r = Some cmds ->
    deploy h wrappers (o_rules o) (o_paths0 o) = Some cmds ->
    run_groups cmd_fits h o r = true.
  Proof.
    intros Hc Hr Hd. unfold run_groups. rewrite Hr, Hc. unfold deploy in Hd.
    destruct (opt_all (map (body_cmd h wrappers (o_rules o)) (o_paths0 o))) as [items|] eqn:Ei; [|discriminate].
    destruct (opt_all (map (emit_group h (o_rules o)) (groupby items))) as [emitted|] eqn:Eg; [|discriminate].
    injection Hd as <-. apply opt_all_some in Eg. rewrite groupby_runs_by in Eg.
    pose proof (runs_by_rel (fun e c => cmd_fits e c = true) _ _ (items_rel items Ei)) as HR.
    unfold exp_stream. clear Hr. revert emitted Eg.
    induction HR as [|ge gi ges gis [Hk Hm] _ IH]; intros emitted Eg.
    - inversion Eg; subst. reflexivity.
    - inversion Eg as [|? x ? em Hx Hrest]; subst. cbn [flat_map List.concat].
      apply all_fit_app; [exact (group_fits ge gi x Hk Hm Hx)|apply IH; exact Hrest].
  Qed.
End ModelG.

(* ------------------------------------------------------------------------------------ *)
(* Frame: the command of a path depends on that path (and its context) alone               *)

Section Frame.
  Variable hit : drule -> string -> ctx -> bool.
  Variable wrappers : nat -> wrapper.
  Variable rules : list drule.

  Lemma forall2_nth {A B} (R : A -> B -> Prop) l m i a :
    Forall2 R l m -> nth_error l i = Some a -> exists b, nth_error m i = Some b /\ R a b.
  Proof.
    intro H. revert i. induction H as [|x y l m Hxy _ IH]; intros [|i] Hi; cbn in Hi; try discriminate.
    - injection Hi as <-. exists y. split; [reflexivity|exact Hxy].
    - apply IH. exact Hi.
  Qed.

  (* position i of the stream without wrapper commands is the command of path i: text, level and,
     where the rule chain is unique, the timeout and dialogs of the rule chain of THAT path *)
  Theorem deploy_own_chain paths cmds :
    deploy hit wrappers rules paths = Some cmds ->
    exists segs : list (seg),
      cmds = flat_map seg_cmds segs /\ Forall (seg_ok hit wrappers rules) segs /\
      forall i p c, nth_error paths i = Some (p, c) ->
        exists k, nth_error (strip_wrappers segs) i = Some k /\
                  c_cmd k = path_cmd p /\ c_level k = path_level p /\
                  (chain_det hit rules p c = true ->
                   (c_timeout k, c_questions k) = spec_params (spec_rule hit rules p c)).
  Proof.
    intro H. destruct (deploy_body_general hit wrappers rules paths cmds H) as [segs [E1 [E2 [_ [HF _]]]]].
    exists segs. split; [exact E1|]. split; [exact E2|].
    intros i p c Hi. destruct (forall2_nth _ _ _ i (p, c) HF Hi) as [k [Hk Hb]].
    exists k. split; [exact Hk|].
    destruct (body_only_shape hit wrappers rules (p, c) k Hb) as [H1 H2]. cbn [fst] in H1, H2.
    split; [exact H1|]. split; [exact H2|].
    intro Hdet. unfold body_only in Hb.
    destruct (body_cmd hit wrappers rules (p, c)) as [[k' w]|] eqn:E; [|discriminate]. injection Hb as ->.
    apply (cmd_params_spec hit wrappers rules p c k w Hdet E).
  Qed.

  (* the same path (with the same context) gets the same command in any two patches, at any
     positions: nothing is carried over from the commands seen before *)
  Theorem deploy_frame paths1 cmds1 paths2 cmds2 :
    deploy hit wrappers rules paths1 = Some cmds1 ->
    deploy hit wrappers rules paths2 = Some cmds2 ->
    exists segs1 segs2 : list seg,
      cmds1 = flat_map seg_cmds segs1 /\ Forall (seg_ok hit wrappers rules) segs1 /\
      cmds2 = flat_map seg_cmds segs2 /\ Forall (seg_ok hit wrappers rules) segs2 /\
      forall i j pc, nth_error paths1 i = Some pc -> nth_error paths2 j = Some pc ->
                     nth_error (strip_wrappers segs1) i = nth_error (strip_wrappers segs2) j /\
                     nth_error (strip_wrappers segs1) i <> None.
  Proof.
    intros H1 H2.
    destruct (deploy_body_general hit wrappers rules paths1 cmds1 H1) as [s1 [A1 [A2 [_ [A3 _]]]]].
    destruct (deploy_body_general hit wrappers rules paths2 cmds2 H2) as [s2 [B1 [B2 [_ [B3 _]]]]].
    exists s1, s2. repeat (split; [assumption|]).
    intros i j pc Hi Hj.
    destruct (forall2_nth _ _ _ i pc A3 Hi) as [k1 [Hk1 Hb1]].
    destruct (forall2_nth _ _ _ j pc B3 Hj) as [k2 [Hk2 Hb2]].
    rewrite Hk1, Hk2. split; [congruence|discriminate].
  Qed.
End Frame.

(* ------------------------------------------------------------------------------------ *)
(* one apply logic: the expected stream of c9_groups is the one of P_C09's single-wrapper clause *)

Lemma runs_by_single {A} (l : list (A * wrapper)) (w : wrapper) :
  l <> [] -> (forall x, In x l -> snd x = w) -> runs_by l = [(w, map fst l)].
Proof.
  induction l as [|[x w0] r IH]; intros Hne Hall; [contradiction|].
  assert (w0 = w) as -> by (apply (Hall (x, w0)); left; reflexivity).
  cbn [runs_by map fst]. destruct r as [|y r'].
  - reflexivity.
  - rewrite IH; [|discriminate|intros z Hz; apply Hall; right; exact Hz].
    assert (wrapper_eqb' w w = true) as -> by (apply wrapper_eqb'_eq; reflexivity). reflexivity.
Qed.

Theorem exp_stream_single (h : hitfn) (o : obs09) (r : run09) (w : wrapper) :
  single_wrapper h o = true -> r_common r = Some w -> o_paths0 o <> [] ->
  all_det h o = true /\
  exp_stream h o r =
  exp_wrap h o (fst w) ++ map (fun pc => expect h o (fst pc) (snd pc)) (o_paths0 o) ++ exp_wrap h o (snd w).
Proof.
  intros Hs Hc Hne. unfold single_wrapper in Hs. rewrite forallb_forall in Hs. split.
  - unfold all_det. apply forallb_forall. intros pc Hin. specialize (Hs pc Hin).
    apply andb_true_iff in Hs. tauto.
  - unfold exp_stream. rewrite (runs_by_single (exp_items h o r) w).
    + cbn [flat_map]. rewrite app_nil_r. unfold exp_group, exp_items. cbn [fst snd].
      rewrite map_map. cbn [fst]. reflexivity.
    + unfold exp_items. destruct (o_paths0 o); [contradiction|discriminate].
    + intros x Hx. unfold exp_items in Hx. apply in_map_iff in Hx as [pc [<- Hin]]. cbn [snd].
      specialize (Hs pc Hin). apply andb_true_iff in Hs as [Ha _]. apply Nat.eqb_eq in Ha.
      rewrite Ha. unfold obs_wrapper. rewrite Hc. reflexivity.
Qed.
