(* C06, ACL text front end, part 2: the tree of the inserted paths of a structured ACL is the
   grouping Model/Acl.v parse_items describes (lines with the same text under the same parent are one
   node, in order of first occurrence); the items of that tree; compile_items does not depend on
   surplus fuel. *)
From Coq Require Import List String Ascii Bool Arith Lia.
From Annet Require Import Base.Str Base.Tree Model.Offside.
From Annet Require Import Model.Pattern Model.PatternT Model.Acl Model.AclText Proofs.AclMono Proofs.AclTextParse.
Import ListNotations.
Open Scope string_scope.
Open Scope list_scope.
Arguments Nat.ltb : simpl never.
Arguments Nat.leb : simpl never.

(* ---------- insall of any list of paths, by first keys ---------- *)

Definition heads (ps : list (list string)) : list string :=
  flat_map (fun p => match p with [] => [] | k :: _ => [k] end) ps.
Definition tails (k : string) (ps : list (list string)) : list (list string) :=
  flat_map (fun p => match p with [] => [] | k' :: t => if String.eqb k' k then [t] else [] end) ps.

Lemma heads_app a b : heads (a ++ b) = heads a ++ heads b.
Proof. apply flat_map_app. Qed.
Lemma tails_app k a b : tails k (a ++ b) = tails k a ++ tails k b.
Proof. apply flat_map_app. Qed.

Lemma first_keys_snoc l : forall seen k,
  first_keys seen (l ++ [k]) =
  first_keys seen l ++ (if existsb (String.eqb k) seen || existsb (String.eqb k) l then [] else [k]).
Proof.
  induction l as [|x l IH]; intros seen k.
  - cbn. rewrite orb_false_r. destruct (existsb (String.eqb k) seen); reflexivity.
  - cbn [app first_keys existsb]. destruct (existsb (String.eqb x) seen) eqn:E.
    + rewrite IH. f_equal.
      destruct (String.eqb_spec k x) as [->|Hne]; [rewrite E; reflexivity|reflexivity].
    + cbn [app]. rewrite IH. cbn [existsb]. f_equal.
      destruct (String.eqb k x), (existsb (String.eqb k) seen), (existsb (String.eqb k) l); reflexivity.
Qed.

Lemma existsb_eqb_first_keys k l :
  existsb (String.eqb k) (first_keys [] l) = existsb (String.eqb k) l.
Proof.
  destruct (existsb (String.eqb k) l) eqn:E.
  - apply existsb_eqb_In. apply first_keys_in. split; [apply existsb_eqb_In; exact E|intros []].
  - destruct (existsb (String.eqb k) (first_keys [] l)) eqn:E2; [|reflexivity].
    apply existsb_eqb_In in E2. apply first_keys_in in E2 as [E2 _]. apply existsb_eqb_In in E2. congruence.
Qed.

(* inserting a path into a forest given key by key *)
Lemma ins_map_keys k t (X : string -> forest) : forall ks, NoDup ks ->
  ins (k :: t) (map (fun k' => (k', T (X k'))) ks) =
  if existsb (String.eqb k) ks
  then map (fun k' => (k', T (if String.eqb k' k then ins t (X k') else X k'))) ks
  else map (fun k' => (k', T (X k'))) ks ++ [(k, T (ins t []))].
Proof.
  induction ks as [|k0 ks IH]; intros ND; [reflexivity|].
  inversion ND as [|? ? Hn ND']; subst.
  cbn [map existsb]. cbn [ins]. destruct (String.eqb_spec k k0) as [->|Hne].
  - cbn [orb]. rewrite String.eqb_refl. cbn [kids]. f_equal.
    apply map_ext_in. intros k' Hk'. destruct (String.eqb_spec k' k0) as [->|]; [contradiction|reflexivity].
  - cbn [orb]. specialize (IH ND'). cbn [ins] in IH. rewrite IH.
    destruct (existsb (String.eqb k) ks).
    + cbn [map]. destruct (String.eqb_spec k0 k) as [->|]; [congruence|]. reflexivity.
    + reflexivity.
Qed.

Theorem insall_by_keys : forall ps,
  insall ps [] = map (fun k => (k, T (insall (tails k ps) []))) (first_keys [] (heads ps)).
Proof.
  apply rev_ind; [reflexivity|].
  intros p ps IH. rewrite insall_app. cbn [insall fold_left]. fold (insall ps []).
  destruct p as [|k t].
  - cbn [ins]. rewrite heads_app. cbn [heads flat_map]. rewrite app_nil_r. rewrite IH.
    apply map_ext. intros k. rewrite tails_app. cbn [tails flat_map]. rewrite app_nil_r. reflexivity.
  - rewrite IH. rewrite (ins_map_keys k t (fun k' => insall (tails k' ps) [])) by apply first_keys_nodup.
    rewrite heads_app. cbn [heads flat_map app]. rewrite first_keys_snoc. cbn [existsb orb].
    rewrite existsb_eqb_first_keys.
    destruct (existsb (String.eqb k) (heads ps)) eqn:E.
    + rewrite app_nil_r. apply map_ext. intros k'. rewrite tails_app. cbn [tails flat_map].
      destruct (String.eqb_spec k' k) as [->|Hne].
      * rewrite String.eqb_refl. cbn [app]. rewrite insall_app. reflexivity.
      * destruct (String.eqb_spec k k') as [->|_]; [congruence|]. cbn [app]. rewrite app_nil_r. reflexivity.
    + rewrite map_app. cbn [map]. f_equal.
      * apply map_ext_in. intros k' Hk'. rewrite tails_app. cbn [tails flat_map].
        destruct (String.eqb_spec k k') as [->|_].
        -- apply first_keys_in in Hk' as [Hk' _]. apply existsb_eqb_In in Hk'. congruence.
        -- cbn [app]. rewrite app_nil_r. reflexivity.
      * rewrite tails_app. cbn [tails flat_map]. rewrite String.eqb_refl. cbn [app].
        assert (Et : tails k ps = []).
        { clear -E. induction ps as [|q ps IHp]; [reflexivity|]. cbn [heads flat_map] in E.
          destruct q as [|k' q]; cbn [tails flat_map].
          - apply IHp. exact E.
          - cbn [app existsb] in E. apply orb_false_iff in E as [E1 E2].
            rewrite String.eqb_sym, E1. cbn [app]. apply IHp. exact E2. }
        rewrite Et. reflexivity.
Qed.

(* ---------- the paths of a structured ACL ---------- *)

Lemma ipaths_prefix q : forall x bp, ipaths (q ++ bp) x = map (app q) (ipaths bp x).
Proof.
  apply (aitem_ind2
    (fun x => forall bp, ipaths (q ++ bp) x = map (app q) (ipaths bp x))
    (fun a => forall bp, apaths (q ++ bp) a = map (app q) (apaths bp a))).
  - intros raw row ign glob cd prio gens kids IHk bp.
    rewrite !ipaths_unfold. cbn [ai_raw ai_kids map]. rewrite <- app_assoc. f_equal. apply IHk.
  - reflexivity.
  - intros x l IHx IHl bp. unfold apaths. cbn [flat_map]. rewrite map_app. f_equal; [apply IHx | apply IHl].
Qed.

Lemma apaths_prefix q a bp : apaths (q ++ bp) a = map (app q) (apaths bp a).
Proof.
  induction a as [|x a IH]; [reflexivity|]. unfold apaths. cbn [flat_map]. rewrite map_app. f_equal; [apply ipaths_prefix | apply IH].
Qed.

Lemma apaths_cons_prefix r a : apaths [r] a = map (cons r) (apaths [] a).
Proof. change [r] with ([r] ++ []). rewrite apaths_prefix. reflexivity. Qed.

Lemma apaths_app bp a b : apaths bp (a ++ b) = apaths bp a ++ apaths bp b.
Proof. apply flat_map_app. Qed.

Lemma tails_map_cons k r ps : tails k (map (cons r) ps) = if String.eqb r k then ps else [].
Proof.
  induction ps as [|p ps IH]; [destruct (String.eqb r k); reflexivity|].
  cbn [map tails flat_map]. fold (tails k (map (cons r) ps)). rewrite IH.
  destruct (String.eqb r k); reflexivity.
Qed.

Definition grp_raw (a : acl) (k : string) : acl := filter (fun i => String.eqb (ai_raw i) k) a.

Lemma tails_apaths k a :
  tails k (apaths [] a) = flat_map (fun i => [] :: apaths [] (ai_kids i)) (grp_raw a k).
Proof.
  induction a as [|x a IH]; [reflexivity|].
  unfold apaths. cbn [flat_map]. rewrite tails_app. fold (apaths [] a). rewrite IH.
  rewrite ipaths_unfold. cbn [app]. cbn [tails flat_map]. fold (tails k (apaths [ai_raw x] (ai_kids x))).
  rewrite apaths_cons_prefix, tails_map_cons. unfold grp_raw. cbn [filter].
  destruct (String.eqb (ai_raw x) k); reflexivity.
Qed.

Lemma insall_skip_nil {A} (f : A -> list (list string)) (l : list A) : forall acc,
  insall (flat_map (fun i => [] :: f i) l) acc = insall (flat_map f l) acc.
Proof.
  induction l as [|x l IH]; intros acc; [reflexivity|].
  cbn [flat_map app]. rewrite insall_cons. cbn [ins]. rewrite !insall_app. apply IH.
Qed.

Lemma apaths_flat_kids bp (g : acl) :
  flat_map (fun i => apaths bp (ai_kids i)) g = apaths bp (flat_map ai_kids g).
Proof.
  induction g as [|x g IH]; [reflexivity|]. cbn [flat_map]. rewrite apaths_app, IH. reflexivity.
Qed.

Lemma first_keys_seen_skip d : forall seen l,
  Forall (fun x => existsb (String.eqb x) seen = true) d -> first_keys seen (d ++ l) = first_keys seen l.
Proof.
  induction d as [|x d IH]; intros seen l F; [reflexivity|].
  inversion F as [|? ? Hx Hd]; subst. cbn [app first_keys]. rewrite Hx. apply IH. exact Hd.
Qed.

Lemma heads_map_cons r ps : heads (map (cons r) ps) = map (fun _ => r) ps.
Proof. induction ps as [|p ps IH]; [reflexivity|]. cbn [map heads flat_map app]. fold (heads (map (cons r) ps)). rewrite IH. reflexivity. Qed.

Lemma first_keys_heads_apaths a : forall seen,
  first_keys seen (heads (apaths [] a)) = first_keys seen (map ai_raw a).
Proof.
  induction a as [|x a IH]; intros seen; [reflexivity|].
  unfold apaths. cbn [flat_map]. fold (apaths [] a). rewrite heads_app, ipaths_unfold.
  cbn [app heads flat_map]. fold (heads (apaths [ai_raw x] (ai_kids x))).
  rewrite apaths_cons_prefix, heads_map_cons. cbn [map first_keys].
  assert (D : forall s, existsb (String.eqb (ai_raw x)) s = true ->
            first_keys s (map (fun _ => ai_raw x) (apaths [] (ai_kids x)) ++ heads (apaths [] a)) =
            first_keys s (heads (apaths [] a))).
  { intros s Hs. apply first_keys_seen_skip. apply Forall_forall. intros y Hy.
    apply in_map_iff in Hy as (? & <- & _). exact Hs. }
  destruct (existsb (String.eqb (ai_raw x)) seen) eqn:E.
  - rewrite (D seen E). apply IH.
  - f_equal. rewrite D by (cbn [existsb]; rewrite String.eqb_refl; reflexivity). apply IH.
Qed.

(* the tree of a structured ACL's lines, one level at a time *)
Definition aforest (a : acl) : forest := insall (apaths [] a) [].

Theorem aforest_unfold a :
  aforest a = map (fun k => (k, T (aforest (flat_map ai_kids (grp_raw a k))))) (first_keys [] (map ai_raw a)).
Proof.
  unfold aforest. rewrite insall_by_keys, first_keys_heads_apaths.
  apply map_ext. intros k. rewrite tails_apaths, insall_skip_nil, apaths_flat_kids. reflexivity.
Qed.

(* ---------- the items of that tree ---------- *)

Lemma items_of_forest_cons raw c l :
  items_of_forest ((raw, c) :: l) =
  match parse_line raw with
  | LErr e => inl e
  | LSkip => items_of_forest l
  | LItem row ign glob cd prio gens =>
    match items_of_forest (kids c) with
    | inl e => inl e
    | inr ks => match items_of_forest l with
                | inl e => inl e
                | inr r => inr (AItem raw row ign glob cd prio gens ks :: r)
                end
    end
  end.
Proof. destruct c as [k]. reflexivity. Qed.

Lemma grp_raw_in a k x : In x (grp_raw a k) <-> In x a /\ ai_raw x = k.
Proof. unfold grp_raw. rewrite filter_In, String.eqb_eq. reflexivity. Qed.

Lemma acl_ok_kids_group a k : acl_ok a -> acl_ok (flat_map ai_kids (grp_raw a k)).
Proof.
  intros H c Hc. apply in_flat_map in Hc as (x & Hx & Hc). apply grp_raw_in in Hx as [Hx _].
  specialize (H x Hx). apply item_ok_unfold in H as (_ & _ & Hk). apply Hk. exact Hc.
Qed.

Theorem items_of_aforest : forall f a,
  acl_ok a -> acl_depth a <= f -> items_of_forest (aforest a) = inr (parse_items f a).
Proof.
  induction f as [|f IH]; intros a Hok Hd.
  - apply acl_depth_0 in Hd. subst a. reflexivity.
  - rewrite aforest_unfold. cbn [parse_items]. fold (grp_raw a).
    assert (Hks : forall k, In k (first_keys [] (map ai_raw a)) -> exists x, In x a /\ ai_raw x = k).
    { intros k Hk. apply first_keys_in in Hk as [Hk _]. apply in_map_iff in Hk as (x & E & Hx). exists x. auto. }
    set (mk := fun k : string =>
                 match filter (fun i : aitem => String.eqb (ai_raw i) k) a with
                 | [] => []
                 | (i0 :: _) as grp =>
                   [AItem k (ai_row i0) (ai_ign i0) (ai_glob i0) (ai_cdo i0) (ai_prio i0) (ai_gens i0)
                          (parse_items f (flat_map ai_kids grp))]
                 end).
    induction (first_keys [] (map ai_raw a)) as [|k ks IHks]; [reflexivity|].
    cbn [map]. change (flat_map mk (k :: ks)) with (mk k ++ flat_map mk ks).
    rewrite items_of_forest_cons. cbn [kids].
    destruct (Hks k (or_introl eq_refl)) as (x & Hx & Ex).
    unfold mk at 1. change (filter (fun i => String.eqb (ai_raw i) k) a) with (grp_raw a k).
    destruct (grp_raw a k) as [|i0 g] eqn:Eg.
    { exfalso. assert (Hin : In x (grp_raw a k)) by (apply grp_raw_in; auto). rewrite Eg in Hin. destruct Hin. }
    assert (Hi0 : In i0 a /\ ai_raw i0 = k) by (apply grp_raw_in; rewrite Eg; now left).
    destruct Hi0 as [Hi0 E0]. pose proof (Hok i0 Hi0) as Hok0. apply item_ok_unfold in Hok0 as (_ & Hp & _).
    rewrite E0 in Hp. rewrite Hp. rewrite <- Eg.
    rewrite (IH (flat_map ai_kids (grp_raw a k))).
    + rewrite IHks by (intros k' Hk'; apply Hks; now right). reflexivity.
    + apply acl_ok_kids_group. exact Hok.
    + apply acl_depth_kids_group. exact Hd.
Qed.

(* ---------- fuel ---------- *)

Lemma parse_items_nil f : parse_items f [] = [].
Proof. destruct f; reflexivity. Qed.

Lemma parse_items_depth : forall f a n, acl_depth a <= n -> acl_depth (parse_items f a) <= n.
Proof.
  induction f as [|f IH]; intros a n Hd; [cbn; lia|].
  destruct n as [|n]; [apply acl_depth_0 in Hd; subst a; cbn; lia|].
  cbn [parse_items]. apply acl_depth_le. intros y Hy. apply in_flat_map in Hy as (k & _ & Hy).
  change (filter (fun i => String.eqb (ai_raw i) k) a) with (grp_raw a k) in Hy.
  destruct (grp_raw a k) as [|i0 g] eqn:Eg; [destruct Hy|]. destruct Hy as [<-|[]].
  rewrite ai_depth_unfold. rewrite <- Eg. apply le_n_S. apply IH. apply acl_depth_kids_group. exact Hd.
Qed.

Lemma fold_left_ext {A B} (g g' : A -> B -> A) l : (forall a b, g a b = g' a b) -> forall a, fold_left g l a = fold_left g' l a.
Proof. intros H. induction l as [|x l IH]; intros a; [reflexivity|]. cbn. rewrite H. apply IH. Qed.

Lemma compile_items_nil f : compile_items f [] = Some ([], []).
Proof. destruct f; reflexivity. Qed.

Lemma compile_items_fuel : forall f f' x,
  acl_depth x <= f -> acl_depth x <= f' -> compile_items f x = compile_items f' x.
Proof.
  induction f as [|f IH]; intros f' x H1 H2.
  - apply acl_depth_0 in H1. subst x. rewrite !compile_items_nil. reflexivity.
  - destruct f' as [|f'].
    + apply acl_depth_0 in H2. subst x. rewrite !compile_items_nil. reflexivity.
    + rewrite !compile_items_S. apply fold_left_ext. intros acc k. unfold cstep.
      destruct acc as [[loc glo]|]; [|reflexivity].
      rewrite (IH f' (flat_map ai_kids (cgrp x k))); [reflexivity| |]; apply acl_depth_kids_group; assumption.
Qed.
