(* C08, "rows no rule mentions keep their relative order": the sentence is refuted
   (C08_unmentioned_stable_refuted); this file proves what order_config does instead, for
   all inputs: the unmentioned rows of the result are the unmentioned rows that start with
   the negation word, in input order, followed by the other unmentioned rows, in input
   order.  The guarded theorem C08_unmentioned_stable is the special case "no unmentioned
   negated row". *)
From Coq Require Import List String Ascii Bool Arith ZArith Lia Permutation Sorted.
From Annet Require Import Base.Str Base.Tree Model.Pattern Model.Rulebook Model.Diff Model.Order Model.Patch
     Model.Blocks Model.Pipeline Spec.PipelineCase Proofs.SortProofs Spec.P_C08 Spec.P_C08meta Proofs.OrderProofs.
Import ListNotations.
Open Scope list_scope.

Definition kitem := ((znum * bool) * (string * tree))%type.

Lemma insert_pass (a : kitem) : forall F Tr,
  Forall (fun y => kleb a y = false) F -> insert_by kleb a (F ++ Tr) = F ++ insert_by kleb a Tr.
Proof.
  induction F as [|y F IH]; intros Tr H; [reflexivity|].
  inversion H as [|y' F' Hy HF]; subst. cbn [app insert_by]. rewrite Hy. f_equal. apply IH. exact HF.
Qed.

Lemma sort_two_class (l : list kitem) :
  Forall (fun e => fst (fst e) = ZFin 0) l ->
  stable_sort kleb l = filter (fun e => negb (snd (fst e))) l ++ filter (fun e => snd (fst e)) l.
Proof.
  induction 1 as [|a l Ha Hl IH]; [reflexivity|].
  rewrite stable_sort_cons, IH. clear IH.
  destruct a as [[n b] x]. cbn in Ha. subst n. cbn [filter fst snd].
  assert (Key : forall e, In e l -> fst (fst e) = ZFin 0) by (apply Forall_forall; exact Hl).
  destruct b; cbn [negb].
  - rewrite insert_pass.
    + f_equal. apply insert_le_all. apply Forall_forall. intros y Hy. apply filter_In in Hy as [Hy Dy].
      unfold kleb, cfg_key_leb. cbn [fst snd]. rewrite (Key y Hy). cbn. rewrite Dy. reflexivity.
    + apply Forall_forall. intros y Hy. apply filter_In in Hy as [Hy Dy]. apply negb_true_iff in Dy.
      unfold kleb, cfg_key_leb. cbn [fst snd]. rewrite (Key y Hy). cbn. rewrite Dy. reflexivity.
  - cbn [app]. apply insert_le_all. apply Forall_forall. intros y Hy.
    unfold kleb, cfg_key_leb. cbn [fst snd].
    apply in_app_or in Hy. destruct Hy as [Hy|Hy]; apply filter_In in Hy as [Hy _];
      rewrite (Key y Hy); reflexivity.
Qed.

Lemma filter_filter_and {A} (p q : A -> bool) (l : list A) :
  filter p (filter q l) = filter (fun x => q x && p x) l.
Proof.
  induction l as [|x l IH]; cbn [filter]; [reflexivity|].
  destruct (q x); cbn [filter andb]; [destruct (p x)|]; rewrite IH; reflexivity.
Qed.

Section Exact.
  Variable rmatch : string -> string -> option (list string).
  Variable rsrc rrev : string -> string.
  Variable block_exit : string.
  Variable reverse_prefix : string.

  Notation oc := (order_config rmatch rsrc rrev block_exit reverse_prefix).
  Notation mentioned_g := (mentioned_g rmatch rrev block_exit).
  Notation row_direct := (row_direct reverse_prefix).
  Notation oc_item := (oc_item rmatch rsrc rrev block_exit reverse_prefix).

  Theorem oc_unmentioned_exact ordering f :
    let un := fun rc : string * tree => negb (mentioned_g ordering (fst rc)) in
    map fst (filter un (oc ordering f)) =
    map fst (filter (fun rc => un rc && negb (row_direct (fst rc))) f) ++
    map fst (filter (fun rc => un rc && row_direct (fst rc)) f).
  Proof.
    intros un.
    change un with (fun rc : string * tree => (fun row => negb (mentioned_g ordering row)) (fst rc)).
    rewrite <- oc_filter_commute. rewrite oc_unfold.
    set (g := filter (fun rc : string * tree => negb (mentioned_g ordering (fst rc))) f).
    assert (Hg : forall rc, In rc g -> fst (oc_item ordering rc) = (ZFin 0, row_direct (fst rc))).
    { intros rc Hin. apply filter_In in Hin as [_ U]. apply negb_true_iff in U.
      unfold OrderProofs.oc_item. cbn [fst]. apply unmentioned_key. exact U. }
    rewrite sort_two_class.
    2:{ apply Forall_forall. intros e He. apply in_map_iff in He as (rc & E & Hin). subst e.
        rewrite (Hg rc Hin). reflexivity. }
    rewrite map_app, !map_app. f_equal.
    - rewrite filter_map_swap.
      rewrite !map_map. unfold g. rewrite filter_filter_and. 
      rewrite (filter_ext_in _ (fun rc => negb (mentioned_g ordering (fst rc)) && negb (row_direct (fst rc)))).
      + reflexivity.
      + intros rc Hin. destruct (negb (mentioned_g ordering (fst rc))) eqn:U; [|reflexivity].
        cbn [andb].
        assert (Hin' : In rc g) by (apply filter_In; split; assumption).
        rewrite (Hg rc Hin'). reflexivity.
    - rewrite filter_map_swap.
      rewrite !map_map. unfold g. rewrite filter_filter_and.
      rewrite (filter_ext_in _ (fun rc => negb (mentioned_g ordering (fst rc)) && row_direct (fst rc))).
      + reflexivity.
      + intros rc Hin. destruct (negb (mentioned_g ordering (fst rc))) eqn:U; [|reflexivity].
        cbn [andb].
        assert (Hin' : In rc g) by (apply filter_In; split; assumption).
        rewrite (Hg rc Hin'). reflexivity.
  Qed.
End Exact.

(* the pipeline instance, as the clause evaluated on real outputs *)
Theorem p_unmentioned_exact v ordering f :
  unmentioned_exact v ordering f (p_order_config v ordering f) = true.
Proof.
  unfold unmentioned_exact. apply list_str_eqb_eq.
  pose proof (oc_unmentioned_exact pm psrc (prev v) (v_exit v) (v_reverse v) ordering f) as E.
  cbv zeta in E. unfold p_order_config.
  etransitivity; [exact E|]. f_equal.
  f_equal. apply filter_ext. intros rc. unfold row_direct. rewrite negb_involutive. reflexivity.
Qed.
