(* C06 (filter_diff): apply_acl_diff keeps exactly the diff entries whose whole path is matched
   by the ACL, and turns a removal into "affected" iff the governing rule has all cant_delete. *)
From Coq Require Import List String Ascii Bool Arith Lia.
From Annet Require Import Base.Str Base.Tree Model.Pattern Model.Order Model.Acl Model.AclDiff Spec.P_C06_diff.
Import ListNotations.
Open Scope string_scope.
Open Scope list_scope.



Section DTreeInd.
  Variable P : dtree -> Prop.
  Variable Q : list dtree -> Prop.
  Hypothesis HD : forall op row kids, Q kids -> P (DT op row kids).
  Hypothesis Hnil : Q [].
  Hypothesis Hcons : forall t l, P t -> Q l -> Q (t :: l).
  Fixpoint dtree_ind2 (t : dtree) : P t :=
    match t with
    | DT op row kids =>
      HD op row kids ((fix go (l : list dtree) : Q l :=
                         match l with [] => Hnil | x :: r => Hcons x r (dtree_ind2 x) (go r) end) kids)
    end.
End DTreeInd.

Lemma dtree_ind_forall (P : dtree -> Prop) :
  (forall op row kids, Forall P kids -> P (DT op row kids)) -> forall t, P t.
Proof.
  intros H. apply (dtree_ind2 P (Forall P)); [exact H | constructor | intros; constructor; assumption].
Qed.

Lemma prune_d_unfold mt cd op row kids :
  prune_d mt cd (DT op row kids) =
  if mt [row]
  then [DT (match op with OpRemoved => if cd [row] then OpAffected else OpRemoved | o => o end) row
           (flat_map (prune_d (fun p => mt (row :: p)) (fun p => cd (row :: p))) kids)]
  else [].
Proof.
  cbn [prune_d]. destruct (mt [row]); reflexivity.
Qed.

Lemma prune_d_ext : forall t mt1 cd1 mt2 cd2,
  (forall p, p <> [] -> mt1 p = mt2 p) -> (forall p, p <> [] -> cd1 p = cd2 p) ->
  prune_d mt1 cd1 t = prune_d mt2 cd2 t.
Proof.
  apply (dtree_ind_forall (fun t => forall mt1 cd1 mt2 cd2,
          (forall p, p <> [] -> mt1 p = mt2 p) -> (forall p, p <> [] -> cd1 p = cd2 p) ->
          prune_d mt1 cd1 t = prune_d mt2 cd2 t)).
  intros op row kids IH mt1 cd1 mt2 cd2 Hm Hc. rewrite !prune_d_unfold.
  rewrite (Hm [row]), (Hc [row]) by discriminate.
  destruct (mt2 [row]); [|reflexivity]. f_equal. f_equal.
  rewrite Forall_forall in IH. induction kids as [|k l IHl]; [reflexivity|].
  cbn [flat_map].
  rewrite (IH k (or_introl eq_refl) _ _ (fun p => mt2 (row :: p)) (fun p => cd2 (row :: p))
              (fun p _ => Hm (row :: p) ltac:(discriminate)) (fun p _ => Hc (row :: p) ltac:(discriminate))).
  rewrite IHl; [reflexivity|]. intros x Hx. apply IH. now right.
Qed.

Section DiffProofs.
  Variable rmatch : string -> string -> option (list string).
  Variable rsrc : string -> string.
  Variable rrev : string -> string.
  Variable norm : string -> string.
  Notation mrow := (match_row_to_acl rmatch rsrc rrev norm).
  Notation applyd := (apply_acl_diff_t rmatch rsrc rrev norm).

  Lemma applyd_unfold rs op row kids :
    applyd rs (DT op row kids) =
    match mrow row rs false with
    | MSome m crs =>
      [DT (match op with
           | OpRemoved => if forallb (fun b => b) (ar_cd (am_rule m)) then OpAffected else OpRemoved
           | o => o
           end) row (flat_map (applyd crs) kids)]
    | _ => []
    end.
  Proof.
    cbn [apply_acl_diff_t]. destruct (mrow row rs false) as [| |m crs]; reflexivity.
  Qed.

  Theorem apply_acl_diff_exact : forall t rs,
    applyd rs t = prune_d (acl_matches_path rmatch rsrc rrev norm rs) (acl_cant_delete_at rmatch rsrc rrev norm rs) t.
  Proof.
    apply (dtree_ind_forall (fun t => forall rs, applyd rs t =
             prune_d (acl_matches_path rmatch rsrc rrev norm rs) (acl_cant_delete_at rmatch rsrc rrev norm rs) t)).
    intros op row kids IH rs. rewrite applyd_unfold, prune_d_unfold. cbn [acl_matches_path acl_cant_delete_at].
    destruct (mrow row rs false) as [| |m crs] eqn:E; try reflexivity.
    f_equal. f_equal. rewrite Forall_forall in IH.
    induction kids as [|k l IHl]; [reflexivity|]. cbn [flat_map].
    rewrite (IH k (or_introl eq_refl) crs).
    rewrite IHl by (intros x Hx; apply IH; now right). f_equal.
    apply prune_d_ext; intros p Hp; [reflexivity|]. destruct p; [congruence | reflexivity].
  Qed.

  Corollary apply_acl_diff_is_ref rs d :
    apply_acl_diff rmatch rsrc rrev norm rs d = ref_filter_diff rmatch rsrc rrev norm rs d.
  Proof.
    unfold apply_acl_diff, ref_filter_diff. induction d as [|t d IH]; [reflexivity|].
    cbn [flat_map]. rewrite apply_acl_diff_exact, IH. reflexivity.
  Qed.
End DiffProofs.
