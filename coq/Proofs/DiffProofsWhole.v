(* C03 proof library, part 7: a %rewrite block that appears in the diff appears as re-entered as a
   whole — no entry at or below a row of a %rewrite rule is AFFECTED or UNCHANGED. *)
From Coq Require Import List String Bool Arith Lia Permutation.
From Annet Require Import Base.Str Base.Tree Model.Rulebook Model.Diff Spec.P_C03 Proofs.DiffBasics
  Proofs.DiffProofsLib Proofs.DiffProofsAnnot Proofs.DiffProofsLossless Proofs.DiffProofsOrder
  Proofs.DiffProofsMoved.
Import ListNotations.
Open Scope list_scope.

Lemma rewrite_whole_n_eq ao an o row mi kids :
  rewrite_whole_n ao an (DN o row mi kids) =
  match dl_row ao an row with
  | Some DRewrite => negb (op_eqb o Affected) && negb (op_eqb o Unchanged) && forallb whole_n kids
  | _ => forallb (rewrite_whole_n (asub_of ao row) (asub_of an row)) kids
  end.
Proof. reflexivity. Qed.

Lemma whole_n_eq o row mi kids :
  whole_n (DN o row mi kids) = negb (op_eqb o Affected) && negb (op_eqb o Unchanged) && forallb whole_n kids.
Proof. reflexivity. Qed.

(* removed subtrees *)
Lemma removed_whole : forall t d, In d (removed_t t) -> whole_n d = true.
Proof.
  induction t as [nk IH] using atree_ind2. intros d Hd.
  apply removed_t_In in Hd as (k & Hk & E). subst d. cbn [akids] in Hk.
  unfold mkrem. rewrite whole_n_eq. cbn [op_eqb negb andb].
  apply forallb_forall. intros x Hx. rewrite Forall_forall in IH. eapply IH; eassumption.
Qed.

Lemma removed_rewrite_whole : forall t, awf (akids t) ->
  forall d, In d (removed_t t) -> rewrite_whole_n (akids t) [] d = true.
Proof.
  induction t as [nk IH] using atree_ind2. cbn [akids]. intros Hwf d Hd.
  apply removed_t_In in Hd as (k & Hk & E). subst d. cbn [akids] in Hk.
  destruct k as [[r m] c]. unfold mkrem, arow, ami, asub. cbn [fst snd].
  rewrite rewrite_whole_n_eq. unfold dl_row, dl_in, asub_of.
  rewrite (alookup_In nk r m c (awf_NoDup _ Hwf) Hk). cbn [alookup].
  destruct (mi_dlogic m).
  - apply forallb_forall. intros x Hx. rewrite Forall_forall in IH.
    apply (IH _ Hk); [eapply awf_In; [exact Hwf | exact Hk] | exact Hx].
  - apply forallb_forall. intros x Hx. rewrite Forall_forall in IH.
    apply (IH _ Hk); [eapply awf_In; [exact Hwf | exact Hk] | exact Hx].
  - cbn [op_eqb negb andb]. apply forallb_forall. intros x Hx. eapply removed_whole. exact Hx.
Qed.

(* mark_unchanged *)
Lemma whole_mark_id : forall d, whole_n d = true -> mark_unchanged_n d = d.
Proof.
  intros [o r m k] H. rewrite whole_n_eq in H. cbn [mark_unchanged_n].
  destruct o; cbn [op_eqb negb andb] in *; try reflexivity. discriminate.
Qed.

Lemma rewrite_whole_mark : forall d ao an,
  rewrite_whole_n ao an d = true -> rewrite_whole_n ao an (mark_unchanged_n d) = true.
Proof.
  induction d as [o row m kids IH] using dnode_ind2. intros ao an H. cbn [mark_unchanged_n].
  destruct (op_eqb o Affected) eqn:Eo; [|exact H]. apply op_eqb_eq in Eo. subst o.
  rewrite rewrite_whole_n_eq in *.
  assert (HK : forallb (rewrite_whole_n (asub_of ao row) (asub_of an row)) kids = true ->
               forallb (rewrite_whole_n (asub_of ao row) (asub_of an row)) (map mark_unchanged_n kids) = true).
  { intros H2. apply forallb_forall. intros x Hx. apply in_map_iff in Hx as (y & Ey & Hy). subst x.
    rewrite Forall_forall in IH. rewrite forallb_forall in H2. apply IH; [exact Hy | apply H2; exact Hy]. }
  destruct (dl_row ao an row) as [[| |]|]; try (apply HK; exact H).
  cbn [op_eqb negb andb] in H. discriminate.
Qed.

(* ---------- one level ---------- *)
Definition RW (t : atree) : Prop :=
  forall ao pop, awf ao -> awf (akids t) -> compat ao (akids t) -> pop_ok pop ao ->
    forall d, In d (diff_t t ao pop false) -> rewrite_whole_n ao (akids t) d = true.

Section WholeLevel.
  Variables (ao nk : aforest) (pop : op).
  Hypothesis Hwo : awf ao.
  Hypothesis Hwn : awf nk.
  Hypothesis Hc : compat ao nk.
  Hypothesis Hpop : pop_ok pop ao.
  Hypothesis IH : Forall (fun k => RW (asub k)) nk.

  Let IHL : Forall (fun k => LL (asub k)) nk.
  Proof. apply Forall_forall. intros k _. apply diff_t_lossless. Qed.

  Lemma dl_row_of r : In r (arows ao) \/ In r (arows nk) -> dl_row ao nk r = Some (dl_of ao nk r).
  Proof.
    intros H. unfold dl_row, dl_in, dl_of.
    destruct (alookup r ao) as [[mo so]|] eqn:Eo; [reflexivity|].
    destruct (alookup r nk) as [[mn sn]|] eqn:En; [reflexivity|].
    apply alookup_None in Eo. apply alookup_None in En. tauto.
  Qed.

  Lemma entry_whole L mta y : L <> DRewrite ->
    In y (base_diff (filter (inL L) ao) pop false mta (cks (filter (inL L) nk))) ->
    rewrite_whole_n ao nk y = true.
  Proof.
    intros HLr Hy. apply base_diff_In in Hy as [(k & Hk & Hrel)|(k & Hk & Hn & E)].
    - pose proof Hk as HkL. apply filter_In in Hk as [Hk HL]. destruct k as [[r m] c].
      unfold inL, ami in HL. cbn [fst snd] in HL. apply dlogic_eqb_eq in HL.
      assert (Eln : alookup r nk = Some (m, c)) by (apply alookup_In; [apply awf_NoDup; exact Hwn | exact Hk]).
      assert (Hwc : awf (akids c)) by (eapply awf_In; [exact Hwn | exact Hk]).
      rewrite Forall_forall in IH. pose proof (IH _ Hk) as IHk. unfold asub in IHk. cbn [snd] in IHk.
      assert (Hdl : dl_row ao nk r = Some L).
      { rewrite dl_row_of by (right; eapply In_arows; exact Hk).
        rewrite (dl_of_new ao nk Hwn Hc L r) by (apply (In_arows r m c); exact HkL). reflexivity. }
      unfold scan_rel, arow, ami, asub in Hrel. cbn [fst snd] in Hrel.
      rewrite (old_group_lookup ao nk Hwo Hc L r m c Hk HL) in Hrel.
      assert (Hsub : forall o oldk, y = DN o r m (diff_t c oldk o false) -> asub_of ao r = oldk ->
                awf oldk -> compat oldk (akids c) -> pop_ok o oldk -> rewrite_whole_n ao nk y = true).
      { intros o oldk Ey Eo Hwk Hck Hpk. subst y. rewrite rewrite_whole_n_eq, Hdl.
        assert (Hs : forallb (rewrite_whole_n (asub_of ao r) (asub_of nk r)) (diff_t c oldk o false) = true).
        { apply forallb_forall. intros x Hx. rewrite Eo. unfold asub_of. rewrite Eln.
          apply (IHk oldk o); assumption. }
        destruct L; [exact Hs | exact Hs | congruence]. }
      destruct (alookup r ao) as [[mo so]|] eqn:Elo.
      + destruct Hrel as (o & Ho & Ed).
        destruct (compat_In ao nk Hc r m c mo so Hk Elo) as [Em Hcs]. subst mo.
        assert (Ho' : o = Affected \/ o = Moved).
        { destruct Ho as [Ho|Ho]; [|auto]. subst o.
          destruct Hpop as [Hp|[Hp|Hp]]; [auto | auto | rewrite Hp in Elo; discriminate]. }
        apply (Hsub o (akids so) Ed).
        * unfold asub_of. rewrite Elo. reflexivity.
        * eapply awf_In; [exact Hwo | apply alookup_Some_In; exact Elo].
        * exact Hcs.
        * destruct Ho' as [E|E]; subst o; [left | right; left]; reflexivity.
      + apply (Hsub Added [] Hrel).
        * unfold asub_of. rewrite Elo. reflexivity.
        * constructor.
        * apply compat_nil_l.
        * right; right; reflexivity.
    - pose proof Hk as HkL. apply filter_In in Hk as [Hk HL]. destruct k as [[r m] c]. subst y.
      unfold inL, ami in HL. cbn [fst snd] in HL. apply dlogic_eqb_eq in HL.
      unfold arow in Hn. cbn [fst] in Hn.
      unfold mkrem, arow, ami, asub. cbn [fst snd]. rewrite rewrite_whole_n_eq.
      rewrite dl_row_of by (left; eapply In_arows; exact Hk).
      rewrite (dl_of_old ao nk Hwo L r) by (apply (In_arows r m c); exact HkL).
      assert (Hsub : forallb (rewrite_whole_n (asub_of ao r) (asub_of nk r)) (removed_t c) = true).
      { apply forallb_forall. intros x Hx. unfold asub_of.
        rewrite (alookup_In ao r m c (awf_NoDup _ Hwo) Hk).
        rewrite (new_group_absent ao nk Hwo Hc L r m c Hk HL Hn).
        apply removed_rewrite_whole; [eapply awf_In; [exact Hwo | exact Hk] | exact Hx]. }
      destruct L; [exact Hsub | exact Hsub | congruence].
  Qed.

  Lemma level_whole d : In d (diff_level ao (cks nk) pop false) -> rewrite_whole_n ao nk d = true.
  Proof.
    intros Hd. rewrite diff_level_unfold in Hd. apply in_flat_map in Hd as (L & _ & Hd).
    destruct (run_group_ok ao nk pop Hwo Hwn Hc Hpop IHL L false) as (_ & _ & G3 & _).
    pose proof (G3 d Hd) as Hrow.
    destruct L; cbn [run_dlogic] in Hd.
    - eapply entry_whole; [|exact Hd]. discriminate.
    - eapply entry_whole; [|exact Hd]. discriminate.
    - destruct (all_affected _) eqn:Eall; [destruct Hd|].
      unfold aff_to_moved in Hd. apply in_map_iff in Hd as (y & Ey & Hy). subst d.
      assert (Hnu : no_unchanged_n y = true).
      { destruct (op_eqb pop Unchanged) eqn:Eu.
        - apply op_eqb_eq in Eu.
          destruct Hpop as [E|[E|E]]; [congruence | congruence |].
          apply base_diff_In in Hy as [(k & Hk & Hrel)|(k & Hk & Hn & E')].
          + unfold scan_rel in Hrel. rewrite E in Hrel. cbn [filter alookup] in Hrel. subst y.
            cbn [no_unchanged_n op_eqb negb andb].
            apply forallb_forall. intros x Hx. eapply (diff_t_nu (asub k)); [|exact Hx]. discriminate.
          + rewrite E in Hk. destruct Hk.
        - eapply base_nu; [| |exact Hy]; [apply Forall_forall; intros k _; apply diff_t_nu|].
          intro E. rewrite E in Eu. discriminate. }
      pose proof (aff_to_moved_no_aff y Hnu) as Hw.
      destruct (aff_to_moved_n y) as [o r m kk] eqn:Ea. rewrite rewrite_whole_n_eq.
      cbn [d_row] in Hrow.
      rewrite dl_row_of.
      + assert (E : dl_of ao nk r = DRewrite).
        { destruct Hrow as [H|H]; [apply (dl_of_old ao nk Hwo DRewrite r H) | apply (dl_of_new ao nk Hwn Hc DRewrite r H)]. }
        rewrite E. rewrite whole_n_eq in Hw. exact Hw.
      + destruct Hrow as [H|H]; [left | right]; eapply arows_filter_incl; exact H.
  Qed.
End WholeLevel.

Theorem diff_t_whole : forall t, RW t.
Proof.
  induction t as [nk IH] using atree_ind2. unfold RW. cbn [akids].
  intros ao pop Hwo Hwn Hc Hpop d Hd. rewrite diff_t_unfold in Hd.
  eapply level_whole; eassumption.
Qed.

Section TopWhole.
  Variable rmatch : string -> string -> option (list string).
  Theorem diff_rewrite_whole_lib : forall rs old new, wf old -> wf new ->
    rewrite_whole (annot_f rmatch rs old) (annot_f rmatch rs new) (make_diff rmatch rs old new) = true.
  Proof.
    intros rs old new Ho Hn. unfold make_diff, raw_diff, rewrite_whole, mark_unchanged.
    apply forallb_forall. intros x Hx. apply in_map_iff in Hx as (y & Ey & Hy). subst x.
    apply rewrite_whole_mark.
    change (annot_f rmatch rs new) with (akids (annot rmatch rs (T new))).
    eapply diff_t_whole; [| | | |exact Hy].
    - apply annot_awf. exact Ho.
    - apply (annot_awf rmatch new rs Hn).
    - apply (annot_compat rmatch new rs old).
    - left. reflexivity.
  Qed.
End TopWhole.
