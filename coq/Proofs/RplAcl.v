(* C14_acl_covered — every line a shipped routing-policy generator emits is covered by that
   generator's own ACL.

   The ACLs are the ones the Python classes declare (coq/Gen/Src_rpl.v, written by
   harness/translators/tr_rpl.py from the `acl_huawei` / `acl_arista` methods, fail closed); the
   generators are the hand model Model/Rpl.v; "covered" is Model/Acl.v's [p_acl_covers_path] on the
   compiled ACL: the row, with the rows of the blocks it sits in, is matched and passed by apply_acl.
   The text of a row is its tokens joined by one blank (as Spec/P_C14.v's mrow_to_irow).

   Architecture: a word-level, sort-free cover function [wcover] (exactly one candidate rule must
   match at every level) is proved once to imply [p_acl_covers_path]; every generator theorem then
   exposes the literal head words of the row text and finishes by computation. *)
From Coq Require Import List String Ascii Bool Arith Lia.
From Annet Require Import Base.Str Model.Pattern Model.Order Model.Acl Proofs.PatternProofs
     Model.Rpl Gen.Src_rpl Spec.P_C14a.
Import ListNotations.
Open Scope string_scope.
Open Scope list_scope.

(* ------------------------------------------------------------------------------ *)
(* Statement                                                                       *)

(* row_text, mrow_covered, av_huawei, av_arista: Spec/P_C14a.v (definitions only, so that the predicate
   stays executable on real outputs when a proof below no longer checks) *)

(* ------------------------------------------------------------------------------ *)
(* Words of a row text                                                             *)

(* a token that is exactly one word: not empty, no whitespace character.
   (Model.Pattern.word_ok is the stricter "printable" notion; this one is all that
   words w = [w] needs.) *)
Definition is_word (w : string) : bool :=
  negb (is_empty w) && forallb (fun c => negb (is_ws c)) (l_of w).

Lemma is_word_spec w : is_word w = true -> no_ws w /\ is_empty w = false.
Proof.
  unfold is_word, no_ws. intro H. apply andb_true_iff in H as [H1 H2].
  apply negb_true_iff in H1. split; assumption.
Qed.

Lemma words_head1 w rest : is_word w = true ->
  words (row_text (w :: rest)) = w :: words (row_text rest).
Proof.
  intro H. apply is_word_spec in H as [Hw Hne]. unfold row_text.
  destruct rest as [|x rest].
  - cbn [join_with]. unfold words. rewrite <- (sappend_nil_r w) at 1.
    rewrite words_aux_word by exact Hw. cbn. rewrite Hne. reflexivity.
  - change (join_with " " (w :: x :: rest)) with (w ++ " " ++ join_with " " (x :: rest))%string.
    unfold words. rewrite words_aux_word by exact Hw.
    change ((" " ++ join_with " " (x :: rest))%string) with (String " " (join_with " " (x :: rest))).
    cbn [words_aux]. change (is_ws " ") with true. cbn iota.
    change (("" ++ w)%string) with w. rewrite Hne. reflexivity.
Qed.

(* some character of s is not whitespace *)
Definition has_graph (s : string) : bool := existsb (fun c => negb (is_ws c)) (l_of s).

Lemma has_graph_app a b : has_graph (a ++ b) = has_graph a || has_graph b.
Proof.
  unfold has_graph. induction a as [|c a IH]; [reflexivity|].
  cbn. rewrite IH. rewrite orb_assoc. reflexivity.
Qed.

Lemma has_graph_join l : existsb has_graph l = true -> has_graph (join_with " " l) = true.
Proof.
  induction l as [|x l IH]; [discriminate|]. intro H.
  destruct l as [|y l].
  - cbn in H. rewrite orb_false_r in H. exact H.
  - change (join_with " " (x :: y :: l)) with (x ++ " " ++ join_with " " (y :: l))%string.
    rewrite !has_graph_app. cbn [existsb] in H. apply orb_true_iff in H as [H|H].
    + rewrite H. reflexivity.
    + rewrite IH by exact H. rewrite !orb_true_r. reflexivity.
Qed.

Lemma words_aux_nonempty s : forall cur,
  is_empty cur = false \/ has_graph s = true -> exists x xs, words_aux s cur = x :: xs.
Proof.
  induction s as [|c s IH]; intros cur H.
  - cbn. destruct H as [H|H]; [|discriminate]. rewrite H. eauto.
  - cbn [words_aux]. destruct (is_ws c) eqn:Ec.
    + destruct (is_empty cur) eqn:Ecur; [|eauto].
      apply IH. right. destruct H as [H|H]; [discriminate|].
      unfold has_graph in *. cbn in H. rewrite Ec in H. exact H.
    + apply IH. left. destruct cur; reflexivity.
Qed.

Lemma words_nonempty s : has_graph s = true -> exists x xs, words s = x :: xs.
Proof. intro H. apply words_aux_nonempty. right. exact H. Qed.

(* ------------------------------------------------------------------------------ *)
(* Word-level cover                                                                *)

(* a candidate: rule, is_cr_allowed, is_reverse, text of the pattern that matched *)
Definition wc := (arule * bool * bool * string)%type.

Definition wfind_one (av : avendor) (ws : list string) (rev is_global : bool) (r : arule) : list wc :=
  let pat := if rev then acl_prev av (ar_id r) else ar_id r in
  match rule_pat pat with
  | Some (t :: p) =>
    match pmatch_words (t :: p) (rule_ic pat false) ws with
    | Some _ => [(r, negb is_global && negb rev, rev, pat)]
    | None => []
    end
  | _ => []
  end.

Definition wcands (av : avendor) (ws : list string) (rs : aset) : list wc :=
  flat_map (wfind_one av ws false false) (fst rs) ++ flat_map (wfind_one av ws false true) (snd rs) ++
  flat_map (wfind_one av ws true false) (fst rs) ++ flat_map (wfind_one av ws true true) (snd rs).

(* exactly one candidate, and it passes the row *)
Definition wstep (av : avendor) (rs : aset) (ws : list string) : option aset :=
  match wcands av ws rs with
  | [(r, cr, rv, _)] =>
    if rv && forallb (fun b => b) (ar_cd r) then None
    else Some (select_children [AM r cr rv 0 0] rs)
  | _ => None
  end.

Fixpoint wcover (av : avendor) (rs : aset) (wpath : list (list string)) : bool :=
  match wpath with
  | [] => true
  | ws :: p => match wstep av rs ws with Some crs => wcover av crs p | None => false end
  end.

Definition mk_am (row : string) (c : wc) : amatch :=
  let '(r, cr, rv, pat) := c in AM r cr rv (ar_prio r) (shared_chars row (acl_psrc pat)).

Lemma find_one_w av row rev g r : av_juniper av = false ->
  find_one acl_pm acl_psrc (acl_prev av) (acl_norm av) row rev g r
  = map (mk_am row) (wfind_one av (words row) rev g r).
Proof.
  intro Hj. unfold find_one, wfind_one, acl_norm. rewrite Hj. cbn [andb].
  set (pat := if rev then acl_prev av (ar_id r) else ar_id r).
  unfold acl_pm, rule_match. destruct (rule_pat pat) as [[|t p]|]; [reflexivity| |reflexivity].
  change (pmatch (t :: p) (rule_ic pat false) row)
    with (pmatch_words (t :: p) (rule_ic pat false) (words row)).
  destruct (pmatch_words (t :: p) (rule_ic pat false) (words row)); reflexivity.
Qed.

Lemma flat_map_mapped {A B C} (f : A -> list C) (f' : A -> list B) (g : B -> C) l :
  (forall x, f x = map g (f' x)) -> flat_map f l = map g (flat_map f' l).
Proof.
  intro H. induction l as [|x l IH]; [reflexivity|]. cbn. rewrite map_app, H, IH. reflexivity.
Qed.

Lemma cands_w av row rs : av_juniper av = false ->
  acl_candidates acl_pm acl_psrc (acl_prev av) (acl_norm av) row rs
  = map (mk_am row) (wcands av (words row) rs).
Proof.
  intro Hj. unfold acl_candidates, wcands. rewrite !map_app.
  repeat f_equal; apply flat_map_mapped; intro x; apply find_one_w; exact Hj.
Qed.

Lemma wstep_sound av rs row crs : av_juniper av = false ->
  wstep av rs (words row) = Some crs ->
  exists m, p_match_row_to_acl av row rs false = MSome m crs /\ drops m = false.
Proof.
  intros Hj H. unfold wstep in H.
  unfold p_match_row_to_acl, match_row_to_acl, find_acl_matches. rewrite cands_w by exact Hj.
  destruct (wcands av (words row) rs) as [|[[[r cr] rv] pat] [|c2 l]]; try discriminate.
  destruct (rv && forallb (fun b => b) (ar_cd r)) eqn:Ed; [discriminate|].
  injection H as <-. cbn [map mk_am]. cbn [stable_sort fold_right insert_by].
  eexists. split; [reflexivity|]. exact Ed.
Qed.

Theorem wcover_sound av : av_juniper av = false -> forall path rs,
  wcover av rs (map words path) = true -> p_acl_covers_path av rs path = true.
Proof.
  intros Hj path. induction path as [|row p IH]; intros rs H; [reflexivity|].
  cbn [map wcover] in H. destruct (wstep av rs (words row)) as [crs|] eqn:E; [|discriminate].
  destruct (wstep_sound av rs row crs Hj E) as [m [Hm Hd]].
  unfold p_acl_covers_path. cbn [acl_covers_path].
  unfold p_match_row_to_acl in Hm. rewrite Hm. rewrite Hd. cbn [negb andb].
  apply IH. exact H.
Qed.

(* the compiled ACL folded in: what the generator theorems reduce to *)
Definition wcovered (av : avendor) (a : acl) (wpath : list (list string)) : bool :=
  match compile_acl a with Some rs => wcover av rs wpath | None => false end.

Lemma covered_by_words av a r : av_juniper av = false ->
  wcovered av a (map words (map row_text (r_path r) ++ [row_text (r_toks r)])) = true ->
  mrow_covered av a r = true.
Proof.
  unfold wcovered, mrow_covered. intros Hj H. destruct (compile_acl a) as [rs|]; [|discriminate].
  apply wcover_sound; assumption.
Qed.

(* ------------------------------------------------------------------------------ *)
(* Rows that start with literal head words                                         *)

Definition starts (hs : list string) (t : row) : bool :=
  match strip_prefix hs t with Some _ => true | None => false end.

Lemma starts_spec hs : forall t, starts hs t = true -> exists rest, t = hs ++ rest.
Proof.
  unfold starts. induction hs as [|h hs IH]; intros t H.
  - exists t. reflexivity.
  - destruct t as [|y t]; [discriminate|]. cbn in H.
    destruct (String.eqb h y) eqn:E; [|discriminate]. apply String.eqb_eq in E. subst y.
    destruct (IH t H) as [rest ->]. exists rest. reflexivity.
Qed.

Lemma words_heads hs rest : forallb is_word hs = true ->
  words (row_text (hs ++ rest)) = hs ++ words (row_text rest).
Proof.
  induction hs as [|h hs IH]; intro H; [reflexivity|].
  cbn [forallb] in H. apply andb_true_iff in H as [Hh H].
  cbn [app]. rewrite words_head1 by exact Hh. rewrite IH by exact H. reflexivity.
Qed.

Definition starts_any (H : list (list string)) (t : row) : bool := existsb (fun hs => starts hs t) H.

(* a top-level row whose first words are one of the literal heads H, each of which the ACL passes
   whatever follows *)
Lemma covered_top av a (H : list (list string)) : av_juniper av = false ->
  forallb (forallb is_word) H = true ->
  (forall ws, forallb (fun hs => wcovered av a [hs ++ ws]) H = true) ->
  forall t h tg, starts_any H t = true -> mrow_covered av a (MR [] t h tg) = true.
Proof.
  intros Hj Hw Hc t h tg Hs. unfold starts_any in Hs. apply existsb_exists in Hs as [hs [Hin Hs]].
  apply starts_spec in Hs as [rest ->].
  apply covered_by_words; [exact Hj|]. cbn [r_path r_toks map app].
  rewrite words_heads by (eapply forallb_forall in Hw; [exact Hw|exact Hin]).
  specialize (Hc (words (row_text rest))). eapply forallb_forall in Hc; [exact Hc|exact Hin].
Qed.

Ltac hd w := rewrite (words_head1 w) by reflexivity.
Ltac gen_words :=
  repeat match goal with |- context [words ?s] => let x := fresh "ws" in generalize (words s); intro x end.
Ltac finish := gen_words; vm_compute; reflexivity.
Ltac top_tac := apply covered_top; [reflexivity | reflexivity | intro; vm_compute; reflexivity | ].

(* ------------------------------------------------------------------------------ *)
(* Streams                                                                         *)

Definition allr (P : row -> bool) (o : out) : bool := forallb P (fst o).

Lemma allr_seq P a b : allr P a = true -> allr P b = true -> allr P (a ;; b) = true.
Proof.
  unfold allr, oseq. intros Ha Hb. destruct (snd a); [exact Ha|]. cbn [fst].
  rewrite forallb_app, Ha, Hb. reflexivity.
Qed.
Lemma allr_when P c o : allr P o = true -> allr P (when c o) = true.
Proof. intro H. destruct c; [exact H|reflexivity]. Qed.
Lemma allr_raise P er : allr P (raise er) = true. Proof. reflexivity. Qed.
Lemma allr_nothing P : allr P nothing = true. Proof. reflexivity. Qed.
Lemma allr_yield P r : P r = true -> allr P (yield r) = true.
Proof. intro H. unfold allr. cbn. rewrite H. reflexivity. Qed.
Lemma allr_yields P rs : forallb P rs = true -> allr P (yields rs) = true.
Proof. intro H. exact H. Qed.
Lemma forallb_map_all {A B} (P : B -> bool) (f : A -> B) l :
  (forall x, P (f x) = true) -> forallb P (map f l) = true.
Proof. intro H. induction l as [|x l IH]; [reflexivity|]. cbn. rewrite H, IH. reflexivity. Qed.
Lemma allr_out_seq P l : (forall o, In o l -> allr P o = true) -> allr P (out_seq l) = true.
Proof.
  induction l as [|o l IH]; intro H; [reflexivity|]. cbn [out_seq].
  apply allr_seq; [apply H; left; reflexivity | apply IH; intros o' Ho; apply H; right; exact Ho].
Qed.
Lemma allr_out_seq_map {A} P (f : A -> out) l :
  (forall x, allr P (f x) = true) -> allr P (out_seq (map f l)) = true.
Proof.
  intro H. apply allr_out_seq. intros o Ho. apply in_map_iff in Ho as [x [<- _]]. apply H.
Qed.

Lemma allr_in P o t : allr P o = true -> In t (fst o) -> P t = true.
Proof. unfold allr. intros H Hin. eapply forallb_forall in H; [exact H|exact Hin]. Qed.

Lemma plain_rows o r : In r (fst (plain o)) -> exists t, In t (fst o) /\ r = MR [] t false None.
Proof. unfold plain. cbn [fst]. intro H. apply in_map_iff in H as [t [<- Ht]]. eauto. Qed.

Lemma gseq_rows' a b r : In r (fst (gseq a b)) -> In r (fst a) \/ In r (fst b).
Proof.
  unfold gseq. destruct (snd a); [left; assumption|]. cbn [fst]. intro H. apply in_app_or. exact H.
Qed.

(* apply the stream lemmas, split the case analysis of the generator, compute the literal heads *)
Ltac heads_step :=
  match goal with
  | |- allr _ (_ ;; _) = true => apply allr_seq
  | |- allr _ (when _ _) = true => apply allr_when
  | |- allr _ (raise _) = true => reflexivity
  | |- allr _ nothing = true => reflexivity
  | |- allr _ (yield _) = true => apply allr_yield
  | |- allr _ (yields _) = true => apply allr_yields
  | |- forallb _ (map _ _) = true => apply forallb_map_all; intro
  | |- context [match ?x with _ => _ end] => destruct x
  end.
Ltac heads_tac := repeat first [reflexivity | progress cbv zeta | heads_step | progress cbn].

(* ------------------------------------------------------------------------------ *)
(* community.py                                                                    *)

Definition hw_comm_heads : list (list string) :=
  [["ip"; "community-filter"]; ["ip"; "extcommunity-filter"]; ["ip"; "extcommunity-list"];
   ["ip"; "large-community-filter"]].

Lemma hw_comm_list_heads c : allr (starts_any hw_comm_heads) (hw_comm_list c) = true.
Proof.
  unfold hw_comm_list.
  destruct (cl_regex c && many (cl_members c)); [reflexivity|].
  destruct (cl_logic c); destruct (cl_type c); heads_tac.
Qed.

(* basic/advanced x community / extcommunity rt / extcommunity soo / large, AND and OR lists *)
Theorem hw_comm_covered e ps r :
  In r (fst (hw_comm_gen e ps)) -> mrow_covered av_huawei acl_community_huawei r = true.
Proof.
  unfold hw_comm_gen. intro H. apply plain_rows in H as [t [Ht ->]].
  apply (covered_top av_huawei acl_community_huawei hw_comm_heads);
    [reflexivity | reflexivity | intro; vm_compute; reflexivity | ].
  revert Ht. apply allr_in. apply allr_out_seq_map. intro n.
  destruct (find_cl e n); [apply hw_comm_list_heads | reflexivity].
Qed.

Definition ar_comm_heads : list (list string) :=
  [["ip"; "community-list"]; ["ip"; "extcommunity-list"]; ["ip"; "large-community-list"]].

Lemma ar_comm_list_heads name c : allr (starts_any ar_comm_heads) (ar_comm_list name c) = true.
Proof.
  unfold ar_comm_list.
  destruct (cl_regex c && many (cl_members c)); [reflexivity|].
  destruct (cl_logic c); destruct (cl_type c); heads_tac.
Qed.

Theorem ar_comm_covered e ps r :
  In r (fst (ar_comm_gen e ps)) -> mrow_covered av_arista acl_community_arista r = true.
Proof.
  unfold ar_comm_gen. destruct (negb (unions_ok e ps)); [intros []|].
  intro H. apply plain_rows in H as [t [Ht ->]].
  apply (covered_top av_arista acl_community_arista ar_comm_heads);
    [reflexivity | reflexivity | intro; vm_compute; reflexivity | ].
  revert Ht. apply allr_in. apply allr_out_seq_map. intro u.
  destruct (lookup_all e (snd u)); [|reflexivity].
  apply allr_out_seq_map. intro c. apply ar_comm_list_heads.
Qed.

(* ------------------------------------------------------------------------------ *)
(* aspath.py, rd.py                                                                *)

Theorem hw_aspath_covered e ps r :
  In r (fst (plain (aspath_gen Huawei e ps))) -> mrow_covered av_huawei acl_aspath_huawei r = true.
Proof.
  intro H. apply plain_rows in H as [t [Ht ->]].
  apply (covered_top av_huawei acl_aspath_huawei [["ip"; "as-path-filter"]]);
    [reflexivity | reflexivity | intro; vm_compute; reflexivity | ].
  revert Ht. apply allr_in. unfold aspath_gen. apply allr_out_seq_map. intro n.
  destruct (find_af e n); reflexivity.
Qed.

Theorem ar_aspath_covered e ps r :
  In r (fst (plain (aspath_gen Arista e ps))) -> mrow_covered av_arista acl_aspath_arista r = true.
Proof.
  intro H. apply plain_rows in H as [t [Ht ->]].
  apply (covered_top av_arista acl_aspath_arista [["ip"; "as-path"; "access-list"]]);
    [reflexivity | reflexivity | intro; vm_compute; reflexivity | ].
  revert Ht. apply allr_in. unfold aspath_gen. apply allr_out_seq_map. intro n.
  destruct (find_af e n); reflexivity.
Qed.

Theorem hw_rd_covered e ps r :
  In r (fst (plain (rd_gen e ps))) -> mrow_covered av_huawei acl_rd_huawei r = true.
Proof.
  intro H. apply plain_rows in H as [t [Ht ->]].
  apply (covered_top av_huawei acl_rd_huawei [["ip"; "rd-filter"]]);
    [reflexivity | reflexivity | intro; vm_compute; reflexivity | ].
  revert Ht. apply allr_in. unfold rd_gen. apply allr_out_seq_map. intro n.
  destruct (find_rd e n); [|reflexivity].
  apply allr_yields. apply forallb_map_all. intro im. reflexivity.
Qed.

(* ------------------------------------------------------------------------------ *)
(* prefix_lists.py                                                                 *)

Theorem hw_prefix_covered e ps r :
  In r (fst (prefix_gen Huawei e ps)) -> mrow_covered av_huawei acl_prefix_huawei r = true.
Proof.
  unfold prefix_gen. cbn [fst]. intro H. apply in_flat_map in H as [[[[[v6 dn] n] ge] le] [_ H]].
  apply in_map_iff in H as [im [<- _]].
  apply (covered_top av_huawei acl_prefix_huawei [["ip"; "ip-prefix"]; ["ip"; "ipv6-prefix"]]);
    [reflexivity | reflexivity | intro; vm_compute; reflexivity | ].
  destruct v6; reflexivity.
Qed.

(* the block header `ip[v6] prefix-list NAME` and the `seq ...` rows inside it *)
Theorem ar_prefix_covered e ps r :
  In r (fst (prefix_gen Arista e ps)) -> mrow_covered av_arista acl_prefix_arista r = true.
Proof.
  unfold prefix_gen. cbn [fst]. intro H. apply in_flat_map in H as [[[[[v6 dn] n] ge] le] [_ H]].
  destruct H as [<- | H].
  - apply (covered_top av_arista acl_prefix_arista [["ip"; "prefix-list"]; ["ipv6"; "prefix-list"]]);
      [reflexivity | reflexivity | intro; vm_compute; reflexivity | ].
    destruct v6; reflexivity.
  - apply in_map_iff in H as [im [<- _]].
    apply covered_by_words; [reflexivity|]. cbn [r_path r_toks map app].
    destruct v6.
    + hd "ipv6". hd "prefix-list". hd "seq". finish.
    + hd "ip". hd "prefix-list". hd "seq". finish.
Qed.

(* ------------------------------------------------------------------------------ *)
(* policy.py                                                                       *)

Definition pol_vendor (v : vendor) : bool := match v with Cumulus => false | _ => true end.

(* first token of every row yielded inside a statement block *)
Definition child_heads (v : vendor) : list string :=
  match v with
  | Huawei => ["if-match"; "apply"; "goto"]
  | Arista => ["match"; "set"; "continue"]
  | Cumulus => []
  end.
Definition child_ok (v : vendor) (t : row) : bool :=
  match t with x :: _ => mem x (child_heads v) | [] => false end.

(* shape of a statement header: `route-policy NAME <permit|deny> ...` / `route-map ...`.
   NAME is not constrained: whatever it is, the token after it supplies the word `*` needs. *)
Definition hdr_ok (v : vendor) (h : row) : bool :=
  match v with
  | Huawei => match h with a :: _ :: w :: _ => String.eqb a "route-policy" && has_graph w | _ => false end
  | Arista => match h with a :: _ => String.eqb a "route-map" | [] => false end
  | Cumulus => false
  end.
Definition row_ok (v : vendor) (r : mrow) : bool :=
  match r_path r with
  | [] => hdr_ok v (r_toks r)
  | [h] => hdr_ok v h && child_ok v (r_toks r)
  | _ => false
  end.

Lemma hw_ext_groups_heads sm g : allr (child_ok Huawei) (hw_ext_groups sm g) = true.
Proof.
  induction g as [|[t ms] g IH]; [reflexivity|]. cbn [hw_ext_groups].
  apply allr_seq; [|exact IH].
  destruct (sm && ctype_eqb t SOO); [reflexivity|]. destruct (hw_render t ms); reflexivity.
Qed.
#[local] Hint Resolve hw_ext_groups_heads : rplh.

Ltac heads_tac2 :=
  repeat first [reflexivity | solve [auto with rplh] | progress cbv zeta | heads_step | progress cbn].

Lemma hw_cond_heads e c : allr (child_ok Huawei) (hw_cond e c) = true.
Proof. destruct c; unfold hw_cond; heads_tac2. Qed.

Lemma hw_action_heads fx e a : allr (child_ok Huawei) (hw_action fx e a) = true.
Proof. destruct a; unfold hw_action; heads_tac2. Qed.

Lemma ar_cond_heads e c : allr (child_ok Arista) (ar_cond e c) = true.
Proof. destruct c; unfold ar_cond, ar_match_comm; heads_tac2. Qed.

Lemma ar_action_heads fx e a : allr (child_ok Arista) (ar_action fx e a) = true.
Proof.
  destruct a; unfold ar_action, ar_ext_line; heads_tac2.
  all: apply andb_true_iff; split; [reflexivity|]; apply forallb_map_all; intro; reflexivity.
Qed.

Lemma cond_heads v e c : pol_vendor v = true -> allr (child_ok v) (emit_cond v e c) = true.
Proof. destruct v; intro H; [apply hw_cond_heads | apply ar_cond_heads | discriminate]. Qed.
Lemma action_heads fx v e a : pol_vendor v = true -> allr (child_ok v) (emit_action fx v e a) = true.
Proof. destruct v; intro H; [apply hw_action_heads | apply ar_action_heads | discriminate]. Qed.

Lemma emit_items_ok {A} (emit : A -> out) (P : row -> bool) path mk :
  (forall x, allr P (emit x) = true) ->
  forall l i r, In r (fst (emit_items emit path mk i l)) -> r_path r = path /\ P (r_toks r) = true.
Proof.
  intros HP l. induction l as [|x l IH]; intros i r H; [destruct H|].
  cbn [emit_items] in H. cbv zeta in H.
  assert (Hrows : forall r0, In r0 (map (fun t => MR path t false (Some (mk i))) (fst (emit x))) ->
                             r_path r0 = path /\ P (r_toks r0) = true).
  { intros r0 H0. apply in_map_iff in H0 as [t [<- Ht]]. split; [reflexivity|].
    eapply allr_in; [apply HP|exact Ht]. }
  destruct (snd (emit x)).
  - apply Hrows. exact H.
  - apply gseq_rows' in H as [H|H]; [apply Hrows; exact H | eapply IH; exact H].
Qed.

Lemma stmt_header_ok v pname st hdr :
  pol_vendor v = true -> stmt_header v pname st = inl hdr -> hdr_ok v hdr = true.
Proof.
  intros Hv H. destruct v; [| |discriminate]; unfold stmt_header in H.
  - destruct (s_number st); [|discriminate]. destruct (s_result st); cbn [result_word] in H;
      try discriminate; injection H as <-; reflexivity.
  - destruct (s_result st); cbn [result_word] in H; try discriminate; destruct (s_number st);
      try discriminate; injection H as <-; reflexivity.
Qed.

Lemma stmt_rows_ok fx v e p s pname st r :
  pol_vendor v = true -> In r (fst (emit_stmt fx v e p s pname st)) -> row_ok v r = true.
Proof.
  intros Hv H. unfold emit_stmt in H.
  destruct (stmt_header v pname st) as [hdr|er] eqn:Eh; [|destruct H].
  pose proof (stmt_header_ok _ _ _ _ Hv Eh) as Hh. cbv zeta in H.
  apply gseq_rows' in H as [H|H].
  { cbn [fst] in H. destruct H as [<-|[]]. unfold row_ok. cbn [r_path r_toks]. exact Hh. }
  apply gseq_rows' in H as [H|H].
  { apply (emit_items_ok _ (child_ok v)) in H as [Hp Ht]; [|intro c; apply cond_heads; exact Hv].
    unfold row_ok. rewrite Hp, Hh, Ht. reflexivity. }
  apply gseq_rows' in H as [H|H].
  { apply (emit_items_ok _ (child_ok v)) in H as [Hp Ht]; [|intro a; apply action_heads; exact Hv].
    unfold row_ok. rewrite Hp, Hh, Ht. reflexivity. }
  apply gseq_rows' in H as [H|H]; cbn [fst] in H.
  - destruct (is_next (s_result st)); [|destruct H]. destruct H as [<-|[]].
    unfold row_ok. cbn [r_path r_toks]. rewrite Hh. destruct v; try discriminate; reflexivity.
  - destruct v; try discriminate; destruct H.
Qed.

Lemma stmts_rows_ok fx v e p pname : pol_vendor v = true ->
  forall l s seen r, In r (fst (emit_stmts fx v e p s pname seen l)) -> row_ok v r = true.
Proof.
  intros Hv l. induction l as [|st l IH]; intros s seen r H; [destruct H|].
  cbn [emit_stmts] in H. cbv zeta in H.
  match type of H with context [if ?b then _ else _] => destruct b end; [destruct H|].
  apply gseq_rows' in H as [H|H]; [eapply stmt_rows_ok; eassumption | eapply IH; exact H].
Qed.

Lemma policies_rows_ok fx v e : pol_vendor v = true ->
  forall l p r, In r (fst (emit_policies fx v e p l)) -> row_ok v r = true.
Proof.
  intros Hv l. induction l as [|pol l IH]; intros p r H; [destruct H|].
  cbn [emit_policies] in H.
  apply gseq_rows' in H as [H|H]; [eapply stmts_rows_ok; eassumption | eapply IH; exact H].
Qed.

Lemma mem_In x l : mem x l = true -> In x l.
Proof.
  unfold mem. intro H. apply existsb_exists in H as [y [Hy E]]. apply String.eqb_eq in E. subst. exact Hy.
Qed.

Lemma child_ok_inv v t : child_ok v t = true -> exists x rest, t = x :: rest /\ In x (child_heads v).
Proof.
  destruct t as [|x rest]; [discriminate|]. cbn. intro H. exists x, rest. split; [reflexivity|].
  apply mem_In. exact H.
Qed.

Lemma words_row_nonempty t : existsb has_graph t = true -> exists x xs, words (row_text t) = x :: xs.
Proof. intro H. apply words_nonempty. apply has_graph_join. exact H. Qed.

(* the words of a Huawei statement header: `route-policy`, at least one more word *)
Lemma hw_hdr_words h : hdr_ok Huawei h = true ->
  exists x xs, words (row_text h) = "route-policy" :: x :: xs.
Proof.
  destruct h as [|a [|n [|w rest]]]; try discriminate. cbn [hdr_ok]. intro H.
  apply andb_true_iff in H as [Ha Hw]. apply String.eqb_eq in Ha. subst a.
  hd "route-policy".
  destruct (words_row_nonempty (n :: w :: rest)) as [x [xs E]].
  { cbn [existsb]. rewrite Hw. rewrite !orb_true_r. reflexivity. }
  rewrite E. eauto.
Qed.

Lemma ar_hdr_words h : hdr_ok Arista h = true ->
  exists xs, words (row_text h) = "route-map" :: xs.
Proof.
  destruct h as [|a rest]; try discriminate. cbn [hdr_ok]. intro Ha.
  apply String.eqb_eq in Ha. subst a. hd "route-map". eauto.
Qed.

Lemma hw_row_ok_covered r : row_ok Huawei r = true -> mrow_covered av_huawei acl_policy_huawei r = true.
Proof.
  destruct r as [path toks h tg]. unfold row_ok. cbn [r_path r_toks].
  destruct path as [|hdr [|? ?]]; try discriminate; intro H.
  - apply hw_hdr_words in H as [x [xs E]].
    apply covered_by_words; [reflexivity|]. cbn [r_path r_toks map app]. rewrite E.
    vm_compute. reflexivity.
  - apply andb_true_iff in H as [Hh Hc]. apply hw_hdr_words in Hh as [x [xs E]].
    apply child_ok_inv in Hc as [c [rest [-> Hc]]].
    apply covered_by_words; [reflexivity|]. cbn [r_path r_toks map app]. rewrite E.
    cbn [child_heads] in Hc. destruct Hc as [<-|[<-|[<-|[]]]].
    + hd "if-match". finish.
    + hd "apply". finish.
    + hd "goto". finish.
Qed.

Lemma ar_row_ok_covered r : row_ok Arista r = true -> mrow_covered av_arista acl_policy_arista r = true.
Proof.
  destruct r as [path toks h tg]. unfold row_ok. cbn [r_path r_toks].
  destruct path as [|hdr [|? ?]]; try discriminate; intro H.
  - apply ar_hdr_words in H as [xs E].
    apply covered_by_words; [reflexivity|]. cbn [r_path r_toks map app]. rewrite E.
    vm_compute. reflexivity.
  - apply andb_true_iff in H as [Hh Hc]. apply ar_hdr_words in Hh as [xs E].
    apply child_ok_inv in Hc as [c [rest [-> Hc]]].
    apply covered_by_words; [reflexivity|]. cbn [r_path r_toks map app]. rewrite E.
    cbn [child_heads] in Hc. destruct Hc as [<-|[<-|[<-|[]]]].
    + hd "match". finish.
    + hd "set". finish.
    + hd "continue". finish.
Qed.

(* `route-policy NAME permit|deny node N` under `route-policy *`; every if-match / apply row and
   `goto next-node` under the %global child `~`.  Holds for the unchanged and the repaired tree (fx). *)
Theorem hw_policy_covered fx e p ps r :
  In r (fst (emit_policies fx Huawei e p ps)) -> mrow_covered av_huawei acl_policy_huawei r = true.
Proof. intro H. apply hw_row_ok_covered. eapply policies_rows_ok; [reflexivity|exact H]. Qed.

(* `route-map NAME permit|deny N` under `route-map`; every match / set row and `continue` under `~` *)
Theorem ar_policy_covered fx e p ps r :
  In r (fst (emit_policies fx Arista e p ps)) -> mrow_covered av_arista acl_policy_arista r = true.
Proof. intro H. apply ar_row_ok_covered. eapply policies_rows_ok; [reflexivity|exact H]. Qed.

(* ------------------------------------------------------------------------------ *)
(* Non-vacuity and teeth                                                           *)

Definition ex_env : env :=
  Env [CL "C1" ["65000:1"; "65000:2"] BASIC LOR false; CL "L1" ["1:2:3"] LARGE LAND false;
       CL "RT1" ["100:1"] RT LOR false; CL "S1" ["100:2"] SOO LAND true]
      [PL "P1" false [PM "10.0.0.0" "8" None (Some 24)]; PL "P6" true [PM "2001:db8::" "32" None None]]
      [AF "AS1" ["65000"; ".*"]] [RD "R1" 5 ["100:1"; "100:2"]].
(* the policy name holds a blank: no guard on names is needed *)
Definition ex_ps : list policy :=
  [Pol "IMPORT X"
       [St (Some 10) RNext
           [CComm FCommunity HAS_ANY ["C1"]; CComm FLarge HAS ["L1"]; CComm FExtRt HAS_ANY ["RT1"];
            CComm FExtSoo HAS ["S1"]; CPrefix false ["P1"] None None; CPrefix true ["P6"] None None;
            CAsFilter "AS1"]
           [AMetric TSET "10"; AComm AFCommunity None ["C1"] []];
        St (Some 20) RDeny [CRd HAS ["R1"]] []]].

Definition all_and_some {A} (f : A -> bool) (l : list A) : bool := nonempty l && forallb f l.

Example covered_nonvacuous :
  all_and_some (mrow_covered av_huawei acl_policy_huawei) (fst (emit_policies faithful Huawei ex_env 0 ex_ps)) = true /\
  all_and_some (mrow_covered av_huawei acl_prefix_huawei) (fst (prefix_gen Huawei ex_env ex_ps)) = true /\
  all_and_some (mrow_covered av_huawei acl_community_huawei) (fst (hw_comm_gen ex_env ex_ps)) = true /\
  all_and_some (mrow_covered av_huawei acl_aspath_huawei) (fst (plain (aspath_gen Huawei ex_env ex_ps))) = true /\
  all_and_some (mrow_covered av_huawei acl_rd_huawei) (fst (plain (rd_gen ex_env ex_ps))) = true /\
  all_and_some (mrow_covered av_arista acl_policy_arista) (fst (emit_policies faithful Arista ex_env 0 ex_ps)) = true /\
  all_and_some (mrow_covered av_arista acl_prefix_arista) (fst (prefix_gen Arista ex_env ex_ps)) = true /\
  all_and_some (mrow_covered av_arista acl_community_arista) (fst (ar_comm_gen ex_env ex_ps)) = true /\
  all_and_some (mrow_covered av_arista acl_aspath_arista) (fst (plain (aspath_gen Arista ex_env ex_ps))) = true /\
  List.length (fst (hw_comm_gen ex_env ex_ps)) = 5 /\
  List.length (fst (emit_policies faithful Huawei ex_env 0 ex_ps)) = 13.
Proof. vm_compute. repeat split; reflexivity. Qed.

(* the statement has teeth: without its line in the ACL a row is not covered *)
Definition acl_without (rule_row : string) (a : acl) : acl :=
  filter (fun i => negb (String.eqb (ai_row i) rule_row)) a.

Example large_community_needs_its_line :
  let r := MR [] ["ip"; "large-community-list"; "X"; "permit"; "1:2:3"] false None in
  mrow_covered av_arista acl_community_arista r = true /\
  mrow_covered av_arista (acl_without "ip large-community-list" acl_community_arista) r = false.
Proof. vm_compute. split; reflexivity. Qed.

Example hw_large_filter_needs_its_line :
  let r := MR [] ["ip"; "large-community-filter"; "basic"; "L1"; "index"; "10"; "permit"; "1:2:3"] false None in
  mrow_covered av_huawei acl_community_huawei r = true /\
  mrow_covered av_huawei (acl_without "ip large-community-filter" acl_community_huawei) r = false.
Proof. vm_compute. split; reflexivity. Qed.

(* a row inside the statement block is covered only through the %global child `~` *)
Example policy_child_needs_global_tilde :
  let r := MR [["route-policy"; "P"; "permit"; "node"; "10"]] ["apply"; "cost"; "5"] false None in
  mrow_covered av_huawei acl_policy_huawei r = true /\
  mrow_covered av_huawei [AItem "route-policy *" "route-policy *" false false None 0 [] []] r = false.
Proof. vm_compute. split; reflexivity. Qed.

(* a row of another generator is not covered by this generator's ACL *)
Example prefix_row_not_in_community_acl :
  mrow_covered av_huawei acl_community_huawei
    (MR [] ["ip"; "ip-prefix"; "P1"; "index"; "5"; "permit"; "10.0.0.0"; "8"] false None) = false.
Proof. vm_compute. reflexivity. Qed.

Print Assumptions wcover_sound.
Print Assumptions hw_comm_covered.
Print Assumptions ar_comm_covered.
Print Assumptions hw_prefix_covered.
Print Assumptions ar_prefix_covered.
Print Assumptions hw_aspath_covered.
Print Assumptions ar_aspath_covered.
Print Assumptions hw_rd_covered.
Print Assumptions hw_policy_covered.
Print Assumptions ar_policy_covered.
Print Assumptions covered_nonvacuous.
Print Assumptions large_community_needs_its_line.
