(* C16, text level: which noise of a configuration dump is neutral for parse_to_tree (the reader both
   front ends share), and which "clean-up" of the text before parsing is not. *)
From Coq Require Import List String Ascii Bool Arith Lia.
From Annet Require Import Base.Str Base.Tree Model.Offside Gen.Src_vendors Model.Join Spec.P_C16t Spec.P_C16r.
Import ListNotations.
Open Scope string_scope.
Open Scope list_scope.
Local Infix "+++" := String.append (right associativity, at level 60).

(* ---------- 1. comment and blank lines (Skip items) are neutral ---------- *)

Lemma parse_items_skip_neutral : forall its n m s,
  outcome_tree (parse_items (filter (fun i => negb (is_skip i)) its) n s) =
  outcome_tree (parse_items its m s).
Proof.
  induction its as [|i its IH]; intros n m s.
  - reflexivity.
  - destruct i as [lvl row| |]; simpl.
    + destruct (content_step s lvl row) as [s'|].
      * apply IH.
      * reflexivity.
    + apply IH.
    + apply IH.
Qed.

(* ---------- 2. a '#'-delimited section may be printed with any left margin ---------- *)

(* two parser states that differ only in the learnt base indentation, by k columns *)
Definition shifted_state (k : nat) (s1 s2 : pstate) : Prop :=
  ps_indents s1 = ps_indents s2 /\ ps_curr s1 = ps_curr s2 /\
  ps_stack s1 = ps_stack s2 /\ ps_tree s1 = ps_tree s2 /\
  match ps_g s1, ps_g s2 with
  | None, None => True
  | Some a, Some b => a = k + b
  | _, _ => False
  end.

Lemma shifted_state_fresh k s : ps_g s = None -> shifted_state k s s.
Proof. intro H. unfold shifted_state. rewrite H. repeat split. Qed.

Lemma content_step_shift k s1 s2 l row :
  shifted_state k s1 s2 ->
  match content_step s1 (k + l) row, content_step s2 l row with
  | None, None => True
  | Some a, Some b => shifted_state k a b
  | _, _ => False
  end.
Proof.
  destruct s1 as [i1 c1 g1 st1 t1], s2 as [i2 c2 g2 st2 t2].
  unfold shifted_state; simpl. intros (Hi & Hc & Hs & Ht & Hg). subst i2 c2 st2 t2.
  unfold content_step; simpl.
  assert (E : exists g, match g1 with None => k + l | Some g => g end = k + g /\
                        match g2 with None => l | Some g => g end = g).
  { destruct g1 as [a|], g2 as [b|]; try contradiction.
    - exists b. split; [exact Hg | reflexivity].
    - exists l. split; reflexivity. }
  destruct E as (g & E1 & E2). rewrite E1, E2.
  replace (Nat.ltb (k + l) (k + g)) with (Nat.ltb l g)
    by (destruct (Nat.ltb_spec l g), (Nat.ltb_spec (k + l) (k + g)); try reflexivity; lia).
  destruct (Nat.ltb l g); [exact I|].
  replace (k + l - (k + g)) with (l - g) by lia.
  destruct (Nat.ltb c1 (l - g)).
  - simpl. repeat split; reflexivity.
  - destruct (Nat.ltb (l - g) c1).
    + destruct (pop_loop i1 c1 (l - g)) as [ind curr].
      destruct (Nat.eqb curr (l - g)); [|exact I].
      simpl. repeat split; reflexivity.
    + simpl. repeat split; reflexivity.
Qed.

Lemma reset_shifted k s1 s2 : shifted_state k s1 s2 -> reset_state s1 = reset_state s2.
Proof.
  destruct s1, s2. unfold shifted_state, reset_state; simpl.
  intros (_ & _ & Hs & Ht & _). subst. reflexivity.
Qed.

Lemma parse_section_shift k rest1 rest2 :
  (forall n s, ps_g s = None -> parse_items rest1 n s = parse_items rest2 n s) ->
  forall sec n s1 s2,
    no_reset sec = true -> shifted_state k s1 s2 ->
    parse_items (map (shift_item k) sec ++ Reset :: rest1) n s1 =
    parse_items (sec ++ Reset :: rest2) n s2.
Proof.
  intros Hrest. induction sec as [|i sec IH]; intros n s1 s2 Hnr Hsh.
  - simpl. rewrite (reset_shifted k s1 s2 Hsh). apply Hrest. destruct s2; reflexivity.
  - simpl in Hnr. apply andb_true_iff in Hnr. destruct Hnr as [Hi Hnr].
    destruct i as [l row| |]; simpl.
    + pose proof (content_step_shift k s1 s2 l row Hsh) as H.
      destruct (content_step s1 (k + l) row) as [a|], (content_step s2 l row) as [b|]; try contradiction.
      * apply IH; assumption.
      * reflexivity.
    + discriminate Hi.
    + apply IH; assumption.
Qed.

Lemma map_shift_0 sec : map (shift_item 0) sec = sec.
Proof. induction sec as [|i sec IH]; simpl; [reflexivity|]. rewrite IH. destruct i; reflexivity. Qed.

Theorem section_margins_neutral : forall secs n s,
  forallb (fun ks => no_reset (snd ks)) secs = true ->
  ps_g s = None ->
  parse_items (render_sections secs) n s = parse_items (render_sections (unshifted secs)) n s.
Proof.
  induction secs as [|[k sec] secs IH]; intros n s Hall Hg.
  - reflexivity.
  - simpl in Hall. apply andb_true_iff in Hall. destruct Hall as [Hsec Hall].
    unfold render_sections; simpl. fold (render_sections secs). fold (render_sections (unshifted secs)).
    rewrite <- !app_assoc. simpl. rewrite map_shift_0.
    apply parse_section_shift.
    + intros n' s' Hg'. apply IH; assumption.
    + exact Hsec.
    + apply shifted_state_fresh. exact Hg.
Qed.

(* ---------- 3. lines and items ---------- *)

Lemma rstrip_head c r : is_ws c = false -> exists r', rstrip (String c r) = String c r'.
Proof. intro H. simpl. destruct (rstrip r); rewrite ?H; eauto. Qed.

(* a line starting with "!" is skipped, whatever follows *)
Lemma classify_bang_line s : classify default_comments (String "!" s) = Skip.
Proof.
  unfold classify, default_comments. simpl existsb at 1.
  replace (startswith "#" (String "!" s)) with false by reflexivity.
  unfold strip. simpl lstrip.
  destruct (rstrip_head "!"%char s eq_refl) as (r' & E). rewrite E. unfold startswith. simpl. destruct r'; reflexivity.
Qed.

(* a line starting with "#" in column 0 is the section end, whatever follows *)
Lemma classify_hash_line s : classify default_comments (String "#" s) = Reset.
Proof. unfold classify, default_comments, startswith. simpl. destruct s; reflexivity. Qed.

Lemma classify_empty_line : classify default_comments "" = Skip.
Proof. reflexivity. Qed.

(* ---------- 4. dropping the '#' lines is neutral only for dumps whose sections start in column 0 ---------- *)

(* the first content line of the dump and of every section after a '#' sits in column 0 *)
Fixpoint heads_col0 (fresh : bool) (its : list item) : bool :=
  match its with
  | [] => true
  | Skip :: r => heads_col0 fresh r
  | Reset :: r => heads_col0 true r
  | Content l _ :: r => (negb fresh || Nat.eqb l 0) && heads_col0 false r
  end.

Definition wf_levels (ind : list nat) (curr : nat) : Prop :=
  Forall (fun d => 0 < d) ind /\ curr = list_sum ind.

Lemma pop_loop_zero : forall ind curr, wf_levels ind curr -> pop_loop ind curr 0 = ([], 0).
Proof.
  induction ind as [|d ind IH]; intros curr [Hpos Hsum]; simpl in *.
  - subst. reflexivity.
  - inversion Hpos as [|? ? Hd Hrest]; subst.
    replace (Nat.ltb 0 (d + list_sum ind)) with true by (symmetry; apply Nat.ltb_lt; lia).
    apply IH. split; [assumption | lia].
Qed.

Lemma pop_loop_wf level : forall ind curr ind' curr',
  wf_levels ind curr -> pop_loop ind curr level = (ind', curr') -> wf_levels ind' curr'.
Proof.
  induction ind as [|d ind IH]; intros curr ind' curr' [Hpos Hsum] E; simpl in E.
  - injection E as E1 E2; subst. split; [constructor | reflexivity].
  - destruct (Nat.ltb level curr).
    + inversion Hpos as [|? ? Hd Hrest]; subst. simpl in E.
      apply (IH _ _ _ (conj Hrest eq_refl)).
      replace (list_sum ind) with (d + list_sum ind - d) at 1 by lia. exact E.
    + injection E as E1 E2; subst. split; auto.
Qed.

Definition wf_state (s : pstate) : Prop := wf_levels (ps_indents s) (ps_curr s).

Lemma content_step_wf s lvl row s' :
  wf_state s -> content_step s lvl row = Some s' -> wf_state s' /\ ps_g s' = Some (match ps_g s with None => lvl | Some g => g end).
Proof.
  destruct s as [ind curr g st t]. unfold wf_state, content_step; simpl. intros Hwf E.
  set (g0 := match g with None => lvl | Some g1 => g1 end) in *.
  destruct (Nat.ltb lvl g0); [discriminate|].
  destruct (Nat.ltb curr (lvl - g0)) eqn:E1.
  - injection E as E; subst s'. simpl. split; [|reflexivity].
    apply Nat.ltb_lt in E1. destruct Hwf as [Hpos Hsum]. split.
    + constructor; [lia | assumption].
    + simpl. lia.
  - destruct (Nat.ltb (lvl - g0) curr) eqn:E2.
    + destruct (pop_loop ind curr (lvl - g0)) as [ind' curr'] eqn:Ep.
      destruct (Nat.eqb curr' (lvl - g0)); [|discriminate].
      injection E as E; subst s'. simpl. split; [|reflexivity].
      eapply pop_loop_wf; eassumption.
    + injection E as E; subst s'. simpl. split; [assumption | reflexivity].
Qed.

(* run A keeps the '#' lines, run B has lost them *)
Definition drop_rel (fresh : bool) (sa sb : pstate) : Prop :=
  wf_state sb /\
  if fresh then sa = reset_state sb /\ (ps_g sb = Some 0 \/ ps_g sb = None)
  else sa = sb /\ ps_g sb = Some 0.

Lemma content0_after_reset sb row :
  wf_state sb -> (ps_g sb = Some 0 \/ ps_g sb = None) ->
  content_step (reset_state sb) 0 row = content_step sb 0 row.
Proof.
  destruct sb as [ind curr g st t]. unfold wf_state, reset_state, content_step; simpl. intros Hwf Hg.
  assert (Eg : match g with None => 0 | Some g1 => g1 end = 0) by (destruct Hg as [Hg|Hg]; rewrite Hg; reflexivity).
  rewrite Eg. simpl.
  destruct curr as [|c].
  - destruct Hwf as [Hpos Hsum]. destruct ind as [|d ind]; [reflexivity|].
    inversion Hpos; subst. simpl in Hsum. lia.
  - replace (Nat.ltb 0 (S c)) with true by reflexivity.
    rewrite (pop_loop_zero ind (S c) Hwf). simpl. reflexivity.
Qed.

Theorem drop_resets_neutral_col0 : forall its fresh n m sa sb,
  heads_col0 fresh its = true -> drop_rel fresh sa sb ->
  outcome_tree (parse_items (filter (fun i => negb (is_reset i)) its) n sb) =
  outcome_tree (parse_items its m sa).
Proof.
  induction its as [|i its IH]; intros fresh n m sa sb Hh Hrel.
  - simpl. destruct Hrel as [_ Hrel]. destruct fresh.
    + destruct Hrel as [-> _]. destruct sb; reflexivity.
    + destruct Hrel as [-> _]. reflexivity.
  - destruct i as [l row| |]; simpl in *.
    + apply andb_true_iff in Hh. destruct Hh as [Hl Hh].
      destruct Hrel as [Hwf Hrel]. destruct fresh; simpl in Hl.
      * apply Nat.eqb_eq in Hl. subst l. destruct Hrel as [-> Hg].
        rewrite (content0_after_reset sb row Hwf Hg).
        destruct (content_step sb 0 row) as [s'|] eqn:E; [|reflexivity].
        destruct (content_step_wf sb 0 row s' Hwf E) as [Hwf' Hg'].
        apply (IH false); [exact Hh|]. split; [exact Hwf'|]. split; [reflexivity|].
        rewrite Hg'. destruct Hg as [Hg|Hg]; rewrite Hg; reflexivity.
      * destruct Hrel as [-> Hg].
        destruct (content_step sb l row) as [s'|] eqn:E; [|reflexivity].
        destruct (content_step_wf sb l row s' Hwf E) as [Hwf' Hg'].
        apply (IH false); [exact Hh|]. split; [exact Hwf'|]. split; [reflexivity|].
        rewrite Hg', Hg. reflexivity.
    + apply (IH true); [exact Hh|]. destruct Hrel as [Hwf Hrel]. split; [exact Hwf|].
      destruct fresh.
      * destruct Hrel as [-> Hg]. split; [destruct sb; reflexivity | exact Hg].
      * destruct Hrel as [-> Hg]. split; [reflexivity | left; exact Hg].
    + apply (IH fresh); assumption.
Qed.

Corollary drop_resets_neutral_col0_init its :
  heads_col0 true its = true ->
  outcome_tree (parse_items (filter (fun i => negb (is_reset i)) its) 1 ps_init) =
  outcome_tree (parse_items its 1 ps_init).
Proof.
  intro H. apply (drop_resets_neutral_col0 its true); [exact H|].
  split; [split; [constructor | reflexivity]|]. split; [reflexivity | right; reflexivity].
Qed.

(* ---------- 5. ... and not in general: a VRP5-style dump ---------- *)

Definition vrp5_dump : string :=
  "!Software Version V200R001C00SPC300" +++ String nl (
  "#" +++ String nl (
  "interface GigabitEthernet0/0/1" +++ String nl (
  " description uplink" +++ String nl (
  "#" +++ String nl (
  " ip route-static 0.0.0.0 0.0.0.0 10.0.0.254" +++ String nl (
  "#" +++ String nl "return")))))).

Lemma vrp5_dump_device_side :
  read_config "huawei" vrp5_dump =
  Some (Ok [("interface GigabitEthernet0/0/1", T [("description uplink", T [])]);
            ("ip route-static 0.0.0.0 0.0.0.0 10.0.0.254", T []);
            ("return", T [])]).
Proof. vm_compute. reflexivity. Qed.

Lemma vrp5_dump_marked_lines_dropped :
  read_config "huawei" (drop_marked_lines vrp5_dump) =
  Some (Ok [("interface GigabitEthernet0/0/1",
             T [("description uplink", T []); ("ip route-static 0.0.0.0 0.0.0.0 10.0.0.254", T [])]);
            ("return", T [])]).
Proof. vm_compute. reflexivity. Qed.

(* ---------- 6. on lines: "!" lines and empty lines may be inserted or removed anywhere ---------- *)

Definition bang_or_empty (l : string) : bool := is_empty l || startswith "!" l.

Lemma bang_or_empty_skip l : bang_or_empty l = true -> classify default_comments l = Skip.
Proof.
  destruct l as [|c s]; intro H.
  - reflexivity.
  - unfold bang_or_empty, startswith in H. simpl is_empty in H. rewrite orb_false_l in H.
    change (prefix "!" (String c s)) with (if ascii_dec "!"%char c then prefix "" s else false) in H.
    destruct (ascii_dec "!"%char c) as [E|E]; [|discriminate]. subst c. apply classify_bang_line.
Qed.

Lemma filter_skip_after_dropping_lines lines :
  filter (fun i => negb (is_skip i)) (map (classify default_comments) (filter (fun l => negb (bang_or_empty l)) lines)) =
  filter (fun i => negb (is_skip i)) (map (classify default_comments) lines).
Proof.
  induction lines as [|l lines IH]; simpl; [reflexivity|].
  destruct (bang_or_empty l) eqn:E; simpl.
  - rewrite (bang_or_empty_skip l E). simpl. exact IH.
  - rewrite IH. reflexivity.
Qed.

Theorem bang_and_empty_lines_neutral lines :
  outcome_tree (parse_lines default_comments (filter (fun l => negb (bang_or_empty l)) lines)) =
  outcome_tree (parse_lines default_comments lines).
Proof.
  unfold parse_lines.
  rewrite <- (parse_items_skip_neutral (map (classify default_comments) lines) 1 1 ps_init).
  rewrite <- (parse_items_skip_neutral (map (classify default_comments) (filter _ lines)) 1 1 ps_init).
  rewrite filter_skip_after_dropping_lines. reflexivity.
Qed.

(* ---------- non-vacuity: a VRP5-style item stream ---------- *)

Definition vrp5_sections : list (nat * list item) :=
  [ (0, []);
    (0, [Content 0 "interface GigabitEthernet0/0/1"; Content 1 "description uplink"; Skip]);
    (1, [Content 0 "ip route-static 0.0.0.0 0.0.0.0 10.0.0.254"]);
    (2, [Content 0 "info-center loghost 10.0.0.7"; Skip]) ].
