(* C13 — lemma library, part 3: differs.
     D1  the root differ satisfies the hypothesis [D_ok] of JsonProofs.Patch (the hypothesis
         is satisfiable), round trip of make_patch_of V_fixed on top of it;
     D2  reordering a correct patch is observable: sort_ops is a permutation, every policy
         that puts two operations into "path" order breaks a correct patch;
     D3  a recursive object differ with RFC 6901 string pointers, correct for all documents
         with unique keys (result equal to the target up to member order, [jeq]). *)
From Coq Require Import List String Ascii Bool Arith ZArith Lia Permutation.
From Annet Require Import Base.Str Model.Json Spec.P_C13 Proofs.JsonFragProofs.
Import ListNotations.
Open Scope string_scope.
Open Scope list_scope.

(* ================================================================ D1: root differ *)

Definition diff_root (a b : json) : list op := [OpReplace "" b].

Lemma diff_root_ok : forall a b, apply_ops (diff_root a b) a = Some b.
Proof. intros a b. reflexivity. Qed.

Lemma patch_hypothesis_satisfiable : exists D, forall a b, apply_ops (D a b) a = Some b.
Proof. exists diff_root. exact diff_root_ok. Qed.

Lemma roundtrip_with_diff_root :
  forall a b, apply_ops (make_patch_of V_fixed (diff_root a b)) a = Some b.
Proof. intros a b. reflexivity. Qed.

(* ================================================================ D2: reordering is observable *)

Lemma insert_op_perm x : forall l, Permutation (x :: l) (insert_op x l).
Proof.
  induction l as [|y t IH]; cbn [insert_op].
  - apply Permutation_refl.
  - destruct (path_leb x y).
    + apply Permutation_refl.
    + eapply Permutation_trans; [apply perm_swap|]. apply perm_skip. exact IH.
Qed.

Lemma sort_ops_perm : forall ops, Permutation ops (sort_ops ops).
Proof.
  induction ops as [|x t IH]; cbn.
  - apply perm_nil.
  - eapply Permutation_trans; [apply perm_skip; exact IH|]. apply insert_op_perm.
Qed.

Definition r_old : json := JObj [("d", JArr [JStr "x"; JStr "y"; JStr "z"])].
Definition r_new : json := JObj [("d", JArr [JStr "z"; JStr "x"])].
Definition r_ops : list op := [OpRemove "/d/1"; OpMove "/d/1" "/d/0"].

(* EVERY reordering policy that puts a two-element list into "path" order — whatever it
   does on ties and on longer lists — breaks a correct patch *)
Lemma reorder_observable :
  forall R : list op -> list op,
    (forall x y, path_leb x y = false -> R [x; y] = [y; x]) ->
    exists a b ops, apply_ops ops a = Some b /\ apply_ops (R ops) a <> Some b.
Proof.
  intros R HR. exists r_old, r_new, r_ops. split.
  - vm_compute. reflexivity.
  - unfold r_ops. rewrite HR by (vm_compute; reflexivity).
    vm_compute. intro H. discriminate H.
Qed.

Lemma permutation_sensitive :
  exists a b ops ops',
    Permutation ops ops' /\ apply_ops ops a = Some b /\ apply_ops ops' a <> Some b.
Proof.
  exists r_old, r_new, r_ops, [OpMove "/d/1" "/d/0"; OpRemove "/d/1"]. split; [|split].
  - apply perm_swap.
  - vm_compute. reflexivity.
  - vm_compute. intro H. discriminate H.
Qed.

(* an unbounded family: an array with two elements and ANY tail; remove-then-add at index 0
   replaces the head, add-then-remove gives the document back *)
Lemma permutation_sensitive_family :
  forall (x y q : json) (rest : list json),
    let a := JObj [("d", JArr (x :: y :: rest))] in
    let ops := [OpRemove "/d/0"; OpAdd "/d/0" q] in
    let ops' := [OpAdd "/d/0" q; OpRemove "/d/0"] in
    Permutation ops ops' /\
    apply_ops ops a = Some (JObj [("d", JArr (q :: y :: rest))]) /\
    apply_ops ops' a = Some a /\
    (q <> x -> apply_ops ops' a <> apply_ops ops a).
Proof.
  intros x y q rest a ops ops'. split; [apply perm_swap|].
  assert (E1 : apply_ops ops a = Some (JObj [("d", JArr (q :: y :: rest))])) by (vm_compute; reflexivity).
  assert (E2 : apply_ops ops' a = Some a) by (vm_compute; reflexivity).
  split; [exact E1|]. split; [exact E2|].
  intros Hne H. rewrite E1, E2 in H. unfold a in H. injection H as H. apply Hne. symmetry. exact H.
Qed.

Lemma permutation_sensitive_unbounded :
  forall n, exists l ops ops' b,
    List.length l = n + 2 /\ Permutation ops ops' /\
    apply_ops ops (JObj [("d", JArr l)]) = Some b /\
    apply_ops ops' (JObj [("d", JArr l)]) <> Some b.
Proof.
  intro n. exists (JNum 0 :: JNum 1 :: repeat JNull n).
  destruct (permutation_sensitive_family (JNum 0) (JNum 1) (JStr "q") (repeat JNull n)) as [Hp [H1 [H2 H3]]].
  eexists. eexists. eexists. split; [|split; [exact Hp|split; [exact H1|]]].
  - cbn [List.length]. rewrite repeat_length. lia.
  - intro H. apply H3; [discriminate|]. rewrite H. symmetry. exact H1.
Qed.

Lemma sorted_is_permutation_but_differs :
  exists a b ops,
    Permutation ops (make_patch_of V_current ops) /\
    apply_ops ops a = Some b /\
    apply_ops (make_patch_of V_current ops) a <> Some b.
Proof.
  exists r_old, r_new, r_ops. split; [|split].
  - apply sort_ops_perm.
  - vm_compute. reflexivity.
  - vm_compute. intro H. discriminate H.
Qed.

(* ================================================================ D3a: RFC 6901 round trip *)

(* escape, character by character *)
Definition esc_char (c : ascii) : string :=
  if Ascii.eqb c tilde then "~0" else if Ascii.eqb c slash then "~1" else String c EmptyString.

Fixpoint cmap (f : ascii -> string) (s : string) : string :=
  match s with
  | EmptyString => EmptyString
  | String c r => (f c ++ cmap f r)%string
  end.

Definition esc0_char (c : ascii) : string :=
  if Ascii.eqb c tilde then "~0" else String c EmptyString.

Lemma repl1_tilde_cmap s : repl1 tilde "~0" s = cmap esc0_char s.
Proof.
  induction s as [|c r IH]; [reflexivity|]. cbn [repl1 cmap]. unfold esc0_char at 1.
  destruct (Ascii.eqb c tilde); rewrite IH; reflexivity.
Qed.

Lemma escape_cmap s : escape s = cmap esc_char s.
Proof.
  unfold escape. induction s as [|c r IH]; [reflexivity|].
  cbn [repl1 cmap]. unfold esc_char at 1.
  destruct (Ascii.eqb c tilde) eqn:Et.
  - cbn. rewrite IH. reflexivity.
  - cbn [repl1]. destruct (Ascii.eqb c slash); rewrite IH; reflexivity.
Qed.

Fixpoint noc (c : ascii) (s : string) : bool :=
  match s with
  | EmptyString => true
  | String a r => negb (Ascii.eqb a c) && noc c r
  end.

Lemma escape_no_slash k : noc slash (escape k) = true.
Proof.
  rewrite escape_cmap. induction k as [|c r IH]; [reflexivity|].
  cbn [cmap]. unfold esc_char.
  destruct (Ascii.eqb c tilde); [cbn; exact IH|].
  destruct (Ascii.eqb c slash) eqn:Es; [cbn; exact IH|].
  cbn. rewrite Es. cbn. exact IH.
Qed.

Lemma append_nil_r s : (s ++ "")%string = s.
Proof. induction s as [|c r IH]; [reflexivity|]. cbn. rewrite IH. reflexivity. Qed.

Lemma append_assoc a b c : ((a ++ b) ++ c)%string = (a ++ (b ++ c))%string.
Proof. induction a as [|x r IH]; [reflexivity|]. cbn. rewrite IH. reflexivity. Qed.

Lemma split_noc c e : noc c e = true -> forall s,
  split_char c (e ++ s) = match split_char c s with [] => [e] | h :: t => (e ++ h)%string :: t end.
Proof.
  induction e as [|a r IH]; intros Hn s.
  - cbn. destruct (split_char c s) eqn:E; [|reflexivity].
    destruct s as [|x s']; cbn in E; [discriminate|].
    destruct (Ascii.eqb x c); [discriminate|]. destruct (split_char c s'); discriminate.
  - cbn in Hn. apply andb_true_iff in Hn as [Ha Hr]. apply negb_true_iff in Ha.
    cbn [append split_char]. rewrite Ha. rewrite (IH Hr s).
    destruct (split_char c s); reflexivity.
Qed.

Lemma concat_empty_cons x xs : String.concat "" (x :: xs) = (x ++ String.concat "" xs)%string.
Proof. destruct xs; cbn; [rewrite append_nil_r|]; reflexivity. Qed.

Lemma pointer_path_cons k p : pointer_path (k :: p) = String slash (escape k ++ pointer_path p).
Proof. unfold pointer_path. cbn [map]. rewrite concat_empty_cons. reflexivity. Qed.

Lemma split_pointer_path p : split_char slash (pointer_path p) = "" :: map escape p.
Proof.
  induction p as [|k p IH]; [reflexivity|].
  rewrite pointer_path_cons. cbn [split_char]. rewrite Ascii.eqb_refl.
  rewrite (split_noc _ _ (escape_no_slash k)), IH, append_nil_r. reflexivity.
Qed.

Lemma bad_escape_cmap k s : bad_escape (cmap esc_char k ++ s) = bad_escape s.
Proof.
  induction k as [|c r IH]; [reflexivity|].
  cbn [cmap]. unfold esc_char at 1. rewrite append_assoc.
  destruct (Ascii.eqb c tilde) eqn:Et; [cbn; exact IH|].
  destruct (Ascii.eqb c slash) eqn:Es; [cbn; exact IH|].
  cbn. rewrite Et. exact IH.
Qed.

Lemma bad_escape_pointer_path p : bad_escape (pointer_path p) = false.
Proof.
  induction p as [|k p IH]; [reflexivity|].
  rewrite pointer_path_cons. cbn [bad_escape]. change (Ascii.eqb slash tilde) with false. cbv iota.
  rewrite escape_cmap, bad_escape_cmap. exact IH.
Qed.

Lemma repl2_skip a b by_ c s :
  Ascii.eqb c a = false -> repl2 a b by_ (String c s) = String c (repl2 a b by_ s).
Proof. intro H. cbn [repl2]. rewrite H. destruct s; reflexivity. Qed.

Lemma repl2_two a b by_ c d s :
  repl2 a b by_ (String c (String d s)) =
  if Ascii.eqb c a && Ascii.eqb d b then (by_ ++ repl2 a b by_ s)%string
  else String c (repl2 a b by_ (String d s)).
Proof. reflexivity. Qed.

Lemma unescape_stage1 k : repl2 tilde "1" "/" (cmap esc_char k) = cmap esc0_char k.
Proof.
  induction k as [|c r IH]; [reflexivity|].
  cbn [cmap]. unfold esc_char at 1, esc0_char at 1.
  destruct (Ascii.eqb c tilde) eqn:Et.
  - change ("~0" ++ cmap esc_char r)%string with (String tilde (String "0" (cmap esc_char r))).
    rewrite repl2_two. change (Ascii.eqb tilde tilde && Ascii.eqb "0" "1") with false. cbv iota.
    rewrite repl2_skip by reflexivity. rewrite IH. reflexivity.
  - destruct (Ascii.eqb c slash) eqn:Es.
    + change ("~1" ++ cmap esc_char r)%string with (String tilde (String "1" (cmap esc_char r))).
      rewrite repl2_two. change (Ascii.eqb tilde tilde && Ascii.eqb "1" "1") with true. cbv iota.
      rewrite IH. apply Ascii.eqb_eq in Es. subst c. reflexivity.
    + change (String c "" ++ cmap esc_char r)%string with (String c (cmap esc_char r)).
      rewrite repl2_skip by exact Et. rewrite IH. reflexivity.
Qed.

Lemma unescape_stage2 k : repl2 tilde "0" "~" (cmap esc0_char k) = k.
Proof.
  induction k as [|c r IH]; [reflexivity|].
  cbn [cmap]. unfold esc0_char at 1.
  destruct (Ascii.eqb c tilde) eqn:Et.
  - change ("~0" ++ cmap esc0_char r)%string with (String tilde (String "0" (cmap esc0_char r))).
    rewrite repl2_two. change (Ascii.eqb tilde tilde && Ascii.eqb "0" "0") with true. cbv iota.
    rewrite IH. apply Ascii.eqb_eq in Et. subst c. reflexivity.
  - change (String c "" ++ cmap esc0_char r)%string with (String c (cmap esc0_char r)).
    rewrite repl2_skip by exact Et. rewrite IH. reflexivity.
Qed.

Lemma unescape_escape k : unescape (escape k) = k.
Proof. unfold unescape. rewrite escape_cmap, unescape_stage1. apply unescape_stage2. Qed.

Theorem parse_pointer_path : forall p, parse_pointer (pointer_path p) = Some p.
Proof.
  intro p. unfold parse_pointer. rewrite bad_escape_pointer_path, split_pointer_path.
  cbn [is_empty]. f_equal. rewrite map_map. rewrite <- (map_id p) at 2.
  apply map_ext. exact unescape_escape.
Qed.

(* ================================================================ D3b: the recursive object differ *)

(* a pair that is not object/object: nothing if equal (as Python ==), else one replace *)
Definition leaf_diff (pre : path) (a b : json) : list op :=
  if jeq a b then [] else [OpReplace (pointer_path pre) b].

(* members of the target y that the source x lacks, in the order of y *)
Definition adds_of (pre : path) (x y : list (string * json)) : list op :=
  flat_map (fun kw => match lookup (fst kw) x with
                      | None => [OpAdd (pointer_path (pre ++ [fst kw])) (snd kw)]
                      | Some _ => []
                      end) y.

(* one pass over the members of the source: remove those the target y lacks, descend into
   the others *)
Fixpoint members_diff (rec : string -> json -> json -> list op) (pre : path)
         (y t : list (string * json)) : list op :=
  match t with
  | [] => []
  | (k, v) :: t' =>
    (match lookup k y with
     | Some w => rec k v w
     | None => [OpRemove (pointer_path (pre ++ [k]))]
     end) ++ members_diff rec pre y t'
  end.

Fixpoint diff_at (pre : path) (a b : json) {struct a} : list op :=
  match a, b with
  | JObj x, JObj y =>
    (fix go (t : list (string * json)) : list op :=
       match t with
       | [] => []
       | (k, v) :: t' =>
         (match lookup k y with
          | Some w => diff_at (pre ++ [k]) v w
          | None => [OpRemove (pointer_path (pre ++ [k]))]
          end) ++ go t'
       end) x ++ adds_of pre x y
  | _, _ => leaf_diff pre a b
  end.

Definition diff (a b : json) : list op := diff_at [] a b.

Lemma diff_at_obj pre x y :
  diff_at pre (JObj x) (JObj y) =
  members_diff (fun k v w => diff_at (pre ++ [k]) v w) pre y x ++ adds_of pre x y.
Proof.
  cbn [diff_at]. f_equal. induction x as [|[k v] t IH]; [reflexivity|].
  cbn [members_diff]. rewrite <- IH. reflexivity.
Qed.

Lemma diff_at_leaf pre a b :
  (match a, b with JObj _, JObj _ => False | _, _ => True end) -> diff_at pre a b = leaf_diff pre a b.
Proof. destruct a, b; intro H; try reflexivity. destruct H. Qed.

(* ---------------------------------------------------------------- apply_ops on lists *)

Lemma apply_ops_from_none ops :
  fold_left (fun acc o => d0 <- acc ; apply_op o d0) ops None = None.
Proof. apply fold_none. reflexivity. Qed.

Lemma apply_ops_cons o ops d :
  apply_ops (o :: ops) d = match apply_op o d with Some d' => apply_ops ops d' | None => None end.
Proof.
  unfold apply_ops. cbn [fold_left bind]. destruct (apply_op o d); [reflexivity|].
  apply apply_ops_from_none.
Qed.

Lemma apply_ops_app l1 : forall l2 d,
  apply_ops (l1 ++ l2) d = match apply_ops l1 d with Some d' => apply_ops l2 d' | None => None end.
Proof.
  induction l1 as [|o l1 IH]; intros l2 d; [reflexivity|].
  cbn [app]. rewrite !apply_ops_cons. destruct (apply_op o d); [apply IH | reflexivity].
Qed.

(* ---------------------------------------------------------------- a value inside a host document *)

(* D holds a at pre, and every container on the way is an object *)
Fixpoint hosts (pre : path) (a D : json) : Prop :=
  match pre with
  | [] => D = a
  | k :: r => exists kvs c, D = JObj kvs /\ lookup k kvs = Some c /\ hosts r a c
  end.

(* D with the value at pre exchanged for r *)
Fixpoint plug (pre : path) (r D : json) : json :=
  match pre with
  | [] => r
  | k :: rest =>
    match D with
    | JObj kvs => match lookup k kvs with
                  | Some c => JObj (aset k (plug rest r c) kvs)
                  | None => D
                  end
    | _ => D
    end
  end.

Lemma hosts_plug pre : forall a r D, hosts pre a D -> hosts pre r (plug pre r D).
Proof.
  induction pre as [|k pre IH]; intros a r D H; [reflexivity|].
  destruct H as [kvs [c [-> [Hl Hc]]]]. cbn [plug]. rewrite Hl.
  exists (aset k (plug pre r c) kvs), (plug pre r c). split; [reflexivity|].
  split; [apply lookup_aset_same | eapply IH; exact Hc].
Qed.

Lemma plug_plug pre : forall a r1 r2 D, hosts pre a D -> plug pre r2 (plug pre r1 D) = plug pre r2 D.
Proof.
  induction pre as [|k pre IH]; intros a r1 r2 D H; [reflexivity|].
  destruct H as [kvs [c [-> [Hl Hc]]]]. cbn [plug]. rewrite Hl. cbn [plug].
  rewrite lookup_aset_same, aset_aset, (IH _ _ _ _ Hc). reflexivity.
Qed.

Lemma plug_id pre : forall a D, hosts pre a D -> plug pre a D = D.
Proof.
  induction pre as [|k pre IH]; intros a D H; [symmetry; exact H|].
  destruct H as [kvs [c [-> [Hl Hc]]]]. cbn [plug]. rewrite Hl, (IH _ _ Hc), (aset_id _ _ _ Hl).
  reflexivity.
Qed.

Lemma hosts_child pre : forall x D k v,
  hosts pre (JObj x) D -> lookup k x = Some v -> hosts (pre ++ [k]) v D.
Proof.
  induction pre as [|k0 pre IH]; intros x D k v H Hk.
  - cbn in H. subst D. exists x, v. repeat split; assumption.
  - destruct H as [kvs [c [-> [Hl Hc]]]]. exists kvs, c. repeat split; try assumption.
    eapply IH; eassumption.
Qed.

Lemma plug_child pre : forall x D k v r,
  hosts pre (JObj x) D -> lookup k x = Some v ->
  plug (pre ++ [k]) r D = plug pre (JObj (aset k r x)) D.
Proof.
  induction pre as [|k0 pre IH]; intros x D k v r H Hk.
  - cbn in H. subst D. cbn. rewrite Hk. reflexivity.
  - destruct H as [kvs [c [-> [Hl Hc]]]]. cbn [app plug]. rewrite Hl.
    rewrite (IH _ _ _ _ _ Hc Hk). reflexivity.
Qed.

(* ---------------------------------------------------------------- operations at pre ++ q *)

Section Lift.
  Variable F : path -> json -> option json.
  Hypothesis F_step : forall k r d, r <> [] -> F (k :: r) d = upd_child k (F r) d.

  Lemma lift pre : forall q a D, hosts pre a D -> q <> [] ->
    F (pre ++ q) D = (r <- F q a ; Some (plug pre r D)).
  Proof.
    induction pre as [|k pre IH]; intros q a D H Hq.
    - cbn in H. subst D. cbn. destruct (F q a); reflexivity.
    - destruct H as [kvs [c [-> [Hl Hc]]]]. cbn [app].
      rewrite F_step by (destruct pre; [exact Hq | discriminate]).
      cbn [upd_child]. rewrite Hl. cbn [bind]. rewrite (IH _ _ _ Hc Hq).
      destruct (F q a); cbn [bind plug]; [rewrite Hl|]; reflexivity.
  Qed.
End Lift.

Lemma add_step v k r d : r <> [] -> add_at (k :: r) v d = upd_child k (add_at r v) d.
Proof. destruct r; [intro H; contradiction H; reflexivity | reflexivity]. Qed.
Lemma remove_step k r d : r <> [] -> remove_at (k :: r) d = upd_child k (remove_at r) d.
Proof. destruct r; [intro H; contradiction H; reflexivity | reflexivity]. Qed.
Lemma replace_step v k r d : r <> [] -> replace_at (k :: r) v d = upd_child k (replace_at r v) d.
Proof. destruct r; [intro H; contradiction H; reflexivity | reflexivity]. Qed.

Lemma remove_lift pre x D k v :
  hosts pre (JObj x) D -> lookup k x = Some v ->
  apply_op (OpRemove (pointer_path (pre ++ [k]))) D = Some (plug pre (JObj (adel k x)) D).
Proof.
  intros H Hk. cbn [apply_op]. rewrite parse_pointer_path. cbn [bind].
  rewrite (lift remove_at remove_step pre [k] _ _ H) by discriminate.
  cbn [remove_at]. rewrite Hk. reflexivity.
Qed.

Lemma add_lift pre x D k v :
  hosts pre (JObj x) D ->
  apply_op (OpAdd (pointer_path (pre ++ [k])) v) D = Some (plug pre (JObj (aset k v x)) D).
Proof.
  intros H. cbn [apply_op]. rewrite parse_pointer_path. cbn [bind].
  rewrite (lift (fun p => add_at p v) (add_step v) pre [k] _ _ H) by discriminate.
  reflexivity.
Qed.

Lemma replace_at_plug pre : forall a v D, hosts pre a D -> replace_at pre v D = Some (plug pre v D).
Proof.
  induction pre as [|k pre IH]; intros a v D H; [reflexivity|].
  destruct H as [kvs [c [-> [Hl Hc]]]]. destruct pre as [|k' pre].
  - cbn. rewrite Hl. reflexivity.
  - rewrite replace_step by discriminate. cbn [upd_child]. rewrite Hl. cbn [bind].
    rewrite (IH _ _ _ Hc). cbn [bind plug]. rewrite Hl. reflexivity.
Qed.

Lemma replace_lift pre a v D :
  hosts pre a D -> apply_op (OpReplace (pointer_path pre) v) D = Some (plug pre v D).
Proof.
  intro H. cbn [apply_op]. rewrite parse_pointer_path. cbn [bind]. eapply replace_at_plug. exact H.
Qed.

(* ---------------------------------------------------------------- keys *)

Lemma lookup_none_iff k (kvs : list (string * json)) : lookup k kvs = None <-> ~ In k (map fst kvs).
Proof.
  induction kvs as [|[k0 v0] t IH]; cbn.
  - split; [intros _ H; exact H | reflexivity].
  - destruct (String.eqb k k0) eqn:E.
    + apply String.eqb_eq in E. subst k0. split; [discriminate | intro H; contradiction H; left; reflexivity].
    + apply String.eqb_neq in E. rewrite IH. split.
      * intros H [H1|H1]; [apply E; symmetry; exact H1 | exact (H H1)].
      * intros H H1. apply H. right. exact H1.
Qed.

Lemma existsb_keys k (l : list string) : existsb (String.eqb k) l = true <-> In k l.
Proof.
  rewrite existsb_exists. split.
  - intros [k' [Hin E]]. apply String.eqb_eq in E. subst. exact Hin.
  - intro H. exists k. split; [exact H | apply String.eqb_refl].
Qed.

Lemma uniq_NoDup kvs : uniq (JObj kvs) = true -> NoDup (map fst kvs).
Proof.
  induction kvs as [|[k v] t IH]; intro Hu; [constructor|].
  rewrite uniq_cons in Hu. apply andb_true_iff in Hu as [Hu Ht]. apply andb_true_iff in Hu as [Hk Hv].
  cbn. constructor; [|exact (IH Ht)].
  intro Hin. apply existsb_keys in Hin. rewrite Hin in Hk. discriminate.
Qed.

(* ---------------------------------------------------------------- per-key states of the object being rewritten *)

Definition good (z : list (string * json)) (k : string) (w : json) : Prop :=
  exists v', lookup k z = Some v' /\ jeq v' w = true /\ uniq v' = true.

(* after the pass over the source members *)
Definition S1 (x y z : list (string * json)) (k : string) : Prop :=
  match lookup k x, lookup k y with
  | Some _, Some w => good z k w
  | _, _ => lookup k z = None
  end.

(* after the additions *)
Definition S2 (y z : list (string * json)) (k : string) : Prop :=
  match lookup k y with
  | Some w => good z k w
  | None => lookup k z = None
  end.

Lemma good_ext z z' k w : lookup k z' = lookup k z -> good z k w -> good z' k w.
Proof. intros E [v' H]. exists v'. rewrite E. exact H. Qed.

Lemma S1_ext x y z z' k : lookup k z' = lookup k z -> S1 x y z k -> S1 x y z' k.
Proof.
  unfold S1. intros E H. destruct (lookup k x); [destruct (lookup k y)|];
    [eapply good_ext; eassumption | rewrite E; exact H | rewrite E; exact H].
Qed.

Lemma S2_ext y z z' k : lookup k z' = lookup k z -> S2 y z k -> S2 y z' k.
Proof.
  unfold S2. intros E H. destruct (lookup k y); [eapply good_ext; eassumption | rewrite E; exact H].
Qed.

(* ---------------------------------------------------------------- the pass over the source members *)

Definition rec_ok (pre : path) (x y : list (string * json)) (rec : string -> json -> json -> list op) : Prop :=
  forall k v w, In (k, v) x -> lookup k y = Some w ->
    forall D, hosts (pre ++ [k]) v D ->
      exists r, apply_ops (rec k v w) D = Some (plug (pre ++ [k]) r D) /\ jeq r w = true /\ uniq r = true.

Lemma members_ok pre x y rec :
  uniq (JObj x) = true -> rec_ok pre x y rec ->
  forall t z D,
    incl t x -> NoDup (map fst t) -> uniq (JObj z) = true -> hosts pre (JObj z) D ->
    (forall k, (In k (map fst t) -> lookup k z = lookup k x) /\ (~ In k (map fst t) -> S1 x y z k)) ->
    exists z', apply_ops (members_diff rec pre y t) D = Some (plug pre (JObj z') D) /\
               uniq (JObj z') = true /\ forall k, S1 x y z' k.
Proof.
  intros Hx Hrec. induction t as [|[k0 v0] t IH]; intros z D Hincl Hnd Hz Hh Hinv.
  - exists z. split; [|split].
    + cbn. rewrite (plug_id _ _ _ Hh). reflexivity.
    + exact Hz.
    + intro k. apply (Hinv k). intro H. exact H.
  - assert (Hin0 : In (k0, v0) x) by (apply Hincl; left; reflexivity).
    assert (Hx0 : lookup k0 x = Some v0) by (apply uniq_obj_lookup; assumption).
    assert (Hz0 : lookup k0 z = Some v0).
    { rewrite <- Hx0. apply (Hinv k0). left. reflexivity. }
    cbn [map fst] in Hnd. inversion Hnd as [|? ? Hnot Hnd']; subst.
    assert (Hincl' : incl t x) by (intros kv H; apply Hincl; right; exact H).
    cbn [members_diff]. rewrite apply_ops_app.
    destruct (lookup k0 y) as [w|] eqn:Ey.
    + destruct (Hrec k0 v0 w Hin0 Ey D (hosts_child _ _ _ _ _ Hh Hz0)) as [r [Hr [Hj Hur]]].
      rewrite Hr, (plug_child _ _ _ _ _ r Hh Hz0).
      destruct (IH (aset k0 r z) (plug pre (JObj (aset k0 r z)) D) Hincl' Hnd'
                   (uniq_aset _ _ _ Hz Hur) (hosts_plug _ _ _ _ Hh)) as [z' [Hz' [Hu' Hs']]].
      * intro k. split.
        -- intro Hk. assert (Hne : k <> k0) by (intro; subst; contradiction).
           rewrite (lookup_aset_other _ _ _ _ Hne). apply (Hinv k). right. exact Hk.
        -- intro Hk. destruct (String.eqb k k0) eqn:E.
           ++ apply String.eqb_eq in E. subst k. unfold S1. rewrite Hx0, Ey.
              exists r. split; [apply lookup_aset_same | split; assumption].
           ++ apply String.eqb_neq in E. apply (S1_ext _ _ z); [apply lookup_aset_other; exact E|].
              apply (Hinv k). intros [H|H]; [apply E; symmetry; exact H | exact (Hk H)].
      * exists z'. split; [|split; assumption].
        rewrite Hz'. rewrite (plug_plug _ _ _ _ _ Hh). reflexivity.
    + rewrite apply_ops_cons, (remove_lift _ _ _ _ _ Hh Hz0). cbn [apply_ops fold_left].
      destruct (IH (adel k0 z) (plug pre (JObj (adel k0 z)) D) Hincl' Hnd'
                   (uniq_adel _ _ Hz) (hosts_plug _ _ _ _ Hh)) as [z' [Hz' [Hu' Hs']]].
      * intro k. split.
        -- intro Hk. assert (Hne : k <> k0) by (intro; subst; contradiction).
           rewrite (lookup_adel_other _ _ _ Hne). apply (Hinv k). right. exact Hk.
        -- intro Hk. destruct (String.eqb k k0) eqn:E.
           ++ apply String.eqb_eq in E. subst k. unfold S1. rewrite Hx0, Ey. apply lookup_adel_same.
           ++ apply String.eqb_neq in E. apply (S1_ext _ _ z); [apply lookup_adel_other; exact E|].
              apply (Hinv k). intros [H|H]; [apply E; symmetry; exact H | exact (Hk H)].
      * exists z'. split; [|split; assumption].
        change (fold_left _ [] ?s) with s in *.
        unfold apply_ops in Hz'. unfold apply_ops. rewrite Hz'. rewrite (plug_plug _ _ _ _ _ Hh). reflexivity.
Qed.

(* ---------------------------------------------------------------- the additions *)

Lemma adds_ok pre x y :
  uniq (JObj y) = true ->
  forall t z D,
    incl t y -> NoDup (map fst t) -> uniq (JObj z) = true -> hosts pre (JObj z) D ->
    (forall k, (In k (map fst t) -> S1 x y z k) /\ (~ In k (map fst t) -> S2 y z k)) ->
    exists z', apply_ops (adds_of pre x t) D = Some (plug pre (JObj z') D) /\
               uniq (JObj z') = true /\ forall k, S2 y z' k.
Proof.
  intros Hy. induction t as [|[k0 w0] t IH]; intros z D Hincl Hnd Hz Hh Hinv.
  - exists z. split; [|split].
    + cbn. rewrite (plug_id _ _ _ Hh). reflexivity.
    + exact Hz.
    + intro k. apply (Hinv k). intro H. exact H.
  - assert (Hin0 : In (k0, w0) y) by (apply Hincl; left; reflexivity).
    assert (Hy0 : lookup k0 y = Some w0) by (apply uniq_obj_lookup; assumption).
    assert (Hw0 : uniq w0 = true) by (exact (uniq_obj_In y Hy k0 w0 Hin0)).
    cbn [map fst] in Hnd. inversion Hnd as [|? ? Hnot Hnd']; subst.
    assert (Hincl' : incl t y) by (intros kv H; apply Hincl; right; exact H).
    unfold adds_of. cbn [flat_map fst snd]. fold (adds_of pre x t). rewrite apply_ops_app.
    destruct (lookup k0 x) as [v|] eqn:Ex.
    + change (apply_ops [] D) with (Some D).
      apply (IH z D Hincl' Hnd' Hz Hh). intro k. split.
      * intro Hk. apply (Hinv k). right. exact Hk.
      * intro Hk. destruct (String.eqb k k0) eqn:E.
        -- apply String.eqb_eq in E. subst k.
           assert (H1 : S1 x y z k0) by (apply (Hinv k0); left; reflexivity).
           unfold S1 in H1. rewrite Ex, Hy0 in H1. unfold S2. rewrite Hy0. exact H1.
        -- apply String.eqb_neq in E. apply (Hinv k).
           intros [H|H]; [apply E; symmetry; exact H | exact (Hk H)].
    + rewrite apply_ops_cons, (add_lift _ _ _ _ _ Hh). change (apply_ops [] ?d) with (Some d).
      destruct (IH (aset k0 w0 z) (plug pre (JObj (aset k0 w0 z)) D) Hincl' Hnd'
                   (uniq_aset _ _ _ Hz Hw0) (hosts_plug _ _ _ _ Hh)) as [z' [Hz' [Hu' Hs']]].
      * intro k. split.
        -- intro Hk. assert (Hne : k <> k0) by (intro; subst; contradiction).
           apply (S1_ext _ _ z); [apply lookup_aset_other; exact Hne|].
           apply (Hinv k). right. exact Hk.
        -- intro Hk. destruct (String.eqb k k0) eqn:E.
           ++ apply String.eqb_eq in E. subst k. unfold S2. rewrite Hy0.
              exists w0. split; [apply lookup_aset_same | split; [apply jeq_refl|]; exact Hw0].
           ++ apply String.eqb_neq in E. apply (S2_ext _ z); [apply lookup_aset_other; exact E|].
              apply (Hinv k). intros [H|H]; [apply E; symmetry; exact H | exact (Hk H)].
      * exists z'. split; [|split; assumption].
        rewrite Hz'. rewrite (plug_plug _ _ _ _ _ Hh). reflexivity.
Qed.

(* ---------------------------------------------------------------- the final state is the target, up to member order *)

Lemma jeq_members_intro' x y :
  (forall k v, In (k, v) x -> exists w, lookup k y = Some w /\ jeq v w = true) -> jeq_members x y = true.
Proof.
  induction x as [|[k v] t IH]; intro H; [reflexivity|]. cbn.
  destruct (H k v (or_introl eq_refl)) as [w [E1 E2]]. rewrite E1, E2. cbn. apply IH.
  intros k' v' Hin. apply H. right. exact Hin.
Qed.

Lemma S2_jeq y z :
  uniq (JObj y) = true -> uniq (JObj z) = true -> (forall k, S2 y z k) -> jeq (JObj z) (JObj y) = true.
Proof.
  intros Hy Hz HS. rewrite jeq_obj. apply andb_true_iff. split.
  - apply Nat.eqb_eq. rewrite <- (map_length fst z), <- (map_length fst y).
    apply Nat.le_antisymm; apply NoDup_incl_length; try (apply uniq_NoDup; assumption).
    + intros k Hk. specialize (HS k). unfold S2 in HS.
      destruct (lookup k y) eqn:E.
      * destruct (in_dec string_dec k (map fst y)) as [H|H]; [exact H|].
        apply lookup_none_iff in H. rewrite H in E. discriminate.
      * apply lookup_none_iff in HS. contradiction.
    + intros k Hk. specialize (HS k). unfold S2 in HS.
      destruct (lookup k y) eqn:E.
      * destruct HS as [v' [Hl _]]. destruct (in_dec string_dec k (map fst z)) as [H|H]; [exact H|].
        apply lookup_none_iff in H. rewrite H in Hl. discriminate.
      * apply lookup_none_iff in E. contradiction.
  - apply jeq_members_intro'. intros k v Hin.
    assert (Hl : lookup k z = Some v) by (apply uniq_obj_lookup; assumption).
    specialize (HS k). unfold S2 in HS. destruct (lookup k y) as [w|].
    + destruct HS as [v' [Hl' [Hj _]]]. rewrite Hl in Hl'. injection Hl' as <-.
      exists w. split; [reflexivity | exact Hj].
    + rewrite Hl in HS. discriminate.
Qed.

(* ---------------------------------------------------------------- main theorem *)

Lemma leaf_ok pre a b D :
  uniq a = true -> uniq b = true -> hosts pre a D ->
  exists r, apply_ops (leaf_diff pre a b) D = Some (plug pre r D) /\ jeq r b = true /\ uniq r = true.
Proof.
  intros Ha Hb Hh. unfold leaf_diff. destruct (jeq a b) eqn:E.
  - exists a. split; [|split; assumption]. cbn. rewrite (plug_id _ _ _ Hh). reflexivity.
  - exists b. split; [|split; [apply jeq_refl|]; exact Hb].
    rewrite apply_ops_cons, (replace_lift _ _ _ _ Hh). reflexivity.
Qed.

Theorem diff_at_ok : forall a b pre D,
  uniq a = true -> uniq b = true -> hosts pre a D ->
  exists r, apply_ops (diff_at pre a b) D = Some (plug pre r D) /\ jeq r b = true /\ uniq r = true.
Proof.
  apply (json_ind2 (fun a => forall b pre D,
    uniq a = true -> uniq b = true -> hosts pre a D ->
    exists r, apply_ops (diff_at pre a b) D = Some (plug pre r D) /\ jeq r b = true /\ uniq r = true)).
  1-5: intros; rewrite diff_at_leaf by exact I; apply leaf_ok; assumption.
  intros x IH b pre D Hx Hb Hh.
  destruct b as [| | | | |y]; try (rewrite diff_at_leaf by exact I; apply leaf_ok; assumption).
  rewrite diff_at_obj, apply_ops_app.
  assert (Hrec : rec_ok pre x y (fun k v w => diff_at (pre ++ [k]) v w)).
  { intros k v w Hin Hl D' Hh'. rewrite Forall_forall in IH.
    apply (IH (k, v) Hin w (pre ++ [k]) D'); [| |exact Hh'].
    - exact (uniq_obj_In x Hx k v Hin).
    - exact (uniq_obj_In y Hb k w (lookup_In _ _ _ Hl)). }
  destruct (members_ok pre x y _ Hx Hrec x x D (incl_refl x) (uniq_NoDup _ Hx) Hx Hh) as [z1 [H1 [Hu1 HS1]]].
  { intro k. split; [reflexivity|]. intro Hk. apply lookup_none_iff in Hk.
    unfold S1. rewrite Hk. reflexivity. }
  rewrite H1.
  destruct (adds_ok pre x y Hb y z1 (plug pre (JObj z1) D) (incl_refl y) (uniq_NoDup _ Hb) Hu1
                    (hosts_plug _ _ _ _ Hh)) as [z2 [H2 [Hu2 HS2]]].
  { intro k. split; [intros _; apply HS1|]. intro Hk. apply lookup_none_iff in Hk.
    specialize (HS1 k). unfold S1 in HS1. unfold S2. rewrite Hk in *.
    destruct (lookup k x); exact HS1. }
  exists (JObj z2). split; [|split].
  - rewrite H2. rewrite (plug_plug _ _ _ _ _ Hh). reflexivity.
  - apply S2_jeq; assumption.
  - exact Hu2.
Qed.

(* the differ is correct for ALL documents with unique keys: its patch applies to a and gives
   b up to the order of object members (Python dict ==) *)
Theorem diff_ok : forall a b,
  uniq a = true -> uniq b = true ->
  exists r, apply_ops (diff a b) a = Some r /\ jeq r b = true /\ uniq r = true.
Proof.
  intros a b Ha Hb. destruct (diff_at_ok a b [] a Ha Hb eq_refl) as [r H]. exists r. exact H.
Qed.

(* ... hence annet's make_patch / apply_patch round trip holds with this differ in place of
   the library's, when the library's order is kept *)
Corollary diff_roundtrip_P_C13 : forall V a b,
  v_sorted V = false -> uniq a = true -> uniq b = true ->
  P_C13_patch (a, b) (apply_ops (make_patch_of V (diff a b)) a) = true.
Proof.
  intros V a b HV Ha Hb. unfold make_patch_of. rewrite HV.
  destruct (diff_ok a b Ha Hb) as [r [H1 [H2 _]]]. rewrite H1. exact H2.
Qed.

(* ---------------------------------------------------------------- non-vacuity *)

Definition ex_a : json :=
  JObj [("a/b", JObj [("~", JNum 1); ("gone", JStr "x"); ("arr", JArr [JNum 1; JNum 2]);
                      ("same", JObj [("q", JNull)])]);
        ("drop~1", JBool true);
        ("t", JStr "s")].
Definition ex_b : json :=
  JObj [("t", JObj [("n", JNum 0)]);
        ("a/b", JObj [("new/~0", JArr [JStr "v"]); ("same", JObj [("q", JNull)]);
                      ("arr", JArr [JNum 2; JNum 1]); ("~", JNum 2)]);
        ("~1", JNull)].
(* what the patch produces: the members of ex_b in another order *)
Definition ex_r : json :=
  JObj [("a/b", JObj [("~", JNum 2); ("arr", JArr [JNum 2; JNum 1]);
                      ("same", JObj [("q", JNull)]); ("new/~0", JArr [JStr "v"])]);
        ("t", JObj [("n", JNum 0)]);
        ("~1", JNull)].

Example diff_example_ops :
  diff ex_a ex_b =
  [OpReplace "/a~1b/~0" (JNum 2); OpRemove "/a~1b/gone";
   OpReplace "/a~1b/arr" (JArr [JNum 2; JNum 1]);
   OpAdd "/a~1b/new~1~00" (JArr [JStr "v"]);
   OpRemove "/drop~01"; OpReplace "/t" (JObj [("n", JNum 0)]);
   OpAdd "/~01" JNull].
Proof. vm_compute. reflexivity. Qed.

Example diff_example_applies :
  uniq ex_a = true /\ uniq ex_b = true /\
  apply_ops (diff ex_a ex_b) ex_a = Some ex_r /\ jeq ex_r ex_b = true.
Proof. vm_compute. repeat split. Qed.

(* why the theorem speaks of [jeq]: the result need not be syntactically the target *)
Lemma diff_not_leibniz :
  exists a b, uniq a = true /\ uniq b = true /\ apply_ops (diff a b) a <> Some b.
Proof.
  exists ex_a, ex_b. split; [reflexivity|]. split; [reflexivity|].
  vm_compute. intro H. discriminate H.
Qed.

Print Assumptions diff_root_ok.
Print Assumptions reorder_observable.
Print Assumptions parse_pointer_path.
Print Assumptions diff_ok.
Print Assumptions diff_roundtrip_P_C13.
