(* C02 proof library: the per-level guards of the full-depth theorems (Proofs/AclDeviceNested.v section 6,
   stated on the entries of the DIFF) follow from the device domain alone (Spec/P_C01.v, stated on the rows of
   old and of the ACL-filtered new).

   1. apply_acl in the lenient mode, level by level ([acl_filter_cons], [acl_filter_in]); the filtered part of a
      configuration of the domain is in the domain ([good_filter]).
   2. One level of the diff the patch is made from, inside the domain (default diff logic everywhere): an entry is
      the entry of a row of the filtered new (ADDED, or AFFECTED / UNCHANGED when old has the row too) or of a row of
      the filtered old that new does not have (REMOVED, or AFFECTED / UNCHANGED when the ACL rule is cant_delete), and
      below an entry that is not REMOVED / ADDED the diff is again such a diff ([level_entry]).
   3. Walking old: every per-level condition of [cguard_t false] and [bguard_t] holds ([cguard_of_domain],
      [bguard_of_domain]), except in two classes stated on old / new / the rulebook ([kept_ok_t]): a block with
      children that is absent from new at its place and (X1) is cant_delete while new holds another row of its slot,
      or (X2) is not cant_delete and governed by the `permanent` logic.
   4. Every entry of that diff, at every depth, carries the slot of a row of the universe ([din]); hence the diff is
      regular when no rule of the universe is %force_commit ([domain_diff_regular]). *)
From Coq Require Import List String Ascii Bool Arith ZArith Lia Permutation.
From Annet Require Import Base.Str Base.Tree Model.Pattern Model.Rulebook Model.Diff Model.Order
     Model.Patch Model.Blocks Model.Pipeline Model.Device Model.Acl Model.AclPipeline
     Spec.PipelineCase Spec.P_C03 Spec.P_C01 Spec.P_C02
     Proofs.DiffBasics Proofs.DiffProofsLib Proofs.DiffProofsAnnot Proofs.DiffProofsLossless
     Proofs.ConvergeDevice Proofs.ConvergeSim Proofs.ConvergeExpected Proofs.ConvergeDiff Proofs.ConvergeNodes
     Proofs.ConvergeMain Proofs.ConvergeWf
     Proofs.AclProofs Proofs.AclPipelineProofs Proofs.AclDeviceProofs Proofs.AclPatchRel2 Proofs.AclDeviceNested.
Import ListNotations.
Open Scope string_scope.
Open Scope list_scope.

(* ------------------------------------------------------------------------------------ *)
(* 0. small facts                                                                         *)

Lemma allow_A_facts s : allow_A s = true ->
  a_dlogic (mi_attrs s) = DDefault /\ a_logic (mi_attrs s) <> LOrdered /\
  a_force_commit (mi_attrs s) = false /\ is_rewrite s = false.
Proof.
  unfold allow_A, allow_eval, is_rewrite. intro H. apply andb_true_iff in H as [H Hfc]. apply andb_true_iff in H as [Hd Hl].
  apply dlogic_eqb_eq in Hd. apply negb_true_iff in Hfc. rewrite Hd. repeat split; try assumption.
  intro E. rewrite E in Hl. discriminate.
Qed.

Lemma lkeys_of_keys rmatch rs : forall a b : forest, keys a = keys b -> lkeys rmatch rs a = lkeys rmatch rs b.
Proof.
  induction a as [|[r t] a IH]; intros [|[r' t'] b] E; try discriminate; [reflexivity|].
  cbn in E. injection E as E1 E2. subst r'. rewrite !lkeys_cons. rewrite (IH b E2). reflexivity.
Qed.

Lemma lkeys_filter_nodup rmatch rs (p : string * tree -> bool) : forall f,
  NoDup (lkeys rmatch rs f) -> NoDup (lkeys rmatch rs (filter p f)).
Proof.
  induction f as [|e f IH]; intro H; [exact H|]. rewrite lkeys_cons in H. cbn [filter].
  destruct (ekey rmatch rs e) as [k|] eqn:Ek; cbn [app] in H.
  - inversion H as [|k0 l0 Hn Hnd]; subst. destruct (p e); [|exact (IH Hnd)].
    rewrite lkeys_cons, Ek. cbn [app]. constructor; [|exact (IH Hnd)].
    intro Hin. apply Hn. apply lkeys_in in Hin as (e' & He' & Hk'). apply lkeys_in. exists e'.
    apply filter_In in He' as [He' _]. split; assumption.
  - destruct (p e); [|exact (IH H)]. rewrite lkeys_cons, Ek. exact (IH H).
Qed.

Lemma filter_slot_none rmatch rs s : forall f, ~ In (key_of s) (lkeys rmatch rs f) -> filter (in_slot rmatch rs s) f = [].
Proof.
  intros f H. apply noslot_lkeys in H. induction f as [|e f IH]; [reflexivity|]. cbn [forallb] in H.
  apply andb_true_iff in H as [H1 H2]. cbn [filter]. apply negb_true_iff in H1. rewrite H1. exact (IH H2).
Qed.

(* on a level with one row per slot the occupant of a slot is the only entry of the slot *)
Lemma uniq_filter_slot rmatch rs s f e : lvl_uniq rmatch rs f -> In e f -> ekey rmatch rs e = Some (key_of s) ->
  filter (in_slot rmatch rs s) f = [e].
Proof.
  intros Hu Hin Hk. pose proof (uniq_sfind rmatch rs s f e Hu Hin Hk) as Hs.
  destruct (sfind_split rmatch rs s f e Hu Hs) as (l1 & l2 & E & _ & H1 & H2). subst f.
  rewrite filter_app. cbn [filter]. rewrite (filter_slot_none rmatch rs s l1 H1), (filter_slot_none rmatch rs s l2 H2).
  assert (Hi : in_slot rmatch rs s e = true) by (apply ins_iff; exact Hk). rewrite Hi. reflexivity.
Qed.

(* two known rows of one slot on a level with one row per slot are the same entry *)
Lemma uniq_same_row rmatch rs f r t s crs r' t' s' crs' :
  lvl_uniq rmatch rs f -> In (r, t) f -> match_row rmatch r rs = Some (s, crs) ->
  In (r', t') f -> match_row rmatch r' rs = Some (s', crs') -> key_of s' = key_of s -> r' = r /\ t' = t.
Proof.
  intros Hu Hin Hm Hin' Hm' Hk.
  apply (slot_same_row rmatch rs s f r t r' s' crs' t' Hu); try assumption.
  apply uniq_sfind; [exact Hu | exact Hin | apply (match_ekey rmatch rs r s crs t Hm)].
Qed.

(* ------------------------------------------------------------------------------------ *)
(* 1. apply_acl in the lenient mode, level by level                                       *)

Section Filter.
  Variable amatch_ : string -> string -> option (list string).
  Variable asrc : string -> string.
  Variable arev : string -> string.
  Variable anorm : string -> string.

  Notation filt := (acl_filter amatch_ asrc arev anorm).
  Notation passes ars r := (acl_passes amatch_ asrc arev anorm ars r).
  Notation amatch := (acl_match amatch_ asrc arev anorm).

  Lemma acl_filter_nil ars : filt ars [] = [].
  Proof. reflexivity. Qed.

  Lemma acl_filter_cons ars row c l :
    filt ars ((row, c) :: l) =
    match amatch row ars with
    | MSome m crs => if drops m then filt ars l else (row, T (filt crs (kids c))) :: filt ars l
    | _ => filt ars l
    end.
  Proof.
    unfold acl_filter, acl_match. rewrite apply_cons.
    destruct (match_row_to_acl amatch_ asrc arev anorm row ars false) as [|g|m crs] eqn:E.
    - reflexivity.
    - exfalso. eapply mrow_false_noerr. exact E.
    - destruct (drops m); [reflexivity|]. rewrite !apply_lenient_exact. reflexivity.
  Qed.

  Lemma passes_match ars r acrs : passes ars r = Some acrs ->
    exists m, amatch r ars = MSome m acrs /\ drops m = false.
  Proof.
    unfold acl_passes, P_C02.amatch. destruct (amatch r ars) as [|g|m crs]; try discriminate.
    destruct (drops m) eqn:Ed; [discriminate|]. intro H. injection H as H. subst. exists m. split; [reflexivity | exact Ed].
  Qed.

  Lemma match_passes ars r m acrs : amatch r ars = MSome m acrs -> drops m = false -> passes ars r = Some acrs.
  Proof. intros E Ed. unfold acl_passes, P_C02.amatch. rewrite E, Ed. reflexivity. Qed.

  Lemma acl_filter_in : forall f ars r t', In (r, t') (filt ars f) ->
    exists t acrs, In (r, t) f /\ passes ars r = Some acrs /\ t' = T (filt acrs (kids t)).
  Proof.
    induction f as [|[row c] l IH]; intros ars r t' H; [destruct H|].
    rewrite acl_filter_cons in H.
    assert (Htl : In (r, t') (filt ars l) ->
                  exists t acrs, In (r, t) ((row, c) :: l) /\ passes ars r = Some acrs /\ t' = T (filt acrs (kids t))).
    { intro G. destruct (IH _ _ _ G) as (t & acrs & H1 & H2 & H3). exists t, acrs. split; [now right | auto]. }
    destruct (amatch row ars) as [|g|m crs] eqn:E; [exact (Htl H) | exact (Htl H) |].
    destruct (drops m) eqn:Ed; [exact (Htl H)|]. destruct H as [H|H]; [|exact (Htl H)].
    injection H as E1 E2. subst r t'. exists c, crs. split; [now left|]. split; [|reflexivity].
    eapply match_passes; eassumption.
  Qed.

  Lemma acl_filter_in_conv : forall f ars r t acrs, In (r, t) f -> passes ars r = Some acrs ->
    In (r, T (filt acrs (kids t))) (filt ars f).
  Proof.
    induction f as [|[row c] l IH]; intros ars r t acrs Hin Hp; [destruct Hin|].
    rewrite acl_filter_cons. destruct Hin as [Hin|Hin].
    - injection Hin as E1 E2. subst row c. destruct (passes_match ars r acrs Hp) as (m & E & Ed). rewrite E, Ed. now left.
    - specialize (IH ars r t acrs Hin Hp). destruct (amatch row ars) as [|g|m crs]; try exact IH.
      destruct (drops m); [exact IH | now right].
  Qed.

  Lemma acl_filter_keys_eq ars : forall f,
    keys (filt ars f) = keys (filter (fun e : string * tree => is_some (passes ars (fst e))) f).
  Proof.
    induction f as [|[row c] l IH]; [reflexivity|]. rewrite acl_filter_cons. cbn [filter fst].
    unfold acl_passes at 1, P_C02.amatch.
    destruct (amatch row ars) as [|g|m crs]; cbn [is_some]; try exact IH.
    destruct (drops m); cbn [is_some]; [exact IH|]. unfold keys in *. cbn [map fst]. rewrite IH. reflexivity.
  Qed.

  Lemma acl_filter_nodup ars f : NoDup (keys f) -> NoDup (keys (filt ars f)).
  Proof. intro H. rewrite acl_filter_keys_eq. apply nodup_keys_filter. exact H. Qed.

  Lemma acl_filter_wf : forall f ars, wf f -> wf (filt ars f).
  Proof.
    apply (forest_sub_ind (fun f => forall ars, wf f -> wf (filt ars f))). intros f IH ars Hw.
    apply wf_intro; [apply acl_filter_nodup, wf_keys; exact Hw|].
    intros r t' Hin. apply acl_filter_in in Hin as (t & acrs & Hin & _ & E). subst t'. cbn [kids].
    apply (IH r t Hin). exact (wf_in f r t Hw Hin).
  Qed.

  (* the filtered part of a configuration of the domain is in the domain *)
  Lemma good_filter rmatch : forall f rs U ars, good rmatch rs U f -> good rmatch rs U (filt ars f).
  Proof.
    apply (forest_sub_ind (fun f => forall rs U ars, good rmatch rs U f -> good rmatch rs U (filt ars f))).
    intros f IH rs U ars Hg. destruct (good_inv rmatch rs U f Hg) as (Hk & Hu & Hi & Hw & Hs). constructor.
    - apply acl_filter_nodup. exact Hk.
    - unfold lvl_uniq. rewrite (lkeys_of_keys rmatch rs _ _ (acl_filter_keys_eq ars f)). apply lkeys_filter_nodup. exact Hu.
    - intros [r t'] Hin. apply acl_filter_in in Hin as (t & acrs & Hin & _ & _). exact (Hi (r, t) Hin).
    - intros r t' Hin. apply acl_filter_in in Hin as (t & acrs & Hin & _ & E). subst t'. cbn [kids].
      apply acl_filter_wf. exact (Hw r t Hin).
    - intros r t' tu s crs Hin Htu Hm. apply acl_filter_in in Hin as (t & acrs & Hin & _ & E). subst t'. cbn [kids].
      apply (IH r t Hin). exact (Hs r t tu s crs Hin Htu Hm).
  Qed.
End Filter.

(* ------------------------------------------------------------------------------------ *)
(* 2. one level of the diff the patch is made from, inside the domain                     *)

Lemma annot_T rmatch rs f : annot rmatch rs (T f) = AT (annot_f rmatch rs f).
Proof. reflexivity. Qed.

Lemma annot_kids rmatch rs t : annot rmatch rs t = AT (annot_f rmatch rs (kids t)).
Proof. destruct t. reflexivity. Qed.

(* the diff of a level against nothing is what removed_t yields *)
Lemma diff_t_nil_removed og pop inrw : all_default og -> diff_t (AT []) og pop inrw = removed_t (AT og).
Proof.
  intro H. rewrite diff_t_unfold, diff_level_default by (auto; intros k []).
  unfold base_diff. cbn [cks map scan_new interleave]. rewrite removed_rows_spec.
  rewrite filter_all by reflexivity. symmetry. apply removed_t_default. exact H.
Qed.

Section Level.
  Variable amatch_ : string -> string -> option (list string).
  Variable asrc : string -> string.
  Variable arev : string -> string.
  Variable anorm : string -> string.
  Variable rmatch : string -> string -> option (list string).
  Variable rreverse : string -> list string -> string.
  Variable is_exit : string -> bool.

  Notation filt := (acl_filter amatch_ asrc arev anorm).
  Notation passes ars r := (acl_passes amatch_ asrc arev anorm ars r).
  Notation amatch := (acl_match amatch_ asrc arev anorm).
  Notation mkdiff := (acl_make_diff amatch_ asrc arev anorm rmatch).
  Notation good := (good rmatch).
  Notation uok := (uok rmatch rreverse is_exit).

  Lemma all_default_of_good rs U f : uok rs U -> good rs U f -> all_default (annot_f rmatch rs f).
  Proof.
    intros HU Hg k Hk. exact (proj1 (tier_default_in _ k (annot_tier rmatch rreverse is_exit f rs U HU Hg) Hk)).
  Qed.

  Lemma known_in_arows rs f r t m crs : In (r, t) f -> match_row rmatch r rs = Some (m, crs) ->
    In r (arows (annot_f rmatch rs f)).
  Proof. intros Hin Hm. apply (In_arows r m (annot rmatch crs t)). apply annot_in. exists t, crs. auto. Qed.

  Theorem level_entry ars rs U of nf n :
    uok rs U -> good rs U of -> good rs U nf ->
    In n (mkdiff ars rs of nf) ->
    exists m acrs crs,
      amatch (d_row n) ars = MSome m acrs /\ match_row rmatch (d_row n) rs = Some (d_mi n, crs) /\
      ((exists tn, In (d_row n, tn) nf /\
                   ((exists to, In (d_row n, to) of /\ is_rm (d_op n) = false /\
                                d_kids n = mkdiff acrs crs (kids to) (kids tn)) \/
                    (~ In (d_row n) (keys of) /\ d_op n = Added))) \/
       (exists to, In (d_row n, to) of /\ ~ In (d_row n) (keys nf) /\
                   ((all_cd m = false /\ d_op n = Removed) \/
                    (all_cd m = true /\ is_rm (d_op n) = false /\ d_kids n = mkdiff acrs crs (kids to) [])))).
  Proof.
    intros HU Hgo Hgn H.
    destruct (good_inv rmatch rs U of Hgo) as (Hko & _ & Hio & _ & Hso).
    destruct (uok_inv rmatch rreverse is_exit rs U HU) as (_ & _ & HUk).
    unfold acl_make_diff, mark_unchanged in H. apply in_map_iff in H as (n1 & E1 & H).
    unfold AclPipeline.apply_acl_diff in H. apply in_flat_map in H as (n0 & H0 & H1).
    unfold raw_diff in H0. rewrite annot_T, diff_t_unfold in H0.
    rewrite diff_level_default in H0 by (eapply all_default_of_good; eassumption).
    eapply Permutation_in in H0; [|apply base_diff_default_perm]. apply in_app_iff in H0 as [H0|H0].
    - (* the entry of a row of new *)
      apply in_map_iff in H0 as ([[r mi] sub] & E0 & Hk). apply annot_in in Hk as (tn & crs & Hinn & Hm & Esub). subst sub.
      unfold newnode in E0. cbn [arow ami asub fst snd] in E0.
      destruct (alookup r (annot_f rmatch rs of)) as [[mo so]|] eqn:El.
      + apply alookup_Some_In in El. apply annot_in in El as (to & crs' & Hino & Hm' & Eso).
        rewrite Hm in Hm'. injection Hm' as Em Ec. subst mo crs' so.
        subst n0. cbn [AclPipeline.apply_acl_diff_n] in H1.
        destruct (acl_match amatch_ asrc arev anorm r ars) as [|g|m acrs] eqn:Ea; [destruct H1 | destruct H1 |].
        destruct H1 as [H1|[]]. subst n1. cbn [op_eqb andb] in E1. cbn [mark_unchanged_n op_eqb] in E1. subst n.
        cbn [d_row d_mi d_op d_kids]. exists m, acrs, crs. split; [exact Ea|]. split; [exact Hm|].
        left. exists tn. split; [exact Hinn|]. left. exists to. split; [exact Hino|]. split.
        * destruct (forallb _ _); reflexivity.
        * unfold acl_make_diff, mark_unchanged, AclPipeline.apply_acl_diff, raw_diff.
          rewrite (annot_kids rmatch crs tn), (annot_kids rmatch crs to). reflexivity.
      + subst n0. cbn [AclPipeline.apply_acl_diff_n] in H1.
        destruct (acl_match amatch_ asrc arev anorm r ars) as [|g|m acrs] eqn:Ea; [destruct H1 | destruct H1 |].
        destruct H1 as [H1|[]]. subst n1. cbn [op_eqb andb] in E1. cbn [mark_unchanged_n op_eqb] in E1. subst n.
        cbn [d_row d_mi d_op d_kids]. exists m, acrs, crs. split; [exact Ea|]. split; [exact Hm|].
        left. exists tn. split; [exact Hinn|]. right. split; [|reflexivity].
        intro Hin. apply in_keys_tfind in Hin as (to & Hino). apply alookup_None in El. apply El.
        eapply known_in_arows; eassumption.
    - (* the entry of a row of old that new does not have *)
      apply in_map_iff in H0 as ([[r mi] sub] & E0 & Hk). apply filter_In in Hk as [Hk Hnot].
      apply annot_in in Hk as (to & crs & Hino & Hm & Esub). subst sub.
      assert (Hnn : ~ In r (keys nf)).
      { intro Hin. apply in_keys_tfind in Hin as (tn & Hinn). unfold notin in Hnot. apply negb_true_iff in Hnot.
        apply existsb_eqb_false in Hnot. apply Hnot. cbn [arow fst]. eapply known_in_arows; eassumption. }
      unfold mkrem in E0. cbn [arow ami asub fst snd] in E0. subst n0. cbn [AclPipeline.apply_acl_diff_n] in H1.
      destruct (acl_match amatch_ asrc arev anorm r ars) as [|g|m acrs] eqn:Ea; [destruct H1 | destruct H1 |].
      destruct H1 as [H1|[]]. subst n1. cbn [op_eqb andb] in E1.
      exists m, acrs, crs. destruct (all_cd m) eqn:Ecd.
      + cbn [mark_unchanged_n op_eqb] in E1. subst n. cbn [d_row d_mi d_op d_kids].
        split; [exact Ea|]. split; [exact Hm|]. right. exists to. split; [exact Hino|]. split; [exact Hnn|]. right.
        split; [reflexivity|]. split; [destruct (forallb _ _); reflexivity|].
        unfold acl_make_diff, mark_unchanged, AclPipeline.apply_acl_diff, raw_diff.
        rewrite annot_T, annot_f_nil, (annot_kids rmatch crs to), diff_t_nil_removed; [reflexivity|].
        assert (Hr : In r (keys U)) by (apply (Hio (r, to) Hino)). apply in_keys_tfind in Hr as (tu & Htu).
        destruct (HUk r tu mi crs Htu Hm) as [_ HUc].
        eapply all_default_of_good; [exact HUc | exact (Hso r to tu mi crs Hino Htu Hm)].
      + cbn [mark_unchanged_n op_eqb] in E1. subst n. cbn [d_row d_mi d_op d_kids].
        split; [exact Ea|]. split; [exact Hm|]. right. exists to. split; [exact Hino|]. split; [exact Hnn|]. left.
        split; reflexivity.
  Qed.
End Level.

(* ------------------------------------------------------------------------------------ *)
(* 2b. slot_closed, level by level                                                        *)

Section Closed.
  Variable amatch_ : string -> string -> option (list string).
  Variable asrc : string -> string.
  Variable arev : string -> string.
  Variable anorm : string -> string.
  Variable rmatch : string -> string -> option (list string).
  Notation passes ars r := (acl_passes amatch_ asrc arev anorm ars r).
  Notation slot_closed_t := (slot_closed_t amatch_ asrc arev anorm rmatch).

  Definition closed_level (ars : aset) (rs : rset) (ks : forest) : bool :=
    let lv := map (fun e : string * tree => (is_some (passes ars (fst e)), slot_of rmatch rs (fst e))) ks in
    forallb (fun a : bool * option minfo =>
               negb (fst a) ||
               match snd a with
               | Some s => forallb (fun b : bool * option minfo =>
                                      fst b || match snd b with Some s' => negb (same_slot s' s) | None => true end) lv
               | None => true
               end) lv.

  Lemma slot_closed_unfold ars rs ks :
    slot_closed_t ars rs (T ks) =
    closed_level ars rs ks &&
    forallb (fun e : string * tree =>
               match passes ars (fst e), match_row rmatch (fst e) rs with
               | Some acrs, Some (_, prs) => slot_closed_t acrs prs (snd e)
               | _, _ => true
               end) ks.
  Proof.
    cbn [slot_closed_t]. unfold closed_level. f_equal.
    induction ks as [|[r c] ks IH]; [reflexivity|]. cbn [forallb fst snd]. rewrite <- IH. reflexivity.
  Qed.

  Lemma slot_closed_level ars rs ks a ca b cb sa sb :
    slot_closed_t ars rs (T ks) = true -> In (a, ca) ks -> In (b, cb) ks -> passes ars a <> None ->
    slot_of rmatch rs a = Some sa -> slot_of rmatch rs b = Some sb -> same_slot sb sa = true -> passes ars b <> None.
  Proof.
    intros H Ha Hb Hpa Hsa Hsb Hss. rewrite slot_closed_unfold in H. apply andb_true_iff in H as [H _].
    unfold closed_level in H. rewrite forallb_forall in H.
    specialize (H (is_some (passes ars a), slot_of rmatch rs a)).
    assert (Hina : In (is_some (passes ars a), slot_of rmatch rs a)
                      (map (fun e : string * tree => (is_some (passes ars (fst e)), slot_of rmatch rs (fst e))) ks)).
    { apply in_map_iff. exists (a, ca). split; [reflexivity | exact Ha]. }
    specialize (H Hina). cbn [fst snd] in H. destruct (passes ars a) as [x|] eqn:E; [|congruence]. cbn [is_some negb orb] in H.
    rewrite Hsa in H. rewrite forallb_forall in H.
    specialize (H (is_some (passes ars b), slot_of rmatch rs b)).
    assert (Hinb : In (is_some (passes ars b), slot_of rmatch rs b)
                      (map (fun e : string * tree => (is_some (passes ars (fst e)), slot_of rmatch rs (fst e))) ks)).
    { apply in_map_iff. exists (b, cb). split; [reflexivity | exact Hb]. }
    specialize (H Hinb). cbn [fst snd] in H. rewrite Hsb, Hss in H. cbn [negb] in H. rewrite orb_false_r in H.
    destruct (passes ars b); [discriminate | discriminate].
  Qed.

  Lemma slot_closed_child ars rs ks r c acrs s crs :
    slot_closed_t ars rs (T ks) = true -> In (r, c) ks -> passes ars r = Some acrs ->
    match_row rmatch r rs = Some (s, crs) -> slot_closed_t acrs crs c = true.
  Proof.
    intros H Hin Hp Hm. rewrite slot_closed_unfold in H. apply andb_true_iff in H as [_ H].
    rewrite forallb_forall in H. specialize (H (r, c) Hin). cbn [fst snd] in H. rewrite Hp, Hm in H. exact H.
  Qed.
End Closed.

(* ------------------------------------------------------------------------------------ *)
(* 3. walking old: the per-level conditions of the guards                                 *)

Section Walk.
  Variable amatch_ : string -> string -> option (list string).
  Variable asrc : string -> string.
  Variable arev : string -> string.
  Variable anorm : string -> string.
  Variable rmatch : string -> string -> option (list string).
  Variable rreverse : string -> list string -> string.
  Variable is_exit : string -> bool.

  Notation filt := (acl_filter amatch_ asrc arev anorm).
  Notation passes ars r := (acl_passes amatch_ asrc arev anorm ars r).
  Notation cant_delete ars r := (acl_cant_delete amatch_ asrc arev anorm ars r).
  Notation amatch := (acl_match amatch_ asrc arev anorm).
  Notation mkdiff := (acl_make_diff amatch_ asrc arev anorm rmatch).
  Notation good := (good rmatch).
  Notation uok := (uok rmatch rreverse is_exit).
  Notation rev_of := (reverse_of rreverse).
  Notation cguard_t := (cguard_t amatch_ asrc arev anorm rmatch rreverse).
  Notation bguard_t := (bguard_t amatch_ asrc arev anorm rmatch rreverse).
  Notation slot_closed_t := (slot_closed_t amatch_ asrc arev anorm rmatch).

  (* the rule sets that the rows of a configuration reach carry one set of attributes per rule text (what a
     rulebook parsed from text guarantees: the rule text is the dictionary key) *)
  Fixpoint det_along_t (rs : rset) (o : tree) {struct o} : bool :=
    match o with
    | T ka =>
      rules_det rs &&
      (fix go (l : forest) : bool :=
         match l with
         | [] => true
         | (r, t) :: l' =>
           match match_row rmatch r rs with Some (_, crs) => det_along_t crs t | None => true end && go l'
         end) ka
    end.

  Lemma det_along_cons rs r t l :
    det_along_t rs (T ((r, t) :: l)) =
    match match_row rmatch r rs with Some (_, crs) => det_along_t crs t | None => true end && det_along_t rs (T l).
  Proof.
    cbn [det_along_t]. destruct (rules_det rs); cbn [andb]; [reflexivity|].
    destruct (match_row rmatch r rs) as [[m crs]|]; [destruct (det_along_t crs t)|]; reflexivity.
  Qed.

  Lemma det_along_det rs l : det_along_t rs (T l) = true -> rules_det rs = true.
  Proof. cbn [det_along_t]. intro H. apply andb_true_iff in H as [H _]. exact H. Qed.

  (* the classes the guards do not cover, stated on old, the filtered new and the rulebook: a passed block of old
     with children, known to the rulebook and reached through such blocks, that is absent from new at its place
       (X1) is governed by a cant_delete ACL rule while new holds another row of its slot, or
       (X2) is not governed by a cant_delete ACL rule and its patching rule has the `permanent` logic.
     [kept_ok_t false] = no such block.  [kept_ok_t true] moreover: no passed row governed by a cant_delete rule inside a
     block of old that is absent from new at its place and not itself cant_delete (the class of the open finding
     cant_delete-row-lost-with-its-ancestor-block) - what the full form of (c) needs. *)
  Fixpoint kept_ok_t (deep : bool) (ars : aset) (rs : rset) (nf : forest) (o : tree) {struct o} : bool :=
    match o with
    | T ka =>
      (fix go (l : forest) : bool :=
         match l with
         | [] => true
         | (r, t) :: l' =>
           match passes ars r, match_row rmatch r rs with
           | Some acrs, Some (s, crs) =>
             is_nil (kids t) ||
             match tfind r nf with
             | Some tn => kept_ok_t deep acrs crs (kids tn) t
             | None =>
               if cant_delete ars r
               then negb (existsb (in_slot rmatch rs s) nf) && kept_ok_t deep acrs crs [] t
               else negb (logic_eqb (a_logic (mi_attrs s)) LPermanent) &&
                    (negb deep || cd_free_t amatch_ asrc arev anorm acrs t)
             end
           | _, _ => true
           end && go l'
         end) ka
    end.

  Lemma kept_ok_cons deep ars rs nf r t l :
    kept_ok_t deep ars rs nf (T ((r, t) :: l)) =
    match passes ars r, match_row rmatch r rs with
    | Some acrs, Some (s, crs) =>
      is_nil (kids t) ||
      match tfind r nf with
      | Some tn => kept_ok_t deep acrs crs (kids tn) t
      | None =>
        if cant_delete ars r
        then negb (existsb (in_slot rmatch rs s) nf) && kept_ok_t deep acrs crs [] t
        else negb (logic_eqb (a_logic (mi_attrs s)) LPermanent) &&
             (negb deep || cd_free_t amatch_ asrc arev anorm acrs t)
      end
    | _, _ => true
    end && kept_ok_t deep ars rs nf (T l).
  Proof. reflexivity. Qed.

  (* ---------------------------------------------------------------- one level *)
  Section OneLevel.
    Variable ars : aset.
    Variable rs : rset.
    Variable U lvl nl : forest.
    Variable D : list dnode.
    Hypothesis HU : uok rs U.
    Hypothesis Hgo : good rs U lvl.
    Hypothesis Hgn : good rs U (filt ars nl).
    Hypothesis HD : incl D (mkdiff ars rs (filt ars lvl) (filt ars nl)).

    Let HLU : lvl_ok rmatch rreverse is_exit rs U := proj1 (uok_inv rmatch rreverse is_exit rs U HU).
    Let HUk := proj2 (proj2 (uok_inv rmatch rreverse is_exit rs U HU)).
    Let Hgof : good rs U (filt ars lvl) := good_filter amatch_ asrc arev anorm rmatch lvl rs U ars Hgo.
    Let Hko : NoDup (keys lvl) := proj1 (good_inv rmatch rs U lvl Hgo).
    Let Huo : lvl_uniq rmatch rs lvl := proj1 (proj2 (good_inv rmatch rs U lvl Hgo)).
    Let Hio : rows_in U lvl := proj1 (proj2 (proj2 (good_inv rmatch rs U lvl Hgo))).
    Let Hkn : NoDup (keys (filt ars nl)) := proj1 (good_inv rmatch rs U _ Hgn).
    Let Hun : lvl_uniq rmatch rs (filt ars nl) := proj1 (proj2 (good_inv rmatch rs U _ Hgn)).
    Let Hin : rows_in U (filt ars nl) := proj1 (proj2 (proj2 (good_inv rmatch rs U _ Hgn))).

    (* what an entry of the level is *)
    Lemma entry_facts n : In n D ->
      exists m acrs crs,
        amatch (d_row n) ars = MSome m acrs /\ drops m = false /\
        match_row rmatch (d_row n) rs = Some (d_mi n, crs) /\ In (d_row n) (keys U) /\
        ((exists tn, In (d_row n, tn) (filt ars nl) /\
                     ((exists t, In (d_row n, t) lvl /\ is_rm (d_op n) = false /\
                                 d_kids n = mkdiff acrs crs (filt acrs (kids t)) (kids tn)) \/
                      (~ In (d_row n) (keys (filt ars lvl)) /\ d_op n = Added))) \/
         (exists t, In (d_row n, t) lvl /\ ~ In (d_row n) (keys (filt ars nl)) /\
                    ((all_cd m = false /\ d_op n = Removed) \/
                     (all_cd m = true /\ is_rm (d_op n) = false /\ d_kids n = mkdiff acrs crs (filt acrs (kids t)) [])))).
    Proof.
      intro Hn.
      destruct (level_entry amatch_ asrc arev anorm rmatch rreverse is_exit ars rs U _ _ n HU Hgof Hgn (HD n Hn))
        as (m & acrs & crs & Ea & Em & Hcase).
      assert (Hof : forall to, In (d_row n, to) (filt ars lvl) ->
                               exists t, In (d_row n, t) lvl /\ drops m = false /\ to = T (filt acrs (kids t))).
      { intros to Hto. apply acl_filter_in in Hto as (t & acrs' & Hin0 & Hp & E).
        destruct (passes_match amatch_ asrc arev anorm ars _ acrs' Hp) as (m' & Ea' & Ed). rewrite Ea in Ea'.
        injection Ea' as E1 E2. subst m' acrs'. exists t. auto. }
      exists m, acrs, crs. destruct Hcase as [(tn & Hinn & Hc)|(to & Hino & Hnn & Hc)].
      - assert (Hd : drops m = false).
        { apply acl_filter_in in Hinn as (t0 & acrs' & _ & Hp & _).
          destruct (passes_match amatch_ asrc arev anorm ars _ acrs' Hp) as (m' & Ea' & Ed). rewrite Ea in Ea'.
          injection Ea' as E1 E2. subst m'. exact Ed. }
        split; [exact Ea|]. split; [exact Hd|]. split; [exact Em|]. split; [exact (Hin (d_row n, tn) Hinn)|].
        left. exists tn. split; [exact Hinn|]. destruct Hc as [(to & Hino & Hrm & Ek)|Hc]; [|right; exact Hc].
        left. destruct (Hof to Hino) as (t & Ht & _ & Eto). exists t. split; [exact Ht|]. split; [exact Hrm|].
        rewrite Ek, Eto. reflexivity.
      - destruct (Hof to Hino) as (t & Ht & Hd & Eto).
        split; [exact Ea|]. split; [exact Hd|]. split; [exact Em|]. split; [exact (Hio (d_row n, t) Ht)|].
        right. exists t. split; [exact Ht|]. split; [exact Hnn|].
        destruct Hc as [Hc|(H1 & H2 & Ek)]; [left; exact Hc|]. right. split; [exact H1|]. split; [exact H2|].
        rewrite Ek, Eto. reflexivity.
    Qed.

    (* a REMOVED / MOVED entry is a row of old *)
    Lemma rm_entry n : In n D -> is_rm (d_op n) = true ->
      exists t crs, In (d_row n, t) lvl /\ match_row rmatch (d_row n) rs = Some (d_mi n, crs) /\ In (d_row n) (keys U).
    Proof.
      intros Hn Hrm. destruct (entry_facts n Hn) as (m & acrs & crs & _ & _ & Em & HinU & Hc).
      destruct Hc as [(tn & _ & [(t & _ & Hf & _)|(_ & Hop)])|(t & Ht & _ & [(_ & Hop)|(_ & Hf & _)])].
      - congruence.
      - rewrite Hop in Hrm. discriminate.
      - exists t, crs. auto.
      - congruence.
    Qed.

    (* removal commands of the level are matched by no rule and unambiguous *)
    Lemma level_rev_ok s r : In r (keys U) -> slot_of rmatch rs r = Some s -> rev_ok_b rmatch rreverse rs s D = true.
    Proof.
      intros Hr Hs. unfold rev_ok_b. apply forallb_forall. intros n Hn. destruct (is_rm (d_op n)) eqn:Hrm; [|reflexivity].
      cbn [negb orb]. destruct (rm_entry n Hn Hrm) as (t & crs & _ & Em & HinU).
      assert (Hsn : slot_of rmatch rs (d_row n) = Some (d_mi n)) by (unfold slot_of; rewrite Em; reflexivity).
      rewrite (lo_rev_unmatched _ _ _ _ _ HLU (d_row n) (d_mi n) HinU Hsn). cbn [is_none andb].
      destruct (String.eqb_spec (rev_of (d_mi n)) (rev_of s)) as [E|E]; [|reflexivity]. cbn [negb orb].
      apply same_slot_iff. exact (lo_rev_inj _ _ _ _ _ HLU r s (d_row n) (d_mi n) Hr Hs HinU Hsn E).
    Qed.

    Lemma level_rm_unmatched :
      forallb (fun n => negb (is_rm (d_op n)) || is_none (match_row rmatch (rev_of (d_mi n)) rs)) D = true.
    Proof.
      apply forallb_forall. intros n Hn. destruct (is_rm (d_op n)) eqn:Hrm; [|reflexivity].
      cbn [negb orb]. destruct (rm_entry n Hn Hrm) as (t & crs & _ & Em & HinU).
      assert (Hsn : slot_of rmatch rs (d_row n) = Some (d_mi n)) by (unfold slot_of; rewrite Em; reflexivity).
      rewrite (lo_rev_unmatched _ _ _ _ _ HLU (d_row n) (d_mi n) HinU Hsn). reflexivity.
    Qed.

    Section Row.
      Variable r : string.
      Variable t : tree.
      Variable acrs : aset.
      Variable s : minfo.
      Variable crs : rset.
      Hypothesis Hrt : In (r, t) lvl.
      Hypothesis Hpa : passes ars r = Some acrs.
      Hypothesis Hm : match_row rmatch r rs = Some (s, crs).

      Let Hs : slot_of rmatch rs r = Some s.
      Proof. unfold slot_of. rewrite Hm. reflexivity. Qed.
      Let HrU : In r (keys U) := Hio (r, t) Hrt.
      Let Hrof : In (r, T (filt acrs (kids t))) (filt ars lvl) := acl_filter_in_conv amatch_ asrc arev anorm lvl ars r t acrs Hrt Hpa.

      Lemma row_allow : allow_A s = true /\ exists tu, In (r, tu) U /\ uok crs (kids tu) /\ good crs (kids tu) (kids t).
      Proof.
        destruct (in_keys_tfind r U HrU) as (tu & Htu). destruct (HUk r tu s crs Htu Hm) as [Hal Huc].
        split; [exact Hal|]. exists tu. split; [exact Htu|]. split; [exact Huc|].
        exact (proj2 (proj2 (proj2 (proj2 (good_inv rmatch rs U lvl Hgo)))) r t tu s crs Hrt Htu Hm).
      Qed.

      Lemma row_first : first_b rmatch rs s r t lvl = true.
      Proof.
        unfold first_b.
        assert (E : find (in_slot rmatch rs s) lvl = Some (r, t)).
        { apply (uniq_sfind rmatch rs s lvl (r, t) Huo Hrt). apply (match_ekey rmatch rs r s crs t Hm). }
        rewrite E. cbn [fst snd]. rewrite String.eqb_refl. cbn [andb]. apply tree_eqb_eq. reflexivity.
      Qed.

      Lemma row_only : only_b rmatch rs s r t lvl = true.
      Proof.
        unfold only_b. rewrite (uniq_filter_slot rmatch rs s lvl (r, t) Huo Hrt (match_ekey rmatch rs r s crs t Hm)).
        cbn [fst snd]. rewrite String.eqb_refl. cbn [andb]. apply tree_eqb_eq. reflexivity.
      Qed.

      (* an entry of the level in the slot of r that is a row of old is r *)
      Lemma old_same_slot n t' crs' : In (d_row n, t') lvl -> match_row rmatch (d_row n) rs = Some (d_mi n, crs') ->
        same_slot (d_mi n) s = true -> d_row n = r.
      Proof.
        intros Hin' Hm' Hss. apply same_slot_iff in Hss.
        exact (proj1 (uniq_same_row rmatch rs lvl r t s crs (d_row n) t' (d_mi n) crs' Huo Hrt Hm Hin' Hm' Hss)).
      Qed.

      Lemma acrs_eq m acrs' : amatch r ars = MSome m acrs' -> acrs' = acrs /\ drops m = false.
      Proof.
        intro Ea. destruct (passes_match amatch_ asrc arev anorm ars r acrs Hpa) as (m' & Ea' & Ed). rewrite Ea in Ea'.
        injection Ea' as E1 E2. subst. auto.
      Qed.

      Lemma cd_all_cd m acrs' : amatch r ars = MSome m acrs' -> cant_delete ars r = all_cd m.
      Proof.
        intro Ea. destruct (acrs_eq m acrs' Ea) as [_ Ed]. unfold acl_cant_delete, P_C02.amatch. rewrite Ea, Ed. reflexivity.
      Qed.

      (* the block is in new at its place: it can be followed, and below it the diff is the diff of its children *)
      Lemma row_follow_new tn : In (r, tn) (filt ars nl) ->
        follow_b rmatch rreverse rs lvl r t s D = true /\
        incl (dsub r D) (mkdiff acrs crs (filt acrs (kids t)) (kids tn)).
      Proof.
        intro Htn. split.
        - unfold follow_b. rewrite row_first. destruct (allow_A_facts s (proj1 row_allow)) as (_ & _ & _ & Hrw).
          rewrite Hrw. cbn [negb andb]. rewrite (level_rev_ok s r HrU Hs), andb_true_r.
          unfold stable_b. apply forallb_forall. intros n Hn. destruct (same_slot (d_mi n) s) eqn:Hss; [|reflexivity].
          cbn [negb orb]. destruct (entry_facts n Hn) as (m & acrs' & crs' & Ea & Ed & Em & HinU & Hc).
          destruct Hc as [(tn' & Hinn & Hc)|(t' & Ht' & Hnn & _)].
          + assert (Er : d_row n = r).
            { apply same_slot_iff in Hss.
              exact (proj1 (uniq_same_row rmatch rs _ r tn s crs (d_row n) tn' (d_mi n) crs' Hun Htn Hm Hinn Em Hss)). }
            destruct Hc as [(t' & _ & Hrm & _)|(Hno & _)].
            * rewrite Er, String.eqb_refl, Hrm. reflexivity.
            * exfalso. apply Hno. rewrite Er. exact (in_keys r _ _ Hrof).
          + exfalso. apply Hnn. rewrite (old_same_slot n t' crs' Ht' Em Hss). exact (in_keys r tn _ Htn).
        - intros x Hx. unfold dsub in Hx. apply in_flat_map in Hx as (n & Hn & Hx). apply filter_In in Hn as [Hn Er].
          apply String.eqb_eq in Er. destruct (entry_facts n Hn) as (m & acrs' & crs' & Ea & Ed & Em & HinU & Hc).
          rewrite Er in *. destruct (acrs_eq m acrs' Ea) as [E1 _]. subst acrs'.
          rewrite Hm in Em. injection Em as Emi Ecrs. subst crs'.
          destruct Hc as [(tn' & Hinn & [(t' & Ht' & _ & Ek)|(Hno & _)])|(t' & _ & Hnn & _)].
          + rewrite (nodup_entry _ r tn' tn Hkn Hinn Htn), (nodup_entry lvl r t' t Hko Ht' Hrt) in Ek. rewrite Ek in Hx. exact Hx.
          + exfalso. apply Hno. exact (in_keys r _ _ Hrof).
          + exfalso. apply Hnn. exact (in_keys r tn _ Htn).
      Qed.

      (* the block is absent from new, is cant_delete, and new holds no other row of its slot: it can be followed, and
         below it the diff is the diff of its children against nothing *)
      Lemma row_follow_kept : ~ In r (keys (filt ars nl)) -> cant_delete ars r = true ->
        existsb (in_slot rmatch rs s) (filt ars nl) = false ->
        follow_b rmatch rreverse rs lvl r t s D = true /\
        incl (dsub r D) (mkdiff acrs crs (filt acrs (kids t)) []).
      Proof.
        intros Hnn Hcd Hfree. split.
        - unfold follow_b. rewrite row_first. destruct (allow_A_facts s (proj1 row_allow)) as (_ & _ & _ & Hrw).
          rewrite Hrw. cbn [negb andb]. rewrite (level_rev_ok s r HrU Hs), andb_true_r.
          unfold stable_b. apply forallb_forall. intros n Hn. destruct (same_slot (d_mi n) s) eqn:Hss; [|reflexivity].
          cbn [negb orb]. destruct (entry_facts n Hn) as (m & acrs' & crs' & Ea & Ed & Em & HinU & Hc).
          destruct Hc as [(tn' & Hinn & _)|(t' & Ht' & _ & Hc)].
          + exfalso. assert (Hex : existsb (in_slot rmatch rs s) (filt ars nl) = true); [|congruence].
            apply existsb_exists. exists (d_row n, tn'). split; [exact Hinn|]. unfold in_slot, slot_of. cbn [fst]. rewrite Em. exact Hss.
          + pose proof (old_same_slot n t' crs' Ht' Em Hss) as Er. rewrite Er in *. rewrite String.eqb_refl. cbn [andb].
            rewrite (cd_all_cd m acrs' Ea) in Hcd. destruct Hc as [(Hf & _)|(_ & Hrm & _)]; [congruence|]. rewrite Hrm. reflexivity.
        - intros x Hx. unfold dsub in Hx. apply in_flat_map in Hx as (n & Hn & Hx). apply filter_In in Hn as [Hn Er].
          apply String.eqb_eq in Er. destruct (entry_facts n Hn) as (m & acrs' & crs' & Ea & Ed & Em & HinU & Hc).
          rewrite Er in *. destruct (acrs_eq m acrs' Ea) as [E1 _]. subst acrs'.
          rewrite Hm in Em. injection Em as Emi Ecrs. subst crs'. rewrite (cd_all_cd m acrs Ea) in Hcd.
          destruct Hc as [(tn' & Hinn & _)|(t' & Ht' & _ & [(Hf & _)|(_ & _ & Ek)])].
          + exfalso. apply Hnn. exact (in_keys r tn' _ Hinn).
          + congruence.
          + rewrite (nodup_entry lvl r t' t Hko Ht' Hrt) in Ek. rewrite Ek in Hx. exact Hx.
      Qed.

      (* the block is absent from new, not cant_delete, and its rule is not `permanent`: the diff removes it *)
      Lemma row_removed : ~ In r (keys (filt ars nl)) -> cant_delete ars r = false ->
        a_logic (mi_attrs s) <> LPermanent ->
        removed_b rmatch rreverse rs lvl r t s D = true.
      Proof.
        intros Hnn Hcd Hlog. unfold removed_b. rewrite row_only.
        destruct (allow_A_facts s (proj1 row_allow)) as (_ & _ & _ & Hrw).
        rewrite Hrw. cbn [negb andb]. rewrite level_rm_unmatched, andb_true_r. apply andb_true_iff. split.
        - destruct (a_logic (mi_attrs s)); try reflexivity. congruence.
        - apply forallb_forall. intros n Hn. destruct (String.eqb_spec (d_row n) r) as [Er|Er]; [|reflexivity].
          cbn [negb orb]. destruct (entry_facts n Hn) as (m & acrs' & crs' & Ea & Ed & Em & HinU & Hc). rewrite Er in *.
          rewrite (cd_all_cd m acrs' Ea) in Hcd.
          destruct Hc as [(tn' & Hinn & _)|(t' & _ & _ & [(_ & Hop)|(Hf & _)])].
          + exfalso. apply Hnn. exact (in_keys r tn' _ Hinn).
          + rewrite Hop. reflexivity.
          + congruence.
      Qed.
      (* the removal command of the slot of r is that of no other REMOVED / MOVED entry of the level *)
      Lemma row_rev_only : rev_only_b rreverse s r D = true.
      Proof.
        unfold rev_only_b. apply forallb_forall. intros n Hn. destruct (is_rm (d_op n)) eqn:Hrm; [|reflexivity].
        cbn [negb orb]. destruct (String.eqb_spec (rev_of (d_mi n)) (rev_of s)) as [E|E]; [|reflexivity]. cbn [negb orb].
        apply String.eqb_eq. destruct (rm_entry n Hn Hrm) as (t' & crs' & Ht' & Em & HinU).
        assert (Hsn : slot_of rmatch rs (d_row n) = Some (d_mi n)) by (unfold slot_of; rewrite Em; reflexivity).
        apply (old_same_slot n t' crs' Ht' Em). apply same_slot_iff.
        exact (lo_rev_inj _ _ _ _ _ HLU r s (d_row n) (d_mi n) HrU Hs HinU Hsn E).
      Qed.
    End Row.
    (* a row of old that the ACL does not pass (or that no rule knows): no entry of the level is in its slot, no removal
       command of the level hits it - given that the ACL does not split a slot of the universe *)
    Lemma row_uncov r t : In (r, t) lvl -> passes ars r = None \/ match_row rmatch r rs = None ->
      slot_closed_t ars rs (T U) = true ->
      uncov_b rmatch rreverse rs lvl r t D = true.
    Proof.
      intros Hrt Hnp Hcl. pose proof (Hio (r, t) Hrt) as HrU. cbn [fst] in HrU.
      assert (Hsplit : forall n su, In n D -> slot_of rmatch rs r = Some su -> same_slot su (d_mi n) = true -> False).
      { intros n su Hn Hsu Hss. destruct Hnp as [Hnp|Hnp]; [|unfold slot_of in Hsu; rewrite Hnp in Hsu; discriminate].
        destruct (entry_facts n Hn) as (m & acrs & crs & Ea & Ed & Em & HinU & _).
        destruct (in_keys_tfind _ U HinU) as (cn & Hcn). destruct (in_keys_tfind _ U HrU) as (cr & Hcr).
        assert (Hsn : slot_of rmatch rs (d_row n) = Some (d_mi n)) by (unfold slot_of; rewrite Em; reflexivity).
        refine (slot_closed_level amatch_ asrc arev anorm rmatch ars rs U (d_row n) cn r cr (d_mi n) su Hcl Hcn Hcr _ Hsn Hsu Hss Hnp).
        rewrite (match_passes amatch_ asrc arev anorm ars _ m acrs Ea Ed). discriminate. }
      unfold uncov_b. rewrite (tfind_nodup r lvl t Hko Hrt).
      assert (Ht : tree_eqb t t = true) by (apply tree_eqb_eq; reflexivity). rewrite Ht. cbn [andb].
      apply andb_true_iff. split; [apply andb_true_iff; split|].
      - unfold slot_of. destruct (match_row rmatch r rs) as [[su crs]|] eqn:Em; [|reflexivity]. cbn [option_map fst].
        destruct (in_keys_tfind _ U HrU) as (cr & Hcr). destruct (HUk r cr su crs Hcr Em) as [Hal _].
        destruct (allow_A_facts su Hal) as (_ & _ & _ & Hrw). rewrite Hrw. reflexivity.
      - apply forallb_forall. intros n Hn. unfold in_slot. cbn [fst].
        destruct (slot_of rmatch rs r) as [su|] eqn:Esu; [|reflexivity].
        destruct (same_slot su (d_mi n)) eqn:Hss; [|reflexivity]. exfalso. exact (Hsplit n su Hn eq_refl Hss).
      - apply forallb_forall. intros n Hn. destruct (is_rm (d_op n)) eqn:Hrm; [|reflexivity]. cbn [negb orb].
        destruct (rm_entry n Hn Hrm) as (t' & crs' & _ & Em & HinU).
        assert (Hsn : slot_of rmatch rs (d_row n) = Some (d_mi n)) by (unfold slot_of; rewrite Em; reflexivity).
        rewrite (lo_rev_unmatched _ _ _ _ _ HLU (d_row n) (d_mi n) HinU Hsn).
        unfold reverse_hits. cbn [fst]. destruct (slot_of rmatch rs r) as [su|] eqn:Esu; [|reflexivity].
        destruct (String.eqb_spec (rev_of su) (rev_of (d_mi n))) as [E|E]; [|reflexivity]. exfalso.
        apply (Hsplit n su Hn eq_refl). apply same_slot_iff.
        exact (lo_rev_inj _ _ _ _ _ HLU (d_row n) (d_mi n) r su HinU Hsn HrU Esu E).
    Qed.
  End OneLevel.
  (* ---------------------------------------------------------------- a block with children *)
  Lemma block_step deep ars rs U lvl nl D r t acrs s crs :
    uok rs U -> good rs U lvl -> good rs U (filt ars nl) ->
    incl D (mkdiff ars rs (filt ars lvl) (filt ars nl)) ->
    In (r, t) lvl -> passes ars r = Some acrs -> match_row rmatch r rs = Some (s, crs) ->
    match tfind r (filt ars nl) with
    | Some tn => kept_ok_t deep acrs crs (kids tn) t
    | None =>
      if cant_delete ars r
      then negb (existsb (in_slot rmatch rs s) (filt ars nl)) && kept_ok_t deep acrs crs [] t
      else negb (logic_eqb (a_logic (mi_attrs s)) LPermanent) &&
           (negb deep || cd_free_t amatch_ asrc arev anorm acrs t)
    end = true ->
    (follow_b rmatch rreverse rs lvl r t s D = true /\
     exists tu nl', In (r, tu) U /\ uok crs (kids tu) /\ good crs (kids tu) (kids t) /\
                    good crs (kids tu) (filt acrs nl') /\
                    incl (dsub r D) (mkdiff acrs crs (filt acrs (kids t)) (filt acrs nl')) /\
                    kept_ok_t deep acrs crs (filt acrs nl') t = true) \/
    (removed_b rmatch rreverse rs lvl r t s D = true /\ wfb (kids t) = true /\
     (negb deep || cd_free_t amatch_ asrc arev anorm acrs t) = true).
  Proof.
    intros HU Hgo Hgn HD Hrt Hpa Hm Hk.
    destruct (row_allow rs U lvl HU Hgo r t s crs Hrt Hm) as (Hal & tu & Htu & HUc & Hgc).
    destruct (tfind r (filt ars nl)) as [tn|] eqn:Etn.
    - left. apply tfind_in in Etn.
      destruct (row_follow_new ars rs U lvl nl D HU Hgo Hgn HD r t acrs s crs Hrt Hpa Hm tn Etn) as [Hfo Hsub].
      split; [exact Hfo|]. pose proof Etn as Hnl. apply acl_filter_in in Hnl as (tnl & acrs' & Htnl & Hp' & Etn').
      rewrite Hpa in Hp'. injection Hp' as Hp'. subst acrs'.
      assert (Ek : kids tn = filt acrs (kids tnl)) by (rewrite Etn'; reflexivity).
      exists tu, (kids tnl). rewrite <- Ek.
      split; [exact Htu|]. split; [exact HUc|]. split; [exact Hgc|].
      split; [exact (proj2 (proj2 (proj2 (proj2 (good_inv rmatch rs U _ Hgn)))) r tn tu s crs Etn Htu Hm)|].
      split; [exact Hsub | exact Hk].
    - apply tfind_none in Etn. destruct (cant_delete ars r) eqn:Hcd.
      + left. apply andb_true_iff in Hk as [Hfree Hk]. apply negb_true_iff in Hfree.
        destruct (row_follow_kept ars rs U lvl nl D HU Hgo Hgn HD r t acrs s crs Hrt Hpa Hm Etn Hcd Hfree) as [Hfo Hsub].
        split; [exact Hfo|]. exists tu, []. rewrite acl_filter_nil.
        split; [exact Htu|]. split; [exact HUc|]. split; [exact Hgc|]. split; [apply good_nil|].
        split; [exact Hsub | exact Hk].
      + right. apply andb_true_iff in Hk as [Hk Hfree]. split; [|split; [|exact Hfree]].
        * apply (row_removed ars rs U lvl nl D HU Hgo Hgn HD r t acrs s crs Hrt Hpa Hm Etn Hcd).
          intro E. rewrite E in Hk. discriminate.
        * apply wfb_wf. exact (proj1 (proj2 (proj2 (proj2 (good_inv rmatch rs U lvl Hgo)))) r t Hrt).
  Qed.

  (* ---------------------------------------------------------------- (c) *)
  Theorem cguard_of_domain deep : forall o ars rs U lvl nl D,
    uok rs U -> good rs U lvl -> good rs U (filt ars nl) ->
    incl D (mkdiff ars rs (filt ars lvl) (filt ars nl)) ->
    incl (kids o) lvl -> det_along_t rs o = true -> kept_ok_t deep ars rs (filt ars nl) o = true ->
    cguard_t deep ars rs lvl o D = true.
  Proof.
    apply (tree_ind2
             (fun o => forall ars rs U lvl nl D,
                  uok rs U -> good rs U lvl -> good rs U (filt ars nl) ->
                  incl D (mkdiff ars rs (filt ars lvl) (filt ars nl)) ->
                  incl (kids o) lvl -> det_along_t rs o = true -> kept_ok_t deep ars rs (filt ars nl) o = true ->
                  cguard_t deep ars rs lvl o D = true)
             (fun l => forall ars rs U lvl nl D,
                  uok rs U -> good rs U lvl -> good rs U (filt ars nl) ->
                  incl D (mkdiff ars rs (filt ars lvl) (filt ars nl)) ->
                  incl l lvl -> det_along_t rs (T l) = true -> kept_ok_t deep ars rs (filt ars nl) (T l) = true ->
                  cguard_t deep ars rs lvl (T l) D = true)).
    - intros k IH. exact IH.
    - intros. reflexivity.
    - intros r t k IHt IHk ars rs U lvl nl D HU Hgo Hgn HD Hinc Hdet Hk.
      pose proof (det_along_det rs _ Hdet) as Hrd.
      rewrite det_along_cons in Hdet. apply andb_true_iff in Hdet as [Hdet1 Hdetk].
      rewrite kept_ok_cons in Hk. apply andb_true_iff in Hk as [Hk1 Hkk].
      rewrite cguard_cons. apply andb_true_iff.
      split; [|apply (IHk ars rs U lvl nl D); try assumption; intros x Hx; apply Hinc; now right].
      assert (Hrt : In (r, t) lvl) by (apply Hinc; now left).
      destruct (passes ars r) as [acrs|] eqn:Hpa; [|reflexivity].
      destruct (match_row rmatch r rs) as [[s crs]|] eqn:Hm; [|reflexivity].
      destruct (row_allow rs U lvl HU Hgo r t s crs Hrt Hm) as (Hal & _).
      destruct (allow_A_facts s Hal) as (_ & Hord & _ & Hrw).
      apply andb_true_iff. split.
      + destruct (cant_delete ars r) eqn:Hcd; [|reflexivity]. cbn [negb orb]. rewrite Hrd, Hrw.
        rewrite (row_rev_only ars rs U lvl nl D HU Hgo Hgn HD r t s crs Hrt Hm).
        destruct (a_logic (mi_attrs s)); try reflexivity. congruence.
      + destruct (is_nil (kids t)) eqn:Enil; [reflexivity|]. cbn [orb] in Hk1 |- *.
        destruct (block_step deep ars rs U lvl nl D r t acrs s crs HU Hgo Hgn HD Hrt Hpa Hm Hk1)
          as [(Hfo & tu & nl' & Htu & HUc & Hgc & Hgn' & Hsub & Hk')|(Hrb & Hw & Hfree)].
        * rewrite Hfo. cbn [andb]. apply orb_true_iff. left.
          apply (IHt acrs crs (kids tu) (kids t) nl' (dsub r D)); try assumption. apply incl_refl.
        * rewrite Hrb, Hw, Hfree. apply orb_true_r.
  Qed.

  (* ---------------------------------------------------------------- (b) *)
  Theorem bguard_of_domain deep : forall o ars rs U lvl nl D,
    uok rs U -> good rs U lvl -> good rs U (filt ars nl) -> slot_closed_t ars rs (T U) = true ->
    incl D (mkdiff ars rs (filt ars lvl) (filt ars nl)) ->
    incl (kids o) lvl -> kept_ok_t deep ars rs (filt ars nl) o = true ->
    bguard_t ars rs lvl o D = true.
  Proof.
    apply (tree_ind2
             (fun o => forall ars rs U lvl nl D,
                  uok rs U -> good rs U lvl -> good rs U (filt ars nl) -> slot_closed_t ars rs (T U) = true ->
                  incl D (mkdiff ars rs (filt ars lvl) (filt ars nl)) ->
                  incl (kids o) lvl -> kept_ok_t deep ars rs (filt ars nl) o = true ->
                  bguard_t ars rs lvl o D = true)
             (fun l => forall ars rs U lvl nl D,
                  uok rs U -> good rs U lvl -> good rs U (filt ars nl) -> slot_closed_t ars rs (T U) = true ->
                  incl D (mkdiff ars rs (filt ars lvl) (filt ars nl)) ->
                  incl l lvl -> kept_ok_t deep ars rs (filt ars nl) (T l) = true ->
                  bguard_t ars rs lvl (T l) D = true)).
    - intros k IH. exact IH.
    - intros. reflexivity.
    - intros r t k IHt IHk ars rs U lvl nl D HU Hgo Hgn Hcl HD Hinc Hk.
      rewrite kept_ok_cons in Hk. apply andb_true_iff in Hk as [Hk1 Hkk].
      rewrite bguard_cons. apply andb_true_iff.
      split; [|apply (IHk ars rs U lvl nl D); try assumption; intros x Hx; apply Hinc; now right].
      assert (Hrt : In (r, t) lvl) by (apply Hinc; now left).
      assert (Hw : wfb (kids t) = true).
      { apply wfb_wf. exact (proj1 (proj2 (proj2 (proj2 (good_inv rmatch rs U lvl Hgo)))) r t Hrt). }
      destruct (passes ars r) as [acrs|] eqn:Hpa.
      + destruct (is_nil (kids t)) eqn:Enil; [reflexivity|]. cbn [orb].
        destruct (match_row rmatch r rs) as [[s crs]|] eqn:Hm.
        * cbn [orb] in Hk1.
          destruct (block_step deep ars rs U lvl nl D r t acrs s crs HU Hgo Hgn HD Hrt Hpa Hm Hk1)
            as [(Hfo & tu & nl' & Htu & HUc & Hgc & Hgn' & Hsub & Hk')|(Hrb & _)].
          -- rewrite Hfo. cbn [andb]. apply orb_true_iff. left.
             apply (IHt acrs crs (kids tu) (kids t) nl' (dsub r D)); try assumption; [|apply incl_refl].
             rewrite tree_eta. exact (slot_closed_child amatch_ asrc arev anorm rmatch ars rs U r tu acrs s crs Hcl Htu Hpa Hm).
          -- rewrite Hrb, Hw. apply orb_true_r.
        * rewrite Hw, andb_true_r.
          apply (row_uncov ars rs U lvl nl D HU Hgo Hgn HD r t Hrt (or_intror Hm) Hcl).
      + apply (row_uncov ars rs U lvl nl D HU Hgo Hgn HD r t Hrt (or_introl Hpa) Hcl).
  Qed.
End Walk.

(* ------------------------------------------------------------------------------------ *)
(* 4. every entry of the diff, at every depth, carries the slot of a row of the universe   *)

Lemma attrs_eqb_refl a : attrs_eqb a a = true.
Proof.
  unfold attrs_eqb. rewrite String.eqb_refl. destruct (a_logic a), (a_dlogic a), (a_parent a), (a_force_commit a); reflexivity.
Qed.

Section Din.
  Variable amatch_ : string -> string -> option (list string).
  Variable asrc : string -> string.
  Variable arev : string -> string.
  Variable anorm : string -> string.
  Variable rmatch : string -> string -> option (list string).
  Variable rreverse : string -> list string -> string.
  Variable is_exit : string -> bool.

  Notation mkdiff := (acl_make_diff amatch_ asrc arev anorm rmatch).
  Notation good := (good rmatch).
  Notation uok := (uok rmatch rreverse is_exit).

  Fixpoint din (rs : rset) (U : forest) (n : dnode) {struct n} : Prop :=
    match n with
    | DN _ row mi ks =>
      exists tu crs, In (row, tu) U /\ match_row rmatch row rs = Some (mi, crs) /\
                     (fix all (l : list dnode) : Prop :=
                        match l with [] => True | k :: l' => din crs (kids tu) k /\ all l' end) ks
    end.

  Lemma din_unfold rs U o row mi ks :
    din rs U (DN o row mi ks) <->
    exists tu crs, In (row, tu) U /\ match_row rmatch row rs = Some (mi, crs) /\ Forall (din crs (kids tu)) ks.
  Proof.
    cbn [din]. split; intros (tu & crs & H1 & H2 & H3); exists tu, crs; (split; [exact H1|]); (split; [exact H2|]).
    - induction ks as [|k ks IH]; [constructor|]. destruct H3 as [Hk Hr]. constructor; [exact Hk | exact (IH Hr)].
    - induction H3 as [|k ks Hk _ IH]; [exact I | split; [exact Hk | exact IH]].
  Qed.

  Lemma din_mark : forall n rs U, din rs U n -> din rs U (mark_unchanged_n n).
  Proof.
    induction n as [o row m ks IH] using dnode_ind2. intros rs U H. cbn [mark_unchanged_n].
    destruct (op_eqb o Affected); [|exact H].
    apply din_unfold in H as (tu & crs & H1 & H2 & H3). apply din_unfold. exists tu, crs. split; [exact H1|]. split; [exact H2|].
    rewrite Forall_forall in IH, H3. apply Forall_forall. intros x Hx. apply in_map_iff in Hx as (y & E & Hy). subst x.
    apply (IH y Hy). exact (H3 y Hy).
  Qed.

  Lemma din_acl : forall n ars rs U, din rs U n -> Forall (din rs U) (apply_acl_diff_n amatch_ asrc arev anorm ars n).
  Proof.
    induction n as [o row m ks IH] using dnode_ind2. intros ars rs U H. cbn [apply_acl_diff_n].
    destruct (acl_match amatch_ asrc arev anorm row ars) as [|g|am acrs]; try constructor; [|constructor].
    apply din_unfold in H as (tu & crs & H1 & H2 & H3). apply din_unfold. exists tu, crs. split; [exact H1|]. split; [exact H2|].
    rewrite Forall_forall in IH, H3. apply Forall_forall. intros x Hx. apply in_flat_map in Hx as (y & Hy & Hx).
    specialize (IH y Hy acrs crs (kids tu) (H3 y Hy)). rewrite Forall_forall in IH. exact (IH x Hx).
  Qed.

  Lemma din_removed : forall f rs U, uok rs U -> good rs U f -> Forall (din rs U) (removed_t (annot rmatch rs (T f))).
  Proof.
    apply (forest_sub_ind (fun f => forall rs U, uok rs U -> good rs U f -> Forall (din rs U) (removed_t (annot rmatch rs (T f))))).
    intros f IH rs U HU Hg. rewrite annot_T, removed_t_default by (eapply all_default_of_good; eassumption).
    destruct (good_inv rmatch rs U f Hg) as (_ & _ & Hi & _ & Hs).
    destruct (uok_inv rmatch rreverse is_exit rs U HU) as (_ & _ & HUk).
    apply Forall_forall. intros x Hx. apply in_map_iff in Hx as ([[r mi] sub] & E & Hk). subst x.
    apply annot_in in Hk as (t & crs & Hin & Hm & Esub). subst sub. unfold mkrem. cbn [arow ami asub fst snd].
    pose proof (Hi (r, t) Hin) as HrU. apply in_keys_tfind in HrU as (tu & Htu).
    apply din_unfold. exists tu, crs. split; [exact Htu|]. split; [exact Hm|].
    rewrite (annot_kids rmatch crs t), <- annot_T.
    apply (IH r t Hin); [exact (proj2 (HUk r tu mi crs Htu Hm)) | exact (Hs r t tu mi crs Hin Htu Hm)].
  Qed.

  Lemma din_raw : forall nf of rs U pop inrw, uok rs U -> good rs U of -> good rs U nf ->
    Forall (din rs U) (diff_t (annot rmatch rs (T nf)) (annot_f rmatch rs of) pop inrw).
  Proof.
    apply (forest_sub_ind (fun nf => forall of rs U pop inrw, uok rs U -> good rs U of -> good rs U nf ->
                                     Forall (din rs U) (diff_t (annot rmatch rs (T nf)) (annot_f rmatch rs of) pop inrw))).
    intros nf IH of rs U pop inrw HU Hgo Hgn.
    destruct (good_inv rmatch rs U of Hgo) as (_ & _ & Hio & _ & Hso).
    destruct (good_inv rmatch rs U nf Hgn) as (_ & _ & Hin & _ & Hsn).
    destruct (uok_inv rmatch rreverse is_exit rs U HU) as (_ & _ & HUk).
    rewrite annot_T, diff_t_unfold, diff_level_default by (eapply all_default_of_good; eassumption).
    apply Forall_forall. intros x Hx. eapply Permutation_in in Hx; [|apply base_diff_default_perm].
    apply in_app_iff in Hx as [Hx|Hx].
    - apply in_map_iff in Hx as ([[r mi] sub] & E & Hk). subst x.
      apply annot_in in Hk as (tn & crs & Hinn & Hm & Esub). subst sub.
      pose proof (Hin (r, tn) Hinn) as HrU. apply in_keys_tfind in HrU as (tu & Htu).
      destruct (HUk r tu mi crs Htu Hm) as [_ HUc]. pose proof (Hsn r tn tu mi crs Hinn Htu Hm) as Hgcn.
      unfold newnode. cbn [arow ami asub fst snd].
      destruct (alookup r (annot_f rmatch rs of)) as [[mo so]|] eqn:El.
      + apply alookup_Some_In in El. apply annot_in in El as (to & crs' & Hino & Hm' & Eso).
        rewrite Hm in Hm'. injection Hm' as Em Ec. subst mo crs' so.
        apply din_unfold. exists tu, crs. split; [exact Htu|]. split; [exact Hm|].
        rewrite (annot_kids rmatch crs tn), (annot_kids rmatch crs to), <- annot_T. cbn [akids].
        apply (IH r tn Hinn); [exact HUc | exact (Hso r to tu mi crs Hino Htu Hm) | exact Hgcn].
      + apply din_unfold. exists tu, crs. split; [exact Htu|]. split; [exact Hm|].
        rewrite (annot_kids rmatch crs tn), <- annot_T, <- (annot_f_nil rmatch crs).
        apply (IH r tn Hinn); [exact HUc | apply good_nil | exact Hgcn].
    - apply in_map_iff in Hx as (k & E & Hk). apply filter_In in Hk as [Hk _].
      pose proof (din_removed of rs U HU Hgo) as Hr. rewrite annot_T, removed_t_default in Hr by (eapply all_default_of_good; eassumption).
      rewrite Forall_forall in Hr. apply Hr. subst x. apply in_map. exact Hk.
  Qed.

  Theorem din_diff ars rs U of nf : uok rs U -> good rs U of -> good rs U nf -> Forall (din rs U) (mkdiff ars rs of nf).
  Proof.
    intros HU Hgo Hgn. unfold acl_make_diff, mark_unchanged, AclPipeline.apply_acl_diff, raw_diff.
    pose proof (din_raw nf of rs U Affected false HU Hgo Hgn) as Hraw. rewrite Forall_forall in Hraw.
    apply Forall_forall. intros x Hx. apply in_map_iff in Hx as (y & E & Hy). subst x. apply din_mark.
    apply in_flat_map in Hy as (z & Hz & Hy). pose proof (din_acl z ars rs U (Hraw z Hz)) as Hf.
    rewrite Forall_forall in Hf. exact (Hf y Hy).
  Qed.

  (* no %force_commit rule and one set of attributes per rule text in the universe: the diff is regular *)
  Lemma din_regular : forall n rs U, uok rs U -> Forall (din rs U) (d_kids n) -> diff_regular_n n = true.
  Proof.
    induction n as [o row m ks IH] using dnode_ind2. intros rs U HU Hks. cbn [d_kids] in Hks. cbn [diff_regular_n].
    destruct (uok_inv rmatch rreverse is_exit rs U HU) as (HLU & _ & HUk).
    rewrite Forall_forall in IH, Hks. apply andb_true_iff. split.
    - apply forallb_forall. intros k Hk. specialize (Hks k Hk). destruct k as [o' row' m' ks'].
      apply din_unfold in Hks as (tu & crs & H1 & H2 & H3).
      apply (IH _ Hk crs (kids tu)); [exact (proj2 (HUk row' tu m' crs H1 H2)) | exact H3].
    - apply forallb_forall. intros a Ha. pose proof (Hks a Ha) as Da. destruct a as [oa ra ma ka].
      apply din_unfold in Da as (tua & crsa & A1 & A2 & _). cbn [d_mi].
      destruct (allow_A_facts ma (proj1 (HUk ra tua ma crsa A1 A2))) as (_ & _ & Hfc & _). rewrite Hfc. cbn [negb andb].
      apply forallb_forall. intros b Hb. pose proof (Hks b Hb) as Db. destruct b as [ob rb mb kb].
      apply din_unfold in Db as (tub & crsb & B1 & B2 & _). cbn [d_mi].
      destruct (String.eqb_spec (mi_raw ma) (mi_raw mb)) as [E|E]; [|reflexivity]. cbn [negb orb].
      assert (Ea : mi_attrs ma = mi_attrs mb).
      { apply (lo_attrs _ _ _ _ _ HLU rb mb ra ma); [exact (in_keys rb tub U B1) | unfold slot_of; rewrite B2; reflexivity
                                                     | exact (in_keys ra tua U A1) | unfold slot_of; rewrite A2; reflexivity | exact E]. }
      rewrite Ea. apply attrs_eqb_refl.
  Qed.

  Theorem domain_diff_regular ars rs U of nf : uok rs U -> good rs U of -> good rs U nf ->
    diff_regular (mkdiff ars rs of nf) = true.
  Proof.
    intros HU Hgo Hgn. unfold diff_regular. apply (din_regular _ rs U HU). cbn [d_kids]. apply din_diff; assumption.
  Qed.
End Din.

(* ------------------------------------------------------------------------------------ *)
(* 5. instantiated: the guards of the full-depth theorems follow from the device domain    *)

(* the device domain without %force_commit rules (Spec/P_C01.v wf_A) on old and the ACL-filtered new *)
Definition c02_dev_domain_A (x : c02in) : bool :=
  wf_A (i_vendor x) (i_rules x) (i_old x) (c02_filtered_new x).
(* one set of attributes per rule text on every rule set that old reaches *)
Definition c02_rules_det (x : c02in) : bool := det_along_t pm (i_rules x) (T (i_old x)).
(* no kept block of old is replaced or `permanent` (classes X1, X2 above) *)
Definition c02_kept_ok_with (deep : bool) (x : c02in) : bool :=
  kept_ok_t acl_pm acl_psrc (acl_prev (i_av x)) (acl_norm (i_av x)) pm deep (i_ars x) (i_rules x) (c02_filtered_new x) (T (i_old x)).
Definition c02_kept_ok := c02_kept_ok_with false.
(* moreover no cant_delete row inside a deletable block that is absent from new (the class of the open finding) *)
Definition c02_kept_ok_full := c02_kept_ok_with true.

Lemma allow_A_eval m : allow_A m = true -> allow_eval m = true.
Proof. unfold allow_A. intro H. apply andb_true_iff in H as [H _]. exact H. Qed.

Lemma c02_domain_A_props x : c02_dev_domain_A x = true ->
  uok pm (prreverse (i_vendor x)) (v_is_exit (i_vendor x)) (i_rules x) (merge (i_old x) (c02_filtered_new x)) /\
  good pm (i_rules x) (merge (i_old x) (c02_filtered_new x)) (i_old x) /\
  good pm (i_rules x) (merge (i_old x) (c02_filtered_new x)) (c02_filtered_new x).
Proof.
  unfold c02_dev_domain_A, wf_A, wf_step_with. rewrite !andb_true_iff. intros [[[[H1 H2] H3] H4] H5].
  apply wf_step_props; assumption.
Qed.

Theorem domain_diff_regular_model x : c02_dev_domain_A x = true -> diff_regular (p_full_diff x) = true.
Proof.
  intro Hd. destruct (c02_domain_A_props x Hd) as (HU & Hgo & Hgn).
  unfold p_full_diff, p_acl_make_diff.
  apply (domain_diff_regular acl_pm acl_psrc (acl_prev (i_av x)) (acl_norm (i_av x)) pm (prreverse (i_vendor x)) (v_is_exit (i_vendor x))
           (i_ars x) (i_rules x) (merge (i_old x) (c02_filtered_new x))); [exact HU | | exact Hgn].
  apply good_filter. exact Hgo.
Qed.

Lemma domain_cguard deep x :
  is_block_family (v_family (i_vendor x)) = true -> c02_dev_domain_A x = true ->
  c02_rules_det x = true -> c02_kept_ok_with deep x = true ->
  is_block_family (v_family (i_vendor x)) && diff_regular (p_full_diff x) && p_cguard deep x = true.
Proof.
  intros Hf Hd Hdet Hk. destruct (c02_domain_A_props x Hd) as (HU & Hgo & Hgn).
  rewrite Hf, (domain_diff_regular_model x Hd). cbn [andb]. unfold p_cguard.
  apply (cguard_of_domain acl_pm acl_psrc (acl_prev (i_av x)) (acl_norm (i_av x)) pm (prreverse (i_vendor x)) (v_is_exit (i_vendor x))
           deep (T (i_old x)) (i_ars x) (i_rules x) (merge (i_old x) (c02_filtered_new x)) (i_old x) (i_new x));
    try assumption; apply incl_refl.
Qed.

Theorem domain_c_deep_guard x :
  is_block_family (v_family (i_vendor x)) = true -> c02_dev_domain_A x = true ->
  c02_rules_det x = true -> c02_kept_ok x = true -> c_deep_guard x = true.
Proof. apply domain_cguard. Qed.

(* the guard of the FULL form of (c), without the ancestor exception *)
Theorem domain_c_full_guard x :
  is_block_family (v_family (i_vendor x)) = true -> c02_dev_domain_A x = true ->
  c02_rules_det x = true -> c02_kept_ok_full x = true -> c_full_guard x = true.
Proof. apply domain_cguard. Qed.

Theorem domain_b_deep_guard_with deep x :
  is_block_family (v_family (i_vendor x)) = true -> c02_dev_domain_A x = true -> c02_closed x = true ->
  c02_kept_ok_with deep x = true -> b_deep_guard x = true.
Proof.
  intros Hf Hd Hcl Hk. destruct (c02_domain_A_props x Hd) as (HU & Hgo & Hgn).
  unfold b_deep_guard. rewrite Hf, (domain_diff_regular_model x Hd). cbn [andb]. unfold p_bguard.
  apply (bguard_of_domain acl_pm acl_psrc (acl_prev (i_av x)) (acl_norm (i_av x)) pm (prreverse (i_vendor x)) (v_is_exit (i_vendor x))
           deep (T (i_old x)) (i_ars x) (i_rules x) (merge (i_old x) (c02_filtered_new x)) (i_old x) (i_new x));
    try assumption; apply incl_refl.
Qed.

Theorem domain_b_deep_guard x :
  is_block_family (v_family (i_vendor x)) = true -> c02_dev_domain_A x = true -> c02_closed x = true ->
  c02_kept_ok x = true -> b_deep_guard x = true.
Proof. apply domain_b_deep_guard_with. Qed.

(* the clauses of P_C02 for the model pipeline, from the domain alone *)
Theorem C02_c_domain_model x ordering :
  is_block_family (v_family (i_vendor x)) = true -> c02_dev_domain_A x = true ->
  c02_rules_det x = true -> c02_kept_ok x = true -> C02_c x (model_out x ordering) = true.
Proof. intros. apply C02_c_deep_model. apply domain_c_deep_guard; assumption. Qed.

Theorem C02_b_domain_model x ordering :
  is_block_family (v_family (i_vendor x)) = true -> c02_dev_domain_A x = true -> c02_closed x = true ->
  c02_kept_ok x = true -> C02_b x (model_out x ordering) = true.
Proof. intros. apply C02_b_deep_model. apply domain_b_deep_guard; assumption. Qed.

(* the full form of (c), without the ancestor exception *)
Theorem C02_c_full_domain_model x ordering :
  is_block_family (v_family (i_vendor x)) = true -> c02_dev_domain_A x = true ->
  c02_rules_det x = true -> c02_kept_ok_full x = true -> C02_c_deep x (model_out x ordering) = true.
Proof. intros. apply C02_c_full_model. apply domain_c_full_guard; assumption. Qed.
