(* C09, deploy side: apply_deploy_rulebook as wrapper ++ body ++ wrapper, the groupby model,
   match_deploy_rule vs. the unique rule chain, the session wrapper tables of apply(). *)
From Coq Require Import List String Ascii Bool Arith NArith Lia.
From Annet Require Import Base.Str Model.Pattern Model.Order Model.Patch Model.Blocks Gen.Src_apply Model.Deploy
     Spec.P_C09.
Import ListNotations.
Open Scope string_scope.
Open Scope list_scope.

(* ------------------------------------------------------------------------------------ *)
(* opt_all *)

Lemma opt_all_some {A B} (g : A -> option B) (l : list A) (m : list B) :
  opt_all (map g l) = Some m -> Forall2 (fun x y => g x = Some y) l m.
Proof.
  revert m. induction l as [|x l IH]; cbn; intros m H.
  - injection H as H. subst. constructor.
  - destruct (g x) as [y|] eqn:E; [|discriminate].
    destruct (opt_all (map g l)) as [r|] eqn:Er; [|discriminate].
    injection H as H. subst. constructor; [exact E|apply IH; reflexivity].
Qed.

Lemma opt_all_map_ext {A B} (g h : A -> option B) (l : list A) :
  (forall x, In x l -> g x = h x) -> opt_all (map g l) = opt_all (map h l).
Proof.
  induction l as [|x l IH]; cbn; intro H; [reflexivity|].
  rewrite (H x (or_introl eq_refl)). rewrite IH; [reflexivity|]. intros y Hy. apply H. right. exact Hy.
Qed.

(* ------------------------------------------------------------------------------------ *)
(* groupby *)

Lemma wrapper_eqb_refl w : wrapper_eqb w w = true.
Proof.
  unfold wrapper_eqb. apply andb_true_iff. split; apply list_str_eqb_eq; reflexivity.
Qed.

Lemma wrapper_eqb_eq a b : wrapper_eqb a b = true -> a = b.
Proof.
  unfold wrapper_eqb. intro H. apply andb_true_iff in H as [H1 H2].
  apply list_str_eqb_eq in H1. apply list_str_eqb_eq in H2. destruct a, b. cbn in *. subst. reflexivity.
Qed.

(* the bodies of the groups, concatenated, are the commands in their original order *)
Lemma groupby_concat (l : list (command * wrapper)) :
  List.concat (map snd (groupby l)) = map fst l.
Proof.
  induction l as [|[c w] r IH]; [reflexivity|].
  cbn [groupby map fst]. destruct (groupby r) as [|[w' g] gs] eqn:E.
  - cbn in *. rewrite <- IH. reflexivity.
  - destruct (wrapper_eqb w w'); cbn in *; rewrite <- IH; reflexivity.
Qed.

(* every group is non-empty and its wrapper is the one some member asked for *)
Lemma groupby_keys (l : list (command * wrapper)) :
  forall w g, In (w, g) (groupby l) -> g <> [] /\ exists c, In (c, w) l.
Proof.
  induction l as [|[c w0] r IH]; cbn [groupby]; [intros w g []|].
  intros w g Hin. destruct (groupby r) as [|[w' g'] gs] eqn:E.
  - destruct Hin as [Hin|[]]. injection Hin as -> <-. split; [discriminate|]. exists c. left. reflexivity.
  - destruct (wrapper_eqb w0 w') eqn:Ew.
    + destruct Hin as [Hin|Hin].
      * injection Hin as <- <-. split; [discriminate|]. exists c. left.
        apply wrapper_eqb_eq in Ew. subst. reflexivity.
      * destruct (IH w g (or_intror Hin)) as [Hg [c' Hc']]. split; [exact Hg|]. exists c'. right. exact Hc'.
    + destruct Hin as [Hin|Hin].
      * injection Hin as <- <-. split; [discriminate|]. exists c. left. reflexivity.
      * destruct (IH w g Hin) as [Hg [c' Hc']]. split; [exact Hg|]. exists c'. right. exact Hc'.
Qed.

(* adjacent groups have different wrappers (maximal runs) *)
Fixpoint adjacent_differ (gs : list (wrapper * list command)) : Prop :=
  match gs with
  | a :: ((b :: _) as r) => wrapper_eqb (fst a) (fst b) = false /\ adjacent_differ r
  | _ => True
  end.

Lemma groupby_maximal (l : list (command * wrapper)) : adjacent_differ (groupby l).
Proof.
  induction l as [|[c w] r IH]; [exact I|].
  cbn [groupby]. destruct (groupby r) as [|[w' g] gs] eqn:E; [exact I|].
  destruct (wrapper_eqb w w') eqn:Ew.
  - destruct gs as [|b gs']; [exact I|]. cbn in *. exact IH.
  - cbn. split; [exact Ew|exact IH].
Qed.

Lemma groupby_single (l : list (command * wrapper)) (w : wrapper) :
  l <> [] -> (forall x, In x l -> snd x = w) -> groupby l = [(w, map fst l)].
Proof.
  induction l as [|[c w0] r IH]; intros Hne Hall; [contradiction|].
  assert (w0 = w) as -> by (apply (Hall (c, w0)); left; reflexivity).
  cbn [groupby map fst]. destruct r as [|x r'].
  - reflexivity.
  - rewrite IH; [|discriminate|intros y Hy; apply Hall; right; exact Hy].
    rewrite wrapper_eqb_refl. reflexivity.
Qed.

(* ------------------------------------------------------------------------------------ *)
(* C09_deploy_body *)

Section DeployBody.
  Variable hit : drule -> string -> ctx -> bool.
  Variable wrappers : nat -> wrapper.
  Variable rules : list drule.

  (* the command of a path alone *)
  Definition body_only (pc : list string * ctx) : option command :=
    match body_cmd hit wrappers rules pc with Some (c, _) => Some c | None => None end.

  Definition wrapper_of (pc : list string * ctx) : wrapper :=
    wrappers (d_apply (rule_for hit rules (fst pc) (snd pc))).

  Lemma body_cmd_split pc :
    body_cmd hit wrappers rules pc =
    match body_only pc with Some c => Some (c, wrapper_of pc) | None => None end.
  Proof.
    unfold body_only, body_cmd, wrapper_of.
    destruct (cmd_params (rule_for hit rules (fst pc) (snd pc))) as [[t qs]|]; reflexivity.
  Qed.

  Lemma body_only_shape pc c :
    body_only pc = Some c -> c_cmd c = path_cmd (fst pc) /\ c_level c = path_level (fst pc).
  Proof.
    unfold body_only, body_cmd.
    destruct (cmd_params (rule_for hit rules (fst pc) (snd pc))) as [[t qs]|]; [|discriminate].
    intro H. injection H as <-. split; reflexivity.
  Qed.

  Lemma wrap_cmd_shape s c : wrap_cmd hit rules s = Some c -> c_cmd c = s /\ c_level c = 0.
  Proof.
    unfold wrap_cmd. destruct (cmd_params (rule_for hit rules [s] [])) as [[t qs]|]; [|discriminate].
    intro H. injection H as <-. split; reflexivity.
  Qed.

  Lemma opt_all_body_single paths w :
    (forall pc, In pc paths -> wrapper_of pc = w) ->
    opt_all (map (body_cmd hit wrappers rules) paths) =
    match opt_all (map body_only paths) with
    | Some m => Some (map (fun c => (c, w)) m)
    | None => None
    end.
  Proof.
    induction paths as [|pc l IH]; intro H; [reflexivity|].
    cbn [map opt_all]. rewrite body_cmd_split, (H pc (or_introl eq_refl)).
    destruct (body_only pc) as [c|]; [|reflexivity].
    rewrite IH; [|intros x Hx; apply H; right; exact Hx].
    destruct (opt_all (map body_only l)); reflexivity.
  Qed.

  Lemma opt_all_length {A B} (g : A -> option B) l m : opt_all (map g l) = Some m -> List.length m = List.length l.
  Proof.
    intro H. apply opt_all_some in H. induction H; cbn; congruence.
  Qed.

  (* all commands under one apply logic: before ++ commands ++ after *)
  Theorem deploy_single paths w :
    paths <> [] ->
    (forall pc, In pc paths -> wrapper_of pc = w) ->
    deploy hit wrappers rules paths =
    match opt_all (map body_only paths) with
    | None => None
    | Some m =>
      match opt_all (map (wrap_cmd hit rules) (fst w)), opt_all (map (wrap_cmd hit rules) (snd w)) with
      | Some b, Some a => Some (b ++ m ++ a)
      | _, _ => None
      end
    end.
  Proof.
    intros Hne Hall. unfold deploy. rewrite (opt_all_body_single paths w Hall).
    destruct (opt_all (map body_only paths)) as [m|] eqn:Em; [|reflexivity].
    assert (m <> []) as Hm.
    { apply opt_all_length in Em. destruct m; [|discriminate]. destruct paths; [contradiction|discriminate]. }
    rewrite (groupby_single _ w).
    - cbn [map opt_all]. unfold emit_group. cbn [fst snd].
      rewrite map_map. cbn [fst]. rewrite map_id.
      destruct (opt_all (map (wrap_cmd hit rules) (fst w))) as [b|]; [|reflexivity].
      destruct (opt_all (map (wrap_cmd hit rules) (snd w))) as [a|]; [|reflexivity].
      cbn. rewrite app_nil_r. reflexivity.
    - destruct m; [contradiction|discriminate].
    - intros x Hx. apply in_map_iff in Hx as [c [E _]]. subst. reflexivity.
  Qed.

  Lemma deploy_nil : deploy hit wrappers rules [] = Some [].
  Proof. reflexivity. Qed.

  Lemma wrap_cmds_shape l x :
    opt_all (map (wrap_cmd hit rules) l) = Some x -> map c_cmd x = l /\ Forall (fun c => c_level c = 0) x.
  Proof.
    intro Hx. apply opt_all_some in Hx.
    induction Hx as [|s c l' x' Hc _ IH]; [split; [reflexivity|constructor]|].
    apply wrap_cmd_shape in Hc as [H1 H2]. destruct IH as [I1 I2]. cbn. split; [congruence|constructor; assumption].
  Qed.

  (* the readable form *)
  Theorem deploy_body paths w cmds :
    paths <> [] ->
    (forall pc, In pc paths -> wrapper_of pc = w) ->
    deploy hit wrappers rules paths = Some cmds ->
    exists b m a,
      cmds = b ++ m ++ a /\
      map c_cmd b = fst w /\ Forall (fun c => c_level c = 0) b /\
      map c_cmd a = snd w /\ Forall (fun c => c_level c = 0) a /\
      map (fun c => (c_level c, c_cmd c)) m = map (fun pc => lv (fst pc)) paths.
  Proof.
    intros Hne Hall H. rewrite (deploy_single paths w Hne Hall) in H.
    destruct (opt_all (map body_only paths)) as [m|] eqn:Em; [|discriminate].
    destruct (opt_all (map (wrap_cmd hit rules) (fst w))) as [b|] eqn:Eb; [|discriminate].
    destruct (opt_all (map (wrap_cmd hit rules) (snd w))) as [a|] eqn:Ea; [|discriminate].
    injection H as <-. exists b, m, a. split; [reflexivity|].
    destruct (wrap_cmds_shape _ _ Eb) as [B1 B2]. destruct (wrap_cmds_shape _ _ Ea) as [A1 A2].
    repeat split; try assumption.
    apply opt_all_some in Em. clear - Em. induction Em as [|pc c l m' Hc _ IH]; [reflexivity|].
    apply body_only_shape in Hc as [H1 H2]. cbn [map]. rewrite IH. unfold lv. rewrite H1, H2. reflexivity.
  Qed.

  (* what a group turns into: its wrapper's commands at level 0 around its members *)
  Lemma emit_group_shape g x :
    emit_group hit rules g = Some x ->
    exists b a, x = b ++ snd g ++ a /\
                map c_cmd b = fst (fst g) /\ Forall (fun c => c_level c = 0) b /\
                map c_cmd a = snd (fst g) /\ Forall (fun c => c_level c = 0) a.
  Proof.
    unfold emit_group.
    destruct (opt_all (map (wrap_cmd hit rules) (fst (fst g)))) as [b|] eqn:Eb; [|discriminate].
    destruct (opt_all (map (wrap_cmd hit rules) (snd (fst g)))) as [a|] eqn:Ea; [|discriminate].
    intro H. injection H as <-. exists b, a.
    destruct (wrap_cmds_shape _ _ Eb). destruct (wrap_cmds_shape _ _ Ea). repeat split; assumption.
  Qed.

  (* the general case: maximal runs of paths asking for the same wrapper, each emitted between
     its wrapper; the members of the runs, concatenated, are the commands of the paths in order *)
  Theorem deploy_groups paths cmds :
    deploy hit wrappers rules paths = Some cmds ->
    exists items emitted,
      opt_all (map (body_cmd hit wrappers rules) paths) = Some items /\
      map (fun x => (c_level (fst x), c_cmd (fst x))) items = map (fun pc => lv (fst pc)) paths /\
      List.concat (map snd (groupby items)) = map fst items /\
      adjacent_differ (groupby items) /\
      Forall2 (fun g x => emit_group hit rules g = Some x) (groupby items) emitted /\
      cmds = List.concat emitted.
  Proof.
    unfold deploy. intro H.
    destruct (opt_all (map (body_cmd hit wrappers rules) paths)) as [items|] eqn:Ei; [|discriminate].
    destruct (opt_all (map (emit_group hit rules) (groupby items))) as [gs|] eqn:Eg; [|discriminate].
    injection H as <-. exists items, gs.
    repeat split.
    - apply opt_all_some in Ei. clear - Ei. induction Ei as [|pc [c w] l m Hc _ IH]; [reflexivity|].
      cbn [map fst]. rewrite IH. rewrite body_cmd_split in Hc.
      destruct (body_only pc) as [c'|] eqn:Eb; [|discriminate]. injection Hc as -> _.
      apply body_only_shape in Eb as [H1 H2]. unfold lv. rewrite H1, H2. reflexivity.
    - apply groupby_concat.
    - apply groupby_maximal.
    - apply opt_all_some. exact Eg.
  Qed.
End DeployBody.

(* ------------------------------------------------------------------------------------ *)
(* C09_cmd_params: match_deploy_rule returns the rule of the unique chain                  *)

Section Chain.
  Variable hit : drule -> string -> ctx -> bool.

  Lemma scan_last rs row c cur :
    scan hit rs row c true cur = (find (fun r => hit r row c) rs, cur).
  Proof.
    induction rs as [|r rs IH]; cbn; [reflexivity|].
    destruct (hit r row c); [reflexivity|exact IH].
  Qed.

  Lemma scan_nohit rs row c cur :
    filter (fun r => hit r row c) rs = [] -> scan hit rs row c false cur = (None, cur).
  Proof.
    induction rs as [|r rs IH]; cbn; [reflexivity|].
    destruct (hit r row c); [discriminate|exact IH].
  Qed.

  Lemma scan_unique rs row c cur r :
    filter (fun r => hit r row c) rs = [r] -> scan hit rs row c false cur = (None, d_kids r).
  Proof.
    revert cur. induction rs as [|x rs IH]; cbn; intros cur H; [discriminate|].
    destruct (hit x row c).
    - injection H as -> H. destruct (d_kids r) as [|k ks] eqn:Ek; cbn [is_nil]; [reflexivity|].
      rewrite (scan_nohit rs row c _ H). reflexivity.
    - apply IH. exact H.
  Qed.

  Lemma find_filter {A} (p : A -> bool) (l : list A) : find p l = hd_error (filter p l).
  Proof.
    induction l as [|x l IH]; cbn; [reflexivity|]. destruct (p x); [reflexivity|exact IH].
  Qed.

  Lemma match_rule_nil path c : match_rule hit [] path c = None.
  Proof. induction path as [|row rest IH]; cbn; [reflexivity|]. destruct (is_nil rest); exact IH. Qed.

  Lemma spec_rule_nil path c : spec_rule hit [] path c = None.
  Proof. induction path as [|row rest IH]; cbn; [reflexivity|exact IH]. Qed.

  Theorem match_rule_spec :
    forall path rs c, chain_det hit rs path c = true -> match_rule hit rs path c = spec_rule hit rs path c.
  Proof.
    induction path as [|row rest IH]; intros rs c H; [reflexivity|].
    cbn [match_rule spec_rule chain_det] in *.
    destruct rest as [|row2 rest'].
    - cbn [is_nil]. rewrite scan_last. destruct (find (fun r => hit r row c) rs); reflexivity.
    - cbn [is_nil orb] in *. rewrite find_filter.
      destruct (filter (fun r => hit r row c) rs) as [|r [|r2 l]] eqn:Ef; [| |discriminate].
      + rewrite (scan_nohit _ _ _ _ Ef). cbn [hd_error]. apply IH. exact H.
      + rewrite (scan_unique _ _ _ _ _ Ef). cbn [hd_error]. apply IH. exact H.
  Qed.

  (* sibling rules with disjoint languages, at every level of the rulebook *)
  Inductive disjoint_book : list drule -> Prop :=
  | DB : forall rs,
      (forall row c, List.length (filter (fun r => hit r row c) rs) <= 1) ->
      Forall (fun r => disjoint_book (d_kids r)) rs ->
      disjoint_book rs.

  Lemma disjoint_chain_det : forall path rs c, disjoint_book rs -> chain_det hit rs path c = true.
  Proof.
    induction path as [|row rest IH]; intros rs c H; [reflexivity|].
    cbn [chain_det]. destruct (is_nil rest); [reflexivity|]. cbn [orb].
    inversion H as [rs' Hlen Hk]; subst.
    specialize (Hlen row c).
    destruct (filter (fun r => hit r row c) rs) as [|r [|r2 l]] eqn:Ef.
    - apply IH. exact H.
    - apply IH. assert (In r rs) as Hin.
      { assert (In r (filter (fun r => hit r row c) rs)) as Hf by (rewrite Ef; left; reflexivity).
        apply filter_In in Hf. tauto. }
      rewrite Forall_forall in Hk. apply Hk. exact Hin.
    - cbn in Hlen. lia.
  Qed.

  (* --- parameters of a command *)
  Lemma to_question_ok d : dg_send_nl d = true -> to_question d = Some (hd (Q "" "" false) (questions_of [d])).
  Proof.
    intro H. unfold to_question, questions_of. rewrite H. cbn.
    destruct (startswith "/" (dg_question d) && endswith "/" (dg_question d)); reflexivity.
  Qed.

  Lemma cmd_params_ok r : send_nl_ok r = true -> cmd_params r = Some (spec_params (Some r)).
  Proof.
    unfold send_nl_ok, cmd_params, spec_params. intro H.
    assert (opt_all (map to_question (d_dialogs r)) = Some (questions_of (d_dialogs r))) as E.
    { induction (d_dialogs r) as [|d l IH]; [reflexivity|].
      cbn [forallb] in H. apply andb_true_iff in H as [H1 H2].
      cbn [map opt_all]. rewrite (to_question_ok d H1), (IH H2). reflexivity. }
    rewrite E. reflexivity.
  Qed.

  Lemma cmd_params_raises r : send_nl_ok r = false -> cmd_params r = None.
  Proof.
    unfold send_nl_ok, cmd_params. intro H.
    assert (opt_all (map to_question (d_dialogs r)) = None) as E.
    { induction (d_dialogs r) as [|d l IH]; [discriminate|].
      cbn [forallb] in H. cbn [map opt_all]. unfold to_question at 1.
      destruct (dg_send_nl d) eqn:Ed; cbn [negb]; [|reflexivity].
      cbn [andb] in H. rewrite (IH H).
      destruct (startswith "/" (dg_question d) && endswith "/" (dg_question d)); reflexivity. }
    rewrite E. reflexivity.
  Qed.

  Lemma cmd_params_default : cmd_params default_rule = Some (spec_params None).
  Proof. reflexivity. Qed.

  Variable wrappers : nat -> wrapper.
  Variable rules : list drule.

  (* timeout and dialogs of a patch command are those of the unique rule chain matching its
     path, else (30 s, none) *)
  Theorem cmd_params_spec p c cmd w :
    chain_det hit rules p c = true ->
    body_cmd hit wrappers rules (p, c) = Some (cmd, w) ->
    (c_timeout cmd, c_questions cmd) = spec_params (spec_rule hit rules p c).
  Proof.
    intros Hdet H. unfold body_cmd, rule_for in H. cbn [fst snd] in H.
    rewrite (match_rule_spec p rules c Hdet) in H.
    destruct (spec_rule hit rules p c) as [r|].
    - destruct (send_nl_ok r) eqn:Es.
      + rewrite (cmd_params_ok r Es) in H. destruct (spec_params (Some r)) as [t qs].
        injection H as <- _. reflexivity.
      + rewrite (cmd_params_raises r Es) in H. discriminate.
    - rewrite cmd_params_default in H. destruct (spec_params None) as [t qs]. injection H as <- _. reflexivity.
  Qed.

  (* and the command is refused exactly when that rule has a dialog with send_nl = false *)
  Theorem body_cmd_raises p c :
    chain_det hit rules p c = true ->
    (body_cmd hit wrappers rules (p, c) = None <->
     exists r, spec_rule hit rules p c = Some r /\ send_nl_ok r = false).
  Proof.
    intro Hdet. unfold body_cmd, rule_for. cbn [fst snd].
    rewrite (match_rule_spec p rules c Hdet).
    destruct (spec_rule hit rules p c) as [r|].
    - destruct (send_nl_ok r) eqn:Es.
      + rewrite (cmd_params_ok r Es). destruct (spec_params (Some r)). split; [discriminate|].
        intros [r' [E1 E2]]. injection E1 as <-. congruence.
      + rewrite (cmd_params_raises r Es). split; [|reflexivity]. intros _. exists r. split; reflexivity || exact Es.
    - rewrite cmd_params_default. destruct (spec_params None). split; [discriminate|].
      intros [r' [E1 _]]. discriminate.
  Qed.
End Chain.

(* ------------------------------------------------------------------------------------ *)
(* the table-driven matcher of the case files is row_hit                                   *)

Lemma lookup_parse_row k ps v :
  lookup_str k (map (fun p => (p, parse_row p)) ps) = Some v -> v = parse_row k.
Proof.
  induction ps as [|p ps IH]; cbn; [discriminate|].
  destruct (String.eqb p k) eqn:E; [|exact IH].
  apply String.eqb_eq in E. subst. intro H. injection H as <-. reflexivity.
Qed.

Theorem fast_hit_eq rs r row c : fast_hit rs r row c = row_hit r row c.
Proof.
  unfold fast_hit, tbl_hit, pat_table, row_hit, rule_match.
  destruct (lookup_str (d_pat r) _) as [v|] eqn:E.
  - apply lookup_parse_row in E. subst. unfold parse_row. cbn [fst snd].
    destruct (rule_pat (d_pat r)); reflexivity.
  - unfold parse_row. cbn [fst snd]. destruct (rule_pat (d_pat r)); reflexivity.
Qed.

(* ------------------------------------------------------------------------------------ *)
(* C09_wrapper: the session wrapper, for every hardware-flag assignment                    *)

Fixpoint atoms_hw (b : bexp) : list string :=
  match b with
  | BHw f => [f]
  | BAnd a c | BOr a c => atoms_hw a ++ atoms_hw c
  | BNot a => atoms_hw a
  | _ => []
  end.

Fixpoint atoms_opq (b : bexp) : list string :=
  match b with
  | BOpaque s => [s]
  | BAnd a c | BOr a c => atoms_opq a ++ atoms_opq c
  | BNot a => atoms_opq a
  | _ => []
  end.

Definition mem (s : string) (l : list string) : bool := existsb (String.eqb s) l.

Definition env_fin (c f : bool) (hw opq : list string) : env :=
  Env c f (fun s => mem s hw) (fun s => mem s opq).

Lemma beval_ext e1 e2 b :
  e_commit e1 = e_commit e2 -> e_finalize e1 = e_finalize e2 ->
  (forall s, In s (atoms_hw b) -> e_hw e1 s = e_hw e2 s) ->
  (forall s, In s (atoms_opq b) -> e_opq e1 s = e_opq e2 s) ->
  beval e1 b = beval e2 b.
Proof.
  intros Hc Hf. induction b as [| | |f|s|a IHa c IHc|a IHa c IHc|a IHa]; cbn [beval atoms_hw atoms_opq]; intros Hh Ho;
    try reflexivity; try assumption.
  - apply Hh. left. reflexivity.
  - apply Ho. left. reflexivity.
  - rewrite IHa, IHc; try reflexivity; intros s Hs; (apply Hh || apply Ho); apply in_or_app; tauto.
  - rewrite IHa, IHc; try reflexivity; intros s Hs; (apply Hh || apply Ho); apply in_or_app; tauto.
  - rewrite IHa; [reflexivity| |]; assumption.
Qed.

Lemma mem_filter p l s : In s l -> mem s (filter p l) = p s.
Proof.
  intro Hin. unfold mem. destruct (p s) eqn:E.
  - apply existsb_exists. exists s. split; [apply filter_In; split; assumption|apply String.eqb_refl].
  - destruct (existsb (String.eqb s) (filter p l)) eqn:Ex; [|reflexivity].
    apply existsb_exists in Ex as [y [Hy Hsy]]. apply String.eqb_eq in Hsy. subst.
    apply filter_In in Hy. destruct Hy. congruence.
Qed.

Lemma beval_restrict e b :
  beval e b = beval (env_fin (e_commit e) (e_finalize e) (filter (e_hw e) (atoms_hw b)) (filter (e_opq e) (atoms_opq b))) b.
Proof.
  apply beval_ext; try reflexivity; intros s Hs; cbn; symmetry; apply mem_filter; exact Hs.
Qed.

Fixpoint sublists (l : list string) : list (list string) :=
  match l with
  | [] => [[]]
  | x :: r => map (cons x) (sublists r) ++ sublists r
  end.

Lemma filter_in_sublists p l : In (filter p l) (sublists l).
Proof.
  induction l as [|x l IH]; cbn; [left; reflexivity|].
  apply in_or_app. destruct (p x); [left; apply in_map; exact IH|right; exact IH].
Qed.

(* the guard [g] implies the condition [k c f] on (do_commit, do_finalize), checked over every
   assignment of the atoms of g *)
Definition implied (g : bexp) (k : bool -> bool -> bool) : bool :=
  forallb (fun c => forallb (fun f => forallb (fun hw => forallb (fun oq =>
    implb (beval (env_fin c f hw oq) g) (k c f)) (sublists (atoms_opq g))) (sublists (atoms_hw g)))
    [true; false]) [true; false].

Lemma implied_sound g k :
  implied g k = true -> forall e, beval e g = true -> k (e_commit e) (e_finalize e) = true.
Proof.
  unfold implied. intros H e He. rewrite beval_restrict in He.
  rewrite forallb_forall in H.
  assert (In (e_commit e) [true; false]) as Hc by (destruct (e_commit e); cbn; tauto).
  specialize (H _ Hc). rewrite forallb_forall in H.
  assert (In (e_finalize e) [true; false]) as Hf by (destruct (e_finalize e); cbn; tauto).
  specialize (H _ Hf). rewrite forallb_forall in H.
  specialize (H _ (filter_in_sublists (e_hw e) (atoms_hw g))).
  rewrite forallb_forall in H. specialize (H _ (filter_in_sublists (e_opq e) (atoms_opq g))).
  rewrite He in H. exact H.
Qed.

(* what an entry of a table must satisfy *)
Definition entry_ok (strict : bool) (x : entry) : bool :=
  if is_before (en_side x) then is_class WEnter (en_cmd x)
  else
    match classify (en_cmd x) with
    | Some WCommit => implied (en_guard x) (fun c _ => c)
    | Some WLeave => true
    | Some WSave => if strict then implied (en_guard x) (fun _ f => f) else true
    | _ => false
    end.

Lemma branch_wrapper_ok e l :
  forallb (entry_ok true) l = true -> wrapper_ok (e_commit e) (e_finalize e) (branch_wrapper e l) = true.
Proof.
  intro H. rewrite forallb_forall in H.
  unfold wrapper_ok, branch_wrapper, branch_cmds. cbn [fst snd].
  repeat (apply andb_true_iff; split).
  - apply forallb_forall. intros c Hc. apply in_map_iff in Hc as [x [<- Hx]].
    apply filter_In in Hx as [Hx Hg]. apply andb_true_iff in Hg as [Hs Hg].
    specialize (H x Hx). unfold entry_ok in H. destruct (is_before (en_side x)); [exact H|discriminate].
  - apply forallb_forall. intros c Hc. apply in_map_iff in Hc as [x [<- Hx]].
    apply filter_In in Hx as [Hx Hg]. apply andb_true_iff in Hg as [Hs Hg].
    specialize (H x Hx). unfold entry_ok in H. destruct (is_before (en_side x)); [discriminate|].
    unfold is_class. destruct (classify (en_cmd x)) as [[| | |]|]; try discriminate; reflexivity.
  - destruct (e_commit e) eqn:Ec; [reflexivity|]. cbn [orb]. apply negb_true_iff.
    destruct (existsb _ _) eqn:Ex; [|reflexivity].
    apply existsb_exists in Ex as [c [Hc Hcl]]. apply in_map_iff in Hc as [x [<- Hx]].
    apply filter_In in Hx as [Hx Hg]. apply andb_true_iff in Hg as [Hs Hg].
    specialize (H x Hx). unfold entry_ok in H. destruct (is_before (en_side x)); [discriminate|].
    unfold is_class in Hcl. destruct (classify (en_cmd x)) as [[| | |]|]; try discriminate.
    apply (implied_sound _ _ H e) in Hg. congruence.
  - destruct (e_finalize e) eqn:Ec; [reflexivity|]. cbn [orb]. apply negb_true_iff.
    destruct (existsb _ _) eqn:Ex; [|reflexivity].
    apply existsb_exists in Ex as [c [Hc Hcl]]. apply in_map_iff in Hc as [x [<- Hx]].
    apply filter_In in Hx as [Hx Hg]. apply andb_true_iff in Hg as [Hs Hg].
    specialize (H x Hx). unfold entry_ok in H. destruct (is_before (en_side x)); [discriminate|].
    unfold is_class in Hcl. destruct (classify (en_cmd x)) as [[| | |]|]; try discriminate.
    apply (implied_sound _ _ H e) in Hg. congruence.
Qed.

Lemma branch_wrapper_ok_weak e l :
  forallb (entry_ok false) l = true -> wrapper_ok_weak (e_commit e) (branch_wrapper e l) = true.
Proof.
  intro H. rewrite forallb_forall in H.
  unfold wrapper_ok_weak, branch_wrapper, branch_cmds. cbn [fst snd].
  repeat (apply andb_true_iff; split).
  - apply forallb_forall. intros c Hc. apply in_map_iff in Hc as [x [<- Hx]].
    apply filter_In in Hx as [Hx Hg]. apply andb_true_iff in Hg as [Hs Hg].
    specialize (H x Hx). unfold entry_ok in H. destruct (is_before (en_side x)); [exact H|discriminate].
  - apply forallb_forall. intros c Hc. apply in_map_iff in Hc as [x [<- Hx]].
    apply filter_In in Hx as [Hx Hg]. apply andb_true_iff in Hg as [Hs Hg].
    specialize (H x Hx). unfold entry_ok in H. destruct (is_before (en_side x)); [discriminate|].
    unfold is_class. destruct (classify (en_cmd x)) as [[| | |]|]; try discriminate; reflexivity.
  - destruct (e_commit e) eqn:Ec; [reflexivity|]. cbn [orb]. apply negb_true_iff.
    destruct (existsb _ _) eqn:Ex; [|reflexivity].
    apply existsb_exists in Ex as [c [Hc Hcl]]. apply in_map_iff in Hc as [x [<- Hx]].
    apply filter_In in Hx as [Hx Hg]. apply andb_true_iff in Hg as [Hs Hg].
    specialize (H x Hx). unfold entry_ok in H. destruct (is_before (en_side x)); [discriminate|].
    unfold is_class in Hcl. destruct (classify (en_cmd x)) as [[| | |]|]; try discriminate.
    apply (implied_sound _ _ H e) in Hg. congruence.
Qed.

Lemma table_apply_branch e t w :
  table_apply e t = Some w -> exists c l, In (c, l) t /\ w = branch_wrapper e l.
Proof.
  induction t as [|[c l] t IH]; cbn; [discriminate|].
  destruct (beval e c).
  - intro H. injection H as <-. exists c, l. split; [left; reflexivity|reflexivity].
  - intro H. destruct (IH H) as [c' [l' [Hin E]]]. exists c', l'. split; [right; exact Hin|exact E].
Qed.

(* the finite check over the regenerated table *)
Lemma apply_table_ok : forallb (fun cl => forallb (entry_ok true) (snd cl)) apply_table = true.
Proof. vm_compute. reflexivity. Qed.

Lemma ap_env_table_ok : forallb (entry_ok false) ap_env_table = true.
Proof. vm_compute. reflexivity. Qed.

Theorem common_apply_wrapper_ok e w :
  common_apply e = Some w -> wrapper_ok (e_commit e) (e_finalize e) w = true.
Proof.
  intro H. apply table_apply_branch in H as [c [l [Hin ->]]].
  apply branch_wrapper_ok. pose proof apply_table_ok as Hok. rewrite forallb_forall in Hok.
  apply (Hok (c, l) Hin).
Qed.

Theorem ap_env_wrapper_ok e : wrapper_ok_weak (e_commit e) (ap_env_apply e) = true.
Proof. apply branch_wrapper_ok_weak. apply ap_env_table_ok. Qed.

Corollary no_commit_without_do_commit e w c :
  common_apply e = Some w -> e_commit e = false -> In c (fst w ++ snd w) -> is_class WCommit c = false.
Proof.
  intros H Hc Hin. apply common_apply_wrapper_ok in H. rewrite Hc in H. unfold wrapper_ok in H.
  repeat (apply andb_true_iff in H as [H ?]).
  apply in_app_or in Hin as [Hin|Hin].
  - rewrite forallb_forall in H. specialize (H c Hin). unfold is_class in *.
    destruct (classify c) as [[| | |]|]; try discriminate; reflexivity.
  - cbn [orb] in H1. apply negb_true_iff in H1.
    destruct (is_class WCommit c) eqn:E; [|reflexivity].
    assert (existsb (is_class WCommit) (snd w) = true) as Hx by (apply existsb_exists; exists c; tauto).
    congruence.
Qed.
