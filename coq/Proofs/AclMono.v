(* C06, merged ACLs: the rule set compiled from A is dominated by the one compiled from
   A + B, domination is preserved along a path as long as the guard of Spec/P_C06.v holds,
   hence under the guard everything A passes is passed by A + B. *)
From Coq Require Import List String Ascii Bool Arith Lia Permutation Sorted.
From Annet Require Import Base.Str Base.Tree Model.Pattern Model.Order Model.Acl Spec.P_C06
     Proofs.SortProofs Proofs.AclProofs.
Import ListNotations.
Open Scope string_scope.
Open Scope list_scope.
Arguments Nat.ltb : simpl never.
Arguments Nat.leb : simpl never.

(* ---------- induction over compiled rules ---------- *)

Section ARuleInd.
  Variable P : arule -> Prop.
  Variable Q : list arule -> Prop.
  Hypothesis HR : forall i c p g kl kg, Q kl -> Q kg -> P (ARule i c p g kl kg).
  Hypothesis Hnil : Q [].
  Hypothesis Hcons : forall r l, P r -> Q l -> Q (r :: l).
  Fixpoint arule_ind2 (r : arule) : P r :=
    match r with
    | ARule i c p g kl kg =>
      HR i c p g kl kg
         ((fix go (l : list arule) : Q l :=
             match l with [] => Hnil | x :: t => Hcons x t (arule_ind2 x) (go t) end) kl)
         ((fix go (l : list arule) : Q l :=
             match l with [] => Hnil | x :: t => Hcons x t (arule_ind2 x) (go t) end) kg)
    end.
  Definition alist_ind2 : forall l, Q l :=
    fix go (l : list arule) : Q l :=
      match l with [] => Hnil | x :: t => Hcons x t (arule_ind2 x) (go t) end.
End ARuleInd.

(* for properties of single rules: Q := Forall P *)
Lemma arule_ind_forall (P : arule -> Prop) :
  (forall r, Forall P (ar_kl r) -> Forall P (ar_kg r) -> P r) -> forall r, P r.
Proof.
  intros H. apply (arule_ind2 P (Forall P)).
  - intros i c p g kl kg Hl Hg. apply H; assumption.
  - constructor.
  - intros r l Hr Hl. constructor; assumption.
Qed.

(* ---------- ids ---------- *)

Lemma has_id_in l i : has_id l i = true <-> exists r, In r l /\ ar_id r = i.
Proof.
  unfold has_id. rewrite existsb_exists. split; intros (r & Hr & E); exists r; split; auto.
  - apply String.eqb_eq. exact E.
  - apply String.eqb_eq. exact E.
Qed.

Lemma has_id_app l1 l2 i : has_id (l1 ++ l2) i = has_id l1 i || has_id l2 i.
Proof. unfold has_id. apply existsb_app. Qed.

Lemma has_id_cons r l i : has_id (r :: l) i = String.eqb (ar_id r) i || has_id l i.
Proof. reflexivity. Qed.

(* ---------- domination ---------- *)



Lemma all_forall (P : arule -> Prop) l :
  (fix all (l : list arule) : Prop := match l with [] => True | k :: t => P k /\ all t end) l <->
  (forall k, In k l -> P k).
Proof.
  induction l as [|x l IH]; cbn.
  - split; [intros _ k [] | auto].
  - rewrite IH. split.
    + intros [Hx Hl] k [<-|Hk]; auto.
    + intros H. split; [apply H; now left | intros k Hk; apply H; now right].
Qed.

Lemma rle_unfold r L G :
  rle r L G <-> (exists r', In r' L /\ below r r') \/ has_id G (ar_id r) = true.
Proof.
  destruct r as [i c p g kl kg]. cbn [rle ar_id]. unfold below, lle, gle. cbn [ar_id ar_kl ar_kg].
  split.
  - intros [(r' & Hin & Hid & Hall & Hg)|H]; [left|right; exact H].
    exists r'. split; [exact Hin|]. split; [exact Hid|]. split; [|exact Hg].
    apply (proj1 (all_forall (fun k => rle k (ar_kl r') (ar_kg r')) kl)). exact Hall.
  - intros [(r' & Hin & Hid & Hall & Hg)|H]; [left|right; exact H].
    exists r'. split; [exact Hin|]. split; [exact Hid|]. split; [|exact Hg].
    apply (proj2 (all_forall (fun k => rle k (ar_kl r') (ar_kg r')) kl)). exact Hall.
Qed.

Lemma gle_refl g : gle g g.
Proof. intros k Hk. apply has_id_in. exists k. auto. Qed.

Lemma gle_trans a b c : gle a b -> gle b c -> gle a c.
Proof.
  intros H1 H2 k Hk. specialize (H1 k Hk). apply has_id_in in H1 as (k' & Hk' & E).
  rewrite <- E. apply H2. exact Hk'.
Qed.

Lemma below_refl : forall r, below r r.
Proof.
  apply arule_ind_forall. intros r Hl Hg. unfold below. split; [reflexivity|]. split; [|apply gle_refl].
  intros k Hk. apply rle_unfold. left. exists k. split; [exact Hk|].
  rewrite Forall_forall in Hl. apply Hl. exact Hk.
Qed.

Lemma rle_in r L G : In r L -> rle r L G.
Proof. intros H. apply rle_unfold. left. exists r. split; [exact H | apply below_refl]. Qed.

Lemma lle_refl l G : lle l l G.
Proof. intros r Hr. apply rle_in. exact Hr. Qed.

Lemma rle_trans : forall r L1 G1 L2 G2,
  rle r L1 G1 -> lle L1 L2 G2 -> gle G1 G2 -> rle r L2 G2.
Proof.
  apply (arule_ind_forall (fun r => forall L1 G1 L2 G2,
                               rle r L1 G1 -> lle L1 L2 G2 -> gle G1 G2 -> rle r L2 G2)).
  intros r IHl _ L1 G1 L2 G2 H1 HL HG.
  apply rle_unfold in H1. apply rle_unfold. destruct H1 as [(r1 & Hin1 & Hid1 & Hk1 & Hg1)|H1].
  - specialize (HL r1 Hin1). apply rle_unfold in HL. destruct HL as [(r2 & Hin2 & Hid2 & Hk2 & Hg2)|HL].
    + left. exists r2. split; [exact Hin2|]. split; [congruence|]. split.
      * intros k Hk. rewrite Forall_forall in IHl.
        apply (IHl k Hk (ar_kl r1) (ar_kg r1)); [apply Hk1; exact Hk | exact Hk2 | exact Hg2].
      * exact (gle_trans _ _ _ Hg1 Hg2).
    + right. rewrite <- Hid1. exact HL.
  - right. apply has_id_in in H1 as (k' & Hk' & E). rewrite <- E. apply HG. exact Hk'.
Qed.

Lemma below_trans a b c : below a b -> below b c -> below a c.
Proof.
  intros (I1 & L1 & G1) (I2 & L2 & G2). split; [congruence|]. split; [|exact (gle_trans _ _ _ G1 G2)].
  intros k Hk. exact (rle_trans k _ _ _ _ (L1 k Hk) L2 G2).
Qed.

Lemma lle_trans l L1 G1 L2 G2 : lle l L1 G1 -> lle L1 L2 G2 -> gle G1 G2 -> lle l L2 G2.
Proof. intros H HL HG r Hr. exact (rle_trans r _ _ _ _ (H r Hr) HL HG). Qed.

Lemma rle_below r r' L G : below r r' -> In r' L -> rle r L G.
Proof. intros H Hin. apply rle_unfold. left. exists r'. auto. Qed.

(* ---------- structural equality tests are sound ---------- *)

Lemma blist_eqb_eq a : forall b, blist_eqb a b = true -> a = b.
Proof.
  induction a as [|x a IH]; intros [|y b] H; try discriminate; [reflexivity|].
  cbn in H. apply andb_true_iff in H as [H1 H2]. apply Bool.eqb_prop in H1. subst. f_equal. apply IH. exact H2.
Qed.

Lemma arule_eqb_cons_unfold i c p g kl kg i' c' p' g' kl' kg' :
  arule_eqb (ARule i c p g kl kg) (ARule i' c' p' g' kl' kg') =
  String.eqb i i' && blist_eqb c c' && Nat.eqb p p' && list_str_eqb g g' && alist_eqb kl kl' && alist_eqb kg kg'.
Proof.
  reflexivity.
Qed.

Lemma arule_eqb_eq : forall a b, arule_eqb a b = true -> a = b.
Proof.
  apply (arule_ind2 (fun a => forall b, arule_eqb a b = true -> a = b)
                    (fun l => forall m, alist_eqb l m = true -> l = m)).
  - intros i c p g kl kg IHl IHg [i' c' p' g' kl' kg'] H.
    rewrite arule_eqb_cons_unfold in H. rewrite !andb_true_iff in H.
    destruct H as [[[[[H1 H2] H3] H4] H5] H6].
    apply String.eqb_eq in H1. apply blist_eqb_eq in H2. apply Nat.eqb_eq in H3.
    apply list_str_eqb_eq in H4. apply IHl in H5. apply IHg in H6. subst. reflexivity.
  - intros [|y m] H; [reflexivity | discriminate].
  - intros x l IHx IHl [|y m] H; [discriminate|]. cbn in H. apply andb_true_iff in H as [H1 H2].
    f_equal; [apply IHx; exact H1 | apply IHl; exact H2].
Qed.

Lemma alist_eqb_eq : forall l m, alist_eqb l m = true -> l = m.
Proof.
  induction l as [|x l IH]; intros [|y m] H; try discriminate; [reflexivity|].
  cbn in H. apply andb_true_iff in H as [H1 H2]. f_equal; [apply arule_eqb_eq; exact H1 | apply IH; exact H2].
Qed.

(* ---------- depth ---------- *)

Lemma ar_depth_unfold i c p g kl kg :
  ar_depth (ARule i c p g kl kg) = S (Nat.max (al_depth kl) (al_depth kg)).
Proof.
  reflexivity.
Qed.

Lemma al_depth_cons x l : al_depth (x :: l) = Nat.max (ar_depth x) (al_depth l).
Proof. reflexivity. Qed.

Lemma ar_depth_pos r : 1 <= ar_depth r.
Proof. destruct r. rewrite ar_depth_unfold. lia. Qed.

Lemma al_depth_in r l : In r l -> ar_depth r <= al_depth l.
Proof.
  induction l as [|x l IH]; [intros []|]. rewrite al_depth_cons. intros [<-|H]; [lia|]. specialize (IH H). lia.
Qed.

Lemma al_depth_0 l : al_depth l <= 0 -> l = [].
Proof.
  destruct l as [|x l]; [reflexivity|]. rewrite al_depth_cons. pose proof (ar_depth_pos x). lia.
Qed.

Lemma ar_depth_kids r f : ar_depth r <= S f -> al_depth (ar_kl r) <= f /\ al_depth (ar_kg r) <= f.
Proof. destruct r. rewrite ar_depth_unfold. cbn [ar_kl ar_kg]. lia. Qed.

(* ---------- merge_dicts on rule lists ---------- *)

(* the merge of two rules with the same row, children merged with fuel f *)
Definition mrgf (f : nat) (x r : arule) : arule :=
  if arule_eqb x r then x
  else
    let same := blist_eqb (ar_cd x) (ar_cd r) && Nat.eqb (ar_prio x) (ar_prio r)
                && list_str_eqb (ar_gens x) (ar_gens r) in
    ARule (ar_id x)
          (if same then ar_cd x else ar_cd x ++ ar_cd r)
          (ar_prio r)
          (if same then ar_gens x else ar_gens x ++ ar_gens r)
          (merge_al f (ar_kl x) (ar_kl r)) (merge_al f (ar_kg x) (ar_kg r)).

Lemma merge_al_S f a b :
  merge_al (S f) a b = if alist_eqb a b then a else fold_left (ins_rule (mrgf f)) b a.
Proof. reflexivity. Qed.

Lemma mrgf_id f x r : ar_id (mrgf f x r) = ar_id x.
Proof. unfold mrgf. destruct (arule_eqb x r); reflexivity. Qed.

Lemma ins_rule_cons m x acc r :
  ins_rule m (x :: acc) r = if String.eqb (ar_id x) (ar_id r) then m x r :: acc else x :: ins_rule m acc r.
Proof. reflexivity. Qed.

Lemma ins_rule_nil m r : ins_rule m [] r = [r].
Proof. reflexivity. Qed.

Section Ins.
  Variable m : arule -> arule -> arule.
  Hypothesis m_id : forall x r, ar_id (m x r) = ar_id x.

  Lemma has_id_ins acc r i : has_id (ins_rule m acc r) i = has_id acc i || String.eqb (ar_id r) i.
  Proof.
    induction acc as [|x acc IH].
    - rewrite ins_rule_nil. cbn. rewrite orb_false_r. reflexivity.
    - rewrite ins_rule_cons. destruct (String.eqb_spec (ar_id x) (ar_id r)) as [E|E].
      + rewrite !has_id_cons, m_id. rewrite <- E.
        destruct (String.eqb (ar_id x) i); cbn; [reflexivity|]. rewrite orb_false_r. reflexivity.
      + rewrite !has_id_cons, IH. rewrite orb_assoc. reflexivity.
  Qed.

  Lemma has_id_fold b : forall acc i,
    has_id (fold_left (ins_rule m) b acc) i = has_id acc i || has_id b i.
  Proof.
    induction b as [|r b IH]; intros acc i; cbn [fold_left].
    - cbn. rewrite orb_false_r. reflexivity.
    - rewrite IH, has_id_ins, has_id_cons. rewrite orb_assoc. reflexivity.
  Qed.

  (* every element of acc has a dominating element after an insertion, provided merging
     dominates its first argument *)
  Hypothesis m_ub_l : forall x r, below x (m x r).

  Lemma ins_ub_acc acc r y : In y acc -> exists y', In y' (ins_rule m acc r) /\ below y y'.
  Proof.
    induction acc as [|x acc IH]; [intros []|].
    rewrite ins_rule_cons. intros [<-|Hy].
    - destruct (String.eqb (ar_id x) (ar_id r)).
      + exists (m x r). split; [now left | apply m_ub_l].
      + exists x. split; [now left | apply below_refl].
    - destruct (String.eqb (ar_id x) (ar_id r)).
      + exists y. split; [now right | apply below_refl].
      + destruct (IH Hy) as (y' & Hy' & B). exists y'. split; [now right | exact B].
  Qed.

  Lemma fold_ub_acc b : forall acc y, In y acc -> exists y', In y' (fold_left (ins_rule m) b acc) /\ below y y'.
  Proof.
    induction b as [|r b IH]; intros acc y Hy; cbn [fold_left].
    - exists y. split; [exact Hy | apply below_refl].
    - destruct (ins_ub_acc acc r y Hy) as (y1 & Hy1 & B1).
      destruct (IH _ _ Hy1) as (y2 & Hy2 & B2). exists y2. split; [exact Hy2 | exact (below_trans _ _ _ B1 B2)].
  Qed.
End Ins.

Lemma ins_new m acc r :
  (forall x, ar_id x = ar_id r -> below r (m x r)) ->
  exists r1, In r1 (ins_rule m acc r) /\ below r r1.
Proof.
  intros Hm. induction acc as [|x acc IH].
  - exists r. split; [now left | apply below_refl].
  - rewrite ins_rule_cons. destruct (String.eqb_spec (ar_id x) (ar_id r)) as [E|E].
    + exists (m x r). split; [now left | apply Hm; exact E].
    + destruct IH as (r1 & H1 & B). exists r1. split; [now right | exact B].
Qed.

Lemma fold_ub_b m b :
  (forall x r, below x (m x r)) ->
  (forall x r, In r b -> ar_id x = ar_id r -> below r (m x r)) ->
  forall acc r, In r b -> exists r', In r' (fold_left (ins_rule m) b acc) /\ below r r'.
Proof.
  intros Hl. induction b as [|r0 b IH]; intros Hr acc r; [intros []|].
  cbn [fold_left]. intros [<-|Hin].
  - destruct (ins_new m acc r0 (fun x E => Hr x r0 (or_introl eq_refl) E)) as (r1 & H1 & B1).
    destruct (fold_ub_acc m Hl b _ _ H1) as (r2 & H2 & B2).
    exists r2. split; [exact H2 | exact (below_trans _ _ _ B1 B2)].
  - apply IH; [|exact Hin]. intros x r' Hr' E. apply Hr; [now right | exact E].
Qed.

(* ids of a merge *)
Lemma merge_ids_S f a b i : has_id (merge_al (S f) a b) i = has_id a i || has_id b i.
Proof.
  rewrite merge_al_S. destruct (alist_eqb a b) eqn:E.
  - apply alist_eqb_eq in E. subst. rewrite orb_diag. reflexivity.
  - apply has_id_fold. apply mrgf_id.
Qed.

Lemma merge_ids_l f a b i : has_id a i = true -> has_id (merge_al f a b) i = true.
Proof. destruct f; [auto|]. rewrite merge_ids_S. intros ->. reflexivity. Qed.

Lemma merge_ids_r f a b i : al_depth b <= f -> has_id b i = true -> has_id (merge_al f a b) i = true.
Proof.
  destruct f.
  - intros H. apply al_depth_0 in H. subst. discriminate.
  - intros _. rewrite merge_ids_S. intros ->. apply orb_true_r.
Qed.

Lemma merge_ids_inv f a b i : has_id (merge_al f a b) i = true -> has_id a i = true \/ has_id b i = true.
Proof.
  destruct f; [auto|]. rewrite merge_ids_S. intros H. apply orb_true_iff in H. exact H.
Qed.

(* merge is an upper bound of its arguments ... *)
Lemma merge_ub_l : forall f a b x, In x a -> exists x', In x' (merge_al f a b) /\ below x x'.
Proof.
  induction f as [|f IH]; intros a b x Hx.
  - exists x. split; [exact Hx | apply below_refl].
  - rewrite merge_al_S. destruct (alist_eqb a b).
    + exists x. split; [exact Hx | apply below_refl].
    + apply fold_ub_acc; [|exact Hx]. intros y r. unfold mrgf. destruct (arule_eqb y r); [apply below_refl|].
      split; [reflexivity|]. cbn [ar_kl ar_kg]. split.
      * intros k Hk. destruct (IH (ar_kl y) (ar_kl r) k Hk) as (k' & Hk' & B). exact (rle_below _ _ _ _ B Hk').
      * intros k Hk. apply merge_ids_l. apply has_id_in. exists k. auto.
Qed.

Lemma mrgf_ub_l f x r : below x (mrgf f x r).
Proof.
  unfold mrgf. destruct (arule_eqb x r); [apply below_refl|].
  split; [reflexivity|]. cbn [ar_kl ar_kg]. split.
  - intros k Hk. destruct (merge_ub_l f (ar_kl x) (ar_kl r) k Hk) as (k' & Hk' & B). exact (rle_below _ _ _ _ B Hk').
  - intros k Hk. apply merge_ids_l. apply has_id_in. exists k. auto.
Qed.

Lemma merge_ub_r : forall f a b r, al_depth b <= f -> In r b -> exists r', In r' (merge_al f a b) /\ below r r'.
Proof.
  induction f as [|f IH]; intros a b r Hd Hr.
  - apply al_depth_0 in Hd. subst. destruct Hr.
  - rewrite merge_al_S. destruct (alist_eqb a b) eqn:E.
    + apply alist_eqb_eq in E. subst. exists r. split; [exact Hr | apply below_refl].
    + apply fold_ub_b; [apply mrgf_ub_l | | exact Hr].
      intros x r0 Hr0 Eid. unfold mrgf. destruct (arule_eqb x r0) eqn:E2.
      * apply arule_eqb_eq in E2. subst. apply below_refl.
      * assert (Hdr : ar_depth r0 <= S f) by (pose proof (al_depth_in _ _ Hr0); lia).
        destruct (ar_depth_kids _ _ Hdr) as [D1 D2].
        split; [exact Eid|]. cbn [ar_kl ar_kg]. split.
        -- intros k Hk. destruct (IH (ar_kl x) (ar_kl r0) k D1 Hk) as (k' & Hk' & B). exact (rle_below _ _ _ _ B Hk').
        -- intros k Hk. apply merge_ids_r; [exact D2|]. apply has_id_in. exists k. auto.
Qed.

(* ... and the least one, among rule lists with unique rows *)


Lemma wfr_unfold r : wfr r <-> wfl (ar_kl r).
Proof.
  destruct r as [i c p g kl kg]. cbn [wfr ar_kl]. unfold wfl.
  rewrite (all_forall wfr kl). reflexivity.
Qed.

Lemma nodup_id_eq l x y : NoDup (map ar_id l) -> In x l -> In y l -> ar_id x = ar_id y -> x = y.
Proof.
  induction l as [|z l IH]; [intros _ []|]. cbn [map]. intros Hnd Hx Hy E.
  inversion Hnd as [|? ? Hn Hnd']; subst.
  destruct Hx as [<-|Hx], Hy as [<-|Hy]; auto.
  - exfalso. apply Hn. rewrite E. apply in_map. exact Hy.
  - exfalso. apply Hn. rewrite <- E. apply in_map. exact Hx.
Qed.

Lemma ins_lle m acc r C G :
  (forall x, In x acc -> ar_id x = ar_id r -> rle (m x r) C G) ->
  lle acc C G -> rle r C G -> lle (ins_rule m acc r) C G.
Proof.
  intros Hm. induction acc as [|x acc IH]; intros Ha Hr.
  - intros y [<-|[]]. exact Hr.
  - rewrite ins_rule_cons. destruct (String.eqb_spec (ar_id x) (ar_id r)) as [E|E].
    + intros y [<-|Hy]; [apply Hm; [now left | exact E] | apply Ha; now right].
    + intros y [<-|Hy]; [apply Ha; now left|].
      apply IH; [| |exact Hr|exact Hy].
      * intros z Hz. apply Hm. now right.
      * intros z Hz. apply Ha. now right.
Qed.

Lemma merge_lub : forall f a b C G, wfl C -> lle a C G -> lle b C G -> lle (merge_al f a b) C G.
Proof.
  induction f as [|f IH]; intros a b C G HC Ha Hb; [exact Ha|].
  rewrite merge_al_S. destruct (alist_eqb a b); [exact Ha|].
  revert a Ha. induction b as [|r b IHb]; intros a Ha; [exact Ha|].
  cbn [fold_left]. apply IHb.
  - intros y Hy. apply Hb. now right.
  - apply ins_lle; [|exact Ha|apply Hb; now left].
    intros x Hx Eid. unfold mrgf. destruct (arule_eqb x r); [apply Ha; exact Hx|].
    pose proof (Ha x Hx) as Rx. pose proof (Hb r (or_introl eq_refl)) as Rr.
    apply rle_unfold in Rx. apply rle_unfold in Rr. apply rle_unfold. cbn [ar_id].
    destruct Rx as [(x' & Hx' & Bx)|Gx]; [|right; exact Gx].
    destruct Rr as [(r' & Hr' & Br)|Gr]; [|right; rewrite Eid; exact Gr].
    assert (x' = r').
    { apply (nodup_id_eq C); [apply HC | exact Hx' | exact Hr' |].
      destruct Bx as [-> _], Br as [-> _]. exact Eid. }
    subst r'. left. exists x'. split; [exact Hx'|].
    destruct Bx as (I1 & L1 & G1), Br as (I2 & L2 & G2).
    split; [exact I1|]. cbn [ar_kl ar_kg]. split.
    + apply IH; [|exact L1|exact L2]. apply wfr_unfold. apply HC. exact Hx'.
    + intros k Hk.
      assert (Hh : has_id (merge_al f (ar_kg x) (ar_kg r)) (ar_id k) = true) by (apply has_id_in; exists k; auto).
      apply merge_ids_inv in Hh. destruct Hh as [Hh|Hh]; apply has_id_in in Hh as (k0 & Hk0 & E0); rewrite <- E0.
      * apply G1. exact Hk0.
      * apply G2. exact Hk0.
Qed.

(* merging keeps rows unique *)
Lemma in_ids l i : In i (map ar_id l) <-> has_id l i = true.
Proof.
  rewrite has_id_in, in_map_iff. split; intros (r & A & B); exists r; auto.
Qed.

Lemma ins_ids_nodup m acc r :
  (forall x r, ar_id (m x r) = ar_id x) ->
  NoDup (map ar_id acc) -> NoDup (map ar_id (ins_rule m acc r)).
Proof.
  intros Hm. induction acc as [|x acc IH]; intros Hnd.
  - cbn. constructor; [intros [] | constructor].
  - rewrite ins_rule_cons. cbn [map] in Hnd. inversion Hnd as [|? ? Hn Hnd']; subst.
    destruct (String.eqb_spec (ar_id x) (ar_id r)) as [E|E].
    + cbn [map]. rewrite Hm. constructor; assumption.
    + cbn [map]. constructor; [|apply IH; exact Hnd'].
      rewrite in_ids, (has_id_ins m (Hm)). rewrite in_ids in Hn.
      destruct (has_id acc (ar_id x)); [exfalso; apply Hn; reflexivity|]. cbn.
      destruct (String.eqb_spec (ar_id r) (ar_id x)); [congruence | discriminate].
Qed.

Lemma ins_wfr m acc r :
  (forall x, In x acc -> ar_id x = ar_id r -> wfr (m x r)) ->
  (forall x, In x acc -> wfr x) -> wfr r -> forall y, In y (ins_rule m acc r) -> wfr y.
Proof.
  induction acc as [|x acc IH]; intros Hm Ha Hr y.
  - intros [<-|[]]. exact Hr.
  - rewrite ins_rule_cons. destruct (String.eqb_spec (ar_id x) (ar_id r)) as [E|E].
    + intros [<-|Hy]; [apply Hm; [now left | exact E] | apply Ha; now right].
    + intros [<-|Hy]; [apply Ha; now left|].
      apply IH; [| |exact Hr|exact Hy].
      * intros z Hz. apply Hm. now right.
      * intros z Hz. apply Ha. now right.
Qed.

Lemma merge_wf : forall f a b, wfl a -> wfl b -> wfl (merge_al f a b).
Proof.
  induction f as [|f IH]; intros a b Ha Hb; [exact Ha|].
  rewrite merge_al_S. destruct (alist_eqb a b); [exact Ha|].
  revert a Ha. induction b as [|r b IHb]; intros a Ha; [exact Ha|].
  cbn [fold_left]. apply IHb.
  - destruct Hb as [Hnd Hw]. split; [inversion Hnd; assumption | intros y Hy; apply Hw; now right].
  - destruct Ha as [Hnd Hw]. split.
    + apply ins_ids_nodup; [apply mrgf_id | exact Hnd].
    + apply ins_wfr; [|exact Hw|apply Hb; now left].
      intros x Hx _. unfold mrgf. destruct (arule_eqb x r); [apply Hw; exact Hx|].
      apply wfr_unfold. cbn [ar_kl]. apply IH; apply wfr_unfold; [apply Hw; exact Hx | apply Hb; now left].
Qed.

(* the same for merge_as (fuel chosen from the depths) *)
Lemma merge_as_ub_l a b G : lle a (merge_as a b) G.
Proof.
  intros x Hx. unfold merge_as. destruct (merge_ub_l (S (Nat.max (al_depth a) (al_depth b))) a b x Hx) as (x' & H & B).
  exact (rle_below _ _ _ _ B H).
Qed.

Lemma merge_as_ub_r a b G : lle b (merge_as a b) G.
Proof.
  intros x Hx. unfold merge_as.
  destruct (merge_ub_r (S (Nat.max (al_depth a) (al_depth b))) a b x ltac:(lia) Hx) as (x' & H & B).
  exact (rle_below _ _ _ _ B H).
Qed.

Lemma merge_as_ids a b i : has_id (merge_as a b) i = has_id a i || has_id b i.
Proof. unfold merge_as. apply merge_ids_S. Qed.

Lemma merge_as_lub a b C G : wfl C -> lle a C G -> lle b C G -> lle (merge_as a b) C G.
Proof. unfold merge_as. apply merge_lub. Qed.

Lemma merge_as_wf a b : wfl a -> wfl b -> wfl (merge_as a b).
Proof. unfold merge_as. apply merge_wf. Qed.

Lemma merge_as_gle_l a b : gle a (merge_as a b).
Proof. intros k Hk. rewrite merge_as_ids. apply orb_true_iff. left. apply has_id_in. exists k. auto. Qed.

Lemma merge_as_gle_r a b : gle b (merge_as a b).
Proof. intros k Hk. rewrite merge_as_ids. apply orb_true_iff. right. apply has_id_in. exists k. auto. Qed.

Lemma merge_as_gle_lub a b G : gle a G -> gle b G -> gle (merge_as a b) G.
Proof.
  intros Ha Hb k Hk.
  assert (H : has_id (merge_as a b) (ar_id k) = true) by (apply has_id_in; exists k; auto).
  rewrite merge_as_ids in H. apply orb_true_iff in H.
  destruct H as [H|H]; apply has_id_in in H as (k0 & Hk0 & E); rewrite <- E; auto.
Qed.

Lemma lle_weaken_G l L G G' : lle l L G -> gle G G' -> lle l L G'.
Proof. intros H HG. apply (lle_trans l L G L G' H); [apply lle_refl | exact HG]. Qed.

Lemma wfl_nil : wfl [].
Proof. split; [constructor | intros r []]. Qed.

(* ---------- the children rules of a match ---------- *)

Definition crstep (acc : list arule * list arule) (m : amatch) : list arule * list arule :=
  if am_cr m then (merge_as (fst acc) (ar_kl (am_rule m)), merge_as (snd acc) (ar_kg (am_rule m))) else acc.
Definition crfold (ms : list amatch) (acc : list arule * list arule) := fold_left crstep ms acc.

Lemma crfold_acc ms : forall acc G,
  lle (fst acc) (fst (crfold ms acc)) G /\ gle (snd acc) (snd (crfold ms acc)).
Proof.
  induction ms as [|m ms IH]; intros acc G; cbn [crfold fold_left].
  - split; [apply lle_refl | apply gle_refl].
  - destruct (IH (crstep acc m) G) as [H1 H2]. unfold crstep in *. destruct (am_cr m); [|split; assumption].
    cbn [fst snd] in *. split.
    + apply (lle_trans _ _ G _ _ (merge_as_ub_l _ _ G) H1). apply gle_refl.
    + exact (gle_trans _ _ _ (merge_as_gle_l _ _) H2).
Qed.

Lemma crfold_ub ms : forall acc m G, In m ms -> am_cr m = true ->
  lle (ar_kl (am_rule m)) (fst (crfold ms acc)) G /\ gle (ar_kg (am_rule m)) (snd (crfold ms acc)).
Proof.
  induction ms as [|m0 ms IH]; intros acc m G; [intros []|].
  cbn [crfold fold_left]. intros [<-|Hin] Hcr.
  - destruct (crfold_acc ms (crstep acc m0) G) as [H1 H2]. unfold crstep in *. rewrite Hcr in *.
    cbn [fst snd] in *. split.
    + apply (lle_trans _ _ G _ _ (merge_as_ub_r _ _ G) H1). apply gle_refl.
    + exact (gle_trans _ _ _ (merge_as_gle_r _ _) H2).
  - apply IH; assumption.
Qed.

Lemma crfold_lub ms C G G' : wfl C -> forall acc,
  lle (fst acc) C G -> gle (snd acc) G' ->
  (forall m, In m ms -> am_cr m = true -> lle (ar_kl (am_rule m)) C G /\ gle (ar_kg (am_rule m)) G') ->
  lle (fst (crfold ms acc)) C G /\ gle (snd (crfold ms acc)) G'.
Proof.
  intros HC. induction ms as [|m ms IH]; intros acc Ha Hg Hm; cbn [crfold fold_left]; [split; assumption|].
  apply IH.
  - unfold crstep. destruct (am_cr m) eqn:E; [|exact Ha]. cbn [fst].
    apply merge_as_lub; [exact HC | exact Ha | apply (Hm m (or_introl eq_refl) E)].
  - unfold crstep. destruct (am_cr m) eqn:E; [|exact Hg]. cbn [snd].
    apply merge_as_gle_lub; [exact Hg | apply (Hm m (or_introl eq_refl) E)].
  - intros m1 H1. apply Hm. now right.
Qed.

Lemma crfold_wf ms : forall acc,
  wfl (fst acc) -> (forall m, In m ms -> am_cr m = true -> wfl (ar_kl (am_rule m))) -> wfl (fst (crfold ms acc)).
Proof.
  induction ms as [|m ms IH]; intros acc Ha Hm; cbn [crfold fold_left]; [exact Ha|].
  apply IH.
  - unfold crstep. destruct (am_cr m) eqn:E; [|exact Ha]. cbn [fst].
    apply merge_as_wf; [exact Ha | apply (Hm m (or_introl eq_refl) E)].
  - intros m1 H1. apply Hm. now right.
Qed.



Lemma rleb_unfold r L G : rleb r L G = existsb (belowb r) L || has_id G (ar_id r).
Proof. destruct r as [i c p g kl kg]. reflexivity. Qed.

Lemma rleb_rle : forall r L G, rleb r L G = true -> rle r L G.
Proof.
  apply (arule_ind_forall (fun r => forall L G, rleb r L G = true -> rle r L G)).
  intros r IHl _ L G H. rewrite rleb_unfold in H. apply rle_unfold.
  apply orb_true_iff in H as [H|H]; [left | right; exact H].
  apply existsb_exists in H as (r' & Hin & B). exists r'. split; [exact Hin|].
  unfold belowb in B. rewrite !andb_true_iff in B. destruct B as [[B1 B2] B3].
  apply String.eqb_eq in B1. rewrite forallb_forall in B2, B3. rewrite Forall_forall in IHl.
  split; [exact B1|]. split.
  - intros k Hk. apply (IHl k Hk). apply B2. exact Hk.
  - intros k Hk. apply B3. exact Hk.
Qed.

Lemma belowb_below r r' : belowb r r' = true -> below r r'.
Proof.
  unfold belowb. rewrite !andb_true_iff. intros [[B1 B2] B3].
  apply String.eqb_eq in B1. rewrite forallb_forall in B2, B3.
  split; [exact B1|]. split.
  - intros k Hk. apply rleb_rle. apply B2. exact Hk.
  - intros k Hk. apply B3. exact Hk.
Qed.

Lemma aset_le_ale own mrg : aset_le own mrg = true -> ale own mrg.
Proof.
  unfold aset_le. rewrite andb_true_iff, !forallb_forall. intros [H1 H2]. split.
  - intros r Hr. apply rleb_rle. apply H1. exact Hr.
  - intros k Hk. apply H2. exact Hk.
Qed.

Lemma nodupb_nodup l : nodupb l = true -> NoDup l.
Proof.
  induction l as [|x l IH]; [constructor|]. cbn. rewrite andb_true_iff, negb_true_iff. intros [H1 H2].
  constructor; [|apply IH; exact H2]. intros Hin.
  assert (existsb (String.eqb x) l = true) by (apply existsb_exists; exists x; split; [exact Hin | apply String.eqb_refl]).
  congruence.
Qed.

Lemma wfrb_wfr : forall r, wfrb r = true -> wfr r.
Proof.
  apply (arule_ind_forall (fun r => wfrb r = true -> wfr r)).
  intros r IHl _ H. apply wfr_unfold. destruct r as [i c p g kl kg]. cbn [wfrb ar_kl] in *.
  apply andb_true_iff in H as [H1 H2]. rewrite forallb_forall in H2. rewrite Forall_forall in IHl.
  split; [apply nodupb_nodup; exact H1|]. intros k Hk. apply IHl; [exact Hk | apply H2; exact Hk].
Qed.

Lemma wf_aset_wfl rs : wf_aset rs = true -> wfl (fst rs).
Proof.
  unfold wf_aset. rewrite andb_true_iff, forallb_forall. intros [H1 H2].
  split; [apply nodupb_nodup; exact H1 | intros r Hr; apply wfrb_wfr; apply H2; exact Hr].
Qed.

(* ---------- prune and paths ---------- *)

Definition pclosed (cov : list string -> bool) : Prop :=
  forall p q, p <> [] -> cov (p ++ q) = true -> cov p = true.

Lemma filter_map_cons (cov : list string -> bool) r qs :
  filter cov (map (cons r) qs) = map (cons r) (filter (fun q => cov (r :: q)) qs).
Proof.
  induction qs as [|q qs IH]; [reflexivity|]. cbn. destruct (cov (r :: q)); cbn; rewrite IH; reflexivity.
Qed.

Lemma filter_none {A} (f : A -> bool) l : (forall x, In x l -> f x = false) -> filter f l = [].
Proof.
  induction l as [|x l IH]; intros H; [reflexivity|]. cbn. rewrite (H x (or_introl eq_refl)).
  apply IH. intros y Hy. apply H. now right.
Qed.

Lemma prune_paths : forall f cov, pclosed cov -> paths [] (prune cov f) = filter cov (paths [] f).
Proof.
  apply (forest_ind2 (fun t => forall cov, pclosed cov -> paths [] (prune cov (kids t)) = filter cov (paths [] (kids t)))
                     (fun f => forall cov, pclosed cov -> paths [] (prune cov f) = filter cov (paths [] f))).
  - intros k IH. exact IH.
  - reflexivity.
  - intros r t k IHt IHk cov Hc. rewrite prune_cons, (paths_cons [] r t k). cbn [app].
    rewrite paths_cons_prefix. cbn [filter]. rewrite filter_app, filter_map_cons.
    assert (Hc' : pclosed (fun q => cov (r :: q))).
    { intros p q Hp H. apply (Hc (r :: p) q); [discriminate | exact H]. }
    destruct (cov [r]) eqn:E.
    + rewrite (paths_cons [] r). cbn [app kids]. rewrite paths_cons_prefix.
      rewrite (IHt _ Hc'), (IHk _ Hc). reflexivity.
    + rewrite (IHk _ Hc). rewrite (filter_none (fun q => cov (r :: q))); [reflexivity|].
      intros q _. destruct (cov (r :: q)) eqn:E2; [|reflexivity].
      rewrite <- E. symmetry. apply (Hc [r] q); [discriminate | exact E2].
Qed.

(* ---------- matches ---------- *)

Section MonoProofs.
  Variable rmatch : string -> string -> option (list string).
  Variable rsrc : string -> string.
  Variable rrev : string -> string.
  Variable norm : string -> string.

  Notation mrow := (match_row_to_acl rmatch rsrc rrev norm).
  Notation covers := (acl_covers_path rmatch rsrc rrev norm).
  Notation reff := (ref_filter rmatch rsrc rrev norm).
  Notation cands := (acl_candidates rmatch rsrc rrev norm).
  Notation fmatches := (find_acl_matches rmatch rsrc rrev norm).
  Notation crm := (cr_matches rmatch norm).

  Lemma find_one_in row rev g r m :
    In m (find_one rmatch rsrc rrev norm row rev g r) ->
    am_rule m = r /\ am_cr m = negb g && negb rev /\ am_rev m = rev /\
    rmatch (if rev then rrev (ar_id r) else ar_id r) (norm row) <> None.
  Proof.
    unfold find_one. destruct (rmatch _ (norm row)) eqn:E; [|intros []].
    intros [<-|[]]. cbn. repeat split. congruence.
  Qed.

  Lemma cand_cr_in row rs m : In m (cands row rs) -> am_cr m = true -> In (am_rule m) (crm rs row).
  Proof.
    unfold acl_candidates. rewrite !in_app_iff, !in_flat_map.
    intros [(r & Hr & H)|[(r & Hr & H)|[(r & Hr & H)|(r & Hr & H)]]] Hcr;
      destruct (find_one_in _ _ _ _ _ H) as (E1 & E2 & E3 & E4); rewrite E2 in Hcr; try discriminate.
    rewrite E1. unfold cr_matches. apply filter_In. split; [exact Hr|].
    destruct (rmatch (ar_id r) (norm row)); [reflexivity | congruence].
  Qed.

  Lemma cr_in_cand row rs r : In r (crm rs row) -> exists m, In m (cands row rs) /\ am_rule m = r /\ am_cr m = true.
  Proof.
    unfold cr_matches. rewrite filter_In. intros [Hr Hm].
    destruct (rmatch (ar_id r) (norm row)) as [key|] eqn:E; [|discriminate].
    exists (AM r true false (ar_prio r) (shared_chars row (rsrc (ar_id r)))). split; [|split; reflexivity].
    unfold acl_candidates. apply in_or_app. left. apply in_flat_map. exists r. split; [exact Hr|].
    unfold find_one. rewrite E. now left.
  Qed.

  Lemma fmatches_in row rs m : In m (fmatches row rs) <-> In m (cands row rs).
  Proof. unfold find_acl_matches. apply sort_in. Qed.

  Lemma mrow_some_inv row rs m crs :
    mrow row rs false = MSome m crs ->
    exists ms, fmatches row rs = m :: ms /\ crs = select_children (m :: ms) rs.
  Proof.
    unfold match_row_to_acl. destruct (fmatches row rs) as [|f ms]; [discriminate|].
    assert (H0 : Nat.ltb 1 (List.length (@nil string)) = false) by reflexivity. rewrite H0.
    intros H. injection H as <- <-. exists ms. auto.
  Qed.

  Lemma select_children_unfold f ms rs :
    select_children (f :: ms) rs =
    (fst (if am_cr f then crfold (f :: ms) ([], []) else ([], [])),
     merge_as (snd (if am_cr f then crfold (f :: ms) ([], []) else ([], []))) (snd rs)).
  Proof.
    unfold select_children. change (fold_left _ (f :: ms) ([], [])) with (crfold (f :: ms) ([], [])).
    destruct (if am_cr f then crfold (f :: ms) ([], []) else ([], [])) as [lc gc]. reflexivity.
  Qed.

  Lemma crm_in_fst rs row r : In r (crm rs row) -> In r (fst rs).
  Proof. unfold cr_matches. rewrite filter_In. tauto. Qed.

  (* domination of the rule sets is preserved by one step down, under the step guard *)
  Lemma step_ale own mrg row m crs m' crs' :
    ale own mrg -> wfl (fst mrg) ->
    mrow row own false = MSome m crs -> mrow row mrg false = MSome m' crs' ->
    (am_cr m = true -> am_cr m' = true /\
                       forall r, In r (crm own row) -> exists r', In r' (crm mrg row) /\ below r r') ->
    ale crs crs' /\ wfl (fst crs').
  Proof.
    intros [HL HG] Hwf E1 E2 Hstep.
    destruct (mrow_some_inv _ _ _ _ E1) as (ms & F1 & ->).
    destruct (mrow_some_inv _ _ _ _ E2) as (ms' & F2 & ->).
    rewrite !select_children_unfold. cbn [fst snd].
    assert (Hwf' : wfl (fst (if am_cr m' then crfold (m' :: ms') ([], []) else ([], [])))).
    { destruct (am_cr m'); [|apply wfl_nil]. apply crfold_wf; [apply wfl_nil|].
      intros m1 H1 C1. rewrite <- F2 in H1. apply fmatches_in in H1.
      apply wfr_unfold. apply Hwf. apply (crm_in_fst mrg row). apply cand_cr_in; assumption. }
    split; [|exact Hwf'].
    set (C' := if am_cr m' then crfold (m' :: ms') ([], []) else ([], [])) in *.
    assert (HGown : gle (snd own) (merge_as (snd C') (snd mrg))).
    { exact (gle_trans _ _ _ HG (merge_as_gle_r _ _)). }
    destruct (am_cr m) eqn:Cm.
    - destruct (Hstep eq_refl) as [Cm' Hdom]. subst C'. rewrite Cm' in *.
      set (C' := crfold (m' :: ms') ([], [])) in *.
      assert (Hall : forall m1, In m1 (m :: ms) -> am_cr m1 = true ->
                lle (ar_kl (am_rule m1)) (fst C') (merge_as (snd C') (snd mrg)) /\
                gle (ar_kg (am_rule m1)) (merge_as (snd C') (snd mrg))).
      { intros m1 H1 C1. rewrite <- F1 in H1. apply fmatches_in in H1.
        destruct (Hdom _ (cand_cr_in _ _ _ H1 C1)) as (r' & Hr' & (_ & BL & BG)).
        destruct (cr_in_cand _ _ _ Hr') as (m1' & Hm1' & <- & C1').
        apply fmatches_in in Hm1'. rewrite F2 in Hm1'.
        destruct (crfold_ub (m' :: ms') ([], []) m1' (merge_as (snd C') (snd mrg)) Hm1' C1') as [U1 U2].
        fold C' in U1, U2. split.
        - apply (lle_trans _ _ _ _ _ BL U1). exact (gle_trans _ _ _ U2 (merge_as_gle_l _ _)).
        - exact (gle_trans _ _ _ BG (gle_trans _ _ _ U2 (merge_as_gle_l _ _))). }
      destruct (crfold_lub (m :: ms) (fst C') (merge_as (snd C') (snd mrg)) (merge_as (snd C') (snd mrg))
                           Hwf' ([], [])) as [R1 R2].
      + intros r [].
      + intros k [].
      + exact Hall.
      + split; [exact R1|]. cbn [snd]. apply merge_as_gle_lub; [exact R2 | exact HGown].
    - split.
      + intros r [].
      + cbn [snd]. apply merge_as_gle_lub; [intros k [] | exact HGown].
  Qed.

  Lemma step_reason0 own mrg row m crs :
    mrow row own false = MSome m crs -> step_reason rmatch rsrc rrev norm own mrg row = 0 ->
    exists m' crs', mrow row mrg false = MSome m' crs' /\ drops m' = false /\
      (am_cr m = true -> am_cr m' = true /\
                         forall r, In r (crm own row) -> exists r', In r' (crm mrg row) /\ below r r').
  Proof.
    intros E1. unfold step_reason. rewrite E1.
    destruct (mrow row mrg false) as [| |m' crs'] eqn:E2; try discriminate.
    destruct (drops m') eqn:Ed; [destruct (am_rev m); discriminate|].
    intros H. exists m', crs'. split; [reflexivity|]. split; [exact Ed|].
    intros Cm. rewrite Cm in H. cbn [andb] in H.
    destruct (am_cr m') eqn:Cm'; cbn [negb] in H.
    - split; [reflexivity|].
      destruct (forallb _ (crm own row)) eqn:Ef; [|discriminate].
      rewrite forallb_forall in Ef. intros r Hr. specialize (Ef r Hr).
      apply existsb_exists in Ef as (r' & Hr' & B). exists r'. split; [exact Hr' | apply belowb_below; exact B].
    - destruct (am_rev m'); [discriminate|]. destruct (has_id _ _); discriminate.
  Qed.

  (* along a path without a reason code, what own covers the merged set covers *)
  Lemma mono_path : forall p own mrg,
    ale own mrg -> wfl (fst mrg) ->
    mono_reason rmatch rsrc rrev norm own mrg p = 0 -> covers own p = true -> covers mrg p = true.
  Proof.
    induction p as [|r q IH]; intros own mrg Hale Hwf Hre Hc; [reflexivity|].
    cbn [acl_covers_path] in Hc |- *. cbn [mono_reason] in Hre.
    destruct (mrow r own false) as [| |m crs] eqn:E1; try discriminate.
    apply andb_true_iff in Hc as [Hd Hc]. apply negb_true_iff in Hd. rewrite Hd in Hre.
    destruct (step_reason rmatch rsrc rrev norm own mrg r) eqn:Es; [|discriminate].
    destruct (step_reason0 _ _ _ _ _ E1 Es) as (m' & crs' & E2 & Hd' & Hstep).
    rewrite E2 in Hre |- *. rewrite Hd'. cbn [negb andb].
    destruct (step_ale _ _ _ _ _ _ _ Hale Hwf E1 E2 Hstep) as [Hale' Hwf'].
    exact (IH _ _ Hale' Hwf' Hre Hc).
  Qed.

  Lemma covers_pclosed rs : pclosed (covers rs).
  Proof.
    intros p. revert rs. induction p as [|r p IH]; intros rs q Hp H; [congruence|].
    cbn [app acl_covers_path] in H |- *.
    destruct (mrow r rs false) as [| |m crs]; try discriminate.
    apply andb_true_iff in H as [H1 H2]. rewrite H1. cbn [andb].
    destruct p as [|r' p]; [reflexivity|]. apply (IH crs q); [discriminate | exact H2].
  Qed.

  (* Monotonicity under the guard *)
  Theorem mono_guarded_prop own mrg t :
    wfl (fst mrg) -> ale own mrg -> mono_guard rmatch rsrc rrev norm own mrg t = true ->
    forest_le (reff own t) (reff mrg t).
  Proof.
    intros Hwf Hle Hg p. unfold ref_filter. rewrite !prune_paths by apply covers_pclosed.
    rewrite !filter_In. intros [Hin Hc]. split; [exact Hin|].
    unfold mono_guard in Hg. rewrite forallb_forall in Hg. specialize (Hg p Hin). apply Nat.eqb_eq in Hg.
    exact (mono_path p own mrg Hle Hwf Hg Hc).
  Qed.

  Theorem mono_guarded own mrg t :
    wf_aset mrg = true -> aset_le own mrg = true -> mono_guard rmatch rsrc rrev norm own mrg t = true ->
    forest_le (reff own t) (reff mrg t).
  Proof.
    intros Hwf Hle. apply mono_guarded_prop; [apply wf_aset_wfl; exact Hwf | apply aset_le_ale; exact Hle].
  Qed.

  (* the children rules chosen by _select_match are a least upper bound (for domination) of
     the children rules of all the local rules matching the row directly: an order-free
     description of the merge *)
  Theorem children_are_lub row rs m crs :
    mrow row rs false = MSome m crs -> am_cr m = true ->
    (forall r G, In r (crm rs row) -> lle (ar_kl r) (fst crs) G /\ gle (ar_kg r) (snd crs)) /\
    gle (snd rs) (snd crs) /\
    (forall C G, wfl C ->
       (forall r, In r (crm rs row) -> lle (ar_kl r) C G /\ gle (ar_kg r) G) -> gle (snd rs) G ->
       lle (fst crs) C G /\ gle (snd crs) G).
  Proof.
    intros E Hcr. destruct (mrow_some_inv _ _ _ _ E) as (ms & F & ->).
    rewrite select_children_unfold, Hcr. cbn [fst snd]. split; [|split].
    - intros r G Hr. destruct (cr_in_cand _ _ _ Hr) as (m1 & Hm1 & <- & C1).
      apply fmatches_in in Hm1. rewrite F in Hm1.
      destruct (crfold_ub (m :: ms) ([], []) m1 G Hm1 C1) as [U1 U2].
      split; [exact U1 | exact (gle_trans _ _ _ U2 (merge_as_gle_l _ _))].
    - apply merge_as_gle_r.
    - intros C G HC Hall HG.
      destruct (crfold_lub (m :: ms) C G G HC ([], [])) as [R1 R2].
      + intros r [].
      + intros k [].
      + intros m1 H1 C1. rewrite <- F in H1. apply fmatches_in in H1. apply Hall. apply cand_cr_in; assumption.
      + split; [exact R1 | apply merge_as_gle_lub; [exact R2 | exact HG]].
  Qed.
End MonoProofs.

(* ====================================================================================== *)
(* compile_acl_text: the rule set of A is dominated by the rule set of A + B                *)

Section AItemInd.
  Variable P : aitem -> Prop.
  Variable Q : list aitem -> Prop.
  Hypothesis HI : forall raw row ign glob cd prio gens kids, Q kids -> P (AItem raw row ign glob cd prio gens kids).
  Hypothesis Hnil : Q [].
  Hypothesis Hcons : forall x l, P x -> Q l -> Q (x :: l).
  Fixpoint aitem_ind2 (x : aitem) : P x :=
    match x with
    | AItem raw row ign glob cd prio gens kids =>
      HI raw row ign glob cd prio gens kids
         ((fix go (l : list aitem) : Q l :=
             match l with [] => Hnil | y :: t => Hcons y t (aitem_ind2 y) (go t) end) kids)
    end.
End AItemInd.

Lemma aitem_ind_forall (P : aitem -> Prop) :
  (forall x, Forall P (ai_kids x) -> P x) -> forall x, P x.
Proof.
  intros H. apply (aitem_ind2 P (Forall P)).
  - intros raw row ign glob cd prio gens kids Hk. apply H. exact Hk.
  - constructor.
  - intros x l Hx Hl. constructor; assumption.
Qed.

(* x has a counterpart in Y: same rule id, global if x is, and the same for x's children *)
Fixpoint isub1 (x : aitem) (Y : list aitem) {struct x} : Prop :=
  match x with
  | AItem _ row ign glob _ _ _ kids =>
    exists y, In y Y /\ ai_id y = ((if ign then "!" else "") ++ row)%string /\ (glob = true -> ai_glob y = true) /\
              (fix all (l : list aitem) : Prop :=
                 match l with [] => True | k :: t => isub1 k (ai_kids y) /\ all t end) kids
  end.
Definition isub (X Y : list aitem) : Prop := forall x, In x X -> isub1 x Y.

Lemma all_forall_i (P : aitem -> Prop) l :
  (fix all (l : list aitem) : Prop := match l with [] => True | k :: t => P k /\ all t end) l <->
  (forall k, In k l -> P k).
Proof.
  induction l as [|x l IH]; cbn.
  - split; [intros _ k [] | auto].
  - rewrite IH. split.
    + intros [Hx Hl] k [<-|Hk]; auto.
    + intros H. split; [apply H; now left | intros k Hk; apply H; now right].
Qed.

Lemma isub1_unfold x Y :
  isub1 x Y <-> exists y, In y Y /\ ai_id y = ai_id x /\ (ai_glob x = true -> ai_glob y = true) /\
                          isub (ai_kids x) (ai_kids y).
Proof.
  destruct x as [raw row ign glob cd prio gens kids]. cbn [isub1]. unfold isub, ai_id at 2. cbn [ai_ign ai_row ai_glob ai_kids].
  split; intros (y & H1 & H2 & H3 & H4); exists y; repeat split; auto.
  - apply (proj1 (all_forall_i (fun k => isub1 k (ai_kids y)) kids)). exact H4.
  - apply (proj2 (all_forall_i (fun k => isub1 k (ai_kids y)) kids)). exact H4.
Qed.

(* depth *)
Lemma ai_depth_unfold raw row ign glob cd prio gens kids :
  ai_depth (AItem raw row ign glob cd prio gens kids) = S (acl_depth kids).
Proof. reflexivity. Qed.

Lemma acl_depth_cons x l : acl_depth (x :: l) = Nat.max (ai_depth x) (acl_depth l).
Proof. reflexivity. Qed.

Lemma acl_depth_app a b : acl_depth (a ++ b) = Nat.max (acl_depth a) (acl_depth b).
Proof.
  induction a as [|x a IH]; [reflexivity|]. cbn [app]. rewrite !acl_depth_cons, IH. lia.
Qed.

Lemma acl_depth_in x l : In x l -> ai_depth x <= acl_depth l.
Proof.
  induction l as [|y l IH]; [intros []|]. rewrite acl_depth_cons. intros [<-|H]; [lia|]. specialize (IH H). lia.
Qed.

Lemma ai_depth_kids x : S (acl_depth (ai_kids x)) = ai_depth x.
Proof. destruct x. reflexivity. Qed.

Lemma acl_depth_le l n : (forall x, In x l -> ai_depth x <= n) -> acl_depth l <= n.
Proof.
  induction l as [|y l IH]; intros H; [cbn; lia|]. rewrite acl_depth_cons.
  specialize (H y (or_introl eq_refl)) as Hy. assert (acl_depth l <= n) by (apply IH; intros x Hx; apply H; now right). lia.
Qed.

Lemma acl_depth_kids_group (p : aitem -> bool) Y n :
  acl_depth Y <= S n -> acl_depth (flat_map ai_kids (filter p Y)) <= n.
Proof.
  intros H. apply acl_depth_le. intros k Hk. apply in_flat_map in Hk as (y & Hy & Hk).
  apply filter_In in Hy as [Hy _]. pose proof (acl_depth_in _ _ Hy). pose proof (acl_depth_in _ _ Hk).
  pose proof (ai_depth_kids y). lia.
Qed.

(* first_keys *)
Lemma first_keys_in l : forall seen k, In k (first_keys seen l) <-> In k l /\ ~ In k seen.
Proof.
  induction l as [|x l IH]; intros seen k; cbn [first_keys].
  - split; [intros [] | intros [[] _]].
  - destruct (existsb (String.eqb x) seen) eqn:E.
    + rewrite IH. apply existsb_exists in E as (z & Hz & Ez). apply String.eqb_eq in Ez. subst z.
      split; [intros [H1 H2]; split; [now right | exact H2]|].
      intros [[<-|H1] H2]; [contradiction | split; assumption].
    + assert (Hx : ~ In x seen).
      { intros Hin. assert (existsb (String.eqb x) seen = true) by (apply existsb_exists; exists x; split; [exact Hin | apply String.eqb_refl]). congruence. }
      cbn [In]. rewrite IH. cbn [In]. split.
      * intros [<-|[H1 H2]]; [split; [now left | exact Hx] | split; [now right | tauto]].
      * intros [[<-|H1] H2]; [now left|]. destruct (String.eqb_spec x k) as [->|Hne]; [now left|]. right. split; [exact H1|]. tauto.
Qed.

Lemma first_keys_nodup l : forall seen, NoDup (first_keys seen l).
Proof.
  induction l as [|x l IH]; intros seen; cbn [first_keys]; [constructor|].
  destruct (existsb (String.eqb x) seen); [apply IH|].
  constructor; [|apply IH]. rewrite first_keys_in. cbn [In]. tauto.
Qed.

(* one step of _compile_acl's loop *)
Definition cgrp (X : list aitem) (k : string) := filter (fun i => String.eqb (ai_id i) k) X.
Definition crule (X : list aitem) (k : string) (kl kg : list arule) : arule :=
  ARule k (flat_map ai_cd (cgrp X k)) (fold_left (fun m i => Nat.max m (ai_prio i)) (cgrp X k) 0)
        (flat_map ai_gens (cgrp X k)) kl kg.
Definition cstep (f : nat) (X : list aitem) (acc : option aset) (k : string) : option aset :=
  match acc with
  | None => None
  | Some (loc, glo) =>
    if existsb ai_ign (cgrp X k) then None
    else if existsb ai_glob (cgrp X k) then Some (loc, glo ++ [crule X k [] []])
         else match compile_items f (flat_map ai_kids (cgrp X k)) with
              | None => None
              | Some (kl, kg) => Some (loc ++ [crule X k kl kg], glo)
              end
  end.

Lemma compile_items_S f X :
  compile_items (S f) X = fold_left (cstep f X) (first_keys [] (map ai_id X)) (Some ([], [])).
Proof. reflexivity. Qed.

Lemma cstep_none f X ks : fold_left (cstep f X) ks None = None.
Proof. induction ks; [reflexivity | exact IHks]. Qed.

Lemma cfold_spec f X : forall ks l0 g0 l g,
  fold_left (cstep f X) ks (Some (l0, g0)) = Some (l, g) ->
  (forall r, In r l -> In r l0 \/ exists k, In k ks /\ ar_id r = k /\ existsb ai_glob (cgrp X k) = false /\
                                          compile_items f (flat_map ai_kids (cgrp X k)) = Some (ar_kl r, ar_kg r)) /\
  (forall r, In r g -> In r g0 \/ exists k, In k ks /\ ar_id r = k /\ existsb ai_glob (cgrp X k) = true) /\
  (forall k, In k ks ->
     (existsb ai_glob (cgrp X k) = true -> has_id g k = true) /\
     (existsb ai_glob (cgrp X k) = false ->
      exists r, In r l /\ ar_id r = k /\ compile_items f (flat_map ai_kids (cgrp X k)) = Some (ar_kl r, ar_kg r))) /\
  (forall r, In r l0 -> In r l) /\ (forall r, In r g0 -> In r g) /\
  map ar_id l = map ar_id l0 ++ filter (fun k => negb (existsb ai_glob (cgrp X k))) ks.
Proof.
  induction ks as [|k ks IH]; intros l0 g0 l g H; cbn [fold_left] in H.
  - injection H as <- <-.
    split; [auto|]. split; [auto|]. split; [intros k []|]. split; [auto|]. split; [auto|].
    cbn. rewrite app_nil_r. reflexivity.
  - unfold cstep at 2 in H.
    destruct (existsb ai_ign (cgrp X k)); [rewrite cstep_none in H; discriminate|].
    destruct (existsb ai_glob (cgrp X k)) eqn:Eg.
    + destruct (IH _ _ _ _ H) as (A1 & A2 & A3 & A4 & A5 & A6).
      split; [|split; [|split; [|split; [|split]]]].
      * intros r Hr. destruct (A1 r Hr) as [?|(k' & Hk' & R)]; [now left|]. right. exists k'. split; [now right | exact R].
      * intros r Hr. destruct (A2 r Hr) as [Hin|(k' & Hk' & R)].
        -- apply in_app_iff in Hin as [?|[<-|[]]]; [now left|]. right. exists k. repeat split; [now left | exact Eg].
        -- right. exists k'. split; [now right | exact R].
      * intros k0 [<-|Hk0]; [|apply A3; exact Hk0]. split; intros Hg; [|congruence].
        apply has_id_in. exists (crule X k [] []). split; [|reflexivity]. apply A5. apply in_or_app. right. now left.
      * exact A4.
      * intros r Hr. apply A5. apply in_or_app. now left.
      * rewrite A6. cbn [filter]. rewrite Eg. reflexivity.
    + destruct (compile_items f (flat_map ai_kids (cgrp X k))) as [[kl kg]|] eqn:Ec; [|rewrite cstep_none in H; discriminate].
      destruct (IH _ _ _ _ H) as (A1 & A2 & A3 & A4 & A5 & A6).
      split; [|split; [|split; [|split; [|split]]]].
      * intros r Hr. destruct (A1 r Hr) as [Hin|(k' & Hk' & R)].
        -- apply in_app_iff in Hin as [?|[<-|[]]]; [now left|]. right. exists k. repeat split; [now left | exact Eg | exact Ec].
        -- right. exists k'. split; [now right | exact R].
      * intros r Hr. destruct (A2 r Hr) as [?|(k' & Hk' & R)]; [now left|]. right. exists k'. split; [now right | exact R].
      * intros k0 [<-|Hk0]; [|apply A3; exact Hk0]. split; intros Hg; [congruence|].
        exists (crule X k kl kg). split; [|split; [reflexivity | exact Ec]]. apply A4. apply in_or_app. right. now left.
      * intros r Hr. apply A4. apply in_or_app. now left.
      * exact A5.
      * rewrite A6. cbn [filter]. rewrite Eg. cbn [negb]. rewrite map_app. cbn [map]. rewrite <- app_assoc. reflexivity.
Qed.

Lemma keys_in X k : In k (first_keys [] (map ai_id X)) <-> exists x, In x X /\ ai_id x = k.
Proof.
  rewrite first_keys_in, in_map_iff. split.
  - intros [(x & E & Hx) _]. exists x. auto.
  - intros (x & Hx & E). split; [exists x; auto | intros []].
Qed.

Lemma cgrp_in X k x : In x (cgrp X k) <-> In x X /\ ai_id x = k.
Proof. unfold cgrp. rewrite filter_In, String.eqb_eq. reflexivity. Qed.

Lemma isub1_incl x Y1 Y2 : isub1 x Y1 -> (forall y, In y Y1 -> In y Y2) -> isub1 x Y2.
Proof.
  rewrite !isub1_unfold. intros (y & H1 & H2) Hi. exists y. split; [apply Hi; exact H1 | exact H2].
Qed.

Lemma isub_kids_group X Y k : isub X Y -> isub (flat_map ai_kids (cgrp X k)) (flat_map ai_kids (cgrp Y k)).
Proof.
  intros H c Hc. apply in_flat_map in Hc as (x & Hx & Hc). apply cgrp_in in Hx as [Hx Ex].
  specialize (H x Hx). apply isub1_unfold in H as (y & Hy & Ey & _ & Hk).
  apply (isub1_incl c (ai_kids y)); [apply Hk; exact Hc|].
  intros z Hz. apply in_flat_map. exists y. split; [|exact Hz]. apply cgrp_in. split; [exact Hy | congruence].
Qed.

Lemma acl_depth_0 Y : acl_depth Y <= 0 -> Y = [].
Proof.
  destruct Y as [|y Y]; [reflexivity|]. rewrite acl_depth_cons. destruct y. rewrite ai_depth_unfold. lia.
Qed.

Lemma compile_spec f X l g :
  compile_items (S f) X = Some (l, g) ->
  (forall r, In r l -> exists x, In x X /\ ai_id x = ar_id r /\ existsb ai_glob (cgrp X (ar_id r)) = false /\
                                 compile_items f (flat_map ai_kids (cgrp X (ar_id r))) = Some (ar_kl r, ar_kg r)) /\
  (forall r, In r g -> existsb ai_glob (cgrp X (ar_id r)) = true) /\
  (forall x, In x X ->
     (existsb ai_glob (cgrp X (ai_id x)) = true -> has_id g (ai_id x) = true) /\
     (existsb ai_glob (cgrp X (ai_id x)) = false ->
      exists r, In r l /\ ar_id r = ai_id x /\
                compile_items f (flat_map ai_kids (cgrp X (ai_id x))) = Some (ar_kl r, ar_kg r))) /\
  NoDup (map ar_id l).
Proof.
  rewrite compile_items_S. intros H. destruct (cfold_spec _ _ _ _ _ _ _ H) as (A1 & A2 & A3 & _ & _ & A6).
  split; [|split; [|split]].
  - intros r Hr. destruct (A1 r Hr) as [[]|(k & Hk & E & B1 & B2)]. subst k.
    apply keys_in in Hk as (x & Hx & Ex). exists x. auto.
  - intros r Hr. destruct (A2 r Hr) as [[]|(k & Hk & E & B1)]. subst k. exact B1.
  - intros x Hx. apply A3. apply keys_in. exists x. auto.
  - rewrite A6. cbn [map app]. apply NoDup_filter. apply first_keys_nodup.
Qed.

Lemma existsb_glob_in X k : existsb ai_glob (cgrp X k) = true <-> exists x, In x X /\ ai_id x = k /\ ai_glob x = true.
Proof.
  rewrite existsb_exists. split.
  - intros (x & Hx & G). apply cgrp_in in Hx as [H1 H2]. exists x. auto.
  - intros (x & H1 & H2 & G). exists x. split; [apply cgrp_in; auto | exact G].
Qed.

Lemma compile_mono : forall f X f' Y rx ry,
  isub X Y -> acl_depth Y <= f' ->
  compile_items f X = Some rx -> compile_items f' Y = Some ry -> ale rx ry.
Proof.
  induction f as [|f IH]; intros X f' Y rx ry Hs Hd Hx Hy.
  - cbn in Hx. injection Hx as <-. split; intros r [].
  - destruct rx as [lx gx], ry as [ly gy].
    destruct (compile_spec _ _ _ _ Hx) as (X1 & X2 & _ & _).
    destruct f' as [|f'].
    + apply acl_depth_0 in Hd. subst Y. split.
      * intros r Hr. destruct (X1 r Hr) as (x & Hin & _). specialize (Hs x Hin).
        apply isub1_unfold in Hs as (y & [] & _).
      * intros r Hr. specialize (X2 r Hr). apply existsb_glob_in in X2 as (x & Hin & _).
        specialize (Hs x Hin). apply isub1_unfold in Hs as (y & [] & _).
    + destruct (compile_spec _ _ _ _ Hy) as (_ & _ & Y3 & _). split; cbn [fst snd].
      * intros r Hr. destruct (X1 r Hr) as (x & Hin & Ex & Gx & Cx).
        pose proof (Hs x Hin) as Hx1. apply isub1_unfold in Hx1 as (y & Hy1 & Ey & _ & _).
        destruct (Y3 y Hy1) as [Yg Yl]. rewrite Ey, Ex in Yg, Yl.
        apply rle_unfold. destruct (existsb ai_glob (cgrp Y (ar_id r))) eqn:Gy.
        -- right. apply Yg. reflexivity.
        -- left. destruct (Yl eq_refl) as (r' & Hr' & Er' & Cy). exists r'. split; [exact Hr'|].
           assert (Hale : ale (ar_kl r, ar_kg r) (ar_kl r', ar_kg r')).
           { apply (IH _ f' _ _ _ (isub_kids_group X Y (ar_id r) Hs)); [|exact Cx|exact Cy].
             apply acl_depth_kids_group. exact Hd. }
           destruct Hale as [HL HG]. split; [exact Er'|]. split; assumption.
      * intros r Hr. specialize (X2 r Hr). apply existsb_glob_in in X2 as (x & Hin & Ex & Gx).
        pose proof (Hs x Hin) as Hx1. apply isub1_unfold in Hx1 as (y & Hy1 & Ey & Gy & _).
        destruct (Y3 y Hy1) as [Yg _]. rewrite Ey, Ex in Yg. apply Yg.
        apply existsb_glob_in. exists y. split; [exact Hy1|]. split; [congruence | apply Gy; exact Gx].
Qed.

Lemma compile_wf : forall f X rs, compile_items f X = Some rs -> wfl (fst rs).
Proof.
  induction f as [|f IH]; intros X rs H.
  - cbn in H. injection H as <-. apply wfl_nil.
  - destruct rs as [l g]. destruct (compile_spec _ _ _ _ H) as (X1 & _ & _ & X4). cbn [fst]. split; [exact X4|].
    intros r Hr. destruct (X1 r Hr) as (x & _ & _ & _ & C). apply wfr_unfold. exact (IH _ _ C).
Qed.

(* ---------- the text parser's merge of equal lines ---------- *)

Definition rgrp (Z : list aitem) (k : string) := filter (fun i => String.eqb (ai_raw i) k) Z.
Definition pitem (f : nat) (Z : list aitem) (k : string) : list aitem :=
  match rgrp Z k with
  | [] => []
  | (i0 :: _) as grp =>
    [AItem k (ai_row i0) (ai_ign i0) (ai_glob i0) (ai_cdo i0) (ai_prio i0) (ai_gens i0)
           (parse_items f (flat_map ai_kids grp))]
  end.

Lemma parse_items_S f Z :
  parse_items (S f) Z = flat_map (pitem f Z) (first_keys [] (map ai_raw Z)).
Proof. reflexivity. Qed.

Lemma rgrp_in Z k x : In x (rgrp Z k) <-> In x Z /\ ai_raw x = k.
Proof. unfold rgrp. rewrite filter_In, String.eqb_eq. reflexivity. Qed.

Lemma parse_in f Z y :
  In y (parse_items (S f) Z) <->
  exists i0 rest, rgrp Z (ai_raw y) = i0 :: rest /\
    y = AItem (ai_raw y) (ai_row i0) (ai_ign i0) (ai_glob i0) (ai_cdo i0) (ai_prio i0) (ai_gens i0)
              (parse_items f (flat_map ai_kids (rgrp Z (ai_raw y)))).
Proof.
  rewrite parse_items_S, in_flat_map. split.
  - intros (k & Hk & Hy). unfold pitem in Hy. destruct (rgrp Z k) as [|i0 rest] eqn:E; [destruct Hy|].
    destruct Hy as [<-|[]]. cbn [ai_raw]. rewrite E. exists i0, rest. auto.
  - intros (i0 & rest & E & Hy). exists (ai_raw y). split.
    + rewrite first_keys_in. split; [|intros []]. apply in_map_iff. exists i0. split.
      * assert (H : In i0 (rgrp Z (ai_raw y))) by (rewrite E; now left). apply rgrp_in in H. tauto.
      * assert (H : In i0 (rgrp Z (ai_raw y))) by (rewrite E; now left). apply rgrp_in in H. tauto.
    + unfold pitem. rewrite E. left. rewrite <- E. symmetry. exact Hy.
Qed.

Lemma kids_group_lt (p : aitem -> bool) Z n y0 :
  In y0 Z -> acl_depth Z <= n -> acl_depth (flat_map ai_kids (filter p Z)) < n.
Proof.
  intros H0 Hd.
  assert (1 <= n).
  { pose proof (acl_depth_in _ _ H0). destruct y0. rewrite ai_depth_unfold in *. lia. }
  assert (acl_depth (flat_map ai_kids (filter p Z)) <= n - 1); [|lia].
  apply acl_depth_le. intros c Hc. apply in_flat_map in Hc as (y & Hy & Hc).
  apply filter_In in Hy as [Hy _]. pose proof (acl_depth_in _ _ Hy). pose proof (acl_depth_in _ _ Hc).
  pose proof (ai_depth_kids y). lia.
Qed.

Lemma parse_depth : forall f Z, acl_depth (parse_items f Z) <= acl_depth Z.
Proof.
  induction f as [|f IH]; intros Z; [cbn; lia|].
  apply acl_depth_le. intros y Hy. apply parse_in in Hy as (i0 & rest & E & ->).
  rewrite ai_depth_unfold.
  assert (H0 : In i0 Z).
  { assert (H : In i0 (rgrp Z (ai_raw y))) by (rewrite E; now left). apply rgrp_in in H. tauto. }
  pose proof (kids_group_lt (fun i => String.eqb (ai_raw i) (ai_raw y)) Z (acl_depth Z) i0 H0 (le_n _)) as Hlt.
  fold (rgrp Z (ai_raw y)) in Hlt. specialize (IH (flat_map ai_kids (rgrp Z (ai_raw y)))). lia.
Qed.



Lemma parse_mono (U : aitem -> Prop) :
  (forall x c, U x -> In c (ai_kids x) -> U c) ->
  (forall x y, U x -> U y -> ai_raw x = ai_raw y -> fields_agree x y) ->
  forall f A f' Z,
    (forall x, In x A -> In x Z) -> (forall x, In x Z -> U x) -> acl_depth Z < f' ->
    isub (parse_items f A) (parse_items f' Z).
Proof.
  intros Uk Uc. induction f as [|f IH]; intros A f' Z Hin HU Hd; [intros x []|].
  destruct f' as [|f']; [lia|].
  intros x Hx. apply parse_in in Hx as (i0 & rest & E & Ex).
  set (k := ai_raw x) in *.
  assert (Hi0 : In i0 A /\ ai_raw i0 = k).
  { assert (H : In i0 (rgrp A k)) by (rewrite E; now left). apply rgrp_in in H. exact H. }
  destruct Hi0 as [Hi0 Ei0].
  destruct (rgrp Z k) as [|j0 rest'] eqn:EZ.
  { exfalso. assert (H : In i0 (rgrp Z k)) by (apply rgrp_in; split; [apply Hin; exact Hi0 | exact Ei0]).
    rewrite EZ in H. destruct H. }
  assert (Hj0 : In j0 Z /\ ai_raw j0 = k).
  { assert (H : In j0 (rgrp Z k)) by (rewrite EZ; now left). apply rgrp_in in H. exact H. }
  destruct Hj0 as [Hj0 Ej0].
  set (y := AItem k (ai_row j0) (ai_ign j0) (ai_glob j0) (ai_cdo j0) (ai_prio j0) (ai_gens j0)
                  (parse_items f' (flat_map ai_kids (rgrp Z k)))).
  assert (Hy : In y (parse_items (S f') Z)).
  { apply parse_in. exists j0, rest'. cbn [ai_raw y]. split; [exact EZ | reflexivity]. }
  destruct (Uc i0 j0 (HU _ (Hin _ Hi0)) (HU _ Hj0) (eq_trans Ei0 (eq_sym Ej0))) as (F1 & F2 & F3).
  apply isub1_unfold. exists y. split; [exact Hy|]. rewrite Ex. unfold ai_id. cbn [ai_ign ai_row ai_glob ai_kids y].
  split; [rewrite F1, F2; reflexivity|]. split; [rewrite F3; auto|].
  apply IH.
  - intros c Hc. apply in_flat_map in Hc as (z & Hz & Hc). apply rgrp_in in Hz as [Hz Ez].
    apply in_flat_map. exists z. split; [apply rgrp_in; split; [apply Hin; exact Hz | exact Ez] | exact Hc].
  - intros c Hc. apply in_flat_map in Hc as (z & Hz & Hc). apply rgrp_in in Hz as [Hz _].
    exact (Uk z c (HU z Hz) Hc).
  - apply (kids_group_lt _ Z f' j0 Hj0). lia.
Qed.



(* compile_acl_text(A) is dominated by compile_acl_text(Z) whenever every line of A is a line of Z *)
Theorem compile_acl_mono a z ra rz :
  (forall x, In x a -> In x z) -> acl_consistent z ->
  compile_acl a = Some ra -> compile_acl z = Some rz -> ale ra rz /\ wfl (fst rz).
Proof.
  unfold compile_acl. intros Hin Hc Ha Hz. split; [|exact (compile_wf _ _ _ Hz)].
  apply (compile_mono _ _ _ _ _ _ (parse_mono (occurs z) (occ_kid z) Hc _ _ _ _ Hin (occ_top z) (Nat.lt_succ_diag_r _))
                      (Nat.le_trans _ _ _ (parse_depth _ _) (Nat.le_succ_diag_r _)) Ha Hz).
Qed.


(* ACL texts: everything A passes (and everything B passes) is passed by A + "\n" + B, for
   every tree on which the guard finds no reason *)
Theorem mono_texts rmatch rsrc rrev norm (a b : acl) ra rb rab t :
  acl_consistent (acl_concat a b) ->
  compile_acl a = Some ra -> compile_acl b = Some rb -> compile_acl (acl_concat a b) = Some rab ->
  mono_guard rmatch rsrc rrev norm ra rab t = true -> mono_guard rmatch rsrc rrev norm rb rab t = true ->
  forest_le (ref_filter rmatch rsrc rrev norm ra t) (ref_filter rmatch rsrc rrev norm rab t) /\
  forest_le (ref_filter rmatch rsrc rrev norm rb t) (ref_filter rmatch rsrc rrev norm rab t).
Proof.
  intros Hc Ha Hb Hab Ga Gb. unfold acl_concat in *.
  destruct (compile_acl_mono a (a ++ b) ra rab (fun x H => in_or_app _ _ _ (or_introl H)) Hc Ha Hab) as [La Wab].
  destruct (compile_acl_mono b (a ++ b) rb rab (fun x H => in_or_app _ _ _ (or_intror H)) Hc Hb Hab) as [Lb _].
  split; apply mono_guarded_prop; assumption.
Qed.



Lemma items_of_unfold x : items_of x = x :: flat_map items_of (ai_kids x).
Proof.
  destruct x as [raw row ign glob cd prio gens kids]. reflexivity.
Qed.

Lemma items_of_self x : In x (items_of x).
Proof. rewrite items_of_unfold. now left. Qed.

Lemma items_of_kid : forall x c y, In c (ai_kids x) -> In y (items_of c) -> In y (items_of x).
Proof.
  intros x c y Hc Hy. rewrite items_of_unfold. right. apply in_flat_map. exists c. auto.
Qed.

Lemma items_of_trans : forall x y, In y (items_of x) -> forall z, In z (items_of y) -> In z (items_of x).
Proof.
  apply (aitem_ind_forall (fun x => forall y, In y (items_of x) -> forall z, In z (items_of y) -> In z (items_of x))).
  intros x IH y Hy z Hz. rewrite items_of_unfold in Hy. destruct Hy as [<-|Hy]; [exact Hz|].
  apply in_flat_map in Hy as (c & Hc & Hy). rewrite Forall_forall in IH.
  apply (items_of_kid x c z Hc). exact (IH c Hc y Hy z Hz).
Qed.

Lemma occurs_all_items Z x : occurs Z x -> In x (all_items Z).
Proof.
  unfold all_items. induction 1 as [x Hx | x c Hx IH Hc].
  - apply in_flat_map. exists x. split; [exact Hx | apply items_of_self].
  - apply in_flat_map in IH as (z & Hz & Hin). apply in_flat_map. exists z. split; [exact Hz|].
    apply (items_of_trans z x Hin). apply (items_of_kid x c c Hc). apply items_of_self.
Qed.

Lemma acl_consistentb_ok Z : acl_consistentb Z = true -> acl_consistent Z.
Proof.
  unfold acl_consistentb. rewrite forallb_forall. intros H x y Hx Hy E.
  specialize (H x (occurs_all_items _ _ Hx)). rewrite forallb_forall in H.
  specialize (H y (occurs_all_items _ _ Hy)). rewrite E, String.eqb_refl in H. cbn in H.
  unfold fields_agreeb in H. rewrite !andb_true_iff in H. destruct H as [[H1 H2] H3].
  apply String.eqb_eq in H1. apply Bool.eqb_prop in H2. apply Bool.eqb_prop in H3. repeat split; assumption.
Qed.
