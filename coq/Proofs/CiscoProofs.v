(* C04, Cisco: trees in which every address-family block ends with its exit-address-family row (the shape parsed
   device configs have) round-trip although split shifts the lines of such a block one column to the right. *)
From Coq Require Import List String Ascii Bool Arith ZArith Lia.
From Annet Require Import Base.Str Base.Tree Model.Offside Spec.P_C05 Proofs.OffsideProofs
                          Gen.Src_vendors Model.Join Spec.P_C04 Proofs.JoinProofs.
Import ListNotations.
Open Scope string_scope.
Open Scope list_scope.
Arguments Nat.ltb : simpl never.
Arguments Nat.leb : simpl never.
Local Infix "+++" := String.append (right associativity, at level 60).

Section Cisco.
  Variables (bexit w : string) (ps : list string) (ind : string) (cm : list string).
  Hypothesis Hwb : String.eqb w bexit = false.
  Hypothesis Hi : wf_indent ind = true.

  Definition ctbl : list (list string * string) := [(ps, w)].
  Definition special (r : string) : bool := existsb (fun p => startswith p r) ps.
  (* split's state inside n nested open blocks *)
  Definition cst (n : nat) : Z * list string := (Z.of_nat n, bexit :: repeat w n).
  (* children of a row with its own exit word sit one column further right *)
  Definition dcol (r : string) : nat := String.length ind + (if special r then 1 else 0).

  Lemma dcol_pos r : 0 < dcol r.
  Proof. unfold dcol. destruct (wf_indent_inv ind Hi) as [_ H]. lia. Qed.

  Lemma exit_of r : cisco_exit_of bexit ctbl r = if special r then Some w else None.
  Proof. unfold cisco_exit_of, ctbl, special. cbn [find fst]. destruct (existsb _ ps); [rewrite Hwb|]; reflexivity. Qed.

  Lemma str_in_repeat r n : String.eqb r w = false -> existsb (String.eqb r) (repeat w n) = false.
  Proof. intros H. induction n as [|n IH]; cbn; [reflexivity|]. rewrite H, IH. reflexivity. Qed.

  Lemma step_other n x r : strip x = r -> String.eqb r bexit = false -> String.eqb r w = false ->
    cisco_step bexit ctbl (cst n) x = cst (n + (if special r then 1 else 0)).
  Proof.
    intros Hs Hb Hw. unfold cisco_step, cst. rewrite Hs. unfold str_in. cbn [existsb]. rewrite Hb, str_in_repeat by exact Hw.
    cbn [orb]. unfold ctbl. cbn [find fst]. fold (special r). destruct (special r).
    - rewrite Hwb. replace (n + 1) with (S n) by lia. rewrite Nat2Z.inj_succ. unfold Z.succ. f_equal.
      cbn [app repeat]. f_equal. symmetry. apply repeat_cons.
    - rewrite Nat.add_0_r. reflexivity.
  Qed.

  Lemma step_close n x : strip x = w -> cisco_step bexit ctbl (cst (S n)) x = cst n.
  Proof.
    intros Hs. unfold cisco_step, cst. rewrite Hs. unfold str_in. cbn [existsb repeat]. rewrite String.eqb_refl, orb_true_r.
    cbn [remove_first]. rewrite Hwb, String.eqb_refl. f_equal. lia.
  Qed.

  Definition crow (r : string) : Prop := good_row r /\ not_comment cm r.

  Lemma repeat_sp_blank n : str_forallb is_blank (repeat_str " " n) = true.
  Proof. apply repeat_str_blank. reflexivity. Qed.

  Lemma classify_shifted n lvl r : crow r ->
    classify cm (repeat_str " " n +++ repeat_str ind lvl +++ r) = Content (n + lvl * String.length ind) r.
  Proof.
    intros [G C]. destruct (wf_indent_inv ind Hi) as [Hb _]. rewrite <- sapp_assoc.
    rewrite classify_line; [| |exact G|exact C].
    - rewrite sapp_length, !repeat_str_length. cbn [String.length]. f_equal. lia.
    - rewrite str_forallb_app, repeat_sp_blank, repeat_str_blank by exact Hb. reflexivity.
  Qed.

  Lemma strip_shifted lvl r : crow r -> strip (repeat_str ind lvl +++ r) = r.
  Proof. intros [G _]. destruct (wf_indent_inv ind Hi) as [Hb _]. apply strip_line; [apply repeat_str_blank; exact Hb|exact G]. Qed.

  Lemma closed_cons closer r c l :
    cisco_closed_t bexit w ps closer (T ((r, c) :: l)) =
    match closer, l with
    | Some x, [] => String.eqb r x && is_leaf c
    | _, _ => negb (String.eqb r bexit) && negb (String.eqb r w) &&
              cisco_closed_t bexit w ps (cisco_exit_of bexit ctbl r) c && cisco_closed_t bexit w ps closer (T l)
    end.
  Proof. reflexivity. Qed.

  Definition after_level (closer : option string) (n : nat) : nat := match closer with None => n | Some _ => n - 1 end.

  Lemma cisco_items (p : string -> bool) (Hp : forall r, p r = true -> crow r) : forall k closer n lvl rest,
    cisco_closed_t bexit w ps closer (T k) = true -> all_rows p k = true ->
    (closer = None \/ (closer = Some w /\ 1 <= n)) ->
    map (classify cm) (cisco_lines bexit ctbl (cst n) (lines ind lvl k ++ rest)) =
    items dcol (n + lvl * String.length ind) k ++
    map (classify cm) (cisco_lines bexit ctbl (cst (after_level closer n)) rest).
  Proof.
    apply (forest_ind2
      (fun t => forall closer n lvl rest,
         cisco_closed_t bexit w ps closer t = true -> all_rows p (kids t) = true ->
         (closer = None \/ (closer = Some w /\ 1 <= n)) ->
         map (classify cm) (cisco_lines bexit ctbl (cst n) (lines ind lvl (kids t) ++ rest)) =
         items dcol (n + lvl * String.length ind) (kids t) ++
         map (classify cm) (cisco_lines bexit ctbl (cst (after_level closer n)) rest))
      (fun k => forall closer n lvl rest,
         cisco_closed_t bexit w ps closer (T k) = true -> all_rows p k = true ->
         (closer = None \/ (closer = Some w /\ 1 <= n)) ->
         map (classify cm) (cisco_lines bexit ctbl (cst n) (lines ind lvl k ++ rest)) =
         items dcol (n + lvl * String.length ind) k ++
         map (classify cm) (cisco_lines bexit ctbl (cst (after_level closer n)) rest))).
    - intros k IH closer n lvl rest C. exact (IH closer n lvl rest C).
    - intros closer n lvl rest C _ Hc. cbn in C. destruct closer; [discriminate|]. reflexivity.
    - intros r t k IHt IHk closer n lvl rest C A Hc. rewrite all_rows_cons in A. apply andb_true_iff in A as [A Ak].
      apply andb_true_iff in A as [Ar At]. pose proof (Hp r Ar) as Cr.
      rewrite closed_cons in C. rewrite lines_cons, items_cons. cbn [app cisco_lines map].
      unfold cst at 1. cbn [fst]. rewrite Nat2Z.id. rewrite classify_shifted by exact Cr. f_equal.
      assert (Last : closer = Some w -> k = [] -> String.eqb r w && is_leaf t = true ->
                map (classify cm) (cisco_lines bexit ctbl (cisco_step bexit ctbl (cst n) (repeat_str ind lvl +++ r))
                                     ((lines ind (S lvl) (kids t) ++ lines ind lvl k) ++ rest)) =
                (items dcol (n + lvl * String.length ind + dcol r) (kids t) ++ items dcol (n + lvl * String.length ind) k) ++
                map (classify cm) (cisco_lines bexit ctbl (cst (after_level closer n)) rest)).
      { intros -> -> E. apply andb_true_iff in E as [E L]. apply String.eqb_eq in E. subst r.
        rewrite (is_leaf_kids t L). cbn [app]. change (lines ind (S lvl) []) with (@nil string).
        change (lines ind lvl []) with (@nil string). cbn [app]. destruct Hc as [Hc|[_ Hn]]; [discriminate|].
        destruct n as [|m]; [lia|]. rewrite step_close by (apply strip_shifted; exact Cr).
        cbn [after_level]. replace (S m - 1) with m by lia. reflexivity. }
      assert (Other : negb (String.eqb r bexit) && negb (String.eqb r w) &&
                      cisco_closed_t bexit w ps (cisco_exit_of bexit ctbl r) t && cisco_closed_t bexit w ps closer (T k) = true ->
                map (classify cm) (cisco_lines bexit ctbl (cisco_step bexit ctbl (cst n) (repeat_str ind lvl +++ r))
                                     ((lines ind (S lvl) (kids t) ++ lines ind lvl k) ++ rest)) =
                (items dcol (n + lvl * String.length ind + dcol r) (kids t) ++ items dcol (n + lvl * String.length ind) k) ++
                map (classify cm) (cisco_lines bexit ctbl (cst (after_level closer n)) rest)).
      { intros E. apply andb_true_iff in E as [E Ck]. apply andb_true_iff in E as [E Ct].
        apply andb_true_iff in E as [E1 E2]. apply negb_true_iff in E1, E2.
        rewrite (step_other n _ r (strip_shifted lvl r Cr) E1 E2). rewrite exit_of in Ct.
        rewrite <- !app_assoc.
        rewrite (IHt (if special r then Some w else None) (n + (if special r then 1 else 0)) (S lvl)
                     (lines ind lvl k ++ rest) Ct At).
        - assert (N : after_level (if special r then Some w else None) (n + (if special r then 1 else 0)) = n).
          { destruct (special r); cbn [after_level]; lia. }
          rewrite N. rewrite (IHk closer n lvl rest Ck Ak Hc).
          replace (n + (if special r then 1 else 0) + S lvl * String.length ind)
            with (n + lvl * String.length ind + dcol r) by (unfold dcol; cbn [Nat.mul]; lia).
          reflexivity.
        - destruct (special r); [right; split; [reflexivity|lia]|left; reflexivity]. }
      destruct closer as [x|]; [|exact (Other C)]. destruct k as [|e k']; [|exact (Other C)].
      destruct Hc as [Hc|[Hc Hn]]; [discriminate|]. injection Hc as ->. exact (Last eq_refl eq_refl C).
  Qed.
End Cisco.

(* the printed lines of a closed Cisco tree, split by CiscoFormatter.split, parse back to the tree *)
Theorem parse_cisco_closed bexit tbl ind f :
  wf_indent ind = true -> wf f -> all_rows (wf_row_plain (SkCisco bexit tbl)) f = true ->
  cisco_closed bexit tbl f = true ->
  parse_f (FPlain (SkCisco bexit tbl)) ind (join_plain ind f) = Some (Ok f).
Proof.
  intros Hi W Hr Hc. unfold cisco_closed in Hc. destruct tbl as [|[ps w] [|? ?]]; try discriminate.
  apply andb_true_iff in Hc as [Hwb Hc]. apply negb_true_iff in Hwb.
  unfold parse_f, split_f. cbn [split_plain]. unfold split_cisco. rewrite join_plain_lines.
  destruct (wf_indent_inv ind Hi) as [Hb _].
  pose proof (lines_ok ind _ Hb f 0 Hr) as F.
  assert (P1 : forall r, wf_row_plain (SkCisco bexit [(ps, w)]) r = true -> good_row r /\ no_nl r = true).
  { intros r H. destruct (plain_row_facts _ r H) as (A & B & _). auto. }
  unfold split_spaces. rewrite (split_lines_of_lines _ _ P1 F).
  assert (C : map collapse_spaces (lines ind 0 f) = lines ind 0 f).
  { eapply collapse_lines; [|exact F]. intros r H. pose proof (plain_row_facts _ r H) as ((A & _) & _).
    unfold wf_row_plain in H. apply andb_true_iff in H as [_ H]. auto. }
  rewrite C. f_equal. unfold parse_lines.
  pose proof (cisco_items bexit w ps ind default_comments Hwb Hi (wf_row_plain (SkCisco bexit [(ps, w)]))) as L.
  specialize (L (fun r H => let '(conj A (conj _ B)) := plain_row_facts _ r H in conj A B)).
  specialize (L f None 0 0 [] Hc Hr (or_introl eq_refl)).
  rewrite app_nil_r in L. change (cst bexit w 0) with (0%Z, [bexit]) in L. unfold ctbl in L. rewrite L.
  cbn [after_level cisco_lines map]. rewrite app_nil_r. cbn [Nat.mul Nat.add].
  apply parse_items_render; [|exact W]. intros r. apply (dcol_pos ps ind Hi).
Qed.
