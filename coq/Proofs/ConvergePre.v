(* C01, layer 4a: structure of make_pre (grouping of the diff entries of a level by
   rule and key) and of patch_level (the unsorted list of patch items is the
   concatenation, slot by slot, of what the slot's logic yields). *)
From Coq Require Import List String Bool Arith ZArith Lia Permutation.
From Annet Require Import Base.Str Base.Tree Model.Rulebook Model.Diff Model.Order Model.Patch
     Proofs.DiffProofsLib.
Import ListNotations.
Open Scope string_scope.
Open Scope list_scope.

(* ---------- the grouping ---------- *)
Definition pentry := (string * attrs * list string * pitem)%type.
Definition pe_raw (e : pentry) : string := fst (fst (fst e)).
Definition pe_attrs (e : pentry) : attrs := snd (fst (fst e)).
Definition pe_key (e : pentry) : list string := snd (fst e).
Definition pe_item (e : pentry) : pitem := snd e.
Definition pe_slot (e : pentry) : string * list string := (pe_raw e, pe_key e).

Definition ins_entry (gs : list pgroup) (e : pentry) : list pgroup :=
  let '(raw, a, key, it) := e in ins_group raw a key it gs.
Definition group_all (es : list pentry) : list pgroup := fold_left ins_entry es [].

Lemma make_pre_groups d : make_pre d = Pre (group_all (map make_pre_n d)).
Proof. reflexivity. Qed.

Definition flat_groups (gs : list pgroup) : list (string * attrs * list string * list pitem) :=
  flat_map (fun g : pgroup => let '(raw, a, ks) := g in map (fun k => (raw, a, fst k, snd k)) ks) gs.

(* lookups *)
Fixpoint klook (key : list string) (ks : pkeys) : list pitem :=
  match ks with
  | [] => []
  | (k, its) :: r => if list_str_eqb k key then its else klook key r
  end.
Fixpoint glook (raw : string) (key : list string) (gs : list pgroup) : list pitem :=
  match gs with
  | [] => []
  | (r, _, ks) :: t => if String.eqb r raw then klook key ks else glook raw key t
  end.

Lemma lse_spec a b : reflect (a = b) (list_str_eqb a b).
Proof.
  destruct (list_str_eqb a b) eqn:E; constructor.
  - apply list_str_eqb_eq. exact E.
  - intro H. apply list_str_eqb_eq in H. congruence.
Qed.

Lemma klook_ins key it ks key' :
  klook key' (ins_key key it ks) = klook key' ks ++ (if list_str_eqb key key' then [it] else []).
Proof.
  induction ks as [|[k its] r IH]; cbn.
  - destruct (list_str_eqb key key'); reflexivity.
  - destruct (lse_spec k key) as [->|Hne]; cbn.
    + destruct (lse_spec key key'); [reflexivity | symmetry; apply app_nil_r].
    + destruct (lse_spec k key') as [->|Hne2]; [|exact IH].
      destruct (lse_spec key key'); [congruence | symmetry; apply app_nil_r].
Qed.

Lemma glook_ins raw a key it gs raw' key' :
  glook raw' key' (ins_group raw a key it gs) =
  glook raw' key' gs ++ (if String.eqb raw raw' && list_str_eqb key key' then [it] else []).
Proof.
  induction gs as [|[[r a0] ks] t IH]; cbn.
  - destruct (String.eqb_spec raw raw'); cbn; [|reflexivity].
    destruct (list_str_eqb key key'); reflexivity.
  - destruct (String.eqb_spec r raw) as [->|Hne]; cbn.
    + destruct (String.eqb_spec raw raw') as [->|Hne2]; cbn; [apply klook_ins | symmetry; apply app_nil_r].
    + destruct (String.eqb_spec r raw') as [->|Hne2]; [|exact IH].
      destruct (String.eqb_spec raw raw'); [congruence | symmetry; apply app_nil_r].
Qed.

Definition in_slot_e (raw : string) (key : list string) (e : pentry) : bool :=
  String.eqb (pe_raw e) raw && list_str_eqb (pe_key e) key.

Lemma glook_fold raw key : forall es gs,
  glook raw key (fold_left ins_entry es gs) = glook raw key gs ++ map pe_item (filter (in_slot_e raw key) es).
Proof.
  induction es as [|[[[r a] k] it] es IH]; intro gs; cbn [fold_left].
  - cbn. symmetry. apply app_nil_r.
  - rewrite IH. cbn [ins_entry]. rewrite glook_ins. rewrite <- app_assoc. f_equal.
    cbn [filter]. unfold in_slot_e at 2, pe_raw, pe_key. cbn [fst snd].
    destruct (String.eqb r raw && list_str_eqb k key); reflexivity.
Qed.

Lemma glook_group_all raw key es : glook raw key (group_all es) = map pe_item (filter (in_slot_e raw key) es).
Proof. unfold group_all. rewrite glook_fold. reflexivity. Qed.

(* invariants of the grouping: distinct rules, distinct keys inside a rule, no empty bucket set,
   attributes taken from an entry of the rule *)
Definition gkeys (ks : pkeys) : list (list string) := map fst ks.
Definition graws (gs : list pgroup) : list string := map (fun g : pgroup => fst (fst g)) gs.

Record ginv (es : list pentry) (gs : list pgroup) : Prop := {
  gi_raws : NoDup (graws gs);
  gi_keys : forall raw a ks, In (raw, a, ks) gs -> NoDup (gkeys ks);
  gi_nonempty : forall raw a ks key its, In (raw, a, ks) gs -> In (key, its) ks -> its <> [];
  gi_attrs : forall raw a ks, In (raw, a, ks) gs -> exists e, In e es /\ pe_raw e = raw /\ pe_attrs e = a
}.

Lemma ins_key_keys key it ks :
  gkeys (ins_key key it ks) = if existsb (fun k => list_str_eqb k key) (gkeys ks) then gkeys ks else gkeys ks ++ [key].
Proof.
  unfold gkeys. induction ks as [|[k its] r IH]; cbn; [reflexivity|].
  destruct (lse_spec k key) as [->|Hne]; cbn; [reflexivity|].
  rewrite IH. destruct (existsb _ (map fst r)); reflexivity.
Qed.

Lemma existsb_lse key l : existsb (fun k => list_str_eqb k key) l = true <-> In key l.
Proof.
  rewrite existsb_exists. split.
  - intros (x & Hx & E). apply list_str_eqb_eq in E. subst. exact Hx.
  - intro H. exists key. split; [exact H | apply list_str_eqb_eq; reflexivity].
Qed.

Lemma ins_key_NoDup key it ks : NoDup (gkeys ks) -> NoDup (gkeys (ins_key key it ks)).
Proof.
  intro H. rewrite ins_key_keys. destruct (existsb _ (gkeys ks)) eqn:E; [exact H|].
  apply NoDup_app_intro; [exact H | repeat constructor; intros [] |].
  intros x H1 [<-|[]]. apply existsb_lse in H1. congruence.
Qed.

Lemma ins_key_in key it ks k its : In (k, its) (ins_key key it ks) -> its <> [] \/ In (k, its) ks.
Proof.
  induction ks as [|[k0 its0] r IH]; cbn.
  - intros [E|[]]. injection E as <- <-. left. discriminate.
  - destruct (lse_spec k0 key) as [->|Hne]; cbn.
    + intros [E|H]; [injection E as <- <-; left; destruct its0; discriminate | right; now right].
    + intros [E|H]; [right; now left|]. destruct (IH H) as [H1|H1]; [now left | right; now right].
Qed.

Lemma ins_group_raws raw a key it gs :
  graws (ins_group raw a key it gs) = if existsb (String.eqb raw) (graws gs) then graws gs else graws gs ++ [raw].
Proof.
  unfold graws. induction gs as [|[[r a0] ks] t IH]; cbn; [reflexivity|].
  destruct (String.eqb_spec r raw) as [->|Hne]; cbn.
  - rewrite String.eqb_refl. reflexivity.
  - rewrite IH. destruct (String.eqb_spec raw r); [congruence|]. cbn.
    destruct (existsb _ (map _ t)); reflexivity.
Qed.

Lemma ins_group_in raw a key it gs r a' ks :
  In (r, a', ks) (ins_group raw a key it gs) ->
  In (r, a', ks) gs \/
  (r = raw /\ exists ks0, In (r, a', ks0) gs /\ ks = ins_key key it ks0) \/
  (r = raw /\ a' = a /\ ks = [(key, [it])] /\ ~ In raw (graws gs)).
Proof.
  induction gs as [|[[r0 a0] ks0] t IH]; cbn.
  - intros [E|[]]. injection E as <- <- <-. right. right. repeat split; auto.
  - destruct (String.eqb_spec r0 raw) as [->|Hne]; cbn.
    + intros [E|H]; [|left; now right]. injection E as <- <- <-. right. left. split; [reflexivity|].
      exists ks0. split; [now left | reflexivity].
    + intros [E|H]; [left; now left|]. destruct (IH H) as [H1|[(E1 & ks1 & H1 & H2)|(E1 & E2 & E3 & H1)]].
      * left. now right.
      * right. left. split; [exact E1|]. exists ks1. split; [now right | exact H2].
      * right. right. repeat split; auto. intros [H2|H2]; [congruence | contradiction].
Qed.

Lemma ginv_step es gs e : ginv es gs -> ginv (es ++ [e]) (ins_entry gs e).
Proof.
  intros [H1 H2 H3 H4]. destruct e as [[[raw a] key] it]. cbn [ins_entry]. constructor.
  - rewrite ins_group_raws. destruct (existsb (String.eqb raw) (graws gs)) eqn:E; [exact H1|].
    apply NoDup_app_intro; [exact H1 | repeat constructor; intros [] |].
    intros x Hx [<-|[]]. apply existsb_eqb_In in Hx. congruence.
  - intros r a' ks Hin. apply ins_group_in in Hin as [Hin|[(-> & ks0 & Hin & ->)|(-> & -> & -> & _)]].
    + eapply H2. exact Hin.
    + apply ins_key_NoDup. eapply H2. exact Hin.
    + cbn. repeat constructor. intros [].
  - intros r a' ks k its Hin Hk. apply ins_group_in in Hin as [Hin|[(-> & ks0 & Hin & ->)|(-> & -> & -> & _)]].
    + eapply H3; eauto.
    + apply ins_key_in in Hk as [Hk|Hk]; [exact Hk | eapply H3; eauto].
    + destruct Hk as [E|[]]. injection E as <- <-. discriminate.
  - intros r a' ks Hin. apply ins_group_in in Hin as [Hin|[(-> & ks0 & Hin & ->)|(-> & -> & -> & _)]].
    + destruct (H4 _ _ _ Hin) as (e & He & E1 & E2). exists e. split; [apply in_or_app; now left | auto].
    + destruct (H4 _ _ _ Hin) as (e & He & E1 & E2). exists e. split; [apply in_or_app; now left | auto].
    + exists (raw, a, key, it). split; [apply in_or_app; right; now left | auto].
Qed.

Lemma ginv_fold : forall es' es gs, ginv es gs -> ginv (es ++ es') (fold_left ins_entry es' gs).
Proof.
  induction es' as [|e es' IH]; intros es gs H; cbn [fold_left].
  - rewrite app_nil_r. exact H.
  - replace (es ++ e :: es') with ((es ++ [e]) ++ es') by (rewrite <- app_assoc; reflexivity).
    apply IH. apply ginv_step. exact H.
Qed.

Lemma ginv_group_all es : ginv es (group_all es).
Proof.
  apply (ginv_fold es [] []). constructor; cbn; try (intros; contradiction). constructor.
Qed.

(* membership in the flattened grouping through the lookups *)
Lemma klook_in ks key its : NoDup (gkeys ks) -> In (key, its) ks -> klook key ks = its.
Proof.
  induction ks as [|[k i] r IH]; cbn; intros Hnd Hin; [contradiction|].
  inversion Hnd as [|x l Hn Hr]; subst. destruct Hin as [E|Hin].
  - injection E as -> ->. destruct (lse_spec key key); [reflexivity | congruence].
  - destruct (lse_spec k key) as [->|Hne]; [|auto].
    exfalso. apply Hn. change key with (fst (key, its)). apply in_map. exact Hin.
Qed.

Lemma glook_in gs raw a ks : NoDup (graws gs) -> In (raw, a, ks) gs -> forall key, glook raw key gs = klook key ks.
Proof.
  induction gs as [|[[r a0] ks0] t IH]; cbn; intros Hnd Hin key; [contradiction|].
  inversion Hnd as [|x l Hn Hr]; subst. destruct Hin as [E|Hin].
  - injection E as -> -> ->. rewrite String.eqb_refl. reflexivity.
  - destruct (String.eqb_spec r raw) as [->|Hne]; [|auto].
    exfalso. apply Hn. change raw with (fst (fst (raw, a, ks))). apply (in_map (fun g : pgroup => fst (fst g))). exact Hin.
Qed.

Lemma flat_groups_in gs raw a key its :
  In (raw, a, key, its) (flat_groups gs) <-> exists ks, In (raw, a, ks) gs /\ In (key, its) ks.
Proof.
  unfold flat_groups. rewrite in_flat_map. split.
  - intros ([[r a0] ks] & Hg & Hin). apply in_map_iff in Hin as ([k i] & E & Hk). cbn in E.
    injection E as -> -> -> ->. exists ks. auto.
  - intros (ks & Hg & Hk). exists (raw, a, ks). split; [exact Hg|].
    apply in_map_iff. exists (key, its). auto.
Qed.

(* the flattened grouping of a list of entries: one element per occupied slot, carrying the
   slot's entries in order *)
Theorem flat_group_all es raw a key its :
  In (raw, a, key, its) (flat_groups (group_all es)) ->
  its = map pe_item (filter (in_slot_e raw key) es) /\ its <> [] /\
  exists e, In e es /\ pe_raw e = raw /\ pe_attrs e = a.
Proof.
  intro H. pose proof (ginv_group_all es) as [H1 H2 H3 H4].
  apply flat_groups_in in H as (ks & Hg & Hk). repeat split.
  - rewrite <- glook_group_all. rewrite (glook_in _ _ _ _ H1 Hg). symmetry. apply klook_in; [eapply H2; eauto | exact Hk].
  - eapply H3; eauto.
  - eapply H4; eauto.
Qed.

Lemma flat_groups_slots_NoDup gs : NoDup (graws gs) -> (forall raw a ks, In (raw, a, ks) gs -> NoDup (gkeys ks)) ->
  NoDup (map (fun x : string * attrs * list string * list pitem => (fst (fst (fst x)), snd (fst x))) (flat_groups gs)).
Proof.
  induction gs as [|[[r a] ks] t IH]; cbn; intros Hnd Hk; [constructor|].
  inversion Hnd as [|x l Hn Hr]; subst. rewrite map_app. apply NoDup_app_intro.
  - rewrite map_map. cbn. specialize (Hk r a ks (or_introl eq_refl)).
    unfold gkeys in Hk. clear - Hk. induction ks as [|[k i] ks IH]; cbn; [constructor|].
    inversion Hk; subst. constructor; [|auto]. intro Hin. apply in_map_iff in Hin as ([k' i'] & E & Hin).
    cbn in E. injection E as ->. apply H1. change k with (fst (k, i')). apply in_map. exact Hin.
  - apply IH; [exact Hr | intros; eapply Hk; right; eauto].
  - intros [r' k'] H1 H2. rewrite map_map in H1. apply in_map_iff in H1 as (kk & E & _). cbn in E. injection E as <- _.
    apply in_map_iff in H2 as ([[[r2 a2] k2] i2] & E & Hin). cbn in E. injection E as -> ->.
    apply flat_groups_in in Hin as (ks2 & Hg & _). apply Hn.
    change r with (fst (fst (r, a2, ks2))). apply (in_map (fun g : pgroup => fst (fst g))). exact Hg.
Qed.

Lemma group_all_slots_NoDup es :
  NoDup (map (fun x : string * attrs * list string * list pitem => (fst (fst (fst x)), snd (fst x))) (flat_groups (group_all es))).
Proof. pose proof (ginv_group_all es) as [H1 H2 _ _]. apply flat_groups_slots_NoDup; auto. Qed.

(* every occupied slot appears in the flattened grouping *)
Lemma flat_group_all_complete es e : In e es ->
  exists a its, In (pe_raw e, a, pe_key e, its) (flat_groups (group_all es)).
Proof.
  intro He. pose proof (ginv_group_all es) as [H1 H2 H3 H4].
  assert (Hl : glook (pe_raw e) (pe_key e) (group_all es) <> []).
  { rewrite glook_group_all. intro E. apply map_eq_nil in E.
    assert (Hin : In e (filter (in_slot_e (pe_raw e) (pe_key e)) es)).
    { apply filter_In. split; [exact He|]. unfold in_slot_e. rewrite String.eqb_refl.
      destruct (lse_spec (pe_key e) (pe_key e)); [reflexivity | congruence]. }
    rewrite E in Hin. destruct Hin. }
  revert Hl. generalize (group_all es) as gs. induction gs as [|[[r a] ks] t IH]; cbn; intro Hl; [congruence|].
  destruct (String.eqb_spec r (pe_raw e)) as [->|Hne].
  - clear IH. assert (exists its, In (pe_key e, its) ks) as (its & Hits).
    { revert Hl. clear. induction ks as [|[k i] ks IH]; cbn; intro H; [congruence|].
      destruct (lse_spec k (pe_key e)) as [->|Hne]; [exists i; now left|].
      destruct (IH H) as (its & Hi). exists its. now right. }
    exists a, its. apply in_or_app. left. apply in_map_iff. exists (pe_key e, its). auto.
  - destruct (IH Hl) as (a' & its & Hin). exists a', its. apply in_or_app. now right.
Qed.

(* ---------- patch_level as a map over the slots ---------- *)
Fixpoint all_some {A} (l : list (option A)) : option (list A) :=
  match l with
  | [] => Some []
  | None :: _ => None
  | Some x :: r => option_map (cons x) (all_some r)
  end.

Lemma fold_opt {B C} (g : B -> option (list C)) (step : option (list C) -> B -> option (list C)) :
  (forall acc y, step acc y = match acc with
                              | None => None
                              | Some out => match g y with None => None | Some its => Some (out ++ its) end
                              end) ->
  forall l out, fold_left step l (Some out) =
                match all_some (map g l) with Some ll => Some (out ++ List.concat ll) | None => None end.
Proof.
  intros Hs. induction l as [|y l IH]; intro out; cbn.
  - rewrite app_nil_r. reflexivity.
  - rewrite Hs. destruct (g y) as [its|].
    + rewrite IH. destruct (all_some (map g l)); cbn; [rewrite app_assoc; reflexivity | reflexivity].
    + clear IH. induction l as [|z l IH]; cbn; [reflexivity|]. rewrite Hs. exact IH.
Qed.

Lemma all_some_in {A} (l : list (option A)) ll : all_some l = Some ll ->
  forall i x, nth_error ll i = Some x -> nth_error l i = Some (Some x).
Proof.
  revert ll. induction l as [|[a|] l IH]; cbn; intros ll H i x Hx.
  - injection H as <-. destruct i; discriminate.
  - destruct (all_some l) as [r|]; [|discriminate]. injection H as <-.
    destruct i; cbn in *; [congruence | eapply IH; eauto].
  - discriminate.
Qed.

Lemma all_some_map {A B} (g : A -> option B) l ll : all_some (map g l) = Some ll ->
  Forall2 (fun a b => g a = Some b) l ll.
Proof.
  revert ll. induction l as [|a l IH]; cbn; intros ll H.
  - injection H as <-. constructor.
  - destruct (g a) as [b|] eqn:E; [|discriminate].
    destruct (all_some (map g l)) as [r|]; [|discriminate]. injection H as <-. constructor; auto.
Qed.

Section PatchLevel.
  Variable rmatch : string -> string -> option (list string).
  Variable rsrc : string -> string.
  Variable rrev : string -> string.
  Variable block_exit : string.
  Variable rreverse : string -> list string -> string.

  Definition item := (string * option ptree * skey)%type.

  (* the patch item(s) one yielded command becomes *)
  Definition yield_item (ordering : list orule) (raw : string) (a : attrs)
             (y : bool * string * option (ckpre * bool)) : option (list item) :=
    let '(direct, row, sub) := y in
    let '(order, odirect, ord') := get_order rmatch rsrc rrev block_exit ordering row direct (Some "patch") in
    let children := match sub with Some (ch, true) => ch ord' | _ => POk (PT []) end in
    match children with
    | PErr => None
    | POk ct =>
      let sk : skey := (match order with ZFin z => ZFin (if odirect then z else Z.opp z) | ZInf => ZInf end, raw, odirect) in
      let leaf := (match pitems ct with [] => negb (a_parent a) | _ => false end) || negb direct in
      let it := if leaf then (row, None, sk) else (row, Some ct, sk) in
      Some (it :: (if a_force_commit a then [("commit", None, sk)] else []))
    end.

  Definition slot_items (ordering : list orule) (e : string * attrs * list string * list citem) : option (list item) :=
    let '(raw, a, key, its) := e in
    match run_logic rreverse (a_pat a) key (a_logic a) its with
    | None => None
    | Some ys => option_map (@List.concat _) (all_some (map (yield_item ordering raw a) ys))
    end.

  Definition flat_citems (groups : list (string * attrs * list (list string * list citem))) :=
    flat_map (fun g => let '(raw, a, ks) := g in map (fun k => (raw, a, fst k, snd k)) ks) groups.

  Lemma patch_level_slots groups ordering :
    patch_level rmatch rsrc rrev block_exit rreverse groups ordering =
    match all_some (map (slot_items ordering) (flat_citems groups)) with
    | None => PErr
    | Some ll => POk (PT (sort_items (List.concat ll)))
    end.
  Proof.
    unfold patch_level. fold (flat_citems groups).
    rewrite (fold_opt (slot_items ordering)).
    - destruct (all_some _); reflexivity.
    - intros acc [[[raw a] key] its]. destruct acc as [out|]; [|reflexivity].
      cbn [slot_items]. destruct (run_logic rreverse (a_pat a) key (a_logic a) its) as [ys|]; [|reflexivity].
      rewrite (fold_opt (yield_item ordering raw a)).
      + destruct (all_some _); reflexivity.
      + intros acc2 [[direct row] sub]. destruct acc2 as [out2|]; [|reflexivity].
        cbn [yield_item].
        destruct (get_order rmatch rsrc rrev block_exit ordering row direct (Some "patch")) as [[order odirect] ord'].
        destruct sub as [[ch [|]]|]; try reflexivity. destruct (ch ord'); reflexivity.
  Qed.

  (* make_patch of a pre: the groups with their items converted *)
  Definition conv_item (it : pitem) : citem :=
    let '(o, row, ch) := it in
    (o, row, make_patch rmatch rsrc rrev block_exit rreverse ch, match pgroups ch with [] => false | _ => true end).

  Definition conv_flat (x : string * attrs * list string * list pitem) : string * attrs * list string * list citem :=
    (fst (fst (fst x)), snd (fst (fst x)), snd (fst x), map conv_item (snd x)).
  Definition conv_group (g : pgroup) : string * attrs * list (list string * list citem) :=
    let '(raw, a, ks) := g in (raw, a, map (fun k : list string * list pitem => (fst k, map conv_item (snd k))) ks).

  Lemma flat_citems_conv groups : flat_citems (map conv_group groups) = map conv_flat (flat_groups groups).
  Proof.
    induction groups as [|[[raw a] ks] t IH]; cbn; [reflexivity|].
    rewrite map_app. unfold flat_citems in IH. rewrite IH. f_equal.
    rewrite !map_map. apply map_ext. intros [k its]. reflexivity.
  Qed.

  Lemma make_patch_unfold groups ordering :
    make_patch rmatch rsrc rrev block_exit rreverse (Pre groups) ordering =
    match all_some (map (slot_items ordering) (map conv_flat (flat_groups groups))) with
    | None => PErr
    | Some ll => POk (PT (sort_items (List.concat ll)))
    end.
  Proof.
    cbn [make_patch]. rewrite patch_level_slots. rewrite <- flat_citems_conv. reflexivity.
  Qed.
End PatchLevel.
