(* C09, formatter side: what is shown (indent_lines) vs. what is sent (path_stack) on block
   streams and on patch trees of every formatter family. *)
From Coq Require Import List String Ascii Bool Arith Lia.
From Annet Require Import Base.Str Model.Order Model.Patch Model.Blocks Spec.C09Blocks.
Import ListNotations.
Open Scope string_scope.
Open Scope list_scope.

Ltac norm_app := repeat (rewrite <- app_assoc || rewrite <- app_comm_cons); cbn [app].

(* ------------------------------------------------------------------------------------ *)
(* small list facts *)

Lemma removelast_snoc {A} (l : list A) (x : A) : removelast (l ++ [x]) = l.
Proof. apply removelast_last. Qed.

Lemma last_snoc {A} (l : list A) (x d : A) : last (l ++ [x]) d = x.
Proof. apply last_last. Qed.

Lemma length_removelast {A} (l : list A) : List.length (removelast l) = List.length l - 1.
Proof.
  induction l as [|a l IH]; [reflexivity|].
  destruct l as [|b l]; [reflexivity|].
  change (removelast (a :: b :: l)) with (a :: removelast (b :: l)).
  cbn [List.length]. rewrite IH. cbn [List.length]. lia.
Qed.

Lemma existsb_list_str_false x (l : list (list string)) :
  ~ In x l -> existsb (list_str_eqb x) l = false.
Proof.
  intro H. destruct (existsb (list_str_eqb x) l) eqn:E; [|reflexivity].
  apply existsb_exists in E as [y [Hy Hxy]]. apply list_str_eqb_eq in Hxy. subst. contradiction.
Qed.

Lemma nodup_str_NoDup l : nodup_str l = true -> NoDup l.
Proof.
  induction l as [|x l IH]; cbn; intro H; [constructor|].
  apply andb_true_iff in H as [H1 H2]. constructor; [|apply IH; exact H2].
  intro Hin. apply negb_true_iff in H1.
  assert (existsb (String.eqb x) l = true) as E.
  { apply existsb_exists. exists x. split; [exact Hin|apply String.eqb_refl]. }
  congruence.
Qed.

Lemma NoDup_nodup_str l : NoDup l -> nodup_str l = true.
Proof.
  induction 1 as [|x l Hx Hn IH]; cbn; [reflexivity|].
  rewrite IH, andb_true_r. apply negb_true_iff.
  destruct (existsb (String.eqb x) l) eqn:E; [|reflexivity].
  apply existsb_exists in E as [y [Hy Hxy]]. apply String.eqb_eq in Hxy. subst. contradiction.
Qed.

(* ------------------------------------------------------------------------------------ *)
(* C09_stream: lines of a well-bracketed stream = (depth, command) of its paths          *)

Lemma lv_snoc (l : list string) (x : string) : lv (l ++ [x]) = (List.length l, x).
Proof.
  unfold lv. rewrite last_snoc, app_length. cbn. f_equal. lia.
Qed.

Lemma stream_lines_gen :
  forall s level path,
    List.length path = S level -> wb s level true = true ->
    indent_lines s level = map lv (raw_paths s path).
Proof.
  induction s as [|e s IH]; intros level path Hlen Hwb; [reflexivity|].
  destruct e as [x| |]; cbn [indent_lines raw_paths wb map] in *.
  - rewrite lv_snoc, length_removelast, Hlen. replace (S level - 1) with level by lia.
    f_equal. apply IH; [|exact Hwb].
    rewrite app_length, length_removelast, Hlen. cbn. lia.
  - apply IH; [|exact Hwb]. rewrite app_length, Hlen. cbn. lia.
  - destruct level as [|l]; [discriminate|]. cbn [pred]. apply IH; [|exact Hwb].
    rewrite length_removelast, Hlen. lia.
Qed.

Lemma stream_lines :
  forall s, wb s 0 false = true -> indent_lines s 0 = map lv (raw_paths s []).
Proof.
  intros [|e s] Hwb; [reflexivity|].
  destruct e as [x| |]; cbn [wb] in Hwb; try discriminate.
  cbn [indent_lines raw_paths map removelast app].
  change ([x]) with ([] ++ [x]) at 1. rewrite lv_snoc. cbn [List.length]. f_equal.
  apply stream_lines_gen; [reflexivity|exact Hwb].
Qed.

(* the ordered dict of cmd_paths keeps everything when no path repeats *)
Lemma path_stack_raw :
  forall s path acc,
    NoDup (acc ++ raw_paths s path) -> path_stack s path acc = acc ++ raw_paths s path.
Proof.
  induction s as [|e s IH]; intros path acc Hnd; cbn [path_stack raw_paths] in *.
  - rewrite app_nil_r. reflexivity.
  - destruct e as [x| |].
    + assert (~ In (removelast path ++ [x]) acc) as Hnot.
      { intro Hin. apply NoDup_remove_2 in Hnd. apply Hnd. apply in_or_app. left. exact Hin. }
      rewrite (existsb_list_str_false _ _ Hnot).
      rewrite IH; rewrite <- app_assoc; cbn [app]; [reflexivity|exact Hnd].
    + apply IH. exact Hnd.
    + apply IH. exact Hnd.
Qed.

(* in general the dict never holds more than the stream has rows *)
Lemma path_stack_length :
  forall s path acc, List.length (path_stack s path acc) <= List.length acc + List.length (raw_paths s path).
Proof.
  induction s as [|e s IH]; intros path acc; cbn [path_stack raw_paths List.length]; [lia|].
  destruct e as [x| |]; try apply IH.
  destruct (existsb _ acc).
  - specialize (IH (removelast path ++ [x]) acc). cbn [List.length]. lia.
  - specialize (IH (removelast path ++ [x]) (acc ++ [removelast path ++ [x]])).
    rewrite app_length in IH. cbn [List.length] in *. lia.
Qed.

Theorem stream_shown_is_sent :
  forall s, wb s 0 false = true -> NoDup (raw_paths s []) ->
            indent_lines s 0 = map lv (path_stack s [] []).
Proof.
  intros s Hwb Hnd. rewrite (path_stack_raw s [] []); [|exact Hnd]. apply stream_lines. exact Hwb.
Qed.

(* ------------------------------------------------------------------------------------ *)
(* patch trees: induction principle and the item-list view of blocks / shown              *)

Definition kidP (P : ptree -> Prop) (it : item) : Prop :=
  match snd (fst it) with Some c => P c | None => True end.

Section PtreeInd.
  Variable P : ptree -> Prop.
  Hypothesis HPT : forall items, Forall (kidP P) items -> P (PT items).
  Fixpoint ptree_ind2 (t : ptree) : P t :=
    match t with
    | PT items =>
      HPT items
          ((fix go (l : list item) : Forall (kidP P) l :=
              match l with
              | [] => Forall_nil _
              | it :: l' =>
                Forall_cons it
                            (match it as i return kidP P i with
                             | (r, Some c, s) => ptree_ind2 c
                             | (r, None, s) => I
                             end) (go l')
              end) items)
    end.
End PtreeInd.

Fixpoint blocks_items (f : family) (parent : string) (l : list item) : list elem :=
  match l with
  | [] => []
  | (row, child, _) :: l' =>
    Row row ::
    match child with
    | Some ct => BBegin :: blocks f row ct ++ BEnd :: exit_stmt f parent row (next_row l')
    | None => []
    end ++ blocks_items f parent l'
  end.

Lemma blocks_unfold f parent items : blocks f parent (PT items) = blocks_items f parent items.
Proof.
  cbn [blocks]. induction items as [|[[row child] sk] l IH]; [reflexivity|].
  cbn [blocks_items]. rewrite <- IH. reflexivity.
Qed.

Fixpoint shown_items (f : family) (parent : string) (d : nat) (l : list item) : list (nat * string) :=
  match l with
  | [] => []
  | (row, child, _) :: l' =>
    (d, row) ::
    match child with
    | Some ct => shown f row (S d) ct ++ indent_lines (exit_stmt f parent row (next_row l')) d
    | None => []
    end ++ shown_items f parent d l'
  end.

Lemma shown_unfold f parent d items : shown f parent d (PT items) = shown_items f parent d items.
Proof.
  cbn [shown]. induction items as [|[[row child] sk] l IH]; [reflexivity|].
  cbn [shown_items]. rewrite <- IH. reflexivity.
Qed.

(* an exit statement is nothing, one row, or one wrapped row *)
Lemma exit_stmt_shape f parent row next :
  exit_stmt f parent row next = [] \/
  (exists e, exit_stmt f parent row next = [Row e]) \/
  (exists e, exit_stmt f parent row next = wrap e).
Proof.
  unfold exit_stmt.
  destruct f; try (left; reflexivity);
    repeat match goal with
           | |- context [if ?b then _ else _] => destruct b
           end;
    try (left; reflexivity); try (right; left; eexists; reflexivity); try (right; right; eexists; reflexivity).
Qed.

Lemma indent_lines_exit f parent row next rest d :
  indent_lines (exit_stmt f parent row next ++ rest) d =
  indent_lines (exit_stmt f parent row next) d ++ indent_lines rest d.
Proof.
  destruct (exit_stmt_shape f parent row next) as [E|[[e E]|[e E]]]; rewrite E; reflexivity.
Qed.

Lemma wb_exit f parent row next rest level :
  wb (exit_stmt f parent row next ++ rest) level true = wb rest level true.
Proof.
  destruct (exit_stmt_shape f parent row next) as [E|[[e E]|[e E]]]; rewrite E; reflexivity.
Qed.

(* ------------------------------------------------------------------------------------ *)
(* C09_exit_after_each_block: the displayed patch is the tree with the exit statement after
   each block *)

Lemma indent_lines_blocks :
  forall t f parent d rest,
    indent_lines (blocks f parent t ++ rest) d = shown f parent d t ++ indent_lines rest d.
Proof.
  induction t as [items IH] using ptree_ind2. intros f parent d rest.
  rewrite blocks_unfold, shown_unfold.
  induction IH as [|[[row child] sk] l Hit Hl IHl]; [reflexivity|].
  cbn [blocks_items shown_items]. cbn [app indent_lines]. f_equal.
  destruct child as [ct|].
  - unfold kidP in Hit. cbn in Hit.
    norm_app. cbn [indent_lines]. rewrite Hit. norm_app. f_equal.
    cbn [indent_lines pred]. rewrite indent_lines_exit. norm_app. f_equal. exact IHl.
  - cbn [app]. exact IHl.
Qed.

Theorem shown_spec f parent d t : indent_lines (blocks f parent t) d = shown f parent d t.
Proof.
  rewrite <- (app_nil_r (blocks f parent t)), indent_lines_blocks. cbn. apply app_nil_r.
Qed.

(* at most one exit statement per closed block *)
Lemma exit_lines_le_1 f parent row next d :
  List.length (indent_lines (exit_stmt f parent row next) d) <= 1.
Proof.
  destruct (exit_stmt_shape f parent row next) as [E|[[e E]|[e E]]]; rewrite E; cbn; lia.
Qed.

(* the block-exit families close every block whose header is a non-empty row with exactly
   their exit word, one level below the header *)
Lemma exit_blockexit ex parent row next d :
  row <> "" ->
  indent_lines (exit_stmt (FBlockExit ex) parent row next) d = [(S d, ex)].
Proof.
  intro H. unfold exit_stmt. destruct row; [contradiction|]. reflexivity.
Qed.

(* ------------------------------------------------------------------------------------ *)
(* well-bracketedness of the stream of any formatter family                               *)

Lemma wb_blocks :
  forall t f parent level rest,
    wb (blocks f parent t ++ rest) level true = wb rest level true.
Proof.
  induction t as [items IH] using ptree_ind2. intros f parent level rest.
  rewrite blocks_unfold.
  induction IH as [|[[row child] sk] l Hit Hl IHl]; [reflexivity|].
  cbn [blocks_items app wb].
  destruct child as [ct|].
  - unfold kidP in Hit. cbn in Hit. norm_app. cbn [wb andb]. rewrite Hit.
    cbn [wb]. rewrite wb_exit. exact IHl.
  - cbn [app]. exact IHl.
Qed.

Lemma wb_blocks_top f parent t : wb (blocks f parent t) 0 false = true.
Proof.
  destruct t as [items]. rewrite blocks_unfold.
  destruct items as [|[[row child] sk] l]; [reflexivity|].
  cbn [blocks_items wb].
  destruct child as [ct|].
  - norm_app. cbn [wb andb]. rewrite wb_blocks. cbn [wb].
    rewrite <- (app_nil_r (blocks_items f parent l)), wb_exit.
    rewrite <- blocks_unfold, wb_blocks. reflexivity.
  - cbn [app]. rewrite <- (app_nil_r (blocks_items f parent l)), <- blocks_unfold, wb_blocks. reflexivity.
Qed.

(* ------------------------------------------------------------------------------------ *)
(* the paths of a patch tree, relative to the enclosing block                             *)

Definition single (e : string) : list string := [e].

Fixpoint rpaths (f : family) (parent : string) (t : ptree) {struct t} : list (list string) :=
  match t with
  | PT items =>
    (fix go (l : list item) : list (list string) :=
       match l with
       | [] => []
       | (row, child, _) :: l' =>
         [row] ::
         match child with
         | Some ct =>
           map (cons row) (rpaths f row ct ++ map single (exit_wrapped (exit_stmt f parent row (next_row l')))) ++
           map single (exit_inline (exit_stmt f parent row (next_row l')))
         | None => []
         end ++ go l'
       end) items
  end.

Fixpoint rpaths_items (f : family) (parent : string) (l : list item) : list (list string) :=
  match l with
  | [] => []
  | (row, child, _) :: l' =>
    [row] ::
    match child with
    | Some ct =>
      map (cons row) (rpaths f row ct ++ map single (exit_wrapped (exit_stmt f parent row (next_row l')))) ++
      map single (exit_inline (exit_stmt f parent row (next_row l')))
    | None => []
    end ++ rpaths_items f parent l'
  end.

Lemma rpaths_unfold f parent items : rpaths f parent (PT items) = rpaths_items f parent items.
Proof.
  cbn [rpaths]. induction items as [|[[row child] sk] l IH]; [reflexivity|].
  cbn [rpaths_items]. rewrite <- IH. reflexivity.
Qed.

Lemma raw_paths_exit f parent row next pre :
  exists y, forall rest,
    raw_paths (exit_stmt f parent row next ++ rest) (pre ++ [row]) =
    map (app pre) (map (cons row) (map single (exit_wrapped (exit_stmt f parent row next))) ++
                   map single (exit_inline (exit_stmt f parent row next))) ++
    raw_paths rest (pre ++ [y]).
Proof.
  destruct (exit_stmt_shape f parent row next) as [E|[[e E]|[e E]]]; rewrite E.
  - exists row. intro rest. reflexivity.
  - exists e. intro rest. cbn [app raw_paths exit_wrapped exit_inline map single].
    rewrite removelast_snoc. reflexivity.
  - exists row. intro rest. unfold wrap. cbn [app raw_paths exit_wrapped exit_inline map single].
    rewrite last_snoc, !removelast_snoc. rewrite <- app_assoc. reflexivity.
Qed.

Lemma raw_paths_blocks :
  forall t f parent pre x, exists y, forall rest,
      raw_paths (blocks f parent t ++ rest) (pre ++ [x]) =
      map (app pre) (rpaths f parent t) ++ raw_paths rest (pre ++ [y]).
Proof.
  induction t as [items IH] using ptree_ind2. intros f parent pre x.
  revert x.
  assert (forall l, Forall (kidP (fun t => forall f parent pre x, exists y, forall rest,
                                    raw_paths (blocks f parent t ++ rest) (pre ++ [x]) =
                                    map (app pre) (rpaths f parent t) ++ raw_paths rest (pre ++ [y]))) l ->
                    forall x, exists y, forall rest,
                        raw_paths (blocks_items f parent l ++ rest) (pre ++ [x]) =
                        map (app pre) (rpaths_items f parent l) ++ raw_paths rest (pre ++ [y])) as H.
  { intros l Hl. induction Hl as [|[[row child] sk] l Hit Hl IHl]; intro x.
    - exists x. intro rest. reflexivity.
    - cbn [blocks_items rpaths_items]. destruct child as [ct|].
      + unfold kidP in Hit. cbn in Hit.
        destruct (Hit f row (pre ++ [row]) row) as [y1 H1].
        destruct (raw_paths_exit f parent row (next_row l) pre) as [y2 H2].
        destruct (IHl y2) as [y H3].
        exists y. intro rest. norm_app. cbn [raw_paths].
        rewrite removelast_snoc, last_snoc. rewrite H1. cbn [raw_paths]. rewrite removelast_snoc.
        rewrite H2, H3. cbn [map]. rewrite !map_app, !map_map. norm_app.
        f_equal. f_equal.
        apply map_ext. intro p. rewrite <- app_assoc. reflexivity.
      + destruct (IHl row) as [y H3]. exists y. intro rest. cbn [app raw_paths].
        rewrite removelast_snoc, H3. reflexivity. }
  intro x. rewrite blocks_unfold, rpaths_unfold. apply H. exact IH.
Qed.

Lemma blocks_head f parent t :
  blocks f parent t = [] \/ exists r s, blocks f parent t = Row r :: s.
Proof.
  destruct t as [items]. rewrite blocks_unfold.
  destruct items as [|[[row child] sk] l]; [left; reflexivity|right]. cbn [blocks_items]. eauto.
Qed.

Lemma raw_paths_top f parent t : raw_paths (blocks f parent t) [] = rpaths f parent t.
Proof.
  assert (raw_paths (blocks f parent t) [] = raw_paths (blocks f parent t) ([] ++ [""])) as E.
  { destruct (blocks_head f parent t) as [E|[r [s E]]]; rewrite E; reflexivity. }
  rewrite E. destruct (raw_paths_blocks t f parent [] "") as [y H].
  specialize (H []). rewrite app_nil_r in H. rewrite H. cbn [raw_paths]. rewrite app_nil_r.
  rewrite <- (map_id (rpaths f parent t)) at 2. apply map_ext. reflexivity.
Qed.

(* ------------------------------------------------------------------------------------ *)
(* C09_paths_nodup: distinct rows at every displayed level => all paths distinct          *)

Fixpoint sib_items (f : family) (parent : string) (l : list item) : bool :=
  match l with
  | [] => true
  | (row, child, _) :: l' =>
    match child with
    | Some ct =>
      sib_distinct f row ct &&
      forallb (fun e => negb (existsb (String.eqb e) (level_rows f row (pitems ct))))
              (exit_wrapped (exit_stmt f parent row (next_row l')))
    | None => true
    end && sib_items f parent l'
  end.

Lemma sib_unfold f parent items :
  sib_distinct f parent (PT items) = nodup_str (level_rows f parent items) && sib_items f parent items.
Proof.
  cbn [sib_distinct]. f_equal.
  induction items as [|[[row child] sk] l IH]; [reflexivity|].
  cbn [sib_items]. rewrite <- IH. reflexivity.
Qed.

Lemma rpaths_heads f parent l p :
  In p (rpaths_items f parent l) -> exists h tl, p = h :: tl /\ In h (level_rows f parent l).
Proof.
  induction l as [|[[row child] sk] l IH]; cbn [rpaths_items level_rows]; [intros []|].
  intros [E|Hin].
  - subst. exists row, []. split; [reflexivity|left; reflexivity].
  - apply in_app_or in Hin as [Hin|Hin].
    + destruct child as [ct|]; [|destruct Hin].
      apply in_app_or in Hin as [Hin|Hin].
      * apply in_map_iff in Hin as [q [Eq _]]. subst. exists row, q. split; [reflexivity|left; reflexivity].
      * apply in_map_iff in Hin as [e [Eq He]]. subst. exists e, []. split; [reflexivity|].
        right. apply in_or_app. left. exact He.
    + destruct (IH Hin) as [h [tl [E Hh]]]. exists h, tl. split; [exact E|].
      right. apply in_or_app. right. exact Hh.
Qed.

Lemma NoDup_app_intro {A} (a b : list A) :
  NoDup a -> NoDup b -> (forall x, In x a -> In x b -> False) -> NoDup (a ++ b).
Proof.
  induction a as [|x a IH]; intros Ha Hb Hd; [exact Hb|].
  cbn. inversion Ha as [|? ? Hx Ha']; subst. constructor.
  - intro Hin. apply in_app_or in Hin as [Hin|Hin]; [contradiction|]. apply (Hd x); [left; reflexivity|exact Hin].
  - apply IH; [exact Ha'|exact Hb|]. intros y Hy1 Hy2. apply (Hd y); [right; exact Hy1|exact Hy2].
Qed.

Lemma NoDup_map_inj {A B} (g : A -> B) (l : list A) :
  (forall x y, g x = g y -> x = y) -> NoDup l -> NoDup (map g l).
Proof.
  intros Hg Hl. induction Hl as [|x l Hx Hl IH]; cbn; constructor; [|exact IH].
  intro Hin. apply in_map_iff in Hin as [y [E Hy]]. apply Hg in E. subst. contradiction.
Qed.

Lemma NoDup_le1 {A} (l : list A) : List.length l <= 1 -> NoDup l.
Proof.
  destruct l as [|x [|y l]]; cbn; intro H; [constructor|constructor; [intros []|constructor]|lia].
Qed.

Lemma exit_wrapped_le1 es : List.length (exit_wrapped es) <= 1.
Proof.
  destruct es as [|[x| |] [|[y| |] [|[z| |] [|? ?]]]]; cbn; lia.
Qed.

Lemma exit_inline_le1 es : List.length (exit_inline es) <= 1.
Proof.
  destruct es as [|[x| |] [|? ?]]; cbn; lia.
Qed.

Lemma rpaths_nodup :
  forall t f parent, sib_distinct f parent t = true -> NoDup (rpaths f parent t).
Proof.
  induction t as [items IH] using ptree_ind2. intros f parent Hsd.
  rewrite sib_unfold in Hsd. apply andb_true_iff in Hsd as [Hnd Hsi].
  apply nodup_str_NoDup in Hnd. rewrite rpaths_unfold.
  revert Hnd Hsi.
  induction IH as [|[[row child] sk] l Hit Hl IHl]; intros Hnd Hsi; [constructor|].
  cbn [rpaths_items level_rows sib_items] in *.
  apply andb_true_iff in Hsi as [Hc Hsi].
  inversion Hnd as [|? ? Hrow Hnd']; subst.
  assert (NoDup (level_rows f parent l)) as Hndl.
  { clear - Hnd'. induction (match child with Some _ => _ | None => [] end) as [|a m IHm]; [exact Hnd'|].
    inversion Hnd'; subst. apply IHm. assumption. }
  specialize (IHl Hndl Hsi).
  constructor.
  - (* [row] is not repeated *)
    intro Hin. apply in_app_or in Hin as [Hin|Hin].
    + destruct child as [ct|]; [|destruct Hin].
      apply in_app_or in Hin as [Hin|Hin].
      * apply in_map_iff in Hin as [q [Eq Hq]]. injection Eq as Eq. subst q.
        apply in_app_or in Hq as [Hq|Hq].
        -- destruct ct as [its]. rewrite rpaths_unfold in Hq.
           apply rpaths_heads in Hq as [h [tl [E _]]]. discriminate.
        -- apply in_map_iff in Hq as [e [E _]]. discriminate.
      * apply in_map_iff in Hin as [e [E He]]. injection E as E. subst e.
        apply Hrow. apply in_or_app. left. exact He.
    + apply rpaths_heads in Hin as [h [tl [E Hh]]]. injection E as E1 E2. subst h.
      apply Hrow. apply in_or_app. right. exact Hh.
  - apply NoDup_app_intro; [| exact IHl |].
    + destruct child as [ct|]; [|constructor].
      unfold kidP in Hit. cbn in Hit.
      apply andb_true_iff in Hc as [Hct Hex].
      apply NoDup_app_intro.
      * apply NoDup_map_inj; [intros a b E; injection E as E; exact E|].
        apply NoDup_app_intro.
        -- apply Hit. exact Hct.
        -- apply NoDup_map_inj; [intros a b E; injection E as E; exact E|].
           apply NoDup_le1, exit_wrapped_le1.
        -- intros p Hp1 Hp2. apply in_map_iff in Hp2 as [e [E He]]. subst p.
           destruct ct as [its]. rewrite rpaths_unfold in Hp1.
           apply rpaths_heads in Hp1 as [h [tl [E Hh]]]. injection E as E1 E2. subst h.
           rewrite forallb_forall in Hex. specialize (Hex e He). apply negb_true_iff in Hex.
           cbn [pitems] in Hex.
           assert (existsb (String.eqb e) (level_rows f row its) = true) as Ht.
           { apply existsb_exists. exists e. split; [exact Hh|apply String.eqb_refl]. }
           congruence.
      * apply NoDup_map_inj; [intros a b E; injection E as E; exact E|].
        apply NoDup_le1, exit_inline_le1.
      * intros p Hp1 Hp2. apply in_map_iff in Hp1 as [q [E1 _]]. apply in_map_iff in Hp2 as [e [E2 He]].
        subst p. injection E2 as E2 E3. subst e.
        apply Hrow. apply in_or_app. left. exact He.
    + (* paths of this item vs. paths of the following items: different heads *)
      intros p Hp1 Hp2.
      apply rpaths_heads in Hp2 as [h [tl [E Hh]]]. subst p.
      destruct child as [ct|]; [|destruct Hp1].
      apply in_app_or in Hp1 as [Hp1|Hp1].
      * apply in_map_iff in Hp1 as [q [E _]]. injection E as E1 E2. subst h.
        apply Hrow. apply in_or_app. right. exact Hh.
      * apply in_map_iff in Hp1 as [e [E He]]. injection E as E1 E2. subst h.
        clear - Hnd' He Hh.
        induction (exit_inline (exit_stmt f parent row (next_row l))) as [|a m IHm]; [destruct He|].
        cbn in Hnd'. inversion Hnd' as [|? ? Ha Hm]; subst.
        destruct He as [E|He].
        -- subst. apply Ha. apply in_or_app. right. exact Hh.
        -- apply IHm; assumption.
Qed.

Theorem paths_nodup f parent t :
  sib_distinct f parent t = true ->
  NoDup (raw_paths (blocks f parent t) []) /\
  path_stack (blocks f parent t) [] [] = raw_paths (blocks f parent t) [].
Proof.
  intro H. assert (NoDup (raw_paths (blocks f parent t) [])) as Hnd.
  { rewrite raw_paths_top. apply rpaths_nodup. exact H. }
  split; [exact Hnd|]. rewrite path_stack_raw; [reflexivity|exact Hnd].
Qed.

(* what is shown is what is sent, for every patch tree in the domain and every family *)
Theorem shown_is_sent f t :
  sib_distinct f "" t = true ->
  indent_lines (blocks f "" t) 0 = map lv (path_stack (blocks f "" t) [] []).
Proof.
  intro H. apply stream_shown_is_sent; [apply wb_blocks_top|]. apply (paths_nodup f "" t H).
Qed.

(* Cisco: the address-family blocks close with their own word, every other block with `exit` *)
Lemma exit_cisco parent row next d :
  row <> "" ->
  indent_lines (exit_stmt FCisco parent row next) d =
  [(S d, if startswith "address-family" row then "exit-address-family" else "exit")].
Proof.
  intro H. unfold exit_stmt. destruct (startswith "address-family" row); [reflexivity|].
  destruct row; [contradiction|]. reflexivity.
Qed.
