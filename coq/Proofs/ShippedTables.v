(* The structural condition of Proofs/ShippedRules.v evaluated, by computation, on every shipped pair
   (patching text, ordering text) of Gen/Src_rules.v - the texts the real provider renders for each canonical
   hardware string, parsed by Model/ShippedText.v.  Re-checked whenever the rule texts change. *)
From Coq Require Import List String Bool.
From Annet Require Import Base.Str Model.Rulebook Model.Order Model.ShippedText Spec.P_Shipped Gen.Src_rules
     Proofs.ShippedRules.
Import ListNotations.
Open Scope string_scope.

(* every shipped text is parsed (no %param validator raises) *)
Lemma shipped_all_compile :
  forallb (fun h => match shipped_rset h, shipped_ordering h with Some _, Some _ => true | _, _ => false end) Src_shipped = true.
Proof. vm_compute. reflexivity. Qed.

(* with the literal-word test: every shipped pair satisfies the structural condition *)
Lemma shipped_all_ok_lit : forallb (shipped_entry_ok lit_quiet) Src_shipped = true.
Proof. vm_compute. reflexivity. Qed.

(* without any pattern test: every pair except those of vendor huawei (whose rule file has undo_redo rules -
   through the alias huawei.misc.undo_redo - and whose ordering file has %order_reverse rules) *)
Definition is_huawei (h : shw) : bool := String.eqb (sh_vendor h) "huawei".
Lemma shipped_all_ok_notest : forallb (fun h => is_huawei h || shipped_entry_ok no_test h) Src_shipped = true.
Proof. vm_compute. reflexivity. Qed.

(* the canonical hardware list is not empty and the condition is not vacuous: some shipped pair has
   %order_reverse rules, some has undo_redo rules, and huawei has both *)
Lemma shipped_nonvacuous :
  existsb (fun h => negb (is_huawei h) && match shipped_orev h with [] => false | _ => true end) Src_shipped = true /\
  existsb (fun h => negb (is_huawei h) && match shipped_undo_redo h with [] => false | _ => true end) Src_shipped = true /\
  existsb (fun h => is_huawei h && match shipped_orev h, shipped_undo_redo h with _ :: _, _ :: _ => true | _, _ => false end) Src_shipped = true.
Proof. vm_compute. repeat split; reflexivity. Qed.
