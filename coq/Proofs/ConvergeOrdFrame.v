(* C01 for %ordered rules, layer 3: the FRAME RULE on sequences.
   Proofs/ConvergeRun.v (exec_commute, [run_items_slot]) says that on a level with one entry per slot the
   entry of a slot is changed by the slot's own items only - the DICT reading.  This file strengthens it to the
   SEQUENCE of the rows governed by %ordered rules ([ord_seq] of Spec/P_C01o.v), on levels of ANY shape: rows
   of %ordered rules mixed with rows of other rules and with rows no rule knows, rows with bodies, patch items
   with children.  Projected on its %ordered rows the level is the list machine of Proofs/ConvergeOrdSeq.v:
     - a direct command of an %ordered slot is the machine's direct command (append unless present),
     - the removal command of an %ordered slot is the machine's removal,
     - a direct command or a removal of any OTHER slot, and everything executed inside a block, leaves the
       sequence as it is.
   Domain: [lvl_ok] on the universe of rows (unambiguous removal commands, as everywhere in C01) and "the key
   determines the row" for the %ordered slots of the universe ([okr]; necessary: C01_ordered_retext_refuted).
   No annet model is involved here; this is a theorem about Model/Device.v. *)
From Coq Require Import List String Bool Arith Lia Permutation.
From Annet Require Import Base.Str Base.Tree Model.Rulebook Model.Order Model.Patch Model.Device Spec.P_C01 Spec.P_C01o
     Proofs.ConvergeDevice Proofs.ConvergeRun Proofs.ConvergeOrdSeq.
Import ListNotations.
Open Scope string_scope.
Open Scope list_scope.

Section Frame.
  Variable rmatch : string -> string -> option (list string).
  Variable rreverse : string -> list string -> string.
  Variable is_exit : string -> bool.
  Variable rs : rset.
  Variable U : forest.
  Hypothesis HU : lvl_ok rmatch rreverse is_exit rs U.

  Notation slot := (slot_of rmatch rs).
  Notation rev_of := (reverse_of rreverse).
  Notation ekey := (ekey rmatch rs).
  Notation lkeys := (lkeys rmatch rs).
  Notation lvl_uniq := (lvl_uniq rmatch rs).
  Notation sfind := (sfind rmatch rs).
  Notation oseq := (ord_seq rmatch rs).
  Notation oent := (ord_entry rmatch rs).
  Notation lgood := (lgood rmatch rs U).
  Notation run_item := (run_item rmatch rreverse is_exit rs).

  (* the key determines the row, for the %ordered slots of the universe *)
  Definition okr : Prop :=
    forall r s r' s', In r (keys U) -> slot r = Some s -> In r' (keys U) -> slot r' = Some s' ->
                      is_ordered s = true -> key_of s' = key_of s -> r' = r.
  Hypothesis Hokr : okr.

  (* ---------- the projection ---------- *)
  Lemma oseq_app a b : oseq (a ++ b) = oseq a ++ oseq b.
  Proof. unfold ord_seq. rewrite filter_app, map_app. reflexivity. Qed.

  Lemma oent_slot r t s : slot r = Some s -> oent (r, t) = is_ordered s.
  Proof. intro H. unfold ord_entry. cbn [fst]. rewrite H. reflexivity. Qed.

  Lemma oseq_one r t s : slot r = Some s -> oseq [(r, t)] = if is_ordered s then [r] else [].
  Proof. intro H. unfold ord_seq. cbn [filter]. rewrite (oent_slot r t s H). destruct (is_ordered s); reflexivity. Qed.

  Lemma oseq_mid l1 e l2 : oseq (l1 ++ e :: l2) = oseq l1 ++ oseq [e] ++ oseq l2.
  Proof. change (e :: l2) with ([e] ++ l2). rewrite !oseq_app. reflexivity. Qed.

  Lemma oseq_in r f : In r (oseq f) -> exists t, In (r, t) f /\ oent (r, t) = true.
  Proof.
    unfold ord_seq. intro H. apply in_map_iff in H as ([r' t] & E & H). cbn in E. subst r'.
    apply filter_In in H. exists t. exact H.
  Qed.

  Lemma ordered_by_key r s r2 s2 : In r (keys U) -> slot r = Some s -> In r2 (keys U) -> slot r2 = Some s2 ->
    key_of s2 = key_of s -> is_ordered s2 = is_ordered s.
  Proof.
    intros H1 H2 H3 H4 Hk. injection Hk as Hr _. unfold is_ordered.
    rewrite (lo_attrs _ _ _ _ _ HU r s r2 s2 H1 H2 H3 H4 Hr). reflexivity.
  Qed.

  Lemma nav_oseq c g f : oseq (nav c g f) = oseq f.
  Proof.
    unfold ord_seq. induction f as [|[r t] f IH]; [reflexivity|]. cbn [nav].
    destruct (String.eqb r c).
    - cbn [filter]. change (oent (r, T (g (kids t)))) with (oent (r, t)). destruct (oent (r, t)); reflexivity.
    - cbn [filter]. destruct (oent (r, t)); cbn [map]; rewrite IH; reflexivity.
  Qed.

  (* ---------- a direct command ---------- *)
  Lemma frame_direct cmd s crs f : lgood f -> In cmd (keys U) -> match_row rmatch cmd rs = Some (s, crs) ->
    oseq (exec_direct rmatch rs cmd s crs f) = if is_ordered s then lstep (oseq f) (true, cmd) else oseq f.
  Proof.
    intros [Hu Hin] Hc Hm.
    assert (Hs : slot cmd = Some s) by (unfold slot_of; rewrite Hm; reflexivity).
    assert (Hk : forall t, ekey (cmd, t) = Some (key_of s)) by (intro t; eapply match_ekey; eauto).
    unfold exec_direct. fold (sfind s f). destruct (sfind s f) as [e|] eqn:E.
    - destruct (sfind_split _ _ _ _ _ Hu E) as (l1 & l2 & Ef & He & H1 & H2).
      assert (HeU : In (fst e) (keys U)) by (apply Hin; rewrite Ef; apply in_or_app; right; now left).
      assert (Hem : exists m, slot (fst e) = Some m /\ key_of m = key_of s).
      { unfold ConvergeDevice.ekey in He. destruct (slot (fst e)) as [m|]; [|discriminate]. cbn in He.
        exists m. split; [reflexivity | congruence]. }
      destruct Hem as (m & Hsm & Hkm).
      pose proof (ordered_by_key cmd s (fst e) m Hc Hs HeU Hsm Hkm) as Hom.
      destruct (String.eqb_spec (fst e) cmd) as [Et|Et].
      + (* same text: entered, in place *)
        rewrite Ef, (replace_slot_mid _ _ _ _ _ _ _ H1 He). rewrite !oseq_mid.
        destruct e as [re te]. cbn [fst] in *. subst re.
        rewrite (oseq_one cmd _ s Hs), (oseq_one cmd te s Hs).
        destruct (is_ordered s) eqn:Eo; [|reflexivity].
        unfold lstep. cbn [fst snd].
        assert (Hmem : memb cmd (oseq l1 ++ [cmd] ++ oseq l2) = true).
        { apply memb_In. apply in_or_app. right. now left. }
        rewrite Hmem. reflexivity.
      + destruct (is_ordered s) eqn:Eo.
        * exfalso. apply Et. exact (Hokr cmd s (fst e) m Hc Hs HeU Hsm Eo Hkm).
        * rewrite Ef, (replace_slot_mid _ _ _ _ _ _ _ H1 He). rewrite !oseq_mid.
          destruct e as [re te]. cbn [fst] in *.
          rewrite (oseq_one cmd _ s Hs), (oseq_one re te m Hsm), Hom, Eo. reflexivity.
    - rewrite oseq_app, (oseq_one cmd _ s Hs). destruct (is_ordered s) eqn:Eo; [|apply app_nil_r].
      unfold lstep. cbn [fst snd].
      assert (Hmem : memb cmd (oseq f) = false).
      { apply memb_false. intro Hi. apply oseq_in in Hi as (t & Ht & _).
        apply (proj1 (sfind_none _ _ s f) E). apply lkeys_in. exists (cmd, t). split; [exact Ht | apply Hk]. }
      rewrite Hmem. reflexivity.
  Qed.

  (* ---------- a removal command ---------- *)
  Lemma frame_reverse r s f : rows_in U f -> In r (keys U) -> slot r = Some s ->
    oseq (filter (fun e => negb (reverse_hits rmatch rreverse rs (rev_of s) e)) f) =
    if is_ordered s then lstep (oseq f) (false, r) else oseq f.
  Proof.
    intros Hin Hr Hs.
    assert (Hhit : forall e, In e f -> oent e = true ->
              reverse_hits rmatch rreverse rs (rev_of s) e = if is_ordered s then String.eqb (fst e) r else false).
    { intros e He Ho. unfold ord_entry in Ho. unfold reverse_hits.
      destruct (slot (fst e)) as [m|] eqn:Em; [|discriminate].
      assert (HeU : In (fst e) (keys U)) by (apply Hin; exact He).
      destruct (String.eqb_spec (rev_of m) (rev_of s)) as [Erv|Erv].
      - pose proof (lo_rev_inj _ _ _ _ _ HU r s (fst e) m Hr Hs HeU Em Erv) as Hkm.
        pose proof (ordered_by_key r s (fst e) m Hr Hs HeU Em Hkm) as Hom. rewrite <- Hom, Ho.
        assert (Ho' : is_ordered s = true) by congruence.
        rewrite (Hokr r s (fst e) m Hr Hs HeU Em Ho' Hkm). symmetry. apply String.eqb_refl.
      - destruct (is_ordered s); [|reflexivity].
        destruct (String.eqb_spec (fst e) r) as [Er|Er]; [|reflexivity].
        exfalso. apply Erv. rewrite Er in Em. rewrite Hs in Em. injection Em as <-. reflexivity. }
    unfold lstep, drop. cbn [fst snd]. unfold ord_seq.
    induction f as [|e f IH]; [destruct (is_ordered s); reflexivity|].
    assert (IH' := IH (fun x Hx => Hin x (or_intror Hx)) (fun x Hx => Hhit x (or_intror Hx))). clear IH.
    cbn [filter]. destruct (oent e) eqn:Eo.
    - rewrite (Hhit e (or_introl eq_refl) Eo). destruct (is_ordered s).
      + cbn [map filter]. destruct (String.eqb (fst e) r); cbn [negb].
        * exact IH'.
        * cbn [filter]. rewrite Eo. cbn [map]. f_equal. exact IH'.
      + cbn [negb filter]. rewrite Eo. cbn [map]. f_equal. exact IH'.
    - destruct (negb (reverse_hits rmatch rreverse rs (rev_of s) e)); [cbn [filter]; rewrite Eo|]; exact IH'.
  Qed.

  (* ---------- patch items, tagged with what they do to the %ordered sequence ---------- *)
  Inductive otag : item -> list cmd -> Prop :=
  | ot_dir i s : In (irow i) (keys U) -> slot (irow i) = Some s -> is_ordered s = true -> otag i [(true, irow i)]
  | ot_dir_other i s : In (irow i) (keys U) -> slot (irow i) = Some s -> is_ordered s = false -> otag i []
  | ot_rev i r s : In r (keys U) -> slot r = Some s -> irow i = rev_of s -> ichild i = None ->
                   is_ordered s = true -> otag i [(false, r)]
  | ot_rev_other i r s : In r (keys U) -> slot r = Some s -> irow i = rev_of s -> ichild i = None ->
                         is_ordered s = false -> otag i [].

  Lemma otag_uitem i c : otag i c -> uitem rmatch rreverse rs U i.
  Proof.
    intro H. inversion H; subst.
    - eapply ui_direct; eauto.
    - eapply ui_direct; eauto.
    - eapply ui_reverse; eauto.
    - eapply ui_reverse; eauto.
  Qed.

  Lemma uitem_otag i : uitem rmatch rreverse rs U i -> exists c, otag i c.
  Proof.
    intro H. inversion H as [i0 s Hi Hs|i0 r s Hr Hs Hrow Hch]; subst i0.
    - destruct (is_ordered s) eqn:Eo; eexists; [eapply ot_dir | eapply ot_dir_other]; eauto.
    - destruct (is_ordered s) eqn:Eo; eexists; [eapply ot_rev | eapply ot_rev_other]; eauto.
  Qed.

  Lemma frame_item i c f : otag i c -> lgood f -> oseq (run_item i f) = fold_left lstep c (oseq f).
  Proof.
    intros Ht Hg.
    assert (Hdir : forall s, In (irow i) (keys U) -> slot (irow i) = Some s ->
              oseq (run_item i f) = if is_ordered s then lstep (oseq f) (true, irow i) else oseq f).
    { intros s Hi Hs. unfold slot_of in Hs. destruct (match_row rmatch (irow i) rs) as [[s0 crs]|] eqn:Hm; [|discriminate].
      cbn in Hs. injection Hs as ->.
      assert (Hs : slot (irow i) = Some s) by (unfold slot_of; rewrite Hm; reflexivity).
      assert (Hne : is_exit (irow i) = false) by (eapply (lo_row_not_exit _ _ _ _ _ HU); eauto).
      unfold ConvergeRun.run_item. rewrite Hm.
      rewrite (exec_cmd_direct rmatch rreverse is_exit rs (irow i) s crs f Hne Hm).
      destruct (ichild i); [rewrite nav_oseq|]; apply frame_direct; assumption. }
    assert (Hrev : forall r s, In r (keys U) -> slot r = Some s -> irow i = rev_of s -> ichild i = None ->
              oseq (run_item i f) = if is_ordered s then lstep (oseq f) (false, r) else oseq f).
    { intros r s Hr Hs Hrow Hch.
      assert (Hm : match_row rmatch (irow i) rs = None) by (rewrite Hrow; eapply (lo_rev_unmatched _ _ _ _ _ HU); eauto).
      assert (Hne : is_exit (irow i) = false) by (rewrite Hrow; eapply (lo_rev_not_exit _ _ _ _ _ HU); eauto).
      unfold ConvergeRun.run_item. rewrite Hch.
      rewrite (exec_cmd_reverse rmatch rreverse is_exit rs (irow i) f Hne Hm). rewrite Hrow.
      apply frame_reverse; [exact (proj2 Hg) | exact Hr | exact Hs]. }
    inversion Ht as [i0 s Hi Hs Ho|i0 s Hi Hs Ho|i0 r s Hr Hs Hrow Hch Ho|i0 r s Hr Hs Hrow Hch Ho]; subst; cbn [fold_left].
    - rewrite (Hdir s Hi Hs), Ho. reflexivity.
    - rewrite (Hdir s Hi Hs), Ho. reflexivity.
    - rewrite (Hrev r s Hr Hs Hrow Hch), Ho. reflexivity.
    - rewrite (Hrev r s Hr Hs Hrow Hch), Ho. reflexivity.
  Qed.

  (* THE FRAME RULE: projected on its %ordered rows, running any list of patch items is running the list
     machine on the commands of the %ordered slots; items of other slots and everything executed inside
     blocks do not change the sequence *)
  Theorem frame_seq : forall items css f, Forall2 otag items css -> lgood f ->
    oseq (fold_left (fun a i => run_item i a) items f) = fold_left lstep (List.concat css) (oseq f) /\
    lgood (fold_left (fun a i => run_item i a) items f).
  Proof.
    induction items as [|i items IH]; intros css f H Hg; inversion H as [|i' c l' cs' Hic Hrest]; subst.
    - cbn. auto.
    - cbn [fold_left List.concat]. rewrite fold_left_app.
      assert (Hg' : lgood (run_item i f)).
      { exact (proj1 (run_items_good rmatch rreverse is_exit rs U HU [i] f
                        (Forall_cons i (otag_uitem i c Hic) (Forall_nil _)) Hg)). }
      destruct (IH cs' (run_item i f) Hrest Hg') as [E Hg'']. split; [|exact Hg''].
      rewrite E. rewrite (frame_item i c f Hic Hg). reflexivity.
  Qed.

  (* ... hence: a patch whose %ordered commands satisfy the three conditions of the list machine turns the
     %ordered sequence P ++ M of the level into P ++ D, whatever else the patch does on the level *)
  Theorem frame_machine (P M D : list string) items css f :
    Forall2 otag items css -> lgood f -> oseq f = P ++ M ->
    NoDup (P ++ M) -> NoDup (P ++ D) -> dirs (List.concat css) = D ->
    (forall r, In (false, r) (List.concat css) -> In r M) -> (forall r, In r M -> In (false, r) (List.concat css)) ->
    (forall l1 r l2, List.concat css = l1 ++ (true, r) :: l2 -> ~ In (false, r) l2) ->
    oseq (fold_left (fun a i => run_item i a) items f) = P ++ D.
  Proof.
    intros Ht Hg Ef H1 H2 H3 H4 H5 H6. rewrite (proj1 (frame_seq items css f Ht Hg)), Ef.
    apply machine_converges; assumption.
  Qed.
End Frame.
